import OZ.Lemmas.RwaMon
/-
Helper lemmas for the monitor-soundness theorem of C04, part 2: what ONE accepted invocation of
the RWA model does, as total functions of the pre-state and the operation (`balAfter`,
`frozenAfterOp`, `afAfter`, `modsAfter`, `retSpec`), that it only appends events, and the
invariants of reachable states the monitor's checks rely on.
-/
namespace OZ.Rwa.Mon
open OZ.Host OZ.Fungible OZ.Rwa

/-! ### an accepted invocation only appends events -/

def EvExt (s s' : State) : Prop := ∃ evs, s'.events = s.events ++ evs

theorem EvExt.of_eq {s s' : State} (h : s'.events = s.events) : EvExt s s' := ⟨[], by rw [h, List.append_nil]⟩

theorem EvExt.refl (s : State) : EvExt s s := EvExt.of_eq rfl

theorem EvExt.trans {a b c : State} (h1 : EvExt a b) (h2 : EvExt b c) : EvExt a c := by
  obtain ⟨e1, h1⟩ := h1
  obtain ⟨e2, h2⟩ := h2
  exact ⟨e1 ++ e2, by rw [h2, h1, List.append_assoc]⟩

theorem EvExt.emit {s s' : State} (h : EvExt s s') (ev : Ev) : EvExt s (emit s' ev) := by
  obtain ⟨e1, h1⟩ := h
  exact ⟨e1 ++ [ev], by simp only [Rwa.emit]; rw [h1, List.append_assoc]⟩

theorem unfreezeFor_ev {s s' : State} {a : Nat} {amt : Int} (h : unfreezeFor s a amt = .ok s') : EvExt s s' := by
  unfold unfreezeFor at h
  obtain ⟨free, _, h⟩ := bind_eq_ok h
  split at h
  · obtain ⟨tu, _, h⟩ := bind_eq_ok h
    obtain ⟨nf, _, h⟩ := bind_eq_ok h
    injection h with h; subst h
    exact (EvExt.of_eq rfl).emit _
  · injection h with h; subst h; exact EvExt.refl _

theorem moveTail_ev {s s2 s3 s' : State} {frm to : Option Nat} {amt : Int} {hk : Hook} {mc : ModCall}
    {n : Note} {ev : Ev}
    (h3 : baseUpdate s2 frm to amt = .ok s3) (h0 : s2.events = s.events) (h : (do let s ← hook s3 hk mc; pure (emit (notify s n) ev)) = Except.ok s') :
    EvExt s s' := by
  obtain ⟨b, _, e3⟩ := baseUpdate_ok h3
  subst e3
  obtain ⟨s4, h4, h⟩ := bind_eq_ok h
  obtain ⟨_, e4⟩ := hook_ok h4
  subst e4
  injection h with h; subst h
  exact (EvExt.of_eq h0).emit _

theorem forcedTransfer_ev {s s' : State} {f t : Nat} {amt : Int} (h : forcedTransfer s f t amt = .ok s') :
    EvExt s s' := by
  unfold forcedTransfer at h
  obtain ⟨_, _, h⟩ := bind_eq_ok h
  obtain ⟨s1, h2, h⟩ := bind_eq_ok h
  obtain ⟨s2, h3, h⟩ := bind_eq_ok h
  exact (unfreezeFor_ev h2).trans (moveTail_ev h3 rfl h)

theorem burn_ev {s s' : State} {a : Nat} {amt : Int} (h : burn s a amt = .ok s') : EvExt s s' := by
  unfold burn at h
  obtain ⟨_, _, h⟩ := bind_eq_ok h
  obtain ⟨s1, h2, h⟩ := bind_eq_ok h
  obtain ⟨s2, h3, h⟩ := bind_eq_ok h
  exact (unfreezeFor_ev h2).trans (moveTail_ev h3 rfl h)

theorem mint_ev {s s' : State} {t : Nat} {amt : Int} (h : mint s t amt = .ok s') : EvExt s s' := by
  unfold mint at h
  obtain ⟨s1, h1, h⟩ := bind_eq_ok h
  obtain ⟨_, e1⟩ := verifyIdentity_ok h1
  subst e1
  obtain ⟨s2, h2, h⟩ := bind_eq_ok h
  obtain ⟨_, e2⟩ := queryCanCreate_ok h2
  subst e2
  obtain ⟨s3, h3, h⟩ := bind_eq_ok h
  exact moveTail_ev h3 rfl h

theorem transfer_ev {s s' : State} {auth : List Nat} {f t : Nat} {amt : Int}
    (h : transfer s auth f t amt = .ok s') : EvExt s s' := by
  unfold transfer at h
  obtain ⟨_, _, h⟩ := bind_eq_ok h
  obtain ⟨s1, h1, h⟩ := bind_eq_ok h
  obtain ⟨_, e1⟩ := validateTransfer_ok h1
  subst e1
  obtain ⟨s2, h2, h⟩ := bind_eq_ok h
  exact moveTail_ev h2 rfl h

theorem transferFrom_ev {c : Cfg} {s s' : State} {auth : List Nat} {sp f t : Nat} {amt : Int}
    (h : transferFrom c s auth sp f t amt = .ok s') : EvExt s s' := by
  unfold transferFrom at h
  obtain ⟨_, _, h⟩ := bind_eq_ok h
  obtain ⟨s1, h1, h⟩ := bind_eq_ok h
  obtain ⟨_, e1⟩ := validateTransfer_ok h1
  subst e1
  obtain ⟨s2, h2, h⟩ := bind_eq_ok h
  obtain ⟨b1, _, e2⟩ := baseSpend_ok h2
  subst e2
  obtain ⟨s3, h3, h⟩ := bind_eq_ok h
  exact moveTail_ev h3 rfl h

theorem approve_ev {c : Cfg} {s s' : State} {auth : List Nat} {o sp : Nat} {amt : Int} {lu : Nat}
    (h : approve c s auth o sp amt lu = .ok s') : EvExt s s' := by
  unfold approve at h
  obtain ⟨_, _, h⟩ := bind_eq_ok h
  obtain ⟨s1, h1, h⟩ := bind_eq_ok h
  obtain ⟨b, _, e1⟩ := baseSetAllowance_ok h1
  subst e1
  injection h with h; subst h
  exact (EvExt.of_eq rfl).emit _

theorem freezePartial_ev {s s' : State} {a : Nat} {amt : Int} (h : freezePartial s a amt = .ok s') :
    EvExt s s' := by
  unfold freezePartial at h
  obtain ⟨_, _, h⟩ := bind_eq_ok h
  obtain ⟨nf, _, h⟩ := bind_eq_ok h
  obtain ⟨_, _, h⟩ := bind_eq_ok h
  injection h with h; subst h
  exact (EvExt.of_eq rfl).emit _

theorem unfreezePartial_ev {s s' : State} {a : Nat} {amt : Int} (h : unfreezePartial s a amt = .ok s') :
    EvExt s s' := by
  unfold unfreezePartial at h
  obtain ⟨_, _, h⟩ := bind_eq_ok h
  obtain ⟨_, _, h⟩ := bind_eq_ok h
  obtain ⟨nf, _, h⟩ := bind_eq_ok h
  injection h with h; subst h
  exact (EvExt.of_eq rfl).emit _

theorem refreeze_ev {s s' : State} {new : Nat} {ft : Int} (h : refreeze s new ft = .ok s') : EvExt s s' := by
  unfold refreeze at h
  split at h
  · exact freezePartial_ev h
  · injection h with h; subst h; exact EvExt.refl _

theorem refreezeAddr_ev (s : State) (new : Nat) (b : Bool) : EvExt s (refreezeAddr s new b) := by
  unfold refreezeAddr
  split
  · exact (EvExt.of_eq rfl).emit _
  · exact EvExt.refl _

theorem recoverMove_ev {s s' : State} {old new : Nat} (h : recoverMove s old new = .ok s') : EvExt s s' := by
  unfold recoverMove at h
  obtain ⟨s1, h1, h⟩ := bind_eq_ok h
  obtain ⟨s2, h2, h⟩ := bind_eq_ok h
  injection h with h; subst h
  exact (((forcedTransfer_ev h1).trans (refreeze_ev h2)).trans (refreezeAddr_ev _ _ _)).emit _

theorem recoverBalance_ev {s s' : State} {old new : Nat} {r : Bool}
    (h : recoverBalance s old new = .ok (s', r)) : EvExt s s' := by
  unfold recoverBalance at h
  obtain ⟨s1, h1, h⟩ := bind_eq_ok h
  obtain ⟨s2, h2, h⟩ := bind_eq_ok h
  obtain ⟨_, e1⟩ := verifyIdentity_ok h1
  subst e1
  obtain ⟨_, e2⟩ := checkTarget_ok h2
  subst e2
  unfold recoverRest at h
  split at h
  · injection h with h
    injection h with ha hb
    subst ha; exact EvExt.of_eq rfl
  · split at h
    · rename_i s3 h3
      injection h with h
      injection h with ha hb
      subst ha
      exact (EvExt.of_eq rfl : EvExt s (logId (logId s (.verify new)) (.target old))).trans (recoverMove_ev h3)
    · cases h

theorem apply_events (c : Cfg) {s s' : State} (auth : List Nat) (op : Op) (h : apply c s auth op = .ok s') :
    EvExt s s' := by
  cases op with
  | transfer f t a => exact transfer_ev (apply_transfer h)
  | transferFrom sp f t a => exact transferFrom_ev (apply_transferFrom h)
  | approve o sp a lu => exact approve_ev (apply_approve h)
  | mint t a op => exact mint_ev (apply_mint h).2
  | burn x a op => exact burn_ev (apply_burn h).2
  | forcedTransfer f t a op => exact forcedTransfer_ev (apply_forcedTransfer h).2
  | recover old new op => obtain ⟨-, r, hr⟩ := apply_recover h; exact recoverBalance_ev hr
  | freezePartial x a op => exact freezePartial_ev (apply_freezePartial h).2
  | unfreezePartial x a op => exact unfreezePartial_ev (apply_unfreezePartial h).2
  | setAddressFrozen x b op =>
    obtain ⟨-, e⟩ := apply_setAddressFrozen h; subst e; exact (EvExt.of_eq rfl).emit _
  | pause op => obtain ⟨-, e⟩ := pause_ok (apply_pause h).2; subst e; exact (EvExt.of_eq rfl).emit _
  | unpause op => obtain ⟨-, e⟩ := unpause_ok (apply_unpause h).2; subst e; exact (EvExt.of_eq rfl).emit _
  | advance n => have e := apply_advance h; subst e; exact EvExt.of_eq rfl
  | envIdOk a ok => have e := apply_envIdOk h; subst e; exact EvExt.of_eq rfl
  | envRecTarget a t => have e := apply_envRecTarget h; subst e; exact EvExt.of_eq rfl
  | envModule m ct cc => have e := apply_envModule h; subst e; exact EvExt.of_eq rfl
  | addModule hk m op =>
    obtain ⟨-, -, e⟩ := addModule_ok (apply_addModule h).2; subst e; exact (EvExt.of_eq rfl).emit _
  | removeModule hk m op =>
    obtain ⟨-, e⟩ := removeModule_ok (apply_removeModule h).2; subst e; exact (EvExt.of_eq rfl).emit _
  | bindToken op => obtain ⟨-, e⟩ := bindToken_ok (apply_bindToken h).2; subst e; exact EvExt.of_eq rfl
  | unbindToken op => obtain ⟨-, e⟩ := unbindToken_ok (apply_unbindToken h).2; subst e; exact EvExt.of_eq rfl

/-- the base events of one accepted call replay the printed old balances into the printed new ones -/
theorem replay_step_list {s s' : State} (n : Nat) (hr : ReplayOK s) (hr' : ReplayOK s') (he : EvExt s s') :
    ((s'.events.drop s.events.length).filterMap baseOf).foldl replayBase ((List.range n).map s.base.bal)
      = (List.range n).map s'.base.bal := by
  obtain ⟨evs, he⟩ := he
  unfold ReplayOK at hr hr'
  rw [foldl_replayBase_map, he, List.drop_left, ← foldl_replayEv_baseOf, ← hr', he, ← hr]
  simp [Rwa.replay, List.foldl_append]

/-! ### one accepted invocation, as functions of the pre-state -/

def balAfter (s : State) : Op → (Nat → Int)
  | .transfer f t a => movedBal s.base.bal f t a
  | .transferFrom _ f t a => movedBal s.base.bal f t a
  | .forcedTransfer f t a _ => movedBal s.base.bal f t a
  | .mint t a _ => upd s.base.bal t (s.base.bal t + a)
  | .burn x a _ => upd s.base.bal x (s.base.bal x + -a)
  | .recover old new _ => if s.base.bal old = 0 then s.base.bal else movedBal s.base.bal old new (s.base.bal old)
  | _ => s.base.bal

def frozenAfterOp (s : State) : Op → (Nat → Int)
  | .forcedTransfer f _ a _ => upd s.frozen f (frozenAfter s f a)
  | .burn x a _ => upd s.frozen x (frozenAfter s x a)
  | .recover old new _ =>
    if s.base.bal old = 0 then s.frozen
    else if old = new then s.frozen
    else upd (upd s.frozen old 0) new (upd s.frozen old 0 new + s.frozen old)
  | .freezePartial x a _ => upd s.frozen x (s.frozen x + a)
  | .unfreezePartial x a _ => upd s.frozen x (s.frozen x + -a)
  | _ => s.frozen

def afAfter (s : State) : Op → (Nat → Bool)
  | .recover old new _ =>
    if s.base.bal old = 0 then s.addrFrozen else upd s.addrFrozen new (s.addrFrozen new || s.addrFrozen old)
  | .setAddressFrozen x b _ => upd s.addrFrozen x b
  | _ => s.addrFrozen

def modsAfter (s : State) : Op → (Hook → List Nat)
  | .addModule h m _ => fun k => if k = h then s.mods h ++ [m] else s.mods k
  | .removeModule h m _ => fun k => if k = h then (s.mods h).erase m else s.mods k
  | _ => s.mods

def retSpec (s : State) : Op → Bool
  | .recover old _ _ => decide (s.base.bal old ≠ 0)
  | _ => true

def isEnvModule : Op → Bool
  | .envModule _ _ _ => true
  | _ => false

/-- everything the monitor's state checks need to know about the post-state of an accepted call -/
structure Post (s s' : State) (op : Op) (r : Bool) : Prop where
  bal : s'.base.bal = balAfter s op
  frozen : s'.frozen = frozenAfterOp s op
  addrFrozen : s'.addrFrozen = afAfter s op
  mods : s'.mods = modsAfter s op
  admin : s'.admin = s.admin
  ret : r = retSpec s op
  scripts : isEnvModule op = false → s'.modCanTransfer = s.modCanTransfer ∧ s'.modCanCreate = s.modCanCreate

theorem movedBal_of {b b' : Nat → Int} {f t : Nat} {amt : Int}
    (h : ∀ x, b' x = (if x = t then (if t = f then b f - amt else b t) + amt
                      else if x = f then b f - amt else b x)) : b' = movedBal b f t amt := by
  funext x
  rw [h x]
  simp only [movedBal, upd, Int.sub_eq_add_neg]

theorem applyRet_apply {c : Cfg} {s s' : State} {auth : List Nat} {op : Op} {r : Bool}
    (h : applyRet c s auth op = .ok (s', r)) : apply c s auth op = .ok s' := by
  unfold apply; rw [h]

theorem applyRet_true {c : Cfg} {s s' : State} {auth : List Nat} {op : Op} {r : Bool}
    (h : applyRet c s auth op = .ok (s', r)) (hop : ∀ o n x, op ≠ .recover o n x) : r = true := by
  cases op with
  | recover old new op => exact absurd rfl (hop old new op)
  | transfer f t a => obtain ⟨_, _, h⟩ := bind_eq_ok h; injection h with h; injection h with _ hb; exact hb.symm
  | transferFrom sp f t a => obtain ⟨_, _, h⟩ := bind_eq_ok h; injection h with h; injection h with _ hb; exact hb.symm
  | approve o sp a lu => obtain ⟨_, _, h⟩ := bind_eq_ok h; injection h with h; injection h with _ hb; exact hb.symm
  | mint t a op =>
    obtain ⟨_, _, h⟩ := bind_eq_ok h; obtain ⟨_, _, h⟩ := bind_eq_ok h
    injection h with h; injection h with _ hb; exact hb.symm
  | burn x a op =>
    obtain ⟨_, _, h⟩ := bind_eq_ok h; obtain ⟨_, _, h⟩ := bind_eq_ok h
    injection h with h; injection h with _ hb; exact hb.symm
  | forcedTransfer f t a op =>
    obtain ⟨_, _, h⟩ := bind_eq_ok h; obtain ⟨_, _, h⟩ := bind_eq_ok h
    injection h with h; injection h with _ hb; exact hb.symm
  | freezePartial x a op =>
    obtain ⟨_, _, h⟩ := bind_eq_ok h; obtain ⟨_, _, h⟩ := bind_eq_ok h
    injection h with h; injection h with _ hb; exact hb.symm
  | unfreezePartial x a op =>
    obtain ⟨_, _, h⟩ := bind_eq_ok h; obtain ⟨_, _, h⟩ := bind_eq_ok h
    injection h with h; injection h with _ hb; exact hb.symm
  | setAddressFrozen x b op =>
    obtain ⟨_, _, h⟩ := bind_eq_ok h; injection h with h; injection h with _ hb; exact hb.symm
  | pause op =>
    obtain ⟨_, _, h⟩ := bind_eq_ok h; obtain ⟨_, _, h⟩ := bind_eq_ok h
    injection h with h; injection h with _ hb; exact hb.symm
  | unpause op =>
    obtain ⟨_, _, h⟩ := bind_eq_ok h; obtain ⟨_, _, h⟩ := bind_eq_ok h
    injection h with h; injection h with _ hb; exact hb.symm
  | advance n => injection h with h; injection h with _ hb; exact hb.symm
  | envIdOk a ok => injection h with h; injection h with _ hb; exact hb.symm
  | envRecTarget a t => injection h with h; injection h with _ hb; exact hb.symm
  | envModule m ct cc => injection h with h; injection h with _ hb; exact hb.symm
  | addModule hk m op =>
    obtain ⟨_, _, h⟩ := bind_eq_ok h; obtain ⟨_, _, h⟩ := bind_eq_ok h
    injection h with h; injection h with _ hb; exact hb.symm
  | removeModule hk m op =>
    obtain ⟨_, _, h⟩ := bind_eq_ok h; obtain ⟨_, _, h⟩ := bind_eq_ok h
    injection h with h; injection h with _ hb; exact hb.symm
  | bindToken op =>
    obtain ⟨_, _, h⟩ := bind_eq_ok h; obtain ⟨_, _, h⟩ := bind_eq_ok h
    injection h with h; injection h with _ hb; exact hb.symm
  | unbindToken op =>
    obtain ⟨_, _, h⟩ := bind_eq_ok h; obtain ⟨_, _, h⟩ := bind_eq_ok h
    injection h with h; injection h with _ hb; exact hb.symm

/-- an operation that leaves balances, freeze state, registry, admin and scripts alone -/
theorem Post.same {s s' : State} {op : Op}
    (hb : s'.base.bal = s.base.bal) (hf : s'.frozen = s.frozen) (ha : s'.addrFrozen = s.addrFrozen)
    (hm : s'.mods = s.mods) (had : s'.admin = s.admin)
    (hs : s'.modCanTransfer = s.modCanTransfer ∧ s'.modCanCreate = s.modCanCreate)
    (e1 : balAfter s op = s.base.bal) (e2 : frozenAfterOp s op = s.frozen) (e3 : afAfter s op = s.addrFrozen)
    (e4 : modsAfter s op = s.mods) (e5 : retSpec s op = true) : Post s s' op true :=
  ⟨by rw [e1]; exact hb, by rw [e2]; exact hf, by rw [e3]; exact ha, by rw [e4]; exact hm, had, e5.symm, fun _ => hs⟩

theorem apply_post (c : Cfg) {s s' : State} (hi : FrozenInv s) (auth : List Nat) (op : Op) {r : Bool}
    (h : applyRet c s auth op = .ok (s', r)) : Post s s' op r := by
  have ha := applyRet_apply h
  cases op with
  | transfer f t a =>
    have hr := applyRet_true h (by intro _ _ _ e; cases e)
    subst hr
    have p := (transfer_ok (apply_transfer ha)).2
    exact ⟨movedBal_of p.bal, p.frozen, p.addrFrozen, p.env.mods, p.env.admin, rfl,
      fun _ => ⟨p.env.modCanTransfer, p.env.modCanCreate⟩⟩
  | transferFrom sp f t a =>
    have hr := applyRet_true h (by intro _ _ _ e; cases e)
    subst hr
    have p := (transferFrom_ok (apply_transferFrom ha)).2.2
    exact ⟨movedBal_of p.bal, p.frozen, p.addrFrozen, p.env.mods, p.env.admin, rfl,
      fun _ => ⟨p.env.modCanTransfer, p.env.modCanCreate⟩⟩
  | approve o sp a lu =>
    have hr := applyRet_true h (by intro _ _ _ e; cases e)
    subst hr
    obtain ⟨-, e1, -, e2, e3, -, -, e, -⟩ := approve_ok (apply_approve ha)
    exact Post.same e1 e2 e3 e.mods e.admin ⟨e.modCanTransfer, e.modCanCreate⟩ rfl rfl rfl rfl rfl
  | mint t a op =>
    have hr := applyRet_true h (by intro _ _ _ e; cases e)
    subst hr
    have p := mint_ok (apply_mint ha).2
    obtain ⟨-, -, -, -, hb⟩ := update_mint p.update
    refine ⟨?_, p.frozen, p.addrFrozen, p.env.mods, p.env.admin, rfl, fun _ => ⟨p.env.modCanTransfer, p.env.modCanCreate⟩⟩
    funext x; rw [hb x]; rfl
  | burn x a op =>
    have hr := applyRet_true h (by intro _ _ _ e; cases e)
    subst hr
    have p := burn_ok (apply_burn ha).2
    obtain ⟨-, -, -, -, -, hb⟩ := update_burn p.update
    refine ⟨?_, ?_, p.addrFrozen, p.env.mods, p.env.admin, rfl, fun _ => ⟨p.env.modCanTransfer, p.env.modCanCreate⟩⟩
    · funext y; rw [hb y]; simp only [balAfter, upd, Int.sub_eq_add_neg]
    · funext y; rw [p.frozen y]; rfl
  | forcedTransfer f t a op =>
    have hr := applyRet_true h (by intro _ _ _ e; cases e)
    subst hr
    have p := forcedTransfer_ok (apply_forcedTransfer ha).2
    obtain ⟨-, -, -, -, -, hb⟩ := update_move p.update
    refine ⟨movedBal_of hb, ?_, p.addrFrozen, p.env.mods, p.env.admin, rfl,
      fun _ => ⟨p.env.modCanTransfer, p.env.modCanCreate⟩⟩
    funext y; rw [p.frozen y]; rfl
  | recover old new op =>
    obtain ⟨_, -, hr⟩ := bind_eq_ok h
    obtain ⟨-, -, hcase⟩ := recoverBalance_ok hr
    rcases hcase with ⟨hfalse, hz, e⟩ | ⟨htrue, hnz, p⟩
    · subst e; subst hfalse
      refine ⟨?_, ?_, ?_, rfl, rfl, ?_, fun _ => ⟨rfl, rfl⟩⟩
      · simp only [balAfter]; rw [if_pos hz]; rfl
      · simp only [frozenAfterOp]; rw [if_pos hz]; rfl
      · simp only [afAfter]; rw [if_pos hz]; rfl
      · simp [retSpec, hz]
    · subst htrue
      obtain ⟨-, -, -, -, -, hb⟩ := update_move p.update
      have hfa := frozenAfter_all (hi old).1
      have h0 := (hi old).1
      refine ⟨?_, ?_, ?_, p.env.mods, p.env.admin, ?_, fun _ => ⟨p.env.modCanTransfer, p.env.modCanCreate⟩⟩
      · simp only [balAfter]; rw [if_neg hnz]; exact movedBal_of hb
      · simp only [frozenAfterOp]; rw [if_neg hnz]
        by_cases hon : old = new
        · subst hon
          rw [if_pos rfl]
          funext x
          rw [p.frozen x, hfa]
          by_cases hpos : s.frozen old > 0
          · rw [if_pos hpos]; split
            · rename_i hx; subst hx; rw [if_pos rfl]; omega
            · rfl
          · rw [if_neg hpos]; split
            · rename_i hx; subst hx; omega
            · rfl
        · rw [if_neg hon]
          have hno : ¬ new = old := fun e => hon e.symm
          funext x
          rw [p.frozen x, hfa]
          simp only [upd]
          by_cases hpos : s.frozen old > 0
          · rw [if_pos hpos, if_neg hno]
          · rw [if_neg hpos, if_neg hno]
            have hz : s.frozen old = 0 := by omega
            by_cases hxn : x = new
            · subst hxn; rw [if_pos rfl, if_neg hno]; omega
            · rw [if_neg hxn]
      · simp only [afAfter]; rw [if_neg hnz]
        funext x; rw [p.addrFrozen x]; rfl
      · simp [retSpec, hnz]
  | freezePartial x a op =>
    have hr := applyRet_true h (by intro _ _ _ e; cases e)
    subst hr
    obtain ⟨-, -, eb, ea, -, -, e, ef, -⟩ := freezePartial_ok (apply_freezePartial ha).2
    refine ⟨by rw [eb]; rfl, ?_, ea, e.mods, e.admin, rfl, fun _ => ⟨e.modCanTransfer, e.modCanCreate⟩⟩
    funext y; rw [ef y]; rfl
  | unfreezePartial x a op =>
    have hr := applyRet_true h (by intro _ _ _ e; cases e)
    subst hr
    obtain ⟨-, -, eb, ea, -, -, e, ef, -⟩ := unfreezePartial_ok (apply_unfreezePartial ha).2
    refine ⟨by rw [eb]; rfl, ?_, ea, e.mods, e.admin, rfl, fun _ => ⟨e.modCanTransfer, e.modCanCreate⟩⟩
    funext y; rw [ef y]; simp only [frozenAfterOp, upd, Int.sub_eq_add_neg]
  | setAddressFrozen x b op =>
    have hr := applyRet_true h (by intro _ _ _ e; cases e)
    subst hr
    obtain ⟨-, e⟩ := apply_setAddressFrozen ha
    subst e
    exact ⟨rfl, rfl, rfl, rfl, rfl, rfl, fun _ => ⟨rfl, rfl⟩⟩
  | pause op =>
    have hr := applyRet_true h (by intro _ _ _ e; cases e)
    subst hr
    obtain ⟨-, e⟩ := pause_ok (apply_pause ha).2
    subst e
    exact ⟨rfl, rfl, rfl, rfl, rfl, rfl, fun _ => ⟨rfl, rfl⟩⟩
  | unpause op =>
    have hr := applyRet_true h (by intro _ _ _ e; cases e)
    subst hr
    obtain ⟨-, e⟩ := unpause_ok (apply_unpause ha).2
    subst e
    exact ⟨rfl, rfl, rfl, rfl, rfl, rfl, fun _ => ⟨rfl, rfl⟩⟩
  | advance n =>
    have hr := applyRet_true h (by intro _ _ _ e; cases e)
    subst hr
    have e := apply_advance ha; subst e
    exact ⟨rfl, rfl, rfl, rfl, rfl, rfl, fun _ => ⟨rfl, rfl⟩⟩
  | envIdOk a ok =>
    have hr := applyRet_true h (by intro _ _ _ e; cases e)
    subst hr
    have e := apply_envIdOk ha; subst e
    exact ⟨rfl, rfl, rfl, rfl, rfl, rfl, fun _ => ⟨rfl, rfl⟩⟩
  | envRecTarget a t =>
    have hr := applyRet_true h (by intro _ _ _ e; cases e)
    subst hr
    have e := apply_envRecTarget ha; subst e
    exact ⟨rfl, rfl, rfl, rfl, rfl, rfl, fun _ => ⟨rfl, rfl⟩⟩
  | envModule m ct cc =>
    have hr := applyRet_true h (by intro _ _ _ e; cases e)
    subst hr
    have e := apply_envModule ha; subst e
    exact ⟨rfl, rfl, rfl, rfl, rfl, rfl, fun hc => by cases hc⟩
  | addModule hk m op =>
    have hr := applyRet_true h (by intro _ _ _ e; cases e)
    subst hr
    obtain ⟨-, -, e⟩ := addModule_ok (apply_addModule ha).2
    subst e
    exact ⟨rfl, rfl, rfl, rfl, rfl, rfl, fun _ => ⟨rfl, rfl⟩⟩
  | removeModule hk m op =>
    have hr := applyRet_true h (by intro _ _ _ e; cases e)
    subst hr
    obtain ⟨-, e⟩ := removeModule_ok (apply_removeModule ha).2
    subst e
    exact ⟨rfl, rfl, rfl, rfl, rfl, rfl, fun _ => ⟨rfl, rfl⟩⟩
  | bindToken op =>
    have hr := applyRet_true h (by intro _ _ _ e; cases e)
    subst hr
    obtain ⟨-, e⟩ := bindToken_ok (apply_bindToken ha).2
    subst e
    exact ⟨rfl, rfl, rfl, rfl, rfl, rfl, fun _ => ⟨rfl, rfl⟩⟩
  | unbindToken op =>
    have hr := applyRet_true h (by intro _ _ _ e; cases e)
    subst hr
    obtain ⟨-, e⟩ := unbindToken_ok (apply_unbindToken ha).2
    subst e
    exact ⟨rfl, rfl, rfl, rfl, rfl, rfl, fun _ => ⟨rfl, rfl⟩⟩

end OZ.Rwa.Mon
