import OZ.Model.IdentityRegistry
/-
The registry of claim topics and trusted issuers keeps two redundant indices (issuer ↦ topics and
topic ↦ issuers) in step with the two ordered lists.  `Reg.Inv` states that; every accepted
operation preserves it, and on the defining components (`topics`, `issuerTopics`) every accepted
operation is a plain set / map update (`*_spec`).
-/
namespace OZ.Identity
open OZ.Host

theorem upd_eq {β} (f : Nat → β) (a : Nat) (v : β) : upd f a v a = v := by simp [upd]
theorem upd_ne {β} (f : Nat → β) (a x : Nat) (v : β) (h : x ≠ a) : upd f a v x = f x := by
  simp [upd, h]

/-! ### closed forms of the loops -/

/-- an accepted `pushIssuer` found an entry for every listed topic -/
theorem pushIssuer_some {i : Nat} : ∀ {ts : List Nat} {ti ti' : Nat → Option (List Nat)},
    pushIssuer i ti ts = .ok ti' → ts.Nodup → ∀ t ∈ ts, (ti t).isSome
  | [], _, _, _, _, t, ht => by cases ht
  | x :: rest, ti, ti', e, hn, t, ht => by
    have hx : x ∉ rest := (List.nodup_cons.mp hn).1
    have hr : rest.Nodup := (List.nodup_cons.mp hn).2
    unfold pushIssuer at e
    split at e
    · cases e
    · rename_i l hl
      cases ht with
      | head => rw [hl]; rfl
      | tail _ h' =>
        have := pushIssuer_some e hr t h'
        rw [upd_ne _ _ _ _ (fun c : t = x => hx (c ▸ h'))] at this
        exact this

/-- closed form of an accepted `pushIssuer` over a duplicate-free topic list -/
theorem pushIssuer_closed {i : Nat} : ∀ {ts : List Nat} {ti ti' : Nat → Option (List Nat)},
    pushIssuer i ti ts = .ok ti' → ts.Nodup →
    ∀ t, ti' t = if t ∈ ts then (ti t).map (fun l => l ++ [i]) else ti t
  | [], ti, ti', e, _, t => by
    unfold pushIssuer at e
    cases e
    simp
  | x :: rest, ti, ti', e, hn, t => by
    have hx : x ∉ rest := (List.nodup_cons.mp hn).1
    have hr : rest.Nodup := (List.nodup_cons.mp hn).2
    unfold pushIssuer at e
    split at e
    · cases e
    · rename_i l hl
      have ih := pushIssuer_closed e hr t
      rw [ih]
      by_cases htx : t = x
      · subst htx
        rw [if_neg hx, if_pos (List.mem_cons_self ..), upd_eq, hl]; rfl
      · rw [upd_ne _ _ _ _ htx]
        by_cases htr : t ∈ rest
        · rw [if_pos htr, if_pos (List.mem_cons_of_mem _ htr)]
        · rw [if_neg htr, if_neg (by simp [htx, htr])]

/-- `pushIssuer` is accepted when every listed topic has an entry -/
theorem pushIssuer_ok {i : Nat} : ∀ {ts : List Nat} {ti : Nat → Option (List Nat)},
    (∀ t ∈ ts, (ti t).isSome) → ∃ ti', pushIssuer i ti ts = .ok ti'
  | [], ti, _ => ⟨ti, rfl⟩
  | x :: rest, ti, h => by
    unfold pushIssuer
    have hx := h x (List.mem_cons_self ..)
    split
    · rename_i hn; rw [hn] at hx; cases hx
    · rename_i l hl
      apply pushIssuer_ok
      intro t ht
      by_cases htx : t = x
      · subst htx; rw [upd_eq]; rfl
      · rw [upd_ne _ _ _ _ htx]; exact h t (List.mem_cons_of_mem _ ht)

/-- one step of `dropIssuer`, pointwise -/
theorem dropStep_apply (i : Nat) (ti : Nat → Option (List Nat)) (x : Nat) (l : List Nat)
    (hl : ti x = some l) (t : Nat) :
    (if l.contains i then upd ti x (some (l.erase i)) else ti) t
      = if t = x then some (l.erase i) else ti t := by
  by_cases hc : l.contains i = true
  · rw [if_pos hc]; rfl
  · rw [if_neg hc]
    have hni : i ∉ l := fun h => hc (List.contains_iff_mem.mpr h)
    by_cases htx : t = x
    · subst htx; rw [if_pos rfl, hl, List.erase_of_not_mem hni]
    · rw [if_neg htx]

/-- closed form of an accepted `dropIssuer` over a duplicate-free topic list -/
theorem dropIssuer_closed {i : Nat} : ∀ {ts : List Nat} {ti ti' : Nat → Option (List Nat)},
    dropIssuer i ti ts = .ok ti' → ts.Nodup →
    ∀ t, ti' t = if t ∈ ts then (ti t).map (fun l => l.erase i) else ti t
  | [], ti, ti', e, _, t => by
    unfold dropIssuer at e
    cases e
    simp
  | x :: rest, ti, ti', e, hn, t => by
    have hx : x ∉ rest := (List.nodup_cons.mp hn).1
    have hr : rest.Nodup := (List.nodup_cons.mp hn).2
    unfold dropIssuer at e
    split at e
    · cases e
    · rename_i l hl
      have ih := dropIssuer_closed e hr t
      rw [ih, dropStep_apply i ti x l hl t]
      by_cases htx : t = x
      · subst htx
        rw [if_neg hx, if_pos rfl, if_pos (List.mem_cons_self ..), hl]; rfl
      · rw [if_neg htx]
        by_cases htr : t ∈ rest
        · rw [if_pos htr, if_pos (List.mem_cons_of_mem _ htr)]
        · rw [if_neg htr, if_neg (by simp [htx, htr])]

/-- one iteration of the issuer loop of `remove_claim_topic`, pointwise -/
theorem eraseTopicAt_apply (it : Nat → Option (List Nat)) (t i x : Nat) :
    eraseTopicAt it t i x = if x = i then (it x).map (fun ts => ts.erase t) else it x := by
  unfold eraseTopicAt
  cases hts : it i with
  | some ts =>
    dsimp only
    by_cases hc : ts.contains t = true
    · rw [if_pos hc]
      by_cases hxi : x = i
      · subst hxi; rw [upd_eq, if_pos rfl, hts]; rfl
      · rw [upd_ne _ _ _ _ hxi, if_neg hxi]
    · rw [if_neg hc]
      have hni : t ∉ ts := fun h => hc (List.contains_iff_mem.mpr h)
      by_cases hxi : x = i
      · subst hxi; rw [if_pos rfl, hts]; simp [List.erase_of_not_mem hni]
      · rw [if_neg hxi]
  | none =>
    dsimp only
    by_cases hxi : x = i
    · subst hxi; rw [if_pos rfl, hts]; rfl
    · rw [if_neg hxi]

/-- closed form of the issuer loop of `remove_claim_topic` over a duplicate-free issuer list -/
theorem eraseTopicFromIssuers_closed (t : Nat) : ∀ (is : List Nat) (it : Nat → Option (List Nat)),
    is.Nodup →
    ∀ i, eraseTopicFromIssuers t it is i
      = if i ∈ is then (it i).map (fun ts => ts.erase t) else it i
  | [], it, _, i => by simp [eraseTopicFromIssuers]
  | x :: rest, it, hn, i => by
    have hx : x ∉ rest := (List.nodup_cons.mp hn).1
    have hr : rest.Nodup := (List.nodup_cons.mp hn).2
    unfold eraseTopicFromIssuers
    rw [eraseTopicFromIssuers_closed t rest _ hr i, eraseTopicAt_apply]
    by_cases hix : i = x
    · subst hix
      rw [if_neg hx, if_pos rfl, if_pos (List.mem_cons_self ..)]
    · rw [if_neg hix]
      by_cases hir : i ∈ rest
      · rw [if_pos hir, if_pos (List.mem_cons_of_mem _ hir)]
      · rw [if_neg hir, if_neg (by simp [hix, hir])]

/-! ### what an accepted operation is -/

theorem validTopicSet_iff (r : Reg) (ts : List Nat) :
    validTopicSet r ts = true ↔
      ts ≠ [] ∧ ts.length ≤ MAX_CLAIM_TOPICS ∧ ts.Nodup ∧ ∀ t ∈ ts, t ∈ r.topics := by
  unfold validTopicSet
  simp only [Bool.and_eq_true, Bool.not_eq_true', decide_eq_true_eq, List.all_eq_true,
    List.contains_iff_mem, List.isEmpty_eq_false_iff, and_assoc]

theorem addTopic_unpack {r r' : Reg} {t : Nat} (e : addTopic r t = .ok r') :
    t ∉ r.topics ∧
    r' = ⟨r.topics ++ [t], r.issuers, r.issuerTopics, upd r.topicIssuers t (some [])⟩ := by
  unfold addTopic at e
  split at e
  · cases e
  · split at e
    · cases e
    · rename_i _ hc
      injection e with e
      exact ⟨fun h => hc (List.contains_iff_mem.mpr h), e.symm⟩

theorem removeTopic_unpack {r r' : Reg} {t : Nat} (e : removeTopic r t = .ok r') :
    t ∈ r.topics ∧
    r' = ⟨r.topics.erase t, r.issuers, eraseTopicFromIssuers t r.issuerTopics r.issuers,
          upd r.topicIssuers t none⟩ := by
  unfold removeTopic at e
  split at e
  · rename_i hc
    injection e with e
    exact ⟨List.contains_iff_mem.mp hc, e.symm⟩
  · cases e

theorem addIssuer_unpack {r r' : Reg} {i : Nat} {ts : List Nat} (e : addIssuer r i ts = .ok r') :
    validTopicSet r ts = true ∧ i ∉ r.issuers ∧
    ∃ ti, pushIssuer i r.topicIssuers ts = .ok ti ∧
      r' = ⟨r.topics, r.issuers ++ [i], upd r.issuerTopics i (some ts), ti⟩ := by
  unfold addIssuer at e
  split at e
  · cases e
  · rename_i hv
    split at e
    · cases e
    · split at e
      · cases e
      · rename_i _ hc
        split at e
        · cases e
        · rename_i ti hti
          injection e with e
          refine ⟨by simpa using hv, fun h => hc (List.contains_iff_mem.mpr h), ti, hti, e.symm⟩

theorem removeIssuer_unpack {r r' : Reg} {i : Nat} (e : removeIssuer r i = .ok r') :
    i ∈ r.issuers ∧
    ∃ ts ti, r.issuerTopics i = some ts ∧ dropIssuer i r.topicIssuers ts = .ok ti ∧
      r' = ⟨r.topics, r.issuers.erase i, upd r.issuerTopics i none, ti⟩ := by
  unfold removeIssuer at e
  split at e
  · rename_i hc
    split at e
    · cases e
    · rename_i ts hts
      split at e
      · cases e
      · rename_i ti hti
        injection e with e
        exact ⟨List.contains_iff_mem.mp hc, ts, ti, hts, hti, e.symm⟩
  · cases e

theorem updateIssuer_unpack {r r' : Reg} {i : Nat} {ts : List Nat}
    (e : updateIssuer r i ts = .ok r') :
    validTopicSet r ts = true ∧ i ∈ r.issuers ∧
    ∃ old ti1 ti2, r.issuerTopics i = some old ∧
      dropIssuer i r.topicIssuers (old.filter (fun t => !ts.contains t)) = .ok ti1 ∧
      pushIssuer i ti1 (ts.filter (fun t => !old.contains t)) = .ok ti2 ∧
      r' = ⟨r.topics, r.issuers, upd r.issuerTopics i (some ts), ti2⟩ := by
  unfold updateIssuer at e
  split at e
  · cases e
  · rename_i hv
    split at e
    · cases e
    · rename_i hc
      split at e
      · cases e
      · rename_i old hold
        split at e
        · cases e
        · rename_i ti1 h1
          split at e
          · cases e
          · rename_i ti2 h2
            injection e with e
            refine ⟨by simpa using hv, ?_, old, ti1, ti2, hold, h1, h2, e.symm⟩
            apply List.contains_iff_mem.mp
            simpa using hc

/-! ### plain set / map behaviour on the defining components -/

theorem addTopic_spec {r r' : Reg} {t : Nat} (e : addTopic r t = .ok r') :
    t ∉ r.topics ∧ r'.topics = r.topics ++ [t] ∧ r'.issuerTopics = r.issuerTopics ∧
      r'.issuers = r.issuers := by
  obtain ⟨h, rfl⟩ := addTopic_unpack e
  exact ⟨h, rfl, rfl, rfl⟩

theorem addIssuer_spec {r r' : Reg} {i : Nat} {ts : List Nat} (e : addIssuer r i ts = .ok r') :
    i ∉ r.issuers ∧ r'.topics = r.topics ∧ r'.issuers = r.issuers ++ [i] ∧
    r'.issuerTopics = upd r.issuerTopics i (some ts) ∧ ts ≠ [] ∧ ts.Nodup ∧
      ∀ t ∈ ts, t ∈ r.topics := by
  obtain ⟨hv, hi, ti, _, rfl⟩ := addIssuer_unpack e
  obtain ⟨h1, _, h3, h4⟩ := (validTopicSet_iff r ts).mp hv
  exact ⟨hi, rfl, rfl, rfl, h1, h3, h4⟩

theorem removeIssuer_spec {r r' : Reg} {i : Nat} (e : removeIssuer r i = .ok r') :
    i ∈ r.issuers ∧ r'.topics = r.topics ∧ r'.issuers = r.issuers.erase i ∧
    r'.issuerTopics = upd r.issuerTopics i none := by
  obtain ⟨hi, ts, ti, _, _, rfl⟩ := removeIssuer_unpack e
  exact ⟨hi, rfl, rfl, rfl⟩

theorem updateIssuer_spec {r r' : Reg} {i : Nat} {ts : List Nat}
    (e : updateIssuer r i ts = .ok r') :
    i ∈ r.issuers ∧ r'.topics = r.topics ∧ r'.issuers = r.issuers ∧
    r'.issuerTopics = upd r.issuerTopics i (some ts) ∧ ts ≠ [] ∧ ts.Nodup ∧
      ∀ t ∈ ts, t ∈ r.topics := by
  obtain ⟨hv, hi, old, ti1, ti2, _, _, _, rfl⟩ := updateIssuer_unpack e
  obtain ⟨h1, _, h3, h4⟩ := (validTopicSet_iff r ts).mp hv
  exact ⟨hi, rfl, rfl, rfl, h1, h3, h4⟩

/-! ### the invariant -/

/-- the two lists are duplicate-free and are the key sets of the two maps; an issuer's topics are
duplicate-free registered topics; a topic's issuer list is duplicate-free and is exactly the set of
issuers that list the topic -/
structure Reg.Inv (r : Reg) : Prop where
  topicsNodup : r.topics.Nodup
  issuersNodup : r.issuers.Nodup
  topicSome : ∀ t, t ∈ r.topics ↔ (r.topicIssuers t).isSome
  issuerSome : ∀ i, i ∈ r.issuers ↔ (r.issuerTopics i).isSome
  issuerTopicsOk : ∀ i ts, r.issuerTopics i = some ts → ts.Nodup ∧ ∀ t ∈ ts, t ∈ r.topics
  fwd : ∀ t l, r.topicIssuers t = some l →
          l.Nodup ∧ ∀ i, i ∈ l ↔ ∃ ts, r.issuerTopics i = some ts ∧ t ∈ ts

theorem inv_empty : Reg.empty.Inv := by
  refine ⟨List.nodup_nil, List.nodup_nil, ?_, ?_, ?_, ?_⟩ <;> simp [Reg.empty]

theorem nodup_snoc {l : List Nat} {a : Nat} (h : l.Nodup) (ha : a ∉ l) : (l ++ [a]).Nodup := by
  rw [List.nodup_append]
  refine ⟨h, by simp, ?_⟩
  intro x hx y hy
  rw [List.mem_singleton] at hy
  subst hy
  exact fun c => ha (c ▸ hx)

theorem mem_snoc {l : List Nat} {a x : Nat} : x ∈ l ++ [a] ↔ x ∈ l ∨ x = a := by
  rw [List.mem_append, List.mem_singleton]

/-- the reverse index stays exact when the entry of one issuer `i` changes to `v` and every
topic's issuer list changes, at most, in whether it contains `i` -/
theorem fwd_of_point {it ti ti' : Nat → Option (List Nat)} {i : Nat} {v : Option (List Nat)}
    (hf : ∀ t l, ti t = some l → l.Nodup ∧ ∀ j, j ∈ l ↔ ∃ ts, it j = some ts ∧ t ∈ ts)
    (h' : ∀ t l', ti' t = some l' → ∃ l, ti t = some l ∧ l'.Nodup ∧
            (i ∈ l' ↔ ∃ ts, v = some ts ∧ t ∈ ts) ∧ ∀ j, j ≠ i → (j ∈ l' ↔ j ∈ l)) :
    ∀ t l', ti' t = some l' →
      l'.Nodup ∧ ∀ j, j ∈ l' ↔ ∃ ts, upd it i v j = some ts ∧ t ∈ ts := by
  intro t l' hl'
  obtain ⟨l, hl, hn, hi, hj⟩ := h' t l' hl'
  refine ⟨hn, fun j => ?_⟩
  by_cases hji : j = i
  · subst hji; rw [upd_eq]; exact hi
  · rw [upd_ne _ _ _ _ hji, hj j hji]; exact (hf t l hl).2 j

theorem inv_addTopic {r r' : Reg} {t : Nat} (h : r.Inv) (e : addTopic r t = .ok r') : r'.Inv := by
  obtain ⟨ht, rfl⟩ := addTopic_unpack e
  refine ⟨nodup_snoc h.topicsNodup ht, h.issuersNodup, ?_, h.issuerSome, ?_, ?_⟩
  · intro x
    dsimp only
    rw [mem_snoc]
    by_cases hx : x = t
    · subst hx; rw [upd_eq]; simp
    · rw [upd_ne _ _ _ _ hx, ← h.topicSome x]; simp [hx]
  · intro i ts hts
    obtain ⟨h1, h2⟩ := h.issuerTopicsOk i ts hts
    exact ⟨h1, fun x hx => mem_snoc.mpr (Or.inl (h2 x hx))⟩
  · intro x l hl
    dsimp only at hl ⊢
    by_cases hx : x = t
    · subst hx
      rw [upd_eq] at hl
      injection hl with hl
      subst hl
      refine ⟨List.nodup_nil, fun i => ⟨fun c => (by cases c), ?_⟩⟩
      rintro ⟨ts, hts, hm⟩
      exact absurd ((h.issuerTopicsOk i ts hts).2 x hm) ht
    · rw [upd_ne _ _ _ _ hx] at hl
      exact h.fwd x l hl

/-- under the invariant the issuer loop of `remove_claim_topic` erases the topic from every entry -/
theorem eraseTopicFromIssuers_inv {r : Reg} (h : r.Inv) (t i : Nat) :
    eraseTopicFromIssuers t r.issuerTopics r.issuers i
      = (r.issuerTopics i).map (fun ts => ts.erase t) := by
  rw [eraseTopicFromIssuers_closed t _ _ h.issuersNodup]
  by_cases hi : i ∈ r.issuers
  · rw [if_pos hi]
  · rw [if_neg hi]
    have : r.issuerTopics i = none := by
      cases hn : r.issuerTopics i with
      | none => rfl
      | some ts => exact absurd ((h.issuerSome i).mpr (by rw [hn]; rfl)) hi
    rw [this]; rfl

theorem removeTopic_spec {r r' : Reg} {t : Nat} (h : r.Inv) (e : removeTopic r t = .ok r') :
    t ∈ r.topics ∧ (∀ x, x ∈ r'.topics ↔ x ∈ r.topics ∧ x ≠ t) ∧ r'.issuers = r.issuers ∧
    ∀ i, r'.issuerTopics i = (r.issuerTopics i).map (fun ts => ts.erase t) := by
  obtain ⟨ht, rfl⟩ := removeTopic_unpack e
  refine ⟨ht, fun x => ?_, rfl, fun i => eraseTopicFromIssuers_inv h t i⟩
  dsimp only
  rw [h.topicsNodup.mem_erase_iff, and_comm]

theorem inv_removeTopic {r r' : Reg} {t : Nat} (h : r.Inv) (e : removeTopic r t = .ok r') :
    r'.Inv := by
  obtain ⟨_, htop, hiss, hit⟩ := removeTopic_spec h e
  obtain ⟨ht, hr'⟩ := removeTopic_unpack e
  have hti : r'.topicIssuers = upd r.topicIssuers t none := by rw [hr']
  have htops : r'.topics = r.topics.erase t := by rw [hr']
  refine ⟨htops ▸ h.topicsNodup.erase t, hiss ▸ h.issuersNodup, ?_, ?_, ?_, ?_⟩
  · intro x
    rw [htop, hti]
    by_cases hx : x = t
    · subst hx; rw [upd_eq]; simp
    · rw [upd_ne _ _ _ _ hx, ← h.topicSome x]; simp [hx]
  · intro i
    rw [hiss, hit, h.issuerSome i]
    cases r.issuerTopics i <;> rfl
  · intro i ts' hts'
    rw [hit] at hts'
    cases hts : r.issuerTopics i with
    | none => rw [hts] at hts'; cases hts'
    | some ts =>
      rw [hts] at hts'
      injection hts' with hts'
      subst hts'
      obtain ⟨h1, h2⟩ := h.issuerTopicsOk i ts hts
      refine ⟨h1.erase t, fun x hx => ?_⟩
      rw [h1.mem_erase_iff] at hx
      exact (htop x).mpr ⟨h2 x hx.2, hx.1⟩
  · intro x l hl
    rw [hti] at hl
    by_cases hx : x = t
    · subst hx; rw [upd_eq] at hl; cases hl
    · rw [upd_ne _ _ _ _ hx] at hl
      obtain ⟨h1, h2⟩ := h.fwd x l hl
      refine ⟨h1, fun i => ?_⟩
      rw [h2 i, hit]
      cases r.issuerTopics i with
      | none => simp
      | some ts => simp [List.mem_erase_of_ne hx]

theorem isSome_ite_map {α : Type} (c : Prop) [Decidable c] (o : Option α) (g : α → α) :
    (if c then o.map g else o).isSome = o.isSome := by
  split <;> simp

theorem inv_addIssuer {r r' : Reg} {i : Nat} {ts : List Nat} (h : r.Inv)
    (e : addIssuer r i ts = .ok r') : r'.Inv := by
  obtain ⟨hv, hi, ti', hp, rfl⟩ := addIssuer_unpack e
  obtain ⟨_, _, hnd, hsub⟩ := (validTopicSet_iff r ts).mp hv
  have hcl := pushIssuer_closed hp hnd
  refine ⟨h.topicsNodup, nodup_snoc h.issuersNodup hi, ?_, ?_, ?_, ?_⟩
  · intro t
    dsimp only
    rw [hcl, isSome_ite_map]; exact h.topicSome t
  · intro j
    dsimp only
    rw [mem_snoc]
    by_cases hj : j = i
    · subst hj; rw [upd_eq]; simp
    · rw [upd_ne _ _ _ _ hj, ← h.issuerSome j]; simp [hj]
  · intro j ts' hts'
    dsimp only at hts' ⊢
    by_cases hj : j = i
    · subst hj; rw [upd_eq] at hts'; injection hts' with hts'; subst hts'; exact ⟨hnd, hsub⟩
    · rw [upd_ne _ _ _ _ hj] at hts'; exact h.issuerTopicsOk j ts' hts'
  · apply fwd_of_point h.fwd
    intro t l' hl'
    dsimp only at hl'
    rw [hcl] at hl'
    cases hl : r.topicIssuers t with
    | none => rw [hl] at hl'; split at hl' <;> cases hl'
    | some l =>
      rw [hl] at hl'
      obtain ⟨hn, hm⟩ := h.fwd t l hl
      have hil : i ∉ l := by
        intro c
        obtain ⟨ts0, h0, _⟩ := (hm i).mp c
        exact hi ((h.issuerSome i).mpr (by rw [h0]; rfl))
      by_cases ht : t ∈ ts
      · rw [if_pos ht] at hl'
        injection hl' with hl'
        subst hl'
        refine ⟨l, rfl, nodup_snoc hn hil,
          ⟨fun _ => ⟨ts, rfl, ht⟩, fun _ => mem_snoc.mpr (Or.inr rfl)⟩, fun j hj => ?_⟩
        rw [mem_snoc]; simp [hj]
      · rw [if_neg ht] at hl'
        injection hl' with hl'
        subst hl'
        refine ⟨l, rfl, hn, ⟨fun c => absurd c hil, ?_⟩, fun j _ => Iff.rfl⟩
        rintro ⟨ts', e', m⟩
        injection e' with e'
        subst e'
        exact absurd m ht

theorem inv_removeIssuer {r r' : Reg} {i : Nat} (h : r.Inv) (e : removeIssuer r i = .ok r') :
    r'.Inv := by
  obtain ⟨hi, ts, ti', hts, hd, rfl⟩ := removeIssuer_unpack e
  obtain ⟨hnd, _⟩ := h.issuerTopicsOk i ts hts
  have hcl := dropIssuer_closed hd hnd
  refine ⟨h.topicsNodup, h.issuersNodup.erase i, ?_, ?_, ?_, ?_⟩
  · intro t
    dsimp only
    rw [hcl, isSome_ite_map]; exact h.topicSome t
  · intro j
    dsimp only
    rw [h.issuersNodup.mem_erase_iff]
    by_cases hj : j = i
    · subst hj; rw [upd_eq]; simp
    · rw [upd_ne _ _ _ _ hj, ← h.issuerSome j]; simp [hj]
  · intro j ts' hts'
    dsimp only at hts' ⊢
    by_cases hj : j = i
    · subst hj; rw [upd_eq] at hts'; cases hts'
    · rw [upd_ne _ _ _ _ hj] at hts'; exact h.issuerTopicsOk j ts' hts'
  · apply fwd_of_point h.fwd
    intro t l' hl'
    dsimp only at hl'
    rw [hcl] at hl'
    cases hl : r.topicIssuers t with
    | none => rw [hl] at hl'; split at hl' <;> cases hl'
    | some l =>
      rw [hl] at hl'
      obtain ⟨hn, hm⟩ := h.fwd t l hl
      by_cases ht : t ∈ ts
      · rw [if_pos ht] at hl'
        injection hl' with hl'
        subst hl'
        refine ⟨l, rfl, hn.erase i, ⟨fun c => ?_, fun ⟨_, c, _⟩ => by cases c⟩,
          fun j hj => List.mem_erase_of_ne hj⟩
        exact absurd rfl (hn.mem_erase_iff.mp c).1
      · rw [if_neg ht] at hl'
        injection hl' with hl'
        subst hl'
        refine ⟨l, rfl, hn, ⟨fun c => ?_, fun ⟨_, c, _⟩ => by cases c⟩, fun j _ => Iff.rfl⟩
        obtain ⟨ts', e', m⟩ := (hm i).mp c
        rw [hts] at e'
        injection e' with e'
        subst e'
        exact absurd m ht

theorem inv_updateIssuer {r r' : Reg} {i : Nat} {ts : List Nat} (h : r.Inv)
    (e : updateIssuer r i ts = .ok r') : r'.Inv := by
  obtain ⟨hv, hi, old, ti1, ti2, hold, hd, hp, rfl⟩ := updateIssuer_unpack e
  obtain ⟨_, _, hnd, hsub⟩ := (validTopicSet_iff r ts).mp hv
  obtain ⟨hond, _⟩ := h.issuerTopicsOk i old hold
  have hcl1 := dropIssuer_closed hd (hond.filter _)
  have hcl2 := pushIssuer_closed hp (hnd.filter _)
  have hD : ∀ t, t ∈ old.filter (fun t => !ts.contains t) ↔ t ∈ old ∧ t ∉ ts := by
    intro t; simp [List.mem_filter]
  have hP : ∀ t, t ∈ ts.filter (fun t => !old.contains t) ↔ t ∈ ts ∧ t ∉ old := by
    intro t; simp [List.mem_filter]
  refine ⟨h.topicsNodup, h.issuersNodup, ?_, ?_, ?_, ?_⟩
  · intro t
    dsimp only
    rw [hcl2, isSome_ite_map, hcl1, isSome_ite_map]; exact h.topicSome t
  · intro j
    dsimp only
    by_cases hj : j = i
    · subst hj; rw [upd_eq]; simp [hi]
    · rw [upd_ne _ _ _ _ hj]; exact h.issuerSome j
  · intro j ts' hts'
    dsimp only at hts' ⊢
    by_cases hj : j = i
    · subst hj; rw [upd_eq] at hts'; injection hts' with hts'; subst hts'; exact ⟨hnd, hsub⟩
    · rw [upd_ne _ _ _ _ hj] at hts'; exact h.issuerTopicsOk j ts' hts'
  · apply fwd_of_point h.fwd
    intro t l' hl'
    dsimp only at hl'
    rw [hcl2, hcl1] at hl'
    cases hl : r.topicIssuers t with
    | none => rw [hl] at hl'; split at hl' <;> split at hl' <;> cases hl'
    | some l =>
      rw [hl] at hl'
      obtain ⟨hn, hm⟩ := h.fwd t l hl
      have hil : i ∈ l ↔ t ∈ old := by
        rw [hm i]
        constructor
        · rintro ⟨ts', e', m⟩
          rw [hold] at e'; injection e' with e'; subst e'; exact m
        · exact fun m => ⟨old, hold, m⟩
      have hrhs : (∃ ts', some ts = some ts' ∧ t ∈ ts') ↔ t ∈ ts := by
        constructor
        · rintro ⟨ts', e', m⟩; injection e' with e'; subst e'; exact m
        · exact fun m => ⟨ts, rfl, m⟩
      by_cases hto : t ∈ old
      · by_cases htt : t ∈ ts
        · rw [if_neg (fun c => ((hP t).mp c).2 hto), if_neg (fun c => ((hD t).mp c).2 htt)] at hl'
          injection hl' with hl'
          subst hl'
          exact ⟨l, rfl, hn, by rw [hrhs, hil]; exact ⟨fun _ => htt, fun _ => hto⟩,
            fun j _ => Iff.rfl⟩
        · rw [if_neg (fun c => htt ((hP t).mp c).1), if_pos ((hD t).mpr ⟨hto, htt⟩)] at hl'
          injection hl' with hl'
          subst hl'
          refine ⟨l, rfl, hn.erase i, ?_, fun j hj => List.mem_erase_of_ne hj⟩
          rw [hrhs]
          exact ⟨fun c => absurd rfl (hn.mem_erase_iff.mp c).1, fun c => absurd c htt⟩
      · by_cases htt : t ∈ ts
        · rw [if_pos ((hP t).mpr ⟨htt, hto⟩), if_neg (fun c => hto ((hD t).mp c).1)] at hl'
          injection hl' with hl'
          subst hl'
          refine ⟨l, rfl, nodup_snoc hn (fun c => hto (hil.mp c)), ?_, fun j hj => ?_⟩
          · rw [hrhs]; exact ⟨fun _ => htt, fun _ => mem_snoc.mpr (Or.inr rfl)⟩
          · rw [mem_snoc]; simp [hj]
        · rw [if_neg (fun c => htt ((hP t).mp c).1), if_neg (fun c => hto ((hD t).mp c).1)] at hl'
          injection hl' with hl'
          subst hl'
          refine ⟨l, rfl, hn, ?_, fun j _ => Iff.rfl⟩
          rw [hrhs, hil]
          exact ⟨fun c => absurd c hto, fun c => absurd c htt⟩

theorem inv_apply {r r' : Reg} (op : RegOp) (h : r.Inv) (e : op.apply r = .ok r') : r'.Inv := by
  cases op with
  | addTopic t => exact inv_addTopic h e
  | removeTopic t => exact inv_removeTopic h e
  | addIssuer i ts => exact inv_addIssuer h e
  | removeIssuer i => exact inv_removeIssuer h e
  | updateIssuer i ts => exact inv_updateIssuer h e

theorem inv_step {r : Reg} (op : RegOp) (h : r.Inv) : (regStep r op).Inv := by
  unfold regStep
  split
  · rename_i r' e; exact inv_apply op h e
  · exact h

theorem inv_foldl (ops : List RegOp) : ∀ {r : Reg}, r.Inv → (ops.foldl regStep r).Inv := by
  induction ops with
  | nil => exact fun h => h
  | cons op rest ih => exact fun h => ih (inv_step op h)

theorem inv_replay (ops : List RegOp) : (regReplay ops).Inv := inv_foldl ops inv_empty

/-! ### the verifier's view -/

theorem collect_spec (ti : Nat → Option (List Nat)) : ∀ (ts : List Nat),
    (∀ t ∈ ts, (ti t).isSome) →
    ∃ tis, collect ti ts = .ok tis ∧ ∀ t l, (t, l) ∈ tis ↔ t ∈ ts ∧ ti t = some l
  | [], _ => ⟨[], rfl, by simp⟩
  | x :: rest, h => by
    obtain ⟨tis, hc, hm⟩ := collect_spec ti rest (fun t ht => h t (List.mem_cons_of_mem _ ht))
    have hx := h x (List.mem_cons_self ..)
    cases hl : ti x with
    | none => rw [hl] at hx; cases hx
    | some l0 =>
      refine ⟨(x, l0) :: tis, by simp only [collect, hl, hc], fun t l => ?_⟩
      rw [List.mem_cons, List.mem_cons, hm t l]
      constructor
      · rintro (c | c)
        · injection c with c1 c2; subst c1; subst c2; exact ⟨Or.inl rfl, hl⟩
        · exact ⟨Or.inr c.1, c.2⟩
      · rintro ⟨c | c, hl'⟩
        · subst c; rw [hl] at hl'; injection hl' with hl'; subst hl'; exact Or.inl rfl
        · exact Or.inr ⟨c, hl'⟩

theorem collect_ok {r : Reg} (h : r.Inv) :
    ∃ tis, getClaimTopicsAndIssuers r = .ok tis ∧
      (∀ t l, (t, l) ∈ tis ↔ t ∈ r.topics ∧ r.topicIssuers t = some l) :=
  collect_spec r.topicIssuers r.topics (fun t ht => (h.topicSome t).mp ht)

end OZ.Identity
