import OZ.Model.Votes
import OZ.Lemmas.Fungible
/-
Helper lemmas for the votes model: sums over a duplicate-free universe under point changes,
well-formed checkpoint timelines, the binary search, and the exact effect of every
primitive of packages/governance/src/votes/storage.rs.
-/
namespace OZ.Votes
open OZ.Host

theorem upd_same {β} (f : Nat → β) (a : Nat) (v : β) : upd f a v a = v := by simp [upd]
theorem upd_other {β} (f : Nat → β) (a x : Nat) (v : β) (h : x ≠ a) : upd f a v x = f x := by
  simp [upd, h]

/-! ### sums -/

theorem sumN_congr_notin (U : List Nat) (g g' : Nat → Nat) (a : Nat) (h : a ∉ U)
    (hg : ∀ d, d ≠ a → g' d = g d) : sumN U g' = sumN U g := by
  induction U with
  | nil => rfl
  | cons x xs ih =>
    have hx : x ≠ a := fun e => h (by simp [e])
    have hxs : a ∉ xs := fun e => h (by simp [e])
    simp only [sumN, List.map_cons, List.sum_cons] at *
    rw [hg x hx, ih hxs]

/-- changing a map at one point `a ∈ U` changes the sum by exactly that difference -/
theorem sumN_change (U : List Nat) (g g' : Nat → Nat) (a : Nat) (hn : U.Nodup) (h : a ∈ U)
    (hg : ∀ d, d ≠ a → g' d = g d) : sumN U g' + g a = sumN U g + g' a := by
  induction U with
  | nil => cases h
  | cons x xs ih =>
    have hnx : x ∉ xs := (List.nodup_cons.mp hn).1
    have hnxs : xs.Nodup := (List.nodup_cons.mp hn).2
    simp only [sumN, List.map_cons, List.sum_cons] at *
    by_cases hx : x = a
    · subst hx
      have := sumN_congr_notin xs g g' x hnx hg
      simp only [sumN] at this
      rw [this]; omega
    · have hxs : a ∈ xs := by
        cases h with
        | head => exact absurd rfl hx
        | tail _ h' => exact h'
      have := ih hnxs hxs
      rw [hg x hx]; omega

theorem sumN_congr (U : List Nat) (g g' : Nat → Nat) (hg : ∀ d, g' d = g d) : sumN U g' = sumN U g := by
  have : g' = g := funext hg
  rw [this]

theorem sumN_zero (U : List Nat) : sumN U (fun _ => 0) = 0 := by
  induction U with
  | nil => rfl
  | cons x xs ih => simp only [sumN, List.map_cons, List.sum_cons] at *; omega

theorem sumN_le_sumN (U : List Nat) (f g : Nat → Nat) (h : ∀ d, f d ≤ g d) : sumN U f ≤ sumN U g := by
  induction U with
  | nil => simp [sumN]
  | cons x xs ih =>
    simp only [sumN, List.map_cons, List.sum_cons] at *
    have := h x; omega

theorem le_sumN (U : List Nat) (g : Nat → Nat) (a : Nat) (h : a ∈ U) : g a ≤ sumN U g := by
  induction U with
  | nil => cases h
  | cons x xs ih =>
    simp only [sumN, List.map_cons, List.sum_cons] at *
    cases h with
    | head => omega
    | tail _ h' => have := ih h'; omega

/-! ### the midpoint -/

theorem mid_gt {low high : Nat} (h : low < high) : low < mid low high := by
  simp only [mid, divCeil2]; split <;> omega

theorem mid_le {low high : Nat} (h : low < high) : mid low high ≤ high := by
  simp only [mid, divCeil2]; split <;> omega

/-- the `u32` subtraction `mid - 1` never wraps -/
theorem mid_pos {low high : Nat} (h : low < high) : 1 ≤ mid low high := by
  have := mid_gt h; omega

/-! ### well-formed timelines -/

/-- every index below the counter holds an entry, ledgers increase strictly with the index
and none lies after `now` -/
structure WF (t : Timeline) (now : Nat) : Prop where
  present : ∀ i, i < t.num → ∃ c, t.cp i = some c
  sorted : ∀ i j ci cj, i < j → j < t.num → t.cp i = some ci → t.cp j = some cj →
    ci.ledger < cj.ledger
  bound : ∀ i c, i < t.num → t.cp i = some c → c.ledger ≤ now

theorem WF.mono {t : Timeline} {now now' : Nat} (h : WF t now) (hle : now ≤ now') : WF t now' :=
  ⟨h.present, h.sorted, fun i c hi hc => Nat.le_trans (h.bound i c hi hc) hle⟩

theorem WF_empty (now : Nat) : WF Timeline.empty now :=
  ⟨fun i hi => by simp [Timeline.empty] at hi, fun i j _ _ _ hj => by simp [Timeline.empty] at hj,
   fun i _ hi => by simp [Timeline.empty] at hi⟩

/-- at most one checkpoint per ledger: the counter never exceeds `now + 1` -/
theorem WF.num_le {t : Timeline} {now : Nat} (h : WF t now) : t.num ≤ now + 1 := by
  suffices ∀ n, n ≤ t.num → ∀ i c, i < n → t.cp i = some c → i ≤ c.ledger by
    by_cases h0 : t.num = 0
    · omega
    · obtain ⟨c, hc⟩ := h.present (t.num - 1) (by omega)
      have h1 := this t.num (Nat.le_refl _) (t.num - 1) c (by omega) hc
      have h2 := h.bound (t.num - 1) c (by omega) hc
      omega
  intro n
  induction n with
  | zero => intro _ i c hi; omega
  | succ n ih =>
    intro hn i c hi hc
    by_cases hlt : i < n
    · exact ih (by omega) i c hlt hc
    · have hin : i = n := by omega
      subst hin
      by_cases h0 : i = 0
      · omega
      · obtain ⟨c', hc'⟩ := h.present (i - 1) (by omega)
        have h1 := ih (by omega) (i - 1) c' (by omega) hc'
        have h2 := h.sorted (i - 1) i c' c (by omega) (by omega) hc' hc
        omega

theorem latest_of_ok {t : Timeline} {p : Nat} (h : latest t = .ok p) : p = latestVotes t := by
  unfold latest at h; unfold latestVotes
  split at h
  · rename_i h0; rw [if_pos h0]; injection h with h; exact h.symm
  · rename_i h0; rw [if_neg h0]
    split at h
    · injection h with h; exact h.symm
    · cases h

/-- under `WF` the read of the newest entry never fails -/
theorem latest_present {t : Timeline} {now : Nat} (h : WF t now) : latest t = .ok (latestVotes t) := by
  unfold latest latestVotes
  by_cases h0 : t.num = 0
  · rw [if_pos h0, if_pos h0]
  · rw [if_neg h0, if_neg h0]
    obtain ⟨c, hc⟩ := h.present (t.num - 1) (by omega)
    rw [hc]

/-! ### `scan`: the specification of a lookup -/

theorem scan_congr (cp cp' : Nat → Option Checkpoint) (q n : Nat) (h : ∀ i, i < n → cp' i = cp i) :
    scan cp' q n = scan cp q n := by
  induction n with
  | zero => rfl
  | succ n ih =>
    simp only [scan]
    rw [h n (by omega), ih (fun i hi => h i (by omega))]

/-- no entry at or before `q`: the answer is 0 -/
theorem scan_none (cp : Nat → Option Checkpoint) (q n : Nat)
    (h : ∀ i c, i < n → cp i = some c → q < c.ledger) : scan cp q n = 0 := by
  induction n with
  | zero => rfl
  | succ n ih =>
    simp only [scan]
    have ih' := ih (fun i c hi hc => h i c (by omega) hc)
    cases hc : cp n with
    | none => exact ih'
    | some c =>
      have := h n c (by omega) hc
      simp only
      rw [if_neg (by omega)]; exact ih'

/-- entry `r` is at or before `q` and every later entry is after `q`: the answer is entry `r` -/
theorem scan_at (cp : Nat → Option Checkpoint) (q n r : Nat) (c : Checkpoint) (hr : r < n)
    (hc : cp r = some c) (hle : c.ledger ≤ q)
    (hgt : ∀ j cj, r < j → j < n → cp j = some cj → q < cj.ledger) : scan cp q n = c.votes := by
  induction n with
  | zero => omega
  | succ n ih =>
    simp only [scan]
    by_cases hrn : r = n
    · subst hrn; rw [hc]; simp only; rw [if_pos hle]
    · have ih' := ih (by omega) (fun j cj h1 h2 h3 => hgt j cj h1 (by omega) h3)
      cases hcn : cp n with
      | none => exact ih'
      | some cn =>
        have := hgt n cn (by omega) (by omega) hcn
        simp only
        rw [if_neg (by omega)]; exact ih'

/-- a query at or after the newest checkpoint returns the current value -/
theorem valueAt_recent {t : Timeline} {now q : Nat} (h : WF t now) (hq : now ≤ q) :
    valueAt t q = latestVotes t := by
  unfold valueAt latestVotes
  by_cases h0 : t.num = 0
  · rw [if_pos h0, h0]; rfl
  · rw [if_neg h0]
    obtain ⟨c, hc⟩ := h.present (t.num - 1) (by omega)
    rw [hc]
    have hb := h.bound (t.num - 1) c (by omega) hc
    exact scan_at t.cp q t.num (t.num - 1) c (by omega) hc (by omega)
      (fun j cj h1 h2 _ => by omega)

/-! ### the binary search -/

/-- loop invariant of the `while low < high` loop: entry `low` is at or before `q`, every
entry above `high` is after `q`; at exit `low` is the last entry at or before `q` -/
theorem bsearch_spec (t : Timeline) (now q : Nat) (hw : WF t now) :
    ∀ (d low high : Nat), high - low = d → low ≤ high → high < t.num →
      (∀ c, t.cp low = some c → c.ledger ≤ q) →
      (∀ j cj, high < j → j < t.num → t.cp j = some cj → q < cj.ledger) →
      ∃ r c, bsearch t.cp q low high = .ok r ∧ r < t.num ∧ t.cp r = some c ∧ c.ledger ≤ q ∧
        (∀ j cj, r < j → j < t.num → t.cp j = some cj → q < cj.ledger) := by
  intro d
  induction d using Nat.strongRecOn with
  | _ d ih =>
    intro low high hd hlh hhn hlow hhigh
    unfold bsearch
    by_cases hlt : low < high
    · rw [if_pos hlt]
      have hm1 := mid_gt hlt
      have hm2 := mid_le hlt
      obtain ⟨cm, hcm⟩ := hw.present (mid low high) (by omega)
      rw [hcm]; simp only
      by_cases hle : cm.ledger ≤ q
      · rw [if_pos hle]
        exact ih (high - mid low high) (by omega) (mid low high) high rfl hm2 hhn
          (fun c hc => by rw [hcm] at hc; injection hc with hc; subst hc; exact hle) hhigh
      · rw [if_neg hle]
        refine ih (mid low high - 1 - low) (by omega) low (mid low high - 1) rfl (by omega) (by omega)
          hlow ?_
        intro j cj h1 h2 h3
        by_cases hjm : j = mid low high
        · subst hjm; rw [hcm] at h3; injection h3 with h3; subst h3; omega
        · have := hw.sorted (mid low high) j cm cj (by omega) h2 hcm h3
          omega
    · rw [if_neg hlt]
      have hlh' : low = high := by omega
      subst hlh'
      obtain ⟨c, hc⟩ := hw.present low hhn
      exact ⟨low, c, rfl, hhn, hc, hlow c hc, hhigh⟩

/-- **the lookup is correct**: on a well-formed timeline `lookup_checkpoint_at` never fails
and returns the votes of the last checkpoint at or before `q`, 0 if there is none -/
theorem lookup_eq_valueAt {t : Timeline} {now : Nat} (hw : WF t now) (q : Nat) :
    lookupCheckpointAt t q = .ok (valueAt t q) := by
  unfold lookupCheckpointAt valueAt
  by_cases h0 : t.num = 0
  · rw [if_pos h0, h0]; rfl
  · rw [if_neg h0]
    obtain ⟨cl, hcl⟩ := hw.present (t.num - 1) (by omega)
    rw [hcl]; simp only
    by_cases hle : cl.ledger ≤ q
    · rw [if_pos hle]
      rw [scan_at t.cp q t.num (t.num - 1) cl (by omega) hcl hle (fun j cj h1 h2 _ => by omega)]
    · rw [if_neg hle]
      unfold lookupFirst
      obtain ⟨cf, hcf⟩ := hw.present 0 (by omega)
      rw [hcf]; simp only
      by_cases hgt : cf.ledger > q
      · rw [if_pos hgt]
        rw [scan_none t.cp q t.num]
        intro i c hi hc
        by_cases hi0 : i = 0
        · subst hi0; rw [hcf] at hc; injection hc with hc; subst hc; exact hgt
        · have := hw.sorted 0 i cf c (by omega) hi hcf hc
          omega
      · rw [if_neg hgt]
        unfold lookupSearch
        obtain ⟨r, c, hb, hr, hc, hcle, hafter⟩ :=
          bsearch_spec t now q hw (t.num - 1 - 0) 0 (t.num - 1) rfl (by omega) (by omega)
            (fun c hc => by rw [hcf] at hc; injection hc with hc; subst hc; omega)
            (fun j cj h1 h2 _ => by omega)
        rw [hb]; simp only
        rw [hc]; simp only
        rw [scan_at t.cp q t.num r c hr hc hcle hafter]

/-! ### `store` / `push_checkpoint` -/

/-- `store` writes `(now, v)` at index `k` and sets the counter to `k + 1`, where `k` is
either the old counter (append: there is no entry yet or the last one is from another
ledger) or the index of the last entry (overwrite: it carries the current ledger) -/
theorem store_cases {t t' : Timeline} {now v : Nat} (h : store t now v = .ok t') :
    ∃ k, t'.num = k + 1 ∧ t'.cp = upd t.cp k (some ⟨now, v⟩) ∧
      ((k = t.num ∧ k + 1 ≤ U32_MAX ∧ ∀ c, t.num ≠ 0 → t.cp (t.num - 1) = some c → c.ledger ≠ now) ∨
       (k + 1 = t.num ∧ ∃ c, t.cp k = some c ∧ c.ledger = now)) := by
  unfold store at h
  split at h
  · rename_i h0
    injection h with h; subst h
    exact ⟨0, rfl, rfl, .inl ⟨h0.symm, by simp [U32_MAX], fun c hc => absurd h0 hc⟩⟩
  · rename_i h0
    split at h
    · cases h
    · rename_i c hc
      split at h
      · rename_i hcl
        injection h with h; subst h
        exact ⟨t.num - 1, by simp only; omega, rfl, .inr ⟨by omega, c, hc, hcl⟩⟩
      · rename_i hcl
        split at h
        · rename_i hle
          injection h with h; subst h
          exact ⟨t.num, rfl, rfl, .inl ⟨rfl, hle, fun c' _ hc' => by
            rw [hc] at hc'; injection hc' with hc'; subst hc'; exact hcl⟩⟩
        · cases h

theorem store_votes {t t' : Timeline} {now v : Nat} (h : store t now v = .ok t') :
    latestVotes t' = v := by
  obtain ⟨k, hn, hcp, _⟩ := store_cases h
  unfold latestVotes
  rw [if_neg (by omega), hn, hcp]
  simp only [Nat.add_sub_cancel]; rw [upd_same]

/-- writing at ledger `now` never changes an answer about a ledger before `now` -/
theorem store_past {t t' : Timeline} {now v : Nat} (h : store t now v = .ok t') (q : Nat) (hq : q < now) :
    valueAt t' q = valueAt t q := by
  obtain ⟨k, hn, hcp, hk⟩ := store_cases h
  unfold valueAt
  rw [hn, hcp]
  simp only [scan]
  rw [upd_same]; simp only
  rw [if_neg (by omega)]
  rw [scan_congr t.cp _ q k (fun i hi => upd_other _ _ _ _ (by omega))]
  rcases hk with ⟨hk, _⟩ | ⟨hk, c, hc, hcl⟩
  · rw [hk]
  · rw [← hk]; simp only [scan]; rw [hc]; simp only; rw [if_neg (by omega)]

theorem store_wf {t t' : Timeline} {now v : Nat} (h : store t now v = .ok t') (hw : WF t now) :
    WF t' now := by
  obtain ⟨k, hn, hcp, hk⟩ := store_cases h
  -- every older entry lies strictly before `now`
  have hold : ∀ i ci, i < k → t.cp i = some ci → ci.ledger < now := by
    intro i ci hi hci
    rcases hk with ⟨hk, _, hne⟩ | ⟨hk, c, hc, hcl⟩
    · obtain ⟨c, hc⟩ := hw.present (t.num - 1) (by omega)
      have h1 := hne c (by omega) hc
      have h2 := hw.bound (t.num - 1) c (by omega) hc
      by_cases hil : i = t.num - 1
      · subst hil; rw [hc] at hci; injection hci with hci; subst hci; omega
      · have := hw.sorted i (t.num - 1) ci c (by omega) (by omega) hci hc
        omega
    · have := hw.sorted i k ci c hi (by omega) hci hc
      omega
  have hlt : ∀ i, i < k → i < t.num := by
    intro i hi; rcases hk with ⟨hk, _⟩ | ⟨hk, _⟩ <;> omega
  refine ⟨?_, ?_, ?_⟩
  · intro i hi
    rw [hcp]
    by_cases hik : i = k
    · subst hik; exact ⟨_, upd_same _ _ _⟩
    · rw [upd_other _ _ _ _ hik]; exact hw.present i (hlt i (by omega))
  · intro i j ci cj hij hj hci hcj
    rw [hcp] at hci hcj
    rw [upd_other _ _ _ _ (by omega)] at hci
    by_cases hjk : j = k
    · subst hjk; rw [upd_same] at hcj; injection hcj with hcj; subst hcj
      exact hold i ci hij hci
    · rw [upd_other _ _ _ _ hjk] at hcj
      exact hw.sorted i j ci cj hij (hlt j (by omega)) hci hcj
  · intro i ci hi hci
    rw [hcp] at hci
    by_cases hik : i = k
    · subst hik; rw [upd_same] at hci; injection hci with hci; subst hci; exact Nat.le_refl _
    · rw [upd_other _ _ _ _ hik] at hci
      have := hold i ci (by omega) hci; omega

theorem applyOp_add {p d v : Nat} (h : applyOp p .add d = .ok v) : v = p + d ∧ p + d ≤ U128_MAX := by
  simp only [applyOp] at h
  split at h
  · injection h with h; exact ⟨h.symm, by assumption⟩
  · cases h

theorem applyOp_sub {p d v : Nat} (h : applyOp p .sub d = .ok v) : v + d = p := by
  simp only [applyOp] at h
  split at h
  · injection h with h; omega
  · cases h

theorem push_ok {t t' : Timeline} {now d : Nat} {op : CheckpointOp}
    (h : pushCheckpoint t now op d = .ok t') :
    ∃ v, applyOp (latestVotes t) op d = .ok v ∧ store t now v = .ok t' := by
  unfold pushCheckpoint at h
  split at h
  · cases h
  · rename_i p hp
    have := latest_of_ok hp; subst this
    split at h
    · cases h
    · rename_i v hv; exact ⟨v, hv, h⟩

theorem push_add {t t' : Timeline} {now d : Nat} (h : pushCheckpoint t now .add d = .ok t') :
    latestVotes t' = latestVotes t + d := by
  obtain ⟨v, hv, hs⟩ := push_ok h
  rw [store_votes hs, (applyOp_add hv).1]

theorem push_sub {t t' : Timeline} {now d : Nat} (h : pushCheckpoint t now .sub d = .ok t') :
    latestVotes t' + d = latestVotes t := by
  obtain ⟨v, hv, hs⟩ := push_ok h
  rw [store_votes hs]; exact applyOp_sub hv

theorem push_past {t t' : Timeline} {now d : Nat} {op : CheckpointOp}
    (h : pushCheckpoint t now op d = .ok t') (q : Nat) (hq : q < now) : valueAt t' q = valueAt t q := by
  obtain ⟨v, _, hs⟩ := push_ok h
  exact store_past hs q hq

theorem push_wf {t t' : Timeline} {now d : Nat} {op : CheckpointOp}
    (h : pushCheckpoint t now op d = .ok t') (hw : WF t now) : WF t' now := by
  obtain ⟨v, _, hs⟩ := push_ok h
  exact store_wf hs hw

/-! ### frames: what no primitive ever touches -/

/-- `s'` is at the same ledger, keeps every timeline well-formed and answers every question
about a ledger before `now` as `s` does -/
structure Frame (s s' : State) : Prop where
  now : s'.now = s.now
  wf : ∀ x, WF (s.tl x) s.now → WF (s'.tl x) s.now
  wfT : WF s.total s.now → WF s'.total s.now
  past : ∀ x q, q < s.now → valueAt (s'.tl x) q = valueAt (s.tl x) q
  pastT : ∀ q, q < s.now → valueAt s'.total q = valueAt s.total q

theorem Frame.refl (s : State) : Frame s s :=
  ⟨rfl, fun _ h => h, fun h => h, fun _ _ _ => rfl, fun _ _ => rfl⟩

theorem Frame.trans {s s1 s2 : State} (a : Frame s s1) (b : Frame s1 s2) : Frame s s2 := by
  have hn := a.now
  refine ⟨by rw [b.now, a.now], ?_, ?_, ?_, ?_⟩
  · intro x h; have := b.wf x (by rw [hn]; exact a.wf x h); rw [hn] at this; exact this
  · intro h; have := b.wfT (by rw [hn]; exact a.wfT h); rw [hn] at this; exact this
  · intro x q hq; rw [b.past x q (by omega), a.past x q hq]
  · intro q hq; rw [b.pastT q (by omega), a.pastT q hq]

/-- indicator: `amt` if `o` names `x`, else 0 -/
def ind (o : Option Nat) (x amt : Nat) : Nat := if o = some x then amt else 0

theorem pushAccount_ok {s s' : State} {who : Option Nat} {op : CheckpointOp} {amt : Nat}
    (h : pushAccount s who op amt = .ok s') :
    s'.units = s.units ∧ s'.delegatee = s.delegatee ∧ s'.total = s.total ∧ Frame s s' ∧
    (∀ x, who ≠ some x → votesOf s' x = votesOf s x) ∧
    (∀ x, who = some x →
      (op = .add → votesOf s' x = votesOf s x + amt) ∧ (op = .sub → votesOf s' x + amt = votesOf s x)) := by
  unfold pushAccount at h
  cases who with
  | none =>
    simp only at h; injection h with h; subst h
    exact ⟨rfl, rfl, rfl, Frame.refl _, fun _ _ => rfl, fun x hx => by cases hx⟩
  | some a =>
    simp only at h
    split at h
    · cases h
    · rename_i t ht
      injection h with h; subst h
      refine ⟨rfl, rfl, rfl, ⟨rfl, ?_, fun h => h, ?_, fun _ _ => rfl⟩, ?_, ?_⟩
      · intro x hx
        simp only
        by_cases hxa : x = a
        · subst hxa; rw [upd_same]; exact push_wf ht hx
        · rw [upd_other _ _ _ _ hxa]; exact hx
      · intro x q hq
        simp only
        by_cases hxa : x = a
        · subst hxa; rw [upd_same]; exact push_past ht q hq
        · rw [upd_other _ _ _ _ hxa]
      · intro x hx
        have hxa : x ≠ a := fun e => hx (by rw [e])
        simp only [votesOf]; rw [upd_other _ _ _ _ hxa]
      · intro x hx
        injection hx with hx; subst hx
        simp only [votesOf]; rw [upd_same]
        constructor
        · intro ho; subst ho; exact push_add ht
        · intro ho; subst ho; exact push_sub ht

/-- `move_delegate_votes`: `from`'s delegate loses `amt`, `to`'s delegate gains it (nothing
happens when they are the same or `amt = 0`), stated as one balance equation -/
theorem moveDelegateVotes_ok {s s' : State} {f t : Option Nat} {amt : Nat}
    (h : moveDelegateVotes s f t amt = .ok s') :
    s'.units = s.units ∧ s'.delegatee = s.delegatee ∧ s'.total = s.total ∧ Frame s s' ∧
    (∀ x, votesOf s' x + ind f x amt = votesOf s x + ind t x amt) := by
  unfold moveDelegateVotes at h
  split at h
  · rename_i h0
    injection h with h; subst h
    exact ⟨rfl, rfl, rfl, Frame.refl _, fun x => by simp [ind, h0]⟩
  · split at h
    · rename_i hft
      injection h with h; subst h
      exact ⟨rfl, rfl, rfl, Frame.refl _, fun x => by rw [hft]⟩
    · rename_i hft
      split at h
      · cases h
      · rename_i s1 h1
        obtain ⟨u1, d1, t1, f1, o1, m1⟩ := pushAccount_ok h1
        obtain ⟨u2, d2, t2, f2, o2, m2⟩ := pushAccount_ok h
        refine ⟨by rw [u2, u1], by rw [d2, d1], by rw [t2, t1], f1.trans f2, ?_⟩
        intro x
        simp only [ind]
        by_cases hfx : f = some x
        · have htx : t ≠ some x := fun e => hft (by rw [hfx, e])
          rw [if_pos hfx, if_neg htx, o2 x htx]
          have := (m1 x hfx).2 rfl
          omega
        · rw [if_neg hfx, ← o1 x hfx]
          by_cases htx : t = some x
          · rw [if_pos htx]; have := (m2 x htx).1 rfl; omega
          · rw [if_neg htx, o2 x htx]

theorem pushTotal_ok {s s' : State} {op : CheckpointOp} {amt : Nat} (h : pushTotal s op amt = .ok s') :
    s'.units = s.units ∧ s'.delegatee = s.delegatee ∧ s'.tl = s.tl ∧ Frame s s' ∧
    (op = .add → latestVotes s'.total = latestVotes s.total + amt) ∧
    (op = .sub → latestVotes s'.total + amt = latestVotes s.total) := by
  unfold pushTotal at h
  split at h
  · cases h
  · rename_i t ht
    injection h with h; subst h
    refine ⟨rfl, rfl, rfl, ⟨rfl, fun _ h => h, fun h => push_wf ht h, fun _ _ _ => rfl,
      fun q hq => push_past ht q hq⟩, ?_, ?_⟩
    · intro ho; subst ho; exact push_add ht
    · intro ho; subst ho; exact push_sub ht

/-- what `debit_units` does: either `from`'s units drop by `amt`, or the total supply
timeline rises by `amt` -/
theorem debitUnits_ok {s s' : State} {f : Option Nat} {amt : Nat} (h : debitUnits s f amt = .ok s') :
    s'.delegatee = s.delegatee ∧ s'.tl = s.tl ∧ Frame s s' ∧
    (match f with
     | some a => amt ≤ s.units a ∧ s'.units = upd s.units a (s.units a - amt) ∧ s'.total = s.total
     | none => s'.units = s.units ∧ latestVotes s'.total = latestVotes s.total + amt) := by
  unfold debitUnits at h
  cases f with
  | some a =>
    simp only at h
    split at h
    · rename_i hle
      injection h with h; subst h
      exact ⟨rfl, rfl, ⟨rfl, fun _ h => h, fun h => h, fun _ _ _ => rfl, fun _ _ => rfl⟩, hle, rfl, rfl⟩
    · cases h
  | none =>
    simp only at h
    obtain ⟨u, d, t, fr, ha, _⟩ := pushTotal_ok h
    exact ⟨d, t, fr, u, ha rfl⟩

theorem creditUnits_ok {s s' : State} {t : Option Nat} {amt : Nat} (h : creditUnits s t amt = .ok s') :
    s'.delegatee = s.delegatee ∧ s'.tl = s.tl ∧ Frame s s' ∧
    (match t with
     | some b => s'.units = upd s.units b (s.units b + amt) ∧ s'.total = s.total
     | none => s'.units = s.units ∧ latestVotes s'.total + amt = latestVotes s.total) := by
  unfold creditUnits at h
  cases t with
  | some b =>
    simp only at h
    split at h
    · injection h with h; subst h
      exact ⟨rfl, rfl, ⟨rfl, fun _ h => h, fun h => h, fun _ _ _ => rfl, fun _ _ => rfl⟩, rfl, rfl⟩
    · cases h
  | none =>
    simp only at h
    obtain ⟨u, d, tt, fr, _, hs⟩ := pushTotal_ok h
    exact ⟨d, tt, fr, u, hs rfl⟩

theorem transferVotingUnits_ok {s s' : State} {f t : Option Nat} {amt : Nat}
    (h : transferVotingUnits s f t amt = .ok s') :
    (amt = 0 ∧ s' = s) ∨
    (0 < amt ∧ ∃ s1 s2, debitUnits s f amt = .ok s1 ∧ creditUnits s1 t amt = .ok s2 ∧
      moveDelegateVotes s2 (f.bind s.delegatee) (t.bind s.delegatee) amt = .ok s') := by
  unfold transferVotingUnits at h
  split at h
  · rename_i h0; injection h with h; exact .inl ⟨h0, h.symm⟩
  · rename_i h0
    split at h
    · cases h
    · rename_i s1 h1
      split at h
      · cases h
      · rename_i s2 h2
        exact .inr ⟨by omega, s1, s2, h1, h2, h⟩

theorem requireAuth_ok {auth : List Nat} {a : Nat} {u : Unit} (h : requireAuth auth a = .ok u) :
    a ∈ auth := by
  unfold requireAuth at h
  split at h
  · assumption
  · cases h

theorem delegate_ok {s s' : State} {auth : List Nat} {a d : Nat} (h : delegate s auth a d = .ok s') :
    a ∈ auth ∧ s.delegatee a ≠ some d ∧
    moveDelegateVotes { s with delegatee := upd s.delegatee a (some d) } (s.delegatee a) (some d)
      (s.units a) = .ok s' := by
  unfold delegate at h
  split at h
  · cases h
  · rename_i u hu
    split at h
    · cases h
    · rename_i hne; exact ⟨requireAuth_ok hu, hne, h⟩

/-! ### the invariant -/

/-- voting power = delegated units, total supply = Σ units, nothing outside the universe,
every timeline well-formed -/
structure Inv (U : List Nat) (s : State) : Prop where
  votes : ∀ x, votesOf s x = delegatedTo U s x
  total : latestVotes s.total = sumN U s.units
  outside : ∀ a, a ∉ U → s.units a = 0
  wf : ∀ x, WF (s.tl x) s.now
  wfT : WF s.total s.now

theorem init_inv (U : List Nat) (now : Nat) : Inv U (init now) := by
  refine ⟨?_, ?_, fun _ _ => rfl, fun _ => WF_empty _, WF_empty _⟩
  · intro x
    simp only [votesOf, delegatedTo, init, latestVotes, Timeline.empty]
    rw [sumN_congr U (fun _ => 0) _ (fun d => by simp)]
    exact (sumN_zero U).symm
  · simp only [init, latestVotes, Timeline.empty]
    exact (sumN_zero U).symm

/-- the effect of lowering / raising one account's units on the delegated sums -/
theorem delegatedTo_units (U : List Nat) (hn : U.Nodup) (s s' : State) (a : Nat) (ha : a ∈ U) (v : Nat)
    (hd : s'.delegatee = s.delegatee) (hu : s'.units = upd s.units a v) (x : Nat) :
    delegatedTo U s' x + ind (s.delegatee a) x (s.units a) = delegatedTo U s x + ind (s.delegatee a) x v := by
  unfold delegatedTo
  have := sumN_change U (fun d => if s.delegatee d = some x then s.units d else 0)
    (fun d => if s'.delegatee d = some x then s'.units d else 0) a hn ha
    (fun d hda => by rw [hd, hu, upd_other _ _ _ _ hda])
  rw [hd, hu, upd_same] at this
  simp only [ind]
  rw [hd, hu]
  exact this

theorem sumUnits_upd (U : List Nat) (hn : U.Nodup) (u : Nat → Nat) (a : Nat) (ha : a ∈ U) (v : Nat) :
    sumN U (upd u a v) + u a = sumN U u + v := by
  have := sumN_change U u (upd u a v) a hn ha (fun d hda => upd_other _ _ _ _ hda)
  rw [upd_same] at this; exact this

theorem Inv.frame_wf {U : List Nat} {s s' : State} (hi : Inv U s) (fr : Frame s s') :
    (∀ x, WF (s'.tl x) s'.now) ∧ WF s'.total s'.now := by
  rw [fr.now]; exact ⟨fun x => fr.wf x (hi.wf x), fr.wfT hi.wfT⟩

theorem ind_add (o : Option Nat) (x a b : Nat) : ind o x (a + b) = ind o x a + ind o x b := by
  unfold ind; split <;> rfl

theorem ind_none (x a : Nat) : ind none x a = 0 := by simp [ind]

theorem delegatedTo_congr (U : List Nat) (s s' : State) (hd : s'.delegatee = s.delegatee)
    (hu : s'.units = s.units) (x : Nat) : delegatedTo U s' x = delegatedTo U s x := by
  unfold delegatedTo; rw [hd, hu]

theorem votesOf_congr (s s' : State) (h : s'.tl = s.tl) (x : Nat) : votesOf s' x = votesOf s x := by
  unfold votesOf; rw [h]

/-- bookkeeping after the first half of `transfer_voting_units` -/
theorem debit_effect {U : List Nat} (hn : U.Nodup) {s s1 : State} {f : Option Nat} {amt : Nat}
    (hf : ∀ a, f = some a → a ∈ U) (h : debitUnits s f amt = .ok s1) :
    (∀ x, delegatedTo U s1 x + ind (f.bind s.delegatee) x amt = delegatedTo U s x) ∧
    latestVotes s1.total + sumN U s.units = latestVotes s.total + sumN U s1.units + amt ∧
    (∀ a, a ∉ U → s1.units a = s.units a) := by
  obtain ⟨hd, _, _, hm⟩ := debitUnits_ok h
  cases f with
  | some a =>
    obtain ⟨hle, hu, ht⟩ := hm
    have ha := hf a rfl
    refine ⟨?_, ?_, ?_⟩
    · intro x
      have := delegatedTo_units U hn s s1 a ha _ hd hu x
      have e : s.units a = (s.units a - amt) + amt := by omega
      rw [e, ind_add] at this
      simp only [Option.bind]
      have e2 : s.units a - amt + amt - amt = s.units a - amt := by omega
      rw [e2] at this
      omega
    · rw [ht, hu]
      have := sumUnits_upd U hn s.units a ha (s.units a - amt)
      omega
    · intro a' ha'
      rw [hu, upd_other _ _ _ _ (fun e => ha' (by rw [e]; exact ha))]
  | none =>
    obtain ⟨hu, ht⟩ := hm
    refine ⟨?_, ?_, ?_⟩
    · intro x
      simp only [Option.bind]
      rw [ind_none, delegatedTo_congr U s s1 hd hu]; rfl
    · rw [ht, hu]; omega
    · intro a' _; rw [hu]

/-- bookkeeping after the second half of `transfer_voting_units` -/
theorem credit_effect {U : List Nat} (hn : U.Nodup) {s s2 : State} {t : Option Nat} {amt : Nat}
    (ht : ∀ b, t = some b → b ∈ U) (h : creditUnits s t amt = .ok s2) :
    (∀ x, delegatedTo U s2 x = delegatedTo U s x + ind (t.bind s.delegatee) x amt) ∧
    latestVotes s2.total + sumN U s.units + amt = latestVotes s.total + sumN U s2.units ∧
    (∀ a, a ∉ U → s2.units a = s.units a) := by
  obtain ⟨hd, _, _, hm⟩ := creditUnits_ok h
  cases t with
  | some b =>
    obtain ⟨hu, htt⟩ := hm
    have hb := ht b rfl
    refine ⟨?_, ?_, ?_⟩
    · intro x
      have := delegatedTo_units U hn s s2 b hb _ hd hu x
      rw [ind_add] at this
      simp only [Option.bind]
      omega
    · rw [htt, hu]
      have := sumUnits_upd U hn s.units b hb (s.units b + amt)
      omega
    · intro a' ha'
      rw [hu, upd_other _ _ _ _ (fun e => ha' (by rw [e]; exact hb))]
  | none =>
    obtain ⟨hu, htt⟩ := hm
    refine ⟨?_, ?_, ?_⟩
    · intro x
      simp only [Option.bind]
      rw [ind_none, delegatedTo_congr U s s2 hd hu]; rfl
    · rw [hu]; omega
    · intro a' _; rw [hu]

/-- `transfer_voting_units` keeps the invariant and never rewrites the past -/
theorem transferVotingUnits_inv {U : List Nat} (hn : U.Nodup) {s s' : State} (hi : Inv U s)
    {f t : Option Nat} {amt : Nat} (hf : ∀ a, f = some a → a ∈ U) (ht : ∀ b, t = some b → b ∈ U)
    (h : transferVotingUnits s f t amt = .ok s') : Inv U s' ∧ Frame s s' := by
  rcases transferVotingUnits_ok h with ⟨_, he⟩ | ⟨_, s1, s2, h1, h2, h3⟩
  · subst he; exact ⟨hi, Frame.refl _⟩
  · obtain ⟨d1, tl1, fr1, _⟩ := debitUnits_ok h1
    obtain ⟨d2, tl2, fr2, _⟩ := creditUnits_ok h2
    obtain ⟨u3, d3, t3, fr3, hv⟩ := moveDelegateVotes_ok h3
    obtain ⟨a1, a2, a3⟩ := debit_effect hn hf h1
    obtain ⟨b1, b2, b3⟩ := credit_effect hn ht h2
    rw [d1] at b1
    have fr := (fr1.trans fr2).trans fr3
    obtain ⟨w1, w2⟩ := hi.frame_wf fr
    refine ⟨⟨?_, ?_, ?_, w1, w2⟩, fr⟩
    · intro x
      have e1 := hv x
      rw [votesOf_congr s s2 (by rw [tl2, tl1]) x, hi.votes x] at e1
      rw [delegatedTo_congr U s2 s' d3 u3 x]
      have := a1 x; have := b1 x
      omega
    · rw [t3, u3]
      have := hi.total
      omega
    · intro a ha
      rw [u3, b3 a ha, a3 a ha]; exact hi.outside a ha

/-- `delegate` keeps the invariant and never rewrites the past -/
theorem delegate_inv {U : List Nat} (hn : U.Nodup) {s s' : State} (hi : Inv U s)
    {auth : List Nat} {a d : Nat} (ha : a ∈ U) (h : delegate s auth a d = .ok s') :
    Inv U s' ∧ Frame s s' ∧ s'.delegatee = upd s.delegatee a (some d) ∧ s'.units = s.units := by
  obtain ⟨_, _, hm⟩ := delegate_ok h
  obtain ⟨u3, d3, t3, fr3, hv⟩ := moveDelegateVotes_ok hm
  have fr0 : Frame s { s with delegatee := upd s.delegatee a (some d) } :=
    ⟨rfl, fun _ h => h, fun h => h, fun _ _ _ => rfl, fun _ _ => rfl⟩
  have fr := fr0.trans fr3
  obtain ⟨w1, w2⟩ := hi.frame_wf fr
  simp only at u3 d3 t3
  refine ⟨⟨?_, ?_, ?_, w1, w2⟩, fr, d3, u3⟩
  · intro x
    have e1 := hv x
    have e0 : votesOf { s with delegatee := upd s.delegatee a (some d) } x = votesOf s x := rfl
    rw [e0, hi.votes x] at e1
    have := sumN_change U (fun y => if s.delegatee y = some x then s.units y else 0)
      (fun y => if s'.delegatee y = some x then s'.units y else 0) a hn ha
      (fun y hy => by rw [d3, u3, upd_other _ _ _ _ hy])
    rw [d3, u3, upd_same] at this
    simp only [ind] at e1
    unfold delegatedTo
    rw [d3, u3]
    unfold delegatedTo at e1
    omega
  · rw [t3, u3]; exact hi.total
  · intro a' ha'; rw [u3]; exact hi.outside a' ha'

/-- one library-level operation keeps the invariant -/
theorem apply_inv {U : List Nat} (hn : U.Nodup) {s s' : State} (hi : Inv U s) (auth : List Nat)
    (op : Op) (hU : ∀ a ∈ op.addrs, a ∈ U) (h : apply s auth op = .ok s') : Inv U s' := by
  cases op with
  | transferUnits f t amt =>
    exact (transferVotingUnits_inv hn hi
      (fun a e => hU a (by subst e; simp [Op.addrs]))
      (fun b e => hU b (by subst e; simp [Op.addrs])) h).1
  | delegate a d => exact (delegate_inv hn hi (hU a (by simp [Op.addrs])) h).1
  | advance n =>
    injection h with h; subst h
    exact ⟨hi.votes, hi.total, hi.outside, fun x => (hi.wf x).mono (Nat.le_add_right _ _),
      hi.wfT.mono (Nat.le_add_right _ _)⟩

/-- the past as seen from `s`: all answers for ledgers before `s.now` -/
def SamePast (s s' : State) : Prop :=
  s.now ≤ s'.now ∧ (∀ x q, q < s.now → valueAt (s'.tl x) q = valueAt (s.tl x) q) ∧
  (∀ q, q < s.now → valueAt s'.total q = valueAt s.total q)

theorem SamePast.refl (s : State) : SamePast s s := ⟨Nat.le_refl _, fun _ _ _ => rfl, fun _ _ => rfl⟩

theorem SamePast.trans {s s1 s2 : State} (a : SamePast s s1) (b : SamePast s1 s2) : SamePast s s2 :=
  ⟨Nat.le_trans a.1 b.1, fun x q hq => by rw [b.2.1 x q (by have := a.1; omega), a.2.1 x q hq],
   fun q hq => by rw [b.2.2 q (by have := a.1; omega), a.2.2 q hq]⟩

theorem Frame.samePast {s s' : State} (f : Frame s s') : SamePast s s' :=
  ⟨by rw [f.now]; exact Nat.le_refl _, f.past, f.pastT⟩

/-- one library-level operation, from any state whatsoever, never changes an answer about
a ledger before the current one -/
theorem apply_samePast {s s' : State} (auth : List Nat) (op : Op) (h : apply s auth op = .ok s') :
    SamePast s s' := by
  cases op with
  | transferUnits f t amt =>
    rcases transferVotingUnits_ok h with ⟨_, he⟩ | ⟨_, s1, s2, h1, h2, h3⟩
    · subst he; exact SamePast.refl _
    · obtain ⟨_, _, fr1, _⟩ := debitUnits_ok h1
      obtain ⟨_, _, fr2, _⟩ := creditUnits_ok h2
      obtain ⟨_, _, _, fr3, _⟩ := moveDelegateVotes_ok h3
      exact ((fr1.trans fr2).trans fr3).samePast
  | delegate a d =>
    obtain ⟨_, _, hm⟩ := delegate_ok h
    obtain ⟨_, _, _, fr3, _⟩ := moveDelegateVotes_ok hm
    exact ⟨by rw [fr3.now]; exact Nat.le_refl _, fr3.past, fr3.pastT⟩
  | advance n =>
    injection h with h; subst h
    exact ⟨Nat.le_add_right _ _, fun _ _ _ => rfl, fun _ _ => rfl⟩

theorem step_samePast (s : State) (x : List Nat × Op) : SamePast s (step s x) := by
  unfold step
  cases h : apply s x.1 x.2 with
  | error e => exact SamePast.refl _
  | ok s' => exact apply_samePast x.1 x.2 h

theorem run_samePast (s : State) (ops : List (List Nat × Op)) : SamePast s (run s ops) := by
  induction ops generalizing s with
  | nil => exact SamePast.refl _
  | cons x xs ih =>
    simp only [run, List.foldl_cons]
    exact (step_samePast s x).trans (ih (step s x))

theorem step_inv {U : List Nat} (hn : U.Nodup) {s : State} (hi : Inv U s) (x : List Nat × Op)
    (hU : ∀ a ∈ x.2.addrs, a ∈ U) : Inv U (step s x) := by
  unfold step
  cases h : apply s x.1 x.2 with
  | error e => exact hi
  | ok s' => exact apply_inv hn hi x.1 x.2 hU h

theorem run_inv {U : List Nat} (hn : U.Nodup) {s : State} (hi : Inv U s) (ops : List (List Nat × Op))
    (hU : ∀ x ∈ ops, ∀ a ∈ x.2.addrs, a ∈ U) : Inv U (run s ops) := by
  induction ops generalizing s with
  | nil => exact hi
  | cons x xs ih =>
    simp only [run, List.foldl_cons]
    exact ih (step_inv hn hi x (hU x List.mem_cons_self)) (fun y hy => hU y (List.mem_cons_of_mem _ hy))

/-- every timeline of the state is well-formed at the current ledger -/
def WFAll (s : State) : Prop := (∀ x, WF (s.tl x) s.now) ∧ WF s.total s.now

theorem transfer_frame {s s' : State} {f t : Option Nat} {amt : Nat}
    (h : transferVotingUnits s f t amt = .ok s') : Frame s s' := by
  rcases transferVotingUnits_ok h with ⟨_, he⟩ | ⟨_, s1, s2, h1, h2, h3⟩
  · subst he; exact Frame.refl _
  · obtain ⟨_, _, fr1, _⟩ := debitUnits_ok h1
    obtain ⟨_, _, fr2, _⟩ := creditUnits_ok h2
    obtain ⟨_, _, _, fr3, _⟩ := moveDelegateVotes_ok h3
    exact (fr1.trans fr2).trans fr3

theorem delegate_frame {s s' : State} {auth : List Nat} {a d : Nat}
    (h : delegate s auth a d = .ok s') : Frame s s' := by
  obtain ⟨_, _, hm⟩ := delegate_ok h
  obtain ⟨_, _, _, fr3, _⟩ := moveDelegateVotes_ok hm
  exact ⟨fr3.now, fr3.wf, fr3.wfT, fr3.past, fr3.pastT⟩

theorem Frame.wfAll {s s' : State} (fr : Frame s s') (hw : WFAll s) : WFAll s' := by
  unfold WFAll; rw [fr.now]; exact ⟨fun x => fr.wf x (hw.1 x), fr.wfT hw.2⟩

theorem apply_wfAll {s s' : State} (hw : WFAll s) (auth : List Nat) (op : Op)
    (h : apply s auth op = .ok s') : WFAll s' := by
  cases op with
  | transferUnits f t amt => exact (transfer_frame h).wfAll hw
  | delegate a d => exact (delegate_frame h).wfAll hw
  | advance n =>
    injection h with h; subst h
    exact ⟨fun x => (hw.1 x).mono (Nat.le_add_right _ _), hw.2.mono (Nat.le_add_right _ _)⟩

theorem step_wfAll {s : State} (hw : WFAll s) (x : List Nat × Op) : WFAll (step s x) := by
  unfold step
  cases h : apply s x.1 x.2 with
  | error e => exact hw
  | ok s' => exact apply_wfAll hw x.1 x.2 h

theorem run_wfAll {s : State} (hw : WFAll s) (ops : List (List Nat × Op)) : WFAll (run s ops) := by
  induction ops generalizing s with
  | nil => exact hw
  | cons x xs ih => simp only [run, List.foldl_cons]; exact ih (step_wfAll hw x)

theorem init_wfAll (now : Nat) : WFAll (init now) := ⟨fun _ => WF_empty _, WF_empty _⟩

/-- the ghost history agrees with the specification of a lookup for every past ledger -/
def GInv (x : State × Ghost) : Prop :=
  ∀ q, q < x.1.now → (∀ a, valueAt (x.1.tl a) q = x.2.votes q a) ∧ valueAt x.1.total q = x.2.total q

theorem gstep_fst (x : State × Ghost) (o : List Nat × Op) : (gstep x o).1 = step x.1 o := by
  unfold gstep; cases o.2 <;> rfl

theorem grun_fst (x : State × Ghost) (ops : List (List Nat × Op)) : (grun x ops).1 = run x.1 ops := by
  induction ops generalizing x with
  | nil => rfl
  | cons o os ih => simp only [grun, run, List.foldl_cons]; rw [← gstep_fst]; exact ih (gstep x o)

theorem gstep_inv {x : State × Ghost} (hw : WFAll x.1) (hg : GInv x) (o : List Nat × Op) :
    GInv (gstep x o) := by
  obtain ⟨s, g⟩ := x
  obtain ⟨auth, op⟩ := o
  have hw' : WFAll s := hw
  cases op with
  | transferUnits f t amt =>
    simp only [gstep, step, apply]
    cases h : transferVotingUnits s f t amt with
    | error e => exact hg
    | ok s' =>
      have fr := transfer_frame h
      intro q hq
      simp only at hq ⊢; rw [fr.now] at hq
      exact ⟨fun a => by rw [fr.past a q hq]; exact (hg q hq).1 a, by rw [fr.pastT q hq]; exact (hg q hq).2⟩
  | delegate a d =>
    simp only [gstep, step, apply]
    cases h : delegate s auth a d with
    | error e => exact hg
    | ok s' =>
      have fr := delegate_frame h
      intro q hq
      simp only at hq ⊢; rw [fr.now] at hq
      exact ⟨fun a => by rw [fr.past a q hq]; exact (hg q hq).1 a, by rw [fr.pastT q hq]; exact (hg q hq).2⟩
  | advance n =>
    simp only [gstep, step, apply, Ghost.close]
    intro q hq
    simp only at hq ⊢
    by_cases hlt : q < s.now
    · have hc : ¬ (s.now ≤ q ∧ q < s.now + n) := by omega
      simp only [if_neg hc]
      exact hg q hlt
    · have hc : s.now ≤ q ∧ q < s.now + n := by omega
      simp only [if_pos hc]
      exact ⟨fun a => valueAt_recent (hw'.1 a) (by omega), valueAt_recent hw'.2 (by omega)⟩

theorem grun_inv {x : State × Ghost} (hw : WFAll x.1) (hg : GInv x) (ops : List (List Nat × Op)) :
    GInv (grun x ops) := by
  induction ops generalizing x with
  | nil => exact hg
  | cons o os ih =>
    simp only [grun, List.foldl_cons]
    exact ih (by rw [gstep_fst]; exact step_wfAll hw o) (gstep_inv hw hg o)

/-! ### list view of a timeline -/

theorem mem_entries (cp : Nat → Option Checkpoint) (n : Nat) (c : Checkpoint) :
    c ∈ entries cp n ↔ ∃ i, i < n ∧ cp i = some c := by
  induction n with
  | zero => simp [entries]
  | succ n ih =>
    simp only [entries, List.mem_append, ih, Option.mem_toList]
    constructor
    · rintro (⟨i, hi, hc⟩ | hc)
      · exact ⟨i, by omega, hc⟩
      · exact ⟨n, by omega, hc⟩
    · rintro ⟨i, hi, hc⟩
      by_cases hin : i = n
      · subst hin; exact .inr hc
      · exact .inl ⟨i, by omega, hc⟩

/-- as a list the checkpoints are strictly increasing in the ledger -/
theorem entries_sorted {t : Timeline} {now : Nat} (hw : WF t now) :
    ∀ n, n ≤ t.num → (entries t.cp n).Pairwise (fun a b => a.ledger < b.ledger) := by
  intro n
  induction n with
  | zero => intro _; simp [entries]
  | succ n ih =>
    intro hn
    simp only [entries]
    rw [List.pairwise_append]
    refine ⟨ih (by omega), ?_, ?_⟩
    · cases t.cp n <;> simp
    · intro a ha b hb
      rw [mem_entries] at ha
      obtain ⟨i, hi, hci⟩ := ha
      rw [Option.mem_toList] at hb
      exact hw.sorted i n a b hi (by omega) hci hb

end OZ.Votes
