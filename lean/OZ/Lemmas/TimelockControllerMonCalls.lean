import OZ.Lemmas.TimelockControllerMonAuth
/-
Soundness of the C09 monitor, monitor part 4: accepted schedule_op / cancel_op / execute_op /
accept_admin_transfer calls and ledger advances.
-/
namespace OZ.TimelockController.Mon
open OZ.Host OZ.Timelock OZ.TimelockController

theorem idle_none_of_not_advance' (c : Call) (prev o : Obs) (h : ∀ n, c ≠ .advance n) : idle c prev o = none := by
  unfold idle
  cases c with
  | advance n => exact absurd rfl (h n)
  | _ => rfl

theorem contains_of_call {l : List AuthM} {a : Nat} (h : AuthTok.call a ∈ resolveToks [] [] l) :
    l.contains (AuthM.call a) = true := by
  simpa using mem_resolveToks_call.mp h

/-! ### schedule_op -/

theorem sched_sound (m : Mon) (x : MS) (hi : MInv x) (ha : Agree m x) (cl : CallLine) (k d p : Nat)
    (hcall : cl.call = .sched k d p) (op : Operation) (hk : x.defs[k]? = some op) (c' : CState)
    (hx : applyE x.c (resolveToks [] [] cl.auth) (resolveSig x.defs cl.sig) (.scheduleOp op d p) = .ok c') :
    CallSound m x cl c' := by
  obtain ⟨hrole, hauth, tl', hs, rfl⟩ := scheduleOp_inv hx
  obtain ⟨mn, hmn, hmd, h0, rfl⟩ := schedule_ok hs
  have hge : 2 ≤ satAdd x.c.tl.now d := satAdd_ge_two hi.tl.nowLo
  refine ⟨?_, ?_, ?_⟩
  · intro ok0 eq0
    apply verdictCall_none
    · apply idle_none_of_not_advance'; intro n h; rw [hcall] at h; cases h
    · exact undone_none x.defs ok0 true eq0 none (fun id h1 => applyE_ledger_one hx h1)
    · rfl
    · apply effect_none
      · intro _; rfl
      · intro _; rfl
      · intro _; rfl
      · intro _ _; rfl
      · intro _ _ _ _
        apply newlyDone_false
        intro id h1
        have h1' : updId x.c.tl.ledger op.id (satAdd x.c.tl.now d) id = 1 := h1
        by_cases e : id = op.id
        · rw [e, updId_same] at h1'; omega
        · rw [updId_other _ _ _ _ e] at h1'; exact h1'
    · unfold verdictAccepted
      rw [hcall]
      simp only
      unfold verdictSched
      have hb : belowMin (modelObs x.c x.defs ok0 eq0).min d = false := by
        show belowMin x.c.tl.minDelay d = false
        rw [hmn]; unfold belowMin; simp; omega
      rw [if_neg (by rw [hb]; simp), if_neg, if_neg]
      · simpa using contains_of_call hauth
      · rintro ⟨hu, hnc⟩
        apply hnc
        rw [members_contains x.c x.defs ok0 eq0 (by decide) (by simpa [inU] using hu)]
        exact hrole
  · intro id
    unfold ghostStep
    rw [hcall]
    simp only
    rw [ha.defs, hk]
    simp only
    rw [get_set]
    show _ = toG (Timelock.ghost (Ev.sched op.id x.c.tl.now d mn :: x.c.tl.log) id)
    by_cases e : op.id = id
    · subst e
      rw [if_pos rfl, ghost_sched_same]; rfl
    · rw [if_neg (by simpa using e), ghost_other _ _ _ (by simpa [Ev.id] using e)]
      exact ha.ghost id
  · intro id hne
    have hne' : Timelock.ghost (Ev.sched op.id x.c.tl.now d mn :: x.c.tl.log) id ≠ .unset := hne
    by_cases e : op.id = id
    · subst e
      exact List.mem_map.mpr ⟨op, List.mem_of_getElem? hk, rfl⟩
    · rw [ghost_other _ _ _ (by simpa [Ev.id] using e)] at hne'
      exact hi.known id hne'

/-! ### cancel_op -/

theorem cancel_sound (m : Mon) (x : MS) (hi : MInv x) (ha : Agree m x) (cl : CallLine) (r : Ref) (p : Nat)
    (hcall : cl.call = .cancel r p) (id0 : Id) (hr : refKey x.defs r = some id0) (c' : CState)
    (hx : applyE x.c (resolveToks [] [] cl.auth) (resolveSig x.defs cl.sig) (.cancelOp id0 p) = .ok c') :
    CallSound m x cl c' := by
  obtain ⟨hrole, hauth, tl', hs, rfl⟩ := cancelOp_inv hx
  obtain ⟨h2, rfl⟩ := cancel_ok hs
  refine ⟨?_, ?_, ?_⟩
  · intro ok0 eq0
    apply verdictCall_none
    · apply idle_none_of_not_advance'; intro n h; rw [hcall] at h; cases h
    · exact undone_none x.defs ok0 true eq0 none (fun id h1 => applyE_ledger_one hx h1)
    · rfl
    · apply effect_none
      · intro _; rfl
      · intro _; rfl
      · intro _; rfl
      · intro _ _; rfl
      · intro _ _ _ _
        apply newlyDone_false
        intro id h1
        have h1' : updId x.c.tl.ledger id0 UNSET_LEDGER id = 1 := h1
        by_cases e : id = id0
        · rw [e, updId_same] at h1'; cases h1'
        · rw [updId_other _ _ _ _ e] at h1'; exact h1'
    · unfold verdictAccepted
      rw [hcall]
      simp only
      unfold verdictCancel
      rw [if_neg, if_neg]
      · simpa using contains_of_call hauth
      · rintro ⟨hu, hnc⟩
        apply hnc
        rw [members_contains x.c x.defs ok0 eq0 (by decide) (by simpa [inU] using hu)]
        exact hrole
  · intro id
    unfold ghostStep
    rw [hcall]
    simp only
    rw [ha.defs, hr, get_set]
    show _ = toG (Timelock.ghost (Ev.cancel id0 x.c.tl.now :: x.c.tl.log) id)
    by_cases e : id0 = id
    · subst e
      rw [if_pos rfl, ghost_cancel_same]; rfl
    · rw [if_neg (by simpa using e), ghost_other _ _ _ (by simpa [Ev.id] using e)]
      exact ha.ghost id
  · intro id hne
    have hne' : Timelock.ghost (Ev.cancel id0 x.c.tl.now :: x.c.tl.log) id ≠ .unset := hne
    by_cases e : id0 = id
    · subst e
      rw [ghost_cancel_same] at hne'; exact absurd rfl hne'
    · rw [ghost_other _ _ _ (by simpa [Ev.id] using e)] at hne'
      exact hi.known id hne'

/-! ### execute_op -/

theorem execState_none (x : MS) (c' : CState) (k : Nat) (op : Operation) (hk : x.defs[k]? = some op)
    (hready : getOperationState x.c.tl op.id = .ready) (hdone : c'.tl.ledger op.id = 1) (ok0 : Bool)
    (eq0 : Option (List Nat)) :
    execState (modelObs x.c x.defs ok0 eq0) (modelObs c' x.defs true none) k = none := by
  unfold execState
  rw [if_neg]
  rintro (h | h)
  · exact h (stCode_R.mpr ⟨op, hk, hready⟩)
  · exact h (stCode_D.mpr ⟨op, hk, hdone⟩)

theorem exec_sound (m : Mon) (x : MS) (hi : MInv x) (ha : Agree m x) (cl : CallLine) (k : Nat)
    (ex : Option Nat) (okn : Nat) (hcall : cl.call = .exec k ex okn) (op : Operation) (hk : x.defs[k]? = some op)
    (b : Bool) (c' : CState)
    (hx : applyE x.c (resolveToks [] [] cl.auth) (resolveSig x.defs cl.sig) (.executeOp op ex b) = .ok c') :
    CallSound m x cl c' := by
  obtain ⟨hgate, tl', hs, hc'⟩ := executeOp_inv hx
  obtain ⟨s1, hs1, _, htl'⟩ := execute_ok hs
  obtain ⟨h2, hn, hpd, hs1'⟩ := setExecute_ok hs1
  have hled : c'.tl.ledger = updId x.c.tl.ledger op.id DONE_LEDGER := by rw [hc', htl', hs1']
  have hlog : c'.tl.log = Ev.exec op.id x.c.tl.now :: x.c.tl.log := by rw [hc', htl', hs1']
  have hmin : c'.tl.minDelay = x.c.tl.minDelay := by rw [hc', htl', hs1']
  have hnow : c'.tl.now = x.c.tl.now := by rw [hc', htl', hs1']
  have hac : c'.ac = x.c.ac := by rw [hc']
  refine ⟨?_, ?_, ?_⟩
  · intro ok0 eq0
    have hstate0 := execState_none x c' k op hk (stateOf_ready.mpr ⟨h2, hn⟩)
      (by rw [hled, updId_same]; rfl) ok0 eq0
    have hpred : predBad m k = none := by
      unfold predBad
      rw [ha.defs, hk]
      simp only
      rw [if_neg]
      rintro ⟨hnz, hnd⟩
      rcases hpd with hz | hl1
      · exact hnz hz
      · apply hnd
        rw [ha.ghost]
        have hc := hi.tl.coh op.pred
        cases hg : ghost x.c.tl.log op.pred with
        | unset => rw [hg] at hc; simp only [Coh] at hc; omega
        | done => rfl
        | pending l d mm =>
          rw [hg] at hc; simp only [Coh] at hc
          have : 2 ≤ satAdd l d := by unfold satAdd U32_MAX; split <;> omega
          omega
    have hstate : firstSome (predBad m k) (execState (modelObs x.c x.defs ok0 eq0) (modelObs c' x.defs true none) k) = none := by
      rw [hpred]; exact hstate0
    apply verdictCall_none
    · apply idle_none_of_not_advance'; intro n h; rw [hcall] at h; cases h
    · exact undone_none x.defs ok0 true eq0 none (fun id h1 => applyE_ledger_one hx h1)
    · rfl
    · apply effect_none
      · intro _; exact hmin
      · intro _; exact modelRoles_of_ac (by rw [hac])
      · intro _; exact modelRadm_of_ac (by rw [hac])
      · intro _ _; show c'.admin = x.c.admin; unfold CState.admin; rw [hac]
      · intro _ _ _ h; rw [hcall] at h; cases h
    · unfold verdictAccepted
      rw [hcall]
      simp only
      unfold verdictExec
      by_cases hem : (members (modelObs x.c x.defs ok0 eq0) 1).isEmpty
      · rw [if_pos hem]; exact hstate
      · rw [if_neg hem]
        have hne : x.c.executorCount ≠ 0 := by
          cases hl : members (modelObs x.c x.defs ok0 eq0) 1 with
          | nil => rw [hl] at hem; simp at hem
          | cons a t =>
            have : a ∈ members (modelObs x.c x.defs ok0 eq0) 1 := by rw [hl]; simp
            exact executorCount_pos hi.ac (members_sub x.c x.defs ok0 eq0 this)
        obtain ⟨e, rfl, hr, hin⟩ := hgate hne
        simp only
        rw [if_neg, if_neg]
        · exact hstate
        · simpa using contains_of_call hin
        · rintro ⟨hu, hnc⟩
          apply hnc
          rw [members_contains x.c x.defs ok0 eq0 (by decide) (by simpa [inU] using hu)]
          exact hr
  · intro id
    unfold ghostStep
    rw [hcall]
    simp only
    rw [ha.defs, hk]
    simp only
    rw [get_set, hlog]
    by_cases e : op.id = id
    · subst e
      rw [if_pos rfl, ghost_exec_same]; rfl
    · rw [if_neg (by simpa using e), ghost_other _ _ _ (by simpa [Ev.id] using e)]
      exact ha.ghost id
  · intro id hne
    rw [hlog] at hne
    by_cases e : op.id = id
    · subst e
      exact List.mem_map.mpr ⟨op, List.mem_of_getElem? hk, rfl⟩
    · rw [ghost_other _ _ _ (by simpa [Ev.id] using e)] at hne
      exact hi.known id hne

/-! ### accept_admin_transfer -/

theorem ghostStep_quiet (m : Mon) (cl : CallLine) (now : Nat) (pa : Option Nat)
    (h : consumes cl.call pa = false) (h1 : ∀ k d p, cl.call ≠ .sched k d p) (h2 : ∀ r p, cl.call ≠ .cancel r p)
    (h3 : ∀ k ex ok, cl.call ≠ .exec k ex ok) : ghostStep m cl now pa = m := by
  unfold ghostStep
  cases hc : cl.call with
  | sched k d p => exact absurd hc (h1 k d p)
  | cancel r p => exact absurd hc (h2 r p)
  | exec k ex ok => exact absurd hc (h3 k ex ok)
  | _ => simp only; rw [hc] at h; rw [h]; rfl

theorem accept_sound (m : Mon) (x : MS) (hi : MInv x) (ha : Agree m x) (cl : CallLine)
    (hcall : cl.call = .accept) (c' : CState)
    (hx : applyE x.c (resolveToks [] [] cl.auth) (resolveSig x.defs cl.sig) .acceptAdmin = .ok c') :
    CallSound m x cl c' := by
  obtain ⟨t, p, hh, _, hauth, rfl⟩ := acceptAdmin_inv hx
  refine ⟨?_, ?_, ?_⟩
  · intro ok0 eq0
    apply verdictCall_none
    · apply idle_none_of_not_advance'; intro n h; rw [hcall] at h; cases h
    · exact undone_none x.defs ok0 true eq0 none (fun id h1 => applyE_ledger_one hx h1)
    · rfl
    · apply effect_none
      · intro _; rfl
      · intro _; rfl
      · intro _; rfl
      · intro h; rw [hcall] at h; cases h
      · intro _ _ _ _
        exact newlyDone_false x.defs ok0 true eq0 none (fun id h1 => h1)
    · unfold verdictAccepted
      rw [hcall]
      simp only
      unfold verdictAccept
      show (match t.holder with
        | some a => _
        | none => _) = none
      rw [hh]
      simp only
      rw [if_neg]
      simpa using contains_of_call hauth
  · intro id
    rw [ghostStep_quiet m cl _ _ (by rw [hcall]; rfl) (by intro k d p h; rw [hcall] at h; cases h)
      (by intro r p h; rw [hcall] at h; cases h) (by intro k ex ok h; rw [hcall] at h; cases h)]
    exact ha.ghost id
  · exact hi.known

/-! ### the ledger advances -/

theorem advance_sound (m : Mon) (x : MS) (hi : MInv x) (ha : Agree m x) (cl : CallLine) (n : Nat)
    (hcall : cl.call = .advance n) (c' : CState)
    (hx : applyE x.c [] (resolveSig x.defs cl.sig) (.advance n) = .ok c') : CallSound m x cl c' := by
  obtain ⟨_, hc'⟩ := advance_inv hx
  have hled : c'.tl.ledger = x.c.tl.ledger := by rw [hc']
  have hlog : c'.tl.log = x.c.tl.log := by rw [hc']
  have hmin : c'.tl.minDelay = x.c.tl.minDelay := by rw [hc']
  have hcalls : c'.tl.calls = x.c.tl.calls := by rw [hc']
  have hnow : x.c.tl.now ≤ c'.tl.now := by rw [hc']; exact Nat.le_add_right _ _
  have hrole : c'.ac.hasRole = x.c.ac.hasRole := by rw [hc']; rfl
  have hradm : c'.ac.roleAdmin = x.c.ac.roleAdmin := by rw [hc']; rfl
  have hadm : c'.admin = x.c.admin := by rw [hc']; rfl
  refine ⟨?_, ?_, ?_⟩
  · intro ok0 eq0
    apply verdictCall_none
    · rw [hcall]
      show idleCheck _ _ n = none
      exact idleCheck_none x.defs ok0 true eq0 none hmin hadm hrole hradm hcalls hled hnow n
    · exact undone_none x.defs ok0 true eq0 none (fun id h1 => by rw [hled]; exact h1)
    · rfl
    · apply effect_none
      · intro _; exact hmin
      · intro _; exact modelRoles_of_ac hrole
      · intro _; exact modelRadm_of_ac hradm
      · intro _ _; exact hadm
      · intro _ _ _ _
        exact newlyDone_false x.defs ok0 true eq0 none (fun id h1 => by rw [hled] at h1; exact h1)
    · unfold verdictAccepted
      rw [hcall]
  · intro id
    rw [ghostStep_quiet m cl _ _ (by rw [hcall]; rfl) (by intro k d p h; rw [hcall] at h; cases h)
      (by intro r p h; rw [hcall] at h; cases h) (by intro k ex ok h; rw [hcall] at h; cases h), hlog]
    exact ha.ghost id
  · intro id; rw [hlog]; exact hi.known id

end OZ.TimelockController.Mon
