import OZ.Lemmas.RegIrs
import OZ.Lemmas.RegMon
import OZ.Model.RegIrsMon
/-
Helper facts for the soundness proof of the `irs` monitor of C20 (OZ/Props/C20fMon.lean): the
monitor's plain maps as lookup functions, their updates, and the monitor's accept / refuse decision
against the model's.
-/
namespace OZ.RegIrs.Mon
open OZ.Reg OZ.RegMon OZ.RegIrs

/-- the record the model state holds for an account -/
def recOf (s : State) (a : Nat) : Option Rec :=
  match s.identity a, s.profile a with
  | some i, some p => some ⟨a, i, p.ty, p.countries⟩
  | _, _ => none

/-- the recovery list as a lookup function -/
def rlook (g : Mon) (a : Nat) : Option Nat := (g.recovered.find? (fun p => p.1 == a)).map (·.2)

/-- the monitor's plain maps describe the model state (and the label parameter is the same) -/
structure Agree (g : Mon) (s : State) (na : Nat) : Prop where
  na : g.na = na
  look : ∀ a, find g a = recOf s a
  rto : ∀ a, rlook g a = s.recoveredTo a

theorem okCD_eq (c : CD) : okCD c = validCD c := rfl

theorem all_okCD (cs : List CD) : cs.all okCD = cs.all validCD := by
  congr 1

/-! ### `recOf` -/

theorem recOf_of {s : State} {a i : Nat} {p : Profile} (hi : s.identity a = some i) (hp : s.profile a = some p) :
    recOf s a = some ⟨a, i, p.ty, p.countries⟩ := by
  unfold recOf; rw [hi, hp]

theorem recOf_none_of_identity {s : State} {a : Nat} (hi : s.identity a = none) : recOf s a = none := by
  unfold recOf; rw [hi]

theorem recOf_none_of_profile {s : State} {a : Nat} (hp : s.profile a = none) : recOf s a = none := by
  unfold recOf; rw [hp]; cases s.identity a <;> rfl

theorem recOf_congr {s s' : State} {a : Nat} (hi : s'.identity a = s.identity a) (hp : s'.profile a = s.profile a) :
    recOf s' a = recOf s a := by
  unfold recOf; rw [hi, hp]

theorem recOf_some {s : State} {a : Nat} {r : Rec} (h : recOf s a = some r) :
    r.acct = a ∧ s.identity a = some r.ident ∧ s.profile a = some ⟨r.ty, r.cs⟩ := by
  unfold recOf at h
  cases hi : s.identity a with
  | none => rw [hi] at h; cases h
  | some i =>
    cases hp : s.profile a with
    | none => rw [hi, hp] at h; cases h
    | some p =>
      rw [hi, hp] at h
      injection h with h; subst h
      exact ⟨rfl, rfl, rfl⟩

theorem identity_of_recOf_none {s : State} (hI : Inv s) {a : Nat} (h : recOf s a = none) : s.identity a = none := by
  cases hi : s.identity a with
  | none => rfl
  | some i =>
    have hp : (s.profile a).isSome = true := by rw [hI.profDom, hi]; rfl
    obtain ⟨p, hp⟩ := Option.isSome_iff_exists.1 hp
    rw [recOf_of hi hp] at h; cases h

theorem profile_of_recOf_none {s : State} (hI : Inv s) {a : Nat} (h : recOf s a = none) : s.profile a = none := by
  have := hI.profDom a
  rw [identity_of_recOf_none hI h] at this
  exact (isSome_false_iff _).1 this

/-- a registered account: its record in the model -/
theorem recOf_of_identity {s : State} (hI : Inv s) {a i : Nat} (hi : s.identity a = some i) :
    ∃ p, s.profile a = some p ∧ recOf s a = some ⟨a, i, p.ty, p.countries⟩ := by
  have hp : (s.profile a).isSome = true := by rw [hI.profDom, hi]; rfl
  obtain ⟨p, hp⟩ := Option.isSome_iff_exists.1 hp
  exact ⟨p, hp, recOf_of hi hp⟩

theorem recOf_of_profile {s : State} (hI : Inv s) {a : Nat} {p : Profile} (hp : s.profile a = some p) :
    ∃ i, s.identity a = some i ∧ recOf s a = some ⟨a, i, p.ty, p.countries⟩ := by
  have hi : (s.identity a).isSome = true := by rw [← hI.profDom, hp]; rfl
  obtain ⟨i, hi⟩ := Option.isSome_iff_exists.1 hi
  exact ⟨i, hi, recOf_of hi hp⟩

/-! ### the plain map `recs` as a lookup function -/

theorem find_filter_ne_self (l : List Rec) (k : Nat) :
    (l.filter (fun x => x.acct ≠ k)).find? (fun r => r.acct == k) = none := by
  rw [List.find?_eq_none]
  intro e he
  simp only [List.mem_filter, decide_eq_true_eq] at he
  simpa using he.2

theorem find_filter_ne_other (l : List Rec) {k a : Nat} (h : a ≠ k) :
    (l.filter (fun x => x.acct ≠ k)).find? (fun r => r.acct == a) = l.find? (fun r => r.acct == a) := by
  rw [List.find?_filter]
  congr 1
  funext e
  by_cases he : e.acct = a
  · simp [he, h]
  · simp [he]

theorem find_put (g : Mon) (r : Rec) (a : Nat) :
    find (put g r) a = if a = r.acct then some r else find g a := by
  unfold find put
  show List.find? _ (g.recs.filter (fun x => x.acct ≠ r.acct) ++ [r]) = _
  rw [List.find?_append]
  by_cases h : a = r.acct
  · subst h; rw [if_pos rfl, find_filter_ne_self]; simp
  · rw [if_neg h, find_filter_ne_other _ h]
    cases hf : g.recs.find? (fun r => r.acct == a) with
    | some e => rfl
    | none =>
      have : ¬ r.acct = a := fun e => h e.symm
      simp [this]

theorem find_del (g : Mon) (k a : Nat) :
    find (del g k) a = if a = k then none else find g a := by
  unfold find del
  show List.find? _ (g.recs.filter (fun x => x.acct ≠ k)) = _
  by_cases h : a = k
  · subst h; rw [if_pos rfl, find_filter_ne_self]
  · rw [if_neg h, find_filter_ne_other _ h]

theorem rlook_none_iff (g : Mon) (a : Nat) :
    rlook g a = none ↔ (g.recovered.find? (fun p => p.1 == a)).isSome = false := by
  unfold rlook; cases g.recovered.find? (fun p => p.1 == a) <;> simp

theorem rlook_append (g : Mon) (o n a : Nat) (h : rlook g o = none) :
    ((g.recovered ++ [(o, n)]).find? (fun p => p.1 == a)).map (·.2) = if a = o then some n else rlook g a := by
  rw [List.find?_append]
  by_cases hao : a = o
  · subst hao
    rw [if_pos rfl]
    have : g.recovered.find? (fun p => p.1 == a) = none := by
      have := (rlook_none_iff g a).1 h
      exact (isSome_false_iff _).1 this
    rw [this]; simp
  · rw [if_neg hao]
    have : ¬ o = a := fun e => hao e.symm
    unfold rlook
    cases g.recovered.find? (fun p => p.1 == a) with
    | some e => rfl
    | none => simp [this]

/-! ### updating the plain map keeps it describing the model -/

theorem agree_put {g : Mon} {s s' : State} {na : Nat} (ha : Agree g s na) {r : Rec}
    (hr : s'.recoveredTo = s.recoveredTo) (h1 : recOf s' r.acct = some r)
    (h2 : ∀ a', a' ≠ r.acct → recOf s' a' = recOf s a') : Agree (put g r) s' na := by
  refine ⟨ha.na, fun a' => ?_, fun a' => ?_⟩
  · rw [find_put]
    by_cases h : a' = r.acct
    · rw [if_pos h, h, h1]
    · rw [if_neg h, h2 a' h]; exact ha.look a'
  · rw [hr]; exact ha.rto a'

theorem agree_del {g : Mon} {s s' : State} {na : Nat} (ha : Agree g s na) {k : Nat}
    (hr : s'.recoveredTo = s.recoveredTo) (h1 : recOf s' k = none)
    (h2 : ∀ a', a' ≠ k → recOf s' a' = recOf s a') : Agree (del g k) s' na := by
  refine ⟨ha.na, fun a' => ?_, fun a' => ?_⟩
  · rw [find_del]
    by_cases h : a' = k
    · rw [if_pos h, h, h1]
    · rw [if_neg h, h2 a' h]; exact ha.look a'
  · rw [hr]; exact ha.rto a'

/-- replacing the profile of one account -/
theorem recOf_setProfile_other {s : State} {a : Nat} {q : Option Profile} {a' : Nat} (h : a' ≠ a) :
    recOf { s with profile := updD s.profile a q } a' = recOf s a' :=
  recOf_congr rfl (updD_other _ _ _ _ h)

theorem find_isSome_false {g : Mon} {s : State} {na : Nat} (ha : Agree g s na) {a : Nat}
    (h : s.identity a = none) : ¬ (find g a).isSome = true := by
  rw [ha.look, recOf_none_of_identity h]; simp

theorem rfind_isSome_false {g : Mon} {s : State} {na : Nat} (ha : Agree g s na) {a : Nat}
    (h : s.recoveredTo a = none) : ¬ (g.recovered.find? (fun p => p.1 == a)).isSome = true := by
  have := (rlook_none_iff g a).1 (by rw [ha.rto, h])
  rw [this]; simp

theorem rto_none_of {g : Mon} {s : State} {na : Nat} (ha : Agree g s na) {a : Nat}
    (h : ¬ (g.recovered.find? (fun p => p.1 == a)).isSome = true) : s.recoveredTo a = none := by
  rw [← ha.rto, rlook_none_iff]; exact Bool.eq_false_iff.2 h

theorem identity_none_of {g : Mon} {s : State} {na : Nat} (ha : Agree g s na) (hI : Inv s) {a : Nat}
    (h : ¬ (find g a).isSome = true) : s.identity a = none := by
  apply identity_of_recOf_none hI
  rw [← ha.look]
  cases hf : find g a with
  | none => rfl
  | some r => rw [hf] at h; simp at h

theorem moveIdentity_identity (s : State) (old new ident : Nat) (p : Profile) (a' : Nat) :
    (moveIdentity s old new ident p).identity a' =
      if a' = old then none else if a' = new then some ident else s.identity a' := by
  simp only [moveIdentity, updD]

theorem moveIdentity_profile (s : State) (old new ident : Nat) (p : Profile) (a' : Nat) :
    (moveIdentity s old new ident p).profile a' =
      if a' = old then none else if a' = new then some p else s.profile a' := by
  simp only [moveIdentity, updD]

/-! ### an operation the model accepts is accepted by the plain maps, which then describe the new
model state -/

theorem plain_ok_add {g : Mon} {s s' : State} {na : Nat} (ha : Agree g s na) {a ident ty : Nat} {cs : List CD}
    (hs : step s (.add a ident ty cs) = .ok s') : ∃ g', plain g (.add a ident ty cs) = .ok g' ∧ Agree g' s' na := by
  obtain ⟨⟨hr, hne, hl, hv, hid⟩, rfl⟩ := (addIdentity_ok_iff s s' a ident ty cs).1 hs
  refine ⟨put g ⟨a, ident, ty, cs⟩, ?_, ?_⟩
  · simp only [plain]
    rw [if_neg (rfind_isSome_false ha hr), if_neg hne, if_neg (by unfold MAX_COUNTRY_ENTRIES at hl; omega),
      if_neg (by rw [all_okCD, hv]; simp), if_neg (find_isSome_false ha hid)]
  · refine agree_put ha rfl ?_ (fun a' h => recOf_congr (updD_other _ _ _ _ h) (updD_other _ _ _ _ h))
    refine recOf_of (i := ident) (p := ⟨ty, cs⟩) ?_ ?_ <;> exact updD_same _ _ _

theorem plain_ok_modify {g : Mon} {s s' : State} {na : Nat} (ha : Agree g s na) (hI : Inv s) {a ident : Nat}
    (hs : step s (.modify a ident) = .ok s') : ∃ g', plain g (.modify a ident) = .ok g' ∧ Agree g' s' na := by
  obtain ⟨hsome, rfl⟩ := (modifyIdentity_ok_iff s s' a ident).1 hs
  obtain ⟨x, hx⟩ := Option.isSome_iff_exists.1 hsome
  obtain ⟨p, hp, hr⟩ := recOf_of_identity hI hx
  have hf : find g a = some ⟨a, x, p.ty, p.countries⟩ := by rw [ha.look, hr]
  refine ⟨put g ⟨a, ident, p.ty, p.countries⟩, by simp only [plain, hf], ?_⟩
  refine agree_put ha rfl ?_ (fun a' h => recOf_congr (updD_other _ _ _ _ h) rfl)
  exact recOf_of (i := ident) (p := p) (updD_same _ _ _) hp

theorem plain_ok_remove {g : Mon} {s s' : State} {na : Nat} (ha : Agree g s na) (hI : Inv s) {a : Nat}
    (hs : step s (.remove a) = .ok s') : ∃ g', plain g (.remove a) = .ok g' ∧ Agree g' s' na := by
  obtain ⟨hsome, rfl⟩ := (removeIdentity_ok_iff hI s' a).1 hs
  have h1 : (find g a).isSome = true := by
    obtain ⟨x, hx⟩ := Option.isSome_iff_exists.1 hsome
    obtain ⟨p, hp, hr⟩ := recOf_of_identity hI hx
    rw [ha.look, hr]; rfl
  refine ⟨del g a, by simp only [plain]; rw [if_pos h1], ?_⟩
  exact agree_del ha rfl (recOf_none_of_identity (updD_same _ _ _))
    (fun a' h => recOf_congr (updD_other _ _ _ _ h) (updD_other _ _ _ _ h))

theorem plain_ok_recover {g : Mon} {s s' : State} {na : Nat} (ha : Agree g s na) (hI : Inv s) {old new : Nat}
    (hs : step s (.recover old new) = .ok s') : ∃ g', plain g (.recover old new) = .ok g' ∧ Agree g' s' na := by
  obtain ⟨ident, p, hr, hio, hin, hp, rfl⟩ := (recoverIdentity_ok_iff hI s' old new).1 hs
  have hon : old ≠ new := by intro h; subst h; rw [hio] at hin; cases hin
  have hno : new ≠ old := fun e => hon e.symm
  have hro : s.recoveredTo old = none := by
    cases h : s.recoveredTo old with
    | none => rfl
    | some b => have := hI.recNone old (by rw [h]; rfl); rw [this] at hio; cases hio
  have hf : find g old = some ⟨old, ident, p.ty, p.countries⟩ := by rw [ha.look, recOf_of hio hp]
  refine ⟨{ (put (del g old) ⟨new, ident, p.ty, p.countries⟩) with recovered := g.recovered ++ [(old, new)] }, ?_, ?_⟩
  · simp only [plain]
    rw [if_neg (rfind_isSome_false ha hr)]
    simp only [hf]
    rw [if_neg (find_isSome_false ha hin)]
  · refine ⟨ha.na, fun a' => ?_, fun a' => ?_⟩
    · show find (put (del g old) ⟨new, ident, p.ty, p.countries⟩) a' = _
      rw [find_put, find_del]
      show (if a' = new then _ else _) = _
      by_cases h2 : a' = new
      · rw [if_pos h2, h2]; symm
        refine recOf_of (i := ident) (p := p) ?_ ?_
        · rw [moveIdentity_identity, if_neg hno, if_pos rfl]
        · rw [moveIdentity_profile, if_neg hno, if_pos rfl]
      · rw [if_neg h2]
        by_cases h1 : a' = old
        · rw [if_pos h1]; symm
          apply recOf_none_of_identity
          rw [moveIdentity_identity, if_pos h1]
        · rw [if_neg h1, ha.look]; symm
          apply recOf_congr
          · rw [moveIdentity_identity, if_neg h1, if_neg h2]
          · rw [moveIdentity_profile, if_neg h1, if_neg h2]
    · show ((g.recovered ++ [(old, new)]).find? (fun p => p.1 == a')).map (·.2) = updD s.recoveredTo old (some new) a'
      rw [rlook_append _ _ _ _ (by rw [ha.rto]; exact hro)]
      by_cases h1 : a' = old
      · rw [if_pos h1, h1, updD_same]
      · rw [if_neg h1, updD_other _ _ _ _ h1]; exact ha.rto a'

theorem plain_ok_addCountries {g : Mon} {s s' : State} {na : Nat} (ha : Agree g s na) (hI : Inv s) {a : Nat} {cs : List CD}
    (hs : step s (.addCountries a cs) = .ok s') : ∃ g', plain g (.addCountries a cs) = .ok g' ∧ Agree g' s' na := by
  obtain ⟨p, hne, hv, hp, hl, rfl⟩ := (addCountries_ok_iff s s' a cs).1 hs
  obtain ⟨i, hi, hr⟩ := recOf_of_profile hI hp
  have hf : find g a = some ⟨a, i, p.ty, p.countries⟩ := by rw [ha.look, hr]
  refine ⟨put g ⟨a, i, p.ty, p.countries ++ cs⟩, ?_, ?_⟩
  · simp only [plain]
    rw [if_neg hne, if_neg (by rw [all_okCD, hv]; simp)]
    simp only [hf]
    rw [if_neg (show ¬ (p.countries ++ cs).length > 15 from Nat.not_lt.2 hl)]
  · refine agree_put ha rfl ?_ (fun a' h => recOf_setProfile_other h)
    exact recOf_of (i := i) (p := ⟨p.ty, p.countries ++ cs⟩) hi (updD_same _ _ _)

theorem plain_ok_modifyCountry {g : Mon} {s s' : State} {na : Nat} (ha : Agree g s na) (hI : Inv s) {a i : Nat} {c : CD}
    (hs : step s (.modifyCountry a i c) = .ok s') : ∃ g', plain g (.modifyCountry a i c) = .ok g' ∧ Agree g' s' na := by
  obtain ⟨p, hv, hp, hi, rfl⟩ := (modifyCountry_ok_iff s s' a i c).1 hs
  obtain ⟨x, hx, hr⟩ := recOf_of_profile hI hp
  have hf : find g a = some ⟨a, x, p.ty, p.countries⟩ := by rw [ha.look, hr]
  refine ⟨put g ⟨a, x, p.ty, p.countries.set i c⟩, ?_, ?_⟩
  · simp only [plain]
    rw [if_neg (by rw [okCD_eq, hv]; simp)]
    simp only [hf]
    rw [if_neg (Nat.not_le.2 hi)]
  · refine agree_put ha rfl ?_ (fun a' h => recOf_setProfile_other h)
    exact recOf_of (i := x) (p := ⟨p.ty, p.countries.set i c⟩) hx (updD_same _ _ _)

theorem plain_ok_deleteCountry {g : Mon} {s s' : State} {na : Nat} (ha : Agree g s na) (hI : Inv s) {a i : Nat}
    (hs : step s (.deleteCountry a i) = .ok s') : ∃ g', plain g (.deleteCountry a i) = .ok g' ∧ Agree g' s' na := by
  obtain ⟨p, hp, hne, hi, rfl⟩ := (deleteCountry_ok_iff s s' a i).1 hs
  obtain ⟨x, hx, hr⟩ := recOf_of_profile hI hp
  have hf : find g a = some ⟨a, x, p.ty, p.countries⟩ := by rw [ha.look, hr]
  refine ⟨put g ⟨a, x, p.ty, p.countries.eraseIdx i⟩, ?_, ?_⟩
  · simp only [plain, hf]
    rw [if_neg hne, if_neg (Nat.not_le.2 hi)]
  · refine agree_put ha rfl ?_ (fun a' h => recOf_setProfile_other h)
    exact recOf_of (i := x) (p := ⟨p.ty, p.countries.eraseIdx i⟩) hx (updD_same _ _ _)

theorem plain_ok {g : Mon} {s s' : State} {na : Nat} (ha : Agree g s na) (hI : Inv s) {op : Op}
    (hs : step s op = .ok s') : ∃ g', plain g op = .ok g' ∧ Agree g' s' na := by
  cases op with
  | add a ident ty cs => exact plain_ok_add ha hs
  | modify a ident => exact plain_ok_modify ha hI hs
  | remove a => exact plain_ok_remove ha hI hs
  | recover o n => exact plain_ok_recover ha hI hs
  | addCountries a cs => exact plain_ok_addCountries ha hI hs
  | modifyCountry a i c => exact plain_ok_modifyCountry ha hI hs
  | deleteCountry a i => exact plain_ok_deleteCountry ha hI hs

/-! ### an operation the model refuses is refused by the plain maps -/

theorem recOf_of_find {g : Mon} {s : State} {na : Nat} (ha : Agree g s na) {a : Nat} {r : Rec}
    (hf : find g a = some r) : r.acct = a ∧ s.identity a = some r.ident ∧ s.profile a = some ⟨r.ty, r.cs⟩ :=
  recOf_some (by rw [← ha.look, hf])

theorem profile_none_of_find {g : Mon} {s : State} {na : Nat} (ha : Agree g s na) (hI : Inv s) {a : Nat}
    (hf : find g a = none) : s.profile a = none :=
  profile_of_recOf_none hI (by rw [← ha.look, hf])

theorem plain_err_add {g : Mon} {s : State} {na : Nat} (ha : Agree g s na) (hI : Inv s) {a ident ty : Nat} {cs : List CD}
    {e : RErr} (hs : step s (.add a ident ty cs) = .error e) : ∃ w, plain g (.add a ident ty cs) = .error w := by
  simp only [plain]
  by_cases h1 : (g.recovered.find? (fun p => p.1 == a)).isSome = true
  · rw [if_pos h1]; exact ⟨_, rfl⟩
  rw [if_neg h1]
  by_cases h2 : cs = []
  · rw [if_pos h2]; exact ⟨_, rfl⟩
  rw [if_neg h2]
  by_cases h3 : cs.length > 15
  · rw [if_pos h3]; exact ⟨_, rfl⟩
  rw [if_neg h3]
  by_cases h4 : (!cs.all okCD) = true
  · rw [if_pos h4]; exact ⟨_, rfl⟩
  rw [if_neg h4]
  by_cases h5 : (find g a).isSome = true
  · rw [if_pos h5]; exact ⟨_, rfl⟩
  exfalso
  have : addIdentity s a ident ty cs = .ok _ := (addIdentity_ok_iff s _ a ident ty cs).2
    ⟨⟨rto_none_of ha h1, h2, Nat.not_lt.1 h3, by rw [← all_okCD]; simpa using h4, identity_none_of ha hI h5⟩, rfl⟩
  rw [show step s (.add a ident ty cs) = addIdentity s a ident ty cs from rfl, this] at hs; cases hs

theorem plain_err_modify {g : Mon} {s : State} {na : Nat} (ha : Agree g s na) {a ident : Nat}
    {e : RErr} (hs : step s (.modify a ident) = .error e) : ∃ w, plain g (.modify a ident) = .error w := by
  cases hf : find g a with
  | none => simp only [plain, hf]; exact ⟨_, rfl⟩
  | some r =>
    exfalso
    obtain ⟨_, hi, _⟩ := recOf_of_find ha hf
    have : modifyIdentity s a ident = .ok _ := (modifyIdentity_ok_iff s _ a ident).2 ⟨by rw [hi]; rfl, rfl⟩
    rw [show step s (.modify a ident) = modifyIdentity s a ident from rfl, this] at hs; cases hs

theorem plain_err_remove {g : Mon} {s : State} {na : Nat} (ha : Agree g s na) (hI : Inv s) {a : Nat}
    {e : RErr} (hs : step s (.remove a) = .error e) : ∃ w, plain g (.remove a) = .error w := by
  simp only [plain]
  by_cases h1 : (find g a).isSome = true
  · exfalso
    obtain ⟨r, hf⟩ := Option.isSome_iff_exists.1 h1
    obtain ⟨_, hi, _⟩ := recOf_of_find ha hf
    have : removeIdentity s a = .ok _ := (removeIdentity_ok_iff hI _ a).2 ⟨by rw [hi]; rfl, rfl⟩
    rw [show step s (.remove a) = removeIdentity s a from rfl, this] at hs; cases hs
  · rw [if_neg h1]; exact ⟨_, rfl⟩

theorem plain_err_recover {g : Mon} {s : State} {na : Nat} (ha : Agree g s na) (hI : Inv s) {old new : Nat}
    {e : RErr} (hs : step s (.recover old new) = .error e) : ∃ w, plain g (.recover old new) = .error w := by
  simp only [plain]
  by_cases h1 : (g.recovered.find? (fun p => p.1 == new)).isSome = true
  · rw [if_pos h1]; exact ⟨_, rfl⟩
  rw [if_neg h1]
  cases hf : find g old with
  | none => exact ⟨_, rfl⟩
  | some r =>
    simp only
    by_cases h2 : (find g new).isSome = true
    · rw [if_pos h2]; exact ⟨_, rfl⟩
    exfalso
    obtain ⟨_, hi, hp⟩ := recOf_of_find ha hf
    have : recoverIdentity s old new = .ok _ := (recoverIdentity_ok_iff hI _ old new).2
      ⟨_, _, rto_none_of ha h1, hi, identity_none_of ha hI h2, hp, rfl⟩
    rw [show step s (.recover old new) = recoverIdentity s old new from rfl, this] at hs; cases hs

theorem plain_err_addCountries {g : Mon} {s : State} {na : Nat} (ha : Agree g s na) {a : Nat} {cs : List CD}
    {e : RErr} (hs : step s (.addCountries a cs) = .error e) : ∃ w, plain g (.addCountries a cs) = .error w := by
  simp only [plain]
  by_cases h2 : cs = []
  · rw [if_pos h2]; exact ⟨_, rfl⟩
  rw [if_neg h2]
  by_cases h4 : (!cs.all okCD) = true
  · rw [if_pos h4]; exact ⟨_, rfl⟩
  rw [if_neg h4]
  cases hf : find g a with
  | none => exact ⟨_, rfl⟩
  | some r =>
    simp only
    by_cases h3 : (r.cs ++ cs).length > 15
    · rw [if_pos h3]; exact ⟨_, rfl⟩
    exfalso
    obtain ⟨_, _, hp⟩ := recOf_of_find ha hf
    have : addCountryDataEntries s a cs = .ok _ := (addCountries_ok_iff s _ a cs).2
      ⟨_, h2, by rw [← all_okCD]; simpa using h4, hp, Nat.not_lt.1 h3, rfl⟩
    rw [show step s (.addCountries a cs) = addCountryDataEntries s a cs from rfl, this] at hs; cases hs

theorem plain_err_modifyCountry {g : Mon} {s : State} {na : Nat} (ha : Agree g s na) {a i : Nat} {c : CD}
    {e : RErr} (hs : step s (.modifyCountry a i c) = .error e) : ∃ w, plain g (.modifyCountry a i c) = .error w := by
  simp only [plain]
  by_cases h4 : (!okCD c) = true
  · rw [if_pos h4]; exact ⟨_, rfl⟩
  rw [if_neg h4]
  cases hf : find g a with
  | none => exact ⟨_, rfl⟩
  | some r =>
    simp only
    by_cases h3 : i ≥ r.cs.length
    · rw [if_pos h3]; exact ⟨_, rfl⟩
    exfalso
    obtain ⟨_, _, hp⟩ := recOf_of_find ha hf
    have : modifyCountryData s a i c = .ok _ := (modifyCountry_ok_iff s _ a i c).2
      ⟨_, by rw [← okCD_eq]; simpa using h4, hp, Nat.not_le.1 h3, rfl⟩
    rw [show step s (.modifyCountry a i c) = modifyCountryData s a i c from rfl, this] at hs; cases hs

theorem plain_err_deleteCountry {g : Mon} {s : State} {na : Nat} (ha : Agree g s na) {a i : Nat}
    {e : RErr} (hs : step s (.deleteCountry a i) = .error e) : ∃ w, plain g (.deleteCountry a i) = .error w := by
  simp only [plain]
  cases hf : find g a with
  | none => exact ⟨_, rfl⟩
  | some r =>
    simp only
    by_cases h1 : r.cs.length = 1
    · rw [if_pos h1]; exact ⟨_, rfl⟩
    rw [if_neg h1]
    by_cases h3 : i ≥ r.cs.length
    · rw [if_pos h3]; exact ⟨_, rfl⟩
    exfalso
    obtain ⟨_, _, hp⟩ := recOf_of_find ha hf
    have : deleteCountryData s a i = .ok _ := (deleteCountry_ok_iff s _ a i).2
      ⟨_, hp, h1, Nat.not_le.1 h3, rfl⟩
    rw [show step s (.deleteCountry a i) = deleteCountryData s a i from rfl, this] at hs; cases hs

theorem plain_err {g : Mon} {s : State} {na : Nat} (ha : Agree g s na) (hI : Inv s) {op : Op} {e : RErr}
    (hs : step s op = .error e) : ∃ w, plain g op = .error w := by
  cases op with
  | add a ident ty cs => exact plain_err_add ha hI hs
  | modify a ident => exact plain_err_modify ha hs
  | remove a => exact plain_err_remove ha hI hs
  | recover o n => exact plain_err_recover ha hI hs
  | addCountries a cs => exact plain_err_addCountries ha hs
  | modifyCountry a i c => exact plain_err_modifyCountry ha hs
  | deleteCountry a i => exact plain_err_deleteCountry ha hs

/-! ### the getters of a state the plain maps describe -/

theorem ident_of_agree {g : Mon} {s : State} {na : Nat} (ha : Agree g s na) (hI : Inv s) (a : Nat) :
    (find g a).map (·.ident) = s.identity a := by
  cases hi : s.identity a with
  | none => rw [ha.look, recOf_none_of_identity hi]; rfl
  | some i =>
    obtain ⟨p, _, hr⟩ := recOf_of_identity hI hi
    rw [ha.look, hr]; rfl

theorem cs_of_agree {g : Mon} {s : State} {na : Nat} (ha : Agree g s na) (hI : Inv s) (a : Nat) :
    ((find g a).map (·.cs)).getD [] = getCountryDataEntries s a := by
  unfold getCountryDataEntries
  cases hp : s.profile a with
  | none => rw [ha.look, recOf_none_of_profile hp]; rfl
  | some p =>
    obtain ⟨i, _, hr⟩ := recOf_of_profile hI hp
    rw [ha.look, hr]; rfl

theorem getCountryData_eq (s : State) (a i : Nat) : getCountryData s a i = (getCountryDataEntries s a)[i]? := by
  unfold getCountryData getCountryDataEntries
  cases s.profile a <;> simp

/-- reading a list by index 0..len (the last read fails) prints the list followed by `x` -/
theorem cd_by_index (l : List CD) :
    (List.range (l.length + 1)).map (fun i => match l[i]? with | some c => showCD c | none => "x") =
      l.map showCD ++ ["x"] := by
  rw [List.range_succ, List.map_append]
  congr 1
  · apply List.ext_getElem (by simp)
    intro i h1 h2
    have hi : i < l.length := by simpa using h1
    simp [hi]
  · simp

/-- the last check: in the model's entry lists every recovered account is listed without identity -/
theorem recovered_quiet {s : State} (hI : Inv s) (na : Nat) :
    recoveredOk ((List.range na).map (fun a => [toString a, showOpt (getRecoveredTo s a)]))
      ((List.range na).map (fun a => [toString a, showOpt (storedIdentity s a)])) = true := by
  unfold recoveredOk
  rw [List.all_eq_true]
  intro e he
  obtain ⟨a, ha, rfl⟩ := List.mem_map.1 he
  show decide (showOpt (s.recoveredTo a) = "x" ∨ (List.contains _ [toString a, "x"]) = true) = true
  rw [decide_eq_true_eq]
  cases hr : s.recoveredTo a with
  | none => left; rfl
  | some b =>
    right
    rw [List.contains_iff_mem]
    refine List.mem_map.2 ⟨a, ha, ?_⟩
    show [toString a, showOpt (s.identity a)] = _
    rw [hI.recNone a (by rw [hr]; rfl)]; rfl

end OZ.RegIrs.Mon
