import OZ.Lemmas.RegRules
import OZ.Lemmas.RegMon
import OZ.Model.RegRulesMon
import Mathlib.Data.List.Sort
/-
Helper facts for the soundness proof of the `rules` monitor of C20 (OZ/Props/C20dMon.lean), part 1:
generic list facts, the monitor's plain list as the image `ghost s` of the model's live rules, the
relation `Agree`, the extra model invariant `IdsSorted` (the per-type id vectors are increasing), and
how the ghost moves under the three kinds of model updates (one rule replaced, one rule removed,
one rule appended).
-/
namespace OZ.RegRules.Mon
open OZ.Reg OZ.RegMon OZ.RegRules

/-! ### generic list facts -/

/-- on a duplicate-free vector "remove the last occurrence" is "remove the first occurrence" -/
theorem eraseLast_eq_erase {l : List Nat} (h : l.Nodup) (a : Nat) : eraseLast l a = l.erase a := by
  unfold eraseLast
  rw [(nodup_reverse.2 h).erase_eq_filter, h.erase_eq_filter, List.filter_reverse, List.reverse_reverse]

theorem eraseLast_sublist (l : List Nat) (a : Nat) : (eraseLast l a).Sublist l := by
  unfold eraseLast
  have := (List.erase_sublist (a := a) (l := l.reverse)).reverse
  rwa [List.reverse_reverse] at this

theorem filter_ne_of_not_mem {α : Type} [BEq α] [LawfulBEq α] {l : List α} {a : α} (h : a ∉ l) :
    l.filter (fun b => !b == a) = l := by
  rw [List.filter_eq_self]
  intro b hb
  have : b ≠ a := fun e => h (e ▸ hb)
  simpa using this

/-- `eraseDups` keeps a duplicate-free list -/
theorem eraseDups_of_nodup {α : Type} [BEq α] [LawfulBEq α] : ∀ {l : List α}, l.Nodup → l.eraseDups = l
  | [], _ => rfl
  | a :: as, h => by
    rw [List.nodup_cons] at h
    rw [List.eraseDups_cons, filter_ne_of_not_mem h.1, eraseDups_of_nodup h.2]

theorem sortNat_perm (l : List Nat) : (sortNat l).Perm l := List.mergeSort_perm _ _

theorem sortNat_sorted (l : List Nat) : (sortNat l).Pairwise (· ≤ ·) := by
  have := List.pairwise_mergeSort (le := fun a b : Nat => decide (a ≤ b))
    (by intro a b c h1 h2; simp at h1 h2 ⊢; omega) (by intro a b; simp; omega) l
  unfold sortNat
  simpa using this

/-- the modelled fingerprint compares signer / policy vectors as multisets -/
theorem sortNat_eq_iff (a b : List Nat) : sortNat a = sortNat b ↔ a.Perm b := by
  constructor
  · intro h
    exact (sortNat_perm a).symm.trans (h ▸ sortNat_perm b)
  · intro h
    exact List.Perm.eq_of_pairwise' (sortNat_sorted a) (sortNat_sorted b)
      ((sortNat_perm a).trans (h.trans (sortNat_perm b).symm))

/-- for duplicate-free vectors: equal as multisets iff equal as plain sets -/
theorem sortNat_eq_iff_mem {a b : List Nat} (ha : a.Nodup) (hb : b.Nodup) :
    sortNat a = sortNat b ↔ ∀ x, x ∈ a ↔ x ∈ b := by
  rw [sortNat_eq_iff, List.perm_ext_iff_of_nodup ha hb]

/-! ### filterMap over an initial segment of the ids -/

theorem find_range_filterMap (f : Nat → Option GR) (hf : ∀ i x, f i = some x → x.id = i) (id : Nat) :
    ∀ N, ((List.range N).filterMap f).find? (fun r => r.id == id) = if id < N then f id else none
  | 0 => rfl
  | N + 1 => by
    rw [List.range_succ, List.filterMap_append, List.find?_append, find_range_filterMap f hf id N]
    have hlast : ([N].filterMap f).find? (fun r => r.id == id) = if id = N then f id else none := by
      cases hN : f N with
      | none =>
        have : [N].filterMap f = [] := by simp [hN]
        rw [this]
        by_cases e : id = N
        · rw [if_pos e, e, hN]; rfl
        · rw [if_neg e]; rfl
      | some x =>
        have : [N].filterMap f = [x] := by simp [hN]
        rw [this]
        have hx := hf N x hN
        by_cases e : id = N
        · rw [if_pos e, e, hN]; simp [hx]
        · rw [if_neg e]
          have : ¬ x.id = id := by rw [hx]; exact fun h => e h.symm
          simp [this]
    rw [hlast]
    by_cases h1 : id < N
    · rw [if_pos h1, if_pos (show id < N + 1 by omega), if_neg (show ¬ id = N by omega)]
      cases f id <;> rfl
    · rw [if_neg h1]
      by_cases h2 : id = N
      · rw [if_pos h2, if_pos (show id < N + 1 by omega)]; rfl
      · rw [if_neg h2, if_neg (show ¬ id < N + 1 by omega)]; rfl

theorem map_put_range_filterMap (f : Nat → Option GR) (hf : ∀ i x, f i = some x → x.id = i) (id : Nat) (r' : GR)
    (N : Nat) :
    ((List.range N).filterMap f).map (fun x => if x.id == id then r' else x) =
      (List.range N).filterMap (fun i => if i = id then (f id).map (fun _ => r') else f i) := by
  rw [List.map_filterMap]
  refine List.filterMap_congr (fun i _ => ?_)
  cases hi : f i with
  | none =>
    by_cases e : i = id
    · rw [if_pos e, ← e, hi]; rfl
    · rw [if_neg e]; rfl
  | some x =>
    have hx := hf i x hi
    by_cases e : i = id
    · rw [if_pos e, ← e, hi]; simp [hx, e]
    · rw [if_neg e]
      have : ¬ x.id = id := by rw [hx]; exact e
      simp [this]

theorem filter_ne_range_filterMap (f : Nat → Option GR) (hf : ∀ i x, f i = some x → x.id = i) (id : Nat) (N : Nat) :
    ((List.range N).filterMap f).filter (fun r => r.id ≠ id) =
      (List.range N).filterMap (fun i => if i = id then none else f i) := by
  rw [List.filter_filterMap]
  refine List.filterMap_congr (fun i _ => ?_)
  cases hi : f i with
  | none => by_cases e : i = id <;> simp [e]
  | some x =>
    have hx := hf i x hi
    by_cases e : i = id
    · rw [if_pos e]; simp [hx, e]
    · rw [if_neg e]; simp [hx, e]

/-! ### the ghost of a model state -/

/-- a model rule as the monitor keeps it -/
def toGR (r : Rule) : GR := ⟨r.id, r.ctx, r.name, r.validUntil, r.signers, r.policies⟩

/-- the rule under id `i`, as the monitor keeps it -/
def gAt (s : State) (i : Nat) : Option GR := (getContextRule s i).map toGR

/-- the plain list that describes a model state: its live rules in the order of their ids -/
def ghost (s : State) : List GR := (liveRules s).map toGR

/-- the extra model invariant the `T=` line needs: every per-type id vector is increasing (ids are
handed out in increasing order, appended at the end and removed in place) -/
def IdsSorted (s : State) : Prop := ∀ c, (s.ids c).Pairwise (· < ·)

/-- the monitor's plain list, its highest id and its ledger sequence describe the model state -/
structure Agree (g : Mon) (s : State) : Prop where
  rules : g.rules = ghost s
  maxId : g.maxId + 1 = s.nextId
  now : g.now = s.now

theorem gAt_eq (s : State) (i : Nat) :
    gAt s i = (s.info i).map (fun m => ⟨i, m.ctx, m.name, m.validUntil, s.signers i, s.policies i⟩) := by
  unfold gAt getContextRule toGR
  cases s.info i <;> rfl

theorem gAt_id {s : State} {i : Nat} {x : GR} (h : gAt s i = some x) : x.id = i := by
  rw [gAt_eq] at h
  cases hm : s.info i with
  | none => rw [hm] at h; cases h
  | some m => rw [hm] at h; injection h with h; rw [← h]

theorem gAt_none_of_ge {s : State} (hI : Inv s) {i : Nat} (h : s.nextId ≤ i) : gAt s i = none := by
  rw [gAt_eq]
  cases hm : s.info i with
  | none => rfl
  | some m => exact absurd (hI.r.idLt i (by rw [hm]; rfl)) (by omega)

theorem ghost_eq (s : State) : ghost s = (List.range (s.nextId + 1)).filterMap (gAt s) := by
  unfold ghost liveRules
  rw [List.map_filterMap]
  rfl

theorem mem_ghost {s : State} (hI : Inv s) (x : GR) : x ∈ ghost s ↔ gAt s x.id = some x := by
  rw [ghost_eq, List.mem_filterMap]
  constructor
  · rintro ⟨i, _, hi⟩
    rw [gAt_id hi]; exact hi
  · intro h
    refine ⟨x.id, ?_, h⟩
    rw [List.mem_range]
    cases Nat.lt_or_ge x.id (s.nextId + 1) with
    | inl h' => exact h'
    | inr h' => rw [gAt_none_of_ge hI (by omega)] at h; cases h

theorem mem_ghost' {s : State} (hI : Inv s) (x : GR) : x ∈ ghost s ↔ ∃ i, gAt s i = some x := by
  rw [mem_ghost hI]
  exact ⟨fun h => ⟨_, h⟩, fun ⟨i, h⟩ => by rw [gAt_id h]; exact h⟩

/-- the ids of the plain list are increasing -/
theorem ghost_ids_sorted (s : State) : ((ghost s).map (·.id)).Pairwise (· < ·) := by
  rw [ghost_eq, List.pairwise_map]
  refine List.Pairwise.filterMap (R := (· < ·)) _ ?_ List.pairwise_lt_range
  intro a a' h b hb b' hb'
  rw [gAt_id hb, gAt_id hb']; exact h

theorem ghost_ids_nodup (s : State) : ((ghost s).map (·.id)).Nodup :=
  (ghost_ids_sorted s).imp (fun h => Nat.ne_of_lt h)

/-- looking an id up in the plain list is `get_context_rule` -/
theorem find_ghost {g : Mon} {s : State} (ha : Agree g s) (hI : Inv s) (id : Nat) : find g id = gAt s id := by
  unfold find
  rw [ha.rules, ghost_eq, find_range_filterMap _ (fun i x h => gAt_id h)]
  by_cases h : id < s.nextId + 1
  · rw [if_pos h]
  · rw [if_neg h, gAt_none_of_ge hI (by omega)]

/-- `Count` is the length of the plain list -/
theorem ghost_length {s : State} (hI : Inv s) : (ghost s).length = s.count := by
  obtain ⟨lv, h1, h2, h3⟩ := hI.r.live
  rw [h3, ← List.length_map (f := (·.id))]
  apply length_eq_of_nodup_mem (ghost_ids_nodup s) h1
  intro i
  rw [h2, List.mem_map]
  constructor
  · rintro ⟨x, hx, rfl⟩
    have := (mem_ghost hI x).1 hx
    rw [gAt_eq] at this
    cases hm : s.info x.id with
    | none => rw [hm] at this; cases this
    | some m => rfl
  · intro h
    obtain ⟨m, hm⟩ := Option.isSome_iff_exists.1 h
    refine ⟨⟨i, m.ctx, m.name, m.validUntil, s.signers i, s.policies i⟩, ?_, rfl⟩
    rw [mem_ghost hI, gAt_eq]
    show Option.map _ (s.info i) = _
    rw [hm]; rfl

/-! ### how the ghost moves -/

/-- one live rule replaced, everything else (and `NextId`) kept -/
theorem ghost_put {s s' : State} (id : Nat) (r r' : GR) (hn : s'.nextId = s.nextId) (hr : gAt s id = some r)
    (h' : ∀ i, gAt s' i = if i = id then some r' else gAt s i) :
    ghost s' = (ghost s).map (fun x => if x.id == id then r' else x) := by
  rw [ghost_eq, ghost_eq, hn, map_put_range_filterMap _ (fun i x h => gAt_id h)]
  refine List.filterMap_congr (fun i _ => ?_)
  rw [h' i, hr]; rfl

theorem agree_put {g : Mon} {s s' : State} (ha : Agree g s) (id : Nat) (r r' : GR) (hid : r'.id = id)
    (hn : s'.nextId = s.nextId) (hnow : s'.now = s.now) (hr : gAt s id = some r)
    (h' : ∀ i, gAt s' i = if i = id then some r' else gAt s i) : Agree (put g r') s' := by
  refine ⟨?_, by rw [hn]; exact ha.maxId, by rw [hnow]; exact ha.now⟩
  show g.rules.map _ = _
  rw [ghost_put id r r' hn hr h', ha.rules, hid]

/-- one rule removed -/
theorem ghost_remove {s s' : State} (id : Nat) (hn : s'.nextId = s.nextId)
    (h' : ∀ i, gAt s' i = if i = id then none else gAt s i) :
    ghost s' = (ghost s).filter (fun x => x.id ≠ id) := by
  rw [ghost_eq, ghost_eq, hn, filter_ne_range_filterMap _ (fun i x h => gAt_id h)]
  exact List.filterMap_congr (fun i _ => h' i)

/-- one rule appended under the id `NextId` -/
theorem ghost_add {s s' : State} (hI : Inv s) (r' : GR) (hn : s'.nextId = s.nextId + 1)
    (h' : ∀ i, gAt s' i = if i = s.nextId then some r' else gAt s i) :
    ghost s' = ghost s ++ [r'] := by
  rw [ghost_eq, ghost_eq, hn, List.range_succ, List.range_succ, List.filterMap_append,
    List.filterMap_append, List.filterMap_append]
  have e1 : [s.nextId + 1].filterMap (gAt s') = [] := by
    have : gAt s' (s.nextId + 1) = none := by
      rw [h', if_neg (by omega)]; exact gAt_none_of_ge hI (by omega)
    simp [this]
  have e2 : [s.nextId].filterMap (gAt s') = [r'] := by
    have : gAt s' s.nextId = some r' := by rw [h', if_pos rfl]
    simp [this]
  have e3 : [s.nextId].filterMap (gAt s) = [] := by
    have : gAt s s.nextId = none := gAt_none_of_ge hI (Nat.le_refl _)
    simp [this]
  rw [e1, e2, e3, List.append_nil, List.append_nil]
  congr 1
  refine List.filterMap_congr (fun i hi => ?_)
  rw [List.mem_range] at hi
  rw [h', if_neg (by omega)]

end OZ.RegRules.Mon
