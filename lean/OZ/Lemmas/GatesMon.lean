import OZ.Lemmas.Gates
import OZ.Model.GatesMon
/-
Helper lemmas for the monitor-soundness theorems of C16 (OZ/Props/C16Mon.lean): the op line of a
model operation, plumbing of the monitor's if-chains (each check is silent when its conditions are
refuted), how the model's list functions move the membership map, inversion of the driver's
per-machine dispatch.
-/
namespace OZ.Gates.Mon
open OZ.Host OZ.Fungible OZ.Gates
open OZ.FungibleMon (Kind balList allowList orElse)

/-! ### the op line of a model operation

What `OZ.Drv.C16.parseLine` reads from the harness's rendering of an operation
(`fungible <kind> a=<addrs> .. auth=<signers>`, `fungible advance n=<k>`,
`gate <name> a=<addrs> d=.. auth=<signers>`) — the same words `parseOp` / `parseGate` build the
model's `GOp` from. A list change is rendered `allow` / `disallow` or (wording `w = true`)
`block` / `unblock`; `parseGate` reads both wordings as the same `setList`. -/

def kindOf : Fungible.Op → Kind
  | .mint _ _ => .mint
  | .transfer _ _ _ => .transfer
  | .transferFrom _ _ _ _ => .transferFrom
  | .approve _ _ _ _ => .approve
  | .burn _ _ => .burn
  | .burnFrom _ _ _ => .burnFrom
  | .advance _ => .advance

def advOf : Fungible.Op → Nat
  | .advance n => n
  | _ => 0

def setName (on w : Bool) : GName :=
  match on, w with
  | true, false => .allow
  | true, true => .block
  | false, false => .disallow
  | false, true => .unblock

def lineOf (w : Bool) (auth : List Nat) : GOp → Line
  | .tok o => ⟨.fungible (kindOf o), o.addrs, auth, advOf o⟩
  | .pause c => ⟨.gate .pause, [c], auth, 0⟩
  | .unpause c => ⟨.gate .unpause, [c], auth, 0⟩
  | .increment => ⟨.gate .increment, [], auth, 0⟩
  | .reset => ⟨.gate .reset, [], auth, 0⟩
  | .setList u on none => ⟨.gate (setName on w), [u], auth, 0⟩
  | .setList u on (some o) => ⟨.gate (setName on w), [u, o], auth, 0⟩
  | .enable => ⟨.gate .enable, [], auth, 0⟩
  | .ensure => ⟨.gate .ensure, [], auth, 0⟩
  | .complete => ⟨.gate .complete, [], auth, 0⟩
  | .migrate _ o => ⟨.gate .migrate, [o], auth, 0⟩
  | .upgrade o => ⟨.gate .upgrade, [o], auth, 0⟩
  | .setCap _ => ⟨.gate .setcap, [], auth, 0⟩

theorem isPausable_tok (o : Fungible.Op) : isPausable (.fungible (kindOf o)) = pausableOp o := by
  cases o <;> rfl

theorem vetted_tok (o : Fungible.Op) : vettedOfCall (.fungible (kindOf o)) o.addrs = vetted o := by
  cases o <;> rfl

/-! ### plumbing -/

theorem orElse_none {a : Option String} {b : Unit → Option String} (h : a = none) : orElse a b = b () := by
  subst h; rfl

theorem verdict_none {m : Mon} {l : Line} {o : Obs} (h0 : vRollback m o = none) (h1 : vPause m l o = none)
    (h2 : vList m l o = none) (h2' : vListEv m l o = none) (h3 : vCap m l o = none) (h4 : vMig m l o = none)
    (h5 : vUnpause m l o = none) :
    verdict m l o = none := by
  unfold verdict
  rw [orElse_none h0, orElse_none h1, orElse_none h2, orElse_none h2', orElse_none h3, orElse_none h4, h5]

theorem vRollback_none {m : Mon} {o : Obs} (h : o.ok = false → m.prev = none ∨ m.prev = some o.st) :
    vRollback m o = none := by
  unfold vRollback
  rw [if_neg]
  rintro ⟨h1, h2, h3⟩
  rcases h (by simpa using h1) with hp | hp
  · rw [hp] at h2; cases h2
  · exact h3 hp

theorem vPause_off {m : Mon} {l : Line} {o : Obs} (h : m.kind.hasPause = false) : vPause m l o = none := by
  unfold vPause
  rw [if_pos (by simp [h])]

theorem vList_off {m : Mon} {l : Line} {o : Obs} (h : m.kind.isList = false) : vList m l o = none := by
  unfold vList
  rw [if_pos (by simp [h])]

theorem vListEv_off {m : Mon} {l : Line} {o : Obs} (h : m.kind.isList = false) : vListEv m l o = none := by
  unfold vListEv
  rw [if_pos (by simp [h])]

theorem vListEv_rejected {m : Mon} {l : Line} {o : Obs} (h : o.ok = false) : vListEv m l o = none := by
  unfold vListEv
  by_cases hk : ¬ m.kind.isList
  · rw [if_pos hk]
  · rw [if_neg hk, if_neg (by simp [h]), if_neg (by simp [h])]

theorem vCap_off {m : Mon} {l : Line} {o : Obs} (h : m.kind ≠ .cap) : vCap m l o = none := by
  unfold vCap
  rw [if_pos h]

theorem vMig_off {m : Mon} {l : Line} {o : Obs} (h : m.kind ≠ .mig) : vMig m l o = none := by
  unfold vMig
  rw [if_pos h]

theorem vPause_none {m : Mon} {l : Line} {o : Obs}
    (h1 : ¬ (o.ok ∧ m.paused ∧ isPausable l.call))
    (h2 : ¬ (o.ok ∧ ¬ m.paused ∧ l.call = .gate .reset))
    (h3 : ¬ (o.ok ∧ l.call = .gate .pause ∧ m.paused))
    (h4 : ¬ (o.ok ∧ l.call = .gate .unpause ∧ ¬ m.paused))
    (h5 : ¬ (o.ok ∧ (l.call = .gate .pause ∨ l.call = .gate .unpause)
      ∧ (l.a.head? ≠ some m.owner ∨ ¬ l.auth.contains m.owner)))
    (h6 : o.st.paused = pausedStep m l o.ok) : vPause m l o = none := by
  unfold vPause
  cases hk : m.kind.hasPause
  · rw [if_pos (by simp)]
  · rw [if_neg (by simp), if_neg h1, if_neg h2, if_neg h3, if_neg h4, if_neg h5, if_neg (fun h => h.2 h6), if_neg (fun h => h h6)]

theorem vList_none {m : Mon} {l : Line} {o : Obs}
    (h1 : o.st.list = statusList (ghostStep m l o.ok))
    (h2 : ¬ (o.ok ∧ (vettedOfCall l.call l.a).any (fun p => m.ghost p ≠ m.kind.allowKind)))
    (h3 : ¬ (o.ok ∧ l.call.isGate ∧ m.kind.isEx ∧ (l.a.getD 1 99 ≠ m.mgr ∨ ¬ l.auth.contains m.mgr))) :
    vList m l o = none := by
  unfold vList
  cases hk : m.kind.isList
  · rw [if_pos (by simp)]
  · rw [if_neg (by simp), if_neg (fun h => h.2 h1), if_neg (fun h => h h1), if_neg h2, if_neg h3]

theorem vCap_none {m : Mon} {l : Line} {o : Obs} (h0 : ¬ (o.ok ∧ l.call = .gate .setcap)) (h1 : o.st.cap = some m.cap)
    (h2 : ¬ (m.sup < o.st.sup ∧ o.st.sup > m.cap)) : vCap m l o = none := by
  unfold vCap
  by_cases hk : m.kind ≠ .cap
  · rw [if_pos hk]
  · rw [if_neg hk, if_neg (fun h => h0 ⟨h.1, h.2.1⟩), if_neg h0, if_neg (fun h => h.2 h1), if_neg (fun h => h h1), if_neg h2]

/-- an accepted `set_cap` that leaves a non-negative cap -/
theorem vCap_setcap {m : Mon} {l : Line} {o : Obs} (hok : o.ok = true) (hl : l.call = .gate .setcap) (c : Int)
    (hc : o.st.cap = some c) (h0 : 0 ≤ c) : vCap m l o = none := by
  unfold vCap
  by_cases hk : m.kind ≠ .cap
  · rw [if_pos hk]
  · rw [if_neg hk, if_neg (by rw [hc]; simp; omega), if_pos ⟨hok, hl⟩]

theorem vMig_none {m : Mon} {l : Line} {o : Obs}
    (h1 : ¬ (o.ok ∧ (l.call = .gate .migrate ∨ l.call = .gate .ensure) ∧ ¬ m.credit))
    (h2 : o.st.migrating = creditStep m l o.ok)
    (h3 : ¬ (o.ok ∧ (l.call = .gate .migrate ∨ l.call = .gate .upgrade)
      ∧ (l.a.head? ≠ some m.owner ∨ ¬ l.auth.contains m.owner))) : vMig m l o = none := by
  unfold vMig
  by_cases hk : m.kind ≠ .mig
  · rw [if_pos hk]
  · rw [if_neg hk, if_neg h1, if_neg (fun h => h.2 h2), if_neg (fun h => h h2), if_neg h3]

/-! ### ghost updates -/

theorem ghostStep_false (m : Mon) (l : Line) : ghostStep m l false = m.ghost := by
  unfold ghostStep
  rw [if_neg (by simp)]

theorem creditStep_false (m : Mon) (l : Line) : creditStep m l false = m.credit := by
  unfold creditStep
  rw [if_neg (by simp)]

theorem pausedStep_false (m : Mon) (l : Line) : pausedStep m l false = m.paused := by
  unfold pausedStep
  rw [if_neg (by simp)]

theorem ghostStep_true {m : Mon} (l : Line) (h : m.kind.isList = true) : ghostStep m l true = listStep m.ghost l := by
  unfold ghostStep
  rw [if_pos (by simp [h])]

theorem creditStep_true (m : Mon) (l : Line) : creditStep m l true = creditF m.credit l := by
  unfold creditStep
  rw [if_pos rfl]

theorem pausedStep_true {m : Mon} (l : Line) (h : m.kind.hasPause = true) : pausedStep m l true = pausedF m.paused l := by
  unfold pausedStep
  rw [if_pos (by simp [h])]

theorem listStep_fungible (g : Nat → Bool) (k : Kind) (a auth : List Nat) (n : Nat) :
    listStep g ⟨.fungible k, a, auth, n⟩ = g := by
  unfold listStep
  split <;> first | rfl | (rename_i h _; cases h)

theorem listStep_set (g : Nat → Bool) (on w : Bool) (u : Nat) (rest auth : List Nat) (n : Nat) :
    listStep g ⟨.gate (setName on w), u :: rest, auth, n⟩ = upd g u on := by
  cases on <;> cases w <;> rfl

theorem pausedF_other (p : Bool) (l : Line) (h1 : l.call ≠ .gate .pause) (h2 : l.call ≠ .gate .unpause) :
    pausedF p l = p := by
  unfold pausedF
  rw [if_neg h1, if_neg h2]

theorem creditF_other (c : Bool) (l : Line) (h1 : l.call ≠ .gate .enable) (h2 : l.call ≠ .gate .upgrade)
    (h3 : l.call ≠ .gate .migrate) (h4 : l.call ≠ .gate .complete) : creditF c l = c := by
  unfold creditF
  rw [if_neg (fun h => h.elim h1 h2), if_neg (fun h => h.elim h3 h4)]

/-! ### what an accepted / rejected call must satisfy for each group of checks to stay silent -/

/-- an accepted call of a pausable contract, in the monitor's terms -/
structure PauseFacts (paused : Bool) (owner : Nat) (l : Line) (paused' : Bool) : Prop where
  bypass : paused = true → isPausable l.call = false
  reset : l.call = .gate .reset → paused = true
  pause : l.call = .gate .pause → paused = false ∧ l.a.head? = some owner ∧ owner ∈ l.auth
  unpause : l.call = .gate .unpause → paused = true ∧ l.a.head? = some owner ∧ owner ∈ l.auth
  step : paused' = pausedF paused l

theorem pause_accepted {m : Mon} {l : Line} {o : Obs} {paused' : Bool} (hk : m.kind.hasPause = true)
    (hok : o.ok = true) (hobs : o.st.paused = paused') (F : PauseFacts m.paused m.owner l paused') :
    vPause m l o = none ∧ pausedStep m l o.ok = paused' := by
  have hs : pausedStep m l o.ok = paused' := by rw [hok, pausedStep_true l hk, F.step]
  refine ⟨vPause_none ?_ ?_ ?_ ?_ ?_ (by rw [hs, hobs]), hs⟩
  · rintro ⟨-, hp, hq⟩
    rw [F.bypass hp] at hq; cases hq
  · rintro ⟨-, hp, hq⟩
    exact hp (F.reset hq)
  · rintro ⟨-, hq, hp⟩
    rw [(F.pause hq).1] at hp; cases hp
  · rintro ⟨-, hq, hp⟩
    exact hp (F.unpause hq).1
  · rintro ⟨-, hq, hp⟩
    have : l.a.head? = some m.owner ∧ m.owner ∈ l.auth := by
      rcases hq with hq | hq
      · exact (F.pause hq).2
      · exact (F.unpause hq).2
    rcases hp with hp | hp
    · exact hp this.1
    · exact hp (by simpa using this.2)

theorem pause_rejected {m : Mon} {l : Line} {o : Obs} (hok : o.ok = false) (hobs : o.st.paused = m.paused) :
    vPause m l o = none ∧ pausedStep m l o.ok = m.paused := by
  have hs : pausedStep m l o.ok = m.paused := by rw [hok, pausedStep_false]
  refine ⟨vPause_none ?_ ?_ ?_ ?_ ?_ (by rw [hs, hobs]), hs⟩ <;> (rw [hok]; simp)

/-- an accepted call of a list-gated token, in the monitor's terms (`ak`: allow list) -/
structure ListFacts (ak ex : Bool) (mgr : Nat) (listed : Nat → Bool) (l : Line) (listed' : Nat → Bool) : Prop where
  vetted : ∀ p ∈ vettedOfCall l.call l.a, listed p = ak
  role : ex = true → l.call.isGate = true → l.a.getD 1 99 = mgr ∧ mgr ∈ l.auth
  step : listed' = listStep listed l

theorem list_accepted {m : Mon} {l : Line} {o : Obs} {listed' : Nat → Bool} (hk : m.kind.isList = true)
    (hok : o.ok = true) (hobs : o.st.list = statusList listed')
    (F : ListFacts m.kind.allowKind m.kind.isEx m.mgr m.ghost l listed') :
    vList m l o = none ∧ ghostStep m l o.ok = listed' := by
  have hs : ghostStep m l o.ok = listed' := by rw [hok, ghostStep_true l hk, F.step]
  refine ⟨vList_none (by rw [hs, hobs]) ?_ ?_, hs⟩
  · rintro ⟨-, h⟩
    rw [List.any_eq_true] at h
    obtain ⟨p, hp, hne⟩ := h
    rw [F.vetted p hp] at hne
    simp at hne
  · rintro ⟨-, hg, he, h⟩
    obtain ⟨h1, h2⟩ := F.role he hg
    rcases h with h | h
    · exact h h1
    · exact h (by simpa using h2)

theorem list_rejected {m : Mon} {l : Line} {o : Obs} (hok : o.ok = false) (hobs : o.st.list = statusList m.ghost) :
    vList m l o = none ∧ ghostStep m l o.ok = m.ghost := by
  have hs : ghostStep m l o.ok = m.ghost := by rw [hok, ghostStep_false]
  refine ⟨vList_none (by rw [hs, hobs]) ?_ ?_, hs⟩ <;> (rw [hok]; simp)

/-- an accepted call of the migration contracts, in the monitor's terms -/
structure MigFacts (credit : Bool) (owner : Nat) (l : Line) (credit' : Bool) : Prop where
  need : l.call = .gate .migrate ∨ l.call = .gate .ensure → credit = true
  owner : l.call = .gate .migrate ∨ l.call = .gate .upgrade → l.a.head? = some owner ∧ owner ∈ l.auth
  step : credit' = creditF credit l

theorem mig_accepted {m : Mon} {l : Line} {o : Obs} {credit' : Bool} (hok : o.ok = true)
    (hobs : o.st.migrating = credit') (F : MigFacts m.credit m.owner l credit') :
    vMig m l o = none ∧ creditStep m l o.ok = credit' := by
  have hs : creditStep m l o.ok = credit' := by rw [hok, creditStep_true, F.step]
  refine ⟨vMig_none ?_ (by rw [hs, hobs]) ?_, hs⟩
  · rintro ⟨-, hq, hc⟩
    exact hc (F.need hq)
  · rintro ⟨-, hq, h⟩
    obtain ⟨h1, h2⟩ := F.owner hq
    rcases h with h | h
    · exact h h1
    · exact h (by simpa using h2)

theorem mig_rejected {m : Mon} {l : Line} {o : Obs} (hok : o.ok = false) (hobs : o.st.migrating = m.credit) :
    vMig m l o = none ∧ creditStep m l o.ok = m.credit := by
  have hs : creditStep m l o.ok = m.credit := by rw [hok, creditStep_false]
  refine ⟨vMig_none ?_ (by rw [hs, hobs]) ?_, hs⟩ <;> (rw [hok]; simp)

/-! ### the driver's dispatch -/

theorem okSt_some {α : Type} {f : α → St} {r : Except Err α} {st' : St} (h : okSt f r = some st') :
    ∃ a, r = .ok a ∧ st' = f a := by
  cases r with
  | error e => cases h
  | ok a => injection h with h; exact ⟨a, rfl, h.symm⟩

theorem stepM_some {cfg : Cfg} {x : MSt} {auth : List Nat} {op : GOp} {st' : St}
    (h : applyModel cfg x.st auth op = some st') : stepM cfg x auth op = (⟨st', nowStep x.now op⟩, true) := by
  unfold stepM; rw [h]

theorem stepM_none {cfg : Cfg} {x : MSt} {auth : List Nat} {op : GOp}
    (h : applyModel cfg x.st auth op = none) : stepM cfg x auth op = (x, false) := by
  unfold stepM; rw [h]

/-! ### how the list functions move the membership map -/

theorem upd_same (f : Nat → Bool) (u : Nat) : upd f u (f u) = f := by
  funext x
  unfold upd
  split
  · rename_i h; rw [h]
  · rfl

theorem allowUser_listed (s : LTok) (u : Nat) :
    (AllowList.allowUser s u).listed = upd s.listed u true ∧ (AllowList.allowUser s u).tok = s.tok := by
  unfold AllowList.allowUser
  cases h : s.listed u
  · exact ⟨rfl, rfl⟩
  · exact ⟨by simp only [Bool.not_true, Bool.false_eq_true, if_false]; rw [← h, upd_same], rfl⟩

theorem disallowUser_listed (s : LTok) (u : Nat) :
    (AllowList.disallowUser s u).listed = upd s.listed u false ∧ (AllowList.disallowUser s u).tok = s.tok := by
  unfold AllowList.disallowUser
  cases h : s.listed u
  · exact ⟨by simp only [Bool.false_eq_true, if_false]; rw [← h, upd_same], rfl⟩
  · exact ⟨rfl, rfl⟩

theorem blockUser_listed (s : LTok) (u : Nat) :
    (BlockList.blockUser s u).listed = upd s.listed u true ∧ (BlockList.blockUser s u).tok = s.tok := by
  unfold BlockList.blockUser
  cases h : s.listed u
  · exact ⟨rfl, rfl⟩
  · exact ⟨by simp only [Bool.not_true, Bool.false_eq_true, if_false]; rw [← h, upd_same], rfl⟩

theorem unblockUser_listed (s : LTok) (u : Nat) :
    (BlockList.unblockUser s u).listed = upd s.listed u false ∧ (BlockList.unblockUser s u).tok = s.tok := by
  unfold BlockList.unblockUser
  cases h : s.listed u
  · exact ⟨by simp only [Bool.false_eq_true, if_false]; rw [← h, upd_same], rfl⟩
  · exact ⟨rfl, rfl⟩

/-- a fungible entry point of the `AllowList` library type never touches the list -/
theorem alib_tok_listed {c : Cfg} {s s' : LTok} {auth : List Nat} {o : Fungible.Op}
    (h : ALib.apply c s auth (.tok o) = .ok s') : s'.listed = s.listed := by
  cases o <;> simp only [ALib.apply, AllowList.transfer, AllowList.transferFrom, AllowList.approve,
    AllowList.burn, AllowList.burnFrom] at h
  case advance => injection h with h; subst h; rfl
  case mint => obtain ⟨t, -, e⟩ := withTok_ok h; subst e; rfl
  all_goals
    split at h
    · cases h
    · obtain ⟨t, -, e⟩ := withTok_ok h; subst e; rfl

theorem blib_tok_listed {c : Cfg} {s s' : LTok} {auth : List Nat} {o : Fungible.Op}
    (h : BLib.apply c s auth (.tok o) = .ok s') : s'.listed = s.listed := by
  cases o <;> simp only [BLib.apply, BlockList.transfer, BlockList.transferFrom, BlockList.approve,
    BlockList.burn, BlockList.burnFrom] at h
  case advance => injection h with h; subst h; rfl
  case mint => obtain ⟨t, -, e⟩ := withTok_ok h; subst e; rfl
  all_goals
    split at h
    · cases h
    · obtain ⟨t, -, e⟩ := withTok_ok h; subst e; rfl

theorem alib_set_listed {c : Cfg} {s s' : LTok} {auth : List Nat} {u : Nat} {on : Bool} {x : Nat}
    (h : ALib.apply c s auth (.setList u on x) = .ok s') : s'.listed = upd s.listed u on := by
  cases on <;> simp only [ALib.apply] at h <;> injection h with h <;> subst h
  · exact (disallowUser_listed s u).1
  · exact (allowUser_listed s u).1

theorem blib_set_listed {c : Cfg} {s s' : LTok} {auth : List Nat} {u : Nat} {on : Bool} {x : Nat}
    (h : BLib.apply c s auth (.setList u on x) = .ok s') : s'.listed = upd s.listed u on := by
  cases on <;> simp only [BLib.apply] at h <;> injection h with h <;> subst h
  · exact (unblockUser_listed s u).1
  · exact (blockUser_listed s u).1

/-- the example contracts: a fungible entry point touches neither the list nor the manager set -/
theorem aex_tok_listed {c : Cfg} {s s' : LEx} {auth : List Nat} {o : Fungible.Op}
    (h : AEx.apply c s auth (.tok o) = .ok s') : s'.t.listed = s.t.listed ∧ s'.isMgr = s.isMgr := by
  cases o <;> simp only [AEx.apply] at h
  case mint => cases h
  case advance => injection h with h; subst h; exact ⟨rfl, rfl⟩
  all_goals
    obtain ⟨t, ht, e⟩ := withT_ok h
    subst e
    refine ⟨?_, rfl⟩
  · exact alib_tok_listed (c := c) (o := .transfer _ _ _) ht
  · exact alib_tok_listed (c := c) (o := .transferFrom _ _ _ _) ht
  · exact alib_tok_listed (c := c) (o := .approve _ _ _ _) ht
  · exact alib_tok_listed (c := c) (o := .burn _ _) ht
  · exact alib_tok_listed (c := c) (o := .burnFrom _ _ _) ht

theorem bex_tok_listed {c : Cfg} {s s' : LEx} {auth : List Nat} {o : Fungible.Op}
    (h : BEx.apply c s auth (.tok o) = .ok s') : s'.t.listed = s.t.listed ∧ s'.isMgr = s.isMgr := by
  cases o <;> simp only [BEx.apply] at h
  case mint => cases h
  case burn => cases h
  case burnFrom => cases h
  case advance => injection h with h; subst h; exact ⟨rfl, rfl⟩
  all_goals
    obtain ⟨t, ht, e⟩ := withT_ok h
    subst e
    refine ⟨?_, rfl⟩
  · exact blib_tok_listed (c := c) (o := .transfer _ _ _) ht
  · exact blib_tok_listed (c := c) (o := .transferFrom _ _ _ _) ht
  · exact blib_tok_listed (c := c) (o := .approve _ _ _ _) ht

theorem aex_set_listed {c : Cfg} {s s' : LEx} {auth : List Nat} {u operator : Nat} {on : Bool}
    (h : AEx.apply c s auth (.setList u on operator) = .ok s') :
    s'.t.listed = upd s.t.listed u on ∧ s'.isMgr = s.isMgr := by
  cases on <;> simp only [AEx.apply] at h <;> obtain ⟨_, _, h⟩ := bind_eq_ok h <;> injection h with h <;> subst h
  · exact ⟨(disallowUser_listed s.t u).1, rfl⟩
  · exact ⟨(allowUser_listed s.t u).1, rfl⟩

theorem bex_set_listed {c : Cfg} {s s' : LEx} {auth : List Nat} {u operator : Nat} {on : Bool}
    (h : BEx.apply c s auth (.setList u on operator) = .ok s') :
    s'.t.listed = upd s.t.listed u on ∧ s'.isMgr = s.isMgr := by
  cases on <;> simp only [BEx.apply] at h <;> obtain ⟨_, _, h⟩ := bind_eq_ok h <;> injection h with h <;> subst h
  · exact ⟨(unblockUser_listed s.t u).1, rfl⟩
  · exact ⟨(blockUser_listed s.t u).1, rfl⟩

/-! ### list changes are idempotent, events included -/

/-- the library function behind a list change (`ak`: allow list; `on`: allow / block) -/
def setFn (ak on : Bool) : LTok → Nat → LTok :=
  match ak, on with
  | true, true => AllowList.allowUser
  | true, false => AllowList.disallowUser
  | false, true => BlockList.blockUser
  | false, false => BlockList.unblockUser

/-- a list change that asks for the status the account has returns the state itself; otherwise it appends
exactly the matching event -/
theorem setFn_facts (ak on : Bool) (s : LTok) (u : Nat) :
    (s.listed u = on → setFn ak on s u = s) ∧
    (setFn ak on s u).log = (if s.listed u = on then s.log else s.log ++ [evOf ak on u]) := by
  cases ak <;> cases on <;> cases h : s.listed u <;>
    simp [setFn, evOf, AllowList.allowUser, AllowList.disallowUser, BlockList.blockUser, BlockList.unblockUser, h]

theorem isListEv_evOf (ak on : Bool) (u : Nat) : isListEv (evOf ak on u) = true := by
  cases ak <;> cases on <;> rfl

theorem setOf_setName (on w : Bool) : setOf (.gate (setName on w)) = some on := by
  cases on <;> cases w <;> rfl

theorem expected_noop {ak : Bool} {g : Nat → Bool} {l : Line} (h : noopF g l = true) : expectedEvF ak g l = [] := by
  unfold noopF at h
  unfold expectedEvF
  split
  · rename_i on u h1 h2
    rw [h1, h2] at h
    rw [if_pos (by simpa using h)]
  · rfl

/-- an accepted call of a list-gated token, in the terms of the event check: `lev` the list events it
emitted, `unchanged`: the call left the whole state as it was -/
structure ListEvFacts (ak : Bool) (listed : Nat → Bool) (l : Line) (lev : List GEvent) (unchanged : Prop) : Prop where
  events : lev = expectedEvF ak listed l
  noop : noopF listed l = true → unchanged

theorem listEv_accepted {m : Mon} {l : Line} {o : Obs} {unchanged : Prop}
    (F : ListEvFacts m.kind.allowKind m.ghost l o.lev unchanged)
    (hu : unchanged → m.prev = none ∨ m.prev = some o.st) : vListEv m l o = none := by
  unfold vListEv
  by_cases hk : ¬ m.kind.isList
  · rw [if_pos hk]
  · rw [if_neg hk, if_neg, if_neg]
    · rintro ⟨-, h⟩
      exact h F.events
    · rintro ⟨-, hn, h⟩
      rcases h with h | ⟨h1, h2⟩
      · exact h (by rw [F.events]; exact expected_noop hn)
      · rcases hu (F.noop hn) with hp | hp
        · rw [hp] at h1; cases h1
        · exact h2 hp

/-- a fungible entry point emits no list event (the module's log is untouched) -/
theorem listEv_tok (ak : Bool) (g : Nat → Bool) (k : Kind) (a auth : List Nat) (n : Nat) (log : List GEvent)
    (unchanged : Prop) :
    ListEvFacts ak g ⟨.fungible k, a, auth, n⟩ ((log.drop log.length).filter isListEv) unchanged := by
  refine ⟨?_, ?_⟩
  · rw [List.drop_length]; rfl
  · intro h; simp [noopF, setOf] at h

/-- a list change emits the matching event exactly when the status flips -/
theorem listEv_set (ak on w : Bool) (g : Nat → Bool) (u : Nat) (rest auth : List Nat) (n : Nat)
    (log log' : List GEvent) (unchanged : Prop)
    (hlog : log' = if g u = on then log else log ++ [evOf ak on u]) (hun : g u = on → unchanged) :
    ListEvFacts ak g ⟨.gate (setName on w), u :: rest, auth, n⟩ ((log'.drop log.length).filter isListEv) unchanged := by
  refine ⟨?_, ?_⟩
  · simp only [expectedEvF, setOf_setName, List.head?_cons]
    rw [hlog]
    by_cases h : g u = on
    · rw [if_pos h, if_pos h, List.drop_length]; rfl
    · rw [if_neg h, if_neg h, List.drop_left]
      simp [isListEv_evOf]
  · intro h
    simp only [noopF, setOf_setName, List.head?_cons] at h
    exact hun (by simpa using h)

theorem alib_tok_log {c : Cfg} {s s' : LTok} {auth : List Nat} {o : Fungible.Op}
    (h : ALib.apply c s auth (.tok o) = .ok s') : s'.log = s.log := by
  cases o <;> simp only [ALib.apply, AllowList.transfer, AllowList.transferFrom, AllowList.approve,
    AllowList.burn, AllowList.burnFrom] at h
  case advance => injection h with h; subst h; rfl
  case mint => obtain ⟨t, -, e⟩ := withTok_ok h; subst e; rfl
  all_goals
    split at h
    · cases h
    · obtain ⟨t, -, e⟩ := withTok_ok h; subst e; rfl

theorem blib_tok_log {c : Cfg} {s s' : LTok} {auth : List Nat} {o : Fungible.Op}
    (h : BLib.apply c s auth (.tok o) = .ok s') : s'.log = s.log := by
  cases o <;> simp only [BLib.apply, BlockList.transfer, BlockList.transferFrom, BlockList.approve,
    BlockList.burn, BlockList.burnFrom] at h
  case advance => injection h with h; subst h; rfl
  case mint => obtain ⟨t, -, e⟩ := withTok_ok h; subst e; rfl
  all_goals
    split at h
    · cases h
    · obtain ⟨t, -, e⟩ := withTok_ok h; subst e; rfl

theorem aex_tok_log {c : Cfg} {s s' : LEx} {auth : List Nat} {o : Fungible.Op}
    (h : AEx.apply c s auth (.tok o) = .ok s') : s'.t.log = s.t.log := by
  cases o <;> simp only [AEx.apply] at h
  case mint => cases h
  case advance => injection h with h; subst h; rfl
  all_goals
    obtain ⟨t, ht, e⟩ := withT_ok h
    subst e
  · exact alib_tok_log (c := c) (o := .transfer _ _ _) ht
  · exact alib_tok_log (c := c) (o := .transferFrom _ _ _ _) ht
  · exact alib_tok_log (c := c) (o := .approve _ _ _ _) ht
  · exact alib_tok_log (c := c) (o := .burn _ _) ht
  · exact alib_tok_log (c := c) (o := .burnFrom _ _ _) ht

theorem bex_tok_log {c : Cfg} {s s' : LEx} {auth : List Nat} {o : Fungible.Op}
    (h : BEx.apply c s auth (.tok o) = .ok s') : s'.t.log = s.t.log := by
  cases o <;> simp only [BEx.apply] at h
  case mint => cases h
  case burn => cases h
  case burnFrom => cases h
  case advance => injection h with h; subst h; rfl
  all_goals
    obtain ⟨t, ht, e⟩ := withT_ok h
    subst e
  · exact blib_tok_log (c := c) (o := .transfer _ _ _) ht
  · exact blib_tok_log (c := c) (o := .transferFrom _ _ _ _) ht
  · exact blib_tok_log (c := c) (o := .approve _ _ _ _) ht

/-- the list functions behind the entry points of the four list machines -/
theorem alib_set_eq {c : Cfg} {s s' : LTok} {auth : List Nat} {u : Nat} {on : Bool} {x : Nat}
    (h : ALib.apply c s auth (.setList u on x) = .ok s') : s' = setFn true on s u := by
  cases on <;> simp only [ALib.apply] at h <;> injection h with h <;> exact h.symm

theorem blib_set_eq {c : Cfg} {s s' : LTok} {auth : List Nat} {u : Nat} {on : Bool} {x : Nat}
    (h : BLib.apply c s auth (.setList u on x) = .ok s') : s' = setFn false on s u := by
  cases on <;> simp only [BLib.apply] at h <;> injection h with h <;> exact h.symm

theorem aex_set_eq {c : Cfg} {s s' : LEx} {auth : List Nat} {u operator : Nat} {on : Bool}
    (h : AEx.apply c s auth (.setList u on operator) = .ok s') : s' = { s with t := setFn true on s.t u } := by
  cases on <;> simp only [AEx.apply] at h <;> obtain ⟨_, _, h⟩ := bind_eq_ok h <;> injection h with h <;>
    exact h.symm

theorem bex_set_eq {c : Cfg} {s s' : LEx} {auth : List Nat} {u operator : Nat} {on : Bool}
    (h : BEx.apply c s auth (.setList u on operator) = .ok s') : s' = { s with t := setFn false on s.t u } := by
  cases on <;> simp only [BEx.apply] at h <;> obtain ⟨_, _, h⟩ := bind_eq_ok h <;> injection h with h <;>
    exact h.symm

end OZ.Gates.Mon
