import OZ.Gen.Base64
import OZ.Model.Base64Url
/-
Helper lemmas for OZ/Props/C18Gen.lean: the base64url encoder GENERATED from the Rust source
(lean/OZ/Gen/Base64.lean: a fuel-bounded loop over mutable `di`, `dst`, `si` with indexed reads and
writes) computes what the hand-written functional model `OZ.B64.encodeInto` computes.
-/
namespace OZ.Gen.B64
open OZ.Rs

/-- bytes as the numbers the generated code works on -/
def nat (bs : OZ.B64.Bytes) : List Nat := bs.map UInt8.toNat

@[simp] theorem nat_length (bs : OZ.B64.Bytes) : (nat bs).length = bs.length := by simp [nat]
theorem nat_append (a b : OZ.B64.Bytes) : nat (a ++ b) = nat a ++ nat b := by simp [nat]
theorem nat_drop (a : OZ.B64.Bytes) (k : Nat) : nat (a.drop k) = (nat a).drop k := by simp [nat, List.map_drop]

/-- a run of consecutive writes `dst[di] = w0; dst[di+1] = w1; …` -/
def writeAll (d : List Nat) (di : Nat) : List Nat → Comp (List Nat)
  | [] => .ok d
  | w :: ws => Comp.bind (setIdx d di w) fun d' => writeAll d' (di + 1) ws

theorem writeAll_append (d : List Nat) (di : Nat) (a b : List Nat) :
    writeAll d di (a ++ b) = Comp.bind (writeAll d di a) fun d' => writeAll d' (di + a.length) b := by
  induction a generalizing d di with
  | nil => simp [writeAll]
  | cons w ws ih =>
    simp only [List.cons_append, writeAll, List.length_cons]
    unfold setIdx
    split
    · simp only [Comp.bind_ok]; rw [ih]; congr 1; funext d'; congr 1; omega
    · rfl

/-- what a successful run of writes leaves in the buffer -/
theorem writeAll_spec (d : List Nat) (di : Nat) (ws : List Nat) (h : di ≤ d.length) :
    writeAll d di ws =
      if di + ws.length ≤ d.length then .ok (d.take di ++ ws ++ d.drop (di + ws.length)) else .panic := by
  induction ws generalizing d di with
  | nil => simp [writeAll, h]
  | cons w ws ih =>
    simp only [writeAll, List.length_cons]
    unfold setIdx
    by_cases hlt : di < d.length
    · rw [if_pos hlt]; simp only [Comp.bind_ok]
      rw [ih (d.set di w) (di + 1) (by simp; omega)]
      simp only [List.length_set]
      by_cases hfit : di + 1 + ws.length ≤ d.length
      · rw [if_pos hfit, if_pos (by omega)]
        congr 1
        rw [List.set_eq_take_append_cons_drop, if_pos hlt]
        have hl : (d.take di).length = di := by simp [List.length_take]; omega
        have e1 : (d.take di ++ w :: d.drop (di + 1)).take (di + 1) = d.take di ++ [w] := by
          rw [List.take_append, List.take_of_length_le (by omega), hl]
          have : di + 1 - di = 1 := by omega
          rw [this]; rfl
        have e2 : (d.take di ++ w :: d.drop (di + 1)).drop (di + 1 + ws.length) = d.drop (di + (ws.length + 1)) := by
          rw [List.drop_append, List.drop_of_length_le (by omega), hl]
          have : di + 1 + ws.length - di = ws.length + 1 := by omega
          rw [this, List.drop_succ_cons, List.drop_drop, List.nil_append]
          congr 1; omega
        rw [e1, e2]; simp
      · rw [if_neg hfit, if_neg (by omega)]
    · rw [if_neg hlt, if_neg (by omega)]; rfl

/-! ### the alphabet -/

theorem alphabet_eq : OZ.Gen.B64.ALPHABET = OZ.B64.ALPHABET := by decide

theorem alphabet_small : ∀ i : Fin 64, OZ.B64.ALPHABET.getD i.val 0 < 256 := by decide

theorem alphabet_get : ∀ i : Fin 64, OZ.B64.ALPHABET[i.val]? = some (OZ.B64.ALPHABET.getD i.val 0) := by decide

/-- `ALPHABET[x & 0x3F]` as the generated code reads it = the model's `alpha` -/
theorem idx_alpha (x : Nat) :
    idx OZ.Gen.B64.ALPHABET (x &&& 63) = .ok (OZ.B64.alpha (x &&& 63)).toNat := by
  have hlt : x &&& 63 < 64 := Nat.lt_succ_of_le Nat.and_le_right
  unfold idx
  rw [alphabet_eq, alphabet_get ⟨x &&& 63, hlt⟩]
  simp only [OZ.B64.alpha]
  have h256 : OZ.B64.ALPHABET.getD (x &&& 63) 0 < 256 := alphabet_small ⟨x &&& 63, hlt⟩
  congr 1
  simp only [UInt8.toNat_ofNat']
  exact (Nat.mod_eq_of_lt h256).symm

theorem idx_pick (val sh : Nat) :
    idx OZ.Gen.B64.ALPHABET ((val >>> sh) &&& 63) = .ok (OZ.B64.pick val sh).toNat := by
  unfold OZ.B64.pick; exact idx_alpha _

/-- a read inside the source slice -/
theorem idx_rd (src : OZ.B64.Bytes) (i : Nat) (h : i < src.length) :
    idx (nat src) i = .ok (OZ.B64.rd src i) := by
  unfold idx nat OZ.B64.rd
  simp [List.getElem?_map, List.getElem?_eq_getElem h, List.getD_eq_getElem?_getD]

end OZ.Gen.B64
