import OZ.Model.RegMonUtil
import OZ.Lemmas.RegList
import Mathlib.Data.List.Nodup
import Mathlib.Data.List.Perm.Basic
import Std.Data.String.ToNat
/-
Facts about the shared vocabulary of the C20 monitor cores (OZ/Model/RegMonUtil.lean): the
executable plain-set tests mean what they say, `firstFail` / `chk` / `decide2` calculus, and the
order-independent digests.
-/
namespace OZ.RegMon
open OZ.Reg

variable {α : Type}

theorem firstFail_nil : firstFail [] = none := rfl

theorem firstFail_none_cons (l : List (Option String)) : firstFail (none :: l) = firstFail l := rfl

theorem chk_true (msg : String) : chk true msg = none := rfl

theorem chk_of {c : Bool} (h : c = true) (msg : String) : chk c msg = none := by subst h; rfl

theorem chk_decide {p : Prop} [Decidable p] (h : p) (msg : String) : chk (decide p) msg = none := by
  rw [decide_eq_true h]; rfl

theorem decide2_ok {γ : Type} (reg : String) (g g' : γ) (near : String) :
    decide2 reg g (.ok g') true near = (g', none) := rfl

theorem decide2_err {γ : Type} (reg : String) (g : γ) (why near : String) :
    decide2 reg g (.error why) false near = (g, none) := rfl

section
variable [BEq α] [LawfulBEq α]

theorem nodupB_iff (l : List α) : nodupB l = true ↔ l.Nodup := by
  induction l with
  | nil => simp [nodupB]
  | cons x xs ih => simp [nodupB, ih]

theorem sameSet_iff (a b : List α) : sameSet a b = true ↔ ∀ x, x ∈ a ↔ x ∈ b := by
  simp only [sameSet, Bool.and_eq_true, List.all_eq_true, List.contains_iff_mem]
  constructor
  · rintro ⟨h1, h2⟩ x; exact ⟨h1 x, h2 x⟩
  · intro h; exact ⟨fun x hx => (h x).1 hx, fun x hx => (h x).2 hx⟩

theorem sameSet_of_perm {a b : List α} (h : a.Perm b) : sameSet a b = true :=
  (sameSet_iff a b).2 (fun _ => h.mem_iff)

end

/-- two duplicate-free lists with the same members have the same length -/
theorem length_eq_of_nodup_mem {a b : List α} (ha : a.Nodup) (hb : b.Nodup) (h : ∀ x, x ∈ a ↔ x ∈ b) :
    a.length = b.length :=
  ((List.perm_ext_iff_of_nodup ha hb).2 h).length_eq

theorem perm_of_nodup_mem {a b : List α} (ha : a.Nodup) (hb : b.Nodup) (h : ∀ x, x ∈ a ↔ x ∈ b) :
    a.Perm b := (List.perm_ext_iff_of_nodup ha hb).2 h

/-! the order-independent digests -/

theorem sum1_eq (l : List Nat) : sum1 l = (l.map (· + 1)).sum := by
  unfold sum1
  suffices ∀ a, l.foldl (fun h x => h + (x + 1)) a = a + (l.map (· + 1)).sum by simpa using this 0
  induction l with
  | nil => intro a; simp
  | cons x xs ih => intro a; simp [ih]; omega

theorem sumSq_eq (l : List Nat) : sumSq l = (l.map (fun x => (x + 1) * (x + 1))).sum := by
  unfold sumSq
  suffices ∀ a, l.foldl (fun h x => h + (x + 1) * (x + 1)) a = a + (l.map (fun x => (x + 1) * (x + 1))).sum by
    simpa using this 0
  induction l with
  | nil => intro a; simp
  | cons x xs ih => intro a; simp [ih]; omega

theorem sum1_perm {a b : List Nat} (h : a.Perm b) : sum1 a = sum1 b := by
  rw [sum1_eq, sum1_eq]; exact (h.map _).sum_nat

theorem sumSq_perm {a b : List Nat} (h : a.Perm b) : sumSq a = sumSq b := by
  rw [sumSq_eq, sumSq_eq]; exact (h.map _).sum_nat

/-- looking a displayed key up in the printed graph of a getter -/
theorem find_graph {β : Type} (l : List Nat) (f : Nat → β) (h : Nat) (hm : h ∈ l) :
    (l.map (fun k => (k, f k))).find? (fun x => x.1 == h) = some (h, f h) := by
  induction l with
  | nil => cases hm
  | cons k ks ih =>
    by_cases hk : k = h
    · subst hk; simp
    · have hm' : h ∈ ks := by
        rcases List.mem_cons.1 hm with e | e
        · exact absurd e.symm hk
        · exact e
      rw [List.map_cons, List.find?_cons_of_neg (by simpa using hk)]
      exact ih hm'

/-! printed pairs `a.b` are injective (the monitors compare printed ids) -/

theorem split_at_unique {x : α} : ∀ {l1 l1' l2 l2' : List α}, x ∉ l1 → x ∉ l1' →
    l1 ++ x :: l2 = l1' ++ x :: l2' → l1 = l1' ∧ l2 = l2'
  | [], [], _, _, _, _, h => by simpa using h
  | [], b :: l1', _, _, _, h2, h => by
    simp at h; exact absurd h.1 (fun e => h2 (by rw [e]; simp))
  | a :: l1, [], _, _, h1, _, h => by
    simp at h; exact absurd h.1 (fun e => h1 (by rw [← e]; simp))
  | a :: l1, b :: l1', _, _, h1, h2, h => by
    simp only [List.cons_append, List.cons.injEq] at h
    obtain ⟨r1, r2⟩ := split_at_unique (fun m => h1 (List.mem_cons_of_mem _ m)) (fun m => h2 (List.mem_cons_of_mem _ m)) h.2
    exact ⟨by rw [h.1, r1], r2⟩

theorem dot_not_mem_repr (n : Nat) : '.' ∉ n.repr.toList := by
  intro h
  rw [Nat.toList_repr] at h
  have := Nat.isDigit_of_mem_toDigits (by decide) (by decide) h
  simp at this

theorem showPair_inj {a b c d : Nat} (h : s!"{a}.{b}" = s!"{c}.{d}") : a = c ∧ b = d := by
  have h' := congrArg String.toList h
  simp only [String.toList_append, toString] at h'
  have e : ".".toList = ['.'] := rfl
  rw [e, List.append_assoc, List.append_assoc] at h'
  obtain ⟨r1, r2⟩ := split_at_unique (dot_not_mem_repr a) (dot_not_mem_repr c) h'
  exact ⟨Nat.repr_injective (String.toList_inj.1 r1), Nat.repr_injective (String.toList_inj.1 r2)⟩

end OZ.RegMon
