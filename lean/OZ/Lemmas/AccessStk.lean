import OZ.Lemmas.Access
import OZ.Model.AccessStk
/-
Helper lemmas for C06, machine `stk` (OZ/Props/C06Stk.lean, OZ/Props/C06StkMon.lean): each role guard of the
stacked entry points succeeds exactly when its condition holds, inversion of the entry points.
-/
namespace OZ.Access.Stk
open OZ.Access

/-- the condition of one guard: the named account holds (one of) the role(s) and, for the `only_*`
macros, authorized the call -/
def Guard.Holds (s : St) (auth : List Nat) (a b : Nat) (g : Guard) : Prop :=
  (∃ r ∈ g.roles, s.holds (g.who a b) r = true) ∧ (g.needsAuth = true → g.who a b ∈ auth)

theorem require_iff {c : Bool} {e : Err} : require c e = .ok () ↔ c = true := by
  unfold require
  cases c
  · exact ⟨fun h => (by cases h), fun h => (by cases h)⟩
  · exact ⟨fun _ => rfl, fun _ => rfl⟩

theorem bind_ok {ε α β} (a : α) (f : α → Except ε β) : ((Except.ok a : Except ε α) >>= f) = f a := rfl

theorem unit_ok_iff {ε} {x y : Except ε Unit} : ((x >>= fun _ => y) = .ok ()) ↔ x = .ok () ∧ y = .ok () := by
  cases x with
  | error e => exact ⟨fun h => (by cases h), fun h => (by cases h.1)⟩
  | ok a => exact ⟨fun h => ⟨rfl, h⟩, fun h => h.2⟩

theorem requireAuth_iff {auth : List Nat} {a : Nat} : requireAuth auth a = .ok () ↔ a ∈ auth :=
  ⟨requireAuth_ok, requireAuth_of_mem⟩

theorem ensureRole_iff {s : St} {r c : Nat} : ensureRole s r c = .ok () ↔ s.holds c r = true := require_iff

theorem ensureAnyRole_iff {s : St} {rs : List Nat} {c : Nat} :
    ensureAnyRole s rs c = .ok () ↔ ∃ r ∈ rs, s.holds c r = true := by
  unfold ensureAnyRole
  rw [require_iff, List.any_eq_true]

/-- the statements a guard attribute injects pass exactly when its condition holds -/
theorem guard_iff {s : St} {auth : List Nat} {a b : Nat} {g : Guard} :
    g.run s auth a b = .ok () ↔ g.Holds s auth a b := by
  cases g with
  | has p r =>
    simp only [Guard.run, Guard.Holds, Guard.roles, Guard.needsAuth, Guard.who, Guard.onB]
    rw [ensureRole_iff]
    simp
  | only p r =>
    simp only [Guard.run, Guard.Holds, Guard.roles, Guard.needsAuth, Guard.who, Guard.onB]
    rw [unit_ok_iff, ensureRole_iff, requireAuth_iff]
    simp
  | hasAny p rs =>
    simp only [Guard.run, Guard.Holds, Guard.roles, Guard.needsAuth, Guard.who, Guard.onB]
    rw [ensureAnyRole_iff]
    simp
  | onlyAny p rs =>
    simp only [Guard.run, Guard.Holds, Guard.roles, Guard.needsAuth, Guard.who, Guard.onB]
    rw [unit_ok_iff, ensureAnyRole_iff, requireAuth_iff]
    simp

/-- all injected statements pass exactly when every guard's condition holds -/
theorem runGuards_iff {s : St} {auth : List Nat} {a b : Nat} {gs : List Guard} :
    runGuards s auth a b gs = .ok () ↔ ∀ g ∈ gs, g.Holds s auth a b := by
  induction gs with
  | nil => exact ⟨fun _ g hg => (by cases hg), fun _ => rfl⟩
  | cons g gs ih =>
    simp only [runGuards]
    rw [unit_ok_iff, guard_iff, ih]
    simp

theorem bump_iff {s s' : St} :
    s.bump = .ok s' ↔ s.counter + 1 ≤ I32_MAX ∧ s' = { s with counter := s.counter + 1 } := by
  unfold St.bump
  constructor
  · intro h
    split at h
    · cases h
    · injection h with h
      exact ⟨by omega, h.symm⟩
  · rintro ⟨h1, h2⟩
    rw [if_neg (by omega), h2]

/-- a guarded function is accepted exactly when every guard's condition holds and the body runs -/
theorem callWith_iff {s s' : St} {auth : List Nat} {gs : List Guard} {a b : Nat} :
    s.callWith auth gs a b = .ok s' ↔
      (∀ g ∈ gs, g.Holds s auth a b) ∧ s.counter + 1 ≤ I32_MAX ∧ s' = { s with counter := s.counter + 1 } := by
  unfold St.callWith
  constructor
  · intro h
    obtain ⟨u, hg, hb⟩ := bind_eq_ok h
    exact ⟨runGuards_iff.1 hg, bump_iff.1 hb⟩
  · rintro ⟨h1, h2⟩
    rw [runGuards_iff.2 h1]
    exact bump_iff.2 h2

theorem call_iff {s s' : St} {auth : List Nat} {f : Fn} {a b : Nat} :
    s.call auth f a b = .ok s' ↔
      f.outerGuard.Holds s auth a b ∧ f.innerGuard.Holds s auth a b ∧
      s.counter + 1 ≤ I32_MAX ∧ s' = { s with counter := s.counter + 1 } := by
  unfold St.call
  rw [callWith_iff]
  simp only [Fn.guards, List.mem_cons, List.not_mem_nil, or_false, forall_eq_or_imp, forall_eq]
  constructor
  · rintro ⟨⟨h1, h2⟩, h3⟩; exact ⟨h2, h1, h3⟩
  · rintro ⟨h1, h2, h3⟩; exact ⟨⟨h2, h1⟩, h3⟩

theorem enforceAdminAuth_iff {s : St} {auth : List Nat} {ad : Nat} :
    enforceAdminAuth s auth = .ok ad ↔ s.admin = some ad ∧ ad ∈ auth := by
  unfold enforceAdminAuth
  cases h : s.admin with
  | none => exact ⟨fun h => (by cases h), fun h => (by cases h.1)⟩
  | some x =>
    simp only
    constructor
    · intro h1
      obtain ⟨u, h2, h3⟩ := bind_eq_ok h1
      injection h3 with h3
      subst h3
      exact ⟨rfl, requireAuth_ok h2⟩
    · rintro ⟨h1, h2⟩
      injection h1 with h1
      subst h1
      rw [requireAuth_of_mem h2]
      rfl

theorem knownRole_iff {role : Nat} : knownRole role = .ok () ↔ role < 3 := by
  unfold knownRole
  rw [require_iff]
  simp

/-- granting a role that is held already changes nothing -/
theorem setHolds_true_of_holds {h : Nat → Nat → Bool} {a r : Nat} (hh : h a r = true) :
    setHolds h a r true = h := by
  funext x y
  unfold setHolds
  by_cases c : x = a ∧ y = r
  · rw [if_pos c, c.1, c.2, hh]
  · rw [if_neg c]

/-- `grant`: accepted exactly with the stored admin's authorization and one of the three roles -/
theorem grant_iff {s s' : St} {auth : List Nat} {acct role : Nat} :
    s.grant auth acct role = .ok s' ↔
      (∃ ad, s.admin = some ad ∧ ad ∈ auth) ∧ role < 3 ∧
      s' = { s with holds := setHolds s.holds acct role true } := by
  unfold St.grant
  constructor
  · intro h
    obtain ⟨ad, h1, h⟩ := bind_eq_ok h
    obtain ⟨u, h2, h⟩ := bind_eq_ok h
    refine ⟨⟨ad, enforceAdminAuth_iff.1 h1⟩, knownRole_iff.1 h2, ?_⟩
    split at h
    · rename_i hh
      injection h with h
      rw [setHolds_true_of_holds hh]
      exact h.symm
    · injection h with h
      exact h.symm
  · rintro ⟨⟨ad, h1⟩, h2, h3⟩
    rw [enforceAdminAuth_iff.2 h1]
    simp only [bind_ok]
    rw [knownRole_iff.2 h2]
    simp only [bind_ok]
    split
    · rename_i hh
      rw [h3, setHolds_true_of_holds hh]
      rfl
    · rw [h3]; rfl

/-- `revoke`: accepted exactly with the stored admin's authorization, one of the three roles, held -/
theorem revoke_iff {s s' : St} {auth : List Nat} {acct role : Nat} :
    s.revoke auth acct role = .ok s' ↔
      (∃ ad, s.admin = some ad ∧ ad ∈ auth) ∧ role < 3 ∧ s.holds acct role = true ∧
      s' = { s with holds := setHolds s.holds acct role false } := by
  unfold St.revoke
  constructor
  · intro h
    obtain ⟨ad, h1, h⟩ := bind_eq_ok h
    obtain ⟨u, h2, h⟩ := bind_eq_ok h
    obtain ⟨u', h3, h⟩ := bind_eq_ok h
    injection h with h
    exact ⟨⟨ad, enforceAdminAuth_iff.1 h1⟩, knownRole_iff.1 h2, require_iff.1 h3, h.symm⟩
  · rintro ⟨⟨ad, h1⟩, h2, h3, h4⟩
    rw [enforceAdminAuth_iff.2 h1]
    simp only [bind_ok]
    rw [knownRole_iff.2 h2]
    simp only [bind_ok]
    rw [require_iff.2 h3, h4]
    rfl

/-- a step that the model rejects leaves the state as it is -/
theorem step_of_error {s : St} {auth : List Nat} {op : Op} (h : ∀ s', s.apply auth op ≠ .ok s') :
    St.step s (auth, op) = s := by
  unfold St.step
  cases hx : s.apply auth op with
  | error e => rfl
  | ok s' => exact (h s' hx).elim

theorem step_of_ok {s s' : St} {auth : List Nat} {op : Op} (h : s.apply auth op = .ok s') :
    St.step s (auth, op) = s' := by
  unfold St.step
  simp only [h]

/-- no entry point touches the admin; the stacked entry points touch only the counter, grant / revoke only
the role table -/
theorem apply_keeps {s s' : St} {auth : List Nat} {o : Op} (h : s.apply auth o = .ok s') :
    s'.admin = s.admin := by
  cases o with
  | call f a b => obtain ⟨-, -, -, e⟩ := call_iff.1 h; rw [e]
  | grant a r => obtain ⟨-, -, e⟩ := grant_iff.1 h; rw [e]
  | revoke a r => obtain ⟨-, -, -, e⟩ := revoke_iff.1 h; rw [e]

end OZ.Access.Stk
