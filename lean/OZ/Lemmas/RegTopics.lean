import OZ.Model.RegTopics
import OZ.Lemmas.RegList
/-
Invariant and characterisation lemmas for the claim-topics-and-issuers registry (C20).
-/
namespace OZ.RegTopics
open OZ.Reg

/-- `x` is listed in the optional vector -/
def memO (o : Option (List Nat)) (x : Nat) : Prop := ∃ l, o = some l ∧ x ∈ l
/-- the optional vector has no repetition -/
def nodupO (o : Option (List Nat)) : Prop := ∀ l, o = some l → l.Nodup

theorem memO_none (x : Nat) : ¬ memO none x := by rintro ⟨l, h, _⟩; cases h
theorem memO_some (l : List Nat) (x : Nat) : memO (some l) x ↔ x ∈ l := by
  constructor
  · rintro ⟨l', h, hm⟩; injection h with h; subst h; exact hm
  · intro h; exact ⟨l, rfl, h⟩

theorem memO_isSome {o : Option (List Nat)} {x : Nat} (h : memO o x) : o.isSome = true := by
  obtain ⟨l, rfl, _⟩ := h; rfl

theorem memO_map_append (o : Option (List Nat)) (i x : Nat) :
    memO (o.map (· ++ [i])) x ↔ memO o x ∨ (o.isSome = true ∧ x = i) := by
  cases o with
  | none => simp [memO]
  | some l => simp [memO_some]

theorem memO_map_erase {o : Option (List Nat)} (h : nodupO o) (i x : Nat) :
    memO (o.map (·.erase i)) x ↔ memO o x ∧ x ≠ i := by
  cases o with
  | none => simp [memO]
  | some l =>
    simp only [Option.map_some, memO_some]
    rw [(h l rfl).mem_erase_iff]; exact And.comm

theorem nodupO_map_erase {o : Option (List Nat)} (h : nodupO o) (i : Nat) : nodupO (o.map (·.erase i)) := by
  cases o with
  | none => intro l hl; cases hl
  | some l => intro l' hl; simp at hl; subst hl; exact (h l rfl).erase i

theorem nodupO_map_append {o : Option (List Nat)} (h : nodupO o) (i : Nat) (hn : ¬ memO o i) :
    nodupO (o.map (· ++ [i])) := by
  cases o with
  | none => intro l hl; cases hl
  | some l =>
    intro l' hl; simp at hl; subst hl
    rw [List.nodup_append]
    refine ⟨h l rfl, by simp, ?_⟩
    intro a ha b hb; simp at hb; subst hb
    intro hab; subst hab; exact hn ((memO_some l a).2 ha)

/-- a duplicate-free list inside another list is no longer than it -/
theorem nodup_subset_length : ∀ (a b : List Nat), a.Nodup → (∀ x, x ∈ a → x ∈ b) → a.length ≤ b.length := by
  intro a
  induction a with
  | nil => intro b _ _; simp
  | cons x xs ih =>
    intro b hnd hsub
    rw [List.nodup_cons] at hnd
    have hx : x ∈ b := hsub x (List.mem_cons_self ..)
    have h1 : xs.length ≤ (b.erase x).length := by
      apply ih (b.erase x) hnd.2
      intro y hy
      have hyx : y ≠ x := fun h => hnd.1 (h ▸ hy)
      exact (List.mem_erase_of_ne hyx).2 (hsub y (List.mem_cons_of_mem _ hy))
    rw [List.length_erase_of_mem hx] at h1
    have := List.length_pos_of_mem hx
    simp only [List.length_cons]; omega

theorem not_bnot_true {b : Bool} (h : b = true) : ¬ (!b) = true := by simp [h]

structure Inv (s : State) : Prop where
  tN : s.topics.Nodup
  iN : s.issuers.Nodup
  tiDom : ∀ t, (s.topicIssuers t).isSome = true ↔ t ∈ s.topics
  itDom : ∀ i, (s.issuerTopics i).isSome = true ↔ i ∈ s.issuers
  itN : ∀ i, nodupO (s.issuerTopics i)
  tiN : ∀ t, nodupO (s.topicIssuers t)
  itSub : ∀ i t, memO (s.issuerTopics i) t → t ∈ s.topics
  twoWay : ∀ i t, memO (s.issuerTopics i) t ↔ memO (s.topicIssuers t) i
  tLe : s.topics.length ≤ MAX_CLAIM_TOPICS
  iLe : s.issuers.length ≤ MAX_ISSUERS

theorem inv_init : Inv init := by
  constructor <;> intros <;> simp_all [init, memO, nodupO]

theorem Inv.tiSub {s : State} (hI : Inv s) {t i : Nat} (h : memO (s.topicIssuers t) i) : i ∈ s.issuers :=
  (hI.itDom i).1 (memO_isSome ((hI.twoWay i t).2 h))

/-! ### claim topics -/

def addTopic' (s : State) (t : Nat) : State :=
  { s with topics := s.topics ++ [t], topicIssuers := updD s.topicIssuers t (some []) }

theorem addClaimTopic_ok_iff (s s' : State) (t : Nat) :
    addClaimTopic s t = .ok s' ↔ (s.topics.length < MAX_CLAIM_TOPICS ∧ t ∉ s.topics) ∧ s' = addTopic' s t := by
  unfold addClaimTopic
  by_cases h1 : s.topics.length ≥ MAX_CLAIM_TOPICS
  · rw [if_pos h1]; constructor
    · intro h; cases h
    · rintro ⟨⟨h, _⟩, _⟩; omega
  · rw [if_neg h1]
    by_cases h2 : t ∈ s.topics
    · rw [if_pos (by simpa using h2)]; constructor
      · intro h; cases h
      · rintro ⟨⟨_, h⟩, _⟩; exact absurd h2 h
    · rw [if_neg (by simpa using h2)]; constructor
      · intro h; injection h with h; exact ⟨⟨by omega, h2⟩, h.symm⟩
      · rintro ⟨_, rfl⟩; rfl

theorem inv_addTopic' {s : State} (hI : Inv s) {t : Nat} (hl : s.topics.length < MAX_CLAIM_TOPICS)
    (hn : t ∉ s.topics) : Inv (addTopic' s t) := by
  have hnone : s.topicIssuers t = none := by
    have := (not_congr (hI.tiDom t)).2 hn
    simpa using this
  have hti : ∀ t', (addTopic' s t).topicIssuers t' = if t' = t then some [] else s.topicIssuers t' := by
    intro t'; simp [addTopic', updD]
  constructor
  · show (s.topics ++ [t]).Nodup
    rw [List.nodup_append]; refine ⟨hI.tN, by simp, ?_⟩
    intro a ha b hb; simp at hb; subst hb; intro h; subst h; exact hn ha
  · exact hI.iN
  · intro t'
    rw [hti]; show _ ↔ t' ∈ s.topics ++ [t]
    by_cases h : t' = t
    · subst h; simp
    · rw [if_neg h, hI.tiDom]; simp [h]
  · exact hI.itDom
  · exact hI.itN
  · intro t'; rw [hti]; split
    · intro l hl; injection hl with hl; subst hl; simp
    · exact hI.tiN t'
  · intro i t' h; show t' ∈ s.topics ++ [t]
    exact List.mem_append_left _ (hI.itSub i t' h)
  · intro i t'
    rw [hti]
    by_cases h : t' = t
    · subst h; rw [if_pos rfl]
      constructor
      · intro hm; exact absurd (hI.itSub i t' hm) hn
      · intro hm; rw [memO_some] at hm; cases hm
    · rw [if_neg h]; exact hI.twoWay i t'
  · show (s.topics ++ [t]).length ≤ _
    simp; omega
  · exact hI.iLe

def removeTopic' (s : State) (t : Nat) : State :=
  { s with topics := s.topics.erase t, issuerTopics := dropTopicFromIssuers s t,
           topicIssuers := updD s.topicIssuers t none }

theorem removeClaimTopic_ok_iff (s s' : State) (t : Nat) :
    removeClaimTopic s t = .ok s' ↔ t ∈ s.topics ∧ s' = removeTopic' s t := by
  unfold removeClaimTopic
  by_cases h : t ∈ s.topics
  · rw [if_neg (by simpa using h)]; constructor
    · intro h'; injection h' with h'; exact ⟨h, h'.symm⟩
    · rintro ⟨_, rfl⟩; rfl
  · rw [if_pos (by simpa using h)]; constructor
    · intro h'; cases h'
    · rintro ⟨h', _⟩; exact absurd h' h

theorem inv_removeTopic' {s : State} (hI : Inv s) {t : Nat} (_hm : t ∈ s.topics) : Inv (removeTopic' s t) := by
  have hit : ∀ i, (removeTopic' s t).issuerTopics i = (s.issuerTopics i).map (·.erase t) := by
    intro i
    show dropTopicFromIssuers s t i = _
    unfold dropTopicFromIssuers
    split
    · rfl
    · rename_i h
      have : s.issuerTopics i = none := by
        have := (not_congr (hI.itDom i)).2 h; simpa using this
      rw [this]; rfl
  have hti : ∀ t', (removeTopic' s t).topicIssuers t' = if t' = t then none else s.topicIssuers t' := by
    intro t'; simp [removeTopic', updD]
  constructor
  · exact hI.tN.erase t
  · exact hI.iN
  · intro t'; rw [hti]; show _ ↔ t' ∈ s.topics.erase t
    rw [hI.tN.mem_erase_iff]
    by_cases h : t' = t
    · subst h; simp
    · rw [if_neg h, hI.tiDom]; simp [h]
  · intro i; rw [hit, Option.isSome_map]; exact hI.itDom i
  · intro i; rw [hit]; exact nodupO_map_erase (hI.itN i) t
  · intro t'; rw [hti]; split
    · intro l hl; cases hl
    · exact hI.tiN t'
  · intro i t'; rw [hit, memO_map_erase (hI.itN i)]
    rintro ⟨h, hne⟩; show t' ∈ s.topics.erase t
    rw [hI.tN.mem_erase_iff]; exact ⟨hne, hI.itSub i t' h⟩
  · intro i t'
    rw [hit, hti, memO_map_erase (hI.itN i)]
    by_cases h : t' = t
    · subst h; rw [if_pos rfl]
      constructor
      · rintro ⟨_, hne⟩; exact absurd rfl hne
      · intro hm; exact absurd hm (memO_none _)
    · rw [if_neg h, ← hI.twoWay]; simp [h]
  · exact Nat.le_trans (List.erase_sublist.length_le) hI.tLe
  · exact hI.iLe

/-! ### trusted issuers -/

theorem validateTopics_ok_iff (s : State) (ts : List Nat) :
    validateTopics s ts = .ok () ↔
      ts ≠ [] ∧ ts.length ≤ MAX_CLAIM_TOPICS ∧ ts.Nodup ∧ ∀ t, t ∈ ts → t ∈ s.topics := by
  unfold validateTopics
  by_cases h1 : ts = []
  · rw [if_pos h1]; constructor
    · intro h; cases h
    · rintro ⟨h, _⟩; exact absurd h1 h
  rw [if_neg h1]
  by_cases h2 : ts.length > MAX_CLAIM_TOPICS
  · rw [if_pos h2]; constructor
    · intro h; cases h
    · rintro ⟨_, h, _⟩; omega
  rw [if_neg h2]
  by_cases h3 : ts.Nodup
  · rw [if_neg (by simpa using h3)]
    by_cases h4 : ∀ t, t ∈ ts → t ∈ s.topics
    · have : ts.all (fun t => s.topics.contains t) = true := by
        rw [List.all_eq_true]; intro t ht; simpa using h4 t ht
      rw [if_neg (not_bnot_true this)]
      exact ⟨fun _ => ⟨h1, by omega, h3, h4⟩, fun _ => rfl⟩
    · have : ¬ ts.all (fun t => s.topics.contains t) = true := by
        rw [List.all_eq_true]; intro h; apply h4; intro t ht; simpa using h t ht
      rw [if_pos (by simpa using this)]; constructor
      · intro h; cases h
      · rintro ⟨_, _, _, h⟩; exact absurd h h4
  · rw [if_pos (by simpa using h3)]; constructor
    · intro h; cases h
    · rintro ⟨_, _, h, _⟩; exact absurd h h3

theorem validateTopics_cases (s : State) (ts : List Nat) :
    validateTopics s ts = .ok () ∨ ∃ e, validateTopics s ts = .error e := by
  cases h : validateTopics s ts with
  | ok u => left; cases u; rfl
  | error e => right; exact ⟨e, rfl⟩

theorem allPresent_of_sub {s : State} (hI : Inv s) {ts : List Nat} (h : ∀ t, t ∈ ts → t ∈ s.topics) :
    allPresent s.topicIssuers ts = true := by
  unfold allPresent; rw [List.all_eq_true]
  intro t ht; exact (hI.tiDom t).2 (h t ht)

def addIssuer' (s : State) (i : Nat) (ts : List Nat) : State :=
  { s with issuers := s.issuers ++ [i], issuerTopics := updD s.issuerTopics i (some ts),
           topicIssuers := pushIssuer s.topicIssuers ts i }

theorem addTrustedIssuer_ok_iff {s : State} (hI : Inv s) (s' : State) (i : Nat) (ts : List Nat) :
    addTrustedIssuer s i ts = .ok s' ↔
      ((ts ≠ [] ∧ ts.length ≤ MAX_CLAIM_TOPICS ∧ ts.Nodup ∧ ∀ t, t ∈ ts → t ∈ s.topics) ∧
        s.issuers.length < MAX_ISSUERS ∧ i ∉ s.issuers) ∧ s' = addIssuer' s i ts := by
  unfold addTrustedIssuer
  rcases validateTopics_cases s ts with hv | ⟨e, hv⟩
  · rw [hv]
    have hval := (validateTopics_ok_iff s ts).1 hv
    show (if _ then _ else _) = _ ↔ _
    by_cases h1 : s.issuers.length ≥ MAX_ISSUERS
    · rw [if_pos h1]; constructor
      · intro h; cases h
      · rintro ⟨⟨_, h, _⟩, _⟩; omega
    rw [if_neg h1]
    by_cases h2 : i ∈ s.issuers
    · rw [if_pos (by simpa using h2)]; constructor
      · intro h; cases h
      · rintro ⟨⟨_, _, h⟩, _⟩; exact absurd h2 h
    rw [if_neg (by simpa using h2), if_neg (not_bnot_true (allPresent_of_sub hI hval.2.2.2))]
    constructor
    · intro h; injection h with h; exact ⟨⟨hval, by omega, h2⟩, h.symm⟩
    · rintro ⟨_, rfl⟩; rfl
  · rw [hv]; constructor
    · intro h; cases h
    · rintro ⟨⟨h, _⟩, _⟩
      have := (validateTopics_ok_iff s ts).2 h; rw [hv] at this; cases this

theorem inv_addIssuer' {s : State} (hI : Inv s) {i : Nat} {ts : List Nat}
    (hval : ts ≠ [] ∧ ts.length ≤ MAX_CLAIM_TOPICS ∧ ts.Nodup ∧ ∀ t, t ∈ ts → t ∈ s.topics)
    (hl : s.issuers.length < MAX_ISSUERS) (hn : i ∉ s.issuers) : Inv (addIssuer' s i ts) := by
  have hnone : s.issuerTopics i = none := by
    have := (not_congr (hI.itDom i)).2 hn; simpa using this
  have hnoTI : ∀ t, ¬ memO (s.topicIssuers t) i := fun t h => hn (hI.tiSub h)
  have hit : ∀ i', (addIssuer' s i ts).issuerTopics i' = if i' = i then some ts else s.issuerTopics i' := by
    intro i'; simp [addIssuer', updD]
  have hti : ∀ t, (addIssuer' s i ts).topicIssuers t =
      if t ∈ ts then (s.topicIssuers t).map (· ++ [i]) else s.topicIssuers t := by
    intro t; rfl
  constructor
  · exact hI.tN
  · show (s.issuers ++ [i]).Nodup
    rw [List.nodup_append]; refine ⟨hI.iN, by simp, ?_⟩
    intro a ha b hb; simp at hb; subst hb; intro h; subst h; exact hn ha
  · intro t; rw [hti]; split
    · rw [Option.isSome_map]; exact hI.tiDom t
    · exact hI.tiDom t
  · intro i'; rw [hit]; show _ ↔ i' ∈ s.issuers ++ [i]
    by_cases h : i' = i
    · subst h; simp
    · rw [if_neg h, hI.itDom]; simp [h]
  · intro i'; rw [hit]; split
    · intro l hl; injection hl with hl; subst hl; exact hval.2.2.1
    · exact hI.itN i'
  · intro t; rw [hti]; split
    · exact nodupO_map_append (hI.tiN t) i (hnoTI t)
    · exact hI.tiN t
  · intro i' t; rw [hit]; split
    · rw [memO_some]; exact hval.2.2.2 t
    · exact hI.itSub i' t
  · intro i' t
    rw [hit, hti]
    by_cases h : i' = i
    · subst h; rw [if_pos rfl, memO_some]
      by_cases ht : t ∈ ts
      · rw [if_pos ht, memO_map_append]
        exact ⟨fun _ => Or.inr ⟨(hI.tiDom t).2 (hval.2.2.2 t ht), rfl⟩, fun _ => ht⟩
      · rw [if_neg ht]
        exact ⟨fun h => absurd h ht, fun h => absurd h (hnoTI t)⟩
    · rw [if_neg h]
      by_cases ht : t ∈ ts
      · rw [if_pos ht, memO_map_append, hI.twoWay]
        constructor
        · intro h'; exact Or.inl h'
        · rintro (h' | ⟨_, h'⟩)
          · exact h'
          · exact absurd h' h
      · rw [if_neg ht]; exact hI.twoWay i' t
  · exact hI.tLe
  · show (s.issuers ++ [i]).length ≤ _
    simp; omega

def removeIssuer' (s : State) (i : Nat) (its : List Nat) : State :=
  { s with issuers := s.issuers.erase i, issuerTopics := updD s.issuerTopics i none,
           topicIssuers := dropIssuer s.topicIssuers its i }

theorem removeTrustedIssuer_ok_iff {s : State} (hI : Inv s) (s' : State) (i : Nat) :
    removeTrustedIssuer s i = .ok s' ↔
      i ∈ s.issuers ∧ ∃ its, s.issuerTopics i = some its ∧ s' = removeIssuer' s i its := by
  unfold removeTrustedIssuer
  by_cases h : i ∈ s.issuers
  · rw [if_neg (by simpa using h)]
    obtain ⟨its, hits⟩ := Option.isSome_iff_exists.1 ((hI.itDom i).2 h)
    rw [hits]
    show removeTrustedIssuerWith s i its = _ ↔ _
    unfold removeTrustedIssuerWith
    have hsub : ∀ t, t ∈ its → t ∈ s.topics := fun t ht => hI.itSub i t ⟨its, hits, ht⟩
    rw [if_neg (not_bnot_true (allPresent_of_sub hI hsub))]
    constructor
    · intro h'; injection h' with h'; exact ⟨h, its, rfl, h'.symm⟩
    · rintro ⟨_, its', h1, rfl⟩; injection h1 with h1; subst h1; rfl
  · rw [if_pos (by simpa using h)]; constructor
    · intro h'; cases h'
    · rintro ⟨h', _⟩; exact absurd h' h

theorem inv_removeIssuer' {s : State} (hI : Inv s) {i : Nat} {its : List Nat} (_hm : i ∈ s.issuers)
    (hits : s.issuerTopics i = some its) : Inv (removeIssuer' s i its) := by
  have hit : ∀ i', (removeIssuer' s i its).issuerTopics i' = if i' = i then none else s.issuerTopics i' := by
    intro i'; simp [removeIssuer', updD]
  have hti : ∀ t, (removeIssuer' s i its).topicIssuers t =
      if t ∈ its then (s.topicIssuers t).map (·.erase i) else s.topicIssuers t := by
    intro t; rfl
  have hmem : ∀ t, t ∈ its ↔ memO (s.issuerTopics i) t := by
    intro t; rw [hits, memO_some]
  constructor
  · exact hI.tN
  · exact hI.iN.erase i
  · intro t; rw [hti]; split
    · rw [Option.isSome_map]; exact hI.tiDom t
    · exact hI.tiDom t
  · intro i'; rw [hit]; show _ ↔ i' ∈ s.issuers.erase i
    rw [hI.iN.mem_erase_iff]
    by_cases h : i' = i
    · subst h; simp
    · rw [if_neg h, hI.itDom]; simp [h]
  · intro i'; rw [hit]; split
    · intro l hl; cases hl
    · exact hI.itN i'
  · intro t; rw [hti]; split
    · exact nodupO_map_erase (hI.tiN t) i
    · exact hI.tiN t
  · intro i' t; rw [hit]; split
    · intro h; exact absurd h (memO_none _)
    · exact hI.itSub i' t
  · intro i' t
    rw [hit, hti]
    by_cases h : i' = i
    · subst h; rw [if_pos rfl]
      constructor
      · intro h'; exact absurd h' (memO_none _)
      · intro h'
        by_cases ht : t ∈ its
        · rw [if_pos ht, memO_map_erase (hI.tiN t)] at h'; exact absurd rfl h'.2
        · rw [if_neg ht] at h'
          exact absurd ((hmem t).2 ((hI.twoWay i' t).2 h')) ht
    · rw [if_neg h]
      by_cases ht : t ∈ its
      · rw [if_pos ht, memO_map_erase (hI.tiN t), ← hI.twoWay]; simp [h]
      · rw [if_neg ht]; exact hI.twoWay i' t
  · exact hI.tLe
  · exact Nat.le_trans (List.erase_sublist.length_le) hI.iLe

def update' (s : State) (i : Nat) (ts old : List Nat) : State :=
  { s with issuerTopics := updD s.issuerTopics i (some ts),
           topicIssuers :=
             pushIssuer (dropIssuer s.topicIssuers (old.filter (fun t => !ts.contains t)) i)
               (ts.filter (fun t => !old.contains t)) i }

theorem update_ok_iff {s : State} (hI : Inv s) (s' : State) (i : Nat) (ts : List Nat) :
    updateIssuerClaimTopics s i ts = .ok s' ↔
      ((ts ≠ [] ∧ ts.length ≤ MAX_CLAIM_TOPICS ∧ ts.Nodup ∧ ∀ t, t ∈ ts → t ∈ s.topics) ∧ i ∈ s.issuers) ∧
        ∃ old, s.issuerTopics i = some old ∧ s' = update' s i ts old := by
  unfold updateIssuerClaimTopics
  rcases validateTopics_cases s ts with hv | ⟨e, hv⟩
  · rw [hv]
    have hval := (validateTopics_ok_iff s ts).1 hv
    show (if _ then _ else _) = _ ↔ _
    by_cases h : i ∈ s.issuers
    · rw [if_neg (by simpa [isTrustedIssuer] using h)]
      obtain ⟨old, hold⟩ := Option.isSome_iff_exists.1 ((hI.itDom i).2 h)
      rw [hold]
      show updateWith s i ts old = _ ↔ _
      unfold updateWith
      have h1 : allPresent s.topicIssuers (old.filter (fun t => !ts.contains t)) = true :=
        allPresent_of_sub hI (fun t ht => hI.itSub i t ⟨old, hold, (List.mem_filter.1 ht).1⟩)
      have h2 : allPresent s.topicIssuers (ts.filter (fun t => !old.contains t)) = true :=
        allPresent_of_sub hI (fun t ht => hval.2.2.2 t (List.mem_filter.1 ht).1)
      rw [if_neg (not_bnot_true h1), if_neg (not_bnot_true h2)]
      constructor
      · intro h'; injection h' with h'; exact ⟨⟨hval, h⟩, old, rfl, h'.symm⟩
      · rintro ⟨_, old', h1', rfl⟩; injection h1' with h1'; subst h1'; rfl
    · rw [if_pos (by simpa [isTrustedIssuer] using h)]; constructor
      · intro h'; cases h'
      · rintro ⟨⟨_, h'⟩, _⟩; exact absurd h' h
  · rw [hv]; constructor
    · intro h; cases h
    · rintro ⟨⟨h, _⟩, _⟩
      have := (validateTopics_ok_iff s ts).2 h; rw [hv] at this; cases this

theorem inv_update' {s : State} (hI : Inv s) {i : Nat} {ts old : List Nat}
    (hval : ts ≠ [] ∧ ts.length ≤ MAX_CLAIM_TOPICS ∧ ts.Nodup ∧ ∀ t, t ∈ ts → t ∈ s.topics)
    (hm : i ∈ s.issuers) (hold : s.issuerTopics i = some old) : Inv (update' s i ts old) := by
  have hit : ∀ i', (update' s i ts old).issuerTopics i' = if i' = i then some ts else s.issuerTopics i' := by
    intro i'; simp [update', updD]
  have hOld : ∀ t, t ∈ old ↔ memO (s.topicIssuers t) i := by
    intro t; rw [← hI.twoWay, hold, memO_some]
  have hpres : ∀ t, t ∈ ts → (s.topicIssuers t).isSome = true := fun t ht => (hI.tiDom t).2 (hval.2.2.2 t ht)
  -- pointwise description of the new reverse map
  have hti : ∀ t, (update' s i ts old).topicIssuers t =
      if t ∈ ts ∧ t ∉ old then (s.topicIssuers t).map (· ++ [i])
      else if t ∈ old ∧ t ∉ ts then (s.topicIssuers t).map (·.erase i)
      else s.topicIssuers t := by
    intro t
    show pushIssuer (dropIssuer s.topicIssuers _ i) _ i t = _
    unfold pushIssuer dropIssuer
    simp only [List.mem_filter, Bool.not_eq_true', List.contains_eq_mem, decide_eq_false_iff_not]
    by_cases h1 : t ∈ ts ∧ t ∉ old
    · rw [if_pos h1, if_pos h1, if_neg (fun h => h1.2 h.1)]
    · rw [if_neg h1, if_neg h1]
  constructor
  · exact hI.tN
  · exact hI.iN
  · intro t; rw [hti]; split
    · rw [Option.isSome_map]; exact hI.tiDom t
    · split
      · rw [Option.isSome_map]; exact hI.tiDom t
      · exact hI.tiDom t
  · intro i'; rw [hit]; show _ ↔ i' ∈ s.issuers
    by_cases h : i' = i
    · subst h; simp [hm]
    · rw [if_neg h]; exact hI.itDom i'
  · intro i'; rw [hit]; split
    · intro l hl; injection hl with hl; subst hl; exact hval.2.2.1
    · exact hI.itN i'
  · intro t; rw [hti]; split
    · rename_i h
      exact nodupO_map_append (hI.tiN t) i (fun h' => h.2 ((hOld t).2 h'))
    · split
      · exact nodupO_map_erase (hI.tiN t) i
      · exact hI.tiN t
  · intro i' t; rw [hit]; split
    · rw [memO_some]; exact hval.2.2.2 t
    · exact hI.itSub i' t
  · intro i' t
    rw [hit, hti]
    by_cases h : i' = i
    · subst h; rw [if_pos rfl, memO_some]
      by_cases h1 : t ∈ ts ∧ t ∉ old
      · rw [if_pos h1, memO_map_append]
        exact ⟨fun _ => Or.inr ⟨hpres t h1.1, rfl⟩, fun _ => h1.1⟩
      · rw [if_neg h1]
        by_cases h2 : t ∈ old ∧ t ∉ ts
        · rw [if_pos h2, memO_map_erase (hI.tiN t)]
          exact ⟨fun h => absurd h h2.2, fun h => absurd rfl h.2⟩
        · rw [if_neg h2, ← hOld]
          constructor
          · intro ht; exact Classical.byContradiction (fun ho => h1 ⟨ht, ho⟩)
          · intro ho; exact Classical.byContradiction (fun ht => h2 ⟨ho, ht⟩)
    · rw [if_neg h]
      by_cases h1 : t ∈ ts ∧ t ∉ old
      · rw [if_pos h1, memO_map_append, hI.twoWay]
        constructor
        · intro h'; exact Or.inl h'
        · rintro (h' | ⟨_, h'⟩)
          · exact h'
          · exact absurd h' h
      · rw [if_neg h1]
        by_cases h2 : t ∈ old ∧ t ∉ ts
        · rw [if_pos h2, memO_map_erase (hI.tiN t), ← hI.twoWay]; simp [h]
        · rw [if_neg h2]; exact hI.twoWay i' t
  · exact hI.tLe
  · exact hI.iLe

/-! ### histories -/

theorem inv_next {s : State} (hI : Inv s) (o : Op) : Inv (next s o) := by
  unfold next
  cases h : step s o with
  | error e => exact hI
  | ok s' =>
    cases o with
    | addTopic t =>
      obtain ⟨⟨hl, hn⟩, rfl⟩ := (addClaimTopic_ok_iff s s' t).1 h
      exact inv_addTopic' hI hl hn
    | removeTopic t =>
      obtain ⟨hm, rfl⟩ := (removeClaimTopic_ok_iff s s' t).1 h
      exact inv_removeTopic' hI hm
    | addIssuer i ts =>
      obtain ⟨⟨hv, hl, hn⟩, rfl⟩ := (addTrustedIssuer_ok_iff hI s' i ts).1 h
      exact inv_addIssuer' hI hv hl hn
    | removeIssuer i =>
      obtain ⟨hm, its, hits, rfl⟩ := (removeTrustedIssuer_ok_iff hI s' i).1 h
      exact inv_removeIssuer' hI hm hits
    | update i ts =>
      obtain ⟨⟨hv, hm⟩, old, hold, rfl⟩ := (update_ok_iff hI s' i ts).1 h
      exact inv_update' hI hv hm hold

theorem inv_run {s : State} (hI : Inv s) (ops : List Op) : Inv (run s ops) := by
  induction ops generalizing s with
  | nil => exact hI
  | cons o os ih => exact ih (inv_next hI o)

def Reachable (s : State) : Prop := ∃ ops, s = run init ops

theorem reachable_inv {s : State} (h : Reachable s) : Inv s := by
  obtain ⟨ops, rfl⟩ := h
  exact inv_run inv_init ops

theorem rel_iff (s : State) (i t : Nat) : rel s i t ↔ memO (s.issuerTopics i) t := Iff.rfl

end OZ.RegTopics
