import OZ.Lemmas.Fungible
import OZ.Model.Gates
/-
Helper lemmas for the gates model (C16).
-/
namespace OZ.Gates
open OZ.Host OZ.Fungible

theorem bind_error {ε α β} (e : ε) (f : α → Except ε β) : ((Except.error e : Except ε α) >>= f) = .error e := rfl
theorem bind_ok {ε α β} (a : α) (f : α → Except ε β) : ((Except.ok a : Except ε α) >>= f) = f a := rfl

theorem whenNotPaused_true {p : Pause} (h : p.paused = true) : whenNotPaused p = .error .gate := by
  simp [whenNotPaused, h]
theorem whenNotPaused_false {p : Pause} (h : p.paused = false) : whenNotPaused p = .ok () := by
  simp [whenNotPaused, h]
theorem whenPaused_true {p : Pause} (h : p.paused = true) : whenPaused p = .ok () := by
  simp [whenPaused, h]
theorem whenPaused_false {p : Pause} (h : p.paused = false) : whenPaused p = .error .gate := by
  simp [whenPaused, h]

theorem pause_ok {p p' : Pause} (h : pause p = .ok p') :
    p.paused = false ∧ p' = { paused := true, log := p.log ++ [.paused] } := by
  unfold pause at h
  cases hp : p.paused with
  | true => rw [whenNotPaused_true hp] at h; cases h
  | false => rw [whenNotPaused_false hp] at h; injection h with h; exact ⟨rfl, h.symm⟩

theorem unpause_ok {p p' : Pause} (h : unpause p = .ok p') :
    p.paused = true ∧ p' = { paused := false, log := p.log ++ [.unpaused] } := by
  unfold unpause at h
  cases hp : p.paused with
  | false => rw [whenPaused_false hp] at h; cases h
  | true => rw [whenPaused_true hp] at h; injection h with h; exact ⟨rfl, h.symm⟩

theorem callerIsOwner_ok {auth : List Nat} {owner caller : Nat} {u : Unit}
    (h : callerIsOwner auth owner caller = .ok u) : caller ∈ auth ∧ owner = caller := by
  unfold callerIsOwner at h
  obtain ⟨_, h1, h2⟩ := bind_eq_ok h
  refine ⟨requireAuth_ok h1, ?_⟩
  split at h2
  · cases h2
  · rename_i hne; exact Decidable.of_not_not hne

/-! ### alternation of the pause log -/

/-- replay one event on the flag; `none` = the event is impossible in that state -/
def flagStep (ob : Option Bool) (e : GEvent) : Option Bool :=
  match ob, e with
  | some false, .paused => some true
  | some true, .paused => none
  | some true, .unpaused => some false
  | some false, .unpaused => none
  | ob, _ => ob

/-- replay a whole log from the unpaused state: `some b` iff `paused` and `unpaused` events
strictly alternate starting with `paused`; `b` is the flag they lead to -/
def flagAfter (log : List GEvent) : Option Bool := log.foldl flagStep (some false)

theorem flagAfter_snoc (log : List GEvent) (e : GEvent) :
    flagAfter (log ++ [e]) = flagStep (flagAfter log) e := by
  simp [flagAfter, List.foldl_append]

theorem pause_flag {p p' : Pause} (h : pause p = .ok p') (hi : flagAfter p.log = some p.paused) :
    flagAfter p'.log = some p'.paused := by
  obtain ⟨h1, h2⟩ := pause_ok h
  subst h2
  simp only
  rw [flagAfter_snoc, hi, h1]; rfl

theorem unpause_flag {p p' : Pause} (h : unpause p = .ok p') (hi : flagAfter p.log = some p.paused) :
    flagAfter p'.log = some p'.paused := by
  obtain ⟨h1, h2⟩ := unpause_ok h
  subst h2
  simp only
  rw [flagAfter_snoc, hi, h1]; rfl

/-! ### lists -/

theorem withTok_ok {s s' : LTok} {r : Except Err Fungible.State} (h : s.withTok r = .ok s') :
    ∃ t, r = .ok t ∧ s' = { s with tok := t } := by
  cases r with
  | error e => cases h
  | ok t => injection h with h; exact ⟨t, rfl, h.symm⟩

theorem withT_ok {s s' : LEx} {r : Except Err LTok} (h : s.withT r = .ok s') :
    ∃ t, r = .ok t ∧ s' = { s with t := t } := by
  cases r with
  | error e => cases h
  | ok t => injection h with h; exact ⟨t, rfl, h.symm⟩

theorem ctok_withTok_ok {s s' : CTok} {r : Except Err Fungible.State} (h : s.withTok r = .ok s') :
    ∃ t, r = .ok t ∧ s' = { s with tok := t } := by
  cases r with
  | error e => cases h
  | ok t => injection h with h; exact ⟨t, rfl, h.symm⟩

/-! ### supply movement of the `Base` functions without any invariant -/

theorem update_supply {s s' : Fungible.State} {f t : Option Nat} {amt : Int}
    (h : update s f t amt = .ok s') :
    0 ≤ amt ∧ s'.supply = s.supply + (if f = none then amt else 0) - (if t = none then amt else 0) ∧
    s'.now = s.now := by
  obtain ⟨h0, s1, hd, hc⟩ := update_ok h
  obtain ⟨-, hn1, -, hd4⟩ := debit_ok hd
  obtain ⟨-, hn2, -, hc4⟩ := credit_ok hc
  refine ⟨h0, ?_, by rw [hn2, hn1]⟩
  cases f <;> cases t <;> simp at hd4 hc4 ⊢ <;> omega

/-- `transfer`, `transfer_from`, `approve` and ledger movement leave the supply alone -/
theorem apply_supply_nonmint {c : Cfg} {s s' : Fungible.State} {auth : List Nat} {op : Fungible.Op}
    (hop : match op with | .mint _ _ => False | .burn _ _ => False | .burnFrom _ _ _ => False | _ => True)
    (h : Fungible.apply c s auth op = .ok s') : s'.supply = s.supply := by
  cases op with
  | mint to amt => cases hop
  | burn f amt => cases hop
  | burnFrom sp f amt => cases hop
  | transfer f t amt =>
    obtain ⟨_, _, h⟩ := bind_eq_ok h
    obtain ⟨s1, h1, h2⟩ := bind_eq_ok h
    injection h2 with h2; subst h2
    obtain ⟨-, hs, -⟩ := update_supply h1
    simp [emit] at *; rw [hs]
  | transferFrom sp f t amt =>
    obtain ⟨_, _, h⟩ := bind_eq_ok h
    obtain ⟨s0, h0, h⟩ := bind_eq_ok h
    obtain ⟨s1, h1, h2⟩ := bind_eq_ok h
    injection h2 with h2; subst h2
    obtain ⟨e1, -, -, -, -⟩ := spendAllowance_ok h0
    obtain ⟨-, hs, -⟩ := update_supply h1
    simp [emit] at *; rw [hs, e1]
  | approve o sp amt lu =>
    obtain ⟨_, _, h⟩ := bind_eq_ok h
    obtain ⟨s0, h0, h2⟩ := bind_eq_ok h
    injection h2 with h2; subst h2
    obtain ⟨e1, -, -, -, -⟩ := setAllowance_ok h0
    simp [emit]; exact e1
  | advance n =>
    injection h with h; subst h; rfl

/-- the owner's `migrate` on an armed flag is accepted -/
theorem migrate_by_owner (s : Mig) (h : s.migrating = true) (d : Nat × Nat) :
    Mig.migrate s [s.owner] d s.owner = .ok (completeMigration (Mig.userMigrate s d)) := by
  simp [Mig.migrate, Mig.requireOwner, requireAuth, ensureCanCompleteMigration, canCompleteMigration, h,
    bind, Except.bind]
  rfl

end OZ.Gates
