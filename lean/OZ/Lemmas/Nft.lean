import OZ.Model.Nft
/-
Helper lemmas for the base NFT model: point updates, counting owned tokens over a
duplicate-free list, exact descriptions of successful `debit` / `credit` / `update`.
-/
namespace OZ.Nft
open OZ.Host

theorem bind_eq_ok {ε α β} {x : Except ε α} {f : α → Except ε β} {v : β}
    (h : (x >>= f) = .ok v) : ∃ a, x = .ok a ∧ f a = .ok v := by
  cases x with
  | error e => cases h
  | ok a => exact ⟨a, rfl, h⟩

theorem pure_eq_ok {ε α} {a b : α} (h : (pure a : Except ε α) = .ok b) : a = b := by
  injection h

theorem upd_same {β} (f : Nat → β) (a : Nat) (v : β) : upd f a v a = v := by simp [upd]
theorem upd_other {β} (f : Nat → β) (a x : Nat) (v : β) (h : x ≠ a) : upd f a v x = f x := by
  simp [upd, h]

theorem requireAuth_ok {auth : List Nat} {a : Nat} {u : Unit} (h : requireAuth auth a = .ok u) :
    a ∈ auth := by
  unfold requireAuth at h
  split at h
  · assumption
  · cases h

/-! ### counting -/

/-- number of tokens of `L` that `own` gives to `a` -/
def cnt (L : List Nat) (own : Nat → Option Nat) (a : Nat) : Nat :=
  (L.filter (fun t => decide (own t = some a))).length

theorem cnt_nil (own : Nat → Option Nat) (a : Nat) : cnt [] own a = 0 := rfl

theorem cnt_cons (x : Nat) (L : List Nat) (own : Nat → Option Nat) (a : Nat) :
    cnt (x :: L) own a = (if own x = some a then 1 else 0) + cnt L own a := by
  unfold cnt
  rw [List.filter_cons]
  by_cases h : own x = some a
  · simp [h]; omega
  · simp [h]

theorem cnt_upd_notin (L : List Nat) (own : Nat → Option Nat) (id : Nat) (v : Option Nat) (a : Nat)
    (h : id ∉ L) : cnt L (upd own id v) a = cnt L own a := by
  induction L with
  | nil => rfl
  | cons x xs ih =>
    have hx : x ≠ id := fun e => h (by simp [e])
    have hxs : id ∉ xs := fun e => h (by simp [e])
    rw [cnt_cons, cnt_cons, upd_other _ _ _ _ hx, ih hxs]

theorem cnt_upd_in (L : List Nat) (own : Nat → Option Nat) (id : Nat) (v : Option Nat) (a : Nat)
    (hn : L.Nodup) (h : id ∈ L) :
    cnt L (upd own id v) a + (if own id = some a then 1 else 0)
      = cnt L own a + (if v = some a then 1 else 0) := by
  induction L with
  | nil => cases h
  | cons x xs ih =>
    have hnx : x ∉ xs := (List.nodup_cons.mp hn).1
    have hnxs : xs.Nodup := (List.nodup_cons.mp hn).2
    rw [cnt_cons, cnt_cons]
    by_cases hx : x = id
    · subst hx
      rw [upd_same, cnt_upd_notin _ _ _ _ _ hnx]; omega
    · have hxs : id ∈ xs := by
        cases h with
        | head => exact absurd rfl hx
        | tail _ h' => exact h'
      rw [upd_other _ _ _ _ hx]
      have := ih hnxs hxs
      omega

theorem cnt_erase (L : List Nat) (own : Nat → Option Nat) (id : Nat) (a : Nat)
    (hn : L.Nodup) (h : id ∈ L) :
    cnt (L.erase id) own a + (if own id = some a then 1 else 0) = cnt L own a := by
  induction L with
  | nil => cases h
  | cons x xs ih =>
    have hnx : x ∉ xs := (List.nodup_cons.mp hn).1
    have hnxs : xs.Nodup := (List.nodup_cons.mp hn).2
    by_cases hx : x = id
    · subst hx
      rw [List.erase_cons_head, cnt_cons]; omega
    · have hxs : id ∈ xs := by
        cases h with
        | head => exact absurd rfl hx
        | tail _ h' => exact h'
      rw [List.erase_cons_tail (by simpa using hx), cnt_cons, cnt_cons]
      have := ih hnxs hxs
      omega

theorem cnt_congr (L : List Nat) (own own' : Nat → Option Nat) (a : Nat)
    (h : ∀ t, t ∈ L → own' t = own t) : cnt L own' a = cnt L own a := by
  induction L with
  | nil => rfl
  | cons x xs ih =>
    rw [cnt_cons, cnt_cons, h x (by simp), ih (fun t ht => h t (by simp [ht]))]

/-- the tokens of `L` owned by `a`, as a list -/
def ownedBy (L : List Nat) (own : Nat → Option Nat) (a : Nat) : List Nat :=
  L.filter (fun t => decide (own t = some a))

theorem ownedBy_length (L : List Nat) (own : Nat → Option Nat) (a : Nat) :
    (ownedBy L own a).length = cnt L own a := rfl

theorem ownedBy_nodup {L : List Nat} (hn : L.Nodup) (own : Nat → Option Nat) (a : Nat) :
    (ownedBy L own a).Nodup := hn.filter _

theorem mem_ownedBy {L : List Nat} {own : Nat → Option Nat} {a t : Nat} :
    t ∈ ownedBy L own a ↔ t ∈ L ∧ own t = some a := by
  simp [ownedBy, List.mem_filter]

/-! ### the shared helpers -/

theorem increaseBalance_ok {c c' : Core} {to n : Nat} (h : increaseBalance c to n = .ok c') :
    c' = { c with bal := upd c.bal to (c.bal to + n) } ∧ c.bal to + n ≤ U32_MAX := by
  unfold increaseBalance at h
  split at h
  · cases h
  · injection h with h; exact ⟨h.symm, by omega⟩

theorem decreaseBalance_ok {c c' : Core} {f n : Nat} (h : decreaseBalance c f n = .ok c') :
    c' = { c with bal := upd c.bal f (c.bal f - n) } ∧ n ≤ c.bal f := by
  unfold decreaseBalance at h
  split at h
  · cases h
  · injection h with h; exact ⟨h.symm, by omega⟩

theorem incrementTokenId_ok {c c' : Core} {n id : Nat} (h : incrementTokenId c n = .ok (c', id)) :
    c' = { c with nextId := c.nextId + n } ∧ id = c.nextId ∧ c.nextId + n ≤ U32_MAX := by
  unfold incrementTokenId at h
  split at h
  · cases h
  · injection h with h; injection h with h1 h2; exact ⟨h1.symm, h2.symm, by omega⟩

theorem ownerOf_ok {s : State} {id a : Nat} (h : ownerOf s id = .ok a) : s.owner id = some a := by
  unfold ownerOf at h
  split at h
  · injection h with h; subst h; assumption
  · cases h

theorem checkOwner_ok {o f : Nat} {u : Unit} (h : checkOwner o f = .ok u) : o = f := by
  unfold checkOwner at h
  split at h
  · cases h
  · rename_i hn; exact Classical.not_not.mp hn

/-- a successful `from` branch of `update`: `from` owned the token, its balance drops by one,
the token's approval is cleared, nothing else changes -/
theorem debit_some_ok {s s1 : State} {f id : Nat} (h : debit s (some f) id = .ok s1) :
    s.owner id = some f ∧ 1 ≤ s.bal f ∧
    s1 = { s with bal := upd s.bal f (s.bal f - 1), approval := upd s.approval id none } := by
  unfold debit at h
  simp only at h
  obtain ⟨o, ho, h⟩ := bind_eq_ok h
  obtain ⟨_, hc, h⟩ := bind_eq_ok h
  obtain ⟨c, hd, h⟩ := bind_eq_ok h
  have ho' := ownerOf_ok ho
  have hof := checkOwner_ok hc
  obtain ⟨hc', hle⟩ := decreaseBalance_ok hd
  have h := pure_eq_ok h
  rw [hof] at ho'
  refine ⟨ho', hle, ?_⟩
  rw [← h, hc']; rfl

theorem debit_none_ok {s s1 : State} {id : Nat} (h : debit s none id = .ok s1) : s1 = s := by
  unfold debit at h; injection h with h; exact h.symm

theorem credit_some_ok {s s1 : State} {t id : Nat} (h : credit s (some t) id = .ok s1) :
    s.bal t + 1 ≤ U32_MAX ∧
    s1 = { s with bal := upd s.bal t (s.bal t + 1), owner := upd s.owner id (some t) } := by
  unfold credit at h
  simp only at h
  obtain ⟨c, hi, h⟩ := bind_eq_ok h
  obtain ⟨hc, hle⟩ := increaseBalance_ok hi
  have h := pure_eq_ok h
  refine ⟨hle, ?_⟩
  rw [← h, hc]

theorem credit_none_ok {s s1 : State} {id : Nat} (h : credit s none id = .ok s1) :
    s1 = { s with owner := upd s.owner id none } := by
  unfold credit at h; injection h with h; exact h.symm

theorem update_ok {s s' : State} {frm to : Option Nat} {id : Nat} (h : update s frm to id = .ok s') :
    ∃ s1, debit s frm id = .ok s1 ∧ credit s1 to id = .ok s' := bind_eq_ok h

/-- exact effect of a successful transfer-shaped `update` on owner map and balances -/
theorem update_transfer_ok {s s' : State} {f t id : Nat} (h : update s (some f) (some t) id = .ok s') :
    s.owner id = some f ∧ 1 ≤ s.bal f ∧ s'.owner = upd s.owner id (some t) ∧
    s'.bal = upd (upd s.bal f (s.bal f - 1)) t (upd s.bal f (s.bal f - 1) t + 1) ∧
    s'.nextId = s.nextId ∧ s'.approval = upd s.approval id none ∧ s'.operator = s.operator ∧ s'.now = s.now := by
  obtain ⟨s1, hd, hc⟩ := update_ok h
  obtain ⟨hown, hge, hs1⟩ := debit_some_ok hd
  subst hs1
  obtain ⟨_, hs'⟩ := credit_some_ok hc
  subst hs'
  exact ⟨hown, hge, rfl, rfl, rfl, rfl, rfl, rfl⟩

theorem update_burn_ok {s s' : State} {f id : Nat} (h : update s (some f) none id = .ok s') :
    s.owner id = some f ∧ 1 ≤ s.bal f ∧ s'.owner = upd s.owner id none ∧
    s'.bal = upd s.bal f (s.bal f - 1) ∧
    s'.nextId = s.nextId ∧ s'.approval = upd s.approval id none ∧ s'.operator = s.operator ∧ s'.now = s.now := by
  obtain ⟨s1, hd, hc⟩ := update_ok h
  obtain ⟨hown, hge, hs1⟩ := debit_some_ok hd
  subst hs1
  have hs' := credit_none_ok hc
  subst hs'
  exact ⟨hown, hge, rfl, rfl, rfl, rfl, rfl, rfl⟩

theorem update_mint_ok {s s' : State} {t id : Nat} (h : update s none (some t) id = .ok s') :
    s'.owner = upd s.owner id (some t) ∧ s'.bal = upd s.bal t (s.bal t + 1) ∧
    s'.nextId = s.nextId ∧ s'.approval = s.approval ∧ s'.operator = s.operator ∧ s'.now = s.now := by
  obtain ⟨s1, hd, hc⟩ := update_ok h
  have e1 := debit_none_ok hd
  rw [e1] at hc
  obtain ⟨_, hs'⟩ := credit_some_ok hc
  subst hs'
  exact ⟨rfl, rfl, rfl, rfl, rfl, rfl⟩

theorem sequentialMint_ok {s s' : State} {to id : Nat} (h : sequentialMint s to = .ok (s', id)) :
    id = s.nextId ∧ s.nextId + 1 ≤ U32_MAX ∧
    update { s with nextId := s.nextId + 1 } none (some to) id = .ok s' := by
  unfold sequentialMint at h
  obtain ⟨⟨c, i⟩, h1, h⟩ := bind_eq_ok h
  obtain ⟨s2, h2, h⟩ := bind_eq_ok h
  have h := pure_eq_ok h
  injection h with ha hb
  subst ha; subst hb
  obtain ⟨hc, hi, hle⟩ := incrementTokenId_ok h1
  subst hc
  exact ⟨hi, hle, h2⟩

/-- the fresh-id hypothesis under which minting is specified: the id being minted (explicitly,
or the next sequential one) has no owner at that time -/
def FreshOp (s : State) : Op → Prop
  | .mint _ id => s.owner id = none
  | .mintSeq _ => s.owner s.nextId = none
  | _ => True

instance (s : State) (op : Op) : Decidable (FreshOp s op) := by
  cases op <;> unfold FreshOp <;> infer_instance

/-- the account an operation takes a token from, and the token -/
def Op.moves : Op → Option (Nat × Nat)
  | .transfer f _ id => some (f, id)
  | .transferFrom _ f _ id => some (f, id)
  | .burn f id => some (f, id)
  | .burnFrom _ f id => some (f, id)
  | _ => none

/-- the plain ownership map after a successful operation on the base / enumerable flavour
(`ret` = the id a sequential mint returned) -/
def specStep (own : Nat → Option Nat) (op : Op) (ret : Option Nat) : Nat → Option Nat :=
  match op, ret with
  | .mintSeq to, some id => upd own id (some to)
  | .mint to id, _ => upd own id (some to)
  | .transfer _ t id, _ => upd own id (some t)
  | .transferFrom _ _ t id, _ => upd own id (some t)
  | .burn _ id, _ => upd own id none
  | .burnFrom _ _ id, _ => upd own id none
  | _, _ => own

/-! ### the invariant: balances count owned tokens -/

/-- `L` lists the existing tokens exactly once and every balance is the number of tokens
the owner map gives to that account -/
structure Inv (L : List Nat) (s : State) : Prop where
  nodup : L.Nodup
  mem : ∀ t, t ∈ L ↔ (s.owner t).isSome
  bal : ∀ a, s.bal a = cnt L s.owner a

theorem init_inv (now : Nat) : Inv [] (init now) :=
  ⟨List.nodup_nil, by intro t; simp [init], by intro a; rfl⟩

/-- mint of a token that has no owner -/
theorem mint_inv {L : List Nat} {s s' : State} {to id : Nat} (hi : Inv L s)
    (hfresh : s.owner id = none) (h : update s none (some to) id = .ok s') :
    Inv (id :: L) s' ∧ s'.owner = upd s.owner id (some to) := by
  obtain ⟨s1, hd, hc⟩ := update_ok h
  have e1 := debit_none_ok hd
  rw [e1] at hc
  obtain ⟨_, hs'⟩ := credit_some_ok hc
  subst hs'
  have hnot : id ∉ L := by
    intro hm; have := (hi.mem id).mp hm; rw [hfresh] at this; cases this
  refine ⟨⟨List.nodup_cons.mpr ⟨hnot, hi.nodup⟩, ?_, ?_⟩, rfl⟩
  · intro t
    by_cases ht : t = id
    · subst ht; simp [upd_same]
    · simp only [List.mem_cons, ht, false_or]
      show t ∈ L ↔ (upd s.owner id (some to) t).isSome
      rw [upd_other _ _ _ _ ht]; exact hi.mem t
  · intro a
    show upd s.bal to (s.bal to + 1) a = cnt (id :: L) (upd s.owner id (some to)) a
    rw [cnt_cons, upd_same, cnt_upd_notin _ _ _ _ _ hnot]
    by_cases ha : a = to
    · subst ha; rw [upd_same, hi.bal a]; simp; omega
    · rw [upd_other _ _ _ _ ha, hi.bal a]
      have : ¬ (some to = some a) := by intro e; injection e with e; exact ha e.symm
      simp [this]

/-- transfer (also to oneself) -/
theorem transfer_inv {L : List Nat} {s s' : State} {f to id : Nat} (hi : Inv L s)
    (h : update s (some f) (some to) id = .ok s') :
    Inv L s' ∧ s.owner id = some f ∧ s'.owner = upd s.owner id (some to) := by
  obtain ⟨s1, hd, hc⟩ := update_ok h
  obtain ⟨hown, hge, hs1⟩ := debit_some_ok hd
  subst hs1
  obtain ⟨_, hs'⟩ := credit_some_ok hc
  subst hs'
  have hin : id ∈ L := (hi.mem id).mpr (by rw [hown]; rfl)
  refine ⟨⟨hi.nodup, ?_, ?_⟩, hown, rfl⟩
  · intro t
    show t ∈ L ↔ (upd s.owner id (some to) t).isSome
    by_cases ht : t = id
    · subst ht; rw [upd_same]; simp [hin]
    · rw [upd_other _ _ _ _ ht]; exact hi.mem t
  · intro a
    show upd (upd s.bal f (s.bal f - 1)) to (upd s.bal f (s.bal f - 1) to + 1) a
        = cnt L (upd s.owner id (some to)) a
    have hc := cnt_upd_in L s.owner id (some to) a hi.nodup hin
    have hbf := hi.bal f
    have hba := hi.bal a
    rw [hown] at hc
    by_cases hat : a = to
    · subst hat
      rw [upd_same]
      by_cases haf : a = f
      · subst haf; rw [upd_same]; simp at hc; omega
      · rw [upd_other _ _ _ _ haf]
        have : ¬ (some f = some a) := by intro e; injection e with e; exact haf e.symm
        simp [this] at hc; omega
    · rw [upd_other _ _ _ _ hat]
      have hne : ¬ (some to = some a) := by intro e; injection e with e; exact hat e.symm
      by_cases haf : a = f
      · subst haf; rw [upd_same]; simp [hne] at hc; omega
      · rw [upd_other _ _ _ _ haf]
        have : ¬ (some f = some a) := by intro e; injection e with e; exact haf e.symm
        simp [this, hne] at hc; omega

/-- burn -/
theorem burn_inv {L : List Nat} {s s' : State} {f id : Nat} (hi : Inv L s)
    (h : update s (some f) none id = .ok s') :
    Inv (L.erase id) s' ∧ s.owner id = some f ∧ s'.owner = upd s.owner id none := by
  obtain ⟨s1, hd, hc⟩ := update_ok h
  obtain ⟨hown, hge, hs1⟩ := debit_some_ok hd
  subst hs1
  have hs' := credit_none_ok hc
  subst hs'
  have hin : id ∈ L := (hi.mem id).mpr (by rw [hown]; rfl)
  refine ⟨⟨hi.nodup.erase id, ?_, ?_⟩, hown, rfl⟩
  · intro t
    show t ∈ L.erase id ↔ (upd s.owner id none t).isSome
    by_cases ht : t = id
    · subst ht; rw [upd_same]
      simp [hi.nodup.mem_erase_iff]
    · rw [upd_other _ _ _ _ ht, hi.nodup.mem_erase_iff]
      simp [ht, hi.mem t]
  · intro a
    show upd s.bal f (s.bal f - 1) a = cnt (L.erase id) (upd s.owner id none) a
    have hnot : id ∉ L.erase id := by simp [hi.nodup.mem_erase_iff]
    rw [cnt_upd_notin _ _ _ _ _ hnot]
    have hc := cnt_erase L s.owner id a hi.nodup hin
    have hba := hi.bal a
    rw [hown] at hc
    by_cases haf : a = f
    · subst haf; rw [upd_same]; simp at hc; omega
    · rw [upd_other _ _ _ _ haf]
      have : ¬ (some f = some a) := by intro e; injection e with e; exact haf e.symm
      simp [this] at hc; omega

theorem approveForOwner_fields {cfg : Cfg} {c c' : Core} {o ap a id lu : Nat}
    (h : approveForOwner cfg c o ap a id lu = .ok c') : c'.bal = c.bal ∧ c'.nextId = c.nextId := by
  unfold approveForOwner at h
  split at h
  · cases h
  · split at h
    · injection h with h; subst h; exact ⟨rfl, rfl⟩
    · split at h
      · cases h
      · unfold storeApproval at h
        split at h
        · cases h
        · injection h with h; subst h; exact ⟨rfl, rfl⟩

theorem approveForAll_fields {cfg : Cfg} {c c' : Core} {auth : List Nat} {o p lu : Nat}
    (h : approveForAll cfg c auth o p lu = .ok c') :
    c'.bal = c.bal ∧ c'.nextId = c.nextId ∧ c'.approval = c.approval ∧ c'.now = c.now := by
  unfold approveForAll at h
  obtain ⟨_, _, h⟩ := bind_eq_ok h
  split at h
  · have h := pure_eq_ok h; subst h; exact ⟨rfl, rfl, rfl, rfl⟩
  · split at h
    · cases h
    · unfold storeOperator at h
      split at h
      · cases h
      · injection h with h; subst h; exact ⟨rfl, rfl, rfl, rfl⟩

/-- the list of existing tokens after a successful operation -/
def listStep (L : List Nat) (op : Op) (ret : Option Nat) : List Nat :=
  match op, ret with
  | .mintSeq _, some id => id :: L
  | .mint _ id, _ => id :: L
  | .burn _ id, _ => L.erase id
  | .burnFrom _ _ id, _ => L.erase id
  | _, _ => L

/-- one successful invocation on the base flavour, under the fresh-id hypothesis: the owner
map follows the plain rule, a transfer / burn names the owner, a sequential mint returns the
counter and advances it, balances keep counting owned tokens -/
theorem apply_inv (cfg : Cfg) {L : List Nat} {s s' : State} {auth : List Nat} {op : Op} {r : Option Nat}
    (hi : Inv L s) (hf : FreshOp s op) (h : apply cfg s auth op = .ok (s', r)) :
    Inv (listStep L op r) s' ∧ s'.owner = specStep s.owner op r ∧
    (∀ f id, op.moves = some (f, id) → s.owner id = some f) ∧
    (∀ to, op = .mintSeq to → r = some s.nextId ∧ s'.nextId = s.nextId + 1) ∧
    ((∀ to, op ≠ .mintSeq to) → s'.nextId = s.nextId) := by
  cases op with
  | mintSeq to =>
    obtain ⟨⟨s2, id⟩, h1, h⟩ := bind_eq_ok h
    have h := pure_eq_ok h
    injection h with ha hb; subst ha; subst hb
    obtain ⟨hid, _, hu⟩ := sequentialMint_ok h1
    subst hid
    obtain ⟨hinv, hown⟩ := mint_inv (L := L) (s := { s with nextId := s.nextId + 1 })
      ⟨hi.nodup, hi.mem, hi.bal⟩ hf hu
    obtain ⟨_, _, hnx, _⟩ := update_mint_ok hu
    refine ⟨hinv, hown, ?_, ?_, ?_⟩
    · intro f id hm; cases hm
    · intro to' _; exact ⟨rfl, hnx⟩
    · intro hne; exact absurd rfl (hne to)
  | mint to id =>
    obtain ⟨s2, h1, h⟩ := bind_eq_ok h
    have h := pure_eq_ok h
    injection h with ha hb; subst ha; subst hb
    obtain ⟨hinv, hown⟩ := mint_inv hi hf h1
    obtain ⟨_, _, hnx, _⟩ := update_mint_ok h1
    refine ⟨hinv, hown, ?_, ?_, fun _ => hnx⟩
    · intro f id hm; cases hm
    · intro to' e; cases e
  | batchMint to n => cases h
  | transfer f t id =>
    obtain ⟨s2, h1, h⟩ := bind_eq_ok h
    have h := pure_eq_ok h
    injection h with ha hb; subst ha; subst hb
    obtain ⟨_, _, hu⟩ := bind_eq_ok h1
    obtain ⟨hinv, hs, hown⟩ := transfer_inv hi hu
    obtain ⟨_, _, _, _, hnx, _⟩ := update_transfer_ok hu
    refine ⟨hinv, hown, ?_, ?_, fun _ => hnx⟩
    · intro f' id' hm; injection hm with hm; injection hm with e1 e2; subst e1; subst e2; exact hs
    · intro to' e; cases e
  | transferFrom sp f t id =>
    obtain ⟨s2, h1, h⟩ := bind_eq_ok h
    have h := pure_eq_ok h
    injection h with ha hb; subst ha; subst hb
    obtain ⟨_, _, h1⟩ := bind_eq_ok h1
    obtain ⟨_, _, hu⟩ := bind_eq_ok h1
    obtain ⟨hinv, hs, hown⟩ := transfer_inv hi hu
    obtain ⟨_, _, _, _, hnx, _⟩ := update_transfer_ok hu
    refine ⟨hinv, hown, ?_, ?_, fun _ => hnx⟩
    · intro f' id' hm; injection hm with hm; injection hm with e1 e2; subst e1; subst e2; exact hs
    · intro to' e; cases e
  | approve ap a id lu =>
    obtain ⟨s2, h1, h⟩ := bind_eq_ok h
    have h := pure_eq_ok h
    injection h with ha hb; subst ha; subst hb
    unfold approve at h1
    obtain ⟨_, _, h1⟩ := bind_eq_ok h1
    obtain ⟨o, _, h1⟩ := bind_eq_ok h1
    obtain ⟨c, hc, h1⟩ := bind_eq_ok h1
    have h1 := pure_eq_ok h1
    obtain ⟨hb, hn⟩ := approveForOwner_fields hc
    subst h1
    refine ⟨⟨hi.nodup, hi.mem, ?_⟩, rfl, ?_, ?_, fun _ => hn⟩
    · intro a'; show c.bal a' = _; rw [hb]; exact hi.bal a'
    · intro f' id' hm; cases hm
    · intro to' e; cases e
  | approveForAll o p lu =>
    obtain ⟨c, hc, h⟩ := bind_eq_ok h
    have h := pure_eq_ok h
    injection h with ha hb; subst ha; subst hb
    obtain ⟨hb, hn, _⟩ := approveForAll_fields hc
    refine ⟨⟨hi.nodup, hi.mem, ?_⟩, rfl, ?_, ?_, fun _ => hn⟩
    · intro a'; show c.bal a' = _; rw [hb]; exact hi.bal a'
    · intro f' id' hm; cases hm
    · intro to' e; cases e
  | burn f id =>
    obtain ⟨s2, h1, h⟩ := bind_eq_ok h
    have h := pure_eq_ok h
    injection h with ha hb; subst ha; subst hb
    obtain ⟨_, _, hu⟩ := bind_eq_ok h1
    obtain ⟨hinv, hs, hown⟩ := burn_inv hi hu
    obtain ⟨_, _, _, _, hnx, _⟩ := update_burn_ok hu
    refine ⟨hinv, hown, ?_, ?_, fun _ => hnx⟩
    · intro f' id' hm; injection hm with hm; injection hm with e1 e2; subst e1; subst e2; exact hs
    · intro to' e; cases e
  | burnFrom sp f id =>
    obtain ⟨s2, h1, h⟩ := bind_eq_ok h
    have h := pure_eq_ok h
    injection h with ha hb; subst ha; subst hb
    obtain ⟨_, _, h1⟩ := bind_eq_ok h1
    obtain ⟨_, _, hu⟩ := bind_eq_ok h1
    obtain ⟨hinv, hs, hown⟩ := burn_inv hi hu
    obtain ⟨_, _, _, _, hnx, _⟩ := update_burn_ok hu
    refine ⟨hinv, hown, ?_, ?_, fun _ => hnx⟩
    · intro f' id' hm; injection hm with hm; injection hm with e1 e2; subst e1; subst e2; exact hs
    · intro to' e; cases e
  | advance n =>
    injection h with h
    injection h with ha hb; subst ha; subst hb
    refine ⟨⟨hi.nodup, hi.mem, hi.bal⟩, rfl, ?_, ?_, fun _ => rfl⟩
    · intro f' id' hm; cases hm
    · intro to' e; cases e

/-- the same facts about the owner map and the counter without any invariant -/
theorem apply_owner (cfg : Cfg) {s s' : State} {auth : List Nat} {op : Op} {r : Option Nat}
    (h : apply cfg s auth op = .ok (s', r)) :
    s'.owner = specStep s.owner op r ∧
    (∀ f id, op.moves = some (f, id) → s.owner id = some f) ∧
    (∀ to, op = .mintSeq to → r = some s.nextId ∧ s'.nextId = s.nextId + 1) ∧
    ((∀ to, op ≠ .mintSeq to) → s'.nextId = s.nextId) := by
  cases op with
  | mintSeq to =>
    obtain ⟨⟨s2, id⟩, h1, h⟩ := bind_eq_ok h
    have h := pure_eq_ok h
    injection h with ha hb; subst ha; subst hb
    obtain ⟨hid, _, hu⟩ := sequentialMint_ok h1
    subst hid
    obtain ⟨hown, _, hnx, _⟩ := update_mint_ok hu
    refine ⟨hown, ?_, ?_, ?_⟩
    · intro f id hm; cases hm
    · intro to' _; exact ⟨rfl, hnx⟩
    · intro hne; exact absurd rfl (hne to)
  | mint to id =>
    obtain ⟨s2, h1, h⟩ := bind_eq_ok h
    have h := pure_eq_ok h
    injection h with ha hb; subst ha; subst hb
    obtain ⟨hown, _, hnx, _⟩ := update_mint_ok h1
    refine ⟨hown, ?_, ?_, fun _ => hnx⟩
    · intro f id hm; cases hm
    · intro to' e; cases e
  | batchMint to n => cases h
  | transfer f t id =>
    obtain ⟨s2, h1, h⟩ := bind_eq_ok h
    have h := pure_eq_ok h
    injection h with ha hb; subst ha; subst hb
    obtain ⟨_, _, hu⟩ := bind_eq_ok h1
    obtain ⟨hs, _, hown, _, hnx, _⟩ := update_transfer_ok hu
    refine ⟨hown, ?_, ?_, fun _ => hnx⟩
    · intro f' id' hm; injection hm with hm; injection hm with e1 e2; subst e1; subst e2; exact hs
    · intro to' e; cases e
  | transferFrom sp f t id =>
    obtain ⟨s2, h1, h⟩ := bind_eq_ok h
    have h := pure_eq_ok h
    injection h with ha hb; subst ha; subst hb
    obtain ⟨_, _, h1⟩ := bind_eq_ok h1
    obtain ⟨_, _, hu⟩ := bind_eq_ok h1
    obtain ⟨hs, _, hown, _, hnx, _⟩ := update_transfer_ok hu
    refine ⟨hown, ?_, ?_, fun _ => hnx⟩
    · intro f' id' hm; injection hm with hm; injection hm with e1 e2; subst e1; subst e2; exact hs
    · intro to' e; cases e
  | approve ap a id lu =>
    obtain ⟨s2, h1, h⟩ := bind_eq_ok h
    have h := pure_eq_ok h
    injection h with ha hb; subst ha; subst hb
    unfold approve at h1
    obtain ⟨_, _, h1⟩ := bind_eq_ok h1
    obtain ⟨o, _, h1⟩ := bind_eq_ok h1
    obtain ⟨c, hc, h1⟩ := bind_eq_ok h1
    have h1 := pure_eq_ok h1
    obtain ⟨hb, hn⟩ := approveForOwner_fields hc
    subst h1
    refine ⟨rfl, ?_, ?_, fun _ => hn⟩
    · intro f' id' hm; cases hm
    · intro to' e; cases e
  | approveForAll o p lu =>
    obtain ⟨c, hc, h⟩ := bind_eq_ok h
    have h := pure_eq_ok h
    injection h with ha hb; subst ha; subst hb
    obtain ⟨hb, hn, _⟩ := approveForAll_fields hc
    refine ⟨rfl, ?_, ?_, fun _ => hn⟩
    · intro f' id' hm; cases hm
    · intro to' e; cases e
  | burn f id =>
    obtain ⟨s2, h1, h⟩ := bind_eq_ok h
    have h := pure_eq_ok h
    injection h with ha hb; subst ha; subst hb
    obtain ⟨_, _, hu⟩ := bind_eq_ok h1
    obtain ⟨hs, _, hown, _, hnx, _⟩ := update_burn_ok hu
    refine ⟨hown, ?_, ?_, fun _ => hnx⟩
    · intro f' id' hm; injection hm with hm; injection hm with e1 e2; subst e1; subst e2; exact hs
    · intro to' e; cases e
  | burnFrom sp f id =>
    obtain ⟨s2, h1, h⟩ := bind_eq_ok h
    have h := pure_eq_ok h
    injection h with ha hb; subst ha; subst hb
    obtain ⟨_, _, h1⟩ := bind_eq_ok h1
    obtain ⟨_, _, hu⟩ := bind_eq_ok h1
    obtain ⟨hs, _, hown, _, hnx, _⟩ := update_burn_ok hu
    refine ⟨hown, ?_, ?_, fun _ => hnx⟩
    · intro f' id' hm; injection hm with hm; injection hm with e1 e2; subst e1; subst e2; exact hs
    · intro to' e; cases e
  | advance n =>
    injection h with h
    injection h with ha hb; subst ha; subst hb
    refine ⟨rfl, ?_, ?_, fun _ => rfl⟩
    · intro f' id' hm; cases hm
    · intro to' e; cases e

/-- nothing at or above the sequential counter is owned (true as long as ids are only
issued by the counter) -/
def NoneAbove (s : State) : Prop := ∀ id, s.nextId ≤ id → s.owner id = none

def Op.isExplicitMint : Op → Bool
  | .mint _ _ => true
  | _ => false

theorem freshOp_of_noneAbove {s : State} {op : Op} (hn : NoneAbove s) (he : op.isExplicitMint = false) :
    FreshOp s op := by
  cases op with
  | mint to id => cases he
  | mintSeq to => exact hn _ (Nat.le_refl _)
  | _ => trivial

theorem apply_noneAbove (cfg : Cfg) {s s' : State} {auth : List Nat} {op : Op} {r : Option Nat}
    (hn : NoneAbove s) (he : op.isExplicitMint = false) (h : apply cfg s auth op = .ok (s', r)) :
    NoneAbove s' := by
  obtain ⟨hown, _, hseq, hother⟩ := apply_owner cfg h
  intro id hid
  rw [hown]
  cases op with
  | mint to id => cases he
  | mintSeq to =>
    obtain ⟨hr, hnx⟩ := hseq to rfl
    subst hr
    show upd s.owner s.nextId (some to) id = none
    rw [upd_other _ _ _ _ (by omega)]; exact hn id (by omega)
  | batchMint to n => cases h
  | transfer f t id' =>
    have hnx := hother (fun _ e => by cases e)
    obtain ⟨hs, _⟩ := apply_owner cfg h
    have hf := (apply_owner cfg h).2.1 f id' rfl
    have : id ≠ id' := by
      intro e; subst e; rw [hn id (by omega)] at hf; cases hf
    show upd s.owner id' (some t) id = none
    rw [upd_other _ _ _ _ this]; exact hn id (by omega)
  | transferFrom sp f t id' =>
    have hnx := hother (fun _ e => by cases e)
    have hf := (apply_owner cfg h).2.1 f id' rfl
    have : id ≠ id' := by
      intro e; subst e; rw [hn id (by omega)] at hf; cases hf
    show upd s.owner id' (some t) id = none
    rw [upd_other _ _ _ _ this]; exact hn id (by omega)
  | burn f id' =>
    have hnx := hother (fun _ e => by cases e)
    show upd s.owner id' none id = none
    by_cases e : id = id'
    · subst e; exact upd_same _ _ _
    · rw [upd_other _ _ _ _ e]; exact hn id (by omega)
  | burnFrom sp f id' =>
    have hnx := hother (fun _ e => by cases e)
    show upd s.owner id' none id = none
    by_cases e : id = id'
    · subst e; exact upd_same _ _ _
    · rw [upd_other _ _ _ _ e]; exact hn id (by omega)
  | approve ap a id' lu =>
    have hnx := hother (fun _ e => by cases e)
    exact hn id (by omega)
  | approveForAll o p lu =>
    have hnx := hother (fun _ e => by cases e)
    exact hn id (by omega)
  | advance n =>
    have hnx := hother (fun _ e => by cases e)
    exact hn id (by omega)

end OZ.Nft
