import OZ.Lemmas.Nft
import OZ.Model.NftConsecutive
/-
Helper lemmas for the consecutive NFT model at the SET level: the scan `findFrom`, the
invariant `CI` relating sparse owner marks / ownership bits / burned set to a plain ownership
map, and its preservation by the four primitive state changes of the contract
(batch mint, marking the previous token, marking the transferred token, burning).
-/
namespace OZ.NftCons
open OZ.Host OZ.Nft

/-! ### the scan -/

theorem findUp_some {bit : Nat → Bool} : ∀ (fuel i j : Nat), findUp bit fuel i = some j ↔
    (i ≤ j ∧ j < i + fuel ∧ bit j = true ∧ ∀ k, i ≤ k → k < j → bit k = false)
  | 0, i, j => by
    unfold findUp
    constructor
    · intro h; cases h
    · rintro ⟨h1, h2, _, _⟩; omega
  | fuel + 1, i, j => by
    unfold findUp
    by_cases hb : bit i = true
    · rw [if_pos hb]
      constructor
      · intro h; injection h with h; subst h
        exact ⟨Nat.le_refl _, by omega, hb, by intro k h1 h2; omega⟩
      · rintro ⟨h1, h2, h3, h4⟩
        by_cases e : i = j
        · subst e; rfl
        · have := h4 i (Nat.le_refl _) (by omega); rw [hb] at this; cases this
    · rw [if_neg hb, findUp_some fuel (i + 1) j]
      constructor
      · rintro ⟨h1, h2, h3, h4⟩
        refine ⟨by omega, by omega, h3, ?_⟩
        intro k hk1 hk2
        by_cases e : k = i
        · subst e; simpa using hb
        · exact h4 k (by omega) hk2
      · rintro ⟨h1, h2, h3, h4⟩
        have : i ≠ j := by intro e; subst e; exact hb h3
        exact ⟨by omega, by omega, h3, fun k hk1 hk2 => h4 k (by omega) hk2⟩

theorem findUp_none {bit : Nat → Bool} : ∀ (fuel i : Nat), findUp bit fuel i = none ↔
    (∀ k, i ≤ k → k < i + fuel → bit k = false)
  | 0, i => by
    unfold findUp
    constructor
    · intro _ k h1 h2; omega
    · intro _; rfl
  | fuel + 1, i => by
    unfold findUp
    by_cases hb : bit i = true
    · rw [if_pos hb]
      constructor
      · intro h; cases h
      · intro h; have := h i (Nat.le_refl _) (by omega); rw [hb] at this; cases this
    · rw [if_neg hb, findUp_none fuel (i + 1)]
      constructor
      · intro h k hk1 hk2
        by_cases e : k = i
        · subst e; simpa using hb
        · exact h k (by omega) (by omega)
      · intro h k hk1 hk2; exact h k (by omega) (by omega)

/-- `findFrom bit a b = some j` iff `j` is the least set position in `[a, b)` -/
theorem findFrom_some {bit : Nat → Bool} {a b j : Nat} : findFrom bit a b = some j ↔
    (a ≤ j ∧ j < b ∧ bit j = true ∧ ∀ k, a ≤ k → k < j → bit k = false) := by
  unfold findFrom
  rw [findUp_some]
  constructor
  · rintro ⟨h1, h2, h3, h4⟩; exact ⟨h1, by omega, h3, h4⟩
  · rintro ⟨h1, h2, h3, h4⟩; exact ⟨h1, by omega, h3, h4⟩

theorem findFrom_none {bit : Nat → Bool} {a b : Nat} : findFrom bit a b = none ↔
    (∀ k, a ≤ k → k < b → bit k = false) := by
  unfold findFrom
  rw [findUp_none]
  constructor
  · intro h k h1 h2; exact h k h1 (by omega)
  · intro h k h1 h2; exact h k h1 (by omega)

/-- two bit maps that agree on `[a, j]` give the same scan result `j` -/
theorem findFrom_congr {bit bit' : Nat → Bool} {a b b' j : Nat} (h : findFrom bit a b = some j)
    (hb : j < b') (hag : ∀ k, a ≤ k → k ≤ j → bit' k = bit k) : findFrom bit' a b' = some j := by
  obtain ⟨h1, h2, h3, h4⟩ := findFrom_some.mp h
  refine findFrom_some.mpr ⟨h1, hb, by rw [hag j h1 (Nat.le_refl _)]; exact h3, ?_⟩
  intro k hk1 hk2; rw [hag k hk1 (by omega)]; exact h4 k hk1 hk2

/-! ### the invariant -/

/-- `spec` is the plain ownership map; `nextId`, `mark`, `bits`, `burned` the contract's
representation of it -/
structure CI (nextId : Nat) (mark : Nat → Option Nat) (bits burned : Nat → Bool)
    (spec : Nat → Option Nat) : Prop where
  live : ∀ id, id < nextId → burned id = false → (spec id).isSome = true
  above : ∀ id, nextId ≤ id → spec id = none
  dead : ∀ id, burned id = true → spec id = none
  scan : ∀ id a, spec id = some a → ∃ j, findFrom bits id nextId = some j ∧ mark j = some a
  bitLt : ∀ i, bits i = true → i < nextId
  markBit : ∀ i a, mark i = some a → bits i = true
  burnedLt : ∀ i, burned i = true → i < nextId
  prevOfBurned : ∀ i, burned i = true → 0 < i → (mark (i - 1)).isSome = true ∨ burned (i - 1) = true

theorem CI_init : CI 0 (fun _ => none) (fun _ => false) (fun _ => false) (fun _ => none) := by
  refine ⟨?_, ?_, ?_, ?_, ?_, ?_, ?_, ?_⟩
  · intro id h; omega
  · intro _ _; rfl
  · intro _ _; rfl
  · intro id a h; cases h
  · intro i h; cases h
  · intro i a h; cases h
  · intro i h; cases h
  · intro i h; cases h

section
variable {nextId : Nat} {mark : Nat → Option Nat} {bits burned : Nat → Bool} {spec : Nat → Option Nat}

/-- a set bit on a live token carries that token's owner -/
theorem CI.mark_of_bit (h : CI nextId mark bits burned spec) {i a : Nat} (hs : spec i = some a)
    (hb : bits i = true) : mark i = some a := by
  obtain ⟨j, hj, hm⟩ := h.scan i a hs
  obtain ⟨h1, h2, h3, h4⟩ := findFrom_some.mp hj
  by_cases e : j = i
  · subst e; exact hm
  · have := h4 i (Nat.le_refl _) (by omega); rw [hb] at this; cases this

theorem CI.spec_lt (h : CI nextId mark bits burned spec) {i a : Nat} (hs : spec i = some a) :
    i < nextId ∧ burned i = false := by
  constructor
  · apply Classical.byContradiction; intro hn
    rw [h.above i (by omega)] at hs; cases hs
  · cases hb : burned i
    · rfl
    · rw [h.dead i hb] at hs; cases hs

/-- below a marked-or-burned token there is a set bit before any live token is passed -/
theorem CI.no_burned_gap (h : CI nextId mark bits burned spec) {id' : Nat} (hlive : burned id' = false) :
    ∀ m, id' ≤ m → ((mark m).isSome = true ∨ burned m = true) →
      (∀ k, id' ≤ k → k ≤ m → bits k = false) → False := by
  intro m
  induction m with
  | zero =>
    intro hle hm hb
    have : id' = 0 := by omega
    subst this
    rcases hm with hm | hm
    · obtain ⟨a, ha⟩ := Option.isSome_iff_exists.mp hm
      have := h.markBit 0 a ha
      rw [hb 0 (Nat.le_refl _) (Nat.le_refl _)] at this; cases this
    · rw [hlive] at hm; cases hm
  | succ m ih =>
    intro hle hm hb
    rcases hm with hm | hm
    · obtain ⟨a, ha⟩ := Option.isSome_iff_exists.mp hm
      have := h.markBit (m + 1) a ha
      rw [hb (m + 1) hle (Nat.le_refl _)] at this; cases this
    · by_cases e : id' = m + 1
      · subst e; rw [hlive] at hm; cases hm
      · have hp := h.prevOfBurned (m + 1) hm (by omega)
        simp only [Nat.add_sub_cancel] at hp
        exact ih (by omega) hp (fun k h1 h2 => hb k h1 (by omega))

/-- if the token before `id` is marked or burned, every live token below `id` finds its set
bit strictly below `id` -/
theorem CI.scan_below (h : CI nextId mark bits burned spec) {id id' a j : Nat}
    (hprev : id = 0 ∨ (mark (id - 1)).isSome = true ∨ burned (id - 1) = true)
    (hlt : id' < id) (hs : spec id' = some a) (hj : findFrom bits id' nextId = some j) : j < id := by
  apply Classical.byContradiction; intro hn
  obtain ⟨h1, h2, h3, h4⟩ := findFrom_some.mp hj
  have hl := (h.spec_lt hs).2
  rcases hprev with h0 | hp
  · omega
  · exact h.no_burned_gap hl (id - 1) (by omega) hp (fun k hk1 hk2 => h4 k hk1 (by omega))

/-- (M) batch mint of `n ≥ 1` tokens to `to` -/
theorem CI.batch (h : CI nextId mark bits burned spec) {n to : Nat} (hn : 1 ≤ n) :
    CI (nextId + n) (upd mark (nextId + n - 1) (some to)) (upd bits (nextId + n - 1) true) burned
      (fun id => if nextId ≤ id ∧ id < nextId + n then some to else spec id) := by
  refine ⟨?_, ?_, ?_, ?_, ?_, ?_, ?_, ?_⟩
  · intro id hlt hb
    by_cases hr : nextId ≤ id ∧ id < nextId + n
    · rw [if_pos hr]; rfl
    · rw [if_neg hr]; exact h.live id (by omega) hb
  · intro id hge
    rw [if_neg (by omega)]; exact h.above id (by omega)
  · intro id hb
    have := h.burnedLt id hb
    rw [if_neg (by omega)]; exact h.dead id hb
  · intro id a hs
    by_cases hr : nextId ≤ id ∧ id < nextId + n
    · rw [if_pos hr] at hs; injection hs with hs; subst hs
      refine ⟨nextId + n - 1, findFrom_some.mpr ⟨by omega, by omega, upd_same _ _ _, ?_⟩, upd_same _ _ _⟩
      intro k hk1 hk2
      rw [upd_other _ _ _ _ (by omega)]
      cases hb : bits k
      · rfl
      · have := h.bitLt k hb; omega
    · rw [if_neg hr] at hs
      obtain ⟨j, hj, hm⟩ := h.scan id a hs
      have hjlt := (findFrom_some.mp hj).2.1
      refine ⟨j, findFrom_congr hj (by omega) ?_, ?_⟩
      · intro k _ hk; rw [upd_other _ _ _ _ (by omega)]
      · rw [upd_other _ _ _ _ (by omega)]; exact hm
  · intro i hb
    by_cases e : i = nextId + n - 1
    · omega
    · rw [upd_other _ _ _ _ e] at hb; have := h.bitLt i hb; omega
  · intro i a hm
    by_cases e : i = nextId + n - 1
    · subst e; exact upd_same _ _ _
    · rw [upd_other _ _ _ _ e] at hm; rw [upd_other _ _ _ _ e]; exact h.markBit i a hm
  · intro i hb; have := h.burnedLt i hb; omega
  · intro i hb hi
    rcases h.prevOfBurned i hb hi with hp | hp
    · left
      by_cases e : i - 1 = nextId + n - 1
      · rw [e, upd_same]; rfl
      · rw [upd_other _ _ _ _ e]; exact hp
    · right; exact hp

/-- (P) `set_owner_for_previous_token`: the token before `id` gets the mark of `id`'s owner -/
theorem CI.prev (h : CI nextId mark bits burned spec) {id f : Nat} (hid : 0 < id) (hlt : id < nextId)
    (hs : spec id = some f) (hm : mark (id - 1) = none) (hb : burned (id - 1) = false) :
    CI nextId (upd mark (id - 1) (some f)) (upd bits (id - 1) true) burned spec := by
  -- the previous token is live, has no bit, and has the same owner
  have hpl : (spec (id - 1)).isSome = true := h.live (id - 1) (by omega) hb
  obtain ⟨b, hpb⟩ := Option.isSome_iff_exists.mp hpl
  have hbit : bits (id - 1) = false := by
    cases hbb : bits (id - 1)
    · rfl
    · have := h.mark_of_bit hpb hbb; rw [hm] at this; cases this
  refine ⟨h.live, h.above, h.dead, ?_, ?_, ?_, h.burnedLt, ?_⟩
  · intro id' a hs'
    obtain ⟨j, hj, hmj⟩ := h.scan id' a hs'
    obtain ⟨h1, h2, h3, h4⟩ := findFrom_some.mp hj
    by_cases hin : id' ≤ id - 1 ∧ id - 1 < j
    · -- the new bit is the first one now; `id` scanned to the same `j`, so the owner is `f`
      obtain ⟨j2, hj2, hmj2⟩ := h.scan id f hs
      have hj' : findFrom bits id nextId = some j :=
        findFrom_some.mpr ⟨by omega, h2, h3, fun k hk1 hk2 => h4 k (by omega) hk2⟩
      rw [hj'] at hj2; injection hj2 with e; subst e
      rw [hmj] at hmj2; injection hmj2 with e; subst e
      refine ⟨id - 1, findFrom_some.mpr ⟨hin.1, by omega, upd_same _ _ _, ?_⟩, upd_same _ _ _⟩
      intro k hk1 hk2
      rw [upd_other _ _ _ _ (by omega)]; exact h4 k hk1 (by omega)
    · have hne : j ≠ id - 1 := by intro e; subst e; rw [hbit] at h3; cases h3
      refine ⟨j, findFrom_some.mpr ⟨h1, h2, by rw [upd_other _ _ _ _ hne]; exact h3, ?_⟩, ?_⟩
      · intro k hk1 hk2
        rw [upd_other _ _ _ _ (by omega)]; exact h4 k hk1 hk2
      · rw [upd_other _ _ _ _ hne]; exact hmj
  · intro i hbi
    by_cases e : i = id - 1
    · omega
    · rw [upd_other _ _ _ _ e] at hbi; exact h.bitLt i hbi
  · intro i a hmi
    by_cases e : i = id - 1
    · subst e; exact upd_same _ _ _
    · rw [upd_other _ _ _ _ e] at hmi; rw [upd_other _ _ _ _ e]; exact h.markBit i a hmi
  · intro i hbi hi
    rcases h.prevOfBurned i hbi hi with hp | hp
    · left
      by_cases e : i - 1 = id - 1
      · rw [e, upd_same]; rfl
      · rw [upd_other _ _ _ _ e]; exact hp
    · right; exact hp

/-- (T) the transferred token gets the new owner's mark and its bit -/
theorem CI.move (h : CI nextId mark bits burned spec) {id f t : Nat} (hs : spec id = some f)
    (hprev : id = 0 ∨ (mark (id - 1)).isSome = true ∨ burned (id - 1) = true) :
    CI nextId (upd mark id (some t)) (upd bits id true) burned (upd spec id (some t)) := by
  obtain ⟨hlt, hnb⟩ := h.spec_lt hs
  refine ⟨?_, ?_, ?_, ?_, ?_, ?_, h.burnedLt, ?_⟩
  · intro i hi hb
    by_cases e : i = id
    · subst e; rw [upd_same]; rfl
    · rw [upd_other _ _ _ _ e]; exact h.live i hi hb
  · intro i hi
    rw [upd_other _ _ _ _ (by omega)]; exact h.above i hi
  · intro i hb
    have : i ≠ id := by intro e; subst e; rw [hnb] at hb; cases hb
    rw [upd_other _ _ _ _ this]; exact h.dead i hb
  · intro id' a hs'
    by_cases e : id' = id
    · subst e; rw [upd_same] at hs'; injection hs' with hs'; subst hs'
      exact ⟨id', findFrom_some.mpr ⟨Nat.le_refl _, hlt, upd_same _ _ _, by intro k h1 h2; omega⟩,
        upd_same _ _ _⟩
    · rw [upd_other _ _ _ _ e] at hs'
      obtain ⟨j, hj, hmj⟩ := h.scan id' a hs'
      obtain ⟨h1, h2, h3, h4⟩ := findFrom_some.mp hj
      have hjne : j ≠ id := by
        by_cases hl : id' < id
        · have := h.scan_below hprev hl hs' hj; omega
        · omega
      refine ⟨j, findFrom_some.mpr ⟨h1, h2, by rw [upd_other _ _ _ _ hjne]; exact h3, ?_⟩, ?_⟩
      · intro k hk1 hk2
        have : k ≠ id := by
          by_cases hl : id' < id
          · have := h.scan_below hprev hl hs' hj; omega
          · omega
        rw [upd_other _ _ _ _ this]; exact h4 k hk1 hk2
      · rw [upd_other _ _ _ _ hjne]; exact hmj
  · intro i hbi
    by_cases e : i = id
    · omega
    · rw [upd_other _ _ _ _ e] at hbi; exact h.bitLt i hbi
  · intro i a hmi
    by_cases e : i = id
    · subst e; exact upd_same _ _ _
    · rw [upd_other _ _ _ _ e] at hmi; rw [upd_other _ _ _ _ e]; exact h.markBit i a hmi
  · intro i hbi hi
    rcases h.prevOfBurned i hbi hi with hp | hp
    · left
      by_cases e : i - 1 = id
      · rw [e, upd_same]; rfl
      · rw [upd_other _ _ _ _ e]; exact hp
    · right; exact hp

/-- (B) burn: the mark disappears, the token joins the burned set; its bit may stay -/
theorem CI.burn (h : CI nextId mark bits burned spec) {id f : Nat} (hs : spec id = some f)
    (hprev : id = 0 ∨ (mark (id - 1)).isSome = true ∨ burned (id - 1) = true) :
    CI nextId (upd mark id none) bits (upd burned id true) (upd spec id none) := by
  obtain ⟨hlt, hnb⟩ := h.spec_lt hs
  refine ⟨?_, ?_, ?_, ?_, h.bitLt, ?_, ?_, ?_⟩
  · intro i hi hb
    by_cases e : i = id
    · subst e; rw [upd_same] at hb; cases hb
    · rw [upd_other _ _ _ _ e] at hb; rw [upd_other _ _ _ _ e]; exact h.live i hi hb
  · intro i hi
    rw [upd_other _ _ _ _ (by omega)]; exact h.above i hi
  · intro i hb
    by_cases e : i = id
    · subst e; exact upd_same _ _ _
    · rw [upd_other _ _ _ _ e] at hb; rw [upd_other _ _ _ _ e]; exact h.dead i hb
  · intro id' a hs'
    have e : id' ≠ id := by intro e; subst e; rw [upd_same] at hs'; cases hs'
    rw [upd_other _ _ _ _ e] at hs'
    obtain ⟨j, hj, hmj⟩ := h.scan id' a hs'
    obtain ⟨h1, h2, h3, h4⟩ := findFrom_some.mp hj
    have hjne : j ≠ id := by
      by_cases hl : id' < id
      · have := h.scan_below hprev hl hs' hj; omega
      · omega
    exact ⟨j, hj, by rw [upd_other _ _ _ _ hjne]; exact hmj⟩
  · intro i a hmi
    by_cases e : i = id
    · subst e; rw [upd_same] at hmi; cases hmi
    · rw [upd_other _ _ _ _ e] at hmi; exact h.markBit i a hmi
  · intro i hb
    by_cases e : i = id
    · omega
    · rw [upd_other _ _ _ _ e] at hb; exact h.burnedLt i hb
  · intro i hbi hi
    by_cases e : i = id
    · subst e
      rcases hprev with h0 | hp | hp
      · omega
      · left; rw [upd_other _ _ _ _ (by omega)]; exact hp
      · right; rw [upd_other _ _ _ _ (by omega)]; exact hp
    · rw [upd_other _ _ _ _ e] at hbi
      by_cases e2 : i - 1 = id
      · right; rw [e2]; exact upd_same _ _ _
      · rw [upd_other _ _ _ _ e2, upd_other _ _ _ _ e2]; exact h.prevOfBurned i hbi hi

end

/-! ### balances count tokens of the plain map -/

theorem cnt_append (L1 L2 : List Nat) (own : Nat → Option Nat) (a : Nat) :
    cnt (L1 ++ L2) own a = cnt L1 own a + cnt L2 own a := by
  unfold cnt; rw [List.filter_append, List.length_append]

theorem cnt_pos {L : List Nat} {own : Nat → Option Nat} {id a : Nat} (hin : id ∈ L)
    (hown : own id = some a) : 1 ≤ cnt L own a := by
  have : id ∈ ownedBy L own a := mem_ownedBy.mpr ⟨hin, hown⟩
  have := List.length_pos_of_mem this
  rw [ownedBy_length] at this; omega

theorem bal_move {L : List Nat} {own : Nat → Option Nat} {bal : Nat → Nat} {f to id : Nat}
    (hn : L.Nodup) (hin : id ∈ L) (hown : own id = some f) (hb : ∀ a, bal a = cnt L own a) :
    ∀ a, upd (upd bal f (bal f - 1)) to (upd bal f (bal f - 1) to + 1) a
      = cnt L (upd own id (some to)) a := by
  intro a
  have hc := cnt_upd_in L own id (some to) a hn hin
  have hbf := hb f
  have hba := hb a
  have hpos := cnt_pos hin hown
  rw [hown] at hc
  by_cases hat : a = to
  · subst hat
    rw [upd_same]
    by_cases haf : a = f
    · subst haf; rw [upd_same]; simp at hc; omega
    · rw [upd_other _ _ _ _ haf]
      have : ¬ (some f = some a) := by intro e; injection e with e; exact haf e.symm
      simp [this] at hc; omega
  · rw [upd_other _ _ _ _ hat]
    have hne : ¬ (some to = some a) := by intro e; injection e with e; exact hat e.symm
    by_cases haf : a = f
    · subst haf; rw [upd_same]; simp [hne] at hc; omega
    · rw [upd_other _ _ _ _ haf]
      have : ¬ (some f = some a) := by intro e; injection e with e; exact haf e.symm
      simp [this, hne] at hc; omega

theorem bal_burn {L : List Nat} {own : Nat → Option Nat} {bal : Nat → Nat} {f id : Nat}
    (hn : L.Nodup) (hin : id ∈ L) (hown : own id = some f) (hb : ∀ a, bal a = cnt L own a) :
    ∀ a, upd bal f (bal f - 1) a = cnt L (upd own id none) a := by
  intro a
  have hc := cnt_upd_in L own id none a hn hin
  have hba := hb a
  rw [hown] at hc
  by_cases haf : a = f
  · subst haf; rw [upd_same]; simp at hc; omega
  · rw [upd_other _ _ _ _ haf]
    have : ¬ (some f = some a) := by intro e; injection e with e; exact haf e.symm
    simp [this] at hc; omega

theorem bal_batch (spec : Nat → Option Nat) (N n to a : Nat) :
    cnt (List.range (N + n)) (fun id => if N ≤ id ∧ id < N + n then some to else spec id) a
      = cnt (List.range N) spec a + (if to = a then n else 0) := by
  have key : ∀ m, m ≤ n →
      cnt (List.range (N + m)) (fun id => if N ≤ id ∧ id < N + n then some to else spec id) a
        = cnt (List.range N) spec a + (if to = a then m else 0) := by
    intro m
    induction m with
    | zero =>
      intro _
      have : (if to = a then 0 else 0) = 0 := by split <;> rfl
      rw [this, Nat.add_zero, Nat.add_zero]
      apply cnt_congr
      intro t ht
      have := List.mem_range.mp ht
      show (if N ≤ t ∧ t < N + n then some to else spec t) = spec t
      rw [if_neg (show ¬ (N ≤ t ∧ t < N + n) by omega)]
    | succ m ih =>
      intro hm
      have hcond : N ≤ N + m ∧ N + m < N + n := ⟨by omega, by omega⟩
      rw [show N + (m + 1) = (N + m) + 1 from rfl, List.range_succ, cnt_append, ih (by omega), cnt_cons,
        cnt_nil, if_pos hcond]
      by_cases e : to = a
      · subst e; rw [if_pos rfl, if_pos rfl, if_pos rfl]; omega
      · have : ¬ (some to = some a) := by intro h; injection h with h; exact e h
        rw [if_neg e, if_neg e, if_neg this]
  exact key n (Nat.le_refl n)

/-! ### the contract functions over any implementation of the ownership-bit set -/

/-- `B` implements a set of ownership bits: `g bits` is the abstract set, `W` the
well-formedness of the representation. `find` returns the least set position in
`[token_id, nextId)` (given that no bit is set at or above the counter) and `set` adds one
position. -/
structure Impl {β : Type} (B : BitOps β) (g : β → Nat → Bool) (W : β → Prop) : Prop where
  find : ∀ b id n, W b → id < n → (∀ i, g b i = true → i < n) →
    B.find b id (n - 1) = findFrom (g b) id n
  set : ∀ b id, W b → ∃ b', B.set b id = some b' ∧ W b' ∧ ∀ i, g b' i = upd (g b) id true i

theorem setOps_impl : Impl setOps (fun b => b) (fun _ => True) := by
  refine ⟨?_, ?_⟩
  · intro b id n _ hlt _
    show findFrom b id (n - 1 + 1) = findFrom b id n
    rw [show n - 1 + 1 = n by omega]
  · intro b id _
    exact ⟨upd b id true, rfl, trivial, fun _ => rfl⟩

theorem CI_congr_bits {nextId : Nat} {mark : Nat → Option Nat} {bits bits' burned : Nat → Bool}
    {spec : Nat → Option Nat} (h : CI nextId mark bits burned spec) (hb : ∀ i, bits' i = bits i) :
    CI nextId mark bits' burned spec := by
  have : bits' = bits := funext hb
  subst this; exact h

section impl
variable {β : Type} {B : BitOps β} {g : β → Nat → Bool} {W : β → Prop}

/-- relation between a contract state and the plain ownership map -/
structure GInv (g : β → Nat → Bool) (W : β → Prop) (s : State β) (spec : Nat → Option Nat) : Prop where
  ci : CI s.nextId s.mark (g s.bits) s.burned spec
  bal : ∀ a, s.bal a = cnt (List.range s.nextId) spec a
  wf : W s.bits

theorem ownerOf_impl_ok (hI : Impl B g W) {s : State β} {id a : Nat} (hW : W s.bits)
    (hlt : ∀ i, g s.bits i = true → i < s.nextId) (h : ownerOf B s id = .ok a) :
    id < s.nextId ∧ s.burned id = false ∧
    ∃ j, findFrom (g s.bits) id s.nextId = some j ∧ s.mark j = some a := by
  unfold ownerOf at h
  split at h
  · cases h
  · rename_i h0
    split at h
    · cases h
    · rename_i h1
      have hb : s.burned id = false := by
        cases hb : s.burned id
        · rfl
        · exact absurd (Or.inl hb) h1
      have hlt' : id < s.nextId := by
        apply Classical.byContradiction; intro hn; exact h1 (Or.inr (by omega))
      rw [hI.find s.bits id s.nextId hW hlt' hlt] at h
      split at h
      · cases h
      · rename_i j hj
        unfold markOwner at h
        split at h
        · rename_i b hm; injection h with h; subst h; exact ⟨hlt', hb, j, hj, hm⟩
        · cases h

theorem ownerOf_impl_of_scan (hI : Impl B g W) {s : State β} {id j a : Nat} (hW : W s.bits)
    (hbl : ∀ i, g s.bits i = true → i < s.nextId) (hlt : id < s.nextId)
    (hb : s.burned id = false) (hj : findFrom (g s.bits) id s.nextId = some j) (hm : s.mark j = some a) :
    ownerOf B s id = .ok a := by
  unfold ownerOf
  rw [if_neg (by omega), if_neg (by rw [hb]; simp; omega), hI.find s.bits id s.nextId hW hlt hbl, hj]
  show markOwner s j = .ok a
  unfold markOwner; rw [hm]

/-- the contract's `owner_of` answers exactly the plain map, for EVERY id -/
theorem ownerOf_impl_spec (hI : Impl B g W) {s : State β} {spec : Nat → Option Nat}
    (hi : GInv g W s spec) (id : Nat) : (ownerOf B s id).toOption = spec id := by
  cases hs : spec id with
  | some a =>
    obtain ⟨hlt, hb⟩ := hi.ci.spec_lt hs
    obtain ⟨j, hj, hm⟩ := hi.ci.scan id a hs
    rw [ownerOf_impl_of_scan hI hi.wf hi.ci.bitLt hlt hb hj hm]; rfl
  | none =>
    cases ho : ownerOf B s id with
    | error e => rfl
    | ok a =>
      obtain ⟨hlt, hb, _⟩ := ownerOf_impl_ok hI hi.wf hi.ci.bitLt ho
      have := hi.ci.live id hlt hb
      rw [hs] at this; cases this

theorem setOwnership_impl_ok (hI : Impl B g W) {s s' : State β} {id : Nat} (hW : W s.bits)
    (h : setOwnershipInBucket B s id = .ok s') :
    id < s.nextId ∧ ∃ b', s' = { s with bits := b' } ∧ W b' ∧ ∀ i, g b' i = upd (g s.bits) id true i := by
  unfold setOwnershipInBucket at h
  split at h
  · cases h
  · rename_i hlt
    obtain ⟨b', hb', hw', hg'⟩ := hI.set s.bits id hW
    rw [hb'] at h
    injection h with h
    exact ⟨by omega, b', h.symm, hw', hg'⟩

theorem setOwnerForPrev_impl_ok (hI : Impl B g W) {s s' : State β} {f id : Nat} (hW : W s.bits)
    (h : setOwnerForPreviousToken B s f id = .ok s') :
    (s' = s ∧ (id = 0 ∨ s.nextId ≤ id ∨ (s.mark (id - 1)).isSome = true ∨ s.burned (id - 1) = true)) ∨
    (0 < id ∧ id < s.nextId ∧ s.mark (id - 1) = none ∧ s.burned (id - 1) = false ∧
      ∃ b', s' = { s with mark := upd s.mark (id - 1) (some f), bits := b' } ∧ W b' ∧
        ∀ i, g b' i = upd (g s.bits) (id - 1) true i) := by
  unfold setOwnerForPreviousToken at h
  split at h
  · rename_i h0; injection h with h; left; refine ⟨h.symm, ?_⟩
    rcases h0 with h0 | h0
    · exact Or.inl h0
    · exact Or.inr (Or.inl h0)
  · rename_i h0
    split at h
    · rename_i h1; injection h with h; left; exact ⟨h.symm, Or.inr (Or.inr (Or.inl h1))⟩
    · rename_i h1
      split at h
      · rename_i h2; injection h with h; left; exact ⟨h.symm, Or.inr (Or.inr (Or.inr h2))⟩
      · rename_i h2
        obtain ⟨_, b', hs', hw', hg'⟩ := setOwnership_impl_ok hI (s := { s with mark := upd s.mark (id - 1) (some f) }) hW h
        right
        refine ⟨by omega, by omega, ?_, ?_, b', hs', hw', hg'⟩
        · cases hm : s.mark (id - 1)
          · rfl
          · rw [hm] at h1; exact absurd rfl h1
        · cases hb : s.burned (id - 1)
          · rfl
          · exact absurd hb h2

/-- the `from` branch of `update` -/
theorem debit_impl_ok (hI : Impl B g W) {s s1 : State β} {spec : Nat → Option Nat} {f id : Nat}
    (hi : GInv g W s spec) (h : debit B s (some f) id = .ok s1) :
    spec id = some f ∧ 1 ≤ s.bal f ∧
    CI s1.nextId s1.mark (g s1.bits) s1.burned spec ∧ W s1.bits ∧
    (id = 0 ∨ (s1.mark (id - 1)).isSome = true ∨ s1.burned (id - 1) = true) ∧
    s1.nextId = s.nextId ∧ s1.bal = upd s.bal f (s.bal f - 1) ∧
    s1.approval = upd s.approval id none ∧ s1.operator = s.operator ∧ s1.now = s.now := by
  unfold debit at h
  simp only at h
  obtain ⟨o, ho, h⟩ := bind_eq_ok h
  obtain ⟨_, hck, h⟩ := bind_eq_ok h
  obtain ⟨c, hdec, hp⟩ := bind_eq_ok h
  obtain ⟨hlt, hnb, j, hj, hm⟩ := ownerOf_impl_ok hI hi.wf hi.ci.bitLt ho
  have hof := checkOwner_ok hck
  obtain ⟨hc, hge⟩ := decreaseBalance_ok hdec
  -- the plain map agrees with the scan
  have hspec : spec id = some f := by
    have hl := hi.ci.live id hlt hnb
    obtain ⟨b, hb⟩ := Option.isSome_iff_exists.mp hl
    obtain ⟨j', hj', hm'⟩ := hi.ci.scan id b hb
    rw [hj] at hj'; injection hj' with e; subst e
    rw [hm] at hm'; injection hm' with e; subst e
    rw [hb, hof]
  subst hc
  rcases setOwnerForPrev_impl_ok hI (s := { s with toCore := clearApproval _ id }) hi.wf hp with
    ⟨hs1, hcase⟩ | ⟨h0, _, hmk, hbn, b', hs1, hw', hg'⟩
  · subst hs1
    refine ⟨hspec, hge, hi.ci, hi.wf, ?_, rfl, rfl, rfl, rfl, rfl⟩
    rcases hcase with h0 | h1 | h2
    · exact Or.inl h0
    · exact absurd hlt (by show ¬ id < s.nextId; have : s.nextId ≤ id := h1; omega)
    · exact Or.inr h2
  · subst hs1
    refine ⟨hspec, hge, CI_congr_bits (hi.ci.prev h0 hlt hspec hmk hbn) hg', hw', ?_, rfl, rfl, rfl, rfl, rfl⟩
    right; left
    show (upd s.mark (id - 1) (some f) (id - 1)).isSome = true
    rw [upd_same]; rfl

/-- `update` for a transfer (also to oneself): the named token belonged to `f`, and afterwards
the contract represents the plain map with that one token moved -/
theorem update_move_impl (hI : Impl B g W) {s s' : State β} {spec : Nat → Option Nat} {f t id : Nat}
    (hi : GInv g W s spec) (h : update B s (some f) (some t) id = .ok s') :
    spec id = some f ∧ GInv g W s' (upd spec id (some t)) ∧ s'.nextId = s.nextId ∧
    s'.approval = upd s.approval id none ∧ s'.operator = s.operator ∧ s'.now = s.now := by
  obtain ⟨s1, hd, hc⟩ := bind_eq_ok h
  obtain ⟨hspec, hge, hci, hw1, hprev, hn1, hb1, ha1, ho1, hw1'⟩ := debit_impl_ok hI hi hd
  unfold credit at hc
  simp only at hc
  obtain ⟨c2, hinc, hset⟩ := bind_eq_ok hc
  obtain ⟨hc2, _⟩ := increaseBalance_ok hinc
  obtain ⟨_, b', hs', hw', hg'⟩ := setOwnership_impl_ok hI
    (s := { s1 with toCore := c2, mark := upd s1.mark id (some t) }) hw1 hset
  subst hs'; subst hc2
  have hlt := (hi.ci.spec_lt hspec).1
  refine ⟨hspec, ⟨?_, ?_, hw'⟩, hn1, ha1, ho1, hw1'⟩
  · exact CI_congr_bits (hci.move hspec hprev) hg'
  · intro a
    show upd s1.bal t (s1.bal t + 1) a = cnt (List.range s1.nextId) (upd spec id (some t)) a
    rw [hb1, hn1]
    exact bal_move List.nodup_range (List.mem_range.mpr hlt) hspec hi.bal a

/-- `update` for a burn -/
theorem update_burn_impl (hI : Impl B g W) {s s' : State β} {spec : Nat → Option Nat} {f id : Nat}
    (hi : GInv g W s spec) (h : update B s (some f) none id = .ok s') :
    spec id = some f ∧ GInv g W s' (upd spec id none) ∧ s'.nextId = s.nextId ∧
    s'.approval = upd s.approval id none ∧ s'.operator = s.operator ∧ s'.now = s.now := by
  obtain ⟨s1, hd, hc⟩ := bind_eq_ok h
  obtain ⟨hspec, hge, hci, hw1, hprev, hn1, hb1, ha1, ho1, hw1'⟩ := debit_impl_ok hI hi hd
  unfold credit at hc
  injection hc with hc
  subst hc
  have hlt := (hi.ci.spec_lt hspec).1
  refine ⟨hspec, ⟨?_, ?_, hw1⟩, hn1, ha1, ho1, hw1'⟩
  · exact hci.burn hspec hprev
  · intro a
    show s1.bal a = cnt (List.range s1.nextId) (upd spec id none) a
    rw [hb1, hn1]
    exact bal_burn List.nodup_range (List.mem_range.mpr hlt) hspec hi.bal a

/-- `batch_mint` of `n` issues exactly the ids `[nextId, nextId + n)`, returns the last one -/
theorem batchMint_impl (hI : Impl B g W) {s s' : State β} {spec : Nat → Option Nat} {to n last : Nat}
    (hi : GInv g W s spec) (h : batchMint B s to n = .ok (s', last)) :
    1 ≤ n ∧ n ≤ MAX_TOKENS_IN_BATCH ∧ last = s.nextId + n - 1 ∧ s'.nextId = s.nextId + n ∧
    GInv g W s' (fun id => if s.nextId ≤ id ∧ id < s.nextId + n then some to else spec id) ∧
    s'.approval = s.approval ∧ s'.operator = s.operator ∧ s'.now = s.now := by
  unfold batchMint at h
  split at h
  · cases h
  · rename_i hn
    obtain ⟨⟨c, first⟩, h1, h⟩ := bind_eq_ok h
    obtain ⟨c2, h2, h⟩ := bind_eq_ok h
    obtain ⟨s3, h3, h⟩ := bind_eq_ok h
    have h := pure_eq_ok h
    injection h with ha hb
    obtain ⟨hc, hfirst, _⟩ := incrementTokenId_ok h1
    obtain ⟨hc2, _⟩ := increaseBalance_ok h2
    obtain ⟨_, b', hs3, hw', hg'⟩ := setOwnership_impl_ok hI (s := { s with toCore := c2 }) hi.wf h3
    subst hc; subst hc2; subst hs3; subst hfirst; subst ha; subst hb
    have hn1 : 1 ≤ n := by omega
    refine ⟨hn1, by omega, rfl, rfl, ⟨?_, ?_, hw'⟩, rfl, rfl, rfl⟩
    · exact CI_congr_bits (hi.ci.batch hn1) hg'
    · intro a
      show upd s.bal to (s.bal to + n) a = cnt (List.range (s.nextId + n)) _ a
      rw [bal_batch, ← hi.bal a]
      by_cases e : a = to
      · subst e; rw [upd_same, if_pos rfl]
      · rw [upd_other _ _ _ _ e, if_neg (fun h => e h.symm)]; rfl

end impl

/-- the plain ownership map after a successful operation (`nextId` = the counter before it) -/
def specStep (spec : Nat → Option Nat) (nextId : Nat) : Op → (Nat → Option Nat)
  | .batchMint to n => fun id => if nextId ≤ id ∧ id < nextId + n then some to else spec id
  | .transfer _ t id => upd spec id (some t)
  | .transferFrom _ _ t id => upd spec id (some t)
  | .burn _ id => upd spec id none
  | .burnFrom _ _ id => upd spec id none
  | _ => spec

/-- one successful invocation: the representation follows the plain map, a transfer / burn
names the token's owner, a batch returns its last id -/
theorem apply_impl_step {β : Type} {B : BitOps β} {g : β → Nat → Bool} {W : β → Prop} (hI : Impl B g W)
    (cfg : Cfg) {s s' : State β} {spec : Nat → Option Nat} {auth : List Nat}
    {op : Op} {r : Option Nat} (hi : GInv g W s spec) (h : apply B cfg s auth op = .ok (s', r)) :
    GInv g W s' (specStep spec s.nextId op) ∧
    (∀ f id, Op.moves op = some (f, id) → spec id = some f) ∧
    (∀ to n, op = .batchMint to n →
      1 ≤ n ∧ r = some (s.nextId + n - 1) ∧ s'.nextId = s.nextId + n) ∧
    ((∀ to n, op ≠ .batchMint to n) → s'.nextId = s.nextId) := by
  cases op with
  | mintSeq to => cases h
  | mint to id => cases h
  | batchMint to n =>
    obtain ⟨⟨s2, last⟩, h1, h⟩ := bind_eq_ok h
    have h := pure_eq_ok h
    injection h with ha hb; subst ha; subst hb
    obtain ⟨hn, _, hl, hnx, hinv, _⟩ := batchMint_impl hI hi h1
    refine ⟨hinv, ?_, ?_, ?_⟩
    · intro f id hm; cases hm
    · intro to' n' e; injection e with e1 e2; subst e1; subst e2
      exact ⟨hn, by rw [hl], hnx⟩
    · intro hne; exact absurd rfl (hne to n)
  | transfer f t id =>
    obtain ⟨s2, h1, h⟩ := bind_eq_ok h
    have h := pure_eq_ok h
    injection h with ha hb; subst ha; subst hb
    unfold transfer at h1
    obtain ⟨_, _, hu⟩ := bind_eq_ok h1
    obtain ⟨hs, hinv, hnx, _⟩ := update_move_impl hI hi hu
    refine ⟨hinv, ?_, ?_, fun _ => hnx⟩
    · intro f' id' hm; injection hm with hm; injection hm with e1 e2; subst e1; subst e2; exact hs
    · intro to n e; cases e
  | transferFrom sp f t id =>
    obtain ⟨s2, h1, h⟩ := bind_eq_ok h
    have h := pure_eq_ok h
    injection h with ha hb; subst ha; subst hb
    unfold transferFrom at h1
    obtain ⟨_, _, h1⟩ := bind_eq_ok h1
    obtain ⟨_, _, hu⟩ := bind_eq_ok h1
    obtain ⟨hs, hinv, hnx, _⟩ := update_move_impl hI hi hu
    refine ⟨hinv, ?_, ?_, fun _ => hnx⟩
    · intro f' id' hm; injection hm with hm; injection hm with e1 e2; subst e1; subst e2; exact hs
    · intro to n e; cases e
  | approve ap a id lu =>
    obtain ⟨s2, h1, h⟩ := bind_eq_ok h
    have h := pure_eq_ok h
    injection h with ha hb; subst ha; subst hb
    unfold approve at h1
    obtain ⟨_, _, h1⟩ := bind_eq_ok h1
    obtain ⟨o, _, h1⟩ := bind_eq_ok h1
    obtain ⟨c, hc, h1⟩ := bind_eq_ok h1
    have h1 := pure_eq_ok h1
    obtain ⟨hb, hn⟩ := approveForOwner_fields hc
    subst h1
    refine ⟨⟨?_, ?_, hi.wf⟩, ?_, ?_, fun _ => hn⟩
    · show CI c.nextId s.mark (g s.bits) s.burned spec
      rw [hn]; exact hi.ci
    · intro a'
      show c.bal a' = cnt (List.range c.nextId) spec a'
      rw [hb, hn]; exact hi.bal a'
    · intro f' id' hm; cases hm
    · intro to n e; cases e
  | approveForAll o p lu =>
    obtain ⟨c, hc, h⟩ := bind_eq_ok h
    have h := pure_eq_ok h
    injection h with ha hb; subst ha; subst hb
    obtain ⟨hb, hn, _⟩ := approveForAll_fields hc
    refine ⟨⟨?_, ?_, hi.wf⟩, ?_, ?_, fun _ => hn⟩
    · show CI c.nextId s.mark (g s.bits) s.burned spec
      rw [hn]; exact hi.ci
    · intro a'
      show c.bal a' = cnt (List.range c.nextId) spec a'
      rw [hb, hn]; exact hi.bal a'
    · intro f' id' hm; cases hm
    · intro to n e; cases e
  | burn f id =>
    obtain ⟨s2, h1, h⟩ := bind_eq_ok h
    have h := pure_eq_ok h
    injection h with ha hb; subst ha; subst hb
    unfold burn at h1
    obtain ⟨_, _, hu⟩ := bind_eq_ok h1
    obtain ⟨hs, hinv, hnx, _⟩ := update_burn_impl hI hi hu
    refine ⟨hinv, ?_, ?_, fun _ => hnx⟩
    · intro f' id' hm; injection hm with hm; injection hm with e1 e2; subst e1; subst e2; exact hs
    · intro to n e; cases e
  | burnFrom sp f id =>
    obtain ⟨s2, h1, h⟩ := bind_eq_ok h
    have h := pure_eq_ok h
    injection h with ha hb; subst ha; subst hb
    unfold burnFrom at h1
    obtain ⟨_, _, h1⟩ := bind_eq_ok h1
    obtain ⟨_, _, hu⟩ := bind_eq_ok h1
    obtain ⟨hs, hinv, hnx, _⟩ := update_burn_impl hI hi hu
    refine ⟨hinv, ?_, ?_, fun _ => hnx⟩
    · intro f' id' hm; injection hm with hm; injection hm with e1 e2; subst e1; subst e2; exact hs
    · intro to n e; cases e
  | advance n =>
    injection h with h
    injection h with ha hb; subst ha; subst hb
    refine ⟨⟨hi.ci, hi.bal, hi.wf⟩, ?_, ?_, fun _ => rfl⟩
    · intro f' id' hm; cases hm
    · intro to n' e; cases e

end OZ.NftCons
