import OZ.Lemmas.TimelockController
import OZ.Model.TimelockControllerMon
/-
Helper definitions and lemmas for the soundness proof of the C09 monitor (OZ/Props/C09Mon.lean).

First the MODEL side of the driver OZ/Drv/C09.lean on parsed lines (`MS`, `resolve…`, `modelStep`):
the structured content of exactly what `stepLine` / `showState` do and print. Then the relation
between monitor state and model state (`Agree`), the reachable-state invariant (`MInv`) and facts
about the monitor's pieces (OZ/Model/TimelockControllerMon.lean), each stated with plain arguments.
-/
namespace OZ.TimelockController.Mon
open OZ.Host OZ.Timelock OZ.TimelockController

/-! ### the model driver on parsed lines (mirror of `OZ.Drv.C09.stepLine`) -/

/-- the model driver's state (`OZ.Drv.C09.M`) -/
structure MS where
  c : CState
  defs : List Operation

def MAX_TTL : Nat := 6312000

/-- `initM`: the constructor with the label's parameters; the controller's address is 0 -/
def initMS (start min : Nat) (prop exec : List Nat) (admin : Option Nat) : MS :=
  ⟨construct start MAX_TTL 0 min prop exec admin, []⟩

/-- `parseMeta` -/
def resolveMeta (defs : List Operation) (md : MetaM) : Option Meta :=
  (refKey defs md.p).map (fun p => ⟨p, md.s, md.e⟩)

/-- `parseSig` on a descriptor vector: fails if one reference does not resolve -/
def resolveMetas (defs : List Operation) : List MetaM → Option (List Meta)
  | [] => some []
  | md :: rest =>
    match resolveMeta defs md, resolveMetas defs rest with
    | some m, some ms => some (m :: ms)
    | _, _ => none

def resolveSig (defs : List Operation) (sig : Option (List MetaM)) : Option (List Meta) :=
  sig.bind (resolveMetas defs)

/-- `parseCtx` -/
def resolveCtx (defs : List Operation) : CtxM → Option Context
  | .create => some .createContract
  | .defk k => (defs[k]?).map (fun d => .contract d.target d.fn d.args)
  | .call t f a => some (.contract t f a)
  | .bad => none

/-- `parseCtxs`: unreadable contexts are dropped -/
def resolveCtxs (defs : List Operation) (l : List CtxM) : List Context := l.filterMap (resolveCtx defs)

/-- one token of `parseToks` -/
def resolveTok (metas : List Meta) (ctxs : List Context) : AuthM → Option AuthTok
  | .call i => some (.call i)
  | .exec i j =>
    match ctxs[j]?, metas[j]? with
    | some (.contract addr fn args), some m => some (.exec i addr fn args m.pred m.salt)
    | _, _ => none

def resolveToks (metas : List Meta) (ctxs : List Context) (l : List AuthM) : List AuthTok :=
  l.filterMap (resolveTok metas ctxs)

/-- the single context of an invocation of one of the controller's own entry points -/
def ownCtx (x : MS) (c : Call) : List Context := [.contract x.c.self (fnOf c) (argsOf c)]

/-- tokens of a call on one of the controller's own entry points -/
def ownToks (x : MS) (cl : CallLine) : List AuthTok :=
  resolveToks ((resolveSig x.defs cl.sig).getD []) (ownCtx x cl.call) cl.auth

/-- `stepLine`: the entry point and the authorization tokens a call line denotes
(`none`: the driver prints `bad-op`) -/
def resolveCall (x : MS) (cl : CallLine) : Option (Entry × List AuthTok) :=
  match cl.call with
  | .sched k d p => (x.defs[k]?).map (fun op => (.scheduleOp op d p, resolveToks [] [] cl.auth))
  | .cancel r p => (refKey x.defs r).map (fun id => (.cancelOp id p, resolveToks [] [] cl.auth))
  | .exec k ex ok => (x.defs[k]?).map (fun op => (.executeOp op ex (ok = 1), resolveToks [] [] cl.auth))
  | .update d => some (.updateDelay d, ownToks x cl)
  | .grant a r k => some (.grantRole a r k, ownToks x cl)
  | .revoke a r k => some (.revokeRole a r k, ownToks x cl)
  | .renrole r k => some (.renounceRole r k, ownToks x cl)
  | .setradm r ar => some (.setRoleAdmin r ar, ownToks x cl)
  | .transfer a lu => some (.transferAdmin a lu, ownToks x cl)
  | .renounce => some (.renounceAdmin, ownToks x cl)
  | .accept => some (.acceptAdmin, resolveToks [] [] cl.auth)
  | .check metas ctxs =>
    some (.checkAuth ((resolveMetas x.defs metas).getD []) (resolveCtxs x.defs ctxs),
          resolveToks ((resolveMetas x.defs metas).getD []) (resolveCtxs x.defs ctxs) cl.auth)
  | .advance n => some (.advance n, [])
  | .other _ => none

def modelCall (x : MS) (cl : CallLine) (e : Entry) (auth : List AuthTok) : MS × Obs :=
  match applyE x.c auth (resolveSig x.defs cl.sig) e with
  | .ok c' => (⟨c', x.defs⟩, modelObs c' x.defs true none)
  | .error _ => (x, modelObs x.c x.defs false none)

def modelDef (x : MS) (op : Operation) : MS × Obs :=
  (⟨x.c, x.defs ++ [op]⟩, modelObs x.c (x.defs ++ [op]) true (some (sameTuples x.defs op)))

/-- one line through the model driver: new state and the observation it prints
(`none`: it prints `bad-op`, there is no observation) -/
def modelStep (x : MS) : Line → Option (MS × Obs)
  | .badDef => none
  | .defn t f args p s => (refKey x.defs p).map (fun pid => modelDef x ⟨t, f, args, pid, s⟩)
  | .call cl => (resolveCall x cl).map (fun ea => modelCall x cl ea.1 ea.2)

/-! ### agreement and invariant -/

/-- the monitor's reading of the model's ghost log -/
def toG : Ghost → G
  | .unset => .unset
  | .pending l d _ => .pending l d
  | .done => .done

/-- the reachable-state invariant of the model driver: the C08 timelock invariant, C06's storage
invariant, the controller's address is 0, and every id the log knows about is a defined operation -/
structure MInv (x : MS) : Prop where
  tl : Inv x.c.tl
  ac : OZ.Access.Inv x.c.ac
  self : x.c.self = 0
  known : ∀ id, ghost x.c.tl.log id ≠ .unset → id ∈ x.defs.map Operation.id

/-- monitor state and model-driver state describe the same point of a history -/
structure Agree (m : Mon) (x : MS) : Prop where
  defs : m.defs = x.defs
  ghost : ∀ id, m.get (some id) = toG (ghost x.c.tl.log id)
  prev : ∀ p, m.prev = some p → ∃ ok eq, p = modelObs x.c x.defs ok eq
  first : m.prev = none → x.defs = [] ∧ ∀ r, OZ.Access.getRoleAdmin x.c.ac r = none

/-! ### the constructor leaves every role without an admin role -/

theorem grantOrKeep_roleAdmin (s : AC) (a r c : Nat) : (grantOrKeep s a r c).roleAdmin = s.roleAdmin := by
  unfold grantOrKeep
  cases h : OZ.Access.grantRoleNoAuth s a r c with
  | error _ => rfl
  | ok s' => exact (OZ.Access.grantRoleNoAuth_rest h).1

theorem foldl_roleAdmin {α : Type} (f : AC → α → AC) (hf : ∀ s x, (f s x).roleAdmin = s.roleAdmin) (l : List α) (s : AC) :
    (l.foldl f s).roleAdmin = s.roleAdmin := by
  induction l generalizing s with
  | nil => rfl
  | cons x xs ih => rw [List.foldl_cons, ih, hf]

theorem construct_roleAdmin_none (now maxTtl self minDelay : Nat) (ps es : List Nat) (admin : Option Nat) (r : Nat) :
    OZ.Access.getRoleAdmin (construct now maxTtl self minDelay ps es admin).ac r = none := by
  unfold OZ.Access.getRoleAdmin construct
  simp only
  rw [foldl_roleAdmin _ (fun s x => grantOrKeep_roleAdmin s x _ _),
    foldl_roleAdmin _ (fun s x => by rw [grantOrKeep_roleAdmin, grantOrKeep_roleAdmin])]
  rfl

/-! ### ghost lookup -/

theorem get_set (m : Mon) (k k' : Key) (g : G) :
    (m.set k g).get k' = if k = k' then g else m.get k' := by
  unfold Mon.get Mon.set
  by_cases h : k = k'
  · simp [h]
  · simp [h]

theorem get_prev (m : Mon) (p : Option Obs) (k : Key) : ({ m with prev := p } : Mon).get k = m.get k := rfl

theorem get_defs (m : Mon) (d : List Operation) (k : Key) : ({ m with defs := d } : Mon).get k = m.get k := rfl

theorem set_defs (m : Mon) (k : Key) (g : G) : (m.set k g).defs = m.defs := rfl

theorem markDone_defs (m : Mon) (ids : List Id) : (markDone m ids).defs = m.defs := by
  unfold markDone
  induction ids generalizing m with
  | nil => rfl
  | cons a t ih => rw [List.foldl_cons, ih]; rfl

theorem get_markDone (m : Mon) (ids : List Id) (id : Id) :
    (markDone m ids).get (some id) = if id ∈ ids then .done else m.get (some id) := by
  unfold markDone
  induction ids generalizing m with
  | nil => simp
  | cons a t ih =>
    rw [List.foldl_cons, ih, get_set]
    by_cases h1 : id ∈ t
    · rw [if_pos h1, if_pos (List.mem_cons_of_mem _ h1)]
    · rw [if_neg h1]
      by_cases h2 : a = id
      · subst h2; simp
      · rw [if_neg (by simpa using h2), if_neg (by simp [h1]; exact fun e => h2 e.symm)]

/-! ### codes -/

theorem codeOf_ne_X (s : OpState) : codeOf s ≠ "X" := by cases s <;> decide
theorem codeOf_D {s : OpState} : codeOf s = "D" ↔ s = .done := by cases s <;> simp [codeOf]
theorem codeOf_R {s : OpState} : codeOf s = "R" ↔ s = .ready := by cases s <;> simp [codeOf]
theorem codeOf_W {s : OpState} : codeOf s = "W" ↔ s = .waiting := by cases s <;> simp [codeOf]

theorem satU32_eq (a b : Nat) : satU32 a b = satAdd a b := rfl

theorem elapsedM_iff (l d now : Nat) : elapsedM l d now = true ↔ elapsed l d now := by
  unfold elapsedM elapsed U32_MAX
  simp

/-- the reported pair of an id is what the ghost log prescribes -/
theorem expectedSt_toG {s : Timelock.State} (hi : Inv s) (id : Id) :
    expectedSt (toG (Timelock.ghost s.log id)) s.now =
      (codeOf (getOperationState s id), getOperationLedger s id) := by
  have hc := hi.coh id
  unfold getOperationState getOperationLedger
  cases hg : Timelock.ghost s.log id with
  | unset =>
    rw [hg] at hc
    have h0 : s.ledger id = 0 := hc
    rw [stateOf_unset.mpr h0, h0]; rfl
  | done =>
    rw [hg] at hc
    have h1 : s.ledger id = 1 := hc
    rw [stateOf_done.mpr h1, h1]; rfl
  | pending l d mn =>
    rw [hg] at hc
    obtain ⟨hv, _, hl2, _⟩ := hc
    have hge : 2 ≤ s.ledger id := by rw [hv]; exact satAdd_ge_two hl2
    show expectedSt (.pending l d) s.now = _
    unfold expectedSt
    simp only
    by_cases he : elapsed l d s.now
    · rw [if_pos ((elapsedM_iff l d s.now).mpr he)]
      have hs : stateOf (s.ledger id) s.now = .ready :=
        stateOf_ready.mpr ⟨hge, by rw [hv]; exact (satAdd_le_iff_elapsed hi.nowHi).mpr he⟩
      rw [hs, hv, satU32_eq]; rfl
    · rw [if_neg (fun h => he ((elapsedM_iff l d s.now).mp h))]
      have hs : stateOf (s.ledger id) s.now = .waiting := by
        apply stateOf_waiting.mpr ⟨hge, ?_⟩
        rw [hv]
        have : ¬ satAdd l d ≤ s.now := fun h => he ((satAdd_le_iff_elapsed hi.nowHi).mp h)
        omega
      rw [hs, hv, satU32_eq]; rfl

/-! ### observation fields of the model -/

theorem modelSt_length (c : CState) (defs : List Operation) : (modelSt c defs).length = defs.length := by
  unfold modelSt; simp

theorem modelSt_get (c : CState) (defs : List Operation) (k : Nat) :
    (modelSt c defs)[k]? = (defs[k]?).map (fun d => (codeOf (getOperationState c.tl d.id), getOperationLedger c.tl d.id)) := by
  unfold modelSt; simp

theorem stCode_model (c : CState) (defs : List Operation) (ok : Bool) (eq : Option (List Nat)) (k : Nat) :
    stCode (modelObs c defs ok eq) k =
      match defs[k]? with
      | some d => codeOf (getOperationState c.tl d.id)
      | none => "?" := by
  unfold stCode
  show (match (modelSt c defs)[k]? with | some (c, _) => c | none => "?") = _
  rw [modelSt_get]
  cases defs[k]? <;> rfl

theorem stCode_model_some (c : CState) (defs : List Operation) (ok : Bool) (eq : Option (List Nat)) (k : Nat)
    (d : Operation) (h : defs[k]? = some d) :
    stCode (modelObs c defs ok eq) k = codeOf (getOperationState c.tl d.id) := by
  rw [stCode_model, h]

/-! ### the state check -/

theorem stateBad_none (m : Mon) (c : CState) (defs : List Operation) (ok : Bool) (eq : Option (List Nat))
    (hi : Inv c.tl) (hd : m.defs = defs) (hg : ∀ id, m.get (some id) = toG (Timelock.ghost c.tl.log id)) (k : Nat) :
    stateBad m (modelObs c defs ok eq) k = none := by
  unfold stateBad
  rw [hd]
  show (match defs[k]?, (modelSt c defs)[k]? with
    | some d, some (c', l) => _
    | _, _ => none) = none
  rw [modelSt_get]
  cases hk : defs[k]? with
  | none => rfl
  | some d =>
    simp only [Option.map_some]
    rw [if_neg (codeOf_ne_X _), if_neg]
    rw [hg]
    intro h
    exact h (expectedSt_toG hi d.id)

theorem checkStates_quiet (m : Mon) (c : CState) (defs : List Operation) (ok : Bool) (eq : Option (List Nat))
    (hi : Inv c.tl) (hd : m.defs = defs) (hg : ∀ id, m.get (some id) = toG (Timelock.ghost c.tl.log id)) :
    checkStates m (modelObs c defs ok eq) = none := by
  unfold checkStates
  have : (List.range (modelObs c defs ok eq).st.length).filterMap (stateBad m (modelObs c defs ok eq)) = [] := by
    rw [List.filterMap_eq_nil_iff]
    intro k _
    exact stateBad_none m c defs ok eq hi hd hg k
  rw [this]; rfl

/-- a definition line / a line on which the ghost log does not move: if the verdict is silent, the
monitor's ghost log reads like the model's log and the model state satisfies the invariant, then
the state check is silent too, and the new monitor state agrees with the model state -/
theorem finDef_sound (m' : Mon) (x' : MS) (ok : Bool) (eq : Option (List Nat)) (f : Option String)
    (hf : f = none) (hi' : Inv x'.c.tl) (hd : m'.defs = x'.defs)
    (hg : ∀ id, m'.get (some id) = toG (Timelock.ghost x'.c.tl.log id)) :
    (finDef (modelObs x'.c x'.defs ok eq) m' f).2 = none ∧ Agree (finDef (modelObs x'.c x'.defs ok eq) m' f).1 x' := by
  subst hf
  constructor
  · show firstSome none (checkStates m' _) = none
    exact checkStates_quiet m' x'.c x'.defs ok eq hi' hd hg
  · exact ⟨hd, fun id => by rw [← hg id]; rfl, fun p hp => by
      injection hp with hp; exact ⟨ok, eq, hp.symm⟩, fun h => by cases h⟩

/-- a call line: the same, with the ghost log after the call -/
theorem fin_sound (cl : CallLine) (pa : Option Nat) (m : Mon) (x' : MS) (ok : Bool) (f : Option String)
    (hf : f = none) (hi' : Inv x'.c.tl)
    (hd : (ghostAfter m cl (modelObs x'.c x'.defs ok none) pa).defs = x'.defs)
    (hg : ∀ id, (ghostAfter m cl (modelObs x'.c x'.defs ok none) pa).get (some id) =
      toG (Timelock.ghost x'.c.tl.log id)) :
    (fin cl pa (modelObs x'.c x'.defs ok none) m f).2 = none ∧
    Agree (fin cl pa (modelObs x'.c x'.defs ok none) m f).1 x' := by
  subst hf
  constructor
  · show firstSome none (checkStates _ _) = none
    exact checkStates_quiet _ x'.c x'.defs ok none hi' hd hg
  · exact ⟨hd, fun id => by rw [← hg id]; rfl, fun p hp => by
      injection hp with hp; exact ⟨ok, none, hp.symm⟩, fun h => by cases h⟩

/-! ### `findDef` -/

theorem findDef_some {defs : List Operation} {id : Id} {k : Nat} (h : findDef defs (some id) = some k) :
    (defs[k]?).map Operation.id = some id := by
  unfold findDef at h
  have := List.find?_some h
  simpa using this

theorem findDef_of_mem {defs : List Operation} {id : Id} (h : id ∈ defs.map Operation.id) :
    ∃ k, findDef defs (some id) = some k := by
  show ∃ k, (List.range defs.length).find? (fun k => decide ((defs[k]?).map Operation.id = some id)) = some k
  cases hf : (List.range defs.length).find? (fun k => decide ((defs[k]?).map Operation.id = some id)) with
  | some k => exact ⟨k, rfl⟩
  | none =>
    exfalso
    rw [List.find?_eq_none] at hf
    obtain ⟨d, hd, he⟩ := List.mem_map.mp h
    obtain ⟨k, hk, hdk⟩ := List.getElem_of_mem hd
    apply hf k (List.mem_range.mpr hk)
    simp [List.getElem?_eq_getElem hk, hdk, he]

/-! ### resolution of descriptors, contexts and tokens -/

theorem resolveMetas_length {defs : List Operation} {l : List MetaM} {ms : List Meta}
    (h : resolveMetas defs l = some ms) : ms.length = l.length := by
  induction l generalizing ms with
  | nil => injection h with h; subst h; rfl
  | cons md rest ih =>
    unfold resolveMetas at h
    cases h1 : resolveMeta defs md with
    | none => rw [h1] at h; cases h
    | some m =>
      cases h2 : resolveMetas defs rest with
      | none => rw [h1, h2] at h; cases h
      | some ms' =>
        rw [h1, h2] at h
        injection h with h; subst h
        simp [ih h2]

theorem resolveMetas_get {defs : List Operation} {l : List MetaM} {ms : List Meta}
    (h : resolveMetas defs l = some ms) (j : Nat) (md : MetaM) (hj : l[j]? = some md) :
    ∃ p, refKey defs md.p = some p ∧ ms[j]? = some ⟨p, md.s, md.e⟩ := by
  induction l generalizing ms j with
  | nil => simp at hj
  | cons md0 rest ih =>
    unfold resolveMetas at h
    cases h1 : resolveMeta defs md0 with
    | none => rw [h1] at h; cases h
    | some m =>
      cases h2 : resolveMetas defs rest with
      | none => rw [h1, h2] at h; cases h
      | some ms' =>
        rw [h1, h2] at h
        injection h with h; subst h
        cases j with
        | zero =>
          simp only [List.getElem?_cons_zero, Option.some.injEq] at hj
          subst hj
          unfold resolveMeta at h1
          cases hp : refKey defs md0.p with
          | none => rw [hp] at h1; cases h1
          | some p =>
            rw [hp] at h1
            injection h1 with h1
            exact ⟨p, rfl, by simp [← h1]⟩
        | succ j =>
          simp only [List.getElem?_cons_succ] at hj ⊢
          exact ih h2 j hj

theorem mem_resolveToks_call {metas : List Meta} {ctxs : List Context} {l : List AuthM} {a : Nat} :
    AuthTok.call a ∈ resolveToks metas ctxs l ↔ AuthM.call a ∈ l := by
  unfold resolveToks
  rw [List.mem_filterMap]
  constructor
  · rintro ⟨t, ht, he⟩
    cases t with
    | call i =>
      simp only [resolveTok, Option.some.injEq, AuthTok.call.injEq] at he
      subst he; exact ht
    | exec i j =>
      simp only [resolveTok] at he
      split at he
      · injection he with he; cases he
      · cases he
  · intro h
    exact ⟨.call a, h, rfl⟩

theorem mem_resolveToks_exec {metas : List Meta} {ctxs : List Context} {l : List AuthM}
    {ex addr fn : Nat} {args : List Nat} {pred : Id} {salt : Nat}
    (h : AuthTok.exec ex addr fn args pred salt ∈ resolveToks metas ctxs l) :
    ∃ j m, AuthM.exec ex j ∈ l ∧ ctxs[j]? = some (.contract addr fn args) ∧ metas[j]? = some m ∧
      m.pred = pred ∧ m.salt = salt := by
  unfold resolveToks at h
  rw [List.mem_filterMap] at h
  obtain ⟨t, ht, he⟩ := h
  cases t with
  | call i => simp [resolveTok] at he
  | exec i j =>
    simp only [resolveTok] at he
    split at he
    · rename_i a f ar m hc hm
      injection he with he
      injection he with e1 e2 e3 e4 e5 e6
      subst e1 e2 e3 e4
      exact ⟨j, m, ht, hc, hm, e5, e6⟩
    · cases he

end OZ.TimelockController.Mon
