import OZ.Lemmas.VotesTokens
import OZ.Model.VotesMon
/-
Helper lemmas for the soundness proof of the C13 monitor (OZ/Props/C13Mon.lean), model side:
what ONE accepted call of any of the three contracts does to the votes state, in the terms the
monitor can see (ledger, delegates, per-timeline checkpoint counter and last ledger, the past),
and the invariant of the reachable states (`VInv`).
-/
namespace OZ.Votes
open OZ.Host

/-! ### one call touches every timeline at most once -/

/-- ledger of the newest checkpoint -/
def lastLedger (t : Timeline) : Option Nat :=
  if t.num = 0 then none else (t.cp (t.num - 1)).map (·.ledger)

/-- a timeline before / after one call at ledger `now`: untouched or one `store` -/
def TlStep (now : Nat) (t t' : Timeline) : Prop := t' = t ∨ ∃ v, store t now v = .ok t'

/-- the two shapes of a `TlStep`: the counter stays (then the newest ledger stays, and the value
can only have changed if that ledger is the current one) or the counter grows by one (then the
newest ledger was not the current one and now is) -/
theorem TlStep.facts {now : Nat} {t t' : Timeline} (h : TlStep now t t') :
    (t'.num = t.num ∧ lastLedger t' = lastLedger t ∧
      (latestVotes t' ≠ latestVotes t → lastLedger t = some now)) ∨
    (t'.num = t.num + 1 ∧ lastLedger t ≠ some now ∧ lastLedger t' = some now) := by
  rcases h with h | ⟨v, h⟩
  · subst h; exact .inl ⟨rfl, rfl, fun h => absurd rfl h⟩
  · obtain ⟨k, hn, hcp, hk⟩ := store_cases h
    have hnew : lastLedger t' = some now := by
      unfold lastLedger
      rw [if_neg (by omega), hn, hcp]
      simp only [Nat.add_sub_cancel]; rw [upd_same]; rfl
    rcases hk with ⟨hk, _, hne⟩ | ⟨hk, c, hc, hcl⟩
    · right
      refine ⟨by omega, ?_, hnew⟩
      unfold lastLedger
      by_cases h0 : t.num = 0
      · rw [if_pos h0]; intro e; cases e
      · rw [if_neg h0]
        cases hc : t.cp (t.num - 1) with
        | none => intro e; cases e
        | some c =>
          have := hne c h0 hc
          intro e
          simp only [Option.map] at e
          injection e with e
          exact this e
    · left
      have hl : lastLedger t = some now := by
        unfold lastLedger
        have e : t.num - 1 = k := by omega
        rw [if_neg (by omega), e, hc]
        simp only [Option.map]; rw [hcl]
      exact ⟨by omega, by rw [hl, hnew], fun _ => hl⟩

theorem pushAccount_tl {s s' : State} {who : Option Nat} {op : CheckpointOp} {amt : Nat}
    (h : pushAccount s who op amt = .ok s') :
    s'.now = s.now ∧ ∀ x, (who ≠ some x → s'.tl x = s.tl x) ∧
      (who = some x → ∃ v, store (s.tl x) s.now v = .ok (s'.tl x)) := by
  unfold pushAccount at h
  cases who with
  | none =>
    simp only at h; injection h with h; subst h
    exact ⟨rfl, fun x => ⟨fun _ => rfl, fun e => by cases e⟩⟩
  | some a =>
    simp only at h
    split at h
    · cases h
    · rename_i t ht
      injection h with h; subst h
      obtain ⟨v, _, hs⟩ := push_ok ht
      refine ⟨rfl, fun x => ⟨fun hx => ?_, fun hx => ?_⟩⟩
      · simp only
        rw [upd_other]
        intro e; exact hx (by rw [e])
      · injection hx with hx; subst hx
        simp only; rw [upd_same]; exact ⟨v, hs⟩

theorem moveDelegateVotes_tl {s s' : State} {f t : Option Nat} {amt : Nat}
    (h : moveDelegateVotes s f t amt = .ok s') : ∀ x, TlStep s.now (s.tl x) (s'.tl x) := by
  unfold moveDelegateVotes at h
  split at h
  · injection h with h; subst h; exact fun _ => .inl rfl
  · split at h
    · injection h with h; subst h; exact fun _ => .inl rfl
    · rename_i hft
      split at h
      · cases h
      · rename_i s1 h1
        obtain ⟨n1, p1⟩ := pushAccount_tl h1
        obtain ⟨n2, p2⟩ := pushAccount_tl h
        intro x
        by_cases hfx : f = some x
        · have htx : t ≠ some x := fun e => hft (by rw [hfx, e])
          obtain ⟨v, hv⟩ := (p1 x).2 hfx
          exact .inr ⟨v, by rw [(p2 x).1 htx]; exact hv⟩
        · by_cases htx : t = some x
          · obtain ⟨v, hv⟩ := (p2 x).2 htx
            rw [(p1 x).1 hfx, n1] at hv
            exact .inr ⟨v, hv⟩
          · exact .inl (by rw [(p2 x).1 htx, (p1 x).1 hfx])

/-- the account / delegatee of a `delegate` request, the distance of a ledger movement -/
def Act.delT : Act → Option (Nat × Nat)
  | .delegate a d => some (a, d)
  | _ => none

def Act.adv : Act → Option Nat
  | .advance n => some n
  | _ => none

/-- the delegate map after an accepted call -/
def delUpd (f : Nat → Option Nat) : Option (Nat × Nat) → (Nat → Option Nat)
  | some (a, d) => upd f a (some d)
  | none => f

/-- what one accepted request to the library does, in the monitor's terms -/
theorem act_facts {v v' : State} {auth : List Nat} {a : Act} (h : act v auth a = .ok v') :
    v'.now = v.now + a.adv.getD 0 ∧
    v'.delegatee = delUpd v.delegatee a.delT ∧
    (∀ x, TlStep v.now (v.tl x) (v'.tl x)) ∧
    (∀ n, a.adv = some n → v'.tl = v.tl ∧ v'.total = v.total ∧ v'.units = v.units) := by
  cases a with
  | nothing =>
    injection h with h; subst h
    exact ⟨rfl, rfl, fun _ => .inl rfl, fun n e => by cases e⟩
  | advance n =>
    injection h with h; subst h
    exact ⟨rfl, rfl, fun _ => .inl rfl, fun _ _ => ⟨rfl, rfl, rfl⟩⟩
  | move f t amt =>
    simp only [act] at h
    refine ⟨?_, ?_, ?_, fun n e => by cases e⟩
    · exact (transfer_frame h).now
    · rcases transferVotingUnits_ok h with ⟨_, he⟩ | ⟨_, s1, s2, h1, h2, h3⟩
      · subst he; rfl
      · obtain ⟨d1, _, _, _⟩ := debitUnits_ok h1
        obtain ⟨d2, _, _, _⟩ := creditUnits_ok h2
        obtain ⟨_, d3, _, _, _⟩ := moveDelegateVotes_ok h3
        show v'.delegatee = v.delegatee
        rw [d3, d2, d1]
    · rcases transferVotingUnits_ok h with ⟨_, he⟩ | ⟨_, s1, s2, h1, h2, h3⟩
      · subst he; exact fun _ => .inl rfl
      · obtain ⟨_, t1, f1, _⟩ := debitUnits_ok h1
        obtain ⟨_, t2, f2, _⟩ := creditUnits_ok h2
        have := moveDelegateVotes_tl h3
        rw [t2, t1, f2.now, f1.now] at this
        exact this
  | delegate x d =>
    simp only [act] at h
    obtain ⟨_, _, hm⟩ := delegate_ok h
    obtain ⟨_, d3, _, fr3, _⟩ := moveDelegateVotes_ok hm
    have htl : ∀ y, TlStep v.now (v.tl y) (v'.tl y) :=
      moveDelegateVotes_tl (s := { v with delegatee := upd v.delegatee x (some d) }) hm
    exact ⟨fr3.now, d3, htl, fun n e => by cases e⟩

end OZ.Votes

/-! ## the two wrappers: the shape of the request an entry point sends to the library -/

namespace OZ.FungibleVotes
open OZ.Host OZ.Votes OZ.Fungible

def Op.delT : Op → Option (Nat × Nat)
  | .delegate a d => some (a, d)
  | _ => none

def Op.adv : Op → Option Nat
  | .advance n => some n
  | _ => none

theorem moveAct_shape (f t : Option Nat) (amt : Int) :
    (moveAct f t amt).delT = none ∧ (moveAct f t amt).adv = none := by
  unfold moveAct; split <;> exact ⟨rfl, rfl⟩

theorem base_shape {c : Cfg} {tok tok' : OZ.Fungible.State} {auth : List Nat} {op : Op} {a : Act}
    (h : base c tok auth op = .ok (tok', a)) :
    a.delT = op.delT ∧ a.adv = op.adv ∧ (∀ n, op.adv = some n → tok'.bal = tok.bal) := by
  cases op with
  | mint t amt =>
    obtain ⟨s2, _, he⟩ := map_ok h
    injection he with he1 he2; subst he2
    exact ⟨(moveAct_shape _ _ _).1, (moveAct_shape _ _ _).2, fun n e => by cases e⟩
  | transfer f t amt =>
    obtain ⟨s2, _, he⟩ := map_ok h
    injection he with he1 he2; subst he2
    exact ⟨(moveAct_shape _ _ _).1, (moveAct_shape _ _ _).2, fun n e => by cases e⟩
  | transferFrom sp f t amt =>
    obtain ⟨s2, _, he⟩ := map_ok h
    injection he with he1 he2; subst he2
    exact ⟨(moveAct_shape _ _ _).1, (moveAct_shape _ _ _).2, fun n e => by cases e⟩
  | approve o sp amt lu =>
    obtain ⟨s2, _, he⟩ := map_ok h
    injection he with he1 he2; subst he2
    exact ⟨rfl, rfl, fun n e => by cases e⟩
  | burn f amt =>
    obtain ⟨s2, _, he⟩ := map_ok h
    injection he with he1 he2; subst he2
    exact ⟨(moveAct_shape _ _ _).1, (moveAct_shape _ _ _).2, fun n e => by cases e⟩
  | burnFrom sp f amt =>
    obtain ⟨s2, _, he⟩ := map_ok h
    injection he with he1 he2; subst he2
    exact ⟨(moveAct_shape _ _ _).1, (moveAct_shape _ _ _).2, fun n e => by cases e⟩
  | delegate x d =>
    injection h with h; injection h with h1 h2; subst h1; subst h2
    exact ⟨rfl, rfl, fun n e => by cases e⟩
  | advance n =>
    injection h with h; injection h with h1 h2; subst h1; subst h2
    exact ⟨rfl, rfl, fun _ _ => rfl⟩

theorem exampleApply_ok {c : Cfg} {owner : Nat} {s s' : State} {auth : List Nat} {op : Op}
    (h : exampleApply c owner s auth op = .ok s') : apply c s auth op = .ok s' := by
  cases op with
  | mint t a =>
    simp only [exampleApply] at h
    split at h
    · cases h
    · exact h
  | burn f a => cases h
  | burnFrom sp f a => cases h
  | transfer f t a => exact h
  | transferFrom sp f t a => exact h
  | approve o sp a lu => exact h
  | delegate a d => exact h
  | advance n => exact h

/-- moving the ledger is never rejected -/
theorem adv_ok (c : Cfg) (s : State) (auth : List Nat) {op : Op} {n : Nat} (h : op.adv = some n) :
    ∃ s', apply c s auth op = .ok s' := by
  cases op <;> first | (cases h; done) | exact ⟨_, rfl⟩

theorem example_adv_ok (c : Cfg) (owner : Nat) (s : State) (auth : List Nat) {op : Op} {n : Nat}
    (h : op.adv = some n) : ∃ s', exampleApply c owner s auth op = .ok s' := by
  cases op <;> first | (cases h; done) | exact ⟨_, rfl⟩

/-- one accepted entry point of the fungible wrapper, in the monitor's terms -/
theorem apply_facts {c : Cfg} {s s' : State} {auth : List Nat} {op : Op} {U : List Nat} (hn : U.Nodup)
    (hU : ∀ a ∈ op.addrs, a ∈ U) (h : apply c s auth op = .ok s') :
    (Inv U s.v → Inv U s'.v) ∧ SamePast s.v s'.v ∧
    s'.v.now = s.v.now + op.adv.getD 0 ∧
    s'.v.delegatee = delUpd s.v.delegatee op.delT ∧
    (∀ x, TlStep s.v.now (s.v.tl x) (s'.v.tl x)) ∧
    (∀ n, op.adv = some n →
      s'.v.tl = s.v.tl ∧ s'.v.total = s.v.total ∧ s'.v.units = s.v.units ∧ s'.tok.bal = s.tok.bal) := by
  have hr := step_refines c s (auth, op)
  have hst : step c s (auth, op) = s' := by unfold step; simp only [h]
  rw [hst] at hr
  obtain ⟨a, hb, ha⟩ := apply_ok h
  obtain ⟨e1, e2, e3⟩ := base_shape hb
  obtain ⟨a1, a2, a3, a4⟩ := act_facts ha
  refine ⟨fun hi => ?_, ?_, by rw [a1, e2], by rw [a2, e1], a3, fun n hn' => ?_⟩
  · rw [hr]
    exact run_inv hn hi _ (fun y hy z hz => hU z (vops_addrs c s (auth, op) y hy z hz))
  · rw [hr]; exact run_samePast _ _
  · obtain ⟨b1, b2, b3⟩ := a4 n (by rw [e2]; exact hn')
    exact ⟨b1, b2, b3, e3 n hn'⟩

end OZ.FungibleVotes

namespace OZ.NonFungibleVotes
open OZ.Host OZ.Votes

def Op.delT : Op → Option (Nat × Nat)
  | .delegate a d => some (a, d)
  | _ => none

def Op.adv : Op → Option Nat
  | .advance n => some n
  | _ => none

theorem base_shape {c : Cfg} {n n' : Nft} {auth : List Nat} {op : Op} {a : Act}
    (h : base c n auth op = .ok (n', a)) :
    a.delT = op.delT ∧ a.adv = op.adv ∧ (∀ k, op.adv = some k → n'.bal = n.bal) := by
  cases op with
  | mint t id =>
    obtain ⟨n2, _, he⟩ := map_ok h
    injection he with he1 he2; subst he2
    exact ⟨rfl, rfl, fun k e => by cases e⟩
  | sequentialMint t =>
    obtain ⟨n2, _, he⟩ := map_ok h
    injection he with he1 he2; subst he2
    exact ⟨rfl, rfl, fun k e => by cases e⟩
  | transfer f t id =>
    obtain ⟨n2, _, he⟩ := map_ok h
    injection he with he1 he2; subst he2
    exact ⟨rfl, rfl, fun k e => by cases e⟩
  | transferFrom sp f t id =>
    obtain ⟨n2, _, he⟩ := map_ok h
    injection he with he1 he2; subst he2
    exact ⟨rfl, rfl, fun k e => by cases e⟩
  | burn f id =>
    obtain ⟨n2, _, he⟩ := map_ok h
    injection he with he1 he2; subst he2
    exact ⟨rfl, rfl, fun k e => by cases e⟩
  | burnFrom sp f id =>
    obtain ⟨n2, _, he⟩ := map_ok h
    injection he with he1 he2; subst he2
    exact ⟨rfl, rfl, fun k e => by cases e⟩
  | approve x b id lu =>
    obtain ⟨n2, _, he⟩ := map_ok h
    injection he with he1 he2; subst he2
    exact ⟨rfl, rfl, fun k e => by cases e⟩
  | approveForAll o p lu =>
    obtain ⟨n2, _, he⟩ := map_ok h
    injection he with he1 he2; subst he2
    exact ⟨rfl, rfl, fun k e => by cases e⟩
  | delegate x d =>
    injection h with h; injection h with h1 h2; subst h1; subst h2
    exact ⟨rfl, rfl, fun k e => by cases e⟩
  | advance k =>
    injection h with h; injection h with h1 h2; subst h1; subst h2
    exact ⟨rfl, rfl, fun _ _ => rfl⟩

/-- moving the ledger is never rejected -/
theorem adv_ok (c : Cfg) (s : State) (auth : List Nat) {op : Op} {n : Nat} (h : op.adv = some n) :
    ∃ s', apply c s auth op = .ok s' := by
  cases op <;> first | (cases h; done) | exact ⟨_, rfl⟩

/-- one accepted entry point of the non-fungible wrapper, in the monitor's terms -/
theorem apply_facts {c : Cfg} {s s' : State} {auth : List Nat} {op : Op} {U : List Nat} (hn : U.Nodup)
    (hU : ∀ a ∈ op.addrs, a ∈ U) (h : apply c s auth op = .ok s') :
    (Inv U s.v → Inv U s'.v) ∧ SamePast s.v s'.v ∧
    s'.v.now = s.v.now + op.adv.getD 0 ∧
    s'.v.delegatee = delUpd s.v.delegatee op.delT ∧
    (∀ x, TlStep s.v.now (s.v.tl x) (s'.v.tl x)) ∧
    (∀ k, op.adv = some k →
      s'.v.tl = s.v.tl ∧ s'.v.total = s.v.total ∧ s'.v.units = s.v.units ∧ s'.nft.bal = s.nft.bal) := by
  have hr := step_refines c s (auth, op)
  have hst : step c s (auth, op) = s' := by unfold step; simp only [h]
  rw [hst] at hr
  obtain ⟨a, hb, ha⟩ := apply_ok h
  obtain ⟨e1, e2, e3⟩ := base_shape hb
  obtain ⟨a1, a2, a3, a4⟩ := act_facts ha
  refine ⟨fun hi => ?_, ?_, by rw [a1, e2], by rw [a2, e1], a3, fun k hk => ?_⟩
  · rw [hr]
    exact run_inv hn hi _ (fun y hy z hz => hU z (vops_addrs c s (auth, op) y hy z hz))
  · rw [hr]; exact run_samePast _ _
  · obtain ⟨b1, b2, b3⟩ := a4 k (by rw [e2]; exact hk)
    exact ⟨b1, b2, b3, e3 k hk⟩

end OZ.NonFungibleVotes

/-! ## the model step of the driver (`mstep`) in the monitor's terms -/

namespace OZ.Votes.Mon
open OZ.Host OZ.Votes

/-- what the observation shows of a model state: which contract, its votes state, its balances -/
structure View where
  kind : Kind
  v : OZ.Votes.State
  bal : Nat → Int

def viewOf (m : M) : View :=
  ⟨m.kind, vOf m, fun i => if m.kind = .nft then (m.nf.nft.bal i : Int) else m.fv.tok.bal i⟩

theorem viewOf_nft {m : M} (h : m.kind = .nft) :
    viewOf m = ⟨.nft, m.nf.v, fun i => (m.nf.nft.bal i : Int)⟩ := by
  unfold viewOf vOf; simp only [h, if_true]

theorem viewOf_fv {m : M} (h : m.kind ≠ .nft) : viewOf m = ⟨m.kind, m.fv.v, m.fv.tok.bal⟩ := by
  unfold viewOf vOf; simp only [h, if_false]

/-- the reachable states: C13's invariant over the observed universe `0 .. N-1`, units =
balance, and nothing before the start ledger -/
structure VInv (start : Nat) (w : View) : Prop where
  inv : Inv (List.range N) w.v
  bal : ∀ x, (w.v.units x : Int) = w.bal x
  past : SamePast (OZ.Votes.init start) w.v

/-- what one ACCEPTED model call does to the view, as far as the monitor can tell -/
structure Trans (w w' : View) (p : Parsed) : Prop where
  kind : w'.kind = w.kind
  now : w'.v.now = w.v.now + (if p.op = "advance" then p.n else 0)
  past : SamePast w.v w'.v
  del : w'.v.delegatee = delUpd w.v.delegatee (delTarget p)
  tl : ∀ x, TlStep w.v.now (w.v.tl x) (w'.v.tl x)
  idle : p.op = "advance" →
    w'.v.tl = w.v.tl ∧ w'.v.total = w.v.total ∧ w'.v.units = w.v.units ∧ w'.bal = w.bal

/-- a well-formed op line for the contract under test, over the observed accounts -/
def Valid (k : Kind) (p : Parsed) : Prop :=
  match k with
  | .nft => ∃ op, nftOp p = some op ∧ ∀ a ∈ op.addrs, a < N
  | _ => ∃ op, fvOp p = some op ∧ ∀ a ∈ op.addrs, a < N

theorem fvOp_view {p : Parsed} {op : OZ.FungibleVotes.Op} (h : fvOp p = some op) :
    delTarget p = op.delT ∧ op.adv.getD 0 = (if p.op = "advance" then p.n else 0) ∧
    (p.op = "advance" → op.adv = some p.n) := by
  unfold fvOp at h
  split at h <;> first | cases h | skip
  all_goals simp_all [delTarget, OZ.FungibleVotes.Op.delT, OZ.FungibleVotes.Op.adv]

theorem nftOp_view {p : Parsed} {op : OZ.NonFungibleVotes.Op} (h : nftOp p = some op) :
    delTarget p = op.delT ∧ op.adv.getD 0 = (if p.op = "advance" then p.n else 0) ∧
    (p.op = "advance" → op.adv = some p.n) := by
  unfold nftOp at h
  split at h <;> first | cases h | skip
  all_goals simp_all [delTarget, OZ.NonFungibleVotes.Op.delT, OZ.NonFungibleVotes.Op.adv]

theorem range_nodup (n : Nat) : (List.range n).Nodup := List.nodup_range

theorem mem_range_of_lt {n a : Nat} (h : a < n) : a ∈ List.range n := List.mem_range.mpr h

theorem nft_step_sound {start : Nat} {m : M} {p : Parsed} {op : OZ.NonFungibleVotes.Op} (hk : m.kind = .nft)
    (hop : nftOp p = some op) (hU : ∀ a ∈ op.addrs, a < N) (hi : VInv start (viewOf m))
    {s' : OZ.NonFungibleVotes.State} (ha : OZ.NonFungibleVotes.apply m.cfg m.nf p.auth op = .ok s') :
    VInv start (viewOf { m with nf := s' }) ∧ Trans (viewOf m) (viewOf { m with nf := s' }) p := by
  obtain ⟨f1, f2, f3, f4, f5, f6⟩ :=
    OZ.NonFungibleVotes.apply_facts (range_nodup N) (fun a ha => mem_range_of_lt (hU a ha)) ha
  obtain ⟨v1, v2, v3⟩ := nftOp_view hop
  rw [viewOf_nft hk] at hi ⊢
  rw [viewOf_nft (m := { m with nf := s' }) hk]
  have hu : ∀ x, m.nf.v.units x = m.nf.nft.bal x := fun x => by
    have := hi.bal x; simp only at this; omega
  have hu' := OZ.NonFungibleVotes.apply_units hu ha
  refine ⟨⟨f1 hi.inv, fun x => by simp only; rw [hu' x], hi.past.trans f2⟩, ?_⟩
  refine ⟨rfl, by simp only; rw [f3, v2], f2, by simp only; rw [f4, v1], f5, fun hadv => ?_⟩
  obtain ⟨b1, b2, b3, b4⟩ := f6 p.n (v3 hadv)
  exact ⟨b1, b2, b3, by simp only; rw [b4]⟩

theorem fv_step_sound {start : Nat} {m : M} {p : Parsed} {op : OZ.FungibleVotes.Op} (hk : m.kind ≠ .nft)
    (hop : fvOp p = some op) (hU : ∀ a ∈ op.addrs, a < N) (hi : VInv start (viewOf m))
    {s' : OZ.FungibleVotes.State} (ha : OZ.FungibleVotes.apply m.cfg m.fv p.auth op = .ok s') :
    VInv start (viewOf { m with fv := s' }) ∧ Trans (viewOf m) (viewOf { m with fv := s' }) p := by
  obtain ⟨f1, f2, f3, f4, f5, f6⟩ :=
    OZ.FungibleVotes.apply_facts (range_nodup N) (fun a ha => mem_range_of_lt (hU a ha)) ha
  obtain ⟨v1, v2, v3⟩ := fvOp_view hop
  rw [viewOf_fv hk] at hi ⊢
  rw [viewOf_fv (m := { m with fv := s' }) hk]
  have hu' := OZ.FungibleVotes.apply_units hi.bal ha
  refine ⟨⟨f1 hi.inv, hu', hi.past.trans f2⟩, ?_⟩
  refine ⟨rfl, by simp only; rw [f3, v2], f2, by simp only; rw [f4, v1], f5, fun hadv => ?_⟩
  exact f6 p.n (v3 hadv)

/-- **the model step in the monitor's terms**: a well-formed op line is an entry point of the
contract under test; a rejected call leaves the model where it was, an accepted one keeps the
invariant and is a `Trans` -/
theorem mstep_sound {start : Nat} {m : M} {p : Parsed} (hv : Valid m.kind p) (hi : VInv start (viewOf m)) :
    ∃ m' ok, mstep m p = some (m', ok) ∧ m'.kind = m.kind ∧ VInv start (viewOf m') ∧
      (ok = false → m' = m) ∧ (ok = true → Trans (viewOf m) (viewOf m') p) ∧
      (p.op = "advance" → ok = true) := by
  cases hk : m.kind with
  | nft =>
    rw [hk] at hv
    obtain ⟨op, hop, hU⟩ := hv
    have hms : mstep m p = some (okM m (fun s' => { m with nf := s' })
        (OZ.NonFungibleVotes.apply m.cfg m.nf p.auth op)) := by
      unfold mstep; simp only [hk, hop]
    cases ha : OZ.NonFungibleVotes.apply m.cfg m.nf p.auth op with
    | error e =>
      refine ⟨m, false, by rw [hms, ha]; rfl, hk, hi, fun _ => rfl, (fun e => by cases e), fun hadv => ?_⟩
      obtain ⟨s', hs'⟩ := OZ.NonFungibleVotes.adv_ok m.cfg m.nf p.auth ((nftOp_view hop).2.2 hadv)
      rw [hs'] at ha; cases ha
    | ok s' =>
      obtain ⟨g1, g2⟩ := nft_step_sound hk hop hU hi ha
      exact ⟨{ m with nf := s' }, true, by rw [hms, ha]; rfl, hk, g1, (fun e => by cases e), (fun _ => g2), fun _ => rfl⟩
  | ex =>
    rw [hk] at hv
    obtain ⟨op, hop, hU⟩ := hv
    have hne : m.kind ≠ .nft := by rw [hk]; intro e; cases e
    have hms : mstep m p = some (okM m (fun s' => { m with fv := s' })
        (OZ.FungibleVotes.exampleApply m.cfg OWNER m.fv p.auth op)) := by
      unfold mstep; simp only [hk, hop, if_true]
    cases ha : OZ.FungibleVotes.exampleApply m.cfg OWNER m.fv p.auth op with
    | error e =>
      refine ⟨m, false, by rw [hms, ha]; rfl, hk, hi, fun _ => rfl, (fun e => by cases e), fun hadv => ?_⟩
      obtain ⟨s', hs'⟩ := OZ.FungibleVotes.example_adv_ok m.cfg OWNER m.fv p.auth ((fvOp_view hop).2.2 hadv)
      rw [hs'] at ha; cases ha
    | ok s' =>
      obtain ⟨g1, g2⟩ := fv_step_sound hne hop hU hi (OZ.FungibleVotes.exampleApply_ok ha)
      exact ⟨{ m with fv := s' }, true, by rw [hms, ha]; rfl, hk, g1, (fun e => by cases e), (fun _ => g2), fun _ => rfl⟩
  | fvb =>
    rw [hk] at hv
    obtain ⟨op, hop, hU⟩ := hv
    have hne : m.kind ≠ .nft := by rw [hk]; intro e; cases e
    have hms : mstep m p = some (okM m (fun s' => { m with fv := s' })
        (OZ.FungibleVotes.apply m.cfg m.fv p.auth op)) := by
      unfold mstep; simp [hk, hop]
    cases ha : OZ.FungibleVotes.apply m.cfg m.fv p.auth op with
    | error e =>
      refine ⟨m, false, by rw [hms, ha]; rfl, hk, hi, fun _ => rfl, (fun e => by cases e), fun hadv => ?_⟩
      obtain ⟨s', hs'⟩ := OZ.FungibleVotes.adv_ok m.cfg m.fv p.auth ((fvOp_view hop).2.2 hadv)
      rw [hs'] at ha; cases ha
    | ok s' =>
      obtain ⟨g1, g2⟩ := fv_step_sound hne hop hU hi ha
      exact ⟨{ m with fv := s' }, true, by rw [hms, ha]; rfl, hk, g1, (fun e => by cases e), (fun _ => g2), fun _ => rfl⟩

theorem init_vinv (k : Kind) (c : Cfg) (start : Nat) : VInv start (viewOf (M.init k c start)) := by
  have e : viewOf (M.init k c start) = ⟨k, OZ.Votes.init start, fun _ => 0⟩ := by
    cases k <;> rfl
  rw [e]
  exact ⟨init_inv _ _, fun _ => rfl, SamePast.refl _⟩

end OZ.Votes.Mon
