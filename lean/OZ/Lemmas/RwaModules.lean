import OZ.Lemmas.RwaInv
/-
The modular compliance contract: the verdict loop (`consult`), the module registry
(duplicate-free), and what the modules receive from one successful invocation.
-/
namespace OZ.Rwa
open OZ.Host OZ.Fungible

/-! ### the verdict loop -/

theorem consult_true_iff (v : Nat → Bool) (ms : List Nat) :
    (consult v ms).2 = true ↔ ∀ m ∈ ms, v m = true := by
  induction ms with
  | nil => simp [consult]
  | cons x xs ih =>
    unfold consult
    by_cases hx : v x = true
    · rw [if_pos hx]; simp only [List.mem_cons, forall_eq_or_imp]; rw [ih]; exact ⟨fun h => ⟨hx, h⟩, fun h => h.2⟩
    · rw [if_neg hx]; simp only [List.mem_cons, forall_eq_or_imp]
      exact ⟨fun h => (by cases h), fun h => absurd h.1 hx⟩

/-- when the verdict is `true` every registered module was consulted, in registration order -/
theorem consult_called_all (v : Nat → Bool) (ms : List Nat) (h : (consult v ms).2 = true) :
    (consult v ms).1 = ms := by
  induction ms with
  | nil => rfl
  | cons x xs ih =>
    unfold consult at h ⊢
    by_cases hx : v x = true
    · rw [if_pos hx] at h ⊢; simp only at h ⊢; rw [ih h]
    · rw [if_neg hx] at h; cases h

/-- when the verdict is `false` the loop stopped at the FIRST rejecting module: everything before
it approved and was consulted, nothing after it was called -/
theorem consult_called_until_veto (v : Nat → Bool) (ms : List Nat) (h : (consult v ms).2 = false) :
    ∃ pre m post, ms = pre ++ m :: post ∧ (∀ x ∈ pre, v x = true) ∧ v m = false ∧
      (consult v ms).1 = pre ++ [m] := by
  induction ms with
  | nil => simp [consult] at h
  | cons x xs ih =>
    unfold consult at h ⊢
    by_cases hx : v x = true
    · rw [if_pos hx] at h ⊢
      obtain ⟨pre, m, post, e, hp, hm, hc⟩ := ih h
      refine ⟨x :: pre, m, post, by rw [e]; rfl, ?_, hm, by simp only; rw [hc]; rfl⟩
      intro y hy
      cases hy with
      | head => exact hx
      | tail _ hy => exact hp y hy
    · rw [if_neg hx]
      have hv : v x = false := by cases hv : v x <;> simp_all
      exact ⟨[], x, xs, rfl, fun y hy => (by cases hy), hv, rfl⟩

/-! ### one call to each module of a duplicate-free list -/

theorem callsTo_filter (ms : List Nat) (c : ModCall) (m : Nat) (hn : ms.Nodup) :
    (callsTo ms c).filter (fun x => x.1 = m) = if m ∈ ms then [(m, c)] else [] := by
  induction ms with
  | nil => rfl
  | cons x xs ih =>
    have hx : x ∉ xs := (List.nodup_cons.mp hn).1
    have hxs : xs.Nodup := (List.nodup_cons.mp hn).2
    have ih := ih hxs
    unfold callsTo at ih ⊢
    simp only [List.map_cons, List.filter_cons]
    by_cases hxm : x = m
    · subst hxm
      simp only [decide_true, if_true, List.mem_cons, true_or]
      rw [ih, if_neg hx]
    · have : decide (x = m) = false := by simp [hxm]
      simp only [this, Bool.false_eq_true, if_false, List.mem_cons]
      rw [ih]
      have : (m = x ∨ m ∈ xs) ↔ m ∈ xs := ⟨fun h => h.elim (fun e => absurd e.symm hxm) id, Or.inr⟩
      simp only [this]

/-! ### the registry stays duplicate-free -/

def ModsNodup (s : State) : Prop := ∀ h, (s.mods h).Nodup

theorem apply_modsNodup_aux (c : Cfg) {s s' : State} (hi : ModsNodup s) (auth : List Nat) (op : Op)
    (h : apply c s auth op = .ok s') : ModsNodup s' := by
  have keep : ∀ {s' : State}, s'.mods = s.mods → ModsNodup s' := by
    intro s' e k; rw [e]; exact hi k
  cases op with
  | transfer f t a => exact keep (transfer_ok (apply_transfer h)).2.env.mods
  | transferFrom sp f t a => exact keep (transferFrom_ok (apply_transferFrom h)).2.2.env.mods
  | approve o sp a lu =>
    obtain ⟨-, -, -, -, -, -, -, e, -⟩ := approve_ok (apply_approve h)
    exact keep e.mods
  | mint t a op => exact keep (mint_ok (apply_mint h).2).env.mods
  | burn x a op => exact keep (burn_ok (apply_burn h).2).env.mods
  | forcedTransfer f t a op => exact keep (forcedTransfer_ok (apply_forcedTransfer h).2).env.mods
  | recover old new op =>
    obtain ⟨-, r, hr⟩ := apply_recover h
    obtain ⟨-, -, hcase⟩ := recoverBalance_ok hr
    rcases hcase with ⟨-, -, e⟩ | ⟨-, -, p⟩
    · subst e; exact keep rfl
    · exact keep p.env.mods
  | freezePartial x a op =>
    obtain ⟨-, -, -, -, -, -, e, -⟩ := freezePartial_ok (apply_freezePartial h).2
    exact keep e.mods
  | unfreezePartial x a op =>
    obtain ⟨-, -, -, -, -, -, e, -⟩ := unfreezePartial_ok (apply_unfreezePartial h).2
    exact keep e.mods
  | setAddressFrozen x b op => obtain ⟨-, e⟩ := apply_setAddressFrozen h; subst e; exact keep rfl
  | pause op => obtain ⟨-, e⟩ := pause_ok (apply_pause h).2; subst e; exact keep rfl
  | unpause op => obtain ⟨-, e⟩ := unpause_ok (apply_unpause h).2; subst e; exact keep rfl
  | advance n => have e := apply_advance h; subst e; exact keep rfl
  | envIdOk a ok => have e := apply_envIdOk h; subst e; exact keep rfl
  | envRecTarget a t => have e := apply_envRecTarget h; subst e; exact keep rfl
  | envModule m ct cc => have e := apply_envModule h; subst e; exact keep rfl
  | addModule hk m op =>
    obtain ⟨hnot, -, e⟩ := addModule_ok (apply_addModule h).2
    subst e
    intro k
    show (if k = hk then s.mods hk ++ [m] else s.mods k).Nodup
    split
    · rw [List.nodup_append]
      refine ⟨hi hk, List.nodup_cons.mpr ⟨by simp, List.nodup_nil⟩, ?_⟩
      intro a ha b hb
      simp only [List.mem_singleton] at hb
      subst hb
      exact fun e => hnot (e ▸ ha)
    · exact hi k
  | removeModule hk m op =>
    obtain ⟨-, e⟩ := removeModule_ok (apply_removeModule h).2
    subst e
    intro k
    show (if k = hk then (s.mods hk).erase m else s.mods k).Nodup
    split
    · exact (hi hk).erase m
    · exact hi k
  | bindToken op => obtain ⟨-, e⟩ := bindToken_ok (apply_bindToken h).2; subst e; exact keep rfl
  | unbindToken op => obtain ⟨-, e⟩ := unbindToken_ok (apply_unbindToken h).2; subst e; exact keep rfl

/-! ### what the modules receive -/

theorem apply_modCalls_aux (c : Cfg) {s s' : State} (auth : List Nat) (op : Op)
    (h : apply c s auth op = .ok s') : s'.modCalls = s.modCalls ++ op.owedModCalls s := by
  have none : ∀ {s' : State} {l : List (Nat × ModCall)}, s'.modCalls = s.modCalls → l = [] →
      s'.modCalls = s.modCalls ++ l := by
    intro s' l e1 e2; rw [e1, e2, List.append_nil]
  cases op with
  | transfer f t a => exact (transfer_ok (apply_transfer h)).2.modCalls
  | transferFrom sp f t a => exact (transferFrom_ok (apply_transferFrom h)).2.2.modCalls
  | approve o sp a lu =>
    obtain ⟨-, -, -, -, -, -, -, -, -, e⟩ := approve_ok (apply_approve h)
    exact none e rfl
  | mint t a op => exact (mint_ok (apply_mint h).2).modCalls
  | burn x a op => exact (burn_ok (apply_burn h).2).modCalls
  | forcedTransfer f t a op => exact (forcedTransfer_ok (apply_forcedTransfer h).2).modCalls
  | recover old new op =>
    obtain ⟨-, r, hr⟩ := apply_recover h
    obtain ⟨-, -, hcase⟩ := recoverBalance_ok hr
    rcases hcase with ⟨-, hz, e⟩ | ⟨-, hnz, p⟩
    · subst e; exact none rfl (by simp [Op.owedModCalls, hz])
    · simp only [Op.owedModCalls]; rw [if_neg hnz]; exact p.modCalls
  | freezePartial x a op =>
    obtain ⟨-, -, -, -, -, -, -, -, -, e⟩ := freezePartial_ok (apply_freezePartial h).2
    exact none e rfl
  | unfreezePartial x a op =>
    obtain ⟨-, -, -, -, -, -, -, -, -, e⟩ := unfreezePartial_ok (apply_unfreezePartial h).2
    exact none e rfl
  | setAddressFrozen x b op => obtain ⟨-, e⟩ := apply_setAddressFrozen h; subst e; exact none rfl rfl
  | pause op => obtain ⟨-, e⟩ := pause_ok (apply_pause h).2; subst e; exact none rfl rfl
  | unpause op => obtain ⟨-, e⟩ := unpause_ok (apply_unpause h).2; subst e; exact none rfl rfl
  | advance n => have e := apply_advance h; subst e; exact none rfl rfl
  | envIdOk a ok => have e := apply_envIdOk h; subst e; exact none rfl rfl
  | envRecTarget a t => have e := apply_envRecTarget h; subst e; exact none rfl rfl
  | envModule m ct cc => have e := apply_envModule h; subst e; exact none rfl rfl
  | addModule hk m op => obtain ⟨-, -, e⟩ := addModule_ok (apply_addModule h).2; subst e; exact none rfl rfl
  | removeModule hk m op => obtain ⟨-, e⟩ := removeModule_ok (apply_removeModule h).2; subst e; exact none rfl rfl
  | bindToken op => obtain ⟨-, e⟩ := bindToken_ok (apply_bindToken h).2; subst e; exact none rfl rfl
  | unbindToken op => obtain ⟨-, e⟩ := unbindToken_ok (apply_unbindToken h).2; subst e; exact none rfl rfl

end OZ.Rwa
