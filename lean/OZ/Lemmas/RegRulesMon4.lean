import OZ.Lemmas.RegRulesMon3
/-
Helper facts for the soundness proof of the `rules` monitor of C20 (OZ/Props/C20dMon.lean), part 4:
the returned id (`idStep`), and each getter line of the model's observation (`n=`, `R=`, `T=`,
`nfp=`/`fpd=`/`fpok=`) against the plain list that describes the model state; the constructor rule.
-/
namespace OZ.RegRules.Mon
open OZ.Reg OZ.RegMon OZ.RegRules

/-! ### the returned id -/

/-- the `ret=` word the model driver prints, parsed: the id `NextId` of the OLD state for an
accepted `add_context_rule`, `-` otherwise -/
def retOf (s : State) (op : Op) (ok : Bool) : Option Nat :=
  match op, ok with
  | .add .., true => some s.nextId
  | _, _ => none

/-- on an agreed accepted call the id check passes and the ghost it builds (which follows the
returned id) describes the new model state -/
theorem idStep_ok {g g' : Mon} {s s' : State} (ha : Agree g s) (hI : Inv s) {op : Op}
    (hs : step installOk s op = .ok s') (ha' : Agree g' s') :
    ∃ g2, idStep g g' none op true (retOf s op true) = (g2, none) ∧ Agree g2 s' := by
  cases op with
  | add c n vu sg ps =>
    obtain ⟨_, rfl⟩ := (addContextRule_ok_iff installOk s s' c n vu sg ps).1 hs
    refine ⟨{ g' with rules := g.rules ++ [⟨s.nextId, c, n, vu, sg, ps⟩], maxId := s.nextId }, ?_, ?_, rfl, ha'.now⟩
    · show (if s.nextId ≤ g.maxId then _ else if (none : Option String).isNone = true then _ else _) = _
      rw [if_neg (by have := ha.maxId; omega), if_pos (show (none : Option String).isNone = true from rfl)]
    · show g.rules ++ [_] = _
      rw [ghost_add hI ⟨s.nextId, c, n, vu, sg, ps⟩ rfl (gAt_added s c n vu sg ps), ha.rules]
  | rename id n => exact ⟨g', rfl, ha'⟩
  | revalid id vu => exact ⟨g', rfl, ha'⟩
  | remove id => exact ⟨g', rfl, ha'⟩
  | addSigner id x => exact ⟨g', rfl, ha'⟩
  | removeSigner id x => exact ⟨g', rfl, ha'⟩
  | addPolicy id p => exact ⟨g', rfl, ha'⟩
  | removePolicy id p => exact ⟨g', rfl, ha'⟩
  | advance n => exact ⟨g', rfl, ha'⟩

theorem idStep_err (g g1 : Mon) (a : Option String) (op : Op) (r : Option Nat) :
    idStep g g1 a op false r = (g1, none) := by
  cases op <;> rfl

/-! ### `R=` and `T=` -/

theorem showGR_toGR (r : Rule) : showGR (toGR r) = showRule r := rfl

theorem rWant_eq {g : Mon} {s : State} (ha : Agree g s) :
    sepBy ";" ((liveRules s).map showRule) = rWant g := by
  unfold rWant
  rw [ha.rules]
  unfold ghost
  rw [List.map_map]
  rfl

/-- the id vector of type `c` is the ids of the plain list's rules of type `c`, in order -/
theorem ids_eq {g : Mon} {s : State} (ha : Agree g s) (hI : Inv s) (hS : IdsSorted s) (c : Nat) :
    s.ids c = (g.rules.filter (fun r => r.ctx == c)).map (·.id) := by
  rw [ha.rules]
  refine List.Pairwise.eq_of_mem_iff (r := (· < ·)) (hS c)
    ((ghost_ids_sorted s).sublist (List.filter_sublist.map _)) (fun i => ?_)
  rw [hI.r.idsMem, List.mem_map]
  constructor
  · rintro ⟨m, hm, hc⟩
    refine ⟨⟨i, m.ctx, m.name, m.validUntil, s.signers i, s.policies i⟩, ?_, rfl⟩
    rw [List.mem_filter, mem_ghost hI]
    exact ⟨gAt_of_info hm, by simpa using hc⟩
  · rintro ⟨x, hx, rfl⟩
    rw [List.mem_filter, mem_ghost hI, gAt_eq] at hx
    obtain ⟨h1, h2⟩ := hx
    cases hm : s.info x.id with
    | none => rw [hm] at h1; cases h1
    | some m =>
      rw [hm] at h1
      simp only [Option.map_some, Option.some.injEq] at h1
      refine ⟨m, rfl, ?_⟩
      have : x.ctx = c := by simpa using h2
      rw [← this, ← h1]

theorem tWant_eq {g : Mon} {s : State} (ha : Agree g s) (hI : Inv s) (hS : IdsSorted s) :
    sepBy ";" ((List.range NC).map (fun c => match getContextRules s c with
      | some l => s!"{c}:{nats (l.map (·.id))}"
      | none => s!"{c}:x")) = tWant g := by
  unfold tWant
  congr 1
  refine List.map_congr_left (fun c _ => ?_)
  obtain ⟨l, hl, hmap, _⟩ := getContextRules_spec hI c
  rw [hl]
  show s!"{c}:{nats (l.map (·.id))}" = _
  rw [hmap, ids_eq ha hI hS c]

/-! ### the fingerprint line -/

/-- the fingerprints of the live rules, as the model driver computes them -/
def fpsLive (s : State) : List FP :=
  (liveRules s).filterMap (fun r => match computeFp r.ctx r.signers r.policies with
    | .ok fp => some fp
    | .error _ => none)

theorem mem_liveRules {s : State} (hI : Inv s) (r : Rule) :
    r ∈ liveRules s ↔ ∃ i, getContextRule s i = some r := by
  unfold liveRules
  rw [List.mem_filterMap]
  constructor
  · rintro ⟨i, _, h⟩; exact ⟨i, h⟩
  · rintro ⟨i, h⟩
    refine ⟨i, ?_, h⟩
    rw [List.mem_range]
    obtain ⟨m, hm, _⟩ := (getContextRule_some s i r).1 h
    have := hI.r.idLt i (by rw [hm]; rfl)
    omega

theorem liveRules_nodup (s : State) : (liveRules s).Nodup := by
  have := ghost_ids_nodup s
  unfold ghost at this
  rw [List.map_map] at this
  exact List.Nodup.of_map _ this

theorem fpsLive_eq {s : State} (hI : Inv s) : fpsLive s = (liveRules s).map fingerprint := by
  unfold fpsLive
  rw [← List.filterMap_eq_map]
  refine List.filterMap_congr (fun r hr => ?_)
  obtain ⟨i, hi⟩ := (mem_liveRules hI r).1 hr
  obtain ⟨m, _, rfl⟩ := (getContextRule_some s i r).1 hi
  have := (computeFp_ok_iff m.ctx (s.signers i) (s.policies i) _).2 ⟨hI.r.sgNodup i, hI.r.psNodup i, rfl⟩
  simp only [this]
  rfl

theorem mem_fps_iff {s : State} (hI : Inv s) (fp : FP) : fp ∈ s.fps ↔ fp ∈ (liveRules s).map fingerprint := by
  rw [hI.f.fpsMem, List.mem_map]
  constructor
  · rintro ⟨id, h⟩
    rw [fpOf_eq] at h
    cases hr : getContextRule s id with
    | none => rw [hr] at h; cases h
    | some r =>
      rw [hr] at h; injection h with h
      exact ⟨r, (mem_liveRules hI r).2 ⟨id, hr⟩, h⟩
  · rintro ⟨r, hr, h⟩
    obtain ⟨i, hi⟩ := (mem_liveRules hI r).1 hr
    exact ⟨i, by rw [fpOf_eq, hi]; simp [h]⟩

theorem fps_image_nodup {s : State} (hI : Inv s) : ((liveRules s).map fingerprint).Nodup := by
  refine List.Nodup.map_on ?_ (liveRules_nodup s)
  intro x hx y hy h
  obtain ⟨i, hi⟩ := (mem_liveRules hI x).1 hx
  obtain ⟨j, hj⟩ := (mem_liveRules hI y).1 hy
  have e : i = j := hI.f.fpInj i j (fingerprint x) (by rw [fpOf_eq, hi]; rfl) (by rw [fpOf_eq, hj, h]; rfl)
  subst e
  rw [hi] at hj; injection hj

theorem liveRules_length (s : State) : (liveRules s).length = (ghost s).length := by
  unfold ghost; rw [List.length_map]

/-- the stored fingerprint set has one entry per live rule -/
theorem nfp_eq {s : State} (hI : Inv s) : s.fps.length = (ghost s).length := by
  rw [length_eq_of_nodup_mem hI.f.fpsNodup (fps_image_nodup hI) (mem_fps_iff hI), List.length_map, liveRules_length]

/-- the live rules have pairwise different fingerprints -/
theorem fpd_eq {s : State} (hI : Inv s) : (fpsLive s).eraseDups.length = (ghost s).length := by
  rw [fpsLive_eq hI, eraseDups_of_nodup (fps_image_nodup hI), List.length_map, liveRules_length]

/-- every live rule has a fingerprint and it is stored -/
theorem fpok_eq {s : State} (hI : Inv s) :
    (fpsLive s).length = (liveRules s).length ∧ (fpsLive s).all s.fps.contains = true := by
  rw [fpsLive_eq hI, List.length_map]
  refine ⟨rfl, ?_⟩
  rw [List.all_eq_true]
  intro fp hfp
  rw [List.contains_iff_mem]
  exact (mem_fps_iff hI fp).2 hfp

/-! ### the constructor -/

/-- the state after the constructor's `add_context_rule` is described by the monitor's initial
plain list (rule 0 alone) -/
theorem agree_constructor {now : Nat} {s0 p0 : List Nat} {s : State}
    (h : addContextRule installOk (init now) 0 0 none s0 p0 = .ok s) :
    Agree { rules := [⟨0, 0, 0, none, s0, p0⟩], maxId := 0, now := now } s ∧ Inv s ∧ IdsSorted s := by
  have hn : next installOk (init now) (.add 0 0 none s0 p0) = s := by
    unfold next
    rw [show step installOk (init now) (.add 0 0 none s0 p0) = addContextRule installOk (init now) 0 0 none s0 p0 from rfl, h]
  refine ⟨?_, hn ▸ inv_next installOk (inv_init now) _, hn ▸ idsSorted_next (inv_init now) (idsSorted_init now) _⟩
  obtain ⟨_, rfl⟩ := (addContextRule_ok_iff installOk (init now) s 0 0 none s0 p0).1 h
  refine ⟨?_, rfl, rfl⟩
  show [_] = _
  rw [ghost_add (inv_init now) ⟨0, 0, 0, none, s0, p0⟩ rfl (gAt_added (init now) 0 0 none s0 p0)]
  rfl

end OZ.RegRules.Mon
