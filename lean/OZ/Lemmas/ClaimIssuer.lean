import OZ.Model.ClaimIssuer
/-
Key management of the claim issuer keeps two redundant indices: Topics(topic) ↦ signing keys and
Pairs(key) ↦ (topic, registry) assignments.  `Issuer.Inv` states that they agree (`link`: a key is
allowed for a topic iff some (topic, registry) pair of that key exists) and that the stored vectors
are duplicate-free and never stored empty.  Every accepted operation preserves it; on the defining
component (`authorized`) `allow_key` / `remove_key` are a plain set insertion / deletion.
-/
namespace OZ.ClaimIssuer
open OZ.Host OZ.Identity

/-- the (key, scheme) is currently authorised for (topic, registry): the pair is in the Pairs branch -/
def authorized (s : Issuer) (pk scheme topic registry : Nat) : Prop :=
  ∃ ps, s.pairs pk scheme = some ps ∧ (topic, registry) ∈ ps

structure Issuer.Inv (s : Issuer) : Prop where
  keysOk : ∀ t ks, s.topicKeys t = some ks → ks.Nodup ∧ ks ≠ []
  pairsOk : ∀ pk sc ps, s.pairs pk sc = some ps → ps.Nodup ∧ ps ≠ []
  link : ∀ pk sc t, isKeyAllowedForTopic s pk sc t = true ↔ ∃ reg, authorized s pk sc t reg

/-! ### small facts about the stored vectors -/

/-- a vector that is removed from storage when it becomes empty reads back (`unwrap_or_default`) as itself -/
theorem optList_getD {α} (l : List α) : (if l.isEmpty then none else some l).getD [] = l := by
  cases l <;> rfl

theorem optList_some {α} {l ps : List α}
    (h : (if l.isEmpty then none else some l) = some ps) : ps = l ∧ l ≠ [] := by
  cases l with
  | nil => cases h
  | cons a l => cases h; exact ⟨rfl, fun c => by cases c⟩

theorem upd_getD {α} (f : Nat → Option (List α)) (a : Nat) (v : Option (List α)) (x : Nat) :
    (upd f a v x).getD [] = if x = a then v.getD [] else (f x).getD [] := by
  unfold upd; split <;> rfl

theorem upd2_getD {α} (f : Nat → Nat → Option (List α)) (a b : Nat) (v : Option (List α)) (x y : Nat) :
    (upd2 f a b v x y).getD [] = if x = a ∧ y = b then v.getD [] else (f x y).getD [] := by
  unfold upd2; split <;> rfl

theorem authorized_iff {s : Issuer} {pk sc t r : Nat} :
    authorized s pk sc t r ↔ (t, r) ∈ (s.pairs pk sc).getD [] := by
  unfold authorized
  cases s.pairs pk sc with
  | none => simp
  | some ps => simp

theorem allowed_iff {s : Issuer} {pk sc t : Nat} :
    isKeyAllowedForTopic s pk sc t = true ↔ (pk, sc) ∈ (s.topicKeys t).getD [] := by
  unfold isKeyAllowedForTopic
  cases s.topicKeys t with
  | none => simp
  | some ks => simp

/-! ### the exact result of the accepted operations -/

theorem allowTopicKey_unpack {s s1 : Issuer} {pk sc t : Nat} (e : allowTopicKey s pk sc t = .ok s1) :
    (isKeyAllowedForTopic s pk sc t = true ∧ s1 = s) ∨
    (¬ isKeyAllowedForTopic s pk sc t = true ∧
      s1 = { s with topicKeys := upd s.topicKeys t (some (((s.topicKeys t).getD []) ++ [(pk, sc)])) }) := by
  unfold allowTopicKey at e
  split at e
  · rename_i h
    injection e with e
    exact .inl ⟨h, e.symm⟩
  · rename_i h
    split at e
    · cases e
    · injection e with e
      exact .inr ⟨h, e.symm⟩

theorem allowPair_unpack {s s' : Issuer} {pk sc t r : Nat} (e : allowPair s pk sc t r = .ok s') :
    (t, r) ∉ (s.pairs pk sc).getD [] ∧
    s' = { s with pairs := upd2 s.pairs pk sc (some (((s.pairs pk sc).getD []) ++ [(t, r)])) } := by
  unfold allowPair at e
  split at e
  · cases e
  · rename_i hc
    split at e
    · cases e
    · injection e with e
      exact ⟨fun hm => hc (List.contains_iff_mem.mpr hm), e.symm⟩

theorem allowKey_unpack {s s' : Issuer} {reg : Option Reg} {self pk registry scheme topic : Nat}
    (e : allowKey s reg self pk registry scheme topic = .ok s') :
    pk ≠ 0 ∧ (∃ r, reg = some r ∧ hasClaimTopic r self topic = .ok true) ∧
    ∃ s1, allowTopicKey s pk scheme topic = .ok s1 ∧ allowPair s1 pk scheme topic registry = .ok s' := by
  unfold allowKey at e
  split at e
  · cases e
  · rename_i hpk
    split at e
    · cases e
    · rename_i r
      split at e
      · cases e
      · cases e
      · rename_i hh
        split at e
        · cases e
        · rename_i s1 h1
          exact ⟨hpk, ⟨r, rfl, hh⟩, s1, h1, e⟩

theorem dropTopicKey_unpack {s s' : Issuer} {pk sc t : Nat} (e : dropTopicKey s pk sc t = .ok s') :
    ∃ ks, s.topicKeys t = some ks ∧ (pk, sc) ∈ ks ∧
      s' = { s with topicKeys := (upd s.topicKeys t
              (if (ks.erase (pk, sc)).isEmpty then none else some (ks.erase (pk, sc)))) } := by
  unfold dropTopicKey at e
  split at e
  · cases e
  · rename_i ks hks
    split at e
    · rename_i hc
      injection e with e
      exact ⟨ks, hks, List.contains_iff_mem.mp hc, e.symm⟩
    · cases e

/-- the Pairs branch after an accepted `remove_key` -/
def pairsErased (s : Issuer) (pk sc t r : Nat) (ps : List (Nat × Nat)) : Nat → Nat → Option (List (Nat × Nat)) :=
  upd2 s.pairs pk sc (if (ps.erase (t, r)).isEmpty then none else some (ps.erase (t, r)))

theorem removeKey_unpack {s s' : Issuer} {pk registry scheme topic : Nat}
    (e : removeKey s pk registry scheme topic = .ok s') :
    ∃ ps, s.pairs pk scheme = some ps ∧ (topic, registry) ∈ ps ∧
      (((ps.erase (topic, registry)).any (fun p => p.1 == topic) = true ∧
          s' = { s with pairs := pairsErased s pk scheme topic registry ps }) ∨
       (¬ (ps.erase (topic, registry)).any (fun p => p.1 == topic) = true ∧
          ∃ ks, s.topicKeys topic = some ks ∧ (pk, scheme) ∈ ks ∧
            s' = { s with pairs := pairsErased s pk scheme topic registry ps,
                          topicKeys := (upd s.topicKeys topic
                            (if (ks.erase (pk, scheme)).isEmpty then none else some (ks.erase (pk, scheme)))) })) := by
  unfold removeKey at e
  split at e
  · cases e
  · rename_i ps hps
    split at e
    · rename_i hc
      refine ⟨ps, hps, List.contains_iff_mem.mp hc, ?_⟩
      split at e
      · rename_i ha
        injection e with e
        exact .inl ⟨ha, e.symm⟩
      · rename_i ha
        obtain ⟨ks, hks, hm, e⟩ := dropTopicKey_unpack e
        exact .inr ⟨ha, ks, hks, hm, e⟩
    · cases e

/-! ### `authorized` / `isKeyAllowedForTopic` after the operations -/

theorem allowTopicKey_pairs {s s1 : Issuer} {pk sc t : Nat} (e : allowTopicKey s pk sc t = .ok s1) :
    s1.pairs = s.pairs ∧ s1.nonce = s.nonce ∧ s1.revoked = s.revoked := by
  rcases allowTopicKey_unpack e with ⟨_, h⟩ | ⟨_, h⟩ <;> subst h <;> exact ⟨rfl, rfl, rfl⟩

theorem allowTopicKey_allowed {s s1 : Issuer} {pk sc t : Nat} (e : allowTopicKey s pk sc t = .ok s1)
    (pk' sc' t' : Nat) :
    isKeyAllowedForTopic s1 pk' sc' t' = true ↔
      isKeyAllowedForTopic s pk' sc' t' = true ∨ (pk' = pk ∧ sc' = sc ∧ t' = t) := by
  rcases allowTopicKey_unpack e with ⟨ha, h⟩ | ⟨_, h⟩
  · subst h
    constructor
    · exact .inl
    · rintro (h | ⟨rfl, rfl, rfl⟩)
      · exact h
      · exact ha
  · subst h
    rw [allowed_iff, allowed_iff]
    dsimp only
    rw [upd_getD]
    by_cases htt : t' = t
    · subst htt
      rw [if_pos rfl]
      simp only [Option.getD_some, List.mem_append, List.mem_singleton, Prod.mk.injEq, and_true]
    · rw [if_neg htt]
      simp only [htt, and_false, or_false]

theorem allowTopicKey_keysOk {s s1 : Issuer} {pk sc t : Nat} (e : allowTopicKey s pk sc t = .ok s1)
    (h : ∀ t ks, s.topicKeys t = some ks → ks.Nodup ∧ ks ≠ []) :
    ∀ t ks, s1.topicKeys t = some ks → ks.Nodup ∧ ks ≠ [] := by
  rcases allowTopicKey_unpack e with ⟨_, h1⟩ | ⟨hna, h1⟩
  · subst h1; exact h
  · subst h1
    intro t' ks hks
    dsimp only at hks
    unfold upd at hks
    split at hks
    · rename_i htt
      subst htt
      injection hks with hks
      subst hks
      have hnm : (pk, sc) ∉ (s.topicKeys t').getD [] := fun hm => hna (allowed_iff.mpr hm)
      refine ⟨?_, by simp⟩
      have hnd : ((s.topicKeys t').getD []).Nodup := by
        cases hk : s.topicKeys t' with
        | none => simp
        | some l => exact (h t' l hk).1
      rw [List.nodup_append]
      refine ⟨hnd, by simp, ?_⟩
      intro a ha b hb
      rw [List.mem_singleton] at hb
      subst hb
      exact fun c => hnm (c ▸ ha)
    · exact h t' ks hks

theorem allowPair_authorized {s s' : Issuer} {pk sc t r : Nat} (e : allowPair s pk sc t r = .ok s')
    (pk' sc' t' r' : Nat) :
    authorized s' pk' sc' t' r' ↔
      authorized s pk' sc' t' r' ∨ (pk' = pk ∧ sc' = sc ∧ t' = t ∧ r' = r) := by
  obtain ⟨_, h⟩ := allowPair_unpack e
  subst h
  rw [authorized_iff, authorized_iff]
  dsimp only
  rw [upd2_getD]
  by_cases hk : pk' = pk ∧ sc' = sc
  · obtain ⟨rfl, rfl⟩ := hk
    rw [if_pos ⟨rfl, rfl⟩]
    simp only [Option.getD_some, List.mem_append, List.mem_singleton, Prod.mk.injEq, true_and]
  · rw [if_neg hk]
    constructor
    · exact .inl
    · rintro (h | ⟨rfl, rfl, _⟩)
      · exact h
      · exact absurd ⟨rfl, rfl⟩ hk

theorem allowPair_pairsOk {s s' : Issuer} {pk sc t r : Nat} (e : allowPair s pk sc t r = .ok s')
    (h : ∀ pk sc ps, s.pairs pk sc = some ps → ps.Nodup ∧ ps ≠ []) :
    ∀ pk sc ps, s'.pairs pk sc = some ps → ps.Nodup ∧ ps ≠ [] := by
  obtain ⟨hnm, h1⟩ := allowPair_unpack e
  subst h1
  intro pk' sc' ps hps
  dsimp only at hps
  unfold upd2 at hps
  split at hps
  · injection hps with hps
    subst hps
    refine ⟨?_, by simp⟩
    have hnd : ((s.pairs pk sc).getD []).Nodup := by
      cases hk : s.pairs pk sc with
      | none => simp
      | some l => exact (h pk sc l hk).1
    rw [List.nodup_append]
    refine ⟨hnd, by simp, ?_⟩
    intro a ha b hb
    rw [List.mem_singleton] at hb
    subst hb
    exact fun c => hnm (c ▸ ha)
  · exact h pk' sc' ps hps

/-! ### the invariant -/

theorem inv_empty : Issuer.empty.Inv where
  keysOk := by intro t ks h; cases h
  pairsOk := by intro pk sc ps h; cases h
  link := by
    intro pk sc t
    constructor
    · intro h; cases h
    · rintro ⟨_, _, h, _⟩; cases h

/-- an accepted `allow_key` adds exactly this authorisation (and needs the registry to list the
issuer for the topic, and a non-empty key) -/
theorem allowKey_spec {s s' : Issuer} {reg : Option Reg} {self pk registry scheme topic : Nat}
    (e : allowKey s reg self pk registry scheme topic = .ok s') :
    pk ≠ 0 ∧ (∃ r, reg = some r ∧ hasClaimTopic r self topic = .ok true) ∧
    ¬ authorized s pk scheme topic registry ∧
    ∀ pk' sc' t' r', authorized s' pk' sc' t' r' ↔
      authorized s pk' sc' t' r' ∨ (pk' = pk ∧ sc' = scheme ∧ t' = topic ∧ r' = registry) := by
  obtain ⟨hpk, hreg, s1, e1, e2⟩ := allowKey_unpack e
  have hp := (allowTopicKey_pairs e1).1
  have hs1 : ∀ pk' sc' t' r', authorized s1 pk' sc' t' r' ↔ authorized s pk' sc' t' r' := by
    intro pk' sc' t' r'; unfold authorized; rw [hp]
  refine ⟨hpk, hreg, ?_, ?_⟩
  · rw [← hs1, authorized_iff]
    exact (allowPair_unpack e2).1
  · intro pk' sc' t' r'
    rw [allowPair_authorized e2, hs1]

theorem inv_allowKey {s s' : Issuer} {reg : Option Reg} {self pk registry scheme topic : Nat}
    (h : s.Inv) (e : allowKey s reg self pk registry scheme topic = .ok s') : s'.Inv := by
  obtain ⟨_, _, _, hauth⟩ := allowKey_spec e
  obtain ⟨_, _, s1, e1, e2⟩ := allowKey_unpack e
  have hp := (allowTopicKey_pairs e1).1
  have htk : s'.topicKeys = s1.topicKeys := by
    rw [(allowPair_unpack e2).2]
  refine ⟨?_, ?_, ?_⟩
  · rw [htk]; exact allowTopicKey_keysOk e1 h.keysOk
  · exact allowPair_pairsOk e2 (by rw [hp]; exact h.pairsOk)
  · intro pk' sc' t'
    have ha : isKeyAllowedForTopic s' pk' sc' t' = isKeyAllowedForTopic s1 pk' sc' t' := by
      unfold isKeyAllowedForTopic; rw [htk]
    rw [ha, allowTopicKey_allowed e1, h.link]
    constructor
    · rintro (⟨r, hr⟩ | ⟨rfl, rfl, rfl⟩)
      · exact ⟨r, (hauth ..).mpr (.inl hr)⟩
      · exact ⟨registry, (hauth ..).mpr (.inr ⟨rfl, rfl, rfl, rfl⟩)⟩
    · rintro ⟨r, hr⟩
      rcases (hauth ..).mp hr with hr | ⟨h1, h2, h3, _⟩
      · exact .inl ⟨r, hr⟩
      · exact .inr ⟨h1, h2, h3⟩

/-- membership in the Pairs branch after an accepted `remove_key` -/
theorem pairsErased_mem {s : Issuer} {pk sc t r : Nat} {ps : List (Nat × Nat)}
    (hps : s.pairs pk sc = some ps) (hnd : ps.Nodup) (pk' sc' t' r' : Nat) :
    (t', r') ∈ (pairsErased s pk sc t r ps pk' sc').getD [] ↔
      (t', r') ∈ (s.pairs pk' sc').getD [] ∧ ¬ (pk' = pk ∧ sc' = sc ∧ t' = t ∧ r' = r) := by
  unfold pairsErased
  rw [upd2_getD]
  by_cases hk : pk' = pk ∧ sc' = sc
  · obtain ⟨rfl, rfl⟩ := hk
    rw [if_pos ⟨rfl, rfl⟩, optList_getD, hnd.mem_erase_iff, hps]
    simp only [Option.getD_some, ne_eq, Prod.mk.injEq, true_and]
    exact And.comm
  · rw [if_neg hk]
    constructor
    · exact fun hm => ⟨hm, fun c => hk ⟨c.1, c.2.1⟩⟩
    · exact fun hm => hm.1

/-- an accepted `remove_key` removes exactly this authorisation -/
theorem removeKey_spec {s s' : Issuer} {pk registry scheme topic : Nat} (h : s.Inv)
    (e : removeKey s pk registry scheme topic = .ok s') :
    authorized s pk scheme topic registry ∧
    ∀ pk' sc' t' r', authorized s' pk' sc' t' r' ↔
      authorized s pk' sc' t' r' ∧ ¬ (pk' = pk ∧ sc' = scheme ∧ t' = topic ∧ r' = registry) := by
  obtain ⟨ps, hps, hm, hcase⟩ := removeKey_unpack e
  refine ⟨⟨ps, hps, hm⟩, ?_⟩
  have hnd := (h.pairsOk _ _ _ hps).1
  have hp : s'.pairs = pairsErased s pk scheme topic registry ps := by
    rcases hcase with ⟨_, h1⟩ | ⟨_, ks, _, _, h1⟩ <;> rw [h1]
  intro pk' sc' t' r'
  rw [authorized_iff, authorized_iff, hp, pairsErased_mem hps hnd]

theorem inv_removeKey {s s' : Issuer} {pk registry scheme topic : Nat} (h : s.Inv)
    (e : removeKey s pk registry scheme topic = .ok s') : s'.Inv := by
  obtain ⟨_, hauth⟩ := removeKey_spec h e
  obtain ⟨ps, hps, hm, hcase⟩ := removeKey_unpack e
  have hnd := (h.pairsOk _ _ _ hps).1
  have hp : s'.pairs = pairsErased s pk scheme topic registry ps := by
    rcases hcase with ⟨_, h1⟩ | ⟨_, ks, _, _, h1⟩ <;> rw [h1]
  -- the Pairs branch
  have hpairs : ∀ pk sc ps, s'.pairs pk sc = some ps → ps.Nodup ∧ ps ≠ [] := by
    intro pk' sc' l hl
    rw [hp] at hl
    unfold pairsErased upd2 at hl
    split at hl
    · obtain ⟨rfl, hne⟩ := optList_some hl
      exact ⟨hnd.erase _, hne⟩
    · exact h.pairsOk _ _ _ hl
  -- what is left of `(topic, *)` among the pairs of the key
  have hany : (ps.erase (topic, registry)).any (fun p => p.1 == topic) = true ↔
      ∃ r, authorized s' pk scheme topic r := by
    rw [List.any_eq_true]
    constructor
    · rintro ⟨⟨t, r⟩, hmem, ht⟩
      have ht : t = topic := by simpa using ht
      subst ht
      refine ⟨r, ?_⟩
      rw [authorized_iff, hp]
      unfold pairsErased
      rw [upd2_getD, if_pos ⟨rfl, rfl⟩, optList_getD]
      exact hmem
    · rintro ⟨r, hr⟩
      rw [authorized_iff, hp] at hr
      unfold pairsErased at hr
      rw [upd2_getD, if_pos ⟨rfl, rfl⟩, optList_getD] at hr
      exact ⟨(topic, r), hr, by simp⟩
  rcases hcase with ⟨ha, h1⟩ | ⟨hna, ks, hks, hkm, h1⟩
  · -- some `(topic, *)` pair is left: the Topics branch is untouched
    have htk : s'.topicKeys = s.topicKeys := by rw [h1]
    refine ⟨by rw [htk]; exact h.keysOk, hpairs, ?_⟩
    intro pk' sc' t'
    have hal : isKeyAllowedForTopic s' pk' sc' t' = isKeyAllowedForTopic s pk' sc' t' := by
      unfold isKeyAllowedForTopic; rw [htk]
    rw [hal, h.link]
    constructor
    · rintro ⟨r, hr⟩
      by_cases hk : pk' = pk ∧ sc' = scheme ∧ t' = topic
      · obtain ⟨rfl, rfl, rfl⟩ := hk
        exact hany.mp ha
      · exact ⟨r, (hauth ..).mpr ⟨hr, fun c => hk ⟨c.1, c.2.1, c.2.2.1⟩⟩⟩
    · rintro ⟨r, hr⟩
      exact ⟨r, ((hauth ..).mp hr).1⟩
  · -- none is left: the key is dropped from Topics(topic)
    have hkd := (h.keysOk _ _ hks).1
    have htk : s'.topicKeys = upd s.topicKeys topic
        (if (ks.erase (pk, scheme)).isEmpty then none else some (ks.erase (pk, scheme))) := by rw [h1]
    have hal : ∀ pk' sc' t', isKeyAllowedForTopic s' pk' sc' t' = true ↔
        isKeyAllowedForTopic s pk' sc' t' = true ∧ ¬ (pk' = pk ∧ sc' = scheme ∧ t' = topic) := by
      intro pk' sc' t'
      rw [allowed_iff, allowed_iff, htk, upd_getD]
      by_cases htt : t' = topic
      · subst htt
        rw [if_pos rfl, optList_getD, hkd.mem_erase_iff, hks]
        simp only [Option.getD_some, ne_eq, Prod.mk.injEq, and_true]
        exact And.comm
      · rw [if_neg htt]
        exact ⟨fun hm => ⟨hm, fun c => htt c.2.2⟩, fun hm => hm.1⟩
    refine ⟨?_, hpairs, ?_⟩
    · intro t' l hl
      rw [htk] at hl
      unfold upd at hl
      split at hl
      · obtain ⟨rfl, hne⟩ := optList_some hl
        exact ⟨hkd.erase _, hne⟩
      · exact h.keysOk _ _ hl
    · intro pk' sc' t'
      rw [hal, h.link]
      constructor
      · rintro ⟨⟨r, hr⟩, hk⟩
        exact ⟨r, (hauth ..).mpr ⟨hr, fun c => hk ⟨c.1, c.2.1, c.2.2.1⟩⟩⟩
      · rintro ⟨r, hr⟩
        refine ⟨⟨r, ((hauth ..).mp hr).1⟩, ?_⟩
        rintro ⟨rfl, rfl, rfl⟩
        exact hna (hany.mpr ⟨r, hr⟩)

theorem inv_invalidate {s s' : Issuer} {d t : Nat} (h : s.Inv)
    (e : invalidateClaimSignatures s d t = .ok s') : s'.Inv := by
  unfold invalidateClaimSignatures at e
  split at e
  · cases e
  · injection e with e
    subst e
    exact ⟨h.keysOk, h.pairsOk, h.link⟩

theorem inv_setClaimRevoked {s : Issuer} {d t : Nat} {data : List Nat} {b : Bool} (h : s.Inv) :
    (setClaimRevoked s d t data b).Inv :=
  ⟨h.keysOk, h.pairsOk, h.link⟩

/-! ### frames: key management does not touch nonces and revocations, and vice versa -/

theorem allowKey_frame {s s' : Issuer} {reg : Option Reg} {self pk registry scheme topic : Nat}
    (e : allowKey s reg self pk registry scheme topic = .ok s') :
    s'.nonce = s.nonce ∧ s'.revoked = s.revoked := by
  obtain ⟨_, _, s1, e1, e2⟩ := allowKey_unpack e
  obtain ⟨_, hn, hr⟩ := allowTopicKey_pairs e1
  rw [(allowPair_unpack e2).2]
  exact ⟨hn, hr⟩

theorem removeKey_frame {s s' : Issuer} {pk registry scheme topic : Nat}
    (e : removeKey s pk registry scheme topic = .ok s') :
    s'.nonce = s.nonce ∧ s'.revoked = s.revoked := by
  obtain ⟨ps, _, _, hcase⟩ := removeKey_unpack e
  rcases hcase with ⟨_, h1⟩ | ⟨_, ks, _, _, h1⟩ <;> rw [h1] <;> exact ⟨rfl, rfl⟩

theorem invalidate_frame {s s' : Issuer} {d t : Nat} (e : invalidateClaimSignatures s d t = .ok s') :
    s'.topicKeys = s.topicKeys ∧ s'.pairs = s.pairs ∧ s'.revoked = s.revoked := by
  unfold invalidateClaimSignatures at e
  split at e
  · cases e
  · injection e with e
    subst e
    exact ⟨rfl, rfl, rfl⟩

end OZ.ClaimIssuer
