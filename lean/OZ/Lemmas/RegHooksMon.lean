import OZ.Lemmas.RegHooks
import OZ.Lemmas.RegMon
import OZ.Model.RegHooksMon
/-
Helper facts for the soundness proof of the `hooks` monitor of C20 (OZ/Props/C20hMon.lean): the
link between the monitor's plain relation and the model state, and the plain relation's
accept / refuse decision against the model's.
-/
namespace OZ.RegHooks.Mon
open OZ.Reg OZ.RegMon OZ.RegHooks

/-- the monitor's plain relation describes the model state: same membership, no duplicates -/
structure Agree (g : Mon) (s : State) (nm : Nat) : Prop where
  nm : g.nm = nm
  nodup : g.rel.Nodup
  mem : ∀ h m, (h, m) ∈ g.rel ↔ m ∈ s.modules h

theorem mem_want (g : Mon) (h m : Nat) : m ∈ want g h ↔ (h, m) ∈ g.rel := by
  unfold want
  simp only [List.mem_map, List.mem_filter, beq_iff_eq]
  constructor
  · rintro ⟨⟨a, b⟩, ⟨hp, rfl⟩, rfl⟩; exact hp
  · intro hp; exact ⟨(h, m), ⟨hp, rfl⟩, rfl⟩

theorem nodup_want {g : Mon} (hn : g.rel.Nodup) (h : Nat) : (want g h).Nodup := by
  unfold want
  refine List.Nodup.map_on ?_ (hn.filter _)
  rintro ⟨a, b⟩ ha ⟨c, d⟩ hc hbd
  simp only [List.mem_filter, beq_iff_eq] at ha hc
  obtain ⟨-, rfl⟩ := ha
  obtain ⟨-, rfl⟩ := hc
  simp only at hbd
  rw [hbd]

theorem cnt_eq {g : Mon} {s : State} {nm : Nat} (ha : Agree g s nm) (hI : Inv s) (h : Nat) :
    cnt g h = (s.modules h).length := by
  have : cnt g h = (want g h).length := by unfold cnt want; rw [List.length_map]
  rw [this]
  exact length_eq_of_nodup_mem (nodup_want ha.nodup h) (hI.nodup h)
    (fun m => by rw [mem_want, ha.mem])

/-- an operation the model accepts is accepted by the plain relation, which then describes the new
model state -/
theorem plain_ok {g : Mon} {s s' : State} {nm : Nat} (ha : Agree g s nm) (hI : Inv s) {op : Op}
    (hs : step s op = .ok s') : ∃ g', plain g op = .ok g' ∧ Agree g' s' nm := by
  cases op with
  | add h m =>
    obtain ⟨⟨hn, hl⟩, rfl⟩ := (addModuleTo_ok_iff s s' h m).1 hs
    have h1 : g.rel.contains (h, m) = false := by
      rw [Bool.eq_false_iff]; intro hc; exact hn ((ha.mem h m).1 (List.contains_iff_mem.1 hc))
    have h2 : ¬ cnt g h ≥ 20 := by rw [cnt_eq ha hI]; unfold MAX_MODULES at hl; omega
    refine ⟨{ g with rel := g.rel ++ [(h, m)] }, ?_, ha.nm, ?_, ?_⟩
    · simp only [plain]; rw [h1]; simp only [Bool.false_eq_true, if_false]; rw [if_neg h2]
    · exact nodup_append_singleton ha.nodup (fun hc => hn ((ha.mem h m).1 hc))
    · intro h' m'
      show (h', m') ∈ g.rel ++ [(h, m)] ↔ m' ∈ updD s.modules h (s.modules h ++ [m]) h'
      by_cases hh : h' = h
      · subst hh; rw [updD_same]; simp [ha.mem]
      · rw [updD_other _ _ _ _ hh]; simp [ha.mem, hh]
  | remove h m =>
    obtain ⟨hm, rfl⟩ := (removeModuleFrom_ok_iff s s' h m).1 hs
    have h1 : g.rel.contains (h, m) = true := List.contains_iff_mem.2 ((ha.mem h m).2 hm)
    refine ⟨{ g with rel := g.rel.erase (h, m) }, ?_, ha.nm, ha.nodup.erase _, ?_⟩
    · simp only [plain]; rw [h1]; rfl
    · intro h' m'
      show (h', m') ∈ g.rel.erase (h, m) ↔ m' ∈ updD s.modules h ((s.modules h).erase m) h'
      rw [ha.nodup.mem_erase_iff]
      by_cases hh : h' = h
      · subst hh; rw [updD_same, (hI.nodup h').mem_erase_iff, ha.mem]; simp
      · rw [updD_other _ _ _ _ hh, ha.mem]; simp [hh]

/-- an operation the model refuses is refused by the plain relation -/
theorem plain_err {g : Mon} {s : State} {nm : Nat} (ha : Agree g s nm) (hI : Inv s) {op : Op} {e : RErr}
    (hs : step s op = .error e) : ∃ w, plain g op = .error w := by
  cases op with
  | add h m =>
    simp only [plain]
    by_cases h1 : g.rel.contains (h, m) = true
    · rw [if_pos h1]; exact ⟨_, rfl⟩
    · rw [if_neg h1]
      by_cases h2 : cnt g h ≥ 20
      · rw [if_pos h2]; exact ⟨_, rfl⟩
      · exfalso
        have hn : m ∉ s.modules h := fun hm => h1 (List.contains_iff_mem.2 ((ha.mem h m).2 hm))
        have : addModuleTo s h m = .ok _ :=
          (addModuleTo_ok_iff s _ h m).2 ⟨⟨hn, by rw [cnt_eq ha hI] at h2; unfold MAX_MODULES; omega⟩, rfl⟩
        rw [show step s (.add h m) = addModuleTo s h m from rfl, this] at hs; cases hs
  | remove h m =>
    simp only [plain]
    by_cases h1 : g.rel.contains (h, m) = true
    · exfalso
      have : removeModuleFrom s h m = .ok _ :=
        (removeModuleFrom_ok_iff s _ h m).2 ⟨(ha.mem h m).1 (List.contains_iff_mem.1 h1), rfl⟩
      rw [show step s (.remove h m) = removeModuleFrom s h m from rfl, this] at hs; cases hs
    · rw [if_neg h1]; exact ⟨_, rfl⟩

end OZ.RegHooks.Mon
