import OZ.Props.C05
import OZ.Lemmas.FungibleMon
import OZ.Model.VaultMon
/-
Helper lemmas for the monitor-soundness theorem of C05 (OZ/Props/C05Mon.lean), part 1: the
property's conversion formula `specConv` against the model's conversions, the printed balance /
allowance lists against the model's maps, the list-level event replay against the function-level
one, and each check of the monitor that applies to EVERY line (`generic`), to a `query` line and to
token / ledger lines, silent under its plain-worded condition.
-/
namespace OZ.Vault.Mon
open OZ.Host OZ.Vault
open OZ.FungibleMon (orElse allowList orElse_none)
open OZ.FungibleMon.Supply (addAt)

/-! ### the property's formula against the model's conversions -/

theorem floor_eq_div (n d : Int) (hd : 0 < d) : Int.fdiv n d = n / d :=
  Int.fdiv_eq_ediv_of_nonneg n (by omega)

theorem ceil_eq_div (n d : Int) (hd : 0 < d) : OZ.MulDiv.Int.cdiv n d = (n + d - 1) / d := by
  have h := OZ.MulDiv.ceil_is_ceil n d hd
  have h1 := Int.ediv_mul_le (n + d - 1) (Int.ne_of_gt hd)
  have h2 := Int.lt_ediv_add_one_mul_self (n + d - 1) hd
  generalize OZ.MulDiv.Int.cdiv n d = q at *
  generalize (n + d - 1) / d = r at *
  obtain ⟨c1, c2⟩ := h
  have a1 : q < r + 1 := by
    by_contra hh
    have : r + 1 ≤ q := by omega
    nlinarith
  have a2 : r < q + 1 := by
    by_contra hh
    have : q + 1 ≤ r := by omega
    nlinarith
  omega

/-- the rounding mode of a conversion that rounds up (`true`) resp. down -/
def rdOf (up : Bool) : Rounding := if up then .ceil else .floor

theorem exactQ_rdOf (up : Bool) (x y d : Int) (hd : 0 < d) :
    OZ.MulDiv.exactQ (rdOf up) x y d = if up then (x * y + d - 1) / d else x * y / d := by
  cases up
  · simp only [rdOf, OZ.MulDiv.exactQ]; exact floor_eq_div _ _ hd
  · simp only [rdOf, OZ.MulDiv.exactQ]; exact ceil_eq_div _ _ hd

theorem toOpt_rounded (up : Bool) (x y d : Int) (hx : 0 ≤ x) (hy : 0 ≤ y) (hd : 0 < d) :
    toOpt (roundedOrOverflow (rdOf up) x y d) =
      if (if up then (x * y + d - 1) / d else x * y / d) > I128MAX then none
      else some (if up then (x * y + d - 1) / d else x * y / d) := by
  have h0 := exactQ_nonneg (rdOf up) x y d hx hy hd (by cases up <;> simp [rdOf])
  rw [← exactQ_rdOf up x y d hd]
  unfold roundedOrOverflow
  by_cases hq : OZ.MulDiv.exactQ (rdOf up) x y d > I128MAX
  · rw [if_pos hq, if_neg]
    · rfl
    · unfold OZ.MulDiv.in128 OZ.MulDiv.I128_MAX; unfold I128MAX at hq; omega
  · rw [if_neg hq, if_pos]
    · rfl
    · unfold OZ.MulDiv.in128 OZ.MulDiv.I128_MAX OZ.MulDiv.I128_MIN; unfold I128MAX at hq; omega

/-- a conversion assets → shares, successful or failed, is what the property's formula says -/
theorem convertToShares_spec {U : List Nat} {s : State} (hw : WF U s) (x : Int) (hx : OZ.MulDiv.in128 x)
    (up : Bool) :
    toOpt (convertToShares s x (rdOf up)) =
      specConv x (totalShares s + 10 ^ s.offset) (totalAssets s + 1) up := by
  obtain ⟨hA, hS, hV, -⟩ := wf_pos hw
  rw [convertToShares_eq s x _ hx hw.off hA]
  unfold specConv
  by_cases h1 : x < 0
  · rw [if_pos h1, if_pos h1]; rfl
  rw [if_neg h1, if_neg h1]
  by_cases h2 : x = 0
  · rw [if_pos h2, if_pos h2]; rfl
  rw [if_neg h2, if_neg h2]
  by_cases h3 : ¬ OZ.MulDiv.in128 (totalShares s + 10 ^ s.offset) ∨ ¬ OZ.MulDiv.in128 (totalAssets s + 1)
  · rw [if_pos h3, if_pos]
    · rfl
    · unfold OZ.MulDiv.in128 OZ.MulDiv.I128_MAX OZ.MulDiv.I128_MIN at h3; unfold I128MAX; omega
  · rw [if_neg h3, if_neg]
    · exact toOpt_rounded up x _ _ (by omega) (by omega) (by omega)
    · unfold OZ.MulDiv.in128 OZ.MulDiv.I128_MAX OZ.MulDiv.I128_MIN at h3; unfold I128MAX; omega

/-- a conversion shares → assets, successful or failed, is what the property's formula says -/
theorem convertToAssets_spec {U : List Nat} {s : State} (hw : WF U s) (x : Int) (hx : OZ.MulDiv.in128 x)
    (up : Bool) :
    toOpt (convertToAssets s x (rdOf up)) =
      specConv x (totalAssets s + 1) (totalShares s + 10 ^ s.offset) up := by
  obtain ⟨hA, hS, hV, -⟩ := wf_pos hw
  rw [convertToAssets_eq s x _ hx hw.off hS]
  unfold specConv
  by_cases h1 : x < 0
  · rw [if_pos h1, if_pos h1]; rfl
  rw [if_neg h1, if_neg h1]
  by_cases h2 : x = 0
  · rw [if_pos h2, if_pos h2]; rfl
  rw [if_neg h2, if_neg h2]
  by_cases h3 : ¬ OZ.MulDiv.in128 (totalAssets s + 1) ∨ ¬ OZ.MulDiv.in128 (totalShares s + 10 ^ s.offset)
  · rw [if_pos h3, if_pos]
    · rfl
    · unfold OZ.MulDiv.in128 OZ.MulDiv.I128_MAX OZ.MulDiv.I128_MIN at h3; unfold I128MAX; omega
  · rw [if_neg h3, if_neg]
    · exact toOpt_rounded up x _ _ (by omega) (by omega) (by omega)
    · unfold OZ.MulDiv.in128 OZ.MulDiv.I128_MAX OZ.MulDiv.I128_MIN at h3; unfold I128MAX; omega

/-! ### the printed lists -/

theorem getD_map_range {n i : Nat} (f : Nat → Int) (h : i < n) : ((List.range n).map f).getD i 0 = f i := by
  simp [List.getD, h]

theorem mem_allowList {n : Nat} {t : Tok} {e : Nat × Nat × Int} :
    e ∈ allowList n t ↔
      e.1 < n ∧ e.2.1 < n ∧ OZ.Fungible.allowance t e.1 e.2.1 ≠ 0 ∧ e.2.2 = OZ.Fungible.allowance t e.1 e.2.1 :=
  OZ.FungibleMon.mem_allowList

/-- inside the observed universe the printed allowance list reads back the getter -/
theorem allowOf_allowList {n : Nat} (t : Tok) {x y : Nat} (hx : x < n) (hy : y < n) :
    allowOf (allowList n t) x y = OZ.Fungible.allowance t x y := by
  unfold allowOf
  cases hf : (allowList n t).find? (fun e => decide (e.1 = x ∧ e.2.1 = y)) with
  | none =>
    simp only
    rw [List.find?_eq_none] at hf
    by_cases h0 : OZ.Fungible.allowance t x y = 0
    · exact h0.symm
    · exact absurd (by simp) (hf (x, y, OZ.Fungible.allowance t x y) (mem_allowList.mpr ⟨hx, hy, h0, rfl⟩))
  | some e =>
    simp only
    have hp := List.find?_some hf
    have hm := List.mem_of_find?_eq_some hf
    obtain ⟨_, _, _, h4⟩ := mem_allowList.mp hm
    simp only [decide_eq_true_eq] at hp
    rw [h4, hp.1, hp.2]

theorem allowMoved_of {pre post : List (Nat × Nat × Int)} {chg : Option (Nat × Nat × Int)}
    (h : ∀ o sp, o < N → sp < N → allowOf post o sp = allowExp pre chg o sp) :
    allowMoved pre post chg = true := by
  unfold allowMoved
  rw [List.all_eq_true]
  intro o ho
  rw [List.all_eq_true]
  intro sp hsp
  rw [beq_iff_eq]
  exact h o sp (List.mem_range.mp ho) (List.mem_range.mp hsp)

/-- no allowance of the universe reads differently -/
theorem allowMoved_same {t t' : Tok}
    (h : ∀ x y, OZ.Fungible.allowance t' x y = OZ.Fungible.allowance t x y) :
    allowMoved (allowList N t) (allowList N t') none = true := by
  apply allowMoved_of
  intro o sp ho hsp
  rw [allowOf_allowList t' ho hsp]
  show _ = allowOf (allowList N t) o sp
  rw [allowOf_allowList t ho hsp, h]

/-- exactly the allowance `ow → sp` reads `d` less when the spender is not the owner; nothing moves
when he is -/
theorem allowMoved_spend {t t' : Tok} {ow sp : Nat} {d : Int}
    (hne : sp ≠ ow → OZ.Fungible.allowance t' ow sp = OZ.Fungible.allowance t ow sp - d)
    (hoth : ∀ x y, ¬ (x = ow ∧ y = sp ∧ sp ≠ ow) →
      OZ.Fungible.allowance t' x y = OZ.Fungible.allowance t x y) :
    allowMoved (allowList N t) (allowList N t') (if sp ≠ ow then some (ow, sp, d) else none) = true := by
  apply allowMoved_of
  intro x y hx hy
  rw [allowOf_allowList t' hx hy]
  by_cases hso : sp ≠ ow
  · rw [if_pos hso]
    show _ = if x = ow ∧ y = sp then allowOf (allowList N t) x y - d else allowOf (allowList N t) x y
    rw [allowOf_allowList t hx hy]
    by_cases hxy : x = ow ∧ y = sp
    · rw [if_pos hxy, hxy.1, hxy.2]; exact hne hso
    · rw [if_neg hxy]; exact hoth x y (fun e => hxy ⟨e.1, e.2.1⟩)
  · rw [if_neg hso]
    show _ = allowOf (allowList N t) x y
    rw [allowOf_allowList t hx hy]
    exact hoth x y (fun e => hso e.2.2)

/-! ### "the observation shows the state" -/

/-- the state part of an observation line is the printed form of the model state `s` -/
structure Shown (p : Obs) (s : State) : Prop where
  A : p.A = totalAssets s
  S : p.S = totalShares s
  sb : p.sb = (List.range N).map s.sh.bal
  ab : p.ab = (List.range N).map s.ast.bal
  asup : p.asup = s.ast.supply
  sal : p.sal = allowList N s.sh
  aal : p.aal = allowList N s.ast

theorem stateObs_shown (s : State) (ok : Bool) (ret : Option Int) (evs : List Ev) (dem : List Nat) (q : QA) :
    Shown (stateObs s ok ret evs dem q) s := ⟨rfl, rfl, rfl, rfl, rfl, rfl, rfl⟩

theorem sameState_of_shown {p o : Obs} {s : State} (hp : Shown p s) (ho : Shown o s) : sameState p o = true := by
  unfold sameState
  rw [decide_eq_true_eq]
  exact ⟨by rw [hp.A, ho.A], by rw [hp.S, ho.S], by rw [hp.sb, ho.sb], by rw [hp.ab, ho.ab], by rw [hp.asup, ho.asup]⟩

/-- what is known of every reachable model state of a harness sequence: well-formed over the
observed universe `0..4`, the vault is address 4, the event log replays to the share balances -/
structure Good (s : State) : Prop where
  wf : WF (List.range N) s
  vault : s.vault = VAULT
  replay : replay s.events = s.sh.bal

/-! ### the list-level event replay -/

theorem replayEv_evOf (b : Nat → Int) (ev : Event) :
    (match evOf ev with | some e => replayEv ((List.range N).map b) e | none => (List.range N).map b) =
      (List.range N).map (replayEvent b ev) := by
  cases ev with
  | deposit o f r a sh =>
    simp only [evOf, replayEv, replayEvent, OZ.FungibleMon.addAt_map]
  | withdraw o r ow a sh =>
    simp only [evOf, replayEv, replayEvent, OZ.FungibleMon.addAt_map, Int.sub_eq_add_neg]
  | token tev =>
    cases tev with
    | mint t a => simp only [evOf, replayEv, replayEvent, OZ.Fungible.replayEvent, OZ.FungibleMon.addAt_map]
    | burn f a =>
      simp only [evOf, replayEv, replayEvent, OZ.Fungible.replayEvent, OZ.FungibleMon.addAt_map, Int.sub_eq_add_neg]
    | transfer f t a =>
      simp only [evOf, replayEv, replayEvent, OZ.Fungible.replayEvent, OZ.FungibleMon.addAt_map, Int.sub_eq_add_neg]
    | approve _ _ _ _ => rfl

theorem foldl_replayEv_filterMap (evs : List Event) (b : Nat → Int) :
    (evs.filterMap evOf).foldl replayEv ((List.range N).map b) = (List.range N).map (evs.foldl replayEvent b) := by
  induction evs generalizing b with
  | nil => rfl
  | cons e es ih =>
    have h := replayEv_evOf b e
    rw [List.filterMap_cons]
    cases he : evOf e with
    | none =>
      rw [he] at h
      have h' : (List.range N).map b = (List.range N).map (replayEvent b e) := h
      simp only [List.foldl_cons]
      rw [← ih, h']
    | some x =>
      rw [he] at h
      have h' : replayEv ((List.range N).map b) x = (List.range N).map (replayEvent b e) := h
      simp only [List.foldl_cons]
      rw [← ih, ← h']

/-- the share-moving events of one accepted call replay the old printed balances into the new ones -/
theorem replay_step {s s' : State} {evs : List Event} (hr : replay s.events = s.sh.bal)
    (hr' : replay s'.events = s'.sh.bal) (he : s'.events = s.events ++ evs) :
    ((s'.events.drop s.events.length).filterMap evOf).foldl replayEv ((List.range N).map s.sh.bal) =
      (List.range N).map s'.sh.bal := by
  rw [foldl_replayEv_filterMap, he, List.drop_left, ← hr', he, ← hr]
  simp [replay, List.foldl_append]

/-! ### the checks of every line, each silent under its plain-worded condition -/

theorem vSum_none {o : Obs} (h : o.sb.sum = o.S) : vSum o = none := by
  unfold vSum; rw [if_neg (by rw [h]; exact fun hne => hne rfl)]

theorem vNegative_none {o : Obs} (h : o.sb.any (· < 0) = false) : vNegative o = none := by
  unfold vNegative; rw [if_neg (by rw [h]; exact Bool.false_ne_true)]

theorem vRollback_none {prev o : Obs}
    (h : o.ok = false → sameState prev o = true ∧ allowMoved prev.sal o.sal none = true ∧
      allowMoved prev.aal o.aal none = true) : vRollback prev o = none := by
  unfold vRollback
  rw [if_neg]
  rintro ⟨h1, h2⟩
  exact h2 (h (by simpa using h1))

theorem vReplay_none {r : List Int} {o : Obs} (h : r = o.sb) : vReplay r o = none := by
  unfold vReplay; rw [if_neg (by rw [h]; exact fun hne => hne rfl)]

theorem vTotalAssets_none {o : Obs} (h : o.A = o.ab.getD VAULT 0) : vTotalAssets o = none := by
  unfold vTotalAssets; rw [if_neg (by rw [← h]; exact fun hne => hne rfl)]

theorem vRate_none {V : Int} {prev o : Obs}
    (h : o.ok = true → (prev.A + 1) * (o.S + V) ≤ (o.A + 1) * (prev.S + V)) : vRate V prev o = none := by
  unfold vRate
  rw [if_neg]
  rintro ⟨h1, h2⟩
  have := h h1
  omega

theorem generic_none {prev : Obs} {V : Int} {r : List Int} {o : Obs}
    (h1 : vSum o = none) (h2 : vNegative o = none) (h3 : vRollback prev o = none) (h4 : vReplay r o = none)
    (h5 : vTotalAssets o = none) (h6 : vRate V prev o = none) : generic prev V r o = none := by
  unfold generic
  rw [orElse_none h1, orElse_none h2, orElse_none h3, orElse_none h4, orElse_none h5]
  exact h6

theorem sb_nonneg {s : State} (h : ∀ a, 0 ≤ s.sh.bal a) : ((List.range N).map s.sh.bal).any (· < 0) = false := by
  simp only [List.any_eq_false, List.mem_map, decide_eq_true_eq]
  rintro x ⟨a, _, rfl⟩
  have := h a
  omega

/-- the five state checks of `generic` on an observation that shows a good state: only the
rollback check and the rate check depend on the previous observation -/
theorem generic_shown {prev : Obs} {V : Int} {r : List Int} {o : Obs} {s' : State} (hg : Good s')
    (ho : Shown o s') (hr : r = (List.range N).map s'.sh.bal) (h3 : vRollback prev o = none)
    (h6 : vRate V prev o = none) : generic prev V r o = none := by
  apply generic_none _ _ h3 _ _ h6
  · apply vSum_none; rw [ho.sb, ho.S]; exact hg.wf.sh.sum
  · apply vNegative_none; rw [ho.sb]; exact sb_nonneg hg.wf.sh.nonneg
  · apply vReplay_none; rw [ho.sb]; exact hr
  · apply vTotalAssets_none
    rw [ho.A, ho.ab, getD_map_range _ (by decide : VAULT < N)]
    unfold totalAssets; rw [hg.vault]

/-! ### a `query` line -/

theorem qCheck_none {k : String} {got w : Option Int} {V x : Int} {o : Obs} (h : got = w) :
    qCheck k (some got) w V x o = none := by
  unfold qCheck
  simp only
  rw [if_pos h]

/-- the balance column of a printed state reads the model's balance (0 outside the universe) -/
theorem sb_getD {s : State} (hw : WF (List.range N) s) (who : Nat) :
    ((List.range N).map s.sh.bal).getD who 0 = s.sh.bal who := by
  by_cases h : who < N
  · exact getD_map_range _ h
  · rw [hw.sh.outside who (fun hm => h (List.mem_range.mp hm))]
    simp [List.getD, h]

/-- every answer of a query on a good state is the property's formula on the printed totals -/
theorem checkQuery_none {s : State} (hg : Good s) {o : Obs} (ho : Shown o s) (x : Int) (who : Nat)
    (hx : OZ.MulDiv.in128 x) (hq : o.q = answers s x who) :
    checkQuery (10 ^ s.offset) x who o = none := by
  have hw := hg.wf
  have hb : o.sb.getD who 0 = s.sh.bal who := by rw [ho.sb]; exact sb_getD hw who
  have hbin : OZ.MulDiv.in128 (s.sh.bal who) := by
    by_cases h : who < N
    · exact shares_in128 List.nodup_range hw (hw.sh.nonneg who) (Int.le_refl _)
    · rw [hw.sh.outside who (fun hm => h (List.mem_range.mp hm))]; decide
  have e1 : (answers s x who).pd = some (toOpt (convertToShares s x (rdOf false))) := rfl
  have e2 : (answers s x who).pm = some (toOpt (convertToAssets s x (rdOf true))) := rfl
  have e3 : (answers s x who).pw = some (toOpt (convertToShares s x (rdOf true))) := rfl
  have e4 : (answers s x who).pr = some (toOpt (convertToAssets s x (rdOf false))) := rfl
  have e5 : (answers s x who).cs = some (toOpt (convertToShares s x (rdOf false))) := rfl
  have e6 : (answers s x who).ca = some (toOpt (convertToAssets s x (rdOf false))) := rfl
  have e7 : (answers s x who).mw = some (toOpt (convertToAssets s (s.sh.bal who) (rdOf false))) := rfl
  have e8 : (answers s x who).mr = some (some (s.sh.bal who)) := rfl
  have e9 : (answers s x who).md = some (some I128MAX) := rfl
  have e10 : (answers s x who).mm = some (some I128MAX) := rfl
  unfold checkQuery
  rw [hq, ho.S, ho.A, hb, e1, e2, e3, e4, e5, e6, e7, e8, e9, e10]
  rw [orElse_none (qCheck_none (convertToShares_spec hw x hx false)),
    orElse_none (qCheck_none (convertToAssets_spec hw x hx true)),
    orElse_none (qCheck_none (convertToShares_spec hw x hx true)),
    orElse_none (qCheck_none (convertToAssets_spec hw x hx false)),
    orElse_none (qCheck_none (convertToShares_spec hw x hx false)),
    orElse_none (qCheck_none (convertToAssets_spec hw x hx false)),
    orElse_none (qCheck_none (convertToAssets_spec hw (s.sh.bal who) hbin false)),
    orElse_none (qCheck_none rfl), orElse_none (qCheck_none rfl)]
  exact qCheck_none rfl

theorem vQuery_none {s : State} (hg : Good s) {prev o : Obs} (hp : Shown prev s) (ho : Shown o s) (x : Int)
    (who : Nat) (hx : OZ.MulDiv.in128 x) (hq : o.q = answers s x who) :
    vQuery (10 ^ s.offset) x who prev o = none := by
  unfold vQuery
  rw [if_neg (by rw [sameState_of_shown hp ho]; exact fun h => h rfl)]
  exact checkQuery_none hg ho x who hx hq

/-! ### ledger movement and token lines -/

theorem vAdvance_none {prev o : Obs} (h : sameState prev o = true) : vAdvance prev o = none := by
  unfold vAdvance; rw [if_pos h]

theorem vShareTok_none {name : String} {prev o : Obs} (h1 : o.S = prev.S) (h2 : o.ab = prev.ab)
    (h3 : o.A = prev.A) : vShareTok name prev o = none := by
  unfold vShareTok
  rw [if_neg]
  rintro (h | h | h)
  · exact h h1
  · exact h h2
  · exact h h3

theorem vAssetTok_none {name : String} {prev o : Obs} (h1 : o.S = prev.S) (h2 : o.sb = prev.sb) :
    vAssetTok name prev o = none := by
  unfold vAssetTok
  rw [if_neg]
  rintro (h | h)
  · exact h h1
  · exact h h2

end OZ.Vault.Mon
