import OZ.Lemmas.TimelockControllerMonChecks
/-
Soundness of the C09 monitor, monitor part 2: the facts shared by all accepted call lines
(`CallSound`, Done stays Done) and the authorization phase of the controller's own entry points —
the controller's own `require_auth` consuming exactly the operation of that call, or an ordinary
account's signature — against the monitor's `consumed` check and its ghost log.
-/
namespace OZ.TimelockController.Mon
open OZ.Host OZ.Timelock OZ.TimelockController

/-- a Done operation stays Done through every accepted entry point -/
theorem applyE_ledger_one {c c' : CState} {auth : List AuthTok} {sig : Option (List Meta)} {e : Entry}
    (h : applyE c auth sig e = .ok c') {id : Id} (h1 : c.tl.ledger id = 1) : c'.tl.ledger id = 1 := by
  obtain ⟨c1, hrel, _, _, hd⟩ := applyE_decomp h
  have h11 : c1.tl.ledger id = 1 := hrel.frame.one id h1
  cases hy : e.tlOp with
  | some y =>
    rw [hy] at hd
    obtain ⟨rfl, hs⟩ := hd
    exact apply_ledger_one h1 hs
  | none =>
    rw [hy] at hd
    rcases hd with e1 | ⟨d, _, e1⟩
    · rw [e1]; exact h11
    · rw [e1]; exact h11

theorem ghostStep_defs (m : Mon) (cl : CallLine) (now : Nat) (pa : Option Nat) :
    (ghostStep m cl now pa).defs = m.defs := by
  unfold ghostStep
  cases cl.call with
  | sched k d p =>
    simp only
    cases m.defs[k]? <;> rfl
  | cancel r p => rfl
  | exec k ex ok =>
    simp only
    cases m.defs[k]? <;> rfl
  | _ =>
    simp only
    split
    · exact markDone_defs _ _
    · rfl

/-- what has to be shown for a call line the model accepts with new controller state `c'` -/
structure CallSound (m : Mon) (x : MS) (cl : CallLine) (c' : CState) : Prop where
  verdict : ∀ ok0 eq0, verdictCall m (modelObs x.c x.defs ok0 eq0) (modelObs c' x.defs true none) cl = none
  ghost : ∀ id, (ghostStep m cl c'.tl.now x.c.admin).get (some id) = toG (Timelock.ghost c'.tl.log id)
  known : ∀ id, Timelock.ghost c'.tl.log id ≠ .unset → id ∈ x.defs.map Operation.id

theorem verdictCall_none {m : Mon} {prev o : Obs} {cl : CallLine}
    (hidle : idle cl.call prev o = none) (hund : undoneCheck prev o = none) (hok : o.ok = true)
    (heff : effect cl.call prev o = none) (hacc : verdictAccepted m prev o cl = none) :
    verdictCall m prev o cl = none := by
  unfold verdictCall verdictOk
  rw [hidle, hund, if_neg (by simp [hok]), heff, hacc]
  rfl

/-! ### the ghost log for calls on the controller's own entry points -/

def isOwn (c : Call) : Bool := isAdminKind c || isCallerKind c

theorem ghostStep_own (m : Mon) (cl : CallLine) (now : Nat) (pa : Option Nat) (h : isOwn cl.call = true) :
    ghostStep m cl now pa =
      if consumes cl.call pa then markDone m (sigKeys m.defs cl.call cl.sig) else m := by
  unfold ghostStep consumedKeys
  cases hc : cl.call <;> simp_all [isOwn, isAdminKind, isCallerKind]

/-- the account whose `require_auth` guards the call -/
def guardOf (x : MS) (c : Call) : Option Nat := if isAdminKind c then x.c.admin else callerOf c

theorem consumes_own (x : MS) (c : Call) (h : isOwn c = true) (who : Nat) (hw : guardOf x c = some who) :
    consumes c x.c.admin = decide (who = 0) := by
  unfold guardOf at hw
  unfold consumes
  cases c <;> simp_all [isOwn, isAdminKind, isCallerKind, isCheck, callerOf] <;> rfl

/-- one descriptor on the wire resolves to exactly this model descriptor -/
theorem resolveSig_single {defs : List Operation} {sig : Option (List MetaM)} {mt : Meta}
    (h : resolveSig defs sig = some [mt]) :
    ∃ md, sig = some [md] ∧ refKey defs md.p = some mt.pred ∧ mt.salt = md.s ∧ mt.executor = md.e := by
  unfold resolveSig at h
  cases sig with
  | none => cases h
  | some l =>
    simp only [Option.bind_some] at h
    have hl := resolveMetas_length h
    match l, hl with
    | [md], _ =>
      obtain ⟨p, hp, hg⟩ := resolveMetas_get h 0 md rfl
      simp only [List.getElem?_cons_zero, Option.some.injEq] at hg
      subst hg
      exact ⟨md, rfl, hp, rfl, rfl⟩

/-- the authorization phase of an accepted call on one of the controller's own entry points -/
structure PhaseSound (m : Mon) (x : MS) (cl : CallLine) (who : Nat) (c1 : CState) : Prop where
  /-- the controller's own authority: a descriptor, and the monitor's consumption check is silent
  against the observation of any later state in which the operation ledgers are those of `c1` -/
  self : who = 0 → ∃ md rest, cl.sig = some (md :: rest) ∧
    ∀ c' ok0 eq0, c'.tl.ledger = c1.tl.ledger →
      consumed m (modelObs x.c x.defs ok0 eq0) (modelObs c' x.defs true none) (fnOf cl.call) (argsOf cl.call) md 0 cl.auth true = none
  plain : who ≠ 0 → AuthM.call who ∈ cl.auth
  ghost : ∀ now id, (ghostStep m cl now x.c.admin).get (some id) = toG (Timelock.ghost c1.tl.log id)
  known : ∀ id, Timelock.ghost c1.tl.log id ≠ .unset → id ∈ x.defs.map Operation.id
  one : ∀ id, x.c.tl.ledger id = 1 → c1.tl.ledger id = 1
  min : c1.tl.minDelay = x.c.tl.minDelay
  now : c1.tl.now = x.c.tl.now
  calls : c1.tl.calls = x.c.tl.calls
  ac : c1.ac = x.c.ac
  selfAddr : c1.self = x.c.self
  inv : Inv c1.tl

theorem phase_sound (m : Mon) (x : MS) (hi : MInv x) (ha : Agree m x) (cl : CallLine)
    (hown : isOwn cl.call = true) (who : Nat) (hw : guardOf x cl.call = some who) (c1 : CState)
    (hph : AuthPhase x.c (ownToks x cl) (resolveSig x.defs cl.sig) who (fnOf cl.call) (argsOf cl.call) c1) :
    PhaseSound m x cl who c1 := by
  have hcons := consumes_own x cl.call hown who hw
  rcases hph with ⟨hself, mt, tl', hsig, hgate, hse, rfl⟩ | ⟨hne, hin, rfl⟩
  · -- the controller itself
    have hw0 : who = 0 := by rw [hself, hi.self]
    obtain ⟨md, hmd, hres, hsalt, hexe⟩ := resolveSig_single hsig
    obtain ⟨h2, hn, hpd0, htl⟩ := setExecute_ok hse
    have hpd : true = true → mt.pred = Id.zero ∨ x.c.tl.ledger mt.pred = 1 := fun _ => hpd0
    have hid : (opOf x.c.self (fnOf cl.call) (argsOf cl.call) mt).id =
        Id.op 0 (fnOf cl.call) (argsOf cl.call) mt.pred md.s := by
      rw [hi.self, ← hsalt]; rfl
    rw [hid] at h2 hn htl
    have hready : getOperationState x.c.tl (Id.op 0 (fnOf cl.call) (argsOf cl.call) mt.pred md.s) = .ready :=
      stateOf_ready.mpr ⟨h2, hn⟩
    have hexec : x.c.executorCount ≠ 0 →
        ∃ ex, md.e = some ex ∧ x.c.hasRole EXECUTOR ex = true ∧ AuthM.exec ex 0 ∈ cl.auth := by
      intro hne
      obtain ⟨ex, he, hr, hin⟩ := execGate_ok hgate hne
      refine ⟨ex, by rw [← hexe]; exact he, hr, ?_⟩
      obtain ⟨j, mt', hj, hc, _, _, _⟩ := mem_resolveToks_exec hin
      have : j = 0 := by
        unfold ownCtx at hc
        cases j with
        | zero => rfl
        | succ j => simp at hc
      rw [this] at hj; exact hj
    have hdone1 : tl'.ledger (Id.op 0 (fnOf cl.call) (argsOf cl.call) mt.pred md.s) = 1 := by
      rw [htl]; show updId _ _ _ _ = 1; rw [updId_same]; rfl
    have hkey := (consumed_none m x hi ha { x.c with tl := tl' } true none (fnOf cl.call) (argsOf cl.call) md mt.pred hres 0
      cl.auth hready hdone1 hexec true hpd).2
    have hmem : Id.op 0 (fnOf cl.call) (argsOf cl.call) mt.pred md.s ∈ x.defs.map Operation.id := by
      unfold keyOf at hkey
      cases hf : findDef x.defs (opKey (fnOf cl.call) (argsOf cl.call) (refKey x.defs md.p) md.s) with
      | none => rw [hf] at hkey; cases hkey
      | some k =>
        rw [hf] at hkey
        simp only [Option.bind_some] at hkey
        cases hx : x.defs[k]? with
        | none => rw [hx] at hkey; cases hkey
        | some dd =>
          rw [hx] at hkey
          injection hkey with hkey
          rw [← hkey]
          exact List.mem_map.mpr ⟨dd, List.mem_of_getElem? hx, rfl⟩
    have hlog : tl'.log = Ev.exec (Id.op 0 (fnOf cl.call) (argsOf cl.call) mt.pred md.s) x.c.tl.now :: x.c.tl.log := by
      rw [htl]
    refine ⟨?_, fun h => absurd hw0 h, ?_, ?_, ?_, by rw [htl], by rw [htl], by rw [htl], rfl, rfl,
      setExecute_inv hi.tl hse⟩
    · intro _
      refine ⟨md, [], hmd, ?_⟩
      intro c' ok0 eq0 hl
      exact (consumed_none m x hi ha c' ok0 eq0 (fnOf cl.call) (argsOf cl.call) md mt.pred hres 0 cl.auth hready
        (by rw [hl]; exact hdone1) hexec true hpd).1
    · intro now id
      rw [ghostStep_own m cl now _ hown, hcons, hw0]
      simp only [decide_true, if_true]
      rw [hmd]
      unfold sigKeys
      simp only
      rw [ha.defs, hkey]
      simp only [Option.toList_some]
      rw [get_markDone]
      show _ = toG (Timelock.ghost tl'.log id)
      rw [hlog]
      by_cases e : id = Id.op 0 (fnOf cl.call) (argsOf cl.call) mt.pred md.s
      · rw [if_pos (by simp [e]), e, ghost_exec_same]; rfl
      · rw [if_neg (by simp [e]), ghost_other _ _ _ (by simpa [Ev.id] using fun h => e h.symm)]
        exact ha.ghost id
    · intro id hne
      show id ∈ _
      have hne' : Timelock.ghost tl'.log id ≠ .unset := hne
      rw [hlog] at hne'
      by_cases e : id = Id.op 0 (fnOf cl.call) (argsOf cl.call) mt.pred md.s
      · rw [e]; exact hmem
      · rw [ghost_other _ _ _ (by simpa [Ev.id] using fun h => e h.symm)] at hne'
        exact hi.known id hne'
    · intro id h1
      show tl'.ledger id = 1
      rw [htl]
      show updId _ _ _ id = 1
      by_cases e : id = Id.op 0 (fnOf cl.call) (argsOf cl.call) mt.pred md.s
      · rw [e, updId_same]; rfl
      · rw [updId_other _ _ _ _ e]; exact h1
  · -- an ordinary account
    have hw0 : who ≠ 0 := by rw [← hi.self]; exact hne
    refine ⟨fun h => absurd h hw0, fun _ => mem_resolveToks_call.mp hin, ?_, hi.known, fun _ h => h, rfl, rfl, rfl,
      rfl, rfl, hi.tl⟩
    intro now id
    rw [ghostStep_own m cl now _ hown, hcons]
    simp only [hw0, decide_false, Bool.false_eq_true, if_false]
    exact ha.ghost id

end OZ.TimelockController.Mon
