import OZ.Model.RegUtil
/-
List facts shared by the C20 registry lemmas (core Lean only).
-/
namespace OZ.Reg

variable {α : Type}

theorem updD_same {κ β : Type} [DecidableEq κ] (f : κ → β) (a : κ) (v : β) : updD f a v a = v := by
  simp [updD]

theorem updD_other {κ β : Type} [DecidableEq κ] (f : κ → β) (a b : κ) (v : β) (h : b ≠ a) :
    updD f a v b = f b := by
  simp [updD, h]

theorem nodup_reverse {l : List α} : l.reverse.Nodup ↔ l.Nodup :=
  (List.reverse_perm l).nodup_iff

theorem nodup_filter (p : α → Bool) {l : List α} (h : l.Nodup) : (l.filter p).Nodup :=
  List.filter_sublist.nodup h

theorem nodup_append_singleton {l : List α} {a : α} (h : l.Nodup) (hn : a ∉ l) : (l ++ [a]).Nodup := by
  rw [List.nodup_append]
  refine ⟨h, by simp, ?_⟩
  intro x hx y hy; simp at hy; subst hy; intro hxy; subst hxy; exact hn hx

section
variable [BEq α] [LawfulBEq α]

theorem mem_eraseLast {l : List α} (hnd : l.Nodup) (a x : α) : x ∈ eraseLast l a ↔ x ∈ l ∧ x ≠ a := by
  unfold eraseLast
  rw [List.mem_reverse, (nodup_reverse.2 hnd).mem_erase_iff, List.mem_reverse]
  exact And.comm

theorem nodup_eraseLast {l : List α} (hnd : l.Nodup) (a : α) : (eraseLast l a).Nodup := by
  unfold eraseLast
  exact nodup_reverse.2 ((nodup_reverse.2 hnd).erase a)

omit [LawfulBEq α] in
theorem length_eraseLast_le (l : List α) (a : α) : (eraseLast l a).length ≤ l.length := by
  unfold eraseLast
  rw [List.length_reverse]
  exact Nat.le_trans List.erase_sublist.length_le (by simp)

theorem length_eraseLast_of_mem {l : List α} {a : α} (h : a ∈ l) : (eraseLast l a).length = l.length - 1 := by
  unfold eraseLast
  rw [List.length_reverse, List.length_erase_of_mem (List.mem_reverse.2 h), List.length_reverse]

end

/-- index access into a duplicate-free list is injective -/
theorem nodup_index_inj (l : List α) (hnd : l.Nodup) (i j : Nat) (p : α)
    (hi : l[i]? = some p) (hj : l[j]? = some p) : i = j := by
  rw [List.getElem?_eq_some_iff] at hi hj
  obtain ⟨hi', hi⟩ := hi
  obtain ⟨hj', hj⟩ := hj
  rw [List.Nodup, List.pairwise_iff_getElem] at hnd
  rcases Nat.lt_trichotomy i j with h | h | h
  · exact absurd (hi.trans hj.symm) (hnd i j hi' hj' h)
  · exact h
  · exact absurd (hj.trans hi.symm) (hnd j i hj' hi' h)

theorem err_of_not_ok {σ : Type} {r : Except RErr σ} (h : ∀ s', r ≠ .ok s') : ∃ e, r = .error e := by
  cases r with
  | error e => exact ⟨e, rfl⟩
  | ok s' => exact absurd rfl (h s')

end OZ.Reg
