import OZ.Lemmas.WebAuthn
import OZ.Model.VerifiersMon
/-
Helper lemmas for the soundness of the C18 monitor (OZ/Props/C18Mon.lean): reading back the three
answer lines, the monitor's defect chain as a conjunction, and the verdict functions on an outcome
that is accepted exactly when the monitor finds no defect.
-/
namespace OZ.Verifiers.Mon
open OZ.B64 OZ.Verifiers OZ.WebAuthn

/-- the driver reads the model's answer line back as the answer (string level, three literals) -/
theorem ofLine_line (a : Ans) : Ans.ofLine a.line = a := by
  cases a <;> decide

theorem webauthnGet_eq : webauthnGet = WEBAUTHN_GET := by decide

theorem ansOf_accept_iff {ε} (r : Except ε Bool) : ansOf r = .accept ↔ r = .ok true := by
  cases r with
  | error e => constructor <;> intro h <;> cases h
  | ok b => cases b <;> constructor <;> intro h <;> first | rfl | cases h

theorem ansOf_retFalse_iff {ε} (r : Except ε Bool) : ansOf r = .retFalse ↔ r = .ok false := by
  cases r with
  | error e => constructor <;> intro h <;> cases h
  | ok b => cases b <;> constructor <;> intro h <;> first | rfl | cases h

/-- the monitor's chain finds no defect exactly under the conjunction of its conditions -/
theorem waDefect_none_iff (w : WaOp) :
    waDefect w = none ↔
      (w.c = .ex → w.xdr = 1 ∧ 65 ≤ w.kl) ∧
      w.cd.length ≤ 1024 ∧
      w.parseOk = true ∧ w.ty = webauthnGet ∧
      w.pl.length = 32 ∧ w.ch = rfc4648 w.pl ∧
      37 ≤ w.ad.length ∧
      flagsOf w.ad % 2 = 1 ∧ flagsOf w.ad / 4 % 2 = 1 ∧
      ¬ (flagsOf w.ad / 8 % 2 = 0 ∧ flagsOf w.ad / 16 % 2 = 1) ∧
      w.sv = 1 := by
  unfold waDefect
  by_cases h1 : w.c = .ex ∧ w.xdr ≠ 1
  · rw [if_pos h1]; constructor
    · intro h; cases h
    · rintro ⟨h, -⟩; exact absurd (h h1.1).1 h1.2
  rw [if_neg h1]
  by_cases h2 : w.c = .ex ∧ w.kl < 65
  · rw [if_pos h2]; constructor
    · intro h; cases h
    · rintro ⟨h, -⟩; have := (h h2.1).2; omega
  rw [if_neg h2]
  have hex : w.c = .ex → w.xdr = 1 ∧ 65 ≤ w.kl := by
    intro hc
    refine ⟨Classical.not_not.mp (fun hx => h1 ⟨hc, hx⟩), ?_⟩
    exact Nat.le_of_not_lt (fun hk => h2 ⟨hc, hk⟩)
  by_cases h3 : w.cd.length > 1024
  · rw [if_pos h3]; constructor
    · intro h; cases h
    · rintro ⟨-, h, -⟩; omega
  rw [if_neg h3]
  by_cases h4 : ¬ w.parseOk
  · rw [if_pos h4]; constructor
    · intro h; cases h
    · rintro ⟨-, -, h, -⟩; exact absurd h h4
  rw [if_neg h4]
  by_cases h5 : w.ty ≠ webauthnGet
  · rw [if_pos h5]; constructor
    · intro h; cases h
    · rintro ⟨-, -, -, h, -⟩; exact absurd h h5
  rw [if_neg h5]
  by_cases h6 : w.pl.length ≠ 32
  · rw [if_pos h6]; constructor
    · intro h; cases h
    · rintro ⟨-, -, -, -, h, -⟩; exact absurd h h6
  rw [if_neg h6]
  by_cases h7 : w.ch ≠ rfc4648 w.pl
  · rw [if_pos h7]; constructor
    · intro h; cases h
    · rintro ⟨-, -, -, -, -, h, -⟩; exact absurd h h7
  rw [if_neg h7]
  by_cases h8 : w.ad.length < 37
  · rw [if_pos h8]; constructor
    · intro h; cases h
    · rintro ⟨-, -, -, -, -, -, h, -⟩; omega
  rw [if_neg h8]
  by_cases h9 : flagsOf w.ad % 2 ≠ 1
  · rw [if_pos h9]; constructor
    · intro h; cases h
    · rintro ⟨-, -, -, -, -, -, -, h, -⟩; exact absurd h h9
  rw [if_neg h9]
  by_cases h10 : flagsOf w.ad / 4 % 2 ≠ 1
  · rw [if_pos h10]; constructor
    · intro h; cases h
    · rintro ⟨-, -, -, -, -, -, -, -, h, -⟩; exact absurd h h10
  rw [if_neg h10]
  by_cases h11 : flagsOf w.ad / 8 % 2 = 0 ∧ flagsOf w.ad / 16 % 2 = 1
  · rw [if_pos h11]; constructor
    · intro h; cases h
    · rintro ⟨-, -, -, -, -, -, -, -, -, h, -⟩; exact absurd h11 h
  rw [if_neg h11]
  by_cases h12 : w.sv ≠ 1
  · rw [if_pos h12]; constructor
    · intro h; cases h
    · rintro ⟨-, -, -, -, -, -, -, -, -, -, h⟩; exact absurd h h12
  rw [if_neg h12]
  constructor
  · intro _
    exact ⟨hex, Nat.le_of_not_lt h3, Classical.not_not.mp h4, Classical.not_not.mp h5, Classical.not_not.mp h6,
      Classical.not_not.mp h7, Nat.le_of_not_lt h8, Classical.not_not.mp h9, Classical.not_not.mp h10, h11,
      Classical.not_not.mp h12⟩
  · intro _; rfl

/-- an outcome that is `ok true` exactly when the monitor finds no defect, and never `ok false`,
passes the WebAuthn verdict -/
theorem verdictWa_quiet {ε} (w : WaOp) (r : Except ε Bool)
    (hiff : waDefect w = none ↔ r = .ok true) (hnf : r ≠ .ok false) : verdictWa w (ansOf r) = none := by
  unfold verdictWa
  rw [if_neg (by rw [ansOf_retFalse_iff]; exact hnf)]
  unfold verdictWaAgainst
  cases hd : waDefect w with
  | none =>
    have : ansOf r = .accept := (ansOf_accept_iff r).mpr (hiff.mp hd)
    simp only [this, if_true]
  | some why =>
    have : ansOf r ≠ .accept := by
      intro h
      rw [hiff.mpr ((ansOf_accept_iff r).mp h)] at hd
      cases hd
    simp only [this, if_false]

/-- an outcome that is `ok true` exactly when the oracle bit is set, and never `ok false`, passes
the Ed25519 verdict -/
theorem verdictEd_quiet {ε} (d : EdOp) (r : Except ε Bool)
    (hiff : d.sv = 1 ↔ r = .ok true) (hnf : r ≠ .ok false) : verdictEd d (ansOf r) = none := by
  unfold verdictEd
  rw [if_neg (by rw [ansOf_retFalse_iff]; exact hnf)]
  by_cases hs : d.sv = 1
  · have : ansOf r = .accept := (ansOf_accept_iff r).mpr (hiff.mp hs)
    rw [if_neg (by rintro ⟨_, h⟩; exact h this), if_neg (by rintro ⟨h, _⟩; exact h hs)]
  · have : ansOf r ≠ .accept := fun h => hs (hiff.mpr ((ansOf_accept_iff r).mp h))
    rw [if_neg (by rintro ⟨h, _⟩; exact hs h), if_neg (by rintro ⟨_, h⟩; exact this h)]

/-- the flags byte of authenticator data of at least 37 bytes -/
theorem flags_get (ad : Bytes) (h : 37 ≤ ad.length) : ad[32]? = some (ad.getD 32 0) := by
  rw [List.getD_eq_getElem?_getD, List.getElem?_eq_getElem (by omega)]
  rfl

end OZ.Verifiers.Mon
