import OZ.Lemmas.TimelockControllerMon
/-
Soundness of the C09 monitor, model part: exact descriptions of every accepted entry point of the
controller model in the form the monitor proof needs (the authorization phase — the controller's
own `require_auth` consuming exactly one ready operation, or an ordinary account's signature —
followed by the body), and of the loop of `__check_auth`.
-/
namespace OZ.TimelockController.Mon
open OZ.Host OZ.Timelock OZ.TimelockController

/-! ### the authorization phase of the entry points guarded by `require_auth` -/

/-- `who.require_auth()` inside the invocation `(fn, args)`: either the controller itself — exactly
one descriptor `m`, the executor gate passed and `set_execute_operation` of the operation
(self, fn, args, m.pred, m.salt) accepted — or an ordinary account that signed; nothing else moves -/
def AuthPhase (c : CState) (auth : List AuthTok) (sig : Option (List Meta)) (who fn : Nat) (args : List Nat)
    (c1 : CState) : Prop :=
  (who = c.self ∧ ∃ m tl', sig = some [m] ∧ execGate c auth fn args m = .ok () ∧
      setExecute c.tl (opOf c.self fn args m) = .ok tl' ∧ c1 = { c with tl := tl' }) ∨
  (who ≠ c.self ∧ AuthTok.call who ∈ auth ∧ c1 = c)

theorem requireAuth_phase {c c1 : CState} {auth : List AuthTok} {sig : Option (List Meta)} {who fn : Nat}
    {args : List Nat} (h : requireAuth checkAuth c auth sig who fn args = .ok c1) :
    AuthPhase c auth sig who fn args c1 := by
  rcases requireAuth_ok h with ⟨hw, metas, hs, hc⟩ | ⟨hne, hin, rfl⟩
  · left
    refine ⟨hw, ?_⟩
    obtain ⟨hl, hp⟩ := checkAuth_ok hc
    match metas, hl with
    | [m], _ =>
      simp only [List.zip_cons_cons, List.zip_nil_right] at hp
      unfold checkPairs at hp
      cases h1 : checkOne c auth (.contract c.self fn args) m with
      | error e => rw [h1] at hp; cases hp
      | ok c2 =>
        rw [h1] at hp
        simp only [checkPairs] at hp
        injection hp with hp
        subst hp
        obtain ⟨fn', args', tl', hctx, hg, hse, hc2⟩ := checkOne_ok h1
        simp only [Context.contract.injEq, true_and] at hctx
        obtain ⟨rfl, rfl⟩ := hctx
        exact ⟨m, tl', hs, hg, hse, hc2⟩
  · exact Or.inr ⟨hne, hin, rfl⟩

theorem AuthPhase.ac {c c1 : CState} {auth : List AuthTok} {sig : Option (List Meta)} {who fn : Nat}
    {args : List Nat} (h : AuthPhase c auth sig who fn args c1) : c1.ac = c.ac ∧ c1.self = c.self ∧ c1.cfg = c.cfg := by
  rcases h with ⟨_, m, tl', _, _, _, rfl⟩ | ⟨_, _, rfl⟩
  · exact ⟨rfl, rfl, rfl⟩
  · exact ⟨rfl, rfl, rfl⟩

/-- what the authorization phase does to the timelock part: nothing, or one `set_execute_operation` -/
theorem AuthPhase.tl {c c1 : CState} {auth : List AuthTok} {sig : Option (List Meta)} {who fn : Nat}
    {args : List Nat} (h : AuthPhase c auth sig who fn args c1) :
    c1.tl = c.tl ∨ ∃ op, setExecute c.tl op = .ok c1.tl := by
  rcases h with ⟨_, m, tl', _, _, hs, rfl⟩ | ⟨_, _, rfl⟩
  · exact Or.inr ⟨_, hs⟩
  · exact Or.inl rfl

/-! ### exact descriptions of the accepted entry points -/

theorem updateDelay_inv {c c' : CState} {auth : List AuthTok} {sig : Option (List Meta)} {d : Nat}
    (h : applyE c auth sig (.updateDelay d) = .ok c') :
    ∃ a c1, c.admin = some a ∧ AuthPhase c auth sig a FN_UPDATE_DELAY [vU32 d] c1 ∧
      c' = { c1 with tl := setMinDelay c1.tl d } := by
  simp only [applyE, applyW, updateDelayW] at h
  cases h1 : enforceAdminAuth checkAuth c auth sig FN_UPDATE_DELAY [vU32 d] with
  | error e => rw [h1] at h; cases h
  | ok c1 =>
    rw [h1] at h; injection h with h
    obtain ⟨a, ha, h2⟩ := admin_step h1
    exact ⟨a, c1, ha, requireAuth_phase h2, h.symm⟩

theorem setRoleAdmin_inv {c c' : CState} {auth : List AuthTok} {sig : Option (List Meta)} {r ar : Nat}
    (h : applyE c auth sig (.setRoleAdmin r ar) = .ok c') :
    ∃ a c1, c.admin = some a ∧ AuthPhase c auth sig a FN_SET_ROLE_ADMIN [vSym r, vSym ar] c1 ∧
      c' = { c1 with ac := OZ.Access.setRoleAdminNoAuth c1.ac r ar } := by
  simp only [applyE, applyW, setRoleAdminW] at h
  cases h1 : enforceAdminAuth checkAuth c auth sig FN_SET_ROLE_ADMIN [vSym r, vSym ar] with
  | error e => rw [h1] at h; cases h
  | ok c1 =>
    rw [h1] at h; injection h with h
    obtain ⟨a, ha, h2⟩ := admin_step h1
    exact ⟨a, c1, ha, requireAuth_phase h2, h.symm⟩

theorem transferAdmin_inv {c c' : CState} {auth : List AuthTok} {sig : Option (List Meta)} {new lu : Nat}
    (h : applyE c auth sig (.transferAdmin new lu) = .ok c') :
    ∃ a c1 t, c.admin = some a ∧ AuthPhase c auth sig a FN_TRANSFER_ADMIN [vAddr new, vU32 lu] c1 ∧
      t.holder = c1.ac.adm.holder ∧ c' = { c1 with ac := { c1.ac with adm := t } } := by
  simp only [applyE, applyW, transferAdminW] at h
  cases h1 : enforceAdminAuth checkAuth c auth sig FN_TRANSFER_ADMIN [vAddr new, vU32 lu] with
  | error e => rw [h1] at h; cases h
  | ok c1 =>
    rw [h1] at h; simp only at h
    obtain ⟨t, ht, hc⟩ := withAdm_ok h
    obtain ⟨a, ha, h2⟩ := admin_step h1
    refine ⟨a, c1, t, ha, requireAuth_phase h2, ?_, hc⟩
    cases h3 : OZ.RoleTransfer.transferRole c1.cfg c1.ac.adm new lu with
    | error e => rw [h3] at ht; cases ht
    | ok t0 =>
      rw [h3] at ht
      simp only [Except.map] at ht
      injection ht with ht
      subst ht
      show t0.holder = _
      unfold OZ.RoleTransfer.transferRole at h3
      split at h3
      · obtain ⟨_, e⟩ := OZ.RoleTransfer.cancelPending_ok h3; rw [e]
      · obtain ⟨_, _, e⟩ := OZ.RoleTransfer.storePending_fresh_ok h3; rw [e]

theorem renounceAdmin_inv {c c' : CState} {auth : List AuthTok} {sig : Option (List Meta)}
    (h : applyE c auth sig .renounceAdmin = .ok c') :
    ∃ a c1 t, c.admin = some a ∧ AuthPhase c auth sig a FN_RENOUNCE_ADMIN [] c1 ∧
      t.holder = none ∧ c' = { c1 with ac := { c1.ac with adm := t } } := by
  simp only [applyE, applyW, renounceAdminW] at h
  cases h1 : enforceAdminAuth checkAuth c auth sig FN_RENOUNCE_ADMIN [] with
  | error e => rw [h1] at h; cases h
  | ok c1 =>
    rw [h1] at h; simp only [dropAdmin] at h
    cases h2 : OZ.RoleTransfer.refuseIfPending c1.ac.adm with
    | error e => rw [h2] at h; cases h
    | ok u =>
      rw [h2] at h; injection h with h
      obtain ⟨a, ha, h3⟩ := admin_step h1
      exact ⟨a, c1, _, ha, requireAuth_phase h3, rfl, h.symm⟩

theorem grantRole_inv {c c' : CState} {auth : List AuthTok} {sig : Option (List Meta)} {a r k : Nat}
    (h : applyE c auth sig (.grantRole a r k) = .ok c') :
    ∃ c1 a', AuthPhase c auth sig k FN_GRANT_ROLE [vAddr a, vSym r, vAddr k] c1 ∧
      (OZ.Access.isAdmin c.ac k = true ∨ OZ.Access.isAdminRole c.ac r k = true) ∧
      OZ.Access.grantRoleNoAuth c.ac a r k = .ok a' ∧ c' = { c1 with ac := a' } := by
  simp only [applyE, applyW, grantRoleW] at h
  cases h1 : requireAuth checkAuth c auth sig k FN_GRANT_ROLE [vAddr a, vSym r, vAddr k] with
  | error e => rw [h1] at h; cases h
  | ok c1 =>
    rw [h1] at h; simp only [guardedRoleChange] at h
    cases h2 : OZ.Access.ensureIfAdminOrAdminRole c1.ac r k with
    | error e => rw [h2] at h; cases h
    | ok u =>
      rw [h2] at h; simp only at h
      obtain ⟨a', ha', hc⟩ := withAc_ok h
      have ph := requireAuth_phase h1
      rw [ph.ac.1] at ha' h2
      refine ⟨c1, a', ph, ?_, ha', hc⟩
      unfold OZ.Access.ensureIfAdminOrAdminRole at h2
      simpa using OZ.Access.require_ok h2

theorem revokeRole_inv {c c' : CState} {auth : List AuthTok} {sig : Option (List Meta)} {a r k : Nat}
    (h : applyE c auth sig (.revokeRole a r k) = .ok c') :
    ∃ c1 a', AuthPhase c auth sig k FN_REVOKE_ROLE [vAddr a, vSym r, vAddr k] c1 ∧
      (OZ.Access.isAdmin c.ac k = true ∨ OZ.Access.isAdminRole c.ac r k = true) ∧
      OZ.Access.revokeRoleNoAuth c.ac a r k = .ok a' ∧ c' = { c1 with ac := a' } := by
  simp only [applyE, applyW, revokeRoleW] at h
  cases h1 : requireAuth checkAuth c auth sig k FN_REVOKE_ROLE [vAddr a, vSym r, vAddr k] with
  | error e => rw [h1] at h; cases h
  | ok c1 =>
    rw [h1] at h; simp only [guardedRoleChange] at h
    cases h2 : OZ.Access.ensureIfAdminOrAdminRole c1.ac r k with
    | error e => rw [h2] at h; cases h
    | ok u =>
      rw [h2] at h; simp only at h
      obtain ⟨a', ha', hc⟩ := withAc_ok h
      have ph := requireAuth_phase h1
      rw [ph.ac.1] at ha' h2
      refine ⟨c1, a', ph, ?_, ha', hc⟩
      unfold OZ.Access.ensureIfAdminOrAdminRole at h2
      simpa using OZ.Access.require_ok h2

theorem renounceRole_inv {c c' : CState} {auth : List AuthTok} {sig : Option (List Meta)} {r k : Nat}
    (h : applyE c auth sig (.renounceRole r k) = .ok c') :
    ∃ c1 a', AuthPhase c auth sig k FN_RENOUNCE_ROLE [vSym r, vAddr k] c1 ∧
      OZ.Access.revokeRoleNoAuth c.ac k r k = .ok a' ∧ c' = { c1 with ac := a' } := by
  simp only [applyE, applyW, renounceRoleW] at h
  cases h1 : requireAuth checkAuth c auth sig k FN_RENOUNCE_ROLE [vSym r, vAddr k] with
  | error e => rw [h1] at h; cases h
  | ok c1 =>
    rw [h1] at h; simp only at h
    obtain ⟨a', ha', hc⟩ := withAc_ok h
    have ph := requireAuth_phase h1
    rw [ph.ac.1] at ha'
    exact ⟨c1, a', ph, ha', hc⟩

theorem acceptAdmin_inv {c c' : CState} {auth : List AuthTok} {sig : Option (List Meta)}
    (h : applyE c auth sig .acceptAdmin = .ok c') :
    ∃ t p, t.holder = some p ∧ p ≠ c.self ∧ AuthTok.call p ∈ auth ∧
      c' = { c with ac := { c.ac with adm := t } } := by
  simp only [applyE, applyW, acceptAdmin] at h
  obtain ⟨t, ht, hc⟩ := withAdm_ok h
  obtain ⟨p, _, hin, hh, _, _, _⟩ := OZ.RoleTransfer.accept_ok (f := .admin) ht
  obtain ⟨hne, hcall⟩ := mem_plainAuth.mp hin
  exact ⟨t, p, hh, hne, hcall, hc⟩

theorem advance_inv {c c' : CState} {auth : List AuthTok} {sig : Option (List Meta)} {n : Nat}
    (h : applyE c auth sig (.advance n) = .ok c') :
    c.tl.now + n ≤ U32_MAX ∧ c' = { c with tl := { c.tl with now := c.tl.now + n }, ac := tickAc c.ac n } := by
  simp only [applyE, applyW, advanceC] at h
  cases h1 : advance c.tl n with
  | error e => rw [h1] at h; cases h
  | ok tl' =>
    rw [h1] at h; injection h with h
    obtain ⟨hle, rfl⟩ := advance_ok h1
    exact ⟨hle, h.symm⟩

/-- `schedule_op`: the proposer role, that account's signature, `schedule_operation` accepted -/
theorem scheduleOp_inv {c c' : CState} {auth : List AuthTok} {sig : Option (List Meta)}
    {op : Operation} {d p : Nat} (h : applyE c auth sig (.scheduleOp op d p) = .ok c') :
    c.hasRole PROPOSER p = true ∧ AuthTok.call p ∈ auth ∧
      ∃ tl', schedule c.tl op d = .ok tl' ∧ c' = { c with tl := tl' } := by
  simp only [applyE, applyW, scheduleOp] at h
  split at h
  · cases h
  · rename_i hr
    cases h1 : requireAuthPlain c auth p with
    | error e => rw [h1] at h; cases h
    | ok u =>
      rw [h1] at h; simp only at h
      exact ⟨by simpa using hr, (requireAuthPlain_ok (by cases u; exact h1)).2, liftTl_ok h⟩

/-- `cancel_op`: the canceller role, that account's signature, `cancel_operation` accepted -/
theorem cancelOp_inv {c c' : CState} {auth : List AuthTok} {sig : Option (List Meta)}
    {id : Id} {k : Nat} (h : applyE c auth sig (.cancelOp id k) = .ok c') :
    c.hasRole CANCELLER k = true ∧ AuthTok.call k ∈ auth ∧
      ∃ tl', cancel c.tl id = .ok tl' ∧ c' = { c with tl := tl' } := by
  simp only [applyE, applyW, cancelOp] at h
  split at h
  · cases h
  · rename_i hr
    cases h1 : requireAuthPlain c auth k with
    | error e => rw [h1] at h; cases h
    | ok u =>
      rw [h1] at h; simp only at h
      exact ⟨by simpa using hr, (requireAuthPlain_ok (by cases u; exact h1)).2, liftTl_ok h⟩

/-- `execute_op`: when executors are configured the named executor holds the role and signed;
`execute_operation` accepted -/
theorem executeOp_inv {c c' : CState} {auth : List AuthTok} {sig : Option (List Meta)}
    {op : Operation} {ex : Option Nat} {ok : Bool} (h : applyE c auth sig (.executeOp op ex ok) = .ok c') :
    (c.executorCount ≠ 0 →
      ∃ e, ex = some e ∧ c.hasRole EXECUTOR e = true ∧ AuthTok.call e ∈ auth) ∧
    ∃ tl', execute c.tl op ok = .ok tl' ∧ c' = { c with tl := tl' } := by
  simp only [applyE, applyW, executeOp] at h
  cases h1 : executorGate c auth ex with
  | error e => rw [h1] at h; cases h
  | ok u =>
    rw [h1] at h; simp only at h
    refine ⟨?_, liftTl_ok h⟩
    intro hne
    unfold executorGate at h1
    rw [if_neg hne] at h1
    cases ex with
    | none => cases h1
    | some e =>
      simp only at h1
      split at h1
      · cases h1
      · rename_i hr
        exact ⟨e, rfl, by simpa using hr, (requireAuthPlain_ok (by cases u; exact h1)).2⟩

/-! ### the loop of `__check_auth` -/

/-- the operation a pair (context, descriptor) denotes (for a call on the controller) -/
def pairOp (self : Nat) (p : Context × Meta) : Option Operation :=
  match p.1 with
  | .contract _ fn args => some (opOf self fn args p.2)
  | .createContract => none

/-- the accepted loop, pair by pair: every context is a call on the controller, its executor gate
passed in the state the loop started in, its operation Ready at the start; the log grows by one
execution record per pair; distinct pairs denote distinct operations -/
theorem checkPairs_exact {c c' : CState} {auth : List AuthTok} {pairs : List (Context × Meta)}
    (h : checkPairs c auth pairs = .ok c') :
    ∃ ops : List Operation,
      pairs.map (pairOp c.self) = ops.map some ∧
      (∀ p ∈ pairs, ∃ fn args, p.1 = .contract c.self fn args ∧ execGate c auth fn args p.2 = .ok ()) ∧
      c'.tl.log = (ops.map (fun o => Ev.exec o.id c.tl.now)).reverse ++ c.tl.log ∧
      (∀ o ∈ ops, getOperationState c.tl o.id = .ready) ∧
      (∀ id, c'.tl.ledger id = if id ∈ ops.map Operation.id then 1 else c.tl.ledger id) ∧
      (ops.map Operation.id).Nodup := by
  induction pairs generalizing c with
  | nil =>
    injection h with h; subst h
    exact ⟨[], rfl, fun p hp => (by cases hp), rfl, fun o ho => (by cases ho), fun id => (by simp), List.nodup_nil⟩
  | cons hd rest ih =>
    obtain ⟨ctx, m⟩ := hd
    unfold checkPairs at h
    cases h1 : checkOne c auth ctx m with
    | error e => rw [h1] at h; cases h
    | ok c1 =>
      rw [h1] at h
      simp only at h
      obtain ⟨fn, args, tl', hctx, hg, hse, hc1⟩ := checkOne_ok h1
      obtain ⟨h2, hn, _, htl⟩ := setExecute_ok hse
      subst hc1
      obtain ⟨ops, hmap, hall, hlog, hready, hled, hnd⟩ := ih h
      have hready0 : getOperationState c.tl (opOf c.self fn args m).id = .ready := stateOf_ready.mpr ⟨h2, hn⟩
      -- the later operations are Ready after the first was marked done, so they differ from it
      have hne : ∀ o ∈ ops, o.id ≠ (opOf c.self fn args m).id := by
        intro o ho e
        have := hready o ho
        rw [e, htl] at this
        have hr := stateOf_ready.mp this
        simp only [getOperationLedger, updId_same] at hr
        unfold DONE_LEDGER at hr
        omega
      refine ⟨opOf c.self fn args m :: ops, ?_, ?_, ?_, ?_, ?_, ?_⟩
      · simp only [List.map_cons]
        rw [← hmap]
        congr 1
        rw [hctx]; rfl
      · intro p hp
        cases hp with
        | head => exact ⟨fn, args, hctx, hg⟩
        | tail _ hp' =>
          obtain ⟨fn', args', e1, e2⟩ := hall p hp'
          refine ⟨fn', args', e1, ?_⟩
          unfold execGate CState.executorCount CState.hasRole at e2 ⊢
          exact e2
      · rw [hlog, htl]
        simp
      · intro o ho
        cases ho with
        | head => exact hready0
        | tail _ ho' =>
          have := hready o ho'
          rw [htl] at this
          unfold getOperationState getOperationLedger at this ⊢
          simp only at this
          rw [updId_other _ _ _ _ (hne o ho')] at this
          exact this
      · intro id
        rw [hled id, htl]
        simp only [List.map_cons, List.mem_cons]
        by_cases e1 : id ∈ ops.map Operation.id
        · rw [if_pos e1, if_pos (Or.inr e1)]
        · rw [if_neg e1]
          by_cases e2 : id = (opOf c.self fn args m).id
          · rw [if_pos (Or.inl e2), e2, updId_same]; rfl
          · rw [if_neg (by simp [e1, e2]), updId_other _ _ _ _ e2]
      · simp only [List.map_cons]
        rw [List.nodup_cons]
        refine ⟨?_, hnd⟩
        intro hin
        obtain ⟨o, ho, e⟩ := List.mem_map.mp hin
        exact hne o ho e

/-- the ghost reading of a log that grew by execution records only -/
theorem ghost_exec_prefix (ids : List Id) (now : Nat) (log : List Ev) (id : Id) :
    ghost ((ids.map (fun i => Ev.exec i now)).reverse ++ log) id = if id ∈ ids then .done else ghost log id := by
  induction ids generalizing log with
  | nil => simp
  | cons a t ih =>
    simp only [List.map_cons, List.reverse_cons, List.append_assoc, List.singleton_append]
    rw [ih]
    by_cases h1 : id ∈ t
    · rw [if_pos h1, if_pos (List.mem_cons_of_mem _ h1)]
    · rw [if_neg h1]
      by_cases h2 : a = id
      · subst h2
        rw [ghost_exec_same]; simp
      · rw [ghost_other _ _ _ (by simpa [Ev.id] using h2)]
        rw [if_neg (by simp [h1]; exact fun e => h2 e.symm)]

end OZ.TimelockController.Mon
