import OZ.Model.SmartAccount
/-
Helper lemmas for the smart-account model: the storage invariant, the closed form of
`get_valid_context_rules` under the invariant, and the specification vocabulary
(`Applicable`, `Satisfied`, `Prec`, `Chosen`) in which the C03 theorems are stated.
-/
namespace OZ.SmartAccount

/-! ### specification vocabulary -/

/-- `r` is what `get_context_rule r.id` returns -/
def Stored (s : Store) (r : Rule) : Prop := getContextRule s r.id = .ok r

/-- not expired at ledger `now`: no `valid_until`, or `now ≤ valid_until` -/
def Live (now : Nat) (r : Rule) : Prop := ∀ v, r.validUntil = some v → now ≤ v

/-- an existing, unexpired rule of the context's type or of type Default -/
def Applicable (s : Store) (now : Nat) (c : Ctx) (r : Rule) : Prop :=
  Stored s r ∧ (r.ctype = typeOf c ∨ r.ctype = .default) ∧ Live now r

/-- the rule's own signers that were supplied (rule order) -/
def counted (r : Rule) (supplied : List Signer) : List Signer := r.signers.filter (fun x => decide (x ∈ supplied))

/-- the rule's requirement is met by the supplied signers: without policies ALL rule signers
were supplied; with policies EVERY policy accepts exactly `rule signers ∩ supplied` -/
def Satisfied (O : Oracle) (c : Ctx) (supplied : List Signer) (r : Rule) : Prop :=
  (r.policies = [] → ∀ x ∈ r.signers, x ∈ supplied) ∧
  (r.policies ≠ [] → ∀ p ∈ r.policies, O.can p c (counted r supplied) r = true)

/-- `r1` is tried before `r2` for context `c`: type-specific before Default; within a type the
newer rule (ids are handed out increasingly) first -/
def Prec (c : Ctx) (r1 r2 : Rule) : Prop :=
  (r1.ctype = typeOf c ∧ r2.ctype = .default) ∨ (r1.ctype = r2.ctype ∧ r2.id < r1.id)

/-- `r` is THE rule that authorizes `c`: applicable, satisfied, and first such in precedence order -/
def Chosen (O : Oracle) (s : Store) (now : Nat) (c : Ctx) (supplied : List Signer) (r : Rule) : Prop :=
  Applicable s now c r ∧ Satisfied O c supplied r ∧
  ∀ r', Applicable s now c r' → Satisfied O c supplied r' → r' = r ∨ Prec c r r'

/-- the enforce calls owed to rule `r` chosen for context `c` -/
def callsFor (supplied : List Signer) (c : Ctx) (r : Rule) : List EnfCall :=
  r.policies.map (fun p => { policy := p, ctx := c, signers := counted r supplied, rule := r })

/-- every call of the list was let through by its policy, given the calls before it -/
def AllAccepted (O : Oracle) (calls : List EnfCall) : Prop :=
  ∀ pre c post, calls = pre ++ c :: post → O.enf pre c = true

/-- position-wise relation between two lists of equal length -/
inductive Forall2 {α β : Type} (R : α → β → Prop) : List α → List β → Prop where
  | nil : Forall2 R [] []
  | cons {a : α} {b : β} {as : List α} {bs : List β} : R a b → Forall2 R as bs → Forall2 R (a :: as) (b :: bs)

/-! ### storage invariant -/

structure Inv (s : Store) : Prop where
  /-- per-type id lists are strictly increasing (insertion order = id order), hence duplicate-free -/
  sorted : ∀ t, (s.ids t).Pairwise (· < ·)
  /-- `id` is listed under `t` iff rule `id` exists and has type `t` -/
  ids_meta : ∀ t id, id ∈ s.ids t ↔ ∃ m, s.metas id = some m ∧ m.ctype = t
  /-- existing ids are below the next id -/
  lt_next : ∀ id m, s.metas id = some m → id < s.nextId
  /-- signer lists are duplicate-free and within MAX_SIGNERS -/
  signers_ok : ∀ id l, s.signers id = some l → l.Nodup ∧ l.length ≤ MAX_SIGNERS
  /-- policy lists are duplicate-free and within MAX_POLICIES -/
  policies_ok : ∀ id l, s.policies id = some l → l.Nodup ∧ l.length ≤ MAX_POLICIES
  /-- an existing rule has at least one signer or one policy -/
  nonempty : ∀ id m, s.metas id = some m → ¬ ((s.signers id).getD [] = [] ∧ (s.policies id).getD [] = [])
  /-- Count = number of existing rules, within MAX_CONTEXT_RULES -/
  count_eq : s.count = ((List.range s.nextId).filter (fun i => (s.metas i).isSome)).length
  count_le : s.count ≤ MAX_CONTEXT_RULES

/-! ### small list facts -/

theorem filter_length_eq_iff {α} (p : α → Bool) (l : List α) :
    (l.filter p).length = l.length ↔ ∀ x ∈ l, p x = true := by
  induction l with
  | nil => simp
  | cons a t ih =>
    by_cases ha : p a = true
    · simp [ha, ih]
    · have hle := List.length_filter_le p t
      rw [List.filter_cons_of_neg ha, List.length_cons]
      constructor
      · intro h; omega
      · intro h; exact absurd (h a (by simp)) ha

theorem find?_first {α} (R : α → α → Prop) (p : α → Bool) (l : List α) (r : α)
    (hp : l.Pairwise R) (h : l.find? p = some r) :
    r ∈ l ∧ p r = true ∧ ∀ r' ∈ l, p r' = true → r' = r ∨ R r r' := by
  induction l with
  | nil => simp at h
  | cons a t ih =>
    rw [List.pairwise_cons] at hp
    by_cases ha : p a = true
    · rw [List.find?_cons_of_pos ha] at h
      injection h with h; subst h
      refine ⟨by simp, ha, ?_⟩
      intro r' hr' _
      cases List.mem_cons.mp hr' with
      | inl e => exact Or.inl e
      | inr m => exact Or.inr (hp.1 r' m)
    · rw [List.find?_cons_of_neg ha] at h
      obtain ⟨hm, hpr, hall⟩ := ih hp.2 h
      refine ⟨List.mem_cons_of_mem _ hm, hpr, ?_⟩
      intro r' hr' hpr'
      cases List.mem_cons.mp hr' with
      | inl e => subst e; exact absurd hpr' ha
      | inr m => exact hall r' m hpr'

theorem find?_none_of {α} (p : α → Bool) (l : List α) (h : l.find? p = none) : ∀ x ∈ l, p x = false := by
  intro x hx
  have := List.find?_eq_none.mp h x hx
  simpa using this

/-! ### `get_context_rule`, `get_valid_context_rules` in closed form -/

theorem getContextRule_ok_iff (s : Store) (id : Nat) (r : Rule) :
    getContextRule s id = .ok r ↔
      ∃ m, s.metas id = some m ∧
        r = { id := id, ctype := m.ctype, name := m.name, signers := (s.signers id).getD [],
              policies := (s.policies id).getD [], validUntil := m.validUntil } := by
  unfold getContextRule
  cases hm : s.metas id with
  | none => simp
  | some m =>
    simp only [Option.some.injEq, exists_eq_left']
    constructor
    · intro h; injection h with h; exact h.symm
    · intro h; rw [h]

theorem getContextRule_id {s : Store} {id : Nat} {r : Rule} (h : getContextRule s id = .ok r) : r.id = id := by
  obtain ⟨m, _, hr⟩ := (getContextRule_ok_iff s id r).mp h
  rw [hr]

theorem stored_of_get {s : Store} {id : Nat} {r : Rule} (h : getContextRule s id = .ok r) : Stored s r := by
  unfold Stored; rw [getContextRule_id h]; exact h

def liveFn (s : Store) (now : Nat) (id : Nat) : Option Rule :=
  match getContextRule s id with
  | .ok r => if expired now r.validUntil then none else some r
  | .error _ => none

/-- the live rules among `ids`, in list order -/
def liveOf (s : Store) (now : Nat) (ids : List Nat) : List Rule := ids.filterMap (liveFn s now)

theorem liveFn_some {s : Store} {now id : Nat} {r : Rule} :
    liveFn s now id = some r ↔ getContextRule s id = .ok r ∧ expired now r.validUntil = false := by
  unfold liveFn
  cases hg : getContextRule s id with
  | error e => simp
  | ok r' =>
    by_cases he : expired now r'.validUntil = true
    · simp only [he, if_true]
      constructor
      · intro h; cases h
      · rintro ⟨h1, h2⟩; injection h1 with h1; subst h1; rw [he] at h2; cases h2
    · have he' : expired now r'.validUntil = false := by simpa using he
      simp only [he', Bool.false_eq_true, if_false]
      constructor
      · intro h; injection h with h; subst h; exact ⟨rfl, he'⟩
      · rintro ⟨h1, _⟩; injection h1 with h1; subst h1; rfl

theorem getRules_ok (s : Store) (now : Nat) (ids : List Nat) (acc : List Rule)
    (h : ∀ id ∈ ids, ∃ r, getContextRule s id = .ok r) :
    getRules s now ids acc = .ok ((liveOf s now ids).reverse ++ acc) := by
  induction ids generalizing acc with
  | nil => simp [getRules, liveOf]
  | cons id rest ih =>
    obtain ⟨r, hr⟩ := h id (by simp)
    have hrest : ∀ id ∈ rest, ∃ r, getContextRule s id = .ok r := fun i hi => h i (List.mem_cons_of_mem _ hi)
    unfold getRules
    rw [hr]
    by_cases he : expired now r.validUntil = true
    · have hl : liveFn s now id = none := by unfold liveFn; rw [hr]; simp [he]
      simp only [he, if_true]
      rw [ih acc hrest]
      simp only [liveOf, List.filterMap_cons, hl]
    · have he' : expired now r.validUntil = false := by simpa using he
      have hl : liveFn s now id = some r := liveFn_some.mpr ⟨hr, he'⟩
      simp only [he', Bool.false_eq_true, if_false]
      rw [ih (r :: acc) hrest]
      simp only [liveOf, List.filterMap_cons, hl, List.reverse_cons, List.append_assoc, List.singleton_append]

theorem inv_ids_get {s : Store} (hI : Inv s) (t : RuleType) : ∀ id ∈ s.ids t, ∃ r, getContextRule s id = .ok r := by
  intro id hid
  obtain ⟨m, hm, _⟩ := (hI.ids_meta t id).mp hid
  exact ⟨_, (getContextRule_ok_iff s id _).mpr ⟨m, hm, rfl⟩⟩

/-- closed form of `get_valid_context_rules` -/
def validRules (s : Store) (now : Nat) (key : RuleType) : List Rule :=
  (liveOf s now (s.ids key)).reverse ++ (liveOf s now (s.ids .default)).reverse

theorem getValidContextRules_ok {s : Store} (hI : Inv s) (now : Nat) (key : RuleType) :
    getValidContextRules s now key = .ok (validRules s now key) := by
  unfold getValidContextRules
  rw [getRules_ok s now _ [] (inv_ids_get hI key), getRules_ok s now _ [] (inv_ids_get hI .default)]
  simp [validRules]

theorem expired_false_iff (now : Nat) (vu : Option Nat) : expired now vu = false ↔ ∀ v, vu = some v → now ≤ v := by
  cases vu with
  | none => simp [expired]
  | some w => simp [expired]

theorem mem_liveOf {s : Store} {now : Nat} {ids : List Nat} {r : Rule} :
    r ∈ liveOf s now ids ↔ r.id ∈ ids ∧ Stored s r ∧ Live now r := by
  unfold liveOf
  rw [List.mem_filterMap]
  constructor
  · rintro ⟨id, hid, h⟩
    obtain ⟨hg, he⟩ := liveFn_some.mp h
    have hid' := getContextRule_id hg
    exact ⟨by rw [hid']; exact hid, stored_of_get hg, (expired_false_iff now _).mp he⟩
  · rintro ⟨hid, hs, hl⟩
    exact ⟨r.id, hid, liveFn_some.mpr ⟨hs, (expired_false_iff now _).mpr hl⟩⟩

theorem stored_ctype {s : Store} (hI : Inv s) {r : Rule} (hs : Stored s r) (t : RuleType) :
    r.id ∈ s.ids t ↔ r.ctype = t := by
  obtain ⟨m, hm, hr⟩ := (getContextRule_ok_iff s r.id r).mp hs
  rw [hI.ids_meta]
  have hc : r.ctype = m.ctype := by rw [hr]
  constructor
  · rintro ⟨m', hm', ht⟩
    rw [hm] at hm'; injection hm' with hm'; subst hm'; rw [hc]; exact ht
  · intro ht; exact ⟨m, hm, by rw [← hc]; exact ht⟩

theorem mem_validRules {s : Store} (hI : Inv s) {now : Nat} {c : Ctx} {r : Rule} :
    r ∈ validRules s now (typeOf c) ↔ Applicable s now c r := by
  unfold validRules Applicable
  rw [List.mem_append, List.mem_reverse, List.mem_reverse, mem_liveOf, mem_liveOf]
  constructor
  · rintro (⟨hid, hs, hl⟩ | ⟨hid, hs, hl⟩)
    · exact ⟨hs, Or.inl ((stored_ctype hI hs _).mp hid), hl⟩
    · exact ⟨hs, Or.inr ((stored_ctype hI hs _).mp hid), hl⟩
  · rintro ⟨hs, (ht | ht), hl⟩
    · exact Or.inl ⟨(stored_ctype hI hs _).mpr ht, hs, hl⟩
    · exact Or.inr ⟨(stored_ctype hI hs _).mpr ht, hs, hl⟩

theorem liveOf_pairwise (s : Store) (now : Nat) (ids : List Nat) (h : ids.Pairwise (· < ·)) :
    (liveOf s now ids).Pairwise (fun a b => a.id < b.id) := by
  induction ids with
  | nil => simp [liveOf]
  | cons id rest ih =>
    rw [List.pairwise_cons] at h
    have ih' := ih h.2
    cases hf : liveFn s now id with
    | none =>
      have : liveOf s now (id :: rest) = liveOf s now rest := by simp only [liveOf, List.filterMap_cons, hf]
      rw [this]; exact ih'
    | some r =>
      have : liveOf s now (id :: rest) = r :: liveOf s now rest := by simp only [liveOf, List.filterMap_cons, hf]
      rw [this, List.pairwise_cons]
      refine ⟨?_, ih'⟩
      intro b hb
      have hb' := (mem_liveOf.mp hb).1
      rw [getContextRule_id (liveFn_some.mp hf).1]
      exact h.1 _ hb'

theorem typeOf_ne_default (c : Ctx) : typeOf c ≠ .default := by
  cases c <;> simp [typeOf]

theorem validRules_pairwise {s : Store} (hI : Inv s) (now : Nat) (c : Ctx) :
    (validRules s now (typeOf c)).Pairwise (Prec c) := by
  unfold validRules
  rw [List.pairwise_append]
  refine ⟨?_, ?_, ?_⟩
  · rw [List.pairwise_reverse]
    refine (liveOf_pairwise s now _ (hI.sorted _)).imp_of_mem ?_
    intro a b ha hb hab
    have ha' := mem_liveOf.mp ha
    have hb' := mem_liveOf.mp hb
    refine Or.inr ⟨?_, hab⟩
    rw [(stored_ctype hI ha'.2.1 _).mp ha'.1, (stored_ctype hI hb'.2.1 _).mp hb'.1]
  · rw [List.pairwise_reverse]
    refine (liveOf_pairwise s now _ (hI.sorted _)).imp_of_mem ?_
    intro a b ha hb hab
    have ha' := mem_liveOf.mp ha
    have hb' := mem_liveOf.mp hb
    refine Or.inr ⟨?_, hab⟩
    rw [(stored_ctype hI ha'.2.1 _).mp ha'.1, (stored_ctype hI hb'.2.1 _).mp hb'.1]
  · intro a ha b hb
    rw [List.mem_reverse] at ha hb
    have ha' := mem_liveOf.mp ha
    have hb' := mem_liveOf.mp hb
    exact Or.inl ⟨(stored_ctype hI ha'.2.1 _).mp ha'.1, (stored_ctype hI hb'.2.1 _).mp hb'.1⟩

/-! ### the loop body decides `Satisfied` -/

theorem ruleMatches_iff (O : Oracle) (c : Ctx) (all : List Signer) (r : Rule) :
    ruleMatches O c all r = true ↔ Satisfied O c all r := by
  unfold ruleMatches Satisfied
  by_cases hp : r.policies = []
  · have hemp : r.policies.isEmpty = true := by rw [hp]; rfl
    rw [if_pos hemp]
    unfold getAuthenticatedSigners
    constructor
    · intro h
      refine ⟨fun _ => ?_, fun hne => absurd hp hne⟩
      have h' : (r.signers.filter (fun x => decide (x ∈ all))).length = r.signers.length := by
        have := eq_of_beq h; omega
      intro x hx
      have := (filter_length_eq_iff _ _).mp h' x hx
      simpa using this
    · rintro ⟨h, _⟩
      have h' := (filter_length_eq_iff (fun x => decide (x ∈ all)) r.signers).mpr
        (fun x hx => by simpa using h hp x hx)
      rw [h']; simp
  · have hne : r.policies.isEmpty = false := by
      cases hq : r.policies with
      | nil => exact absurd hq hp
      | cons a t => rfl
    rw [hne]
    simp only [Bool.false_eq_true, if_false]
    unfold canEnforceAllPolicies getAuthenticatedSigners counted
    rw [List.all_eq_true]
    constructor
    · intro h; exact ⟨fun e => absurd e hp, fun _ => h⟩
    · rintro ⟨_, h⟩; exact h hp

theorem ruleMatches_false_iff (O : Oracle) (c : Ctx) (all : List Signer) (r : Rule) :
    ruleMatches O c all r = false ↔ ¬ Satisfied O c all r := by
  rw [← ruleMatches_iff]; cases ruleMatches O c all r <;> simp

/-! ### `get_validated_context` picks THE chosen rule -/

theorem getValidatedContext_ok {O : Oracle} {s : Store} (hI : Inv s) {now : Nat} {c : Ctx} {all : List Signer}
    {v : Rule × Ctx × List Signer} (h : getValidatedContext O s now c all = .ok v) :
    Chosen O s now c all v.1 ∧ v.2.1 = c ∧ v.2.2 = counted v.1 all := by
  unfold getValidatedContext at h
  rw [getValidContextRules_ok hI] at h
  dsimp only at h
  cases hf : (validRules s now (typeOf c)).find? (ruleMatches O c all) with
  | none => rw [hf] at h; simp [pickRule] at h
  | some r =>
    rw [hf] at h
    simp only [pickRule] at h
    injection h with h; subst h
    obtain ⟨hm, hp, hall⟩ := find?_first (Prec c) _ _ r (validRules_pairwise hI now c) hf
    refine ⟨⟨(mem_validRules hI).mp hm, (ruleMatches_iff O c all r).mp hp, ?_⟩, rfl, rfl⟩
    intro r' ha' hs'
    exact hall r' ((mem_validRules hI).mpr ha') ((ruleMatches_iff O c all r').mpr hs')

theorem getValidatedContext_complete {O : Oracle} {s : Store} (hI : Inv s) {now : Nat} {c : Ctx} {all : List Signer}
    {r : Rule} (ha : Applicable s now c r) (hs : Satisfied O c all r) :
    ∃ v, getValidatedContext O s now c all = .ok v := by
  unfold getValidatedContext
  rw [getValidContextRules_ok hI]
  dsimp only
  cases hf : (validRules s now (typeOf c)).find? (ruleMatches O c all) with
  | none =>
    have := find?_none_of _ _ hf r ((mem_validRules hI).mpr ha)
    rw [(ruleMatches_iff O c all r).mpr hs] at this
    cases this
  | some r' => exact ⟨_, rfl⟩

theorem getValidatedContext_error {O : Oracle} {s : Store} (hI : Inv s) {now : Nat} {c : Ctx} {all : List Signer}
    {e : Err} (h : getValidatedContext O s now c all = .error e) :
    ∀ r, Applicable s now c r → ¬ Satisfied O c all r := by
  intro r ha hs
  obtain ⟨v, hv⟩ := getValidatedContext_complete (O := O) hI ha hs
  rw [hv] at h; cases h

/-- at most one rule is `Chosen` -/
theorem prec_asymm (c : Ctx) (r1 r2 : Rule) (h1 : Prec c r1 r2) (h2 : Prec c r2 r1) : False := by
  have hd := typeOf_ne_default c
  rcases h1 with ⟨a1, b1⟩ | ⟨a1, b1⟩ <;> rcases h2 with ⟨a2, b2⟩ | ⟨a2, b2⟩
  · rw [a2] at b1; exact hd b1
  · rw [a2, a1] at b1; exact hd b1
  · rw [a1, a2] at b2; exact hd b2
  · omega

/-! ### authenticate -/

theorem authenticate_ok_iff (O : Oracle) (sigs : List (Signer × Nat)) :
    authenticate O sigs = .ok () ↔ ∀ x g, (x, g) ∈ sigs → sigOk O x g = true := by
  induction sigs with
  | nil => simp [authenticate]
  | cons a t ih =>
    obtain ⟨x, g⟩ := a
    unfold authenticate
    by_cases h : sigOk O x g = true
    · simp only [h, if_true]
      rw [ih]
      constructor
      · intro hh y k hm
        cases List.mem_cons.mp hm with
        | inl e => injection e with e1 e2; subst e1; subst e2; exact h
        | inr m => exact hh y k m
      · intro hh y k hm; exact hh y k (List.mem_cons_of_mem _ hm)
    · simp only [h]
      constructor
      · intro hh; cases hh
      · intro hh; exact absurd (hh x g (by simp)) h

theorem authenticate_error (O : Oracle) (sigs : List (Signer × Nat)) (e : Err)
    (h : authenticate O sigs = .error e) : e = .externalVerificationFailed := by
  induction sigs with
  | nil => simp [authenticate] at h
  | cons a t ih =>
    obtain ⟨x, g⟩ := a
    unfold authenticate at h
    by_cases hh : sigOk O x g = true
    · simp only [hh, if_true] at h; exact ih h
    · simp only [hh] at h; injection h with h; exact h.symm

/-! ### the enforce loop -/

theorem enforceLoop_ok_iff (O : Oracle) (hist calls : List EnfCall) :
    enforceLoop O hist calls = .ok () ↔ ∀ pre c post, calls = pre ++ c :: post → O.enf (hist ++ pre) c = true := by
  induction calls generalizing hist with
  | nil =>
    simp only [enforceLoop, true_iff]
    intro pre c post h
    cases pre <;> simp at h
  | cons a t ih =>
    unfold enforceLoop
    by_cases ha : O.enf hist a = true
    · simp only [ha, if_true]
      rw [ih]
      constructor
      · intro hh pre c post hc
        cases pre with
        | nil =>
          simp only [List.nil_append, List.cons.injEq] at hc
          obtain ⟨e1, _⟩ := hc; subst e1; simpa using ha
        | cons b pre' =>
          simp only [List.cons_append, List.cons.injEq] at hc
          obtain ⟨e1, e2⟩ := hc; subst e1
          have := hh pre' c post e2
          simpa [List.append_assoc] using this
      · intro hh pre c post hc
        have := hh (a :: pre) c post (by rw [hc]; rfl)
        simpa [List.append_assoc] using this
    · simp only [ha]
      constructor
      · intro hh; cases hh
      · intro hh
        have := hh [] a t rfl
        simp at this; exact absurd this ha

/-! ### validateAll -/

theorem validateAll_ok {O : Oracle} {s : Store} (hI : Inv s) {now : Nat} {all : List Signer} :
    ∀ {ctxs : List Ctx} {vs : List (Rule × Ctx × List Signer)}, validateAll O s now all ctxs = .ok vs →
      Forall2 (fun c v => Chosen O s now c all v.1 ∧ v.2.1 = c ∧ v.2.2 = counted v.1 all) ctxs vs := by
  intro ctxs
  induction ctxs with
  | nil => intro vs h; simp [validateAll] at h; subst h; exact Forall2.nil
  | cons c rest ih =>
    intro vs h
    unfold validateAll at h
    cases hv : getValidatedContext O s now c all with
    | error e => rw [hv] at h; cases h
    | ok v =>
      rw [hv] at h
      cases hr : validateAll O s now all rest with
      | error e => rw [hr] at h; cases h
      | ok vs' =>
        rw [hr] at h
        injection h with h; subst h
        exact Forall2.cons (getValidatedContext_ok hI hv) (ih hr)

theorem validateAll_complete {O : Oracle} {s : Store} (hI : Inv s) {now : Nat} {all : List Signer} :
    ∀ {ctxs : List Ctx}, (∀ c ∈ ctxs, ∃ r, Applicable s now c r ∧ Satisfied O c all r) →
      ∃ vs, validateAll O s now all ctxs = .ok vs := by
  intro ctxs
  induction ctxs with
  | nil => intro _; exact ⟨[], rfl⟩
  | cons c rest ih =>
    intro h
    obtain ⟨r, ha, hs⟩ := h c (by simp)
    obtain ⟨v, hv⟩ := getValidatedContext_complete (O := O) hI ha hs
    obtain ⟨vs, hvs⟩ := ih (fun c' hc' => h c' (List.mem_cons_of_mem _ hc'))
    exact ⟨v :: vs, by unfold validateAll; rw [hv, hvs]⟩

theorem validateAll_error {O : Oracle} {s : Store} (hI : Inv s) {now : Nat} {all : List Signer} :
    ∀ {ctxs : List Ctx} {e : Err}, validateAll O s now all ctxs = .error e →
      ∃ c ∈ ctxs, ∀ r, Applicable s now c r → ¬ Satisfied O c all r := by
  intro ctxs
  induction ctxs with
  | nil => intro e h; simp [validateAll] at h
  | cons c rest ih =>
    intro e h
    unfold validateAll at h
    cases hv : getValidatedContext O s now c all with
    | error e' => exact ⟨c, by simp, getValidatedContext_error hI hv⟩
    | ok v =>
      rw [hv] at h
      cases hr : validateAll O s now all rest with
      | error e' =>
        obtain ⟨c', hc', hh⟩ := ih hr
        exact ⟨c', List.mem_cons_of_mem _ hc', hh⟩
      | ok vs' => rw [hr] at h; cases h

/-- the enforce calls in terms of the chosen rules -/
theorem callsOf_eq {O : Oracle} {s : Store} {now : Nat} {all : List Signer} :
    ∀ {ctxs : List Ctx} {vs : List (Rule × Ctx × List Signer)},
      Forall2 (fun c v => Chosen O s now c all v.1 ∧ v.2.1 = c ∧ v.2.2 = counted v.1 all) ctxs vs →
      callsOf vs = (List.zip ctxs (vs.map (·.1))).flatMap (fun p => callsFor all p.1 p.2) := by
  intro ctxs vs h
  induction h with
  | nil => rfl
  | @cons c v ctxs' vs' hcv _ ih =>
    unfold callsOf at *
    simp only [List.flatMap_cons, List.map_cons, List.zip_cons_cons, ih]
    congr 1
    obtain ⟨_, h1, h2⟩ := hcv
    unfold callsOfOne callsFor
    rw [h1, h2]

/-- relate the validated triples to the list of their rules -/
theorem forall2_rules {O : Oracle} {s : Store} {now : Nat} {all : List Signer} :
    ∀ {ctxs : List Ctx} {vs : List (Rule × Ctx × List Signer)},
      Forall2 (fun c v => Chosen O s now c all v.1 ∧ v.2.1 = c ∧ v.2.2 = counted v.1 all) ctxs vs →
      Forall2 (fun c r => Chosen O s now c all r) ctxs (vs.map (·.1)) := by
  intro ctxs vs h
  induction h with
  | nil => exact Forall2.nil
  | cons hab _ ih => exact Forall2.cons hab.1 ih


/-! ### only the rule's own signers matter -/

theorem find?_congr' {α} (p q : α → Bool) (l : List α) (h : ∀ x ∈ l, p x = q x) : l.find? p = l.find? q := by
  induction l with
  | nil => rfl
  | cons a t ih =>
    have ha := h a (by simp)
    have ht : ∀ x ∈ t, p x = q x := fun x hx => h x (List.mem_cons_of_mem _ hx)
    by_cases hp : p a = true
    · rw [List.find?_cons_of_pos hp, List.find?_cons_of_pos (by rw [← ha]; exact hp)]
    · rw [List.find?_cons_of_neg hp, List.find?_cons_of_neg (by rw [← ha]; exact hp)]; exact ih ht

theorem getRules_mem (s : Store) (now : Nat) (ids : List Nat) (acc l : List Rule)
    (h : getRules s now ids acc = .ok l) : ∀ r ∈ l, r ∈ acc ∨ ∃ id, getContextRule s id = .ok r := by
  induction ids generalizing acc with
  | nil => simp only [getRules] at h; injection h with h; subst h; intro r hr; exact Or.inl hr
  | cons id rest ih =>
    unfold getRules at h
    cases hg : getContextRule s id with
    | error e => rw [hg] at h; cases h
    | ok r0 =>
      rw [hg] at h
      dsimp only at h
      by_cases he : expired now r0.validUntil = true
      · rw [if_pos he] at h; exact ih acc h
      · rw [if_neg he] at h
        intro r hr
        cases ih (r0 :: acc) h r hr with
        | inl hm =>
          cases List.mem_cons.mp hm with
          | inl e => subst e; exact Or.inr ⟨id, hg⟩
          | inr m => exact Or.inl m
        | inr hx => exact Or.inr hx

theorem getValidContextRules_mem (s : Store) (now : Nat) (key : RuleType) (l : List Rule)
    (h : getValidContextRules s now key = .ok l) : ∀ r ∈ l, ∃ id, getContextRule s id = .ok r := by
  unfold getValidContextRules at h
  cases ha : getRules s now (s.ids key) [] with
  | error e => rw [ha] at h; cases h
  | ok a =>
    rw [ha] at h; dsimp only at h
    cases hb : getRules s now (s.ids .default) [] with
    | error e => rw [hb] at h; cases h
    | ok b =>
      rw [hb] at h; dsimp only at h
      injection h with h; subst h
      intro r hr
      cases List.mem_append.mp hr with
      | inl m =>
        cases getRules_mem s now _ [] a ha r m with
        | inl x => cases x
        | inr x => exact x
      | inr m =>
        cases getRules_mem s now _ [] b hb r m with
        | inl x => cases x
        | inr x => exact x

theorem getAuthenticatedSigners_congr (rs A B : List Signer) (h : ∀ x ∈ rs, (x ∈ A ↔ x ∈ B)) :
    getAuthenticatedSigners rs A = getAuthenticatedSigners rs B := by
  unfold getAuthenticatedSigners
  apply List.filter_congr
  intro x hx
  have := h x hx
  by_cases ha : x ∈ A
  · simp [ha, this.mp ha]
  · have hb : x ∉ B := fun hb => ha (this.mpr hb)
    simp [ha, hb]

theorem ruleMatches_congr (O : Oracle) (c : Ctx) (A B : List Signer) (r : Rule)
    (h : ∀ x ∈ r.signers, (x ∈ A ↔ x ∈ B)) : ruleMatches O c A r = ruleMatches O c B r := by
  unfold ruleMatches
  rw [getAuthenticatedSigners_congr r.signers A B h]

theorem getValidatedContext_congr (O : Oracle) (s : Store) (now : Nat) (c : Ctx) (A B : List Signer)
    (h : ∀ id r, getContextRule s id = .ok r → ∀ x ∈ r.signers, (x ∈ A ↔ x ∈ B)) :
    getValidatedContext O s now c A = getValidatedContext O s now c B := by
  unfold getValidatedContext
  cases hv : getValidContextRules s now (typeOf c) with
  | error e => rfl
  | ok rules =>
    dsimp only
    have hmem := getValidContextRules_mem s now _ rules hv
    have hf : rules.find? (ruleMatches O c A) = rules.find? (ruleMatches O c B) := by
      apply find?_congr'
      intro r hr
      obtain ⟨id, hid⟩ := hmem r hr
      exact ruleMatches_congr O c A B r (h id r hid)
    rw [hf]
    cases hq : rules.find? (ruleMatches O c B) with
    | none => rfl
    | some r =>
      obtain ⟨id, hid⟩ := hmem r (List.mem_of_find?_eq_some hq)
      simp only [pickRule]
      rw [getAuthenticatedSigners_congr r.signers A B (h id r hid)]

theorem validateAll_congr (O : Oracle) (s : Store) (now : Nat) (A B : List Signer) (ctxs : List Ctx)
    (h : ∀ id r, getContextRule s id = .ok r → ∀ x ∈ r.signers, (x ∈ A ↔ x ∈ B)) :
    validateAll O s now A ctxs = validateAll O s now B ctxs := by
  induction ctxs with
  | nil => rfl
  | cons c t ih =>
    unfold validateAll
    rw [getValidatedContext_congr O s now c A B h, ih]

end OZ.SmartAccount
