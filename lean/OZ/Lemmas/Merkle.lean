import OZ.Model.Merkle
/-
Helper lemmas for C17 (Merkle verification): folds over `proof ++ [sibling]`, the proofs
extracted from a tree fold to its root, two different accepted runs give a collision (or, in
the sorted form, a node/sibling exchange), and in the free-hash model an accepted run is an
honest one. Property theorems are in OZ/Props/C17.
-/
namespace OZ.Merkle
variable {α : Type}

theorem foldSorted_append (o : Ops α) (v : α) (π : List α) (s : α) :
    foldSorted o v (π ++ [s]) = chp o (foldSorted o v π) s := by
  induction π generalizing v with
  | nil => rfl
  | cons h rest ih => simp only [List.cons_append, foldSorted, ih]

theorem foldIndexed_append (o : Ops α) (v : α) (i : Nat) (π : List α) (s : α) :
    foldIndexed o v i (π ++ [s]) = stepIndexed o (foldIndexed o v i π) (i / 2 ^ π.length) s := by
  induction π generalizing v i with
  | nil => simp [foldIndexed]
  | cons h rest ih =>
    simp only [List.cons_append, foldIndexed, ih, List.length_cons]
    rw [Nat.div_div_eq_div_mul, Nat.pow_succ, Nat.mul_comm]

/-- the positional fold over a proof of length k only looks at the k low bits of the index -/
theorem foldIndexed_mod (o : Ops α) (v : α) (i : Nat) (π : List α) :
    foldIndexed o v (i % 2 ^ π.length) π = foldIndexed o v i π := by
  induction π generalizing v i with
  | nil => rfl
  | cons h rest ih =>
    simp only [foldIndexed, List.length_cons]
    have h1 : i % 2 ^ (rest.length + 1) % 2 = i % 2 := by
      rw [Nat.pow_succ, Nat.mul_comm]; exact Nat.mod_mul_right_mod i 2 (2 ^ rest.length)
    have h2 : i % 2 ^ (rest.length + 1) / 2 = (i / 2) % 2 ^ rest.length := by
      rw [Nat.pow_succ, Nat.mul_comm, Nat.mod_mul_right_div_self]
    unfold stepIndexed
    rw [h1, h2, ih]


theorem eq_nil_or_snoc (π : List α) : π = [] ∨ ∃ π0 s, π = π0 ++ [s] := by
  rcases List.eq_nil_or_concat π with h | ⟨π0, s, h⟩
  · exact Or.inl h
  · exact Or.inr ⟨π0, s, by rw [h, List.concat_eq_append]⟩

theorem proofWith_false (comb : α → α → α) (l r : Tree α) (p : List Bool) (v : α) (π : List α) :
    (Tree.node l r).proofWith comb (false :: p) = some (v, π) ↔
      ∃ π0, l.proofWith comb p = some (v, π0) ∧ π = π0 ++ [r.rootWith comb] := by
  simp only [Tree.proofWith]
  split
  · next v' π' h' =>
    constructor
    · intro h; cases h; exact ⟨π', h', rfl⟩
    · rintro ⟨π0, h0, rfl⟩; rw [h'] at h0; cases h0; rfl
  · next h' =>
    constructor
    · intro h; cases h
    · rintro ⟨π0, h0, _⟩; rw [h'] at h0; cases h0

theorem proofWith_true (comb : α → α → α) (l r : Tree α) (p : List Bool) (v : α) (π : List α) :
    (Tree.node l r).proofWith comb (true :: p) = some (v, π) ↔
      ∃ π0, r.proofWith comb p = some (v, π0) ∧ π = π0 ++ [l.rootWith comb] := by
  simp only [Tree.proofWith]
  split
  · next v' π' h' =>
    constructor
    · intro h; cases h; exact ⟨π', h', rfl⟩
    · rintro ⟨π0, h0, rfl⟩; rw [h'] at h0; cases h0; rfl
  · next h' =>
    constructor
    · intro h; cases h
    · rintro ⟨π0, h0, _⟩; rw [h'] at h0; cases h0

theorem proofWith_length (comb : α → α → α) (t : Tree α) (p : List Bool) (v : α) (π : List α)
    (h : t.proofWith comb p = some (v, π)) : π.length = p.length := by
  induction t generalizing p v π with
  | leaf a =>
    cases p with
    | nil => simp [Tree.proofWith] at h; obtain ⟨rfl, rfl⟩ := h; rfl
    | cons b p => simp [Tree.proofWith] at h
  | node l r ihl ihr =>
    cases p with
    | nil => simp [Tree.proofWith] at h
    | cons b p =>
      cases b with
      | false =>
        simp only [Tree.proofWith] at h
        split at h
        · next v' π' h' => cases h; simp [ihl p v π' h']
        · cases h
      | true =>
        simp only [Tree.proofWith] at h
        split at h
        · next v' π' h' => cases h; simp [ihr p v π' h']
        · cases h

theorem indexOf_lt (p : List Bool) : indexOf p < 2 ^ p.length := by
  induction p with
  | nil => simp [indexOf]
  | cons b p ih =>
    simp only [indexOf, List.length_cons, Nat.pow_succ]
    split <;> omega

/-- the comparison is a strict total order as far as `chp` can see: of two different values
exactly one is greater -/
def TotalGt (o : Ops α) : Prop := ∀ a b, a ≠ b → o.gt a b = !o.gt b a

theorem chp_comm (o : Ops α) (hgt : TotalGt o) (a b : α) : chp o a b = chp o b a := by
  by_cases hab : a = b
  · subst hab; rfl
  · unfold chp
    rw [hgt a b hab]
    cases o.gt b a <;> simp

/-- sorted form: the extracted proof folds to the root (any tree, any hash) -/
theorem foldSorted_proof (o : Ops α) (hgt : TotalGt o) (t : Tree α) (p : List Bool) (v : α) (π : List α)
    (h : t.proofWith (chp o) p = some (v, π)) : foldSorted o v π = t.rootS o := by
  induction t generalizing p v π with
  | leaf a =>
    cases p with
    | nil => simp [Tree.proofWith] at h; obtain ⟨rfl, rfl⟩ := h; rfl
    | cons b p => simp [Tree.proofWith] at h
  | node l r ihl ihr =>
    cases p with
    | nil => simp [Tree.proofWith] at h
    | cons b p =>
      cases b with
      | false =>
        simp only [Tree.proofWith] at h
        split at h
        · next v' π' h' =>
          cases h
          rw [foldSorted_append, ihl p v π' h']; rfl
        · cases h
      | true =>
        simp only [Tree.proofWith] at h
        split at h
        · next v' π' h' =>
          cases h
          rw [foldSorted_append, ihr p v π' h', chp_comm o hgt]; rfl
        · cases h

/-- positional form: the extracted proof with the path's index folds to the root -/
theorem foldIndexed_proof (o : Ops α) (t : Tree α) (p : List Bool) (v : α) (π : List α)
    (h : t.proofWith o.hp p = some (v, π)) : foldIndexed o v (indexOf p) π = t.rootI o := by
  induction t generalizing p v π with
  | leaf a =>
    cases p with
    | nil => simp [Tree.proofWith] at h; obtain ⟨rfl, rfl⟩ := h; rfl
    | cons b p => simp [Tree.proofWith] at h
  | node l r ihl ihr =>
    cases p with
    | nil => simp [Tree.proofWith] at h
    | cons b p =>
      cases b with
      | false =>
        simp only [Tree.proofWith] at h
        split at h
        · next v' π' h' =>
          cases h
          have hl := proofWith_length _ _ _ _ _ h'
          have hlt := indexOf_lt p
          rw [foldIndexed_append, hl]
          simp only [indexOf, Bool.false_eq_true, if_false, Nat.zero_add]
          rw [Nat.div_eq_of_lt hlt, ihl p v π' h']
          rfl
        · cases h
      | true =>
        simp only [Tree.proofWith] at h
        split at h
        · next v' π' h' =>
          cases h
          have hl := proofWith_length _ _ _ _ _ h'
          have hlt := indexOf_lt p
          rw [foldIndexed_append, hl]
          simp only [indexOf, if_true]
          have hd : (2 ^ p.length + indexOf p) / 2 ^ p.length = 1 := by
            rw [Nat.add_div_left _ (Nat.two_pow_pos _), Nat.div_eq_of_lt hlt]
          have hm : (2 ^ p.length + indexOf p) % 2 ^ π'.length = indexOf p := by
            rw [hl, Nat.add_mod_left, Nat.mod_eq_of_lt hlt]
          rw [hd, ← foldIndexed_mod, hm, ihr p v π' h']
          rfl
        · cases h

/-! ### soundness relative to collisions -/

/-- an explicit collision of the pair hash among values satisfying `P` -/
def Collision (o : Ops α) (P : α → Prop) : Prop :=
  ∃ a b c d, P a ∧ P b ∧ P c ∧ P d ∧ (a, b) ≠ (c, d) ∧ o.hp a b = o.hp c d

theorem stepIndexed_P (o : Ops α) (P : α → Prop) (hP : ∀ a b, P a → P b → P (o.hp a b)) (v : α) (i : Nat) (h : α)
    (hv : P v) (hh : P h) : P (stepIndexed o v i h) := by
  unfold stepIndexed; split
  · exact hP _ _ hv hh
  · exact hP _ _ hh hv

theorem chp_P (o : Ops α) (P : α → Prop) (hP : ∀ a b, P a → P b → P (o.hp a b)) (v h : α)
    (hv : P v) (hh : P h) : P (chp o v h) := by
  unfold chp; split
  · exact hP _ _ hh hv
  · exact hP _ _ hv hh

theorem sound_indexed_aux (o : Ops α) (P : α → Prop) (hP : ∀ a b, P a → P b → P (o.hp a b))
    (π₁ π₂ : List α) (hlen : π₁.length = π₂.length) (v₁ v₂ : α) (i : Nat)
    (hv₁ : P v₁) (hv₂ : P v₂) (hπ₁ : ∀ x ∈ π₁, P x) (hπ₂ : ∀ x ∈ π₂, P x)
    (hne : (v₁, π₁) ≠ (v₂, π₂)) (heq : foldIndexed o v₁ i π₁ = foldIndexed o v₂ i π₂) : Collision o P := by
  induction π₁ generalizing π₂ v₁ v₂ i with
  | nil =>
    cases π₂ with
    | nil => simp only [foldIndexed] at heq; subst heq; exact absurd rfl hne
    | cons _ _ => simp at hlen
  | cons h₁ r₁ ih =>
    cases π₂ with
    | nil => simp at hlen
    | cons h₂ r₂ =>
      simp only [foldIndexed] at heq
      have hh₁ : P h₁ := hπ₁ h₁ (by simp)
      have hh₂ : P h₂ := hπ₂ h₂ (by simp)
      by_cases hc : (stepIndexed o v₁ i h₁, r₁) = (stepIndexed o v₂ i h₂, r₂)
      · have hc1 : stepIndexed o v₁ i h₁ = stepIndexed o v₂ i h₂ := (Prod.mk.inj hc).1
        have hc2 : r₁ = r₂ := (Prod.mk.inj hc).2
        subst hc2
        have hd : ¬ (v₁ = v₂ ∧ h₁ = h₂) := by
          rintro ⟨rfl, rfl⟩; exact hne rfl
        unfold stepIndexed at hc1
        split at hc1
        · exact ⟨v₁, h₁, v₂, h₂, hv₁, hh₁, hv₂, hh₂, fun e => hd ⟨(Prod.mk.inj e).1, (Prod.mk.inj e).2⟩, hc1⟩
        · exact ⟨h₁, v₁, h₂, v₂, hh₁, hv₁, hh₂, hv₂, fun e => hd ⟨(Prod.mk.inj e).2, (Prod.mk.inj e).1⟩, hc1⟩
      · exact ih r₂ (by simpa using hlen) _ _ (i / 2)
          (stepIndexed_P o P hP _ _ _ hv₁ hh₁) (stepIndexed_P o P hP _ _ _ hv₂ hh₂)
          (fun x hx => hπ₁ x (by simp [hx])) (fun x hx => hπ₂ x (by simp [hx])) hc heq

/-- the sibling/node exchange inherent to sorted-pair trees: at some level the two runs
hold each other's (node, sibling) and continue identically -/
def Exchange (o : Ops α) : α → List α → α → List α → Prop
  | v₁, h₁ :: r₁, v₂, h₂ :: r₂ =>
    (v₁ = h₂ ∧ h₁ = v₂ ∧ v₁ ≠ v₂ ∧ r₁ = r₂) ∨ Exchange o (chp o v₁ h₁) r₁ (chp o v₂ h₂) r₂
  | _, _, _, _ => False

theorem sound_sorted_aux (o : Ops α) (P : α → Prop) (hP : ∀ a b, P a → P b → P (o.hp a b))
    (π₁ π₂ : List α) (hlen : π₁.length = π₂.length) (v₁ v₂ : α)
    (hv₁ : P v₁) (hv₂ : P v₂) (hπ₁ : ∀ x ∈ π₁, P x) (hπ₂ : ∀ x ∈ π₂, P x)
    (hne : (v₁, π₁) ≠ (v₂, π₂)) (heq : foldSorted o v₁ π₁ = foldSorted o v₂ π₂) :
    Collision o P ∨ Exchange o v₁ π₁ v₂ π₂ := by
  induction π₁ generalizing π₂ v₁ v₂ with
  | nil =>
    cases π₂ with
    | nil => simp only [foldSorted] at heq; subst heq; exact absurd rfl hne
    | cons _ _ => simp at hlen
  | cons h₁ r₁ ih =>
    cases π₂ with
    | nil => simp at hlen
    | cons h₂ r₂ =>
      simp only [foldSorted] at heq
      have hh₁ : P h₁ := hπ₁ h₁ (by simp)
      have hh₂ : P h₂ := hπ₂ h₂ (by simp)
      by_cases hc : (chp o v₁ h₁, r₁) = (chp o v₂ h₂, r₂)
      · have hc1 : chp o v₁ h₁ = chp o v₂ h₂ := (Prod.mk.inj hc).1
        have hc2 : r₁ = r₂ := (Prod.mk.inj hc).2
        subst hc2
        have hd : ¬ (v₁ = v₂ ∧ h₁ = h₂) := by
          rintro ⟨rfl, rfl⟩; exact hne rfl
        by_cases hx : v₁ = h₂ ∧ h₁ = v₂
        · right; left
          refine ⟨hx.1, hx.2, ?_, rfl⟩
          intro e; exact hd ⟨e, by rw [hx.2, ← e, hx.1]⟩
        · left
          unfold chp at hc1
          split at hc1 <;> split at hc1
          · exact ⟨h₁, v₁, h₂, v₂, hh₁, hv₁, hh₂, hv₂, fun e => hd ⟨(Prod.mk.inj e).2, (Prod.mk.inj e).1⟩, hc1⟩
          · exact ⟨h₁, v₁, v₂, h₂, hh₁, hv₁, hv₂, hh₂, fun e => hx ⟨(Prod.mk.inj e).2, (Prod.mk.inj e).1⟩, hc1⟩
          · exact ⟨v₁, h₁, h₂, v₂, hv₁, hh₁, hh₂, hv₂, fun e => hx ⟨(Prod.mk.inj e).1, (Prod.mk.inj e).2⟩, hc1⟩
          · exact ⟨v₁, h₁, v₂, h₂, hv₁, hh₁, hv₂, hh₂, fun e => hd ⟨(Prod.mk.inj e).1, (Prod.mk.inj e).2⟩, hc1⟩
      · rcases ih r₂ (by simpa using hlen) _ _
          (chp_P o P hP _ _ hv₁ hh₁) (chp_P o P hP _ _ hv₂ hh₂)
          (fun x hx => hπ₁ x (by simp [hx])) (fun x hx => hπ₂ x (by simp [hx])) hc heq with h | h
        · exact Or.inl h
        · exact Or.inr (Or.inr h)

/-! ### the free-hash (symbolic) model -/

def AtomLeaves (t : Tree HTerm) : Prop := ∀ x ∈ t.leaves, ∃ n, x = HTerm.atom n

theorem proofWith_mem (comb : α → α → α) (t : Tree α) (p : List Bool) (v : α) (π : List α)
    (h : t.proofWith comb p = some (v, π)) : v ∈ t.leaves := by
  induction t generalizing p v π with
  | leaf a =>
    cases p with
    | nil => simp [Tree.proofWith] at h; obtain ⟨rfl, rfl⟩ := h; simp [Tree.leaves]
    | cons b p => simp [Tree.proofWith] at h
  | node l r ihl ihr =>
    cases p with
    | nil => simp [Tree.proofWith] at h
    | cons b p =>
      cases b with
      | false =>
        simp only [Tree.proofWith] at h
        split at h
        · next v' π' h' => cases h; simp [Tree.leaves, ihl p v π' h']
        · cases h
      | true =>
        simp only [Tree.proofWith] at h
        split at h
        · next v' π' h' => cases h; simp [Tree.leaves, ihr p v π' h']
        · cases h

/-- with pairwise different leaves, a value sits at one path only -/
theorem proofWith_unique (comb : α → α → α) (t : Tree α) (hnd : t.leaves.Nodup) (p p' : List Bool) (v : α)
    (π π' : List α) (h : t.proofWith comb p = some (v, π)) (h' : t.proofWith comb p' = some (v, π')) :
    p = p' ∧ π = π' := by
  induction t generalizing p p' v π π' with
  | leaf a =>
    cases p with
    | nil =>
      cases p' with
      | nil => simp [Tree.proofWith] at h h'; exact ⟨rfl, by rw [h.2, h'.2]⟩
      | cons b p' => simp [Tree.proofWith] at h'
    | cons b p => simp [Tree.proofWith] at h
  | node l r ihl ihr =>
    simp only [Tree.leaves] at hnd
    have hndl := (List.nodup_append.mp hnd).1
    have hndr := (List.nodup_append.mp hnd).2.1
    have hdis := (List.nodup_append.mp hnd).2.2
    cases p with
    | nil => simp [Tree.proofWith] at h
    | cons b p =>
      cases p' with
      | nil => simp [Tree.proofWith] at h'
      | cons b' p' =>
        cases b <;> cases b'
        · obtain ⟨π1, h1, rfl⟩ := (proofWith_false _ _ _ _ _ _).mp h
          obtain ⟨π2, h2, rfl⟩ := (proofWith_false _ _ _ _ _ _).mp h'
          obtain ⟨e1, e2⟩ := ihl hndl p p' v π1 π2 h1 h2
          subst e1; subst e2; exact ⟨rfl, rfl⟩
        · obtain ⟨π1, h1, rfl⟩ := (proofWith_false _ _ _ _ _ _).mp h
          obtain ⟨π2, h2, rfl⟩ := (proofWith_true _ _ _ _ _ _).mp h'
          exact absurd rfl (hdis v (proofWith_mem _ _ _ _ _ h1) v (proofWith_mem _ _ _ _ _ h2))
        · obtain ⟨π1, h1, rfl⟩ := (proofWith_true _ _ _ _ _ _).mp h
          obtain ⟨π2, h2, rfl⟩ := (proofWith_false _ _ _ _ _ _).mp h'
          exact absurd rfl (hdis v (proofWith_mem _ _ _ _ _ h2) v (proofWith_mem _ _ _ _ _ h1))
        · obtain ⟨π1, h1, rfl⟩ := (proofWith_true _ _ _ _ _ _).mp h
          obtain ⟨π2, h2, rfl⟩ := (proofWith_true _ _ _ _ _ _).mp h'
          obtain ⟨e1, e2⟩ := ihr hndr p p' v π1 π2 h1 h2
          subst e1; subst e2; exact ⟨rfl, rfl⟩

theorem chp_free_cases (gt : HTerm → HTerm → Bool) (x s L R : HTerm)
    (h : chp (freeOps gt) x s = chp (freeOps gt) L R) : (x = L ∧ s = R) ∨ (x = R ∧ s = L) := by
  unfold chp freeOps at h
  simp only at h
  split at h <;> split at h <;> injection h with h1 h2
  · exact Or.inl ⟨h2, h1⟩
  · exact Or.inr ⟨h2, h1⟩
  · exact Or.inr ⟨h1, h2⟩
  · exact Or.inl ⟨h1, h2⟩

theorem chp_free_ne_atom (gt : HTerm → HTerm → Bool) (x s : HTerm) (n : Nat) :
    chp (freeOps gt) x s ≠ HTerm.atom n := by
  unfold chp freeOps; simp only; split <;> intro h <;> cases h

/-- symbolic, sorted form: whatever folds to the root of a tree of atoms is an honest
(leaf, proof) of that tree -/
theorem sym_sorted_honest (gt : HTerm → HTerm → Bool) (t : Tree HTerm) (hat : AtomLeaves t) (n : Nat)
    (π : List HTerm) (h : foldSorted (freeOps gt) (HTerm.atom n) π = t.rootS (freeOps gt)) :
    ∃ p, t.proofWith (chp (freeOps gt)) p = some (HTerm.atom n, π) := by
  induction t generalizing π with
  | leaf a =>
    obtain ⟨m, rfl⟩ := hat a (by simp [Tree.leaves])
    rcases eq_nil_or_snoc π with rfl | ⟨π0, s, rfl⟩
    · simp only [foldSorted, Tree.rootS, Tree.rootWith] at h
      exact ⟨[], by simp [Tree.proofWith, h]⟩
    · rw [foldSorted_append] at h
      exact absurd h (chp_free_ne_atom gt _ _ m)
  | node l r ihl ihr =>
    have hatl : AtomLeaves l := fun x hx => hat x (by simp [Tree.leaves, hx])
    have hatr : AtomLeaves r := fun x hx => hat x (by simp [Tree.leaves, hx])
    rcases eq_nil_or_snoc π with rfl | ⟨π0, s, rfl⟩
    · simp only [foldSorted, Tree.rootS, Tree.rootWith] at h
      exact absurd h.symm (chp_free_ne_atom gt _ _ n)
    · rw [foldSorted_append] at h
      rcases chp_free_cases gt _ _ _ _ h with ⟨h1, h2⟩ | ⟨h1, h2⟩
      · obtain ⟨p, hp⟩ := ihl hatl π0 h1
        exact ⟨false :: p, (proofWith_false _ _ _ _ _ _).mpr ⟨π0, hp, by rw [h2]⟩⟩
      · obtain ⟨p, hp⟩ := ihr hatr π0 h1
        exact ⟨true :: p, (proofWith_true _ _ _ _ _ _).mpr ⟨π0, hp, by rw [h2]⟩⟩

theorem stepIndexed_free_ne_atom (gt : HTerm → HTerm → Bool) (x s : HTerm) (i n : Nat) :
    stepIndexed (freeOps gt) x i s ≠ HTerm.atom n := by
  unfold stepIndexed freeOps; simp only; split <;> intro h <;> cases h

/-- symbolic, positional form: whatever folds to the root is an honest (leaf, proof) at the
path whose index is the given one -/
theorem sym_indexed_honest (gt : HTerm → HTerm → Bool) (t : Tree HTerm) (hat : AtomLeaves t) (n : Nat)
    (π : List HTerm) (i : Nat) (hi : i < 2 ^ π.length)
    (h : foldIndexed (freeOps gt) (HTerm.atom n) i π = t.rootI (freeOps gt)) :
    ∃ p, t.proofWith (freeOps gt).hp p = some (HTerm.atom n, π) ∧ i = indexOf p := by
  induction t generalizing π i with
  | leaf a =>
    obtain ⟨m, rfl⟩ := hat a (by simp [Tree.leaves])
    rcases eq_nil_or_snoc π with rfl | ⟨π0, s, rfl⟩
    · simp only [foldIndexed, Tree.rootI, Tree.rootWith] at h
      simp at hi
      exact ⟨[], by simp [Tree.proofWith, h], by simp [indexOf, hi]⟩
    · rw [foldIndexed_append] at h
      exact absurd h (stepIndexed_free_ne_atom gt _ _ _ m)
  | node l r ihl ihr =>
    have hatl : AtomLeaves l := fun x hx => hat x (by simp [Tree.leaves, hx])
    have hatr : AtomLeaves r := fun x hx => hat x (by simp [Tree.leaves, hx])
    rcases eq_nil_or_snoc π with rfl | ⟨π0, s, rfl⟩
    · simp only [foldIndexed, Tree.rootI, Tree.rootWith] at h
      cases h
    · rw [foldIndexed_append, ← foldIndexed_mod] at h
      simp only [List.length_append, List.length_cons, List.length_nil, Nat.zero_add, Nat.pow_succ] at hi
      have hpos : 0 < 2 ^ π0.length := Nat.two_pow_pos _
      have hq : i / 2 ^ π0.length < 2 := by
        apply Nat.div_lt_of_lt_mul; exact hi
      have hmod : i % 2 ^ π0.length < 2 ^ π0.length := Nat.mod_lt _ hpos
      have hdm := Nat.div_add_mod i (2 ^ π0.length)
      unfold stepIndexed at h
      simp only [Tree.rootI, Tree.rootWith, freeOps] at h
      split at h
      · next hev =>
        injection h with h1 h2
        obtain ⟨p, hp, hidx⟩ := ihl hatl π0 _ hmod h1
        have hl := proofWith_length _ _ _ _ _ hp
        refine ⟨false :: p, (proofWith_false _ _ _ _ _ _).mpr ⟨π0, hp, by rw [h2]; rfl⟩, ?_⟩
        simp only [indexOf, Bool.false_eq_true, if_false, Nat.zero_add]
        have hq0 : i / 2 ^ π0.length = 0 := by
          generalize i / 2 ^ π0.length = x at hq hev; omega
        rw [hq0, Nat.mul_zero, Nat.zero_add] at hdm
        rw [← hidx, hdm]
      · next hod =>
        injection h with h1 h2
        obtain ⟨p, hp, hidx⟩ := ihr hatr π0 _ hmod h2
        have hl := proofWith_length _ _ _ _ _ hp
        refine ⟨true :: p, (proofWith_true _ _ _ _ _ _).mpr ⟨π0, hp, by rw [h1]; rfl⟩, ?_⟩
        simp only [indexOf, if_true]
        have hq1 : i / 2 ^ π0.length = 1 := by
          generalize i / 2 ^ π0.length = x at hq hod; omega
        rw [hq1, Nat.mul_one] at hdm
        rw [← hidx, ← hl]; exact hdm.symm

/-! ### the byte order -/

theorem bytesGt_total (a b : List UInt8) (h : a ≠ b) : bytesGt a b = !bytesGt b a := by
  induction a generalizing b with
  | nil =>
    cases b with
    | nil => exact absurd rfl h
    | cons y ys => simp [bytesGt]
  | cons x xs ih =>
    cases b with
    | nil => simp [bytesGt]
    | cons y ys =>
      simp only [bytesGt]
      by_cases h1 : x.toNat > y.toNat
      · have h2 : ¬ y.toNat > x.toNat := by omega
        have h3 : y.toNat < x.toNat := by omega
        simp [h1, h2, h3]
      · by_cases h2 : x.toNat < y.toNat
        · have h3 : y.toNat > x.toNat := by omega
          simp [h1, h2, h3]
        · have h3 : ¬ y.toNat > x.toNat := by omega
          have h4 : ¬ y.toNat < x.toNat := by omega
          have hxy : x = y := UInt8.toNat_inj.mp (by omega)
          subst hxy
          have hne : xs ≠ ys := fun e => h (by rw [e])
          simp [h1, h2, ih ys hne]

theorem bytesOps_total (H : List UInt8 → List UInt8) : TotalGt (bytesOps H) :=
  fun a b h => bytesGt_total a b h

/-! ### distributor -/

theorem bind_ok_iff {ε β γ} {x : Except ε β} {f : β → Except ε γ} {v : γ} :
    (x >>= f) = .ok v ↔ ∃ a, x = .ok a ∧ f a = .ok v := by
  cases x with
  | error e => constructor
               · intro h; cases h
               · rintro ⟨a, h, _⟩; cases h
  | ok a => constructor
            · intro h; exact ⟨a, rfl, h⟩
            · rintro ⟨b, h, h2⟩; cases h; exact h2

theorem getRoot_ok (d : Dist α) (r : α) : d.getRoot = .ok r ↔ d.root = some r := by
  unfold Dist.getRoot
  split
  · next h => rw [h]; constructor <;> intro h' <;> cases h'
  · next r' h => rw [h]; constructor
                 · intro h'; cases h'; rfl
                 · intro h'; cases h'; rfl

theorem checkNotClaimed_ok (d : Dist α) (i : Nat) (u : Unit) : checkNotClaimed d i = .ok u ↔ d.claimed i = false := by
  unfold checkNotClaimed Dist.isClaimed
  split
  · next h => constructor
              · intro h'; cases h'
              · intro h'; rw [h] at h'; cases h'
  · next h => constructor
              · intro _; simpa using h
              · intro _; rfl

theorem markIf_ok (d d' : Dist α) (i : Nat) (b : Bool) : markIf d i b = .ok d' ↔ b = true ∧ d' = d.setClaimed i := by
  unfold markIf
  split
  · next h => constructor
              · intro h'; cases h'; exact ⟨h, rfl⟩
              · rintro ⟨_, rfl⟩; rfl
  · next h => constructor
              · intro h'; cases h'
              · rintro ⟨h', _⟩; exact absurd h' h

theorem liftV_ok (x : Except VErr Bool) (b : Bool) : liftV x = .ok b ↔ x = .ok b := by
  cases x with
  | ok v => simp [liftV]
  | error e => simp [liftV]

/-- a successful sorted-form claim: exactly its conditions and its effect -/
theorem claim_ok [DecidableEq α] (o : Ops α) (d d' : Dist α) (h : α) (i : Nat) (π : List α) :
    d.verifyAndSetClaimed o h i π = .ok d' ↔
      ∃ root, d.root = some root ∧ d.claimed i = false ∧ verify o π root h = true ∧ d' = d.setClaimed i := by
  unfold Dist.verifyAndSetClaimed
  simp only [bind_ok_iff, getRoot_ok, checkNotClaimed_ok, markIf_ok]
  constructor
  · rintro ⟨root, h1, _, h2, h3, h4⟩; exact ⟨root, h1, h2, h3, h4⟩
  · rintro ⟨root, h1, h2, h3, h4⟩; exact ⟨root, h1, (), h2, h3, h4⟩

/-- a successful positional claim -/
theorem claimIndexed_ok [DecidableEq α] (o : Ops α) (d d' : Dist α) (h : α) (i : Nat) (π : List α) :
    d.verifyWithIndexAndSetClaimed o h i π = .ok d' ↔
      ∃ root, d.root = some root ∧ d.claimed i = false ∧ verifyWithIndex o π root h i = .ok true ∧
        d' = d.setClaimed i := by
  unfold Dist.verifyWithIndexAndSetClaimed
  simp only [bind_ok_iff, getRoot_ok, checkNotClaimed_ok, markIf_ok, liftV_ok]
  constructor
  · rintro ⟨root, h1, _, h2, b, h3, h4, h5⟩; subst h4; exact ⟨root, h1, h2, h3, h5⟩
  · rintro ⟨root, h1, h2, h3, h4⟩; exact ⟨root, h1, (), h2, true, h3, rfl, h4⟩

/-- `op`, executed in state `d`, is a claim for index `i` whose proof verifies against the
current root -/
def ClaimsIndex [DecidableEq α] (o : Ops α) (d : Dist α) (i : Nat) : DOp α → Prop
  | .setRoot _ => False
  | .claim h j π => j = i ∧ ∃ root, d.root = some root ∧ verify o π root h = true
  | .claimIndexed h j π => j = i ∧ ∃ root, d.root = some root ∧ verifyWithIndex o π root h j = .ok true

theorem setClaimed_claimed (d : Dist α) (i j : Nat) : (d.setClaimed i).claimed j = (decide (j = i) || d.claimed j) := by
  unfold Dist.setClaimed
  by_cases h : j = i <;> simp [h]

/-- one step: a flag that becomes set was set by a verified claim for exactly that index -/
theorem apply_claimed [DecidableEq α] (o : Ops α) (d : Dist α) (op : DOp α) (i : Nat)
    (h : (d.apply o op).claimed i = true) :
    d.claimed i = true ∨ (d.claimed i = false ∧ ClaimsIndex o d i op) := by
  by_cases hc : d.claimed i = true
  · exact Or.inl hc
  · right
    have hcf : d.claimed i = false := by simpa using hc
    refine ⟨hcf, ?_⟩
    unfold Dist.apply at h
    split at h
    · next d' hs =>
      cases op with
      | setRoot r =>
        simp only [Dist.step] at hs; cases hs
        simp [Dist.setRoot, hcf] at h
      | claim lh j π =>
        simp only [Dist.step] at hs
        obtain ⟨root, h1, h2, h3, rfl⟩ := (claim_ok o d d' lh j π).mp hs
        rw [setClaimed_claimed, hcf] at h
        simp at h
        exact ⟨h.symm, root, h1, h3⟩
      | claimIndexed lh j π =>
        simp only [Dist.step] at hs
        obtain ⟨root, h1, h2, h3, rfl⟩ := (claimIndexed_ok o d d' lh j π).mp hs
        rw [setClaimed_claimed, hcf] at h
        simp at h
        exact ⟨h.symm, root, h1, h3⟩
    · rw [hcf] at h; cases h

/-- one step never clears a flag -/
theorem apply_keeps_claimed [DecidableEq α] (o : Ops α) (d : Dist α) (op : DOp α) (i : Nat)
    (h : d.claimed i = true) : (d.apply o op).claimed i = true := by
  unfold Dist.apply
  split
  · next d' hs =>
    cases op with
    | setRoot r => simp only [Dist.step] at hs; cases hs; exact h
    | claim lh j π =>
      simp only [Dist.step] at hs
      obtain ⟨root, h1, h2, h3, rfl⟩ := (claim_ok o d d' lh j π).mp hs
      rw [setClaimed_claimed, h]; simp
    | claimIndexed lh j π =>
      simp only [Dist.step] at hs
      obtain ⟨root, h1, h2, h3, rfl⟩ := (claimIndexed_ok o d d' lh j π).mp hs
      rw [setClaimed_claimed, h]; simp
  · exact h

theorem run_append [DecidableEq α] (o : Ops α) (d : Dist α) (a b : List (DOp α)) :
    Dist.run o d (a ++ b) = Dist.run o (Dist.run o d a) b := by
  induction a generalizing d with
  | nil => rfl
  | cons op rest ih => simp only [List.cons_append, Dist.run, ih]

theorem run_keeps_claimed [DecidableEq α] (o : Ops α) (d : Dist α) (ops : List (DOp α)) (i : Nat)
    (h : d.claimed i = true) : (Dist.run o d ops).claimed i = true := by
  induction ops generalizing d with
  | nil => exact h
  | cons op rest ih => exact ih _ (apply_keeps_claimed o d op i h)

theorem mem_leaves_has_proof (comb : α → α → α) (t : Tree α) (v : α) (h : v ∈ t.leaves) :
    ∃ p π, t.proofWith comb p = some (v, π) := by
  induction t with
  | leaf a =>
    simp [Tree.leaves] at h; subst h
    exact ⟨[], [], rfl⟩
  | node l r ihl ihr =>
    simp only [Tree.leaves, List.mem_append] at h
    rcases h with h | h
    · obtain ⟨p, π, hp⟩ := ihl h
      exact ⟨false :: p, _, (proofWith_false _ _ _ _ _ _).mpr ⟨π, hp, rfl⟩⟩
    · obtain ⟨p, π, hp⟩ := ihr h
      exact ⟨true :: p, _, (proofWith_true _ _ _ _ _ _).mpr ⟨π, hp, rfl⟩⟩
end OZ.Merkle
