import OZ.Props.C01
import OZ.Lemmas.Gates
import OZ.Model.Votes
/-
Helper lemmas for OZ/Props/C01Flavours.lean (C01 for the wrapper flavours of the fungible token).
-/
namespace OZ.C01Flavours
open OZ.Host OZ.Fungible OZ.Gates

theorem gate_ok {α : Type} {b : Bool} {x : Except Fungible.Err α} {r : α}
    (h : (if b then Except.error Fungible.Err.gate else x) = .ok r) : x = .ok r := by
  cases b <;> simp at h; exact h


theorem map_pair_ok {ε α β : Type} {x : Except ε α} {b : β} {t : α} {a : β}
    (h : x.map (·, b) = .ok (t, a)) : x = .ok t := by
  cases x with
  | error e => cases h
  | ok v => simp only [Except.map] at h; injection h with h; injection h with h1 h2; subst h1; rfl


theorem votes_base_sim (c : Cfg) (tok tok' : Fungible.State) (auth : List Nat)
    (op : OZ.FungibleVotes.Op) (a : OZ.Votes.Act) (h : OZ.FungibleVotes.base c tok auth op = .ok (tok', a)) :
    (∃ o, op.tokOp = some o ∧ Fungible.apply c tok auth o = .ok tok') ∨ (op.tokOp = none ∧ tok' = tok) := by
  cases op with
  | mint t x => exact .inl ⟨_, rfl, map_pair_ok h⟩
  | transfer f t x => exact .inl ⟨_, rfl, map_pair_ok h⟩
  | transferFrom sp f t x => exact .inl ⟨_, rfl, map_pair_ok h⟩
  | approve o sp x lu => exact .inl ⟨_, rfl, map_pair_ok h⟩
  | burn f x => exact .inl ⟨_, rfl, map_pair_ok h⟩
  | burnFrom sp f x => exact .inl ⟨_, rfl, map_pair_ok h⟩
  | delegate x d =>
    simp only [OZ.FungibleVotes.base] at h; injection h with h; injection h with h1 h2
    exact .inr ⟨rfl, h1.symm⟩
  | advance n =>
    simp only [OZ.FungibleVotes.base] at h; injection h with h; injection h with h1 h2
    exact .inl ⟨_, rfl, by rw [← h1]; rfl⟩


theorem mint_init {U : List Nat} (hn : U.Nodup) (now a : Nat) (x : Int) (t : Fungible.State)
    (ha : a ∈ U) (h : Fungible.mint (Fungible.init now) a x = .ok t) :
    Inv U t ∧ replay t.events = t.bal := by
  have h' : Fungible.apply ⟨1, 1⟩ (Fungible.init now) [] (.mint a x) = .ok t := h
  exact ⟨(apply_inv hn ⟨1, 1⟩ (init_inv U now) [] _ (by intro b hb; simp [Op.addrs] at hb; subst hb; exact ha) h').1,
    apply_replay ⟨1, 1⟩ [] _ (by simp [Fungible.init, replay]) h'⟩


end OZ.C01Flavours
