import OZ.Lemmas.SmartAccountMon
import OZ.Lemmas.SmartAccountTrace
/-
Helper lemmas for the soundness proof of the C03 monitor (OZ/Props/C03Mon.lean), part 2:
the verdict on a `check` / `e2e` line. On the ghost list of a model store the monitor's
candidates (filter + sort) are the model's `get_valid_context_rules`, `satisfied` is the loop body
`ruleMatches`, `expectedCans` / `expEnforce` / `expVerif` are the three parts of the model's call
trace, `enforceAllowed` is the enforce loop, and every event of the trace passes the
foreign-signer check: `checkAuthMon_quiet`.
-/
namespace OZ.SmartAccount.Mon
open OZ.SmartAccount

theorem counted_toG (r : Rule) (sup : List Signer) : counted (toG r) sup = getAuthenticatedSigners r.signers sup := by
  unfold counted getAuthenticatedSigners toG
  apply List.filter_congr
  intro x _
  simp

theorem monCan_eq (m : Mocks) (p : Nat) (c : Ctx) (n rid : Nat) : monCan m p c n rid = m.can p c n rid := rfl

theorem sigValid_eq (m : Mocks) (auth : List Nat) (x : Signer) (g : Nat) :
    sigValid m auth x g = sigOk (oracleOf m auth) x g := by
  cases x <;> rfl

theorem live_toG (now : Nat) (r : Rule) : live now (toG r) = !expired now r.validUntil := by
  unfold live toG expired
  cases r.validUntil with
  | none => rfl
  | some v =>
    show decide (now ≤ v) = !decide (v < now)
    by_cases h : now ≤ v
    · rw [decide_eq_true h, decide_eq_false (by omega)]; rfl
    · rw [decide_eq_false h, decide_eq_true (by omega)]; rfl

theorem satisfied_toG (m : Mocks) (auth : List Nat) (c : Ctx) (sup : List Signer) (r : Rule) :
    satisfied m c sup (toG r) = ruleMatches (oracleOf m auth) c sup r := by
  unfold satisfied ruleMatches
  have hp : (toG r).policies = r.policies := rfl
  have hs : (toG r).signers = r.signers := rfl
  rw [hp, hs]
  by_cases he : r.policies.isEmpty = true
  · rw [if_pos he, if_pos he]
    rw [Bool.eq_iff_iff, List.all_eq_true, beq_iff_eq]
    constructor
    · intro h
      have := (filter_length_eq_iff (fun x => decide (x ∈ sup)) r.signers).mpr (fun x hx => by simpa using h x hx)
      unfold getAuthenticatedSigners; omega
    · intro h x hx
      have h' : (r.signers.filter (fun x => decide (x ∈ sup))).length = r.signers.length := by
        unfold getAuthenticatedSigners at h; omega
      have := (filter_length_eq_iff _ _).mp h' x hx
      simpa using this
  · rw [if_neg he, if_neg he]
    unfold canEnforceAllPolicies
    rw [counted_toG]
    rfl

/-- the monitor's candidates, computed by filtering and sorting the ghost list, are the model's
`get_valid_context_rules` -/
theorem filter_ty_live {s : Store} (hI : Inv s) (now : Nat) (t : RuleType) :
    (allRules s).filter (fun r => r.ty == t && live now r) = (liveOf s now (s.ids t)).map toG := by
  have : (allRules s).filter (fun r => r.ty == t && live now r)
      = ((allRules s).filter (fun r => r.ty == t)).filter (live now) := by
    rw [List.filter_filter]
    apply List.filter_congr
    intro x _
    exact Bool.and_comm _ _
  rw [this, allRules_filter_ty hI, List.filter_filterMap]
  unfold liveOf
  rw [List.map_filterMap]
  apply filterMap_congr'
  intro id _
  unfold gAt liveFn
  cases hg : getContextRule s id with
  | error e => rfl
  | ok r =>
    simp only [Option.filter, live_toG]
    by_cases he : expired now r.validUntil = true
    · simp [he]
    · simp [he]

theorem candidates_eq {s : Store} (hI : Inv s) (now : Nat) (c : Ctx) :
    candidates (allRules s) now c = (validRules s now (typeOf c)).map toG := by
  unfold candidates validRules
  have hs : ∀ t, ((allRules s).filter (fun r => r.ty == t && live now r)).Pairwise (fun a b => a.id < b.id) :=
    fun t => (allRules_sorted s).sublist List.filter_sublist
  rw [byIdDesc_of_sorted _ (hs _), byIdDesc_of_sorted _ (hs _), filter_ty_live hI, filter_ty_live hI,
    List.map_append, List.map_reverse, List.map_reverse]

/-- the rule the model picks for a context -/
def pick (O : Oracle) (s : Store) (now : Nat) (all : List Signer) (c : Ctx) : Option Rule :=
  (validRules s now (typeOf c)).find? (ruleMatches O c all)

theorem find_candidates {s : Store} (hI : Inv s) (now : Nat) (m : Mocks) (auth : List Nat) (all : List Signer) (c : Ctx) :
    (candidates (allRules s) now c).find? (satisfied m c all) = (pick (oracleOf m auth) s now all c).map toG := by
  rw [candidates_eq hI, List.find?_map]
  unfold pick
  congr 1
  apply find?_congr'
  intro r _
  exact satisfied_toG m auth c all r


/-- `asked` without the accumulator -/
def askedRec (m : Mocks) (c : Ctx) (n rid : Nat) : List Nat → List Nat
  | [] => []
  | p :: ps => if monCan m p c n rid then p :: askedRec m c n rid ps else [p]

theorem foldl_askedStep_done (m : Mocks) (c : Ctx) (n rid : Nat) (acc : List Nat) (ps : List Nat) :
    ps.foldl (askedStep m c n rid) (acc, true) = (acc, true) := by
  induction ps with
  | nil => rfl
  | cons p t ih => rw [List.foldl_cons]; exact ih

theorem foldl_askedStep (m : Mocks) (c : Ctx) (n rid : Nat) (ps : List Nat) (acc : List Nat) :
    (ps.foldl (askedStep m c n rid) (acc, false)).1 = acc ++ askedRec m c n rid ps := by
  induction ps generalizing acc with
  | nil => simp [askedRec]
  | cons p t ih =>
    rw [List.foldl_cons]
    unfold askedRec
    by_cases h : monCan m p c n rid = true
    · have : askedStep m c n rid (acc, false) p = (acc ++ [p], false) := by simp [askedStep, h]
      rw [this, ih, if_pos h]; simp
    · have h' : monCan m p c n rid = false := by simpa using h
      have : askedStep m c n rid (acc, false) p = (acc ++ [p], true) := by simp [askedStep, h']
      rw [this, foldl_askedStep_done, if_neg h]

theorem asked_eq (m : Mocks) (c : Ctx) (n rid : Nat) (ps : List Nat) : asked m c n rid ps = askedRec m c n rid ps := by
  unfold asked; rw [foldl_askedStep]; rfl

theorem canTrace_log (m : Mocks) (auth : List Nat) (c : Ctx) (r : Rule) (matched : List Signer) (ps : List Nat) :
    (canTrace (oracleOf m auth) c r matched ps).1.filterMap toLEv
      = (askedRec m c matched.length r.id ps).map (fun p => LEv.c p r.id c matched) := by
  induction ps with
  | nil => rfl
  | cons p t ih =>
    unfold canTrace askedRec
    have hc : (oracleOf m auth).can p c matched r = monCan m p c matched.length r.id := rfl
    by_cases h : monCan m p c matched.length r.id = true
    · rw [if_pos (by rw [hc]; exact h), if_pos h]
      show List.filterMap toLEv (Event.can p r c matched :: _) = _
      rw [List.filterMap_cons_some (by rfl : toLEv (Event.can p r c matched) = some (LEv.c p r.id c matched)), ih]; rfl
    · rw [if_neg (by rw [hc]; exact h), if_neg h]; rfl

theorem ruleCans_toG (m : Mocks) (auth : List Nat) (c : Ctx) (all : List Signer) (r : Rule) :
    ruleCans m c all (toG r) = (ruleTrace (oracleOf m auth) c all r).1.filterMap toLEv := by
  unfold ruleCans ruleTrace
  rw [asked_eq, counted_toG]
  have hp : (toG r).policies = r.policies := rfl
  have hi : (toG r).id = r.id := rfl
  rw [hp, hi]
  by_cases he : r.policies.isEmpty = true
  · rw [if_pos he]
    have : r.policies = [] := by simpa using he
    rw [this]; rfl
  · rw [if_neg he, canTrace_log]

theorem expectedCans_toG (m : Mocks) (auth : List Nat) (c : Ctx) (all : List Signer) (rs : List Rule) :
    expectedCans m c all (rs.map toG) = (rulesTrace (oracleOf m auth) c all rs).1.filterMap toLEv := by
  induction rs with
  | nil => rfl
  | cons r t ih =>
    rw [List.map_cons]
    unfold expectedCans rulesTrace
    rw [satisfied_toG m auth, ← ruleTrace_snd, ruleCans_toG m auth]
    by_cases h : (ruleTrace (oracleOf m auth) c all r).2 = true
    · rw [if_pos h, if_pos h]
    · rw [if_neg h, if_neg h, ih]
      show _ = List.filterMap toLEv ((ruleTrace (oracleOf m auth) c all r).1 ++ (rulesTrace (oracleOf m auth) c all t).1)
      rw [List.filterMap_append]

/-! ### one context -/

theorem ctxTrace_eq {s : Store} (hI : Inv s) (O : Oracle) (now : Nat) (all : List Signer) (c : Ctx) :
    ctxTrace O s now all c
      = ((rulesTrace O c all (validRules s now (typeOf c))).1,
         (pick O s now all c).map (fun r => (r, c, getAuthenticatedSigners r.signers all))) := by
  unfold ctxTrace pick
  rw [getValidContextRules_ok hI]
  dsimp only
  rw [← rulesTrace_snd]
  cases (rulesTrace O c all (validRules s now (typeOf c))).2 <;> rfl

theorem pick_stored {s : Store} (hI : Inv s) {O : Oracle} {now : Nat} {all : List Signer} {c : Ctx} {r : Rule}
    (h : pick O s now all c = some r) : getContextRule s r.id = .ok r := by
  have hm := List.mem_of_find?_eq_some h
  exact ((mem_validRules hI).mp hm).1

/-- the monitor's `chosen` list, on the ghost list of a model store -/
theorem chosenOf_eq {s : Store} (hI : Inv s) (now : Nat) (m : Mocks) (auth : List Nat) (all : List Signer)
    (ctxs : List Ctx) :
    chosenOf { rules := allRules s, now := now, mocks := m } all ctxs
      = ctxs.map (fun c => (c, (pick (oracleOf m auth) s now all c).map toG)) := by
  unfold chosenOf
  apply List.map_congr_left
  intro c _
  rw [find_candidates hI now m auth]

/-- the validated triples of a batch (when every context is covered) -/
def tripleOf (all : List Signer) (c : Ctx) (r : Rule) : Rule × Ctx × List Signer :=
  (r, c, getAuthenticatedSigners r.signers all)

theorem ctxsTrace_some {s : Store} (hI : Inv s) (O : Oracle) (now : Nat) (all : List Signer) :
    ∀ (ctxs : List Ctx) (vs : List (Rule × Ctx × List Signer)), (ctxsTrace O s now all ctxs).2 = some vs →
      ctxs.map (fun c => (c, (pick O s now all c).map toG)) = vs.map (fun v => (v.2.1, some (toG v.1))) ∧
      (∀ v ∈ vs, v.2.2 = getAuthenticatedSigners v.1.signers all) ∧
      (∀ v ∈ vs, getContextRule s v.1.id = .ok v.1) ∧
      (ctxsTrace O s now all ctxs).1 = ctxs.flatMap (fun c => (rulesTrace O c all (validRules s now (typeOf c))).1)
  | [], vs, h => by
    simp only [ctxsTrace] at h
    injection h with h; subst h
    exact ⟨rfl, by simp, by simp, rfl⟩
  | c :: rest, vs, h => by
    unfold ctxsTrace at h ⊢
    rw [ctxTrace_eq hI] at h ⊢
    dsimp only at h ⊢
    cases hp : pick O s now all c with
    | none => rw [hp] at h; simp at h
    | some r =>
      rw [hp] at h
      simp only [Option.map_some] at h ⊢
      cases hr : (ctxsTrace O s now all rest).2 with
      | none => rw [hr] at h; simp at h
      | some vs' =>
        rw [hr] at h
        dsimp only at h
        injection h with h; subst h
        obtain ⟨h1, h2, h4, h3⟩ := ctxsTrace_some hI O now all rest vs' hr
        refine ⟨?_, ?_, ?_, ?_⟩
        · simp only [List.map_cons, hp, Option.map_some, h1]
        · intro v hv
          cases List.mem_cons.mp hv with
          | inl e => subst e; rfl
          | inr m => exact h2 v m
        · intro v hv
          cases List.mem_cons.mp hv with
          | inl e => subst e; exact pick_stored hI hp
          | inr m => exact h4 v m
        · simp only [List.flatMap_cons, h3]

theorem ctxsTrace_none {s : Store} (hI : Inv s) (O : Oracle) (now : Nat) (all : List Signer) :
    ∀ (ctxs : List Ctx), (ctxsTrace O s now all ctxs).2 = none → ∃ c ∈ ctxs, pick O s now all c = none
  | [], h => by simp [ctxsTrace] at h
  | c :: rest, h => by
    unfold ctxsTrace at h
    rw [ctxTrace_eq hI] at h
    dsimp only at h
    cases hp : pick O s now all c with
    | none => exact ⟨c, by simp, hp⟩
    | some r =>
      rw [hp] at h
      simp only [Option.map_some] at h
      cases hr : (ctxsTrace O s now all rest).2 with
      | none =>
        obtain ⟨c', hc', hn⟩ := ctxsTrace_none hI O now all rest hr
        exact ⟨c', List.mem_cons_of_mem _ hc', hn⟩
      | some vs' => rw [hr] at h; simp at h

theorem covered_false_of_none (f : Ctx → Option Rule) (ctxs : List Ctx) (c : Ctx) (hc : c ∈ ctxs)
    (hn : f c = none) : covered (ctxs.map (fun c => (c, (f c).map toG))) = false := by
  unfold covered
  rw [List.all_eq_false]
  exact ⟨(c, (f c).map toG), List.mem_map.mpr ⟨c, hc, rfl⟩, by simp [hn]⟩

theorem covered_of_some (vs : List (Rule × Ctx × List Signer)) :
    covered (vs.map (fun v => (v.2.1, some (toG v.1)))) = true := by
  unfold covered
  rw [List.all_eq_true]
  intro p hp
  obtain ⟨v, _, hv⟩ := List.mem_map.mp hp
  rw [← hv]; rfl

/-! ### the enforce calls -/

theorem filterMap_some_map {α β γ} (f : α → β) (g : β → Option γ) (k : α → γ) (l : List α)
    (h : ∀ a, g (f a) = some (k a)) : (l.map f).filterMap g = l.map k := by
  induction l with
  | nil => rfl
  | cons a t ih => rw [List.map_cons, List.filterMap_cons_some (h a), ih, List.map_cons]

theorem enforce_log (all : List Signer) : ∀ (vs : List (Rule × Ctx × List Signer)),
    (∀ v ∈ vs, v.2.2 = getAuthenticatedSigners v.1.signers all) →
    ((callsOf vs).map enfEvent).filterMap toLEv = expEnforce all (vs.map (fun v => (v.2.1, some (toG v.1))))
  | [], _ => rfl
  | v :: rest, h => by
    have ih := enforce_log all rest (fun v hv => h v (List.mem_cons_of_mem _ hv))
    unfold callsOf expEnforce at *
    rw [List.flatMap_cons, List.map_append, List.filterMap_append, ih, List.map_cons, List.flatMap_cons]
    congr 1
    unfold callsOfOne enforceOfOne
    rw [List.map_map]
    show List.filterMap toLEv (List.map _ v.1.policies)
      = List.map (fun q => LEv.e q (toG v.1).id v.2.1 (counted (toG v.1) all)) (toG v.1).policies
    rw [counted_toG, ← h v (by simp)]
    exact filterMap_some_map _ _ _ _ (fun _ => rfl)

theorem enforce_pols : ∀ (vs : List (Rule × Ctx × List Signer)),
    (callsOf vs).map (·.policy) = expEnforcePols (vs.map (fun v => (v.2.1, some (toG v.1))))
  | [] => rfl
  | v :: rest => by
    have ih := enforce_pols rest
    unfold callsOf expEnforcePols at *
    rw [List.flatMap_cons, List.map_append, ih, List.map_cons, List.flatMap_cons]
    congr 1
    unfold callsOfOne polsOfOne
    rw [List.map_map]
    show List.map _ v.1.policies = v.1.policies
    simp [Function.comp_def]

/-! ### shape of the events of a trace -/

theorem authTrace_verify (O : Oracle) : ∀ (sigs : List (Signer × Nat)), ∀ ev ∈ (authTrace O sigs).1, ∃ v k g, ev = Event.verify v k g
  | [], ev, h => by simp [authTrace] at h
  | (x, g) :: rest, ev, h => by
    unfold authTrace at h
    have hs : ∀ ev ∈ sigEvent x g, ∃ v k g, ev = Event.verify v k g := by
      intro ev hev
      cases x with
      | delegated a => simp [sigEvent] at hev
      | external v k => simp only [sigEvent, List.mem_singleton] at hev; exact ⟨v, k, g, hev⟩
    by_cases hok : sigOk O x g = true
    · rw [if_pos hok] at h
      cases List.mem_append.mp h with
      | inl m => exact hs ev m
      | inr m => exact authTrace_verify O rest ev m
    · rw [if_neg hok] at h; exact hs ev h

theorem authTrace_log (m : Mocks) (auth : List Nat) : ∀ (sigs : List (Signer × Nat)),
    (authTrace (oracleOf m auth) sigs).2 = true →
    (authTrace (oracleOf m auth) sigs).1.filterMap toLEv = sigs.filterMap expVerif
  | [], _ => rfl
  | (x, g) :: rest, h => by
    unfold authTrace at h ⊢
    by_cases hok : sigOk (oracleOf m auth) x g = true
    · rw [if_pos hok] at h ⊢
      have ih := authTrace_log m auth rest h
      show List.filterMap toLEv (sigEvent x g ++ _) = _
      rw [List.filterMap_append, ih]
      cases x with
      | delegated a => rfl
      | external v k =>
        simp only [sigEvent, List.filterMap_cons, List.filterMap_nil, toLEv, expVerif]
        by_cases hv : v ≥ 2
        · simp [hv]
        · simp [hv]
    · rw [if_neg hok] at h; cases h

theorem canTrace_can (O : Oracle) (c : Ctx) (r : Rule) (mt : List Signer) : ∀ (ps : List Nat),
    ∀ ev ∈ (canTrace O c r mt ps).1, ∃ p, ev = Event.can p r c mt
  | [], ev, h => by simp [canTrace] at h
  | p :: ps, ev, h => by
    unfold canTrace at h
    by_cases hc : O.can p c mt r = true
    · rw [if_pos hc] at h
      cases List.mem_cons.mp h with
      | inl e => exact ⟨p, e⟩
      | inr m => exact canTrace_can O c r mt ps ev m
    · rw [if_neg hc] at h
      exact ⟨p, by simpa using h⟩

theorem ruleTrace_can (O : Oracle) (c : Ctx) (all : List Signer) (r : Rule) :
    ∀ ev ∈ (ruleTrace O c all r).1, ∃ p, ev = Event.can p r c (getAuthenticatedSigners r.signers all) := by
  intro ev h
  unfold ruleTrace at h
  by_cases he : r.policies.isEmpty = true
  · rw [if_pos he] at h; simp at h
  · rw [if_neg he] at h; exact canTrace_can O c r _ _ ev h

theorem rulesTrace_can (O : Oracle) (c : Ctx) (all : List Signer) : ∀ (rs : List Rule),
    ∀ ev ∈ (rulesTrace O c all rs).1, ∃ r ∈ rs, ∃ p, ev = Event.can p r c (getAuthenticatedSigners r.signers all)
  | [], ev, h => by simp [rulesTrace] at h
  | r :: rs, ev, h => by
    unfold rulesTrace at h
    by_cases hm : (ruleTrace O c all r).2 = true
    · rw [if_pos hm] at h
      exact ⟨r, by simp, ruleTrace_can O c all r ev h⟩
    · rw [if_neg hm] at h
      cases List.mem_append.mp h with
      | inl m => exact ⟨r, by simp, ruleTrace_can O c all r ev m⟩
      | inr m =>
        obtain ⟨r', hr', hp⟩ := rulesTrace_can O c all rs ev m
        exact ⟨r', List.mem_cons_of_mem _ hr', hp⟩

/-- a `can_enforce` call of the model's trace: a stored rule with exactly its own supplied signers -/
def CanOk (s : Store) (all : List Signer) (ev : Event) : Prop :=
  ∃ p r c, ev = Event.can p r c (getAuthenticatedSigners r.signers all) ∧ getContextRule s r.id = .ok r

theorem ctxsTrace_can {s : Store} (hI : Inv s) (O : Oracle) (now : Nat) (all : List Signer) :
    ∀ (ctxs : List Ctx), ∀ ev ∈ (ctxsTrace O s now all ctxs).1, CanOk s all ev
  | [], ev, h => by simp [ctxsTrace] at h
  | c :: rest, ev, h => by
    have hone : ∀ ev ∈ (ctxTrace O s now all c).1, CanOk s all ev := by
      intro ev hev
      rw [ctxTrace_eq hI] at hev
      obtain ⟨r, hr, p, hp⟩ := rulesTrace_can O c all _ ev hev
      exact ⟨p, r, c, hp, ((mem_validRules hI).mp hr).1⟩
    unfold ctxsTrace at h
    cases hc : (ctxTrace O s now all c).2 with
    | none => rw [hc] at h; exact hone ev h
    | some v =>
      rw [hc] at h
      dsimp only at h
      have hboth : ev ∈ (ctxTrace O s now all c).1 ++ (ctxsTrace O s now all rest).1 := by
        cases hr : (ctxsTrace O s now all rest).2 with
        | none => rw [hr] at h; exact h
        | some vs => rw [hr] at h; exact h
      cases List.mem_append.mp hboth with
      | inl m => exact hone ev m
      | inr m => exact ctxsTrace_can hI O now all rest ev m

theorem enforceTrace_mem (O : Oracle) : ∀ (calls hist : List EnfCall), ∀ ev ∈ (enforceTrace O hist calls).1,
    ∃ c ∈ calls, ev = enfEvent c
  | [], _, ev, h => by simp [enforceTrace] at h
  | c :: rest, hist, ev, h => by
    unfold enforceTrace at h
    by_cases hc : O.enf hist c = true
    · rw [if_pos hc] at h
      cases List.mem_cons.mp h with
      | inl e => exact ⟨c, by simp, e⟩
      | inr m =>
        obtain ⟨c', hc', he⟩ := enforceTrace_mem O rest _ ev m
        exact ⟨c', List.mem_cons_of_mem _ hc', he⟩
    · rw [if_neg hc] at h
      exact ⟨c, by simp, by simpa using h⟩

/-- what the foreign-signer check needs of an event of the model's trace -/
def GoodEv (s : Store) (all : List Signer) : Event → Prop
  | .verify _ _ _ => True
  | .can _ r _ m => getContextRule s r.id = .ok r ∧ m = getAuthenticatedSigners r.signers all
  | .enforce _ r _ m => getContextRule s r.id = .ok r ∧ m = getAuthenticatedSigners r.signers all

theorem callsOf_mem {vs : List (Rule × Ctx × List Signer)} {c : EnfCall} (h : c ∈ callsOf vs) :
    ∃ v ∈ vs, c.rule = v.1 ∧ c.signers = v.2.2 := by
  unfold callsOf at h
  obtain ⟨v, hv, hc⟩ := List.mem_flatMap.mp h
  unfold callsOfOne at hc
  obtain ⟨p, _, hp⟩ := List.mem_map.mp hc
  exact ⟨v, hv, by rw [← hp], by rw [← hp]⟩

/-! ### every event of the model's trace passes the foreign-signer check -/

theorem checkTrace_good {s : Store} (hI : Inv s) (O : Oracle) (now : Nat) (sigs : List (Signer × Nat)) (ctxs : List Ctx) :
    ∀ ev ∈ (checkTrace O s now sigs ctxs).1, GoodEv s (sigs.map Prod.fst) ev := by
  intro ev h
  have hA : ∀ ev ∈ (authTrace O sigs).1, GoodEv s (sigs.map Prod.fst) ev := by
    intro ev hev
    obtain ⟨v, k, g, e⟩ := authTrace_verify O sigs ev hev
    rw [e]; trivial
  have hC : ∀ ev ∈ (ctxsTrace O s now (sigs.map Prod.fst) ctxs).1, GoodEv s (sigs.map Prod.fst) ev := by
    intro ev hev
    obtain ⟨p, r, c, e, hr⟩ := ctxsTrace_can hI O now _ ctxs ev hev
    rw [e]; exact ⟨hr, rfl⟩
  unfold checkTrace at h
  by_cases ha : (authTrace O sigs).2 = true
  · rw [if_pos ha] at h
    cases hc : (ctxsTrace O s now (sigs.map Prod.fst) ctxs).2 with
    | none =>
      rw [hc] at h
      cases List.mem_append.mp h with
      | inl m => exact hA ev m
      | inr m => exact hC ev m
    | some vs =>
      rw [hc] at h
      dsimp only at h
      cases List.mem_append.mp h with
      | inl m =>
        cases List.mem_append.mp m with
        | inl m => exact hA ev m
        | inr m => exact hC ev m
      | inr m =>
        obtain ⟨c, hcm, e⟩ := enforceTrace_mem O _ _ ev m
        obtain ⟨v, hv, h1, h2⟩ := callsOf_mem hcm
        obtain ⟨_, hsig, hst, _⟩ := ctxsTrace_some hI O now _ ctxs vs hc
        rw [e]
        show getContextRule s c.rule.id = .ok c.rule ∧ c.signers = getAuthenticatedSigners c.rule.signers _
        rw [h1, h2]
        exact ⟨hst v hv, hsig v hv⟩
  · rw [if_neg ha] at h; exact hA ev h

theorem foreignEv_good {s : Store} (hI : Inv s) (all : List Signer) (ev : Event) (l : LEv) (hg : GoodEv s all ev)
    (hl : toLEv ev = some l) (hk : l.isC = true ∨ l.isE = true) : foreignEv (allRules s) all l = none := by
  cases ev with
  | verify v k g =>
    simp only [toLEv] at hl
    by_cases hv : v ≥ 2
    · rw [if_pos hv] at hl; cases hl
    · rw [if_neg hv] at hl; injection hl with hl; subst hl
      cases hk with
      | inl h => cases h
      | inr h => cases h
  | can p r c m =>
    simp only [toLEv] at hl; injection hl with hl; subst hl
    obtain ⟨hst, hm⟩ := hg
    show foreignSg (allRules s) all _ r.id m = none
    unfold foreignSg
    rw [allRules_find hI hst]
    simp only
    rw [counted_toG, hm]; simp
  | enforce p r c m =>
    simp only [toLEv] at hl; injection hl with hl; subst hl
    obtain ⟨hst, hm⟩ := hg
    show foreignSg (allRules s) all _ r.id m = none
    unfold foreignSg
    rw [allRules_find hI hst]
    simp only
    rw [counted_toG, hm]; simp

theorem foreign_quiet {s : Store} (hI : Inv s) (all : List Signer) (tr : List Event)
    (h : ∀ ev ∈ tr, GoodEv s all ev) : foreign (allRules s) all (tr.filterMap toLEv) = none := by
  unfold foreign
  rw [List.findSome?_eq_none_iff]
  intro l hl
  have : l ∈ tr.filterMap toLEv ∧ (l.isC = true ∨ l.isE = true) := by
    cases List.mem_append.mp hl with
    | inl m => rw [List.mem_filter] at m; exact ⟨m.1, Or.inl m.2⟩
    | inr m => rw [List.mem_filter] at m; exact ⟨m.1, Or.inr m.2⟩
  obtain ⟨hm, hk⟩ := this
  obtain ⟨ev, hev, hle⟩ := List.mem_filterMap.mp hm
  exact foreignEv_good hI all ev l (h ev hev) hle hk

/-! ### splitting a log by the kind of its entries -/

def OnlyV (l : List LEv) : Prop := ∀ x ∈ l, ∃ v k g, x = LEv.v v k g
def OnlyC (l : List LEv) : Prop := ∀ x ∈ l, ∃ p rid c sg, x = LEv.c p rid c sg
def OnlyE (l : List LEv) : Prop := ∀ x ∈ l, ∃ p rid c sg, x = LEv.e p rid c sg

theorem filter_all_true {α} (p : α → Bool) (l : List α) (h : ∀ x ∈ l, p x = true) : l.filter p = l :=
  List.filter_eq_self.mpr h

theorem filter_all_false {α} (p : α → Bool) (l : List α) (h : ∀ x ∈ l, p x = false) : l.filter p = [] := by
  rw [List.filter_eq_nil_iff]
  intro x hx; rw [h x hx]; simp

theorem OnlyV.filters {l : List LEv} (h : OnlyV l) :
    l.filter LEv.isV = l ∧ l.filter LEv.isC = [] ∧ l.filter LEv.isE = [] := by
  refine ⟨filter_all_true _ _ ?_, filter_all_false _ _ ?_, filter_all_false _ _ ?_⟩ <;>
  · intro x hx; obtain ⟨v, k, g, e⟩ := h x hx; rw [e]; rfl

theorem OnlyC.filters {l : List LEv} (h : OnlyC l) :
    l.filter LEv.isV = [] ∧ l.filter LEv.isC = l ∧ l.filter LEv.isE = [] := by
  refine ⟨filter_all_false _ _ ?_, filter_all_true _ _ ?_, filter_all_false _ _ ?_⟩ <;>
  · intro x hx; obtain ⟨p, rid, c, sg, e⟩ := h x hx; rw [e]; rfl

theorem OnlyE.filters {l : List LEv} (h : OnlyE l) :
    l.filter LEv.isV = [] ∧ l.filter LEv.isC = [] ∧ l.filter LEv.isE = l := by
  refine ⟨filter_all_false _ _ ?_, filter_all_false _ _ ?_, filter_all_true _ _ ?_⟩ <;>
  · intro x hx; obtain ⟨p, rid, c, sg, e⟩ := h x hx; rw [e]; rfl

theorem onlyV_expVerif (sigs : List (Signer × Nat)) : OnlyV (sigs.filterMap expVerif) := by
  intro x hx
  obtain ⟨sg, _, h⟩ := List.mem_filterMap.mp hx
  unfold expVerif at h
  cases hs : sg.1 with
  | delegated a => rw [hs] at h; cases h
  | external v k =>
    rw [hs] at h
    dsimp only at h
    by_cases hv : v ≥ 2
    · rw [if_pos hv] at h; cases h
    · rw [if_neg hv] at h; injection h with h; exact ⟨v, k, sg.2, h.symm⟩

theorem onlyC_of_can {s : Store} {all : List Signer} (tr : List Event) (h : ∀ ev ∈ tr, CanOk s all ev) :
    OnlyC (tr.filterMap toLEv) := by
  intro x hx
  obtain ⟨ev, hev, hl⟩ := List.mem_filterMap.mp hx
  obtain ⟨p, r, c, e, _⟩ := h ev hev
  rw [e] at hl
  simp only [toLEv] at hl
  injection hl with hl
  exact ⟨p, r.id, c, _, hl.symm⟩

theorem onlyE_enf (calls : List EnfCall) : OnlyE ((calls.map enfEvent).filterMap toLEv) := by
  intro x hx
  obtain ⟨ev, hev, hl⟩ := List.mem_filterMap.mp hx
  obtain ⟨c, _, e⟩ := List.mem_map.mp hev
  rw [← e] at hl
  simp only [enfEvent, toLEv] at hl
  injection hl with hl
  exact ⟨_, _, _, _, hl.symm⟩

/-! ### signatures and enforce budgets -/

theorem allValid_iff (m : Mocks) (auth : List Nat) (sigs : List (Signer × Nat)) :
    allValid m auth sigs = true ↔ authenticate (oracleOf m auth) sigs = .ok () := by
  unfold allValid
  rw [authenticate_ok_iff, List.all_eq_true]
  constructor
  · intro h x g hm
    have := h (x, g) hm
    rw [sigValid_eq] at this; exact this
  · intro h sg hm
    rw [sigValid_eq]; exact h sg.1 sg.2 hm

theorem enforceAllowed_iff (m : Mocks) (auth : List Nat) : ∀ (calls hist : List EnfCall),
    enforceAllowed m (hist.map (·.policy)) (calls.map (·.policy)) = true ↔
      enforceLoop (oracleOf m auth) hist calls = .ok ()
  | [], hist => by simp [enforceAllowed, enforceLoop]
  | c :: rest, hist => by
    rw [List.map_cons]
    unfold enforceAllowed enforceLoop
    have hcount : countBefore (hist.map (·.policy)) c.policy = (hist.filter (fun h => h.policy == c.policy)).length := by
      unfold countBefore
      rw [List.filter_map, List.length_map]
      rfl
    have henf : (oracleOf m auth).enf hist c = m.enfOk c.policy (countBefore (hist.map (·.policy)) c.policy) := by
      rw [hcount]; rfl
    rw [henf]
    by_cases hb : m.enfOk c.policy (countBefore (hist.map (·.policy)) c.policy) = true
    · rw [if_pos hb, hb, Bool.true_and]
      have := enforceAllowed_iff m auth rest (hist ++ [c])
      rw [List.map_append] at this
      exact this
    · rw [if_neg hb]
      have hb' : m.enfOk c.policy (countBefore (hist.map (·.policy)) c.policy) = false := by simpa using hb
      rw [hb']; simp

/-! ### the verdict on a check -/

theorem expCans_eq {s : Store} (hI : Inv s) (now : Nat) (m : Mocks) (auth : List Nat) (all : List Signer) :
    ∀ (ctxs : List Ctx), expCans { rules := allRules s, now := now, mocks := m } all ctxs
      = (ctxs.flatMap (fun c => (rulesTrace (oracleOf m auth) c all (validRules s now (typeOf c))).1)).filterMap toLEv
  | [] => rfl
  | c :: rest => by
    have ih := expCans_eq hI now m auth all rest
    unfold expCans at ih ⊢
    rw [List.flatMap_cons, List.flatMap_cons, List.filterMap_append, ih]
    congr 1
    show expectedCans m c all (candidates (allRules s) now c) = _
    rw [candidates_eq hI, expectedCans_toG m auth]

theorem checkTrace_ok {O : Oracle} {s : Store} {now : Nat} {sigs : List (Signer × Nat)} {ctxs : List Ctx}
    {vs : List (Rule × Ctx × List Signer)} (ha : authenticate O sigs = .ok ())
    (hv : validateAll O s now (sigs.map Prod.fst) ctxs = .ok vs) (he : enforceLoop O [] (callsOf vs) = .ok ()) :
    (checkTrace O s now sigs ctxs).1
      = (authTrace O sigs).1 ++ (ctxsTrace O s now (sigs.map Prod.fst) ctxs).1 ++ (callsOf vs).map enfEvent := by
  have hA : (authTrace O sigs).2 = true := by rw [authTrace_snd, ha]; rfl
  have hC : (ctxsTrace O s now (sigs.map Prod.fst) ctxs).2 = some vs := by rw [ctxsTrace_snd, hv]; rfl
  have hE : (enforceTrace O [] (callsOf vs)).2 = true := by rw [enforceTrace_snd, he]; rfl
  unfold checkTrace
  rw [if_pos hA, hC]
  dsimp only
  rw [enforceTrace_ok O [] _ hE]

theorem checkAuthMon_quiet {s : Store} (hI : Inv s) (now : Nat) (m : Mocks) (sigs : List (Signer × Nat))
    (auth : List Nat) (ctxs : List Ctx) (o : Obs)
    (hok : o.ok = (doCheckAuth (oracleOf m auth) s now sigs ctxs).toBool)
    (hlog : o.log = (checkTrace (oracleOf m auth) s now sigs ctxs).1.filterMap toLEv) :
    checkAuthMon { rules := allRules s, now := now, mocks := m } sigs auth ctxs o = none := by
  have hfor : foreign (allRules s) (sigs.map Prod.fst) o.log = none := by
    rw [hlog]; exact foreign_quiet hI _ _ (checkTrace_good hI _ now sigs ctxs)
  have hchosen := chosenOf_eq hI now m auth (sigs.map Prod.fst) ctxs
  unfold checkAuthMon
  unfold doCheckAuth at hok
  cases ha : authenticate (oracleOf m auth) sigs with
  | error e =>
    rw [ha] at hok
    rw [if_neg (by rw [hok]; simp [Except.toBool])]
    unfold verdictErr
    have hv : allValid m auth sigs = false := by
      cases hq : allValid m auth sigs with
      | false => rfl
      | true => rw [(allValid_iff m auth sigs).mp hq] at ha; cases ha
    rw [if_neg (by simp [hv]), if_neg (by simp [hfor])]
  | ok u =>
    rw [ha] at hok
    dsimp only at hok
    have hvalid : allValid m auth sigs = true := (allValid_iff m auth sigs).mpr ha
    cases hv : validateAll (oracleOf m auth) s now (sigs.map Prod.fst) ctxs with
    | error e =>
      rw [hv] at hok
      rw [if_neg (by rw [hok]; simp [Except.toBool])]
      unfold verdictErr
      have hC : (ctxsTrace (oracleOf m auth) s now (sigs.map Prod.fst) ctxs).2 = none := by rw [ctxsTrace_snd, hv]; rfl
      obtain ⟨c, hc, hn⟩ := ctxsTrace_none hI _ now _ ctxs hC
      have hcov : covered (chosenOf { rules := allRules s, now := now, mocks := m } (sigs.map Prod.fst) ctxs) = false := by
        rw [hchosen]; exact covered_false_of_none _ ctxs c hc hn
      rw [if_neg (by simp [hcov]), if_neg (by simp [hfor])]
    | ok vs =>
      rw [hv] at hok
      dsimp only at hok
      have hC : (ctxsTrace (oracleOf m auth) s now (sigs.map Prod.fst) ctxs).2 = some vs := by rw [ctxsTrace_snd, hv]; rfl
      obtain ⟨hmap, hsig, hst, hctr⟩ := ctxsTrace_some hI _ now _ ctxs vs hC
      have hch : chosenOf { rules := allRules s, now := now, mocks := m } (sigs.map Prod.fst) ctxs
          = vs.map (fun v => (v.2.1, some (toG v.1))) := by rw [hchosen, hmap]
      unfold finishCheck at hok
      cases he : enforceLoop (oracleOf m auth) [] (callsOf vs) with
      | error e =>
        rw [he] at hok
        rw [if_neg (by rw [hok]; simp [Except.toBool])]
        unfold verdictErr
        have hen : enforceAllowed m [] (expEnforcePols (chosenOf { rules := allRules s, now := now, mocks := m } (sigs.map Prod.fst) ctxs)) = false := by
          rw [hch, ← enforce_pols]
          cases hq : enforceAllowed m [] ((callsOf vs).map (·.policy)) with
          | false => rfl
          | true =>
            have := (enforceAllowed_iff m auth (callsOf vs) []).mp hq
            rw [this] at he; cases he
        rw [if_neg (by simp [hen]), if_neg (by simp [hfor])]
      | ok u2 =>
        rw [he] at hok
        rw [if_pos (by rw [hok]; rfl)]
        -- the log in three parts
        have hlog' : o.log = sigs.filterMap expVerif
            ++ expCans { rules := allRules s, now := now, mocks := m } (sigs.map Prod.fst) ctxs
            ++ expEnforce (sigs.map Prod.fst) (vs.map (fun v => (v.2.1, some (toG v.1)))) := by
          rw [hlog, checkTrace_ok ha hv he, List.filterMap_append, List.filterMap_append,
            authTrace_log m auth sigs (by rw [authTrace_snd, ha]; rfl), enforce_log _ vs hsig,
            expCans_eq hI now m auth, hctr]
        have hV := (onlyV_expVerif sigs).filters
        have hCo : OnlyC (expCans { rules := allRules s, now := now, mocks := m } (sigs.map Prod.fst) ctxs) := by
          rw [expCans_eq hI now m auth, ← hctr]
          exact onlyC_of_can _ (ctxsTrace_can hI _ now _ ctxs)
        have hCf := hCo.filters
        have hEo : OnlyE (expEnforce (sigs.map Prod.fst) (vs.map (fun v => (v.2.1, some (toG v.1))))) := by
          rw [← enforce_log _ vs hsig]; exact onlyE_enf _
        have hEf := hEo.filters
        unfold verdictOk
        rw [if_neg (by simp [hvalid])]
        rw [if_neg (by
          rw [hlog', List.filter_append, List.filter_append, hV.1, hCf.1, hEf.1]; simp)]
        rw [if_neg (by rw [hch, covered_of_some]; simp)]
        rw [if_neg (by simp [hfor])]
        rw [if_neg (by
          rw [hlog', List.filter_append, List.filter_append, hV.2.2, hCf.2.2, hEf.2.2, hch]; simp)]
        rw [if_neg (by
          rw [hlog', List.filter_append, List.filter_append, hV.2.1, hCf.2.1, hEf.2.1]; simp)]
        have hen : enforceAllowed m [] (expEnforcePols (chosenOf { rules := allRules s, now := now, mocks := m } (sigs.map Prod.fst) ctxs)) = true := by
          rw [hch, ← enforce_pols]
          exact (enforceAllowed_iff m auth (callsOf vs) []).mpr he
        rw [if_neg (by simp [hen])]

/-! ### the enforce calls an accepted check reports (budgets of the mock policies) -/

theorem onlyV_auth (O : Oracle) (sigs : List (Signer × Nat)) : OnlyV ((authTrace O sigs).1.filterMap toLEv) := by
  intro x hx
  obtain ⟨ev, hev, hl⟩ := List.mem_filterMap.mp hx
  obtain ⟨v, k, g, e⟩ := authTrace_verify O sigs ev hev
  rw [e] at hl
  simp only [toLEv] at hl
  by_cases hv : v ≥ 2
  · rw [if_pos hv] at hl; cases hl
  · rw [if_neg hv] at hl; injection hl with hl; exact ⟨v, k, g, hl.symm⟩

theorem log_enforce_ok {s : Store} (hI : Inv s) {O : Oracle} {now : Nat} {sigs : List (Signer × Nat)} {ctxs : List Ctx}
    {calls : List EnfCall} (h : doCheckAuth O s now sigs ctxs = .ok calls) :
    ((checkTrace O s now sigs ctxs).1.filterMap toLEv).filter LEv.isE = (calls.map enfEvent).filterMap toLEv := by
  unfold doCheckAuth at h
  cases ha : authenticate O sigs with
  | error e => rw [ha] at h; cases h
  | ok u =>
    rw [ha] at h; dsimp only at h
    cases hv : validateAll O s now (sigs.map Prod.fst) ctxs with
    | error e => rw [hv] at h; cases h
    | ok vs =>
      rw [hv] at h; dsimp only at h
      unfold finishCheck at h
      cases he : enforceLoop O [] (callsOf vs) with
      | error e => rw [he] at h; cases h
      | ok u2 =>
        rw [he] at h; dsimp only at h
        injection h with h; subst h
        rw [checkTrace_ok ha hv he, List.filterMap_append, List.filterMap_append, List.filter_append, List.filter_append,
          (onlyV_auth O sigs).filters.2.2, (onlyC_of_can _ (ctxsTrace_can hI O now _ ctxs)).filters.2.2,
          (onlyE_enf _).filters.2.2]
        rfl

theorem pols_of_enforce_log (calls : List EnfCall) :
    ((calls.map enfEvent).filterMap toLEv).filterMap polOfLEv = calls.map (·.policy) := by
  induction calls with
  | nil => rfl
  | cons c t ih =>
    rw [List.map_cons, List.filterMap_cons_some (by rfl : toLEv (enfEvent c) = some (LEv.e c.policy c.rule.id c.ctx c.signers)),
      List.filterMap_cons_some (by rfl : polOfLEv (LEv.e c.policy c.rule.id c.ctx c.signers) = some c.policy), ih, List.map_cons]

end OZ.SmartAccount.Mon
