import OZ.Lemmas.Votes
/-
Helper lemmas for the two token wrappers over the votes library: what the base token does
to balances, what `transfer_voting_units` does to units, and the refinement of a wrapper
history to a library-level history.
-/
namespace OZ.Votes
open OZ.Host

/-- `transfer_voting_units` as a balance equation on the units of every account -/
theorem units_transfer {s s' : State} {f t : Option Nat} {n : Nat}
    (h : transferVotingUnits s f t n = .ok s') (x : Nat) :
    s'.units x + ind f x n = s.units x + ind t x n ∧ ind f x n ≤ s.units x := by
  rcases transferVotingUnits_ok h with ⟨h0, he⟩ | ⟨_, s1, s2, h1, h2, h3⟩
  · subst he; subst h0; simp [ind]
  · obtain ⟨_, _, _, m1⟩ := debitUnits_ok h1
    obtain ⟨_, _, _, m2⟩ := creditUnits_ok h2
    obtain ⟨u3, _, _, _, _⟩ := moveDelegateVotes_ok h3
    rw [u3]
    have e1 : s1.units x + ind f x n = s.units x ∧ ind f x n ≤ s.units x := by
      cases f with
      | none => rw [m1.1]; simp [ind]
      | some a =>
        obtain ⟨hle, hu, _⟩ := m1
        rw [hu]; simp only [ind]
        by_cases hxa : a = x
        · subst hxa; rw [upd_same, if_pos rfl]; omega
        · rw [upd_other _ _ _ _ (Ne.symm hxa), if_neg (by intro e; injection e with e; exact hxa e)]; omega
    have e2 : s2.units x = s1.units x + ind t x n := by
      cases t with
      | none => rw [m2.1]; simp [ind]
      | some b =>
        obtain ⟨hu, _⟩ := m2
        rw [hu]; simp only [ind]
        by_cases hxb : b = x
        · subst hxb; rw [upd_same, if_pos rfl]
        · rw [upd_other _ _ _ _ (Ne.symm hxb), if_neg (by intro e; injection e with e; exact hxb e)]; omega
    omega

theorem delegate_units {s s' : State} {auth : List Nat} {a d : Nat} (h : delegate s auth a d = .ok s') :
    s'.units = s.units := by
  obtain ⟨_, _, hm⟩ := delegate_ok h
  obtain ⟨u3, _, _, _, _⟩ := moveDelegateVotes_ok hm
  exact u3

/-- what a wrapper asks of the library is exactly a library-level history -/
theorem act_refines {v v' : State} {auth : List Nat} {a : Act} (h : act v auth a = .ok v') :
    run v (a.ops auth) = v' := by
  cases a with
  | nothing => injection h with h
  | move f t n => simp only [Act.ops, run, List.foldl_cons, List.foldl_nil, step, apply]; simp only [act] at h; rw [h]
  | delegate x d => simp only [Act.ops, run, List.foldl_cons, List.foldl_nil, step, apply]; simp only [act] at h; rw [h]
  | advance n => injection h with h

theorem run_append (s : State) (xs ys : List (List Nat × Op)) : run s (xs ++ ys) = run (run s xs) ys := by
  simp [run, List.foldl_append]

theorem act_units {v v' : State} {auth : List Nat} {a : Act} (h : act v auth a = .ok v') (x : Nat) :
    match a with
    | .move f t n => v'.units x + ind f x n = v.units x + ind t x n ∧ ind f x n ≤ v.units x
    | _ => v'.units x = v.units x := by
  cases a with
  | nothing => injection h with h; subst h; rfl
  | move f t n => exact units_transfer h x
  | delegate a d => simp only; rw [delegate_units h]
  | advance n => injection h with h; subst h; rfl

end OZ.Votes

namespace OZ.Fungible
open OZ.Host

/-- `Int` indicator -/
def indI (o : Option Nat) (x : Nat) (amt : Int) : Int := if o = some x then amt else 0

/-- `Base::update` as a balance equation on every account -/
theorem update_bal {s s' : State} {f t : Option Nat} {amt : Int} (h : update s f t amt = .ok s') (x : Nat) :
    s'.bal x = s.bal x - indI f x amt + indI t x amt := by
  obtain ⟨h0, s1, hd, hc⟩ := update_ok h
  obtain ⟨-, -, -, hd4⟩ := debit_ok hd
  obtain ⟨-, -, -, hc4⟩ := credit_ok hc
  have e2 : s'.bal x = s1.bal x + indI t x amt := by
    cases t with
    | none => rw [hc4.2.1]; simp [indI]
    | some b =>
      rw [hc4.2.1]; simp only [indI]
      by_cases hxb : b = x
      · subst hxb; rw [upd_same, if_pos rfl]
      · rw [upd_other _ _ _ _ (Ne.symm hxb), if_neg (by intro e; injection e with e; exact hxb e)]; omega
  cases f with
  | none => rw [e2, hd4.2.2]; simp [indI]
  | some a =>
    obtain ⟨hge, _, hb⟩ := hd4
    rw [hb] at e2
    simp only [indI] at e2 ⊢
    by_cases hxa : a = x
    · subst hxa; rw [upd_same] at e2; rw [if_pos rfl]; omega
    · rw [upd_other _ _ _ _ (Ne.symm hxa)] at e2
      rw [if_neg (by intro e; injection e with e; exact hxa e)]
      omega

end OZ.Fungible

namespace OZ.FungibleVotes
open OZ.Host OZ.Votes OZ.Fungible

theorem map_ok {ε α β} {x : Except ε α} {g : α → β} {y : β} (h : x.map g = .ok y) :
    ∃ a, x = .ok a ∧ g a = y := by
  cases x with
  | error e => cases h
  | ok a => injection h with h; exact ⟨a, rfl, h⟩

/-- the token half of an entry point: either balances move by `amt` from `f` to `t` and the
library is asked to move `amt` units the same way, or balances stay and units stay -/
theorem base_effect {c : Cfg} {tok tok' : OZ.Fungible.State} {auth : List Nat} {op : Op} {a : Act}
    (h : base c tok auth op = .ok (tok', a)) :
    (∃ f t amt, a = moveAct f t amt ∧ 0 ≤ amt ∧
      (∀ x, tok'.bal x = tok.bal x - indI f x amt + indI t x amt) ∧
      (∀ y, f = some y → y ∈ op.addrs) ∧ (∀ y, t = some y → y ∈ op.addrs)) ∨
    (tok'.bal = tok.bal ∧ (a = .nothing ∨ (∃ x d, a = .delegate x d ∧ op = .delegate x d) ∨
      ∃ n, a = .advance n)) := by
  have key : ∀ (s1 s2 : OZ.Fungible.State) (f t : Option Nat) (amt : Int),
      update s1 f t amt = .ok s2 → tok.bal = s1.bal → tok'.bal = s2.bal →
      (∀ x, tok'.bal x = tok.bal x - indI f x amt + indI t x amt) ∧ 0 ≤ amt := by
    intro s1 s2 f t amt hu e1 e2
    refine ⟨fun x => ?_, (update_ok hu).1⟩
    rw [e1, e2]
    exact update_bal hu x
  cases op with
  | mint t amt =>
    obtain ⟨s2, hm, he⟩ := map_ok h
    injection he with he1 he2; subst he1; subst he2
    obtain ⟨s1, h1, h2⟩ := bind_eq_ok hm
    injection h2 with h2; subst h2
    obtain ⟨k1, k2⟩ := key tok s1 none (some t) amt h1 rfl rfl
    exact .inl ⟨none, some t, amt, rfl, k2, k1, (by intro y e; cases e), (by intro y e; cases e; simp [Op.addrs])⟩
  | transfer f t amt =>
    obtain ⟨s2, hm, he⟩ := map_ok h
    injection he with he1 he2; subst he1; subst he2
    obtain ⟨_, _, hm⟩ := bind_eq_ok hm
    obtain ⟨s1, h1, h2⟩ := bind_eq_ok hm
    injection h2 with h2; subst h2
    obtain ⟨k1, k2⟩ := key tok s1 (some f) (some t) amt h1 rfl rfl
    exact .inl ⟨some f, some t, amt, rfl, k2, k1, (by intro y e; cases e; simp [Op.addrs]),
      (by intro y e; cases e; simp [Op.addrs])⟩
  | transferFrom sp f t amt =>
    obtain ⟨s2, hm, he⟩ := map_ok h
    injection he with he1 he2; subst he1; subst he2
    obtain ⟨_, _, hm⟩ := bind_eq_ok hm
    obtain ⟨s0, h0, hm⟩ := bind_eq_ok hm
    obtain ⟨s1, h1, h2⟩ := bind_eq_ok hm
    injection h2 with h2; subst h2
    obtain ⟨-, eb, -, -, -⟩ := spendAllowance_ok h0
    obtain ⟨k1, k2⟩ := key s0 s1 (some f) (some t) amt h1 eb.symm rfl
    exact .inl ⟨some f, some t, amt, rfl, k2, k1, (by intro y e; cases e; simp [Op.addrs]),
      (by intro y e; cases e; simp [Op.addrs])⟩
  | approve o sp amt lu =>
    obtain ⟨s2, hm, he⟩ := map_ok h
    injection he with he1 he2; subst he1; subst he2
    obtain ⟨_, _, hm⟩ := bind_eq_ok hm
    obtain ⟨s0, h0, h2⟩ := bind_eq_ok hm
    injection h2 with h2; subst h2
    obtain ⟨-, eb, -, -, -⟩ := setAllowance_ok h0
    exact .inr ⟨eb, .inl rfl⟩
  | burn f amt =>
    obtain ⟨s2, hm, he⟩ := map_ok h
    injection he with he1 he2; subst he1; subst he2
    obtain ⟨_, _, hm⟩ := bind_eq_ok hm
    obtain ⟨s1, h1, h2⟩ := bind_eq_ok hm
    injection h2 with h2; subst h2
    obtain ⟨k1, k2⟩ := key tok s1 (some f) none amt h1 rfl rfl
    exact .inl ⟨some f, none, amt, rfl, k2, k1, (by intro y e; cases e; simp [Op.addrs]), (by intro y e; cases e)⟩
  | burnFrom sp f amt =>
    obtain ⟨s2, hm, he⟩ := map_ok h
    injection he with he1 he2; subst he1; subst he2
    obtain ⟨_, _, hm⟩ := bind_eq_ok hm
    obtain ⟨s0, h0, hm⟩ := bind_eq_ok hm
    obtain ⟨s1, h1, h2⟩ := bind_eq_ok hm
    injection h2 with h2; subst h2
    obtain ⟨-, eb, -, -, -⟩ := spendAllowance_ok h0
    obtain ⟨k1, k2⟩ := key s0 s1 (some f) none amt h1 eb.symm rfl
    exact .inl ⟨some f, none, amt, rfl, k2, k1, (by intro y e; cases e; simp [Op.addrs]), (by intro y e; cases e)⟩
  | delegate x d =>
    injection h with h; injection h with h1 h2; subst h1; subst h2
    exact .inr ⟨rfl, .inr (.inl ⟨x, d, rfl, rfl⟩)⟩
  | advance n =>
    injection h with h; injection h with h1 h2; subst h1; subst h2
    exact .inr ⟨rfl, .inr (.inr ⟨n, rfl⟩)⟩

theorem apply_ok {c : Cfg} {s s' : State} {auth : List Nat} {op : Op} (h : apply c s auth op = .ok s') :
    ∃ a, base c s.tok auth op = .ok (s'.tok, a) ∧ act s.v auth a = .ok s'.v := by
  unfold apply at h
  split at h
  · cases h
  · rename_i tok a hb
    split at h
    · cases h
    · rename_i v hv
      injection h with h; subst h
      exact ⟨a, hb, hv⟩

/-- one successful entry point keeps `units = balance` for every account -/
theorem apply_units {c : Cfg} {s s' : State} {auth : List Nat} {op : Op}
    (hu : ∀ x, (s.v.units x : Int) = s.tok.bal x) (h : apply c s auth op = .ok s') :
    ∀ x, (s'.v.units x : Int) = s'.tok.bal x := by
  obtain ⟨a, hb, ha⟩ := apply_ok h
  intro x
  have hux := hu x
  rcases base_effect hb with ⟨f, t, amt, hm, h0, hbal, _, _⟩ | ⟨hbal, hk⟩
  · have hb1 := hbal x
    subst hm
    unfold moveAct at ha
    by_cases hpos : amt > 0
    · rw [if_pos hpos] at ha
      obtain ⟨e1, e2⟩ := units_transfer ha x
      simp only [indI] at hb1; simp only [ind] at e1 e2
      by_cases hf : f = some x <;> by_cases ht : t = some x <;>
        simp only [hf, ht, if_true, if_false] at hb1 e1 e2 <;> omega
    · rw [if_neg hpos] at ha
      injection ha with ha
      have : amt = 0 := by omega
      subst this
      rw [← ha, hb1]; simp [indI]; exact hux
  · rw [hbal]
    have := act_units ha x
    rcases hk with hk | ⟨y, d, hk, _⟩ | ⟨n, hk⟩ <;> subst hk <;> simp only at this <;> rw [this] <;> exact hux

theorem step_refines (c : Cfg) (s : State) (x : List Nat × Op) :
    (step c s x).v = OZ.Votes.run s.v (vops c s x) := by
  unfold step vops
  cases h : apply c s x.1 x.2 with
  | error e => rfl
  | ok s' =>
    obtain ⟨a, hb, ha⟩ := apply_ok h
    simp only [hb]
    exact (act_refines ha).symm

theorem run_refines (c : Cfg) (s : State) (ops : List (List Nat × Op)) :
    (run c s ops).v = OZ.Votes.run s.v (vtrace c s ops) := by
  induction ops generalizing s with
  | nil => rfl
  | cons x xs ih =>
    simp only [run, List.foldl_cons, vtrace]
    rw [run_append, ← step_refines]
    exact ih (step c s x)

/-- the library-level operations of an entry point mention only its own accounts -/
theorem vops_addrs (c : Cfg) (s : State) (x : List Nat × Op) :
    ∀ y ∈ vops c s x, ∀ a ∈ y.2.addrs, a ∈ x.2.addrs := by
  unfold vops
  cases h : apply c s x.1 x.2 with
  | error e => intro y hy; cases hy
  | ok s' =>
    obtain ⟨a, hb, ha⟩ := apply_ok h
    simp only [hb]
    rcases base_effect hb with ⟨f, t, amt, hm, _, _, hf, ht⟩ | ⟨_, hk⟩
    · subst hm
      unfold moveAct
      split
      · intro y hy
        simp only [Act.ops, List.mem_singleton] at hy; subst hy
        intro z hz
        simp only [OZ.Votes.Op.addrs, List.mem_append, Option.mem_toList] at hz
        rcases hz with hz | hz
        · exact hf z hz
        · exact ht z hz
      · intro y hy; cases hy
    · rcases hk with hk | ⟨y, d, hk, hop⟩ | ⟨n, hk⟩ <;> subst hk
      · intro y hy; cases hy
      · intro z hz
        simp only [Act.ops, List.mem_singleton] at hz; subst hz
        rw [hop]; intro w hw; exact hw
      · intro z hz
        simp only [Act.ops, List.mem_singleton] at hz; subst hz
        intro w hw; cases hw

theorem vtrace_addrs (c : Cfg) (U : List Nat) (s : State) (ops : List (List Nat × Op))
    (hU : ∀ x ∈ ops, ∀ a ∈ x.2.addrs, a ∈ U) :
    ∀ y ∈ vtrace c s ops, ∀ a ∈ y.2.addrs, a ∈ U := by
  induction ops generalizing s with
  | nil => intro y hy; cases hy
  | cons x xs ih =>
    intro y hy a ha
    simp only [vtrace, List.mem_append] at hy
    rcases hy with hy | hy
    · exact hU x List.mem_cons_self a (vops_addrs c s x y hy a ha)
    · exact ih (step c s x) (fun z hz => hU z (List.mem_cons_of_mem _ hz)) y hy a ha

end OZ.FungibleVotes

namespace OZ.NonFungibleVotes
open OZ.Host OZ.Votes

theorem map_ok {ε α β} {x : Except ε α} {g : α → β} {y : β} (h : x.map g = .ok y) :
    ∃ a, x = .ok a ∧ g a = y := by
  cases x with
  | error e => cases h
  | ok a => injection h with h; exact ⟨a, rfl, h⟩

/-- `Base::update` of the non-fungible token as a balance equation -/
theorem update_bal {n n' : Nft} {f t : Option Nat} {id : Nat} (h : update n f t id = .ok n') (x : Nat) :
    n'.bal x + ind f x 1 = n.bal x + ind t x 1 ∧ ind f x 1 ≤ n.bal x := by
  unfold update at h
  split at h
  · cases h
  · rename_i n1 h1
    have e1 : n1.bal x + ind f x 1 = n.bal x ∧ ind f x 1 ≤ n.bal x := by
      unfold updateFrom at h1
      cases f with
      | none => simp only at h1; injection h1 with h1; subst h1; simp [ind]
      | some a =>
        simp only at h1
        split at h1
        · cases h1
        · split at h1
          · cases h1
          · split at h1
            · cases h1
            · injection h1 with h1; subst h1
              simp only [ind]
              by_cases hxa : a = x
              · subst hxa; rw [upd_same, if_pos rfl]; omega
              · rw [upd_other _ _ _ _ (Ne.symm hxa), if_neg (by intro e; injection e with e; exact hxa e)]; omega
    have e2 : n'.bal x = n1.bal x + ind t x 1 := by
      unfold updateTo at h
      cases t with
      | none => simp only at h; injection h with h; subst h; simp [ind]
      | some b =>
        simp only at h
        split at h
        · injection h with h; subst h
          simp only [ind]
          by_cases hxb : b = x
          · subst hxb; rw [upd_same, if_pos rfl]
          · rw [upd_other _ _ _ _ (Ne.symm hxb), if_neg (by intro e; injection e with e; exact hxb e)]; omega
        · cases h
    omega

theorem baseMove_ok {n n' : Nft} {auth : List Nat} {f : Nat} {t : Option Nat} {id : Nat}
    (h : baseMove n auth f t id = .ok n') : update n (some f) t id = .ok n' := by
  unfold baseMove at h
  split at h
  · cases h
  · exact h

theorem baseMoveFrom_ok {n n' : Nft} {auth : List Nat} {sp f : Nat} {t : Option Nat} {id : Nat}
    (h : baseMoveFrom n auth sp f t id = .ok n') : update n (some f) t id = .ok n' := by
  unfold baseMoveFrom at h
  split at h
  · cases h
  · exact h

theorem baseApprove_bal {c : Cfg} {n n' : Nft} {auth : List Nat} {a b id lu : Nat}
    (h : baseApprove c n auth a b id lu = .ok n') : n'.bal = n.bal := by
  unfold baseApprove at h
  split at h
  · cases h
  · split at h
    · cases h
    · split at h
      · cases h
      · split at h
        · injection h with h; subst h; rfl
        · split at h
          · cases h
          · split at h
            · cases h
            · injection h with h; subst h; rfl

theorem baseApproveForAll_bal {c : Cfg} {n n' : Nft} {auth : List Nat} {o p lu : Nat}
    (h : baseApproveForAll c n auth o p lu = .ok n') : n'.bal = n.bal := by
  unfold baseApproveForAll at h
  split at h
  · cases h
  · split at h
    · injection h with h; subst h; rfl
    · split at h
      · cases h
      · split at h
        · cases h
        · injection h with h; subst h; rfl

/-- the token half of an entry point: one token moves from `f` to `t` and the library is
asked to move one unit the same way, or balances stay and units stay -/
theorem base_effect {c : Cfg} {n n' : Nft} {auth : List Nat} {op : Op} {a : Act}
    (h : base c n auth op = .ok (n', a)) :
    (∃ f t, a = .move f t 1 ∧ (∀ x, n'.bal x + ind f x 1 = n.bal x + ind t x 1 ∧ ind f x 1 ≤ n.bal x) ∧
      (∀ y, f = some y → y ∈ op.addrs) ∧ (∀ y, t = some y → y ∈ op.addrs)) ∨
    (n'.bal = n.bal ∧ (a = .nothing ∨ (∃ x d, a = .delegate x d ∧ op = .delegate x d) ∨
      ∃ k, a = .advance k)) := by
  cases op with
  | mint t id =>
    obtain ⟨n2, hm, he⟩ := map_ok h
    injection he with he1 he2; subst he1; subst he2
    exact .inl ⟨none, some t, rfl, fun x => update_bal hm x, (by intro y e; cases e),
      (by intro y e; cases e; simp [Op.addrs])⟩
  | sequentialMint t =>
    obtain ⟨n2, hm, he⟩ := map_ok h
    injection he with he1 he2; subst he1; subst he2
    unfold baseSequentialMint at hm
    split at hm
    · exact .inl ⟨none, some t, rfl, fun x => update_bal hm x, (by intro y e; cases e),
        (by intro y e; cases e; simp [Op.addrs])⟩
    · cases hm
  | transfer f t id =>
    obtain ⟨n2, hm, he⟩ := map_ok h
    injection he with he1 he2; subst he1; subst he2
    exact .inl ⟨some f, some t, rfl, fun x => update_bal (baseMove_ok hm) x,
      (by intro y e; cases e; simp [Op.addrs]), (by intro y e; cases e; simp [Op.addrs])⟩
  | transferFrom sp f t id =>
    obtain ⟨n2, hm, he⟩ := map_ok h
    injection he with he1 he2; subst he1; subst he2
    exact .inl ⟨some f, some t, rfl, fun x => update_bal (baseMoveFrom_ok hm) x,
      (by intro y e; cases e; simp [Op.addrs]), (by intro y e; cases e; simp [Op.addrs])⟩
  | burn f id =>
    obtain ⟨n2, hm, he⟩ := map_ok h
    injection he with he1 he2; subst he1; subst he2
    exact .inl ⟨some f, none, rfl, fun x => update_bal (baseMove_ok hm) x,
      (by intro y e; cases e; simp [Op.addrs]), (by intro y e; cases e)⟩
  | burnFrom sp f id =>
    obtain ⟨n2, hm, he⟩ := map_ok h
    injection he with he1 he2; subst he1; subst he2
    exact .inl ⟨some f, none, rfl, fun x => update_bal (baseMoveFrom_ok hm) x,
      (by intro y e; cases e; simp [Op.addrs]), (by intro y e; cases e)⟩
  | approve x b id lu =>
    obtain ⟨n2, hm, he⟩ := map_ok h
    injection he with he1 he2; subst he1; subst he2
    exact .inr ⟨baseApprove_bal hm, .inl rfl⟩
  | approveForAll o p lu =>
    obtain ⟨n2, hm, he⟩ := map_ok h
    injection he with he1 he2; subst he1; subst he2
    exact .inr ⟨baseApproveForAll_bal hm, .inl rfl⟩
  | delegate x d =>
    injection h with h; injection h with h1 h2; subst h1; subst h2
    exact .inr ⟨rfl, .inr (.inl ⟨x, d, rfl, rfl⟩)⟩
  | advance k =>
    injection h with h; injection h with h1 h2; subst h1; subst h2
    exact .inr ⟨rfl, .inr (.inr ⟨k, rfl⟩)⟩

theorem apply_ok {c : Cfg} {s s' : State} {auth : List Nat} {op : Op} (h : apply c s auth op = .ok s') :
    ∃ a, base c s.nft auth op = .ok (s'.nft, a) ∧ act s.v auth a = .ok s'.v := by
  unfold apply at h
  split at h
  · cases h
  · rename_i n a hb
    split at h
    · cases h
    · rename_i v hv
      injection h with h; subst h
      exact ⟨a, hb, hv⟩

/-- one successful entry point keeps `units = balance` for every account -/
theorem apply_units {c : Cfg} {s s' : State} {auth : List Nat} {op : Op}
    (hu : ∀ x, s.v.units x = s.nft.bal x) (h : apply c s auth op = .ok s') :
    ∀ x, s'.v.units x = s'.nft.bal x := by
  obtain ⟨a, hb, ha⟩ := apply_ok h
  intro x
  have hux := hu x
  rcases base_effect hb with ⟨f, t, hm, hbal, _, _⟩ | ⟨hbal, hk⟩
  · subst hm
    obtain ⟨e1, e2⟩ := units_transfer ha x
    obtain ⟨b1, b2⟩ := hbal x
    omega
  · rw [hbal]
    have := act_units ha x
    rcases hk with hk | ⟨y, d, hk, _⟩ | ⟨n, hk⟩ <;> subst hk <;> simp only at this <;> rw [this] <;> exact hux

theorem step_refines (c : Cfg) (s : State) (x : List Nat × Op) :
    (step c s x).v = OZ.Votes.run s.v (vops c s x) := by
  unfold step vops
  cases h : apply c s x.1 x.2 with
  | error e => rfl
  | ok s' =>
    obtain ⟨a, hb, ha⟩ := apply_ok h
    simp only [hb]
    exact (act_refines ha).symm

theorem run_refines (c : Cfg) (s : State) (ops : List (List Nat × Op)) :
    (run c s ops).v = OZ.Votes.run s.v (vtrace c s ops) := by
  induction ops generalizing s with
  | nil => rfl
  | cons x xs ih =>
    simp only [run, List.foldl_cons, vtrace]
    rw [run_append, ← step_refines]
    exact ih (step c s x)

theorem vops_addrs (c : Cfg) (s : State) (x : List Nat × Op) :
    ∀ y ∈ vops c s x, ∀ a ∈ y.2.addrs, a ∈ x.2.addrs := by
  unfold vops
  cases h : apply c s x.1 x.2 with
  | error e => intro y hy; cases hy
  | ok s' =>
    obtain ⟨a, hb, ha⟩ := apply_ok h
    simp only [hb]
    rcases base_effect hb with ⟨f, t, hm, _, hf, ht⟩ | ⟨_, hk⟩
    · subst hm
      intro y hy
      simp only [Act.ops, List.mem_singleton] at hy; subst hy
      intro z hz
      simp only [OZ.Votes.Op.addrs, List.mem_append, Option.mem_toList] at hz
      rcases hz with hz | hz
      · exact hf z hz
      · exact ht z hz
    · rcases hk with hk | ⟨y, d, hk, hop⟩ | ⟨n, hk⟩ <;> subst hk
      · intro y hy; cases hy
      · intro z hz
        simp only [Act.ops, List.mem_singleton] at hz; subst hz
        rw [hop]; intro w hw; exact hw
      · intro z hz
        simp only [Act.ops, List.mem_singleton] at hz; subst hz
        intro w hw; cases hw

theorem vtrace_addrs (c : Cfg) (U : List Nat) (s : State) (ops : List (List Nat × Op))
    (hU : ∀ x ∈ ops, ∀ a ∈ x.2.addrs, a ∈ U) :
    ∀ y ∈ vtrace c s ops, ∀ a ∈ y.2.addrs, a ∈ U := by
  induction ops generalizing s with
  | nil => intro y hy; cases hy
  | cons x xs ih =>
    intro y hy a ha
    simp only [vtrace, List.mem_append] at hy
    rcases hy with hy | hy
    · exact hU x List.mem_cons_self a (vops_addrs c s x y hy a ha)
    · exact ih (step c s x) (fun z hz => hU z (List.mem_cons_of_mem _ hz)) y hy a ha

end OZ.NonFungibleVotes
