import OZ.Lemmas.PoliciesMonInv
/-
C14 monitor soundness, one lemma per check of the monitor (OZ/Model/PoliciesMon.lean): fed with
the model's own observation of a call, the check is silent. `Facts` collects what the model's
answer to a call line means (rejected = unchanged, accepted = authorized by the account and one
successful `applyM`, a query = unchanged and its answer is `canM`); `Agree` is the relation
between the monitor's state and the model's state that the main induction carries.
-/
namespace OZ.Policies.Mon
open OZ.Host OZ.Policies

/-! ### observations of a model state -/

/-- the state part of observation `o` shows model state `m` -/
structure StateOf (m : M) (o : Obs) : Prop where
  S : o.S = obsS m.s
  W : o.W = obsW m.w
  L : o.L = obsL m.l
  str : o.stateStr = stateStr m

theorem modelObs_stateOf (m : M) (out : Out) : StateOf m (modelObs m out) := ⟨rfl, rfl, rfl, rfl⟩

theorem sThrOf_eq {m : M} {prev : Obs} {p : POp} (hs : StateOf m prev) (hv : Valid p) :
    sThrOf prev p = m.s.thr p.a p.r := by
  unfold sThrOf; rw [hs.S]; exact find_obsS m.s hv.a_lt hv.r_lt

theorem wCfgOf_eq {m : M} {prev : Obs} {p : POp} (hs : StateOf m prev) (hv : Valid p) :
    wCfgOf prev p = (m.w.par p.a p.r).map (toW (p.a, p.r)) := by
  unfold wCfgOf; rw [hs.W]; exact find_obsW m.w hv.a_lt hv.r_lt

theorem lCfgOf_eq {m : M} {prev : Obs} {p : POp} (hs : StateOf m prev) (hv : Valid p) :
    lCfgOf prev p = lCfgM m p := by
  unfold lCfgOf lCfgM; rw [hs.L]; exact find_obsL m.l hv.a_lt hv.r_lt

/-! ### the invariants every observed state must satisfy -/

theorem stateChecks_quiet {m : M} {log : List Spent} {o : Obs} (hi : Inv m log) (ho : StateOf m o)
    (hnow : o.now = m.l.now) : stateChecks o = none := by
  have dok : ∀ x ∈ o.L, ∃ d, x = toL (x.a, x.r) d ∧ DOK m.l.now d := by
    intro x hx
    rw [ho.L] at hx
    obtain ⟨d, hd, hx'⟩ := mem_obsL hx
    have := hi.spend x.a x.r
    rw [hd] at this
    exact ⟨d, hx', this.1⟩
  have h1 : chkSimpleZero o = none := by
    unfold chkSimpleZero
    refine if_neg ?_
    intro h
    rw [List.any_eq_true] at h
    obtain ⟨x, hx, hp⟩ := h
    rw [ho.S] at hx
    have := hi.simple _ _ _ (mem_obsS hx)
    simp only [decide_eq_true_eq] at hp
    omega
  have hw : ∀ x ∈ o.W, 1 ≤ x.thr ∧ x.thr ≤ nsum (x.ws.map (·.2)) ∧ nsum (x.ws.map (·.2)) ≤ U32_MAX := by
    intro x hx
    rw [ho.W] at hx
    obtain ⟨q, hq, e1, e2⟩ := mem_obsW hx
    obtain ⟨i1, i2, i3⟩ := hi.weighted _ _ _ hq
    rw [e1, e2, nsum_weights]
    exact ⟨i1, i2, i3⟩
  have h2 : chkWeightedZero o = none := by
    unfold chkWeightedZero
    refine if_neg ?_
    intro h
    rw [List.any_eq_true] at h
    obtain ⟨x, hx, hp⟩ := h
    have := (hw x hx).1
    simp only [decide_eq_true_eq] at hp
    omega
  have h3 : chkWeightedOverflow o = none := by
    unfold chkWeightedOverflow
    refine if_neg ?_
    intro h
    rw [List.any_eq_true] at h
    obtain ⟨x, hx, hp⟩ := h
    have := (hw x hx).2.2
    simp only [decide_eq_true_eq] at hp
    omega
  have h4 : chkWeightedUnreachable o = none := by
    unfold chkWeightedUnreachable
    refine if_neg ?_
    intro h
    rw [List.any_eq_true] at h
    obtain ⟨x, hx, hp⟩ := h
    have := (hw x hx).2.1
    simp only [decide_eq_true_eq] at hp
    omega
  have h5 : chkSpendCache o = none := by
    unfold chkSpendCache
    refine if_neg ?_
    intro h
    rw [List.any_eq_true] at h
    obtain ⟨x, hx, hp⟩ := h
    obtain ⟨d, hxd, hd⟩ := dok x hx
    simp only [decide_eq_true_eq] at hp
    apply hp
    rw [hxd, isum_eq_sum]
    simp only [toL, List.map_map]
    exact hd.cached
  have h6 : chkSpendSorted o = none := by
    unfold chkSpendSorted
    refine if_neg ?_
    intro h
    rw [List.any_eq_true] at h
    obtain ⟨x, hx, hp⟩ := h
    obtain ⟨d, hxd, hd⟩ := dok x hx
    have hs : sortedNat (x.hist.map (·.2)) = true := by
      apply sortedNat_of_pairwise
      rw [hxd]
      simp only [toL, List.map_map]
      rw [List.pairwise_map]
      exact hd.sorted
    rw [hs] at hp
    cases hp
  have h7 : chkSpendFuture o = none := by
    unfold chkSpendFuture
    refine if_neg ?_
    intro h
    rw [List.any_eq_true] at h
    obtain ⟨x, hx, hp⟩ := h
    obtain ⟨d, hxd, hd⟩ := dok x hx
    rw [List.any_eq_true] at hp
    obtain ⟨e, he, hp⟩ := hp
    rw [hxd] at he
    simp only [toL, List.mem_map] at he
    obtain ⟨e', he', rfl⟩ := he
    have := hd.le_now e' he'
    simp only [decide_eq_true_eq] at hp
    omega
  have h8 : chkSpendCapacity o = none := by
    unfold chkSpendCapacity
    refine if_neg ?_
    intro h
    rw [List.any_eq_true] at h
    obtain ⟨x, hx, hp⟩ := h
    obtain ⟨d, hxd, hd⟩ := dok x hx
    have := hd.bound
    rw [hxd] at hp
    simp only [toL, List.length_map, decide_eq_true_eq] at hp
    unfold Spend.MAX_HISTORY_ENTRIES at this
    omega
  have h9 : chkSpendStored o = none := by
    unfold chkSpendStored
    refine if_neg ?_
    intro h
    rw [List.any_eq_true] at h
    obtain ⟨x, hx, hp⟩ := h
    obtain ⟨d, hxd, hd⟩ := dok x hx
    have a1 := hd.limit_pos
    have a2 := hd.period_pos
    have hp := of_decide_eq_true hp
    rw [hxd] at hp
    simp only [toL] at hp
    omega
  unfold stateChecks
  rw [h1, h2, h3, h4, h5, h6, h7, h8, h9]
  rfl

/-! ### the answer of `can_enforce` on the model, by key -/

/-- `can_enforce` with the arguments `k` answers `true` in state `m` -/
def CanTrue (m : M) (k : CanKey) : Prop :=
  match k.pol with
  | .s => Simple.canEnforce m.s k.ctx k.sg ⟨k.r, k.rs⟩ k.a = true
  | .w => Weighted.canEnforce m.w k.ctx k.sg ⟨k.r, k.rs⟩ k.a = .ok true
  | .l => Spend.canEnforce m.l k.ctx k.sg ⟨k.r, k.rs⟩ k.a = .ok true

theorem canM_true_iff (m : M) (p : POp) : canM m p = .ok true ↔ CanTrue m (canKeyOf p) := by
  unfold canM CanTrue canKeyOf
  cases p.kind.pol
  · show Except.ok (Simple.canEnforce m.s p.ctx p.sg (rule p) p.a) = Except.ok true ↔ _
    constructor
    · intro h; injection h
    · intro h; exact congrArg _ h
  · exact Iff.rfl
  · exact Iff.rfl

theorem liftS_ok_iff (m : M) (r : Except Err Simple.State) : (∃ m', liftS m r = .ok m') ↔ ∃ s', r = .ok s' := by
  cases r with
  | ok s => exact ⟨fun _ => ⟨s, rfl⟩, fun _ => ⟨_, rfl⟩⟩
  | error e => exact ⟨fun ⟨_, h⟩ => (by cases h), fun ⟨_, h⟩ => (by cases h)⟩

theorem liftW_ok_iff (m : M) (r : Except Err Weighted.State) : (∃ m', liftW m r = .ok m') ↔ ∃ s', r = .ok s' := by
  cases r with
  | ok s => exact ⟨fun _ => ⟨s, rfl⟩, fun _ => ⟨_, rfl⟩⟩
  | error e => exact ⟨fun ⟨_, h⟩ => (by cases h), fun ⟨_, h⟩ => (by cases h)⟩

theorem liftL_ok_iff (m : M) (r : Except Err Spend.State) : (∃ m', liftL m r = .ok m') ↔ ∃ s', r = .ok s' := by
  cases r with
  | ok s => exact ⟨fun _ => ⟨s, rfl⟩, fun _ => ⟨_, rfl⟩⟩
  | error e => exact ⟨fun ⟨_, h⟩ => (by cases h), fun ⟨_, h⟩ => (by cases h)⟩

/-- **can_enforce agrees with enforce**, for the three policies at once -/
theorem enforce_iff_can (m : M) (p : POp) (he : p.kind.isEnforce = true) (ha : p.a ∈ p.auth) :
    (∃ m', applyM m p = .ok m') ↔ CanTrue m (canKeyOf p) := by
  unfold applyM CanTrue canKeyOf
  cases hk : p.kind <;> rw [hk] at he <;> simp only [Kind.isEnforce] at he <;> try cases he
  · show (∃ m', liftS m _ = .ok m') ↔ _
    rw [liftS_ok_iff]
    exact (Simple.simple_can_enforce_agrees m.s p.auth p.ctx p.sg (rule p) p.a ha).symm
  · show (∃ m', liftW m _ = .ok m') ↔ _
    rw [liftW_ok_iff]
    exact (Weighted.weighted_can_enforce_agrees m.w p.auth p.ctx p.sg (rule p) p.a ha).symm
  · show (∃ m', liftL m _ = .ok m') ↔ _
    rw [liftL_ok_iff]
    exact (Spend.spend_can_enforce_agrees m.l p.auth p.ctx p.sg (rule p) p.a ha).symm

/-- the count / weight rule, evaluated by the monitor on the reported configuration, is the
answer of the model's `can_enforce` -/
theorem expect_iff {m : M} {prev : Obs} {p : POp} (hs : StateOf m prev) (hv : Valid p) (e : Bool)
    (h : expectAccept p (sThrOf prev p) (wCfgOf prev p) = some e) : e = true ↔ CanTrue m (canKeyOf p) := by
  rw [sThrOf_eq hs hv, wCfgOf_eq hs hv] at h
  unfold expectAccept at h
  unfold CanTrue canKeyOf
  cases hp : p.kind.pol <;> rw [hp] at h <;> simp only at h
  · injection h with h; subst h
    show _ ↔ Simple.canEnforce m.s p.ctx p.sg ⟨p.r, p.rs⟩ p.a = true
    unfold simpleRule Simple.canEnforce
    cases m.s.thr p.a p.r <;> exact Iff.rfl
  · injection h with h; subst h
    show _ ↔ Weighted.canEnforce m.w p.ctx p.sg ⟨p.r, p.rs⟩ p.a = .ok true
    rw [Weighted.canEnforce_true_iff]
    show _ ↔ ∃ q, m.w.par p.a p.r = some q ∧ _
    cases hq : m.w.par p.a p.r with
    | none =>
      simp only [Option.map_none, weightedRule]
      constructor
      · intro h; cases h
      · rintro ⟨q, h, _⟩; cases h
    | some q =>
      simp only [Option.map_some, weightedRule, wSumOf_eq, toW, decide_eq_true_eq]
      constructor
      · intro h; exact ⟨q, rfl, h⟩
      · rintro ⟨q', h, h2⟩; injection h with h; subst h; exact h2
  · cases h

/-! ### what the model's answer to a call means -/

/-- the model answered call `p` in state `m` with observation `o` of the new state `m'` -/
structure Facts (m : M) (p : POp) (m' : M) (o : Obs) : Prop where
  quiet : (o.ok = false ∨ p.kind.isCan = true) → m' = m ∧ o.ev = "-"
  acc : o.ok = true → p.kind.isCan = false → applyM m p = .ok m' ∧ o.dem = toString p.a
  rej : o.ok = false → p.kind.isCan = false → ∃ e, applyM m p = .error e
  can : p.kind.isCan = true → (o.res = "true" ↔ canM m p = .ok true) ∧
    (o.res = "trap" → ∃ e, canM m p = .error e) ∧ (o.ok = true ↔ o.res = "true")
  now : o.now = m'.l.now
  state : StateOf m' o

theorem str_true_ne_trap : ¬ ("true" : String) = "trap" := by decide
theorem str_false_ne_true : ¬ ("false" : String) = "true" := by decide
theorem str_false_ne_trap : ¬ ("false" : String) = "trap" := by decide
theorem str_trap_ne_true : ¬ ("trap" : String) = "true" := by decide
theorem str_dash_ne_true : ¬ ("-" : String) = "true" := by decide
theorem tag_ok : (("ok" : String) == "ok") = true := by decide
theorem tag_no : ¬ (("no" : String) == "ok") = true := by decide
theorem tag_err : ¬ (("err" : String) == "ok") = true := by decide
theorem tag_ok' : ¬ (("ok" : String) == "ok") = false := by decide

theorem facts_can_true {m : M} {p : POp} (hc : p.kind.isCan = true) (hx : canM m p = .ok true) :
    Facts m p m (modelObs m ⟨"ok", "true", "-", "-"⟩) := by
  refine ⟨fun _ => ⟨rfl, rfl⟩, ?_, ?_, ?_, rfl, modelObs_stateOf _ _⟩
  · intro _ h; rw [hc] at h; cases h
  · intro _ h; rw [hc] at h; cases h
  · intro _
    exact ⟨⟨fun _ => hx, fun _ => rfl⟩, fun h => absurd h str_true_ne_trap, ⟨fun _ => rfl, fun _ => tag_ok⟩⟩

theorem facts_can_false {m : M} {p : POp} (hc : p.kind.isCan = true) (hx : canM m p = .ok false) :
    Facts m p m (modelObs m ⟨"no", "false", "-", "-"⟩) := by
  refine ⟨fun _ => ⟨rfl, rfl⟩, ?_, ?_, ?_, rfl, modelObs_stateOf _ _⟩
  · intro _ h; rw [hc] at h; cases h
  · intro _ h; rw [hc] at h; cases h
  · intro _
    refine ⟨⟨fun h => absurd h str_false_ne_true, fun h => ?_⟩, fun h => absurd h str_false_ne_trap,
      ⟨fun h => absurd h tag_no, fun h => absurd h str_false_ne_true⟩⟩
    rw [hx] at h; cases h

theorem facts_can_trap {m : M} {p : POp} {e : Err} (hc : p.kind.isCan = true) (hx : canM m p = .error e) :
    Facts m p m (modelObs m ⟨"err", "trap", "-", "-"⟩) := by
  refine ⟨fun _ => ⟨rfl, rfl⟩, ?_, ?_, ?_, rfl, modelObs_stateOf _ _⟩
  · intro _ h; rw [hc] at h; cases h
  · intro _ h; rw [hc] at h; cases h
  · intro _
    refine ⟨⟨fun h => absurd h str_trap_ne_true, fun h => ?_⟩, fun _ => ⟨e, hx⟩,
      ⟨fun h => absurd h tag_err, fun h => absurd h str_trap_ne_true⟩⟩
    rw [hx] at h; cases h

theorem facts_rejected {m : M} {p : POp} {e : Err} (hc : p.kind.isCan = false) (hx : applyM m p = .error e) :
    Facts m p m (modelObs m ⟨"err", "-", "-", "-"⟩) := by
  refine ⟨fun _ => ⟨rfl, rfl⟩, ?_, ?_, ?_, rfl, modelObs_stateOf _ _⟩
  · intro h; exact absurd h tag_err
  · intro _ _; exact ⟨e, hx⟩
  · intro h; rw [hc] at h; cases h

theorem facts_accepted {m m' : M} {p : POp} (ev : String) (hc : p.kind.isCan = false) (hx : applyM m p = .ok m') :
    Facts m p m' (modelObs m' ⟨"ok", "-", ev, toString p.a⟩) := by
  refine ⟨?_, ?_, ?_, ?_, rfl, modelObs_stateOf _ _⟩
  · rintro (h | h)
    · exact absurd h tag_ok'
    · rw [hc] at h; cases h
  · intro _ _; exact ⟨hx, rfl⟩
  · intro h; exact absurd h tag_ok'
  · intro h; rw [hc] at h; cases h

theorem mstepCall_facts (m : M) (p : POp) :
    Facts m p (mstepCall m p).1 (modelObs (mstepCall m p).1 (mstepCall m p).2) := by
  unfold mstepCall
  cases hc : p.kind.isCan with
  | true =>
    rw [if_pos rfl]
    cases hx : canM m p with
    | error e => exact facts_can_trap hc hx
    | ok b =>
      cases b with
      | true => exact facts_can_true hc hx
      | false => exact facts_can_false hc hx
  | false =>
    rw [if_neg (by simp)]
    cases hx : applyM m p with
    | error e => exact facts_rejected hc hx
    | ok m' => exact facts_accepted _ hc hx

/-! ### the monitor's state and the model's state -/

structure Agree (mon : Mon) (m : M) : Prop where
  inv : Inv m mon.log
  prev : ∀ o, StateOf m (prevOf mon o)
  can : ∀ k ans, mon.lastCan = some (k, ans) → (ans = "true" ↔ CanTrue m k)

theorem showS_init : showS Simple.init = "-" := by decide
theorem showW_init : showW Weighted.init = "-" := by decide
theorem showL_init (start : Nat) : showL (Spend.init start) = "-" := by
  unfold showL Spend.init
  simp only [keys_eq, List.filterMap_cons, List.filterMap_nil, Option.map_none]
  rfl

theorem init_agree (start : Nat) : Agree monInit (M.init start) := by
  refine ⟨init_inv start, fun o => ⟨?_, ?_, ?_, ?_⟩, fun k ans h => by cases h⟩
  · show [] = obsS Simple.init
    decide
  · show [] = obsW Weighted.init
    decide
  · show [] = obsL (Spend.init start)
    unfold obsL Spend.init
    simp only [keys_eq, List.filterMap_cons, List.filterMap_nil, Option.map_none]
  · show blankState = stateStr (M.init start)
    unfold stateStr M.init blankState
    rw [showS_init, showW_init, showL_init]

/-! ### the checks on a call -/

section call
variable {mon : Mon} {m m' : M} {p : POp} {o : Obs}

theorem chkRollback_quiet (hA : Agree mon m) (F : Facts m p m' o) : chkRollback p o (prevOf mon o) = none := by
  unfold chkRollback
  refine if_neg ?_
  rintro ⟨h1, h2⟩
  apply h2
  have : m' = m := by
    apply (F.quiet _).1
    rcases h1 with h | h
    · left; simpa using h
    · right; exact h
  rw [F.state.str, (hA.prev o).str, this]

theorem chkRollbackEvent_quiet (F : Facts m p m' o) : chkRollbackEvent p o = none := by
  unfold chkRollbackEvent
  refine if_neg ?_
  rintro ⟨h1, h2⟩
  apply h2
  apply (F.quiet _).2
  rcases h1 with h | h
  · left; simpa using h
  · right; exact h

theorem chkAuth_quiet (F : Facts m p m' o) : chkAuth p o = none := by
  unfold chkAuth
  refine if_neg ?_
  rintro ⟨h1, h2, h3⟩
  have hc : p.kind.isCan = false := by simpa using h2
  apply h3
  have := applyM_auth hc (F.acc h1 hc).1
  simpa using this

theorem chkAuthDemand_quiet (F : Facts m p m' o) : chkAuthDemand p o = none := by
  unfold chkAuthDemand
  refine if_neg ?_
  rintro ⟨h1, h2, h3⟩
  have hc : p.kind.isCan = false := by simpa using h2
  exact h3 (F.acc h1 hc).2

theorem isCan_of_isEnforce {k : Kind} (h : k.isEnforce = true) : k.isCan = false := by
  cases k <;> first | rfl | cases h

theorem chkRule_quiet (hA : Agree mon m) (hv : Valid p) (F : Facts m p m' o) :
    chkRule p o (expectAccept p (sThrOf (prevOf mon o) p) (wCfgOf (prevOf mon o) p)) = none := by
  cases he : expectAccept p (sThrOf (prevOf mon o) p) (wCfgOf (prevOf mon o) p) with
  | none => rfl
  | some e =>
    have hiff := expect_iff (hA.prev o) hv e he
    unfold chkRule
    simp only
    rw [if_neg, if_neg]
    · rintro ⟨h1, h2, h3⟩
      apply h3
      have ha : p.a ∈ p.auth := by simpa using h2
      have hc := isCan_of_isEnforce h1
      have hen := enforce_iff_can m p h1 ha
      cases hok : o.ok with
      | true =>
        have := (F.acc hok hc).1
        exact (hiff.mpr (hen.mp ⟨_, this⟩)).symm
      | false =>
        obtain ⟨x, hx⟩ := F.rej hok hc
        cases e with
        | false => rfl
        | true =>
          obtain ⟨_, h⟩ := hen.mpr (hiff.mp rfl)
          rw [hx] at h; cases h
    · rintro ⟨h1, h2⟩
      apply h2
      have hres := (F.can h1).1
      have hcm := canM_true_iff m p
      cases e with
      | true =>
        have : o.res = "true" := hres.mpr (hcm.mpr (hiff.mp rfl))
        rw [this]; decide
      | false =>
        have : ¬ o.res = "true" := fun h => by
          have := hiff.mpr (hcm.mp (hres.mp h)); cases this
        simpa using this

theorem chkTrap_quiet (hi : Inv m mon.log) (F : Facts m p m' o) : chkTrap p o = none := by
  unfold chkTrap
  refine if_neg ?_
  rintro ⟨h1, h2, h3, h4⟩
  obtain ⟨e, he⟩ := (F.can h2).2.1 h3
  unfold canM at he
  rw [h1] at he
  simp only at he
  unfold Weighted.canEnforce at he
  cases hq : m.w.par p.a (rule p).id with
  | none => rw [hq] at he; cases he
  | some q =>
    rw [hq] at he
    simp only at he
    unfold Weighted.meets at he
    obtain ⟨_, i2, i3⟩ := hi.weighted _ _ _ hq
    have := Weighted.wsum_le_total q.weights p.sg (nodup_of_nodupNat _ h4)
    rw [Weighted.calcWeight_eq, if_pos (by omega)] at he
    cases he

theorem acc_of_ok {k : Kind} (F : Facts m p m' o) (hok : o.ok = true) (hk : p.kind = k) (hc : k.isCan = false) :
    applyM m p = .ok m' := (F.acc hok (by rw [hk]; exact hc)).1

theorem chkSimpleConfig_quiet (F : Facts m p m' o) : chkSimpleConfig p o = none := by
  unfold chkSimpleConfig
  refine if_neg ?_
  rintro ⟨hok, hk, hbad⟩
  rcases hk with hk | hk
  · have h := acc_of_ok F hok hk rfl
    unfold applyM at h; rw [hk] at h
    obtain ⟨s', hs, _⟩ := liftS_ok h
    obtain ⟨a1, a2, _⟩ := Simple.simple_threshold_config_valid m.s s' p.auth p.thr (rule p) p.a (.inl hs)
    simp only [rule] at a2
    omega
  · have h := acc_of_ok F hok hk rfl
    unfold applyM at h; rw [hk] at h
    obtain ⟨s', hs, _⟩ := liftS_ok h
    obtain ⟨a1, a2, _⟩ := Simple.simple_threshold_config_valid m.s s' p.auth p.thr (rule p) p.a (.inr hs)
    simp only [rule] at a2
    omega

theorem chkSimpleReinstall_quiet (hA : Agree mon m) (hv : Valid p) (F : Facts m p m' o) :
    chkSimpleReinstall p o (sThrOf (prevOf mon o) p) = none := by
  unfold chkSimpleReinstall
  refine if_neg ?_
  rintro ⟨hok, hk, hsome⟩
  rw [sThrOf_eq (hA.prev o) hv] at hsome
  have h := acc_of_ok F hok hk rfl
  unfold applyM at h; rw [hk] at h
  obtain ⟨s', hs, _⟩ := liftS_ok h
  unfold Simple.install at hs
  obtain ⟨_, _, hs⟩ := bind_ok hs
  split at hs
  · cases hs
  · rename_i hn; exact hn hsome

theorem chkWeightedInstall_quiet (F : Facts m p m' o) : chkWeightedInstall p o = none := by
  unfold chkWeightedInstall
  refine if_neg ?_
  rintro ⟨hok, hk, hbad⟩
  have h := acc_of_ok F hok hk rfl
  unfold applyM at h; rw [hk] at h
  obtain ⟨s', hs, _⟩ := liftW_ok h
  unfold Weighted.install at hs
  obtain ⟨_, _, hs⟩ := bind_ok hs
  split at hs
  · cases hs
  · obtain ⟨a1, a2, a3, _⟩ := Weighted.checkInstall_ok hs
    rw [total_mkMap] at hbad
    omega

theorem chkWeightedReinstall_quiet (hA : Agree mon m) (hv : Valid p) (F : Facts m p m' o) :
    chkWeightedReinstall p o (wCfgOf (prevOf mon o) p) = none := by
  unfold chkWeightedReinstall
  refine if_neg ?_
  rintro ⟨hok, hk, hsome⟩
  rw [wCfgOf_eq (hA.prev o) hv] at hsome
  have h := acc_of_ok F hok hk rfl
  unfold applyM at h; rw [hk] at h
  obtain ⟨s', hs, _⟩ := liftW_ok h
  unfold Weighted.install at hs
  obtain ⟨_, _, hs⟩ := bind_ok hs
  split at hs
  · cases hs
  · rename_i hn
    apply hn
    show (m.w.par p.a p.r).isSome = true
    cases hq : m.w.par p.a p.r with
    | none => rw [hq] at hsome; cases hsome
    | some q => rfl

theorem chkWeightedSetThr_quiet (hA : Agree mon m) (hv : Valid p) (F : Facts m p m' o) :
    chkWeightedSetThr p o (wCfgOf (prevOf mon o) p) = none := by
  unfold chkWeightedSetThr
  refine if_neg ?_
  rintro ⟨hok, hk, hbad⟩
  rw [wCfgOf_eq (hA.prev o) hv] at hbad
  have h := acc_of_ok F hok hk rfl
  unfold applyM at h; rw [hk] at h
  obtain ⟨s', hs, _⟩ := liftW_ok h
  unfold Weighted.setThreshold at hs
  obtain ⟨_, _, hs⟩ := bind_ok hs
  split at hs
  · cases hs
  · rename_i ht
    obtain ⟨q, hq, hs⟩ := bind_ok hs
    have hq' : m.w.par p.a p.r = some q := ofOpt_ok hq
    obtain ⟨a2, _, _⟩ := Weighted.checkAndStore_ok hs
    rw [hq'] at hbad
    simp only [Option.map_some, Option.isNone_some, toW, Option.getD_some, nsum_weights] at hbad
    have a2' : p.thr ≤ Weighted.total q.weights := a2
    rcases hbad with hb | hb | hb
    · exact ht hb
    · cases hb
    · omega

theorem chkSpendLimit_quiet (F : Facts m p m' o) : chkSpendLimit p o = none := by
  unfold chkSpendLimit
  refine if_neg ?_
  rintro ⟨hok, hk, hbad⟩
  rcases hk with hk | hk
  · have h := acc_of_ok F hok hk rfl
    unfold applyM at h; rw [hk] at h
    obtain ⟨s', hs, _⟩ := liftL_ok h
    obtain ⟨_, a1, _⟩ := Spend.install_ok hs
    omega
  · have h := acc_of_ok F hok hk rfl
    unfold applyM at h; rw [hk] at h
    obtain ⟨s', hs, _⟩ := liftL_ok h
    obtain ⟨_, a1, _⟩ := Spend.setLimit_ok hs
    omega

theorem chkSpendInstall_quiet (hA : Agree mon m) (hv : Valid p) (F : Facts m p m' o) :
    chkSpendInstall p o (lCfgOf (prevOf mon o) p) = none := by
  unfold chkSpendInstall
  refine if_neg ?_
  rintro ⟨hok, hk, hbad⟩
  rw [lCfgOf_eq (hA.prev o) hv] at hbad
  have h := acc_of_ok F hok hk rfl
  unfold applyM at h; rw [hk] at h
  obtain ⟨s', hs, _⟩ := liftL_ok h
  obtain ⟨_, _, a2, a3, _⟩ := Spend.install_ok hs
  have a3' : m.l.store p.a p.r = none := a3
  unfold lCfgM at hbad
  rw [a3'] at hbad
  rcases hbad with hb | hb
  · omega
  · cases hb

theorem chkSpendCtx_quiet (hA : Agree mon m) (hv : Valid p) (F : Facts m p m' o) :
    chkSpendCtx p o (lCfgOf (prevOf mon o) p) = none := by
  unfold chkSpendCtx
  refine if_neg ?_
  rintro ⟨hok, hk, hbad⟩
  rw [lCfgOf_eq (hA.prev o) hv] at hbad
  have h := acc_of_ok F hok hk rfl
  unfold applyM at h; rw [hk] at h
  obtain ⟨s', hs, _⟩ := liftL_ok h
  obtain ⟨_, hsg, d, hd, amt, hctx, _⟩ := (Spend.enforce_iff m.l p.auth p.ctx p.sg (rule p) p.a).mp ⟨s', hs⟩
  have hd' : m.l.store p.a p.r = some d := hd
  unfold lCfgM at hbad
  rw [hd'] at hbad
  rcases hbad with hb | hb | hb
  · exact hb (hv.transfer_iff.mpr ⟨amt, hctx⟩)
  · rw [hsg] at hb; cases hb
  · cases hb

theorem chkSpendCanCtx_quiet (hA : Agree mon m) (hv : Valid p) (F : Facts m p m' o) :
    chkSpendCanCtx p o (lCfgOf (prevOf mon o) p) = none := by
  unfold chkSpendCanCtx
  refine if_neg ?_
  rintro ⟨hc, hp, hres, hbad⟩
  rw [lCfgOf_eq (hA.prev o) hv] at hbad
  have h := ((F.can hc).1).mp hres
  unfold canM at h
  rw [hp] at h
  simp only at h
  obtain ⟨hsg, d, hd, amt, hctx, _⟩ := (Spend.canEnforce_true_iff m.l p.ctx p.sg (rule p) p.a).mp h
  have hd' : m.l.store p.a p.r = some d := hd
  unfold lCfgM at hbad
  rw [hd'] at hbad
  rcases hbad with hb | hb | hb
  · exact hb (hv.transfer_iff.mpr ⟨amt, hctx⟩)
  · rw [hsg] at hb; cases hb
  · cases hb

theorem chkAgree_quiet (hA : Agree mon m) (F : Facts m p m' o) : chkAgree mon p o = none := by
  unfold chkAgree
  split
  · rename_i h
    obtain ⟨h1, h2⟩ := h
    have ha : p.a ∈ p.auth := by simpa using h2
    have hc := isCan_of_isEnforce h1
    have hen := enforce_iff_can m p h1 ha
    cases hl : mon.lastCan with
    | none => rfl
    | some ka =>
      obtain ⟨k, ans⟩ := ka
      simp only
      refine if_neg ?_
      rintro ⟨hk, hne⟩
      apply hne
      have hcan := hA.can k ans hl
      rw [hk] at hcan
      cases hok : o.ok with
      | true =>
        have : ans = "true" := hcan.mpr (hen.mp ⟨_, (F.acc hok hc).1⟩)
        rw [this]; decide
      | false =>
        obtain ⟨x, hx⟩ := F.rej hok hc
        have : ¬ ans = "true" := fun h => by
          obtain ⟨_, h'⟩ := hen.mpr (hcan.mp h)
          rw [hx] at h'; cases h'
        simpa using this
  · rfl

theorem not_lEnforce_of_isCan {k : Kind} (h : k.isCan = true) : k ≠ .lEnforce := by
  intro e; rw [e] at h; cases h

theorem not_lUninstall_of_isCan {k : Kind} (h : k.isCan = true) : k ≠ .lUninstall := by
  intro e; rw [e] at h; cases h

/-- the ghost log after the call keeps describing the model (`Inv`), and the window check on the
spend it may have added is silent -/
theorem call_log (hA : Agree mon m) (hv : Valid p) (F : Facts m p m' o) :
    Inv m' (monStep mon p o).log ∧
    chkWindow (entryOf o.ok p o.now (lCfgOf (prevOf mon o) p)) (monStep mon p o).log = none := by
  show Inv m' (log2Of o.ok p (log1Of (entryOf o.ok p o.now (lCfgOf (prevOf mon o) p)) mon.log)) ∧
    chkWindow (entryOf o.ok p o.now (lCfgOf (prevOf mon o) p))
      (log2Of o.ok p (log1Of (entryOf o.ok p o.now (lCfgOf (prevOf mon o) p)) mon.log)) = none
  rw [lCfgOf_eq (hA.prev o) hv]
  cases hok : o.ok with
  | false =>
    have e1 : entryOf false p o.now (lCfgM m p) = none := by
      unfold entryOf; rw [if_neg (fun hh => by cases hh.1)]
    have e2 : ∀ lg, log2Of false p lg = lg := by
      intro lg; unfold log2Of; rw [if_neg (fun hh => by cases hh.1)]
    rw [e1, e2, (F.quiet (.inl hok)).1]
    exact ⟨hA.inv, rfl⟩
  | true =>
    cases hc : p.kind.isCan with
    | true =>
      rw [entryOf_none (not_lEnforce_of_isCan hc), log2Of_id _ (not_lUninstall_of_isCan hc), (F.quiet (.inr hc)).1]
      exact ⟨hA.inv, rfl⟩
    | false =>
      obtain ⟨h1, h2, h3⟩ := applyM_inv hA.inv hv hc (F.acc hok hc).1
      rw [F.now, h1]
      exact ⟨h2, h3⟩

end call

end OZ.Policies.Mon
