import OZ.Lemmas.VaultMon
/-
Helper lemmas for the monitor-soundness theorem of C05 (OZ/Props/C05Mon.lean), part 2: the eight
checks of an accepted deposit / mint / withdraw / redeem (`checkVaultOp`), each silent under its
plain-worded condition, then all of them on the model's own observation of each of the four
operations (`checkVaultOp_deposit`, `_mint`, `_withdraw`, `_redeem`).
-/
namespace OZ.Vault.Mon
open OZ.Host OZ.Vault
open OZ.FungibleMon (orElse allowList orElse_none)
open OZ.FungibleMon.Supply (addAt)

/-! ### the pieces -/

theorem vNeg_none {k : VKind} {x ret : Int} (h1 : 0 ≤ x) (h2 : 0 ≤ ret) : vNeg k x ret = none := by
  unfold vNeg; rw [if_neg (by omega)]

theorem vPreview_none {k : VKind} {x ret : Int} {who : Nat} {qo : Obs} (h : qOf k qo.q = some (some ret)) :
    vPreview (some (x, who, qo)) k x ret = none := by
  unfold vPreview
  simp only
  rw [if_neg (fun hne => hne rfl), h]
  simp only
  exact if_pos trivial

theorem vRound_deposit {x ret y d : Int} (h1 : ret * d ≤ x * y) (h2 : x * y < (ret + 1) * d) :
    vRound .deposit x ret y d = none := by
  unfold vRound; simp only; rw [if_pos ⟨h1, h2⟩]

theorem vRound_mint {x ret y d : Int} (h1 : (ret - 1) * y < x * d) (h2 : x * d ≤ ret * y) :
    vRound .mint x ret y d = none := by
  unfold vRound; simp only; rw [if_pos ⟨h1, h2⟩]

theorem vRound_withdraw {x ret y d : Int} (h1 : (ret - 1) * d < x * y) (h2 : x * y ≤ ret * d) :
    vRound .withdraw x ret y d = none := by
  unfold vRound; simp only; rw [if_pos ⟨h1, h2⟩]

theorem vRound_redeem {x ret y d : Int} (h1 : ret * y ≤ x * d) (h2 : x * d < (ret + 1) * y) :
    vRound .redeem x ret y d = none := by
  unfold vRound; simp only; rw [if_pos ⟨h1, h2⟩]

theorem vLimit_withdraw {x bal y d mw : Int} (h1 : specConv bal d y false = some mw) (h2 : x ≤ mw) :
    vLimit .withdraw x bal y d = none := by
  unfold vLimit; simp only; rw [h1]; simp only; rw [if_pos h2]

theorem vLimit_redeem {x bal y d : Int} (h : x ≤ bal) : vLimit .redeem x bal y d = none := by
  unfold vLimit; simp only; rw [if_pos h]

theorem vMove_none {k : VKind} {r p : Nat} {assets shares : Int} {pre o : Obs}
    (h1 : o.ab = abExp k pre r p assets) (h2 : o.sb = sbExp k pre r p shares) (h3 : o.S = sExp k pre shares)
    (h4 : o.A = o.ab.getD VAULT 0) (h5 : o.asup = pre.asup) : vMove k r p assets shares pre o = none := by
  unfold vMove
  rw [if_neg (fun h => h h1), if_neg (fun h => h h2), if_neg (fun h => h h3), if_neg (fun h => h h4),
    if_neg (fun h => h h5)]

/-- balances after moving `a` from `f` to `t`, at list level -/
theorem addAt_moved (b : Nat → Int) (f t : Nat) (a : Int) :
    addAt (addAt ((List.range N).map b) f (-a)) t a = (List.range N).map (moved b f t a) := by
  rw [OZ.FungibleMon.addAt_map, OZ.FungibleMon.addAt_map]
  unfold moved
  rw [Int.sub_eq_add_neg]

theorem totalAssets_getD {s : State} (hv : s.vault = VAULT) :
    totalAssets s = ((List.range N).map s.ast.bal).getD VAULT 0 := by
  rw [getD_map_range _ (by decide : VAULT < N)]
  unfold totalAssets; rw [hv]

/-- 4. on an entry: the model moved exactly `(assets, shares)` -/
theorem vMove_inflow {k : VKind} (hk : k.inflow = true) {s s' : State} {tauth : List Nat} {r f op : Nat}
    {assets shares : Int} (hv : s.vault = VAULT) (h : Inflow s s' tauth r f op assets shares) {pre o : Obs}
    (hp : Shown pre s) (ho : Shown o s') : vMove k r f assets shares pre o = none := by
  apply vMove_none
  · unfold abExp; rw [if_pos hk, ho.ab, hp.ab, h.astBal, addAt_moved, hv]
  · unfold sbExp; rw [if_pos hk, ho.sb, hp.sb, h.shBal, OZ.FungibleMon.addAt_map]
  · unfold sExp; rw [if_pos hk, ho.S, hp.S]; exact h.shSup
  · rw [ho.A, ho.ab]; exact totalAssets_getD (by rw [h.vault, hv])
  · rw [ho.asup, hp.asup, h.astSup]

/-- 4. on an exit -/
theorem vMove_outflow {k : VKind} (hk : k.inflow = false) {s s' : State} {r ow op : Nat}
    {assets shares : Int} (hv : s.vault = VAULT) (h : Outflow s s' r ow op assets shares) {pre o : Obs}
    (hp : Shown pre s) (ho : Shown o s') : vMove k r ow assets shares pre o = none := by
  apply vMove_none
  · unfold abExp; rw [hk, if_neg Bool.false_ne_true, ho.ab, hp.ab, h.astBal, addAt_moved, hv]
  · unfold sbExp
    rw [hk, if_neg Bool.false_ne_true, ho.sb, hp.sb, h.shBal, OZ.FungibleMon.addAt_map, Int.sub_eq_add_neg]
  · unfold sExp; rw [hk, if_neg Bool.false_ne_true, ho.S, hp.S]; exact h.shSup
  · rw [ho.A, ho.ab]; exact totalAssets_getD (by rw [h.vault, hv])
  · rw [ho.asup, hp.asup, h.astSup]

/-- 5. on an entry: the ASSET allowance payer → operator reads exactly `assets` less iff they differ -/
theorem vAllow_inflow {k : VKind} (hk : k.inflow = true) {s s' : State} {f op : Nat} {assets shares : Int}
    (h1 : op ≠ f → OZ.Fungible.allowance s'.ast f op = OZ.Fungible.allowance s.ast f op - assets)
    (h2 : ∀ p q, ¬ (p = f ∧ q = op ∧ op ≠ f) → OZ.Fungible.allowance s'.ast p q = OZ.Fungible.allowance s.ast p q)
    (h3 : ∀ p q, OZ.Fungible.allowance s'.sh p q = OZ.Fungible.allowance s.sh p q) {pre o : Obs}
    (hp : Shown pre s) (ho : Shown o s') : vAllow k f op assets shares pre o = none := by
  unfold vAllow
  rw [if_pos hk, hp.aal, ho.aal, hp.sal, ho.sal, if_neg (by rw [allowMoved_spend h1 h2]; exact fun h => h rfl),
    if_neg (by rw [allowMoved_same h3]; exact fun h => h rfl)]

/-- 5. on an exit: the SHARE allowance owner → operator reads exactly `shares` less iff they differ -/
theorem vAllow_outflow {k : VKind} (hk : k.inflow = false) {s s' : State} {ow op : Nat} {assets shares : Int}
    (h1 : op ≠ ow → OZ.Fungible.allowance s'.sh ow op = OZ.Fungible.allowance s.sh ow op - shares)
    (h2 : ∀ p q, ¬ (p = ow ∧ q = op ∧ op ≠ ow) → OZ.Fungible.allowance s'.sh p q = OZ.Fungible.allowance s.sh p q)
    (h3 : ∀ p q, OZ.Fungible.allowance s'.ast p q = OZ.Fungible.allowance s.ast p q) {pre o : Obs}
    (hp : Shown pre s) (ho : Shown o s') : vAllow k ow op assets shares pre o = none := by
  unfold vAllow
  rw [hk, if_neg Bool.false_ne_true, hp.aal, ho.aal, hp.sal, ho.sal,
    if_neg (by rw [allowMoved_spend h1 h2]; exact fun h => h rfl),
    if_neg (by rw [allowMoved_same h3]; exact fun h => h rfl)]

theorem vEvent_none {k : VKind} {r p op : Nat} {assets shares : Int} {o : Obs}
    (h : evExp k r p op assets shares ∈ o.evs) : vEvent k r p op assets shares o = none := by
  unfold vEvent
  rw [if_pos (by simpa using h)]

theorem vAuth_none {k : VKind} {op : Nat} {o : Obs} (h : op ∈ o.dem) : vAuth k op o = none := by
  unfold vAuth
  rw [if_pos (by simpa using h)]

/-- the share-moving events of a call that appended exactly `ev` -/
theorem newEvs_single {s s' : State} {ev : Event} {e : Ev} (h : s'.events = s.events ++ [ev]) (he : evOf ev = some e) :
    (s'.events.drop s.events.length).filterMap evOf = [e] := by
  rw [h, List.drop_left]
  simp [he]

theorem checkVaultOp_none {offset : Nat} {lastQ : Option (Int × Nat × Obs)} {k : VKind} {x ret : Int}
    {r p op : Nat} {pre o : Obs} (hret : o.ret = some ret) (h1 : vNeg k x ret = none)
    (h2 : vPreview lastQ k x ret = none) (h3 : vRound k x ret (pre.S + 10 ^ offset) (pre.A + 1) = none)
    (h4 : vLimit k x (pre.sb.getD p 0) (pre.S + 10 ^ offset) (pre.A + 1) = none)
    (h5 : vMove k r p (assetsOf k x ret) (sharesOf k x ret) pre o = none)
    (h6 : vAllow k p op (assetsOf k x ret) (sharesOf k x ret) pre o = none)
    (h7 : vEvent k r p op (assetsOf k x ret) (sharesOf k x ret) o = none) (h8 : vAuth k op o = none) :
    checkVaultOp offset lastQ k x r p op pre o = none := by
  unfold checkVaultOp
  rw [hret]
  simp only
  rw [orElse_none h1, orElse_none h2, orElse_none h3, orElse_none h4, orElse_none h5, orElse_none h6,
    orElse_none h7]
  exact h8

/-! ### the four operations on the model's own observation

`pre` shows the state `s` the operation ran in, the line before was `vault query x=<x> who=..`
answered in `s` (`lastQ`). -/

theorem toOpt_ok {r : Except Err Int} {v : Int} (h : r = .ok v) : toOpt r = some v := by rw [h]; rfl

theorem checkVaultOp_deposit {c : Cfg} {s s' : State} (hg : Good s) {auth : List Nat} {sub : Bool} {x ret : Int}
    {r f o : Nat} (h : deposit c s auth sub x r f o = .ok (s', ret)) {pre : Obs} (hp : Shown pre s)
    {who : Nat} {qo : Obs} (hq : qo.q = answers s x who) :
    checkVaultOp s.offset (some (x, who, qo)) .deposit x r f o pre
      (obsOk s s' (.deposit sub x r f o) ret) = none := by
  obtain ⟨-, -, hpv, hin, hev⟩ := deposit_ok h
  obtain ⟨b1, b2⟩ := deposit_rounds_down hg.wf h
  obtain ⟨a1, a2, a3⟩ := entry_allowance_exact.1 h
  have ho : Shown (obsOk s s' (.deposit sub x r f o) ret) s' := stateObs_shown _ _ _ _ _ _
  apply checkVaultOp_none (ret := ret) rfl
  · exact vNeg_none hin.a0 hin.v0
  · apply vPreview_none; rw [hq]; exact congrArg some (toOpt_ok hpv)
  · rw [hp.S, hp.A]; exact vRound_deposit b1 b2
  · rfl
  · exact vMove_inflow rfl hg.vault hin hp ho
  · exact vAllow_inflow rfl a1 a2 a3 hp ho
  · apply vEvent_none
    show _ ∈ (s'.events.drop s.events.length).filterMap evOf
    rw [newEvs_single hev rfl]
    exact List.mem_singleton.mpr rfl
  · apply vAuth_none
    show o ∈ demOf (.deposit sub x r f o)
    simp [demOf, Op.required]

theorem checkVaultOp_mint {c : Cfg} {s s' : State} (hg : Good s) {auth : List Nat} {sub : Bool} {x ret : Int}
    {r f o : Nat} (h : mint c s auth sub x r f o = .ok (s', ret)) {pre : Obs} (hp : Shown pre s)
    {who : Nat} {qo : Obs} (hq : qo.q = answers s x who) :
    checkVaultOp s.offset (some (x, who, qo)) .mint x r f o pre
      (obsOk s s' (.mint sub x r f o) ret) = none := by
  obtain ⟨-, -, hpv, hin, hev⟩ := mint_ok h
  obtain ⟨b1, b2⟩ := mint_rounds_up hg.wf h
  obtain ⟨a1, a2, a3⟩ := entry_allowance_exact.2 h
  have ho : Shown (obsOk s s' (.mint sub x r f o) ret) s' := stateObs_shown _ _ _ _ _ _
  apply checkVaultOp_none (ret := ret) rfl
  · exact vNeg_none hin.v0 hin.a0
  · apply vPreview_none; rw [hq]; exact congrArg some (toOpt_ok hpv)
  · rw [hp.S, hp.A]; exact vRound_mint (by linarith) b1
  · rfl
  · exact vMove_inflow rfl hg.vault hin hp ho
  · exact vAllow_inflow rfl a1 a2 a3 hp ho
  · apply vEvent_none
    show _ ∈ (s'.events.drop s.events.length).filterMap evOf
    rw [newEvs_single hev rfl]
    exact List.mem_singleton.mpr rfl
  · apply vAuth_none
    show o ∈ demOf (.mint sub x r f o)
    simp [demOf, Op.required]

theorem checkVaultOp_withdraw {c : Cfg} {s s' : State} (hg : Good s) {auth : List Nat} {x ret : Int}
    {r ow o : Nat} (h : withdraw c s auth x r ow o = .ok (s', ret)) {pre : Obs} (hp : Shown pre s)
    {who : Nat} {qo : Obs} (hq : qo.q = answers s x who) :
    checkVaultOp s.offset (some (x, who, qo)) .withdraw x r ow o pre
      (obsOk s s' (.withdraw x r ow o) ret) = none := by
  obtain ⟨-, ⟨m, hm, hle⟩, hpv, hout, hev⟩ := withdraw_ok h
  obtain ⟨b1, b2⟩ := withdraw_rounds_up List.nodup_range hg.wf h
  obtain ⟨a1, a2, a3⟩ := exit_allowance_exact.1 h
  have ho : Shown (obsOk s s' (.withdraw x r ow o) ret) s' := stateObs_shown _ _ _ _ _ _
  have hbin : OZ.MulDiv.in128 (s.sh.bal ow) := by
    by_cases hlt : ow < N
    · exact shares_in128 List.nodup_range hg.wf (hg.wf.sh.nonneg ow) (Int.le_refl _)
    · rw [hg.wf.sh.outside ow (fun hmem => hlt (List.mem_range.mp hmem))]; decide
  apply checkVaultOp_none (ret := ret) rfl
  · exact vNeg_none hout.a0 hout.v0
  · apply vPreview_none; rw [hq]; exact congrArg some (toOpt_ok hpv)
  · rw [hp.S, hp.A]; exact vRound_withdraw (by linarith) b1
  · rw [hp.S, hp.A, hp.sb, sb_getD hg.wf ow]
    refine vLimit_withdraw (mw := m) ?_ hle
    rw [← convertToAssets_spec hg.wf (s.sh.bal ow) hbin false]
    exact toOpt_ok hm
  · exact vMove_outflow rfl hg.vault hout hp ho
  · exact vAllow_outflow rfl a1 a2 a3 hp ho
  · apply vEvent_none
    show _ ∈ (s'.events.drop s.events.length).filterMap evOf
    rw [newEvs_single hev rfl]
    exact List.mem_singleton.mpr rfl
  · apply vAuth_none
    show o ∈ demOf (.withdraw x r ow o)
    simp [demOf, Op.required]

theorem checkVaultOp_redeem {c : Cfg} {s s' : State} (hg : Good s) {auth : List Nat} {x ret : Int}
    {r ow o : Nat} (h : redeem c s auth x r ow o = .ok (s', ret)) {pre : Obs} (hp : Shown pre s)
    {who : Nat} {qo : Obs} (hq : qo.q = answers s x who) :
    checkVaultOp s.offset (some (x, who, qo)) .redeem x r ow o pre
      (obsOk s s' (.redeem x r ow o) ret) = none := by
  obtain ⟨-, hle, hpv, hout, hev⟩ := redeem_ok h
  obtain ⟨b1, b2⟩ := redeem_rounds_down List.nodup_range hg.wf h
  obtain ⟨a1, a2, a3⟩ := exit_allowance_exact.2 h
  have ho : Shown (obsOk s s' (.redeem x r ow o) ret) s' := stateObs_shown _ _ _ _ _ _
  apply checkVaultOp_none (ret := ret) rfl
  · exact vNeg_none hout.v0 hout.a0
  · apply vPreview_none; rw [hq]; exact congrArg some (toOpt_ok hpv)
  · rw [hp.S, hp.A]; exact vRound_redeem b1 b2
  · rw [hp.sb, sb_getD hg.wf ow]; exact vLimit_redeem hle
  · exact vMove_outflow rfl hg.vault hout hp ho
  · exact vAllow_outflow rfl a1 a2 a3 hp ho
  · apply vEvent_none
    show _ ∈ (s'.events.drop s.events.length).filterMap evOf
    rw [newEvs_single hev rfl]
    exact List.mem_singleton.mpr rfl
  · apply vAuth_none
    show o ∈ demOf (.redeem x r ow o)
    simp [demOf, Op.required]

/-! ### frames of the other operations, and events -/

theorem sameState_of {p o : Obs} {s s' : State} (hp : Shown p s) (ho : Shown o s')
    (h1 : totalAssets s' = totalAssets s) (h2 : totalShares s' = totalShares s) (h3 : s'.sh.bal = s.sh.bal)
    (h4 : s'.ast.bal = s.ast.bal) (h5 : s'.ast.supply = s.ast.supply) : sameState p o = true := by
  unfold sameState
  rw [decide_eq_true_eq]
  exact ⟨by rw [hp.A, ho.A, h1], by rw [hp.S, ho.S, h2], by rw [hp.sb, ho.sb, h3], by rw [hp.ab, ho.ab, h4],
    by rw [hp.asup, ho.asup, h5]⟩

/-- an accepted entry point of the share token leaves the share supply, the asset token and the
vault's address alone -/
theorem share_frame {c : Cfg} {s s' : State} {ret : Int} (hw : WF (List.range N) s) {auth : List Nat}
    {op : OZ.Fungible.Op} (hU : ∀ a ∈ op.addrs, a < N) (h : apply c s auth (.share op) = .ok (s', ret)) :
    totalShares s' = totalShares s ∧ s'.ast = s.ast ∧ s'.vault = s.vault := by
  simp only [apply, withRet] at h
  split at h
  · rename_i s1 h1
    injection h with h; injection h with h _; subst h
    obtain ⟨hal, sh, hsh, rfl⟩ := shareOp_ok h1
    obtain ⟨e1, e2, e3, -⟩ := emitOpt_fields { s with sh := sh } (shareEvent op)
    have hd := (OZ.Fungible.apply_inv List.nodup_range c hw.sh auth op
      (fun a ha => List.mem_range.mpr (hU a ha)) hsh).2
    refine ⟨?_, e2, e3⟩
    unfold totalShares; rw [e1]; show sh.supply = _; rw [hd]
    cases op <;> simp [shareOpAllowed] at hal <;> simp [OZ.Fungible.supplyDelta]
  · cases h

/-- an accepted entry point of the asset token leaves the share token alone -/
theorem asset_frame {c : Cfg} {s s' : State} {ret : Int} {auth : List Nat} {op : OZ.Fungible.Op}
    (h : apply c s auth (.asset op) = .ok (s', ret)) : s'.sh = s.sh := by
  simp only [apply, withRet] at h
  split at h
  · rename_i s1 h1
    injection h with h; injection h with h _; subst h
    obtain ⟨a, -, rfl⟩ := assetOp_ok h1
    rfl
  · cases h

/-- an accepted invocation only appends to the vault contract's event stream -/
theorem apply_events {c : Cfg} {s s' : State} {ret : Int} {auth : List Nat} {op : Op}
    (h : apply c s auth op = .ok (s', ret)) : ∃ evs, s'.events = s.events ++ evs := by
  cases op with
  | deposit sub a r f o => obtain ⟨-, -, -, -, hev⟩ := deposit_ok h; exact ⟨_, hev⟩
  | mint sub x r f o => obtain ⟨-, -, -, -, hev⟩ := mint_ok h; exact ⟨_, hev⟩
  | withdraw a r ow o => obtain ⟨-, -, -, -, hev⟩ := withdraw_ok h; exact ⟨_, hev⟩
  | redeem x r ow o => obtain ⟨-, -, -, -, hev⟩ := redeem_ok h; exact ⟨_, hev⟩
  | share op =>
    simp only [apply, withRet] at h
    split at h
    · rename_i s1 h1
      injection h with h; injection h with h _; subst h
      obtain ⟨-, sh, -, rfl⟩ := shareOp_ok h1
      cases hse : shareEvent op with
      | none => exact ⟨[], by simp [emitOpt]⟩
      | some ev => exact ⟨[.token ev], rfl⟩
    · cases h
  | asset op =>
    simp only [apply, withRet] at h
    split at h
    · rename_i s1 h1
      injection h with h; injection h with h _; subst h
      obtain ⟨a, -, rfl⟩ := assetOp_ok h1
      exact ⟨[], by simp⟩
    · cases h
  | advance n =>
    simp only [apply] at h
    injection h with h; injection h with h _; subst h
    exact ⟨[], by simp [advance]⟩

/-- the constructor line: silent unless an offset above 10 was accepted -/
theorem checkConstruct_none {m : Mon} {off : Nat} {okc : Bool} {o : Option Obs} (h : okc = true → off ≤ 10) :
    (checkConstruct m off okc o).2 = none := by
  unfold checkConstruct
  simp only
  rw [if_neg]
  rintro ⟨h1, h2⟩
  have := h h1
  omega

end OZ.Vault.Mon
