import OZ.Lemmas.NftMon
/-
Helper lemmas for the soundness of the C11 monitor (`OZ.NftMon.Auth`, OZ/Model/NftMon.lean):
the relation `Agree` between the monitor's ghost state and a model state, its preservation by every
accepted call (`track_accepted`), and the silence of the observation checks (`answers_none`).
The theorems are in OZ/Props/C11Mon.lean.
-/
namespace OZ.NftMon.Auth
open OZ.Host OZ.Nft OZ.NftMon

/-- monitor state and model state describe the same point of a history: `spec` is the plain
ownership map of the model state and the monitor's ghost map; every stored approval / operator
entry is in the ghost lists with its data (`approved`, `live_until_ledger`); in the consecutive
flavour the point overrides lie below the id counter (so that a new batch is not shadowed) -/
structure Agree (m : Mon) (ms : MState) (spec : Nat → Option Nat) : Prop where
  good : Good ms spec
  owner : ∀ id, ghostOwner m id = spec id
  appr : ∀ id e, ms.core.approval id = some e →
    m.appr.find? (fun p => p.1 = id) = some (id, e.val.approved, e.val.liveUntilLedger)
  oper : ∀ o p e, ms.core.operator o p = some e →
    m.oper.find? (fun x => x.1 = o ∧ x.2.1 = p) = some (o, p, e.val)
  over : ms.isCons = true → ∀ p ∈ m.over, p.1 < ms.core.nextId

/-- a live reading of `get_approved` in the model is a live ghost approval -/
theorem liveAppr_of_getApproved {m : Mon} {ms : MState} {spec : Nat → Option Nat} (ha : Agree m ms spec)
    {id a : Nat} (h : getApproved ms.core id = some a) : liveAppr m ms.core.now id = some a := by
  obtain ⟨e, he, hv, hlu, _⟩ := getApproved_some h
  unfold liveAppr
  rw [ha.appr id e he]
  simp only
  rw [if_pos hlu, hv]

/-- a live operator in the model is a live ghost operator -/
theorem liveOper_of_isApprovedForAll {m : Mon} {ms : MState} {spec : Nat → Option Nat} (ha : Agree m ms spec)
    {o p : Nat} (h : isApprovedForAll ms.core o p = true) : liveOper m ms.core.now o p = true := by
  obtain ⟨e, he, hlu, _⟩ := isApprovedForAll_true h
  unfold liveOper
  rw [ha.oper o p e he]
  simp only
  exact decide_eq_true hlu

theorem mem_setOver {ov : List (Nat × Option Nat)} {id : Nat} {o : Option Nat} {p : Nat × Option Nat}
    (h : p ∈ setOver ov id o) : p = (id, o) ∨ p ∈ ov := by
  unfold setOver at h
  rcases List.mem_cons.mp h with e | h
  · exact Or.inl e
  · exact Or.inr (List.mem_filter.mp h).1

/-! ### `Agree` is preserved by what the monitor does on each kind of accepted call -/

/-- mint of one id (the ghost approvals are left alone, as the code leaves the entries alone) -/
theorem agree_mint {m : Mon} {ms ms' : MState} {spec : Nat → Option Nat} {id to : Nat} (ha : Agree m ms spec)
    (hg : Good ms' (upd spec id (some to))) (happr : ms'.core.approval = ms.core.approval)
    (hoper : ms'.core.operator = ms.core.operator) (hc : ms'.isCons = false) (next : Nat) :
    Agree { setOwnerMint m id to with next := next } ms' (upd spec id (some to)) := by
  refine ⟨hg, ?_, ?_, ?_, ?_⟩
  · intro x
    show plainOwner m.batches (setOver m.over id (some to)) x = _
    rw [plainOwner_setOver, ← funext ha.owner]; rfl
  · intro x e he; rw [happr] at he; exact ha.appr x e he
  · intro o p e he; rw [hoper] at he; exact ha.oper o p e he
  · intro h; rw [hc] at h; cases h

/-- transfer / burn of token `id`: the owner changes and the approval entry / ghost approval go -/
theorem agree_move {m : Mon} {ms ms' : MState} {spec : Nat → Option Nat} {id : Nat} {o : Option Nat}
    (ha : Agree m ms spec) (hg : Good ms' (upd spec id o))
    (happr : ms'.core.approval = upd ms.core.approval id none)
    (hoper : ms'.core.operator = ms.core.operator) (hlt : ms.isCons = true → id < ms.core.nextId)
    (hnx : ms'.core.nextId = ms.core.nextId) (hc : ms'.isCons = ms.isCons) :
    Agree (setOwner m id o) ms' (upd spec id o) := by
  refine ⟨hg, ?_, ?_, ?_, ?_⟩
  · intro x
    show plainOwner m.batches (setOver m.over id o) x = _
    rw [plainOwner_setOver, ← funext ha.owner]; rfl
  · intro x e he
    rw [happr] at he
    have hne : x ≠ id := by
      intro e'; subst e'; rw [upd_same] at he; cases he
    rw [upd_other _ _ _ _ hne] at he
    show (m.appr.filter (fun p => decide (p.1 ≠ id))).find? (fun p => decide (p.1 = x)) = _
    rw [find_filter_ne m.appr (fun p => p.1) id x hne]
    exact ha.appr x e he
  · intro o' p e he; rw [hoper] at he; exact ha.oper o' p e he
  · intro h p hp
    rw [hc] at h
    rw [hnx]
    rcases mem_setOver hp with e | hp
    · subst e; exact hlt h
    · exact ha.over h p hp

/-- a batch `[next, next + n)` in the consecutive flavour -/
theorem agree_batch {m : Mon} {ms ms' : MState} {spec : Nat → Option Nat} {to n : Nat} (ha : Agree m ms spec)
    (hn : 1 ≤ n) (hg : Good ms' (fun id => if ms.core.nextId ≤ id ∧ id < ms.core.nextId + n then some to else spec id))
    (happr : ms'.core.approval = ms.core.approval) (hoper : ms'.core.operator = ms.core.operator)
    (hc : ms.isCons = true) (hnx : ms'.core.nextId = ms.core.nextId + n) (next : Nat) :
    Agree { m with batches := (ms.core.nextId + n - 1 + 1 - n, ms.core.nextId + n - 1, to) :: m.batches, next := next } ms'
      (fun id => if ms.core.nextId ≤ id ∧ id < ms.core.nextId + n then some to else spec id) := by
  refine ⟨hg, ?_, ?_, ?_, ?_⟩
  · intro x
    show plainOwner ((ms.core.nextId + n - 1 + 1 - n, ms.core.nextId + n - 1, to) :: m.batches) m.over x = _
    rw [plainOwner_batch]
    · have h1 : ms.core.nextId + n - 1 + 1 - n = ms.core.nextId := by omega
      rw [h1]
      by_cases hx : ms.core.nextId ≤ x ∧ x < ms.core.nextId + n
      · rw [if_pos hx, if_pos (by omega)]
      · rw [if_neg hx, if_neg (by omega)]; exact ha.owner x
    · intro p hp hin
      have := ha.over hc p hp
      omega
  · intro x e he; rw [happr] at he; exact ha.appr x e he
  · intro o p e he; rw [hoper] at he; exact ha.oper o p e he
  · intro _ p hp
    have := ha.over hc p hp
    rw [hnx]; omega

/-- an accepted `approve(ap, a, id, lu)` -/
theorem agree_approve {cfg : Cfg} {m : Mon} {ms ms' : MState} {spec : Nat → Option Nat} {l : Line}
    {ow ap a id lu : Nat} (ha : Agree m ms spec) (hg : Good ms' spec)
    (hc : approveForOwner cfg ms.core ow ap a id lu = .ok ms'.core) (hid : l.id = id) (hlu : l.lu = lu)
    (harg : l.arg 1 = a) (hcons : ms'.isCons = ms.isCons) : Agree (apprStep m l) ms' spec := by
  obtain ⟨_, hoper, _, hnx, _, h0, hpos⟩ := approveForOwner_ok hc
  have hown : ∀ x, ghostOwner (apprStep m l) x = spec x := by
    intro x
    have : ghostOwner (apprStep m l) x = ghostOwner m x := by unfold apprStep; split <;> rfl
    rw [this]; exact ha.owner x
  have hop : ∀ o p e, ms'.core.operator o p = some e →
      (apprStep m l).oper.find? (fun x => x.1 = o ∧ x.2.1 = p) = some (o, p, e.val) := by
    intro o p e he
    have : (apprStep m l).oper = m.oper := by unfold apprStep; split <;> rfl
    rw [this]; rw [hoper] at he; exact ha.oper o p e he
  have hov : ms'.isCons = true → ∀ p ∈ (apprStep m l).over, p.1 < ms'.core.nextId := by
    intro h p hp
    have : (apprStep m l).over = m.over := by unfold apprStep; split <;> rfl
    rw [this] at hp; rw [hcons] at h; rw [hnx]; exact ha.over h p hp
  refine ⟨hg, hown, ?_, hop, hov⟩
  intro x e he
  by_cases hz : lu = 0
  · have hap : (apprStep m l).appr = m.appr.filter (fun p => decide (p.1 ≠ id)) := by
      unfold apprStep; rw [if_pos (by rw [hlu]; exact hz), hid]
    rw [h0 hz] at he
    have hne : x ≠ id := by
      intro e'; subst e'; rw [upd_same] at he; cases he
    rw [upd_other _ _ _ _ hne] at he
    rw [hap, find_filter_ne m.appr (fun p => p.1) id x hne]
    exact ha.appr x e he
  · have hap : (apprStep m l).appr = (id, a, lu) :: m.appr.filter (fun p => decide (p.1 ≠ id)) := by
      unfold apprStep; rw [if_neg (by rw [hlu]; exact hz), hid, harg, hlu]
    obtain ⟨_, e', he', hv, _⟩ := hpos hz
    rw [he'] at he
    rw [hap, List.find?_cons]
    by_cases hx : x = id
    · subst hx
      rw [upd_same] at he
      injection he with he; subst he
      simp [hv]
    · rw [upd_other _ _ _ _ hx] at he
      have : decide ((id, a, lu).1 = x) = false := by simp; exact fun h => hx h.symm
      rw [this]
      simp only
      rw [find_filter_ne m.appr (fun p => p.1) id x hx]
      exact ha.appr x e he

theorem find_pair_filter_ne (l : List (Nat × Nat × Nat)) (o p o' p' : Nat) (hne : ¬ (o' = o ∧ p' = p)) :
    (l.filter (fun x => decide (¬ (x.1 = o ∧ x.2.1 = p)))).find? (fun x => decide (x.1 = o' ∧ x.2.1 = p'))
      = l.find? (fun x => decide (x.1 = o' ∧ x.2.1 = p')) := by
  rw [List.find?_filter]
  congr 1
  funext x
  by_cases hx : x.1 = o' ∧ x.2.1 = p'
  · have : ¬ (o' = o ∧ p' = p) := hne
    simp only [hx.1, hx.2, this, and_self, not_false_eq_true, decide_true]
  · simp [hx]

/-- an accepted `approve_for_all(o, p, lu)` -/
theorem agree_grant {cfg : Cfg} {m : Mon} {ms ms' : MState} {spec : Nat → Option Nat} {l : Line}
    {auth : List Nat} {o p lu : Nat} (ha : Agree m ms spec) (hg : Good ms' spec)
    (hc : approveForAll cfg ms.core auth o p lu = .ok ms'.core) (h0 : l.arg 0 = o) (h1 : l.arg 1 = p)
    (hlu : l.lu = lu) (hcons : ms'.isCons = ms.isCons) : Agree (operStep m l) ms' spec := by
  obtain ⟨_, happr, _, hnx, _, hoth, hz0, hpos⟩ := approveForAll_ok hc
  have hown : ∀ x, ghostOwner (operStep m l) x = spec x := by
    intro x
    have : ghostOwner (operStep m l) x = ghostOwner m x := by unfold operStep; split <;> rfl
    rw [this]; exact ha.owner x
  have hap : ∀ x e, ms'.core.approval x = some e →
      (operStep m l).appr.find? (fun p => p.1 = x) = some (x, e.val.approved, e.val.liveUntilLedger) := by
    intro x e he
    have : (operStep m l).appr = m.appr := by unfold operStep; split <;> rfl
    rw [this]; rw [happr] at he; exact ha.appr x e he
  have hov : ms'.isCons = true → ∀ q ∈ (operStep m l).over, q.1 < ms'.core.nextId := by
    intro h q hq
    have : (operStep m l).over = m.over := by unfold operStep; split <;> rfl
    rw [this] at hq; rw [hcons] at h; rw [hnx]; exact ha.over h q hq
  refine ⟨hg, hown, hap, ?_, hov⟩
  intro o' p' e he
  by_cases hz : lu = 0
  · have hop : (operStep m l).oper = m.oper.filter (fun x => decide (¬ (x.1 = o ∧ x.2.1 = p))) := by
      unfold operStep; rw [if_pos (by rw [hlu]; exact hz), h0, h1]
    have hne : ¬ (o' = o ∧ p' = p) := by
      rintro ⟨e1, e2⟩; subst e1; subst e2; rw [hz0 hz] at he; cases he
    rw [hoth o' p' hne] at he
    rw [hop, find_pair_filter_ne m.oper o p o' p' hne]
    exact ha.oper o' p' e he
  · have hop : (operStep m l).oper = (o, p, lu) :: m.oper.filter (fun x => decide (¬ (x.1 = o ∧ x.2.1 = p))) := by
      unfold operStep; rw [if_neg (by rw [hlu]; exact hz), h0, h1, hlu]
    obtain ⟨_, e', he', hv, _⟩ := hpos hz
    rw [hop, List.find?_cons]
    by_cases hx : o' = o ∧ p' = p
    · obtain ⟨e1, e2⟩ := hx; subst e1; subst e2
      rw [he'] at he
      injection he with he; subst he
      simp [hv]
    · rw [hoth o' p' hx] at he
      have : decide ((o, p, lu).1 = o' ∧ (o, p, lu).2.1 = p') = false := by
        simp only [decide_eq_false_iff_not]
        rintro ⟨e1, e2⟩; exact hx ⟨e1.symm, e2.symm⟩
      rw [this]
      simp only
      rw [find_pair_filter_ne m.oper o p o' p' hx]
      exact ha.oper o' p' e he

/-- nothing but the ledger moved (or the call was a no-op for the tracked data) -/
theorem agree_same {m : Mon} {ms ms' : MState} {spec : Nat → Option Nat} (ha : Agree m ms spec)
    (hg : Good ms' spec) (happr : ms'.core.approval = ms.core.approval)
    (hoper : ms'.core.operator = ms.core.operator) (hnx : ms'.core.nextId = ms.core.nextId)
    (hc : ms'.isCons = ms.isCons) : Agree m ms' spec := by
  refine ⟨hg, ha.owner, ?_, ?_, ?_⟩
  · intro x e he; rw [happr] at he; exact ha.appr x e he
  · intro o p e he; rw [hoper] at he; exact ha.oper o p e he
  · intro h p hp; rw [hc] at h; rw [hnx]; exact ha.over h p hp


theorem inAuth_of_mem {l : Line} {x : Nat} (h : x ∈ l.auth) : inAuth l x = true := by
  unfold inAuth; exact List.contains_iff_mem.mpr h

/-- **an accepted call**: the monitor's tracking step raises nothing and keeps `Agree` -/
theorem track_accepted {cfg : Cfg} {m : Mon} {ms ms' : MState} {spec : Nat → Option Nat} {l : Line} {op : Op}
    {r : Option Nat} (ha : Agree m ms spec) (hl : l.op = some op)
    (h : ms.apply cfg l.auth op = .ok (ms', r)) (o : Obs) (hok : o.ok = true) (hret : o.ret = r)
    (hnow : o.now = ms'.core.now) :
    (track m l o).2 = none ∧ Agree (track m l o).1 ms' (mspecStep spec ms.core.nextId op r) := by
  have hf := mstate_step cfg ha.good h
  have hd := Line.op_inv hl
  have htr : track m l o = trackAccepted m l o := by
    unfold track; rw [if_neg (by simp [hok])]
  rw [htr]
  have hgood := hf.good
  have hcore := hf.core
  cases op with
  | mintSeq to =>
    obtain ⟨hk, ha'⟩ := hd
    obtain ⟨hr, hnx, hc⟩ := hf.seq to rfl
    have harg : l.arg 0 = to := by simp [Line.arg, ha']
    obtain ⟨_, happr, hoper, _⟩ : MintStep ms.core ms'.core to 1 := hcore
    have e : trackAccepted m l o = ({ setOwnerMint m ms.core.nextId to with next := ms.core.nextId + 1 }, none) := by
      unfold trackAccepted; rw [hk]; simp only
      unfold trackMint; rw [hret, hr, harg]
    rw [e]
    refine ⟨rfl, ?_⟩
    subst hr
    exact agree_mint ha hgood happr hoper (by rw [hf.cons]; exact hc) _
  | mint to id =>
    obtain ⟨hk, ha', hid⟩ := hd
    have hc := hf.expl to id rfl
    have harg : l.arg 0 = to := by simp [Line.arg, ha']
    obtain ⟨_, happr, hoper, _⟩ : MintStep ms.core ms'.core to 1 := hcore
    have e : trackAccepted m l o = (setOwnerMint m id to, none) := by
      unfold trackAccepted; rw [hk]; simp only; rw [hid, harg]
    rw [e]
    exact ⟨rfl, agree_mint ha hgood happr hoper (by rw [hf.cons]; exact hc) m.next⟩
  | batchMint to n =>
    obtain ⟨hk, ha', hn⟩ := hd
    obtain ⟨h1, hr, hnx, hc⟩ := hf.batch to n rfl
    have harg : l.arg 0 = to := by simp [Line.arg, ha']
    obtain ⟨_, happr, hoper, _⟩ : MintStep ms.core ms'.core to n := hcore
    have e : trackAccepted m l o = ({ m with batches := (ms.core.nextId + n - 1 + 1 - n, ms.core.nextId + n - 1, to) :: m.batches,
                                              next := ms.core.nextId + n - 1 + 1 }, none) := by
      unfold trackAccepted; rw [hk]; simp only
      unfold trackBatch; rw [hret, hr, harg, hn]
    rw [e]
    exact ⟨rfl, agree_batch ha h1 hgood happr hoper hc hnx _⟩
  | transfer f t id =>
    obtain ⟨hk, ha', hid⟩ := hd
    obtain ⟨hs, hj, hlt⟩ := hf.moves f id rfl
    have h0 : l.arg 0 = f := by simp [Line.arg, ha']
    have h1 : l.arg 1 = t := by simp [Line.arg, ha']
    obtain ⟨_, happr, hoper, _⟩ : MoveStep ms.core ms'.core f (some t) id := hcore
    have hnx := hf.other (fun _ e => by cases e) (fun _ _ e => by cases e)
    have e : trackAccepted m l o = (setOwner m id (some t), none) := by
      unfold trackAccepted; rw [hk]; simp only; rw [h0, h1]
      unfold trackDirect
      rw [hid, if_neg (by rw [ha.owner, hs]; simp), if_neg (by simp [inAuth_of_mem (show f ∈ l.auth from hj)])]
    rw [e]
    exact ⟨rfl, agree_move ha hgood happr hoper hlt hnx hf.cons⟩
  | burn f id =>
    obtain ⟨hk, ha', hid⟩ := hd
    obtain ⟨hs, hj, hlt⟩ := hf.moves f id rfl
    have h0 : l.arg 0 = f := by simp [Line.arg, ha']
    obtain ⟨_, happr, hoper, _⟩ : MoveStep ms.core ms'.core f none id := hcore
    have hnx := hf.other (fun _ e => by cases e) (fun _ _ e => by cases e)
    have e : trackAccepted m l o = (setOwner m id none, none) := by
      unfold trackAccepted; rw [hk]; simp only; rw [h0]
      unfold trackDirect
      rw [hid, if_neg (by rw [ha.owner, hs]; simp), if_neg (by simp [inAuth_of_mem (show f ∈ l.auth from hj)])]
    rw [e]
    exact ⟨rfl, agree_move ha hgood happr hoper hlt hnx hf.cons⟩
  | transferFrom sp f t id =>
    obtain ⟨hk, ha', hid⟩ := hd
    obtain ⟨hs, hj, hlt⟩ := hf.moves f id rfl
    have h0 : l.arg 0 = sp := by simp [Line.arg, ha']
    have h1 : l.arg 1 = f := by simp [Line.arg, ha']
    have h2 : l.arg 2 = t := by simp [Line.arg, ha']
    obtain ⟨_, happr, hoper, hn⟩ : MoveStep ms.core ms'.core f (some t) id := hcore
    have hnx := hf.other (fun _ e => by cases e) (fun _ _ e => by cases e)
    obtain ⟨hin, hjust⟩ : sp ∈ l.auth ∧ (sp = f ∨ getApproved ms.core id = some sp ∨ isApprovedForAll ms.core f sp = true) := hj
    have hjust' : sp = f ∨ liveAppr m o.now id = some sp ∨ liveOper m o.now f sp = true := by
      rw [hnow, hn]
      rcases hjust with e | e | e
      · exact Or.inl e
      · exact Or.inr (Or.inl (liveAppr_of_getApproved ha e))
      · exact Or.inr (Or.inr (liveOper_of_isApprovedForAll ha e))
    have e : trackAccepted m l o = (setOwner m id (some t), none) := by
      unfold trackAccepted; rw [hk]; simp only; rw [h0, h1, h2]
      unfold trackSpend
      rw [hid, if_neg (by rw [ha.owner, hs]; simp), if_neg (by simp [inAuth_of_mem hin]),
        if_neg (fun hn => hn hjust')]
    rw [e]
    exact ⟨rfl, agree_move ha hgood happr hoper hlt hnx hf.cons⟩
  | burnFrom sp f id =>
    obtain ⟨hk, ha', hid⟩ := hd
    obtain ⟨hs, hj, hlt⟩ := hf.moves f id rfl
    have h0 : l.arg 0 = sp := by simp [Line.arg, ha']
    have h1 : l.arg 1 = f := by simp [Line.arg, ha']
    obtain ⟨_, happr, hoper, hn⟩ : MoveStep ms.core ms'.core f none id := hcore
    have hnx := hf.other (fun _ e => by cases e) (fun _ _ e => by cases e)
    obtain ⟨hin, hjust⟩ : sp ∈ l.auth ∧ (sp = f ∨ getApproved ms.core id = some sp ∨ isApprovedForAll ms.core f sp = true) := hj
    have hjust' : sp = f ∨ liveAppr m o.now id = some sp ∨ liveOper m o.now f sp = true := by
      rw [hnow, hn]
      rcases hjust with e | e | e
      · exact Or.inl e
      · exact Or.inr (Or.inl (liveAppr_of_getApproved ha e))
      · exact Or.inr (Or.inr (liveOper_of_isApprovedForAll ha e))
    have e : trackAccepted m l o = (setOwner m id none, none) := by
      unfold trackAccepted; rw [hk]; simp only; rw [h0, h1]
      unfold trackSpend
      rw [hid, if_neg (by rw [ha.owner, hs]; simp), if_neg (by simp [inAuth_of_mem hin]),
        if_neg (fun hn => hn hjust')]
    rw [e]
    exact ⟨rfl, agree_move ha hgood happr hoper hlt hnx hf.cons⟩
  | approve ap a id lu =>
    obtain ⟨hk, ha', hid, hlu⟩ := hd
    obtain ⟨hin, ow, hs, hjust⟩ := hf.approve ap a id lu rfl
    have h0 : l.arg 0 = ap := by simp [Line.arg, ha']
    have h1 : l.arg 1 = a := by simp [Line.arg, ha']
    obtain ⟨ow', hs', hc⟩ : ∃ o, spec id = some o ∧ approveForOwner cfg ms.core o ap a id lu = .ok ms'.core := hcore
    have hn : ms'.core.now = ms.core.now := (approveForOwner_ok hc).2.2.2.2.1
    have hjust' : ap = ow ∨ liveOper m o.now ow ap = true := by
      rw [hnow, hn]
      rcases hjust with e | e
      · exact Or.inl e
      · exact Or.inr (liveOper_of_isApprovedForAll ha e)
    have e : trackAccepted m l o = (apprStep m l, none) := by
      unfold trackAccepted; rw [hk]; simp only
      unfold trackApprove
      rw [hid, ha.owner, hs]
      simp only
      rw [h0, if_neg (by simp [inAuth_of_mem hin]), if_neg (fun hn => hn hjust')]
    rw [e]
    exact ⟨rfl, agree_approve ha hgood hc hid hlu h1 hf.cons⟩
  | approveForAll ow p lu =>
    obtain ⟨hk, ha', hlu⟩ := hd
    have hin := hf.grant ow p lu rfl
    have h0 : l.arg 0 = ow := by simp [Line.arg, ha']
    have h1 : l.arg 1 = p := by simp [Line.arg, ha']
    have hc : approveForAll cfg ms.core l.auth ow p lu = .ok ms'.core := hcore
    have e : trackAccepted m l o = (operStep m l, none) := by
      unfold trackAccepted; rw [hk]; simp only
      unfold trackApproveForAll
      rw [h0, if_neg (by simp [inAuth_of_mem hin])]
    rw [e]
    exact ⟨rfl, agree_grant ha hgood hc h0 h1 hlu hf.cons⟩
  | advance n =>
    obtain ⟨hk, _⟩ := hd
    have hc : ms'.core = ms.core.advance n := hcore
    have e : trackAccepted m l o = (m, none) := by
      unfold trackAccepted; rw [hk]
    rw [e]
    have hnx := hf.other (fun _ e => by cases e) (fun _ _ e => by cases e)
    exact ⟨rfl, agree_same ha hgood (by rw [hc]; rfl) (by rw [hc]; rfl) hnx hf.cons⟩


theorem mem_apprList {c : Core} {qa : List Nat} {p : Nat × Nat} (h : p ∈ apprList c qa) :
    getApproved c p.1 = some p.2 := by
  unfold apprList at h
  obtain ⟨id, _, hid⟩ := List.mem_filterMap.mp h
  cases hg : getApproved c id with
  | none => rw [hg] at hid; cases hid
  | some a => rw [hg] at hid; injection hid with hid; subst hid; exact hg

theorem mem_oprList {c : Core} {p : Nat × Nat} (h : p ∈ oprList c) : isApprovedForAll c p.1 p.2 = true := by
  unfold oprList at h
  obtain ⟨o, _, h⟩ := List.mem_flatMap.mp h
  obtain ⟨q, _, hq⟩ := List.mem_filterMap.mp h
  split at hq
  · rename_i hc; injection hq with hq; subst hq; exact hc
  · cases hq

theorem vStaleAppr_none {m : Mon} {ms : MState} {spec : Nat → Option Nat} (ha : Agree m ms spec) {o : Obs}
    {qa : List Nat} (happr : o.appr = apprList ms.core qa) (hnow : o.now = ms.core.now) : vStaleAppr m o = none := by
  unfold vStaleAppr
  have : o.appr.find? (fun (x : Nat × Nat) => decide (liveAppr m o.now x.1 ≠ some x.2)) = none := by
    rw [List.find?_eq_none]
    intro p hp
    rw [happr] at hp
    have := liveAppr_of_getApproved ha (mem_apprList hp)
    rw [hnow]
    simp [this]
  have e : (fun (x : Nat × Nat) => match x with | (id, ap) => decide (liveAppr m o.now id ≠ some ap))
      = (fun (x : Nat × Nat) => decide (liveAppr m o.now x.1 ≠ some x.2)) := by
    funext x; rfl
  rw [e, this]

theorem vStaleOper_none {m : Mon} {ms : MState} {spec : Nat → Option Nat} (ha : Agree m ms spec) {o : Obs}
    (hopr : o.opr = oprList ms.core) (hnow : o.now = ms.core.now) : vStaleOper m o = none := by
  unfold vStaleOper
  have : o.opr.find? (fun (x : Nat × Nat) => decide (¬ liveOper m o.now x.1 x.2 = true)) = none := by
    rw [List.find?_eq_none]
    intro p hp
    rw [hopr] at hp
    have := liveOper_of_isApprovedForAll ha (mem_oprList hp)
    rw [hnow]
    simp [this]
  have e : (fun (x : Nat × Nat) => match x with | (ow, p) => decide (¬ liveOper m o.now ow p = true))
      = (fun (x : Nat × Nat) => decide (¬ liveOper m o.now x.1 x.2 = true)) := by
    funext x; rfl
  rw [e, this]

/-- the observation checks are silent on a model observation whose state `Agree`s with the monitor -/
theorem answers_none {m : Mon} {ms : MState} {spec : Nat → Option Nat} (ha : Agree m ms spec) (l : Line) (o : Obs)
    (happr : o.appr = apprList ms.core l.qa) (hopr : o.opr = oprList ms.core) (hnow : o.now = ms.core.now)
    (hmoved : moved l o = true → l.id ∈ l.qa ∧ getApproved ms.core l.id = none) : answers m l o = none := by
  unfold answers
  rw [if_neg, if_neg, vStaleAppr_none ha happr hnow]
  · exact vStaleOper_none ha hopr hnow
  · rintro ⟨hm, hany⟩
    obtain ⟨p, hp, hpe⟩ := List.any_eq_true.mp hany
    rw [happr] at hp
    have h1 := mem_apprList hp
    have h2 : p.1 = l.id := by simpa using hpe
    rw [h2, (hmoved hm).2] at h1
    cases h1
  · rintro ⟨hm, hnc⟩
    exact hnc (List.contains_iff_mem.mpr (hmoved hm).1)


/-- an accepted transfer / burn (as the monitor recognises it from the op line) names a token whose
approval entry is gone afterwards -/
theorem moved_cleared {cfg : Cfg} {ms ms' : MState} {spec : Nat → Option Nat} {l : Line} {op : Op}
    {r : Option Nat} (hg : Good ms spec) (hl : l.op = some op) (h : ms.apply cfg l.auth op = .ok (ms', r))
    (o : Obs) (hm : moved l o = true) :
    (∃ f, op.moves = some (f, l.id)) ∧ ms'.core.approval l.id = none := by
  have hf := mstate_step cfg hg h
  have hd := Line.op_inv hl
  have hcore := hf.core
  unfold moved at hm
  cases op with
  | mintSeq to => obtain ⟨hk, _⟩ := hd; simp [hk] at hm
  | mint to id => obtain ⟨hk, _⟩ := hd; simp [hk] at hm
  | batchMint to n => obtain ⟨hk, _⟩ := hd; simp [hk] at hm
  | approve ap a id lu => obtain ⟨hk, _⟩ := hd; simp [hk] at hm
  | approveForAll ow p lu => obtain ⟨hk, _⟩ := hd; simp [hk] at hm
  | advance n => obtain ⟨hk, _⟩ := hd; simp [hk] at hm
  | transfer f t id =>
    obtain ⟨_, _, hid⟩ := hd
    obtain ⟨_, happr, _, _⟩ : MoveStep ms.core ms'.core f (some t) id := hcore
    exact ⟨⟨f, by rw [hid]; rfl⟩, by rw [happr, hid]; exact upd_same _ _ _⟩
  | transferFrom sp f t id =>
    obtain ⟨_, _, hid⟩ := hd
    obtain ⟨_, happr, _, _⟩ : MoveStep ms.core ms'.core f (some t) id := hcore
    exact ⟨⟨f, by rw [hid]; rfl⟩, by rw [happr, hid]; exact upd_same _ _ _⟩
  | burn f id =>
    obtain ⟨_, _, hid⟩ := hd
    obtain ⟨_, happr, _, _⟩ : MoveStep ms.core ms'.core f none id := hcore
    exact ⟨⟨f, by rw [hid]; rfl⟩, by rw [happr, hid]; exact upd_same _ _ _⟩
  | burnFrom sp f id =>
    obtain ⟨_, _, hid⟩ := hd
    obtain ⟨_, happr, _, _⟩ : MoveStep ms.core ms'.core f none id := hcore
    exact ⟨⟨f, by rw [hid]; rfl⟩, by rw [happr, hid]; exact upd_same _ _ _⟩


end OZ.NftMon.Auth
