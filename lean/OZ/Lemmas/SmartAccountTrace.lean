import OZ.Model.SmartAccount
/-
`checkTrace` (the external-call trace the driver compares with the mock contracts' logs) and
`doCheckAuth` (the function the C03 theorems are about) are two views of the same evaluation.
-/
namespace OZ.SmartAccount

def isEnforce : Event → Bool
  | .enforce _ _ _ _ => true
  | _ => false

theorem authTrace_snd (O : Oracle) (sigs : List (Signer × Nat)) :
    (authTrace O sigs).2 = (authenticate O sigs).toBool := by
  induction sigs with
  | nil => rfl
  | cons a t ih =>
    obtain ⟨x, g⟩ := a
    unfold authTrace authenticate
    by_cases h : sigOk O x g = true
    · rw [if_pos h, if_pos h]; exact ih
    · rw [if_neg h, if_neg h]; rfl

theorem authTrace_noEnforce (O : Oracle) (sigs : List (Signer × Nat)) :
    (authTrace O sigs).1.filter isEnforce = [] := by
  induction sigs with
  | nil => rfl
  | cons a t ih =>
    obtain ⟨x, g⟩ := a
    unfold authTrace
    have hs : (sigEvent x g).filter isEnforce = [] := by cases x <;> simp [sigEvent, isEnforce]
    by_cases h : sigOk O x g = true
    · rw [if_pos h]; simp only [List.filter_append, hs, ih, List.append_nil]
    · rw [if_neg h]; exact hs

theorem canTrace_snd (O : Oracle) (ctx : Ctx) (r : Rule) (m : List Signer) (ps : List Nat) :
    (canTrace O ctx r m ps).2 = ps.all (fun p => O.can p ctx m r) := by
  induction ps with
  | nil => rfl
  | cons p t ih =>
    unfold canTrace
    by_cases h : O.can p ctx m r = true
    · rw [if_pos h, List.all_cons, h, Bool.true_and]; exact ih
    · have : O.can p ctx m r = false := by simpa using h
      rw [if_neg h, List.all_cons, this]; rfl

theorem canTrace_noEnforce (O : Oracle) (ctx : Ctx) (r : Rule) (m : List Signer) (ps : List Nat) :
    (canTrace O ctx r m ps).1.filter isEnforce = [] := by
  induction ps with
  | nil => rfl
  | cons p t ih =>
    unfold canTrace
    by_cases h : O.can p ctx m r = true
    · rw [if_pos h]
      show List.filter isEnforce (Event.can p r ctx m :: (canTrace O ctx r m t).1) = []
      rw [List.filter_cons_of_neg (by simp [isEnforce])]; exact ih
    · rw [if_neg h]; rfl

theorem ruleTrace_snd (O : Oracle) (ctx : Ctx) (all : List Signer) (r : Rule) :
    (ruleTrace O ctx all r).2 = ruleMatches O ctx all r := by
  unfold ruleTrace ruleMatches canEnforceAllPolicies
  by_cases h : r.policies.isEmpty = true
  · rw [if_pos h, if_pos h]
  · rw [if_neg h, if_neg h]; exact canTrace_snd O ctx r _ _

theorem ruleTrace_noEnforce (O : Oracle) (ctx : Ctx) (all : List Signer) (r : Rule) :
    (ruleTrace O ctx all r).1.filter isEnforce = [] := by
  unfold ruleTrace
  by_cases h : r.policies.isEmpty = true
  · rw [if_pos h]; rfl
  · rw [if_neg h]; exact canTrace_noEnforce O ctx r _ _

theorem rulesTrace_snd (O : Oracle) (ctx : Ctx) (all : List Signer) (rs : List Rule) :
    (rulesTrace O ctx all rs).2 = rs.find? (ruleMatches O ctx all) := by
  induction rs with
  | nil => rfl
  | cons r t ih =>
    unfold rulesTrace
    by_cases h : (ruleTrace O ctx all r).2 = true
    · have h' : ruleMatches O ctx all r = true := by rw [← ruleTrace_snd]; exact h
      rw [if_pos h, List.find?_cons_of_pos h']
    · have h' : ¬ ruleMatches O ctx all r = true := by rw [← ruleTrace_snd]; exact h
      rw [if_neg h, List.find?_cons_of_neg h']; exact ih

theorem rulesTrace_noEnforce (O : Oracle) (ctx : Ctx) (all : List Signer) (rs : List Rule) :
    (rulesTrace O ctx all rs).1.filter isEnforce = [] := by
  induction rs with
  | nil => rfl
  | cons r t ih =>
    unfold rulesTrace
    by_cases h : (ruleTrace O ctx all r).2 = true
    · rw [if_pos h]; exact ruleTrace_noEnforce O ctx all r
    · rw [if_neg h]
      show List.filter isEnforce ((ruleTrace O ctx all r).1 ++ (rulesTrace O ctx all t).1) = []
      rw [List.filter_append, ruleTrace_noEnforce, ih]; rfl

theorem ctxTrace_snd (O : Oracle) (s : Store) (now : Nat) (all : List Signer) (c : Ctx) :
    (ctxTrace O s now all c).2 = (getValidatedContext O s now c all).toOption := by
  unfold ctxTrace getValidatedContext
  cases hv : getValidContextRules s now (typeOf c) with
  | error e => rfl
  | ok rules =>
    dsimp only
    have := rulesTrace_snd O c all rules
    cases hr : (rulesTrace O c all rules).2 with
    | none => rw [hr] at this; rw [← this]; rfl
    | some r => rw [hr] at this; rw [← this]; rfl

theorem ctxTrace_noEnforce (O : Oracle) (s : Store) (now : Nat) (all : List Signer) (c : Ctx) :
    (ctxTrace O s now all c).1.filter isEnforce = [] := by
  unfold ctxTrace
  cases hv : getValidContextRules s now (typeOf c) with
  | error e => rfl
  | ok rules =>
    dsimp only
    cases hr : (rulesTrace O c all rules).2 with
    | none => exact rulesTrace_noEnforce O c all rules
    | some r => exact rulesTrace_noEnforce O c all rules

theorem ctxsTrace_snd (O : Oracle) (s : Store) (now : Nat) (all : List Signer) (ctxs : List Ctx) :
    (ctxsTrace O s now all ctxs).2 = (validateAll O s now all ctxs).toOption := by
  induction ctxs with
  | nil => rfl
  | cons c t ih =>
    unfold ctxsTrace validateAll
    have h1 := ctxTrace_snd O s now all c
    cases hc : (ctxTrace O s now all c).2 with
    | none =>
      rw [hc] at h1
      cases hg : getValidatedContext O s now c all with
      | error e => rfl
      | ok v => rw [hg] at h1; cases h1
    | some v =>
      rw [hc] at h1
      cases hg : getValidatedContext O s now c all with
      | error e => rw [hg] at h1; cases h1
      | ok v' =>
        rw [hg] at h1
        have hv : v = v' := by injection h1
        subst hv
        dsimp only
        cases ht : (ctxsTrace O s now all t).2 with
        | none =>
          rw [ht] at ih
          cases hr : validateAll O s now all t with
          | error e => rfl
          | ok vs => rw [hr] at ih; cases ih
        | some vs =>
          rw [ht] at ih
          cases hr : validateAll O s now all t with
          | error e => rw [hr] at ih; cases ih
          | ok vs' =>
            rw [hr] at ih
            have : vs = vs' := by injection ih
            subst this; rfl

theorem ctxsTrace_noEnforce (O : Oracle) (s : Store) (now : Nat) (all : List Signer) (ctxs : List Ctx) :
    (ctxsTrace O s now all ctxs).1.filter isEnforce = [] := by
  induction ctxs with
  | nil => rfl
  | cons c t ih =>
    unfold ctxsTrace
    cases hc : (ctxTrace O s now all c).2 with
    | none => exact ctxTrace_noEnforce O s now all c
    | some v =>
      dsimp only
      cases ht : (ctxsTrace O s now all t).2 with
      | none => simp only [List.filter_append, ctxTrace_noEnforce, ih]; rfl
      | some vs => simp only [List.filter_append, ctxTrace_noEnforce, ih]; rfl

theorem enforceTrace_snd (O : Oracle) (hist calls : List EnfCall) :
    (enforceTrace O hist calls).2 = (enforceLoop O hist calls).toBool := by
  induction calls generalizing hist with
  | nil => rfl
  | cons c t ih =>
    unfold enforceTrace enforceLoop
    by_cases h : O.enf hist c = true
    · rw [if_pos h, if_pos h]; exact ih _
    · rw [if_neg h, if_neg h]; rfl

theorem enforceTrace_ok (O : Oracle) (hist calls : List EnfCall) (h : (enforceTrace O hist calls).2 = true) :
    (enforceTrace O hist calls).1 = calls.map enfEvent := by
  induction calls generalizing hist with
  | nil => rfl
  | cons c t ih =>
    unfold enforceTrace at h ⊢
    by_cases hc : O.enf hist c = true
    · rw [if_pos hc] at h ⊢
      show enfEvent c :: (enforceTrace O (hist ++ [c]) t).1 = _
      rw [ih _ h]; rfl
    · rw [if_neg hc] at h; cases h

theorem filter_enfEvents (calls : List EnfCall) : (calls.map enfEvent).filter isEnforce = calls.map enfEvent := by
  induction calls with
  | nil => rfl
  | cons c t ih => simp only [List.map_cons]; rw [List.filter_cons_of_pos (by simp [enfEvent, isEnforce]), ih]

end OZ.SmartAccount
