import OZ.Model.FeeForwarder
import OZ.Lemmas.Fungible
import OZ.Lemmas.FungibleAuth
/-
Helper lemmas for the fee-forwarder model: the allow-list invariant (the two maps are
mutually inverse and the indices are gap-free), its preservation by allow / disallow
(swap-and-pop), and exact descriptions of successful `collect_fee` /
`collect_fee_and_invoke` runs.
-/
namespace OZ.FeeForwarder
open OZ.Host

/-! ### generic -/

theorem upd_same {β} (f : Nat → β) (a : Nat) (v : β) : upd f a v a = v := by simp [upd]
theorem upd_other {β} (f : Nat → β) (a x : Nat) (v : β) (h : x ≠ a) : upd f a v x = f x := by
  simp [upd, h]

theorem bind_ok {ε α β} {x : Except ε α} {f : α → Except ε β} {v : β}
    (h : (x >>= f) = .ok v) : ∃ a, x = .ok a ∧ f a = .ok v := by
  cases x with
  | error e => cases h
  | ok a => exact ⟨a, rfl, h⟩

theorem ensure_ok {b : Bool} {e : Err} {u : Unit} (h : ensure b e = .ok u) : b = true := by
  unfold ensure at h
  split at h
  · assumption
  · cases h

theorem ensure_true (e : Err) : ensure true e = .ok () := rfl

theorem liftTok_ok {s s' : State} {t : Nat} {r : Except OZ.Fungible.Err OZ.Fungible.State}
    (h : liftTok s t r = .ok s') : ∃ ts, r = .ok ts ∧ s' = { s with toks := upd s.toks t ts } := by
  unfold liftTok at h
  split at h
  · rename_i ts
    injection h with h
    exact ⟨ts, rfl, h.symm⟩
  · cases h

theorem filterMap_length_of_isSome {α β} (f : α → Option β) (l : List α)
    (h : ∀ x ∈ l, (f x).isSome = true) : (l.filterMap f).length = l.length := by
  induction l with
  | nil => rfl
  | cons x xs ih =>
    have hx := h x (List.mem_cons_self)
    have hxs : ∀ y ∈ xs, (f y).isSome = true := fun y hy => h y (List.mem_cons_of_mem _ hy)
    cases hfx : f x with
    | none => rw [hfx] at hx; cases hx
    | some b => simp [hfx, ih hxs]

/-! ### the allow-list invariant -/

/-- `Token(i)` and `TokenIndex(t)` are mutually inverse, and exactly the indices below
`count` are occupied -/
structure WF (al : AllowList) : Prop where
  fwd : ∀ i t, al.tokenAt i = some t → i < al.count ∧ al.indexOf t = some i
  bwd : ∀ t i, al.indexOf t = some i → i < al.count ∧ al.tokenAt i = some t
  full : ∀ i, i < al.count → ∃ t, al.tokenAt i = some t
  bound : al.count ≤ U32_MAX

theorem wf_empty : WF AllowList.empty :=
  ⟨fun _ _ h => (by cases h), fun _ _ h => (by cases h), fun i h => (by cases h), (by simp [AllowList.empty, U32_MAX])⟩

/-- what a successful `allow` does -/
theorem allowToken_ok {al al' : AllowList} {t : Nat} (h : allowToken al t = .ok al') :
    al.indexOf t = none ∧ al.count + 1 ≤ U32_MAX ∧
    al' = { count := al.count + 1, tokenAt := upd al.tokenAt al.count (some t),
            indexOf := upd al.indexOf t (some al.count) } := by
  unfold allowToken at h
  split at h
  · cases h
  · rename_i hn
    split at h
    · rename_i hb
      injection h with h
      refine ⟨?_, hb, h.symm⟩
      cases hi : al.indexOf t with
      | none => rfl
      | some _ => rw [hi] at hn; simp at hn
    · cases h

theorem allowToken_spec {al : AllowList} {t : Nat} (hn : al.indexOf t = none)
    (hb : al.count + 1 ≤ U32_MAX) :
    allowToken al t = .ok { count := al.count + 1, tokenAt := upd al.tokenAt al.count (some t),
                            indexOf := upd al.indexOf t (some al.count) } := by
  unfold allowToken
  rw [hn]
  simp [hb]

theorem allow_wf {al : AllowList} (w : WF al) {t : Nat} (hn : al.indexOf t = none)
    (hb : al.count + 1 ≤ U32_MAX) :
    WF { count := al.count + 1, tokenAt := upd al.tokenAt al.count (some t),
         indexOf := upd al.indexOf t (some al.count) } := by
  refine ⟨?_, ?_, ?_, hb⟩
  · intro i t' h
    dsimp only at h ⊢
    by_cases hi : i = al.count
    · subst hi
      rw [upd_same] at h
      injection h with h; subst h
      exact ⟨by omega, upd_same _ _ _⟩
    · rw [upd_other _ _ _ _ hi] at h
      obtain ⟨h1, h2⟩ := w.fwd i t' h
      have : t' ≠ t := fun e => by subst e; rw [hn] at h2; cases h2
      exact ⟨by omega, by rw [upd_other _ _ _ _ this]; exact h2⟩
  · intro t' i h
    dsimp only at h ⊢
    by_cases ht : t' = t
    · subst ht
      rw [upd_same] at h
      injection h with h; subst h
      exact ⟨by omega, upd_same _ _ _⟩
    · rw [upd_other _ _ _ _ ht] at h
      obtain ⟨h1, h2⟩ := w.bwd t' i h
      have : i ≠ al.count := by omega
      exact ⟨by omega, by rw [upd_other _ _ _ _ this]; exact h2⟩
  · intro i hi
    dsimp only at hi ⊢
    by_cases hc : i = al.count
    · subst hc; exact ⟨t, upd_same _ _ _⟩
    · obtain ⟨t', ht'⟩ := w.full i (by omega)
      exact ⟨t', by rw [upd_other _ _ _ _ hc]; exact ht'⟩

/-- the result of removing `t` (stored at index `ri`) by swap-and-pop -/
def removed (al : AllowList) (t ri : Nat) : AllowList :=
  if ri = al.count - 1 then popLast al t (al.count - 1)
  else
    match al.tokenAt (al.count - 1) with
    | some lt => popLast { al with tokenAt := upd al.tokenAt ri (some lt), indexOf := upd al.indexOf lt (some ri) } t (al.count - 1)
    | none => al

/-- under the invariant a removal of a member never panics and yields `removed` -/
theorem disallow_spec {al : AllowList} (w : WF al) {t ri : Nat} (hi : al.indexOf t = some ri) :
    disallowToken al t = .ok (removed al t ri) := by
  obtain ⟨hlt, _⟩ := w.bwd t ri hi
  unfold disallowToken
  rw [hi]
  dsimp only
  unfold removeAt
  have hc : ¬ al.count = 0 := by omega
  rw [if_neg hc]
  unfold moveLast removed
  by_cases hr : ri = al.count - 1
  · rw [if_pos hr, if_pos hr]
  · rw [if_neg hr, if_neg hr]
    obtain ⟨lt, hl⟩ := w.full (al.count - 1) (by omega)
    rw [hl]

theorem removed_wf {al : AllowList} (w : WF al) {t ri : Nat} (hi : al.indexOf t = some ri) :
    WF (removed al t ri) ∧ (removed al t ri).count = al.count - 1 ∧
    (∀ x, ((removed al t ri).indexOf x).isSome = true ↔ (x ≠ t ∧ (al.indexOf x).isSome = true)) := by
  obtain ⟨hlt, hat⟩ := w.bwd t ri hi
  have hb := w.bound
  unfold removed
  by_cases hr : ri = al.count - 1
  · rw [if_pos hr]
    unfold popLast
    refine ⟨⟨?_, ?_, ?_, by dsimp only; omega⟩, rfl, ?_⟩
    · intro i t' h
      dsimp only at h ⊢
      by_cases hil : i = al.count - 1
      · subst hil; rw [upd_same] at h; cases h
      · rw [upd_other _ _ _ _ hil] at h
        obtain ⟨h1, h2⟩ := w.fwd i t' h
        have : t' ≠ t := fun e => by subst e; rw [hi] at h2; injection h2 with h2; omega
        exact ⟨by omega, by rw [upd_other _ _ _ _ this]; exact h2⟩
    · intro t' i h
      dsimp only at h ⊢
      by_cases ht : t' = t
      · subst ht; rw [upd_same] at h; cases h
      · rw [upd_other _ _ _ _ ht] at h
        obtain ⟨h1, h2⟩ := w.bwd t' i h
        have : i ≠ al.count - 1 := fun e => by
          subst e; rw [← hr, hat] at h2; injection h2 with h2; exact ht h2.symm
        exact ⟨by omega, by rw [upd_other _ _ _ _ this]; exact h2⟩
    · intro i hil
      dsimp only at hil ⊢
      obtain ⟨t', ht'⟩ := w.full i (by omega)
      exact ⟨t', by rw [upd_other _ _ _ _ (by omega)]; exact ht'⟩
    · intro x
      dsimp only
      by_cases hx : x = t
      · subst hx; rw [upd_same]; simp
      · rw [upd_other _ _ _ _ hx]; simp [hx]
  · rw [if_neg hr]
    obtain ⟨lt, hl⟩ := w.full (al.count - 1) (by omega)
    obtain ⟨_, hil⟩ := w.fwd _ _ hl
    rw [hl]
    dsimp only
    have hltt : lt ≠ t := fun e => by subst e; rw [hi] at hil; injection hil with hil; exact hr hil
    unfold popLast
    refine ⟨⟨?_, ?_, ?_, by dsimp only; omega⟩, rfl, ?_⟩
    · intro i t' h
      dsimp only at h ⊢
      by_cases hlast : i = al.count - 1
      · subst hlast; rw [upd_same] at h; cases h
      · rw [upd_other _ _ _ _ hlast] at h
        by_cases hiri : i = ri
        · subst hiri
          rw [upd_same] at h; injection h with h; subst h
          exact ⟨by omega, by rw [upd_other _ _ _ _ hltt, upd_same]⟩
        · rw [upd_other _ _ _ _ hiri] at h
          obtain ⟨h1, h2⟩ := w.fwd i t' h
          have n1 : t' ≠ t := fun e => by subst e; rw [hi] at h2; injection h2 with h2; exact hiri h2.symm
          have n2 : t' ≠ lt := fun e => by subst e; rw [hil] at h2; injection h2 with h2; exact hlast h2.symm
          exact ⟨by omega, by rw [upd_other _ _ _ _ n1, upd_other _ _ _ _ n2]; exact h2⟩
    · intro t' i h
      dsimp only at h ⊢
      by_cases ht : t' = t
      · subst ht; rw [upd_same] at h; cases h
      · rw [upd_other _ _ _ _ ht] at h
        by_cases hl2 : t' = lt
        · subst hl2
          rw [upd_same] at h; injection h with h; subst h
          exact ⟨by omega, by rw [upd_other _ _ _ _ hr, upd_same]⟩
        · rw [upd_other _ _ _ _ hl2] at h
          obtain ⟨h1, h2⟩ := w.bwd t' i h
          have n1 : i ≠ ri := fun e => by subst e; rw [hat] at h2; injection h2 with h2; exact ht h2.symm
          have n2 : i ≠ al.count - 1 := fun e => by subst e; rw [hl] at h2; injection h2 with h2; exact hl2 h2.symm
          exact ⟨by omega, by rw [upd_other _ _ _ _ n2, upd_other _ _ _ _ n1]; exact h2⟩
    · intro i hil2
      dsimp only at hil2 ⊢
      have n2 : i ≠ al.count - 1 := by omega
      by_cases hiri : i = ri
      · subst hiri; exact ⟨lt, by rw [upd_other _ _ _ _ n2, upd_same]⟩
      · obtain ⟨t', ht'⟩ := w.full i (by omega)
        exact ⟨t', by rw [upd_other _ _ _ _ n2, upd_other _ _ _ _ hiri]; exact ht'⟩
    · intro x
      dsimp only
      by_cases hx : x = t
      · subst hx; rw [upd_same]; simp
      · rw [upd_other _ _ _ _ hx]
        by_cases hxl : x = lt
        · subst hxl; rw [upd_same, hil]; simp [hx]
        · rw [upd_other _ _ _ _ hxl]; simp [hx]

/-- a successful `disallow` removed a member -/
theorem disallowToken_ok {al al' : AllowList} {t : Nat} (h : disallowToken al t = .ok al') :
    ∃ ri, al.indexOf t = some ri := by
  unfold disallowToken at h
  split at h
  · cases h
  · rename_i ri hi; exact ⟨ri, hi⟩

/-- `set_allowed_fee_token` preserves the invariant -/
theorem setAllowed_wf {al al' : AllowList} (w : WF al) {t : Nat} {a : Bool}
    (h : setAllowed al t a = .ok al') : WF al' := by
  unfold setAllowed at h
  split at h
  · obtain ⟨hn, hb, e⟩ := allowToken_ok h
    subst e
    exact allow_wf w hn hb
  · obtain ⟨ri, hi⟩ := disallowToken_ok h
    rw [disallow_spec w hi] at h
    injection h with h; subst h
    exact (removed_wf w hi).1

/-! ### enumeration of a well-formed allow-list -/

theorem mem_enumerate {al : AllowList} (w : WF al) (t : Nat) :
    t ∈ enumerate al ↔ (al.indexOf t).isSome = true := by
  unfold enumerate
  rw [List.mem_filterMap]
  constructor
  · rintro ⟨i, _, hi⟩
    rw [(w.fwd i t hi).2]; rfl
  · intro h
    cases hi : al.indexOf t with
    | none => rw [hi] at h; cases h
    | some i =>
      obtain ⟨h1, h2⟩ := w.bwd t i hi
      exact ⟨i, List.mem_range.mpr h1, h2⟩

theorem enumerate_nodup {al : AllowList} (w : WF al) : (enumerate al).Nodup := by
  unfold enumerate
  apply List.Pairwise.filterMap al.tokenAt _ (List.nodup_range (n := al.count))
  intro a a' hne b hb b' hb' e
  subst e
  have h1 := (w.fwd a b hb).2
  have h2 := (w.fwd a' b hb').2
  rw [h1] at h2
  injection h2 with h2
  exact hne h2

theorem enumerate_length {al : AllowList} (w : WF al) : (enumerate al).length = al.count := by
  unfold enumerate
  rw [filterMap_length_of_isSome, List.length_range]
  intro i hi
  obtain ⟨t, ht⟩ := w.full i (List.mem_range.mp hi)
  rw [ht]; rfl

theorem enumerate_nil_iff {al : AllowList} (w : WF al) : enumerate al = [] ↔ al.count = 0 := by
  rw [← enumerate_length w]
  exact List.length_eq_zero_iff.symm

/-! ### fungible token facts used by the fee collection -/

open OZ.Fungible in
theorem transferFrom_ok {c : Cfg} {s s' : OZ.Fungible.State} {auth : List Nat} {sp f t : Nat} {amt : Int}
    (h : transferFrom c s auth sp f t amt = .ok s') :
    sp ∈ auth ∧ 0 ≤ amt ∧ amt ≤ s.bal f ∧ s'.supply = s.supply ∧ s'.now = s.now ∧
    s'.bal = upd (upd s.bal f (s.bal f - amt)) t ((upd s.bal f (s.bal f - amt)) t + amt) ∧
    (∀ x y, ¬ (x = f ∧ y = sp) → s'.allow x y = s.allow x y) ∧
    s'.events = s.events ++ [.transfer f t amt] := by
  obtain ⟨_, ha, h⟩ := bind_eq_ok h
  obtain ⟨s0, h0, h⟩ := bind_eq_ok h
  obtain ⟨s1, h1, h2⟩ := bind_eq_ok h
  injection h2 with h2; subst h2
  have hauth := requireAuth_ok ha
  obtain ⟨e1, e2, e3, e4, e5⟩ := spendAllowance_ok h0
  obtain ⟨hpos, sd, hd, hc⟩ := update_ok h1
  obtain ⟨da, dn, de, hd4⟩ := debit_ok hd
  obtain ⟨ca, cn, ce, hc4⟩ := credit_ok hc
  dsimp only at hd4 hc4
  obtain ⟨hge, hs1, hb1⟩ := hd4
  obtain ⟨hs2, hb2, _⟩ := hc4
  refine ⟨hauth, hpos, by rw [e2] at hge; omega, ?_, ?_, ?_, ?_, ?_⟩
  · simp only [OZ.Fungible.emit]; rw [hs2, hs1, e1]
  · simp only [OZ.Fungible.emit]; rw [cn, dn, e3]
  · simp only [OZ.Fungible.emit]; rw [hb2, hb1, e2]
  · intro x y hxy; simp only [OZ.Fungible.emit]; rw [ca, da]; exact e5 x y hxy
  · simp only [OZ.Fungible.emit]; rw [ce, de, e4]

open OZ.Fungible in
/-- bounds `set_allowance` enforces on a successful approval -/
theorem setAllowance_bounds {c : Cfg} {s s' : OZ.Fungible.State} {o sp : Nat} {amt : Int} {lu : Nat}
    (h : setAllowance c s o sp amt lu = .ok s') :
    0 ≤ amt ∧ lu ≤ c.maxLiveUntil s.now ∧ (0 < amt → s.now ≤ lu) := by
  unfold setAllowance at h
  split at h
  · cases h
  · rename_i h1
    split at h
    · cases h
    · rename_i h2
      refine ⟨by omega, by omega, ?_⟩
      intro hp
      by_cases hl : lu < s.now
      · exact absurd (Or.inr ⟨by omega, hl⟩) h2
      · omega

open OZ.Fungible in
theorem approve_ok {c : Cfg} {s s' : OZ.Fungible.State} {auth : List Nat} {o sp : Nat} {amt : Int} {lu : Nat}
    (h : approve c s auth o sp amt lu = .ok s') :
    o ∈ auth ∧ s'.supply = s.supply ∧ s'.bal = s.bal ∧ s'.now = s.now ∧
    (∀ x y, ¬ (x = o ∧ y = sp) → s'.allow x y = s.allow x y) ∧
    s'.events = s.events ++ [.approve o sp amt lu] ∧
    0 ≤ amt ∧ lu ≤ c.maxLiveUntil s.now ∧ (0 < amt → s.now ≤ lu) := by
  obtain ⟨_, ha, h⟩ := bind_eq_ok h
  obtain ⟨s0, h0, h2⟩ := bind_eq_ok h
  injection h2 with h2; subst h2
  obtain ⟨e1, e2, e3, e4, e5⟩ := setAllowance_ok h0
  obtain ⟨b1, b2, b3⟩ := setAllowance_bounds h0
  refine ⟨requireAuth_ok ha, ?_, ?_, ?_, ?_, ?_, b1, b2, b3⟩
  · simp only [OZ.Fungible.emit]; exact e1
  · simp only [OZ.Fungible.emit]; exact e2
  · simp only [OZ.Fungible.emit]; exact e3
  · intro x y hxy; simp only [OZ.Fungible.emit]; exact e5 x y hxy
  · simp only [OZ.Fungible.emit]; rw [e4]

/-! ### authorization -/

theorem userSigned_iff (au : Auth) (user : Nat) (tp : AuthTuple) :
    userSigned au user tp = true ↔ ∃ ua, au.user = some ua ∧ ua.signer = user ∧ ua.tuple = tp := by
  unfold userSigned
  cases au.user with
  | none => simp
  | some ua => simp

theorem subSigned_iff (au : Auth) (user : Nat) (i : Inv) :
    subSigned au user i = true ↔ ∃ ua, au.user = some ua ∧ ua.signer = user ∧ i ∈ ua.subs := by
  unfold subSigned
  cases au.user with
  | none => simp
  | some ua => simp

theorem requireAuth_mem {au : Auth} {a : Nat} {u : Unit} (h : requireAuth au a = .ok u) : a ∈ au.plain := by
  have := ensure_ok h
  simpa using this

theorem ensureRole_mem {m : List Nat} {a : Nat} {u : Unit} (h : ensureRole m a = .ok u) : a ∈ m := by
  have := ensure_ok h
  simpa using this

/-! ### `collect_fee` -/

theorem validateFeeBounds_ok {fee max : Int} {u : Unit} (h : validateFeeBounds fee max = .ok u) :
    0 < fee ∧ fee ≤ max := by
  unfold validateFeeBounds at h
  split at h
  · cases h
  · omega

theorem validateExpirationLedger_ok {now exp : Nat} {u : Unit}
    (h : validateExpirationLedger now exp = .ok u) : now ≤ exp := by
  unfold validateExpirationLedger at h
  split at h
  · cases h
  · omega

/-- what a state looks like after a call that touched only token `tok` -/
structure TokOnly (s s' : State) (tok : Nat) : Prop where
  al : s'.al = s.al
  now : s'.now = s.now
  calls : s'.calls = s.calls
  events : s'.events = s.events
  others : ∀ t, t ≠ tok → s'.toks t = s.toks t

theorem tokenApprove_ok {p : Params} {s s' : State} {au : Auth} {tok user : Nat} {max : Int} {exp : Nat}
    (h : tokenApprove p s au tok user max exp = .ok s') :
    subSigned au user (approveInv p tok user max exp) = true ∧ TokOnly s s' tok ∧
    (s'.toks tok).supply = (s.toks tok).supply ∧ (s'.toks tok).bal = (s.toks tok).bal ∧
    (s'.toks tok).now = s.now ∧
    (∀ x y, ¬ (x = user ∧ y = p.self) → (s'.toks tok).allow x y = (s.toks tok).allow x y) ∧
    (s'.toks tok).events = (s.toks tok).events ++ [.approve user p.self max exp] ∧
    0 ≤ max ∧ exp ≤ p.cfg.maxLiveUntil s.now ∧ (0 < max → s.now ≤ exp) := by
  unfold tokenApprove at h
  obtain ⟨ts, hr, e⟩ := liftTok_ok h
  subst e
  obtain ⟨ha, a1, a2, a3, a4, a5, a6, a7, a8⟩ := approve_ok hr
  refine ⟨?_, ⟨rfl, rfl, rfl, rfl, fun t ht => upd_other _ _ _ _ ht⟩, ?_, ?_, ?_, ?_, ?_, a6, a7, a8⟩
  · by_cases hs : subSigned au user (approveInv p tok user max exp) = true
    · exact hs
    · rw [if_neg hs] at ha; cases ha
  · dsimp only; rw [upd_same, a1]; rfl
  · dsimp only; rw [upd_same, a2]; rfl
  · dsimp only; rw [upd_same, a3]; rfl
  · intro x y hxy; dsimp only; rw [upd_same, a4 x y hxy]; rfl
  · dsimp only; rw [upd_same, a5]; rfl

/-- facts about the approval step of `collect_fee`, whichever branch ran -/
theorem approveStep_ok {p : Params} {s s' : State} {au : Auth} {tok user : Nat} {max : Int} {exp : Nat}
    {ap : Approval} (hmax : 0 < max) (h : approveStep p s au tok user max exp ap = .ok s') :
    TokOnly s s' tok ∧
    (s'.toks tok).supply = (s.toks tok).supply ∧ (s'.toks tok).bal = (s.toks tok).bal ∧
    (∀ x y, ¬ (x = user ∧ y = p.self) → (s'.toks tok).allow x y = (s.toks tok).allow x y) ∧
    s.now ≤ exp ∧
    ((ap = .eager ∨ OZ.Fungible.allowance (tokAt s tok) user p.self < max) →
      subSigned au user (approveInv p tok user max exp) = true ∧ exp ≤ p.cfg.maxLiveUntil s.now) := by
  have fromApprove : tokenApprove p s au tok user max exp = .ok s' →
      TokOnly s s' tok ∧
      (s'.toks tok).supply = (s.toks tok).supply ∧ (s'.toks tok).bal = (s.toks tok).bal ∧
      (∀ x y, ¬ (x = user ∧ y = p.self) → (s'.toks tok).allow x y = (s.toks tok).allow x y) ∧
      s.now ≤ exp ∧
      ((ap = .eager ∨ OZ.Fungible.allowance (tokAt s tok) user p.self < max) →
        subSigned au user (approveInv p tok user max exp) = true ∧ exp ≤ p.cfg.maxLiveUntil s.now) := by
    intro h
    obtain ⟨a0, a1, a2, a3, _, a5, _, _, a8, a9⟩ := tokenApprove_ok h
    exact ⟨a1, a2, a3, a5, a9 hmax, fun _ => ⟨a0, a8⟩⟩
  cases ap with
  | eager => exact fromApprove h
  | lazy =>
    dsimp only [approveStep] at h
    split at h
    · exact fromApprove h
    · rename_i hge
      split at h
      · cases h
      · rename_i u hv
        injection h with h; subst h
        refine ⟨⟨rfl, rfl, rfl, rfl, fun _ _ => rfl⟩, rfl, rfl, fun _ _ _ => rfl,
          validateExpirationLedger_ok hv, ?_⟩
        rintro (h | h)
        · cases h
        · exact absurd h hge

/-- an exact description of a successful `collect_fee` -/
theorem collectFee_ok {p : Params} {s s' : State} {au : Auth} {tok : Nat} {fee max : Int} {exp : Nat}
    {user rcp : Nat} {ap : Approval}
    (h : collectFee p s au tok fee max exp user rcp ap = .ok s') :
    isAllowedFeeToken s.al tok = true ∧ p.self ≠ user ∧ 0 < fee ∧ fee ≤ max ∧ s.now ≤ exp ∧
    ((ap = .eager ∨ OZ.Fungible.allowance (tokAt s tok) user p.self < max) →
      subSigned au user (approveInv p tok user max exp) = true ∧ exp ≤ p.cfg.maxLiveUntil s.now) ∧
    s'.al = s.al ∧ s'.now = s.now ∧ s'.calls = s.calls ∧
    s'.events = s.events ++ [.feeCollected user rcp tok fee] ∧
    (∀ t, t ≠ tok → s'.toks t = s.toks t) ∧
    (s'.toks tok).supply = (s.toks tok).supply ∧
    fee ≤ (s.toks tok).bal user ∧
    (s'.toks tok).bal = upd (upd (s.toks tok).bal user ((s.toks tok).bal user - fee)) rcp
      ((upd (s.toks tok).bal user ((s.toks tok).bal user - fee)) rcp + fee) ∧
    (∀ x y, ¬ (x = user ∧ y = p.self) → (s'.toks tok).allow x y = (s.toks tok).allow x y) := by
  unfold collectFee at h
  obtain ⟨_, h1, h⟩ := bind_ok h
  obtain ⟨_, h2, h⟩ := bind_ok h
  obtain ⟨_, h3, h⟩ := bind_ok h
  obtain ⟨s1, h4, h⟩ := bind_ok h
  obtain ⟨s2, h5, h⟩ := bind_ok h
  injection h with h; subst h
  have hallowed := ensure_ok h1
  have huser : p.self ≠ user := by simpa using ensure_ok h2
  obtain ⟨hf0, hfm⟩ := validateFeeBounds_ok h3
  obtain ⟨t1, a1, a2, a3, a4, a5⟩ := approveStep_ok (by omega) h4
  unfold tokenTransferFrom at h5
  obtain ⟨ts, hr, e⟩ := liftTok_ok h5
  subst e
  obtain ⟨_, _, b3, b4, _, b6, b7, _⟩ := transferFrom_ok hr
  have hb : (tokAt s1 tok).bal = (s.toks tok).bal := a2
  have hal : (tokAt s1 tok).allow = (s1.toks tok).allow := rfl
  refine ⟨hallowed, huser, hf0, hfm, a4, a5, ?_, ?_, ?_, ?_, ?_, ?_, ?_, ?_, ?_⟩
  · simp only [emit]; exact t1.al
  · simp only [emit]; exact t1.now
  · simp only [emit]; exact t1.calls
  · simp only [emit]; rw [t1.events]
  · intro t ht; simp only [emit]; rw [upd_other _ _ _ _ ht]; exact t1.others t ht
  · simp only [emit]; rw [upd_same, b4]; exact a1
  · rw [hb] at b3; exact b3
  · simp only [emit]; rw [upd_same, b6, hb]
  · intro x y hxy; simp only [emit]; rw [upd_same, b7 x y hxy, hal]; exact a3 x y hxy

theorem ok_bind {ε α β} (a : α) (f : α → Except ε β) : ((Except.ok a : Except ε α) >>= f) = f a := rfl

/-! ### exact allowance bookkeeping of the fee token -/

/-- after a successful `approve` of a positive amount the stored record reads `{amt, lu}` -/
theorem approve_allowanceData {c : Cfg} {s s' : OZ.Fungible.State} {auth : List Nat} {o sp : Nat}
    {amt : Int} {lu : Nat} (h : OZ.Fungible.approve c s auth o sp amt lu = .ok s') (hp : 0 < amt) :
    OZ.Fungible.allowanceData s' o sp = ⟨amt, lu⟩ := by
  obtain ⟨_, s0, hset, e⟩ := OZ.Fungible.approve_ok h
  subst e
  obtain ⟨_, _, hnow, e', he', hv', hlu', _⟩ := OZ.Fungible.setAllowance_entry hset
  obtain ⟨_, _, en, _, _⟩ := OZ.Fungible.setAllowance_ok hset
  have : OZ.Fungible.allowanceData s0 o sp = e'.val :=
    OZ.Fungible.allowanceData_live he' (by rw [en]; have := hlu' hp; have := hnow hp; omega)
      (by rw [hv', en]; exact hnow hp)
  rw [OZ.Fungible.allowanceData_congr_entry (s := s0) (s' := OZ.Fungible.emit s0 _) rfl rfl, this, hv']

/-- a successful `transfer_from` of a positive amount lowers the stored allowance record by
exactly the amount and keeps its `live_until_ledger`; the record's expiry was within the host's
maximum lifetime and the credit stayed inside i128 -/
theorem transferFrom_allowanceData {c : Cfg} {s s' : OZ.Fungible.State} {auth : List Nat} {sp f t : Nat}
    {amt : Int} (h : OZ.Fungible.transferFrom c s auth sp f t amt = .ok s') (hp : 0 < amt) :
    OZ.Fungible.allowanceData s' f sp =
      ⟨(OZ.Fungible.allowanceData s f sp).amount - amt, (OZ.Fungible.allowanceData s f sp).liveUntilLedger⟩ ∧
    amt ≤ (OZ.Fungible.allowanceData s f sp).amount ∧
    (OZ.Fungible.allowanceData s f sp).liveUntilLedger ≤ c.maxLiveUntil s.now ∧
    in128 ((upd s.bal f (s.bal f - amt)) t + amt) := by
  obtain ⟨_, s0, s1, h0, h1, e⟩ := OZ.Fungible.transferFrom_ok h
  subst e
  obtain ⟨_, hle, hc⟩ := OZ.Fungible.spendAllowance_cases h0
  obtain ⟨_, _, _, e, e', he, hl, hx, _, he', hv', hmono, _⟩ := OZ.Fungible.spendAllowance_pos h0 hp
  obtain ⟨_, eb, en, _, _⟩ := OZ.Fungible.spendAllowance_ok h0
  have hd : OZ.Fungible.allowanceData s f sp = e.val := OZ.Fungible.allowanceData_live he hl hx
  have hd0 : OZ.Fungible.allowanceData s0 f sp = e'.val :=
    OZ.Fungible.allowanceData_live he' (by rw [en]; omega) (by rw [hv', en]; exact hx)
  obtain ⟨_, sd, hdeb, hcred⟩ := OZ.Fungible.update_ok h1
  obtain ⟨da, dn, _, hd4⟩ := OZ.Fungible.debit_ok hdeb
  obtain ⟨ca, cn, _, hc4⟩ := OZ.Fungible.credit_ok hcred
  dsimp only at hd4 hc4
  refine ⟨?_, hle, ?_, ?_⟩
  · rw [OZ.Fungible.allowanceData_congr_entry (s := s0) (s' := OZ.Fungible.emit s1 _) (by simp only [OZ.Fungible.emit]; rw [ca, da])
      (by simp only [OZ.Fungible.emit]; rw [cn, dn]), hd0, hv', hd]
  · rcases hc with ⟨_, hset⟩ | ⟨hz, _⟩
    · exact (OZ.Fungible.setAllowance_entry hset).2.1
    · omega
  · have := hc4.2.2
    rw [hd4.2.2, eb] at this
    exact this

theorem approve_succeeds (c : Cfg) (s : OZ.Fungible.State) (auth : List Nat) (o sp : Nat) (amt : Int)
    (lu : Nat) (ha : o ∈ auth) (h0 : 0 ≤ amt) (h1 : lu ≤ c.maxLiveUntil s.now) (h2 : 0 < amt → s.now ≤ lu) :
    ∃ s', OZ.Fungible.approve c s auth o sp amt lu = .ok s' := by
  obtain ⟨s0, hs0⟩ := OZ.Fungible.setAllowance_succeeds c s o sp amt lu (by omega)
    (by rintro (h | ⟨h, h'⟩)
        · omega
        · have := h2 h; omega)
  rw [OZ.Fungible.approve_eq_of_auth ha, hs0]
  exact ⟨_, rfl⟩

theorem transferFrom_succeeds (c : Cfg) (s : OZ.Fungible.State) (auth : List Nat) (sp f t : Nat) (amt : Int)
    (ha : sp ∈ auth) (hp : 0 < amt) (hal : amt ≤ (OZ.Fungible.allowanceData s f sp).amount)
    (hlu : (OZ.Fungible.allowanceData s f sp).liveUntilLedger ≤ c.maxLiveUntil s.now)
    (hb : amt ≤ s.bal f) (hov : in128 ((upd s.bal f (s.bal f - amt)) t + amt)) :
    ∃ s', OZ.Fungible.transferFrom c s auth sp f t amt = .ok s' := by
  have hne : OZ.Fungible.allowance s f sp ≠ 0 := by unfold OZ.Fungible.allowance; omega
  obtain ⟨e, _, _, hx, hd⟩ := OZ.Fungible.allowance_ne_zero_unexpired hne
  obtain ⟨s0, hs0⟩ := OZ.Fungible.setAllowance_succeeds c s f sp
    ((OZ.Fungible.allowanceData s f sp).amount - amt) (OZ.Fungible.allowanceData s f sp).liveUntilLedger
    (by omega) (by rw [hd]; rw [hd] at hlu; rintro (h | ⟨_, h'⟩) <;> omega)
  obtain ⟨_, eb, _, _, _⟩ := OZ.Fungible.setAllowance_ok hs0
  have hsp : OZ.Fungible.spendAllowance c s f sp amt = .ok s0 := by
    unfold OZ.Fungible.spendAllowance
    rw [if_neg (by omega)]
    dsimp only
    rw [if_neg (by omega), if_pos (by omega)]
    exact hs0
  have hra : OZ.Fungible.requireAuth auth sp = .ok () := by
    unfold OZ.Fungible.requireAuth; rw [if_pos ha]
  have hupd : ∃ s1, OZ.Fungible.update s0 (some f) (some t) amt = .ok s1 := by
    unfold OZ.Fungible.update
    rw [if_neg (by omega)]
    unfold OZ.Fungible.debit
    dsimp only
    rw [eb, if_neg (by omega)]
    dsimp only
    unfold OZ.Fungible.credit
    dsimp only
    rw [if_pos hov]
    exact ⟨_, rfl⟩
  obtain ⟨s1, hs1⟩ := hupd
  unfold OZ.Fungible.transferFrom
  rw [hra, ok_bind, hsp, ok_bind, hs1, ok_bind]
  exact ⟨_, rfl⟩


/-! ### exact allowance after `collect_fee`, and when it succeeds -/

theorem allowanceData_tokAt_upd (s : State) (tok : Nat) (ts : OZ.Fungible.State) (o sp : Nat)
    (hn : ts.now = s.now) :
    OZ.Fungible.allowanceData (tokAt { s with toks := upd s.toks tok ts } tok) o sp =
      OZ.Fungible.allowanceData ts o sp := by
  apply OZ.Fungible.allowanceData_congr_entry
  · show (upd s.toks tok ts tok).allow o sp = ts.allow o sp
    rw [upd_same]
  · exact hn.symm

theorem tokenApprove_allowanceData {p : Params} {s s' : State} {au : Auth} {tok user : Nat} {max : Int}
    {exp : Nat} (hp : 0 < max) (h : tokenApprove p s au tok user max exp = .ok s') :
    OZ.Fungible.allowanceData (tokAt s' tok) user p.self = ⟨max, exp⟩ := by
  unfold tokenApprove at h
  obtain ⟨ts, hr, e⟩ := liftTok_ok h
  subst e
  have hn : ts.now = s.now := (approve_ok hr).2.2.2.1
  rw [allowanceData_tokAt_upd s tok ts user p.self hn]
  exact approve_allowanceData hr hp

theorem approveStep_allowanceData {p : Params} {s s' : State} {au : Auth} {tok user : Nat} {max : Int}
    {exp : Nat} {ap : Approval} (hp : 0 < max) (h : approveStep p s au tok user max exp ap = .ok s') :
    OZ.Fungible.allowanceData (tokAt s' tok) user p.self =
      if ap = .eager ∨ OZ.Fungible.allowance (tokAt s tok) user p.self < max then ⟨max, exp⟩
      else OZ.Fungible.allowanceData (tokAt s tok) user p.self := by
  cases ap with
  | eager => rw [if_pos (.inl rfl)]; exact tokenApprove_allowanceData hp h
  | lazy =>
    dsimp only [approveStep] at h
    split at h
    · rename_i hlt; rw [if_pos (.inr hlt)]; exact tokenApprove_allowanceData hp h
    · rename_i hge
      rw [if_neg (by rintro (h' | h'); cases h'; exact hge h')]
      split at h
      · cases h
      · injection h with h; subst h; rfl

theorem tokenTransferFrom_allowanceData {p : Params} {s s' : State} {tok user rcp : Nat} {fee : Int}
    (hp : 0 < fee) (h : tokenTransferFrom p s tok user rcp fee = .ok s') :
    OZ.Fungible.allowanceData (tokAt s' tok) user p.self =
      ⟨(OZ.Fungible.allowanceData (tokAt s tok) user p.self).amount - fee,
       (OZ.Fungible.allowanceData (tokAt s tok) user p.self).liveUntilLedger⟩ ∧
    fee ≤ (OZ.Fungible.allowanceData (tokAt s tok) user p.self).amount ∧
    (OZ.Fungible.allowanceData (tokAt s tok) user p.self).liveUntilLedger ≤ p.cfg.maxLiveUntil s.now ∧
    in128 ((upd (s.toks tok).bal user ((s.toks tok).bal user - fee)) rcp + fee) := by
  unfold tokenTransferFrom at h
  obtain ⟨ts, hr, e⟩ := liftTok_ok h
  subst e
  have hn : ts.now = s.now := (transferFrom_ok hr).2.2.2.2.1
  rw [allowanceData_tokAt_upd s tok ts user p.self hn]
  exact transferFrom_allowanceData hr hp

/-- the stored allowance record user → forwarder after a successful `collect_fee`, exactly -/
theorem collectFee_allowanceData {p : Params} {s s' : State} {au : Auth} {tok : Nat} {fee max : Int}
    {exp : Nat} {user rcp : Nat} {ap : Approval}
    (h : collectFee p s au tok fee max exp user rcp ap = .ok s') :
    OZ.Fungible.allowanceData (tokAt s' tok) user p.self =
      (if ap = .eager ∨ OZ.Fungible.allowance (tokAt s tok) user p.self < max then ⟨max - fee, exp⟩
       else ⟨(OZ.Fungible.allowanceData (tokAt s tok) user p.self).amount - fee,
             (OZ.Fungible.allowanceData (tokAt s tok) user p.self).liveUntilLedger⟩) ∧
    (¬ (ap = .eager ∨ OZ.Fungible.allowance (tokAt s tok) user p.self < max) →
      (OZ.Fungible.allowanceData (tokAt s tok) user p.self).liveUntilLedger ≤ p.cfg.maxLiveUntil s.now) ∧
    in128 ((upd (s.toks tok).bal user ((s.toks tok).bal user - fee)) rcp + fee) := by
  unfold collectFee at h
  obtain ⟨_, _, h⟩ := bind_ok h
  obtain ⟨_, _, h⟩ := bind_ok h
  obtain ⟨_, h3, h⟩ := bind_ok h
  obtain ⟨s1, h4, h⟩ := bind_ok h
  obtain ⟨s2, h5, h⟩ := bind_ok h
  injection h with h; subst h
  obtain ⟨hf0, hfm⟩ := validateFeeBounds_ok h3
  have hmax : 0 < max := by omega
  obtain ⟨t1, _, a2, _, _, _⟩ := approveStep_ok hmax h4
  have hA := approveStep_allowanceData hmax h4
  obtain ⟨b1, _, b3, b4⟩ := tokenTransferFrom_allowanceData hf0 h5
  have e : tokAt (emit s2 (.feeCollected user rcp tok fee)) tok = tokAt s2 tok := rfl
  rw [e, b1, hA]
  rw [hA, t1.now] at b3
  rw [a2] at b4
  refine ⟨?_, ?_, b4⟩
  · split <;> rfl
  · intro hn; rw [if_neg hn] at b3; exact b3

/-- the conditions under which `collect_fee` goes through -/
structure FeeConditions (p : Params) (s : State) (au : Auth) (tok : Nat) (fee max : Int) (exp : Nat)
    (user rcp : Nat) (ap : Approval) : Prop where
  token : isAllowedFeeToken s.al tok = true
  notSelf : p.self ≠ user
  feePos : 0 < fee
  feeMax : fee ≤ max
  notExpired : s.now ≤ exp
  /-- when the forwarder approves on the user's behalf: the user signed the nested approve and
  the token accepts the expiration as `live_until_ledger` -/
  approve : (ap = .eager ∨ OZ.Fungible.allowance (tokAt s tok) user p.self < max) →
    subSigned au user (approveInv p tok user max exp) = true ∧ exp ≤ p.cfg.maxLiveUntil s.now
  /-- otherwise the existing (sufficient) allowance record can be rewritten by the token -/
  keep : ¬ (ap = .eager ∨ OZ.Fungible.allowance (tokAt s tok) user p.self < max) →
    (OZ.Fungible.allowanceData (tokAt s tok) user p.self).liveUntilLedger ≤ p.cfg.maxLiveUntil s.now
  balance : fee ≤ (s.toks tok).bal user
  noOverflow : in128 ((upd (s.toks tok).bal user ((s.toks tok).bal user - fee)) rcp + fee)

theorem collectFee_conditions {p : Params} {s s' : State} {au : Auth} {tok : Nat} {fee max : Int}
    {exp : Nat} {user rcp : Nat} {ap : Approval}
    (h : collectFee p s au tok fee max exp user rcp ap = .ok s') :
    FeeConditions p s au tok fee max exp user rcp ap := by
  obtain ⟨c1, c2, c3, c4, c5, c6, _, _, _, _, _, _, c7, _, _⟩ := collectFee_ok h
  obtain ⟨_, d2, d3⟩ := collectFee_allowanceData h
  exact ⟨c1, c2, c3, c4, c5, c6, d2, c7, d3⟩

theorem approveStep_succeeds {p : Params} {s : State} {au : Auth} {tok user : Nat} {max : Int} {exp : Nat}
    {ap : Approval} (hmax : 0 < max) (hexp : s.now ≤ exp)
    (happ : (ap = .eager ∨ OZ.Fungible.allowance (tokAt s tok) user p.self < max) →
      subSigned au user (approveInv p tok user max exp) = true ∧ exp ≤ p.cfg.maxLiveUntil s.now) :
    ∃ s1, approveStep p s au tok user max exp ap = .ok s1 := by
  have viaApprove : (ap = .eager ∨ OZ.Fungible.allowance (tokAt s tok) user p.self < max) →
      ∃ s1, tokenApprove p s au tok user max exp = .ok s1 := by
    intro hn
    obtain ⟨hs, hl⟩ := happ hn
    unfold tokenApprove
    rw [if_pos hs]
    obtain ⟨ts, hts⟩ := approve_succeeds p.cfg (tokAt s tok) [user] user p.self max exp
      (List.mem_singleton.mpr rfl) (by omega) hl (fun _ => hexp)
    rw [hts]
    exact ⟨_, rfl⟩
  cases ap with
  | eager => exact viaApprove (.inl rfl)
  | lazy =>
    dsimp only [approveStep]
    by_cases hlt : OZ.Fungible.allowance (tokAt s tok) user p.self < max
    · rw [if_pos hlt]; exact viaApprove (.inr hlt)
    · rw [if_neg hlt]
      have : validateExpirationLedger s.now exp = .ok () := by
        unfold validateExpirationLedger; rw [if_neg (by omega)]
      rw [this]
      exact ⟨_, rfl⟩

/-- completeness of `collect_fee`: under the conditions it succeeds -/
theorem collectFee_succeeds {p : Params} {s : State} {au : Auth} {tok : Nat} {fee max : Int}
    {exp : Nat} {user rcp : Nat} {ap : Approval} (hc : FeeConditions p s au tok fee max exp user rcp ap) :
    ∃ s', collectFee p s au tok fee max exp user rcp ap = .ok s' := by
  have hmax : 0 < max := by have := hc.feePos; have := hc.feeMax; omega
  obtain ⟨s1, h4⟩ := approveStep_succeeds (au := au) (tok := tok) (user := user) (p := p) (ap := ap)
    hmax hc.notExpired hc.approve
  obtain ⟨t1, _, a2, _, _, _⟩ := approveStep_ok hmax h4
  have hA := approveStep_allowanceData hmax h4
  have hb : (tokAt s1 tok).bal = (s.toks tok).bal := a2
  obtain ⟨ts, hts⟩ := transferFrom_succeeds p.cfg (tokAt s1 tok) [p.self] p.self user rcp fee
    (List.mem_singleton.mpr rfl) hc.feePos
    (by rw [hA]; split
        · exact hc.feeMax
        · rename_i hn
          have : max ≤ OZ.Fungible.allowance (tokAt s tok) user p.self := by
            have : ¬ OZ.Fungible.allowance (tokAt s tok) user p.self < max := fun h => hn (.inr h)
            omega
          have := hc.feeMax
          unfold OZ.Fungible.allowance at *; omega)
    (by rw [hA]
        have hnow : (tokAt s1 tok).now = s.now := t1.now
        rw [hnow]
        split
        · rename_i hn; exact (hc.approve hn).2
        · rename_i hn; exact hc.keep hn)
    (by rw [hb]; exact hc.balance)
    (by rw [hb]; exact hc.noOverflow)
  have h5 : tokenTransferFrom p s1 tok user rcp fee = .ok { s1 with toks := upd s1.toks tok ts } := by
    unfold tokenTransferFrom; rw [hts]; rfl
  have hv : validateFeeBounds fee max = .ok () := by
    unfold validateFeeBounds
    rw [if_neg (by have := hc.feePos; have := hc.feeMax; omega)]
  unfold collectFee
  rw [hc.token, ensure_true, ok_bind]
  rw [show decide (p.self ≠ user) = true from decide_eq_true hc.notSelf, ensure_true, ok_bind]
  rw [hv, ok_bind, h4, ok_bind, h5, ok_bind]
  exact ⟨_, rfl⟩

/-! ### `collect_fee_and_invoke` -/

theorem invokeTarget_ok {s s' : State} {au : Auth} {user : Nat} {i : Inv} {tgt : Target}
    (h : invokeTarget s au user i tgt = .ok s') :
    s' = logCall s i ∧ tgt ≠ .fail ∧ (tgt = .needsUser → subSigned au user i = true) := by
  cases tgt with
  | ok => injection h with h; exact ⟨h.symm, by simp, by simp⟩
  | fail => cases h
  | needsUser =>
    dsimp only [invokeTarget] at h
    split at h
    · rename_i hs; injection h with h; exact ⟨h.symm, by simp, fun _ => hs⟩
    · cases h

/-- the three steps of a successful forward -/
theorem collectFeeAndInvoke_ok {p : Params} {s s' : State} {au : Auth} {c : Call} {user rcp : Nat}
    {ap : Approval} {tgt : Target} (h : collectFeeAndInvoke p s au c user rcp ap tgt = .ok s') :
    userSigned au user (tupleOf c) = true ∧
    ∃ s1, collectFee p s au c.token c.fee c.maxFee c.expiration user rcp ap = .ok s1 ∧
      tgt ≠ .fail ∧ (tgt = .needsUser → subSigned au user (targetInv c) = true) ∧
      s' = emit (logCall s1 (targetInv c)) (.forwardExecuted user c.target c.fn c.args) := by
  unfold collectFeeAndInvoke at h
  obtain ⟨_, h1, h⟩ := bind_ok h
  obtain ⟨s1, h2, h⟩ := bind_ok h
  obtain ⟨s2, h3, h⟩ := bind_ok h
  injection h with h; subst h
  obtain ⟨e, hf, hu⟩ := invokeTarget_ok h3
  subst e
  exact ⟨ensure_ok h1, s1, h2, hf, hu, rfl⟩


/-- the conditions under which a forward goes through (see `forward_succeeds_iff`) -/
structure ForwardConditions (p : Params) (s : State) (au : Auth) (c : Call) (user rcp : Nat)
    (ap : Approval) (tgt : Target) : Prop where
  /-- the user signed exactly (token, max fee, expiration, target, fn, args) -/
  signed : userSigned au user (tupleOf c) = true
  fee : FeeConditions p s au c.token c.fee c.maxFee c.expiration user rcp ap
  /-- the target call goes through (and, if it demands it, the user signed the nested call) -/
  target : tgt = .ok ∨ (tgt = .needsUser ∧ subSigned au user (targetInv c) = true)

theorem collectFeeAndInvoke_conditions {p : Params} {s s' : State} {au : Auth} {c : Call} {user rcp : Nat}
    {ap : Approval} {tgt : Target} (h : collectFeeAndInvoke p s au c user rcp ap tgt = .ok s') :
    ForwardConditions p s au c user rcp ap tgt := by
  obtain ⟨hu, s1, h1, hf, ht, _⟩ := collectFeeAndInvoke_ok h
  refine ⟨hu, collectFee_conditions h1, ?_⟩
  cases tgt with
  | ok => exact .inl rfl
  | fail => exact absurd rfl hf
  | needsUser => exact .inr ⟨rfl, ht rfl⟩

theorem collectFeeAndInvoke_succeeds {p : Params} {s : State} {au : Auth} {c : Call} {user rcp : Nat}
    {ap : Approval} {tgt : Target} (hc : ForwardConditions p s au c user rcp ap tgt) :
    ∃ s', collectFeeAndInvoke p s au c user rcp ap tgt = .ok s' := by
  obtain ⟨s1, h1⟩ := collectFee_succeeds hc.fee
  have ht : ∃ s2, invokeTarget s1 au user (targetInv c) tgt = .ok s2 := by
    rcases hc.target with h | ⟨h, hs⟩
    · subst h; exact ⟨_, rfl⟩
    · subst h; dsimp only [invokeTarget]; rw [if_pos hs]; exact ⟨_, rfl⟩
  obtain ⟨s2, h2⟩ := ht
  unfold collectFeeAndInvoke requireAuthForArgs
  rw [hc.signed, ensure_true, ok_bind, h1, ok_bind, h2, ok_bind]
  exact ⟨_, rfl⟩

theorem requireAuth_of_mem {au : Auth} {a : Nat} (h : a ∈ au.plain) : requireAuth au a = .ok () := by
  unfold requireAuth; rw [decide_eq_true h]; rfl

theorem ensureRole_of_mem {m : List Nat} {a : Nat} (h : a ∈ m) : ensureRole m a = .ok () := by
  unfold ensureRole; rw [decide_eq_true h]; rfl

/-- under the token's supply invariant (C01) the credit of the fee can never leave i128 -/
theorem credit_in128_of_inv {U : List Nat} (hn : U.Nodup) {ts : OZ.Fungible.State} (hi : OZ.Fungible.Inv U ts)
    (user rcp : Nat) (fee : Int) (h0 : 0 ≤ fee) (hb : fee ≤ ts.bal user) :
    in128 ((upd ts.bal user (ts.bal user - fee)) rcp + fee) := by
  have hs := hi.supHi
  by_cases hr : rcp = user
  · subst hr
    rw [OZ.FeeForwarder.upd_same]
    have := OZ.Fungible.bal_le_supply hn hi rcp
    have := hi.nonneg rcp
    unfold in128 I128_MIN; constructor <;> omega
  · rw [OZ.FeeForwarder.upd_other _ _ _ _ hr]
    have := OZ.Fungible.bal_add_le_supply hn hi user rcp (Ne.symm hr)
    have := hi.nonneg rcp
    unfold in128 I128_MIN; constructor <;> omega

/-! ### the allow-list inside the world machine -/

theorem setAllowedFeeToken_ok {s s' : State} {tok : Nat} {a : Bool} (h : setAllowedFeeToken s tok a = .ok s') :
    setAllowed s.al tok a = .ok s'.al := by
  unfold setAllowedFeeToken at h
  split at h
  · cases h
  · rename_i al hal; injection h with h; subst h; exact hal

theorem sweepToken_al {p : Params} {s s' : State} {tok rcp : Nat} (h : sweepToken p s tok rcp = .ok s') :
    s'.al = s.al := by
  unfold sweepToken at h
  split at h
  · cases h
  · split at h
    · cases h
    · rename_i s1 hs1
      injection h with h; subst h
      obtain ⟨ts, _, e⟩ := liftTok_ok hs1
      subst e; rfl

theorem collectFeeAndInvoke_al {p : Params} {s s' : State} {au : Auth} {c : Call} {user rcp : Nat}
    {ap : Approval} {tgt : Target} (h : collectFeeAndInvoke p s au c user rcp ap tgt = .ok s') :
    s'.al = s.al := by
  obtain ⟨_, s1, h1, _, _, e⟩ := collectFeeAndInvoke_ok h
  subst e
  have := (collectFee_ok h1).2.2.2.2.2.2.1
  simpa [emit, logCall] using this

/-- every successful operation keeps the allow-list or applies one `set_allowed_fee_token` -/
theorem apply_al {p : Params} {s s' : State} {au : Auth} {op : Op} (h : apply p s au op = .ok s') :
    s'.al = s.al ∨ ∃ t a, setAllowed s.al t a = .ok s'.al := by
  cases op with
  | mint tok to amt => obtain ⟨ts, _, e⟩ := liftTok_ok h; subst e; exact .inl rfl
  | approve tok o sp amt lu => obtain ⟨ts, _, e⟩ := liftTok_ok h; subst e; exact .inl rfl
  | advance n => injection h with h; subst h; exact .inl rfl
  | forwardPL c u r tgt =>
    obtain ⟨_, _, h⟩ := bind_ok h
    exact .inl (collectFeeAndInvoke_al h)
  | forwardPD c u r tgt =>
    obtain ⟨_, _, h⟩ := bind_ok h
    obtain ⟨_, _, h⟩ := bind_ok h
    exact .inl (collectFeeAndInvoke_al h)
  | forwardLib c u r ap tgt => exact .inl (collectFeeAndInvoke_al h)
  | setAllowedPD tok o a =>
    obtain ⟨_, _, h⟩ := bind_ok h
    obtain ⟨_, _, h⟩ := bind_ok h
    exact .inr ⟨tok, a, setAllowedFeeToken_ok h⟩
  | sweepPD tok r o =>
    obtain ⟨_, _, h⟩ := bind_ok h
    obtain ⟨_, _, h⟩ := bind_ok h
    exact .inl (sweepToken_al h)
  | setAllowedLib tok a => exact .inr ⟨tok, a, setAllowedFeeToken_ok h⟩
  | sweepLib tok r => exact .inl (sweepToken_al h)

end OZ.FeeForwarder
