import OZ.Model.MulDiv
/-
Helper lemmas relating Lean's three integer divisions (truncating, flooring, Euclidean)
so that goals about the coded rounding logic become linear arithmetic over
`q = r / d`, `m = r % d` (with `d * q` an opaque atom for `omega`).
-/
namespace OZ.MulDiv

theorem div_facts (r d : Int) (hd : d ≠ 0) :
    d * (r / d) + r % d = r ∧ 0 ≤ r % d ∧ r % d < d.natAbs ∧
    Int.tdiv r d = r / d + (if 0 ≤ r ∨ r % d = 0 then 0 else d.sign) ∧
    Int.fdiv r d = r / d - (if 0 ≤ d ∨ r % d = 0 then 0 else 1) ∧
    Int.cdiv r d = r / d + (if d < 0 ∨ r % d = 0 then 0 else 1) ∧
    (Int.tdiv r d).natAbs ≤ r.natAbs := by
  refine ⟨Int.mul_ediv_add_emod r d, Int.emod_nonneg r hd, Int.emod_lt r hd, ?_, ?_, ?_,
    Int.natAbs_tdiv_le_natAbs r d⟩
  · rw [Int.tdiv_eq_ediv]; simp only [Int.dvd_iff_emod_eq_zero]
  · rw [Int.fdiv_eq_ediv]; simp only [Int.dvd_iff_emod_eq_zero]
  · unfold Int.cdiv
    rw [Int.fdiv_eq_ediv, Int.neg_ediv]
    simp only [Int.dvd_neg]
    simp only [Int.dvd_iff_emod_eq_zero]
    have hm := Int.emod_nonneg r hd
    have hs : d.sign = 1 ∨ d.sign = -1 := by
      rcases Int.lt_trichotomy d 0 with h | h | h
      · right; exact Int.sign_eq_neg_one_of_neg h
      · exact absurd h hd
      · left; exact Int.sign_eq_one_of_pos h
    have hs' : 0 < d → d.sign = 1 := Int.sign_eq_one_of_pos
    have hs'' : d < 0 → d.sign = -1 := Int.sign_eq_neg_one_of_neg
    split <;> split <;> split <;> omega

end OZ.MulDiv

namespace OZ.MulDiv

/-- `div_facts` with every `if` and `natAbs` turned into linear implications, the form
`omega` digests (it treats `d * (r / d)` as an atom). -/
theorem div_lin (r d : Int) (hd : d ≠ 0) :
    d * (r / d) + r % d = r ∧ 0 ≤ r % d ∧ (0 < d → r % d < d) ∧ (d < 0 → r % d < -d) ∧
    (0 ≤ r ∨ r % d = 0 → Int.tdiv r d = r / d) ∧
    (r < 0 ∧ r % d ≠ 0 ∧ 0 < d → Int.tdiv r d = r / d + 1) ∧
    (r < 0 ∧ r % d ≠ 0 ∧ d < 0 → Int.tdiv r d = r / d - 1) ∧
    (0 < d ∨ r % d = 0 → Int.fdiv r d = r / d) ∧
    (d < 0 ∧ r % d ≠ 0 → Int.fdiv r d = r / d - 1) ∧
    (d < 0 ∨ r % d = 0 → Int.cdiv r d = r / d) ∧
    (0 < d ∧ r % d ≠ 0 → Int.cdiv r d = r / d + 1) ∧
    (0 ≤ r → -r ≤ Int.tdiv r d ∧ Int.tdiv r d ≤ r) ∧
    (r ≤ 0 → r ≤ Int.tdiv r d ∧ Int.tdiv r d ≤ -r) ∧
    (r = 0 → r % d = 0) := by
  obtain ⟨h1, h2, h3, h4, h5, h6, h7⟩ := div_facts r d hd
  have hz : r = 0 → r % d = 0 := fun h => by rw [h]; exact Int.zero_emod d
  have hs' : 0 < d → d.sign = 1 := Int.sign_eq_one_of_pos
  have hs'' : d < 0 → d.sign = -1 := Int.sign_eq_neg_one_of_neg
  have hn1 : 0 ≤ d → (d.natAbs : Int) = d := Int.natAbs_of_nonneg
  have hn2 : d ≤ 0 → (d.natAbs : Int) = -d := Int.ofNat_natAbs_of_nonpos
  have hr1 : 0 ≤ r → (r.natAbs : Int) = r := Int.natAbs_of_nonneg
  have hr2 : r ≤ 0 → (r.natAbs : Int) = -r := Int.ofNat_natAbs_of_nonpos
  have ht1 : 0 ≤ Int.tdiv r d → ((Int.tdiv r d).natAbs : Int) = Int.tdiv r d := Int.natAbs_of_nonneg
  have ht2 : Int.tdiv r d ≤ 0 → ((Int.tdiv r d).natAbs : Int) = -Int.tdiv r d := Int.ofNat_natAbs_of_nonpos
  have h7' : ((Int.tdiv r d).natAbs : Int) ≤ (r.natAbs : Int) := Int.ofNat_le.mpr h7
  generalize (Int.tdiv r d).natAbs = tn at *
  generalize r.natAbs = rn at *
  generalize d.natAbs = dn at *
  refine ⟨h1, h2, ?_, ?_, ?_, ?_, ?_, ?_, ?_, ?_, ?_, ?_, ?_, hz⟩
  · omega
  · omega
  · intro h; rw [h4]; rcases h with h | h <;> simp [h]
  · rintro ⟨a, b, c⟩; rw [h4, hs' c]; have : ¬ (0 ≤ r) := by omega
    simp [this, b]
  · rintro ⟨a, b, c⟩; rw [h4, hs'' c]; have : ¬ (0 ≤ r) := by omega
    simp [this, b]; omega
  · intro h; rw [h5]; rcases h with h | h
    · have : 0 ≤ d := by omega
      simp [this]
    · simp [h]
  · rintro ⟨a, b⟩; rw [h5]; have : ¬ (0 ≤ d) := by omega
    simp [this, b]
  · intro h; rw [h6]; rcases h with h | h <;> simp [h]
  · rintro ⟨a, b⟩; rw [h6]; have : ¬ (d < 0) := by omega
    simp [this, b]
  · intro h; have := hr1 h; omega
  · intro h; have := hr2 h; omega

end OZ.MulDiv

namespace OZ.MulDiv

theorem tdiv_sign (r d : Int) :
    (0 ≤ r → 0 ≤ d → 0 ≤ Int.tdiv r d) ∧ (r ≤ 0 → d ≤ 0 → 0 ≤ Int.tdiv r d) ∧
    (0 ≤ r → d ≤ 0 → Int.tdiv r d ≤ 0) ∧ (r ≤ 0 → 0 ≤ d → Int.tdiv r d ≤ 0) := by
  refine ⟨Int.tdiv_nonneg, Int.tdiv_nonneg_of_nonpos_of_nonpos,
    Int.tdiv_nonpos_of_nonneg_of_nonpos, ?_⟩
  intro h1 h2
  have := Int.tdiv_nonneg (a := -r) (b := d) (by omega) h2
  rw [Int.neg_tdiv] at this
  omega

/-- |x|,|y| ≤ 2^127 ⇒ |x·y| ≤ 2^254: the product of two i128 values always fits in I256,
so the host multiplication in the widened path never traps. -/
theorem mul_in128_bound (x y : Int) (hx : in128 x) (hy : in128 y) :
    -28948022309329048855892746252171976963317496166410141009864396001978282409984 ≤ x * y ∧
    x * y ≤ 28948022309329048855892746252171976963317496166410141009864396001978282409984 := by
  unfold in128 I128_MIN I128_MAX at *
  have hxa : x.natAbs ≤ 170141183460469231731687303715884105728 := by omega
  have hya : y.natAbs ≤ 170141183460469231731687303715884105728 := by omega
  have h := Nat.mul_le_mul hxa hya
  rw [← Int.natAbs_mul] at h
  have e : 170141183460469231731687303715884105728 * 170141183460469231731687303715884105728
      = 28948022309329048855892746252171976963317496166410141009864396001978282409984 := by
    decide
  rw [e] at h
  omega

end OZ.MulDiv

namespace OZ.MulDiv

/-- with |d| ≥ 2 the truncated quotient is at most half of |r| -/
theorem tdiv_half (r d : Int) (hd : 2 ≤ d ∨ d ≤ -2) :
    (0 ≤ r → -r ≤ 2 * Int.tdiv r d ∧ 2 * Int.tdiv r d ≤ r) ∧
    (r ≤ 0 → r ≤ 2 * Int.tdiv r d ∧ 2 * Int.tdiv r d ≤ -r) := by
  have h := Int.natAbs_tdiv r d
  have hd2 : 2 ≤ d.natAbs := by omega
  have h2 : r.natAbs / d.natAbs ≤ r.natAbs / 2 := Nat.div_le_div_left hd2 (by decide)
  have h3 : (Int.tdiv r d).natAbs ≤ r.natAbs / 2 := by
    rw [h]; exact h2
  have hr1 : 0 ≤ r → (r.natAbs : Int) = r := Int.natAbs_of_nonneg
  have hr2 : r ≤ 0 → (r.natAbs : Int) = -r := Int.ofNat_natAbs_of_nonpos
  have ht1 : 0 ≤ Int.tdiv r d → ((Int.tdiv r d).natAbs : Int) = Int.tdiv r d := Int.natAbs_of_nonneg
  have ht2 : Int.tdiv r d ≤ 0 → ((Int.tdiv r d).natAbs : Int) = -Int.tdiv r d := Int.ofNat_natAbs_of_nonpos
  have h4 : 2 * (Int.tdiv r d).natAbs ≤ r.natAbs := by omega
  have h5 : (2 * (Int.tdiv r d).natAbs : Int) ≤ (r.natAbs : Int) := by exact_mod_cast h4
  generalize (Int.tdiv r d).natAbs = tn at *
  generalize r.natAbs = rn at *
  constructor
  · intro h0; have := hr1 h0; omega
  · intro h0; have := hr2 h0; omega

end OZ.MulDiv
