import OZ.Lemmas.TimelockControllerMonAuth
/-
Soundness of the C09 monitor, monitor part 3: accepted calls on the controller's own entry points —
the admin-only ones (update_delay, set_role_admin, transfer_admin_role, renounce_admin) and the
caller-authorized ones (grant_role, revoke_role, renounce_role).
-/
namespace OZ.TimelockController.Mon
open OZ.Host OZ.Timelock OZ.TimelockController

theorem idle_none_of_not_advance (c : Call) (prev o : Obs) (h : ∀ n, c ≠ .advance n) : idle c prev o = none := by
  unfold idle
  cases c with
  | advance n => exact absurd rfl (h n)
  | _ => rfl

theorem admin_eq (c c' : CState) (h : c'.ac.adm.holder = c.ac.adm.holder) : c'.admin = c.admin := h

/-! ### admin-only entry points -/

theorem adminAuth_none {m : Mon} {x : MS} {cl : CallLine} {who : Nat} {c1 : CState}
    (ps : PhaseSound m x cl who c1) (hadm : x.c.admin = some who) (c' : CState) (ok0 : Bool)
    (eq0 : Option (List Nat)) (hl : c'.tl.ledger = c1.tl.ledger) :
    adminAuth m (modelObs x.c x.defs ok0 eq0) (modelObs c' x.defs true none) cl = none := by
  unfold adminAuth
  show (match x.c.admin with
    | none => _
    | some ad => _) = none
  rw [hadm]
  simp only
  by_cases h0 : who = 0
  · rw [if_pos h0]
    obtain ⟨md, rest, hsig, hcons⟩ := ps.self h0
    unfold adminSelf
    rw [hsig]
    simp only
    rw [hcons c' ok0 eq0 hl]
    rfl
  · rw [if_neg h0, if_neg]
    simpa using ps.plain h0

theorem admin_kind_sound (m : Mon) (x : MS) (hi : MInv x) (ha : Agree m x) (cl : CallLine)
    (hadmk : isAdminKind cl.call = true) (e : Entry) (c' : CState)
    (hx : applyE x.c (ownToks x cl) (resolveSig x.defs cl.sig) e = .ok c')
    (who : Nat) (c1 : CState) (hadm : x.c.admin = some who)
    (hph : AuthPhase x.c (ownToks x cl) (resolveSig x.defs cl.sig) who (fnOf cl.call) (argsOf cl.call) c1)
    (hled : c'.tl.ledger = c1.tl.ledger) (hlog : c'.tl.log = c1.tl.log)
    (hmin : isUpdateK cl.call = false → c'.tl.minDelay = c1.tl.minDelay)
    (hroles : c'.ac.hasRole = c1.ac.hasRole)
    (hradm : isSetradmK cl.call = false → c'.ac.roleAdmin = c1.ac.roleAdmin)
    (hadmin : isRenounceK cl.call = false → c'.ac.adm.holder = c1.ac.adm.holder)
    (hsetr : setradmEffect cl.call (modelObs c' x.defs true none) = none) : CallSound m x cl c' := by
  have hown : isOwn cl.call = true := by unfold isOwn; rw [hadmk]; rfl
  have hw : guardOf x cl.call = some who := by unfold guardOf; rw [if_pos hadmk]; exact hadm
  have ps := phase_sound m x hi ha cl hown who hw c1 hph
  refine ⟨?_, ?_, ?_⟩
  · intro ok0 eq0
    apply verdictCall_none
    · apply idle_none_of_not_advance
      intro n h; rw [h] at hadmk; cases hadmk
    · exact undone_none x.defs ok0 true eq0 none (fun id h1 => applyE_ledger_one hx h1)
    · rfl
    · apply effect_none
      · intro h; show c'.tl.minDelay = x.c.tl.minDelay; rw [hmin h, ps.min]
      · intro _; show modelRoles c' = modelRoles x.c
        exact modelRoles_of_ac (by rw [hroles, ps.ac])
      · intro h; show modelRadm c' = modelRadm x.c
        exact modelRadm_of_ac (by rw [hradm h, ps.ac])
      · intro _ h; show c'.admin = x.c.admin
        exact admin_eq _ _ (by rw [hadmin h, ps.ac])
      · intro h; exfalso
        cases hc : cl.call <;> simp_all [isAdminK, isAdminKind]
    · have : verdictAccepted m (modelObs x.c x.defs ok0 eq0) (modelObs c' x.defs true none) cl =
          verdictAdmin m (modelObs x.c x.defs ok0 eq0) (modelObs c' x.defs true none) cl := by
        unfold verdictAccepted
        cases hc : cl.call <;> simp_all [isAdminKind]
      rw [this]
      unfold verdictAdmin
      rw [hsetr, adminAuth_none ps hadm c' ok0 eq0 hled]
      rfl
  · intro id
    rw [hlog]
    exact ps.ghost _ id
  · intro id
    rw [hlog]
    exact ps.known id

theorem update_sound (m : Mon) (x : MS) (hi : MInv x) (ha : Agree m x) (cl : CallLine) (d : Nat)
    (hcall : cl.call = .update d) (c' : CState)
    (hx : applyE x.c (ownToks x cl) (resolveSig x.defs cl.sig) (.updateDelay d) = .ok c') : CallSound m x cl c' := by
  obtain ⟨a, c1, hadm, hph, rfl⟩ := updateDelay_inv hx
  apply admin_kind_sound m x hi ha cl (by rw [hcall]; rfl) _ _ hx a c1 hadm (by rw [hcall]; exact hph) rfl rfl
  · intro h; rw [hcall] at h; cases h
  · rfl
  · intro _; rfl
  · intro _; rfl
  · rw [hcall]; rfl

theorem setradm_sound (m : Mon) (x : MS) (hi : MInv x) (ha : Agree m x) (cl : CallLine) (r ar : Nat)
    (hcall : cl.call = .setradm r ar) (c' : CState)
    (hx : applyE x.c (ownToks x cl) (resolveSig x.defs cl.sig) (.setRoleAdmin r ar) = .ok c') : CallSound m x cl c' := by
  obtain ⟨a, c1, hadm, hph, rfl⟩ := setRoleAdmin_inv hx
  apply admin_kind_sound m x hi ha cl (by rw [hcall]; rfl) _ _ hx a c1 hadm (by rw [hcall]; exact hph) rfl rfl
  · intro _; rfl
  · rfl
  · intro h; rw [hcall] at h; cases h
  · intro _; rfl
  · rw [hcall]
    unfold setradmEffect
    simp only
    rw [if_neg]
    rintro ⟨hr, hne⟩
    apply hne
    show ((modelRadm _)[r]?).join = some ar
    rw [modelRadm_get, if_pos (by simpa [inR] using hr)]
    show upd _ r (some ar) r = some ar
    simp [upd]

theorem transfer_sound (m : Mon) (x : MS) (hi : MInv x) (ha : Agree m x) (cl : CallLine) (a lu : Nat)
    (hcall : cl.call = .transfer a lu) (c' : CState)
    (hx : applyE x.c (ownToks x cl) (resolveSig x.defs cl.sig) (.transferAdmin a lu) = .ok c') : CallSound m x cl c' := by
  obtain ⟨ad, c1, t, hadm, hph, hh, rfl⟩ := transferAdmin_inv hx
  apply admin_kind_sound m x hi ha cl (by rw [hcall]; rfl) _ _ hx ad c1 hadm (by rw [hcall]; exact hph) rfl rfl
  · intro _; rfl
  · rfl
  · intro _; rfl
  · intro _; exact hh
  · rw [hcall]; rfl

theorem renounce_sound (m : Mon) (x : MS) (hi : MInv x) (ha : Agree m x) (cl : CallLine)
    (hcall : cl.call = .renounce) (c' : CState)
    (hx : applyE x.c (ownToks x cl) (resolveSig x.defs cl.sig) .renounceAdmin = .ok c') : CallSound m x cl c' := by
  obtain ⟨ad, c1, t, hadm, hph, hh, rfl⟩ := renounceAdmin_inv hx
  apply admin_kind_sound m x hi ha cl (by rw [hcall]; rfl) _ _ hx ad c1 hadm (by rw [hcall]; exact hph) rfl rfl
  · intro _; rfl
  · rfl
  · intro _; rfl
  · intro h; rw [hcall] at h; cases h
  · rw [hcall]; rfl

/-! ### caller-authorized entry points -/

theorem callerAuth_none {m : Mon} {x : MS} {cl : CallLine} {who : Nat} {c1 : CState}
    (ps : PhaseSound m x cl who c1) (c' : CState) (ok0 : Bool)
    (eq0 : Option (List Nat)) (hl : c'.tl.ledger = c1.tl.ledger) :
    callerAuth m (modelObs x.c x.defs ok0 eq0) (modelObs c' x.defs true none) cl who = none := by
  unfold callerAuth
  by_cases h0 : who = 0
  · rw [if_pos h0]
    obtain ⟨md, rest, hsig, hcons⟩ := ps.self h0
    unfold selfAuth
    rw [hsig]
    simp only
    rw [hcons c' ok0 eq0 hl]
    rfl
  · rw [if_neg h0, if_neg]
    simpa using ps.plain h0

/-- grant / revoke: the caller is the admin or holds the role's admin role — in the monitor's wording -/
theorem callerPerm_none_of_admin (c : CState) (defs : List Operation) (ok0 : Bool) (eq0 : Option (List Nat))
    (cl : CallLine) (hnr : ∀ r k, cl.call ≠ .renrole r k) (role caller : Nat)
    (h : OZ.Access.isAdmin c.ac caller = true ∨ OZ.Access.isAdminRole c.ac role caller = true) :
    callerPerm (modelObs c defs ok0 eq0) cl role caller = none := by
  have hgoal : (!decide ((modelObs c defs ok0 eq0).admin = some caller) &&
      !viaRole (modelObs c defs ok0 eq0) role caller && !cannotTell (modelObs c defs ok0 eq0) role caller) = false := by
    rcases h with h | h
    · have : (modelObs c defs ok0 eq0).admin = some caller := by
        show OZ.Access.getAdmin c.ac = some caller
        unfold OZ.Access.isAdmin at h
        cases hg : OZ.Access.getAdmin c.ac with
        | none => rw [hg] at h; cases h
        | some ad => rw [hg] at h; simp only [beq_iff_eq] at h; rw [h]
      simp [this]
    · by_cases hct : cannotTell (modelObs c defs ok0 eq0) role caller = true
      · simp [hct]
      · have hct' : cannotTell (modelObs c defs ok0 eq0) role caller = false := by simpa using hct
        unfold OZ.Access.isAdminRole at h
        cases hra : OZ.Access.getRoleAdmin c.ac role with
        | none => rw [hra] at h; cases h
        | some ar =>
          rw [hra] at h
          simp only at h
          unfold cannotTell at hct'
          simp only [Bool.or_eq_false_iff, Bool.not_eq_eq_eq_not, Bool.not_false] at hct'
          obtain ⟨⟨hu, hr⟩, hrest⟩ := hct'
          have hr' : role < NROLES := by simpa [inR] using hr
          have hu' : caller ≤ NACC := by simpa [inU] using hu
          have hj : ((modelObs c defs ok0 eq0).radm[role]?).join = some ar := by
            show ((modelRadm c)[role]?).join = some ar
            rw [modelRadm_get, if_pos hr', hra]
          rw [hj] at hrest
          simp only [Bool.not_eq_eq_eq_not, Bool.not_false] at hrest
          have har : ar < NROLES := by simpa [inR] using hrest
          have : viaRole (modelObs c defs ok0 eq0) role caller = true := by
            unfold viaRole
            rw [hj]
            simp only
            rw [members_contains c defs ok0 eq0 har hu']
            exact h
          simp [this]
  unfold callerPerm
  cases hc : cl.call with
  | renrole r k => exact absurd hc (hnr r k)
  | _ => simp only; rw [if_neg (by rw [hgoal]; simp)]

theorem caller_kind_sound (m : Mon) (x : MS) (hi : MInv x) (ha : Agree m x) (cl : CallLine)
    (hck : isCallerKind cl.call = true) (e : Entry) (c' : CState)
    (hx : applyE x.c (ownToks x cl) (resolveSig x.defs cl.sig) e = .ok c')
    (c1 : CState) (a' : AC)
    (hph : AuthPhase x.c (ownToks x cl) (resolveSig x.defs cl.sig) (callerParts cl.call).2.2
      (fnOf cl.call) (argsOf cl.call) c1)
    (hc' : c' = { c1 with ac := a' }) (hrest : OZ.Access.SameRest x.c.ac a')
    (hperm : ∀ ok0 eq0, callerPerm (modelObs x.c x.defs ok0 eq0) cl (callerParts cl.call).2.1 (callerParts cl.call).2.2 = none)
    (heffect : ∀ ok0 eq0, modelRoles c' =
      expdRoles (modelObs x.c x.defs ok0 eq0) cl.call (callerParts cl.call).1 (callerParts cl.call).2.1) :
    CallSound m x cl c' := by
  have hown : isOwn cl.call = true := by unfold isOwn; rw [hck]; simp
  have hw : guardOf x cl.call = some (callerParts cl.call).2.2 := by
    unfold guardOf
    cases hc : cl.call <;> simp_all [isCallerKind, isAdminKind, callerOf, callerParts]
  have ps := phase_sound m x hi ha cl hown _ hw c1 hph
  subst hc'
  obtain ⟨hra, hadm, _⟩ := hrest
  refine ⟨?_, ?_, ?_⟩
  · intro ok0 eq0
    apply verdictCall_none
    · apply idle_none_of_not_advance
      intro n h; rw [h] at hck; cases hck
    · exact undone_none x.defs ok0 true eq0 none (fun id h1 => applyE_ledger_one hx h1)
    · rfl
    · apply effect_none
      · intro _; exact ps.min
      · intro h; exfalso
        cases hc : cl.call <;> simp_all [isCallerK, isCallerKind]
      · intro _; show modelRadm _ = modelRadm x.c
        exact modelRadm_of_ac hra
      · intro _ _; show OZ.Access.getAdmin a' = OZ.Access.getAdmin x.c.ac
        unfold OZ.Access.getAdmin; rw [hadm]
      · intro _ h; exfalso
        cases hc : cl.call <;> simp_all [isCallerK, isCallerKind]
    · have : verdictAccepted m (modelObs x.c x.defs ok0 eq0) (modelObs { c1 with ac := a' } x.defs true none) cl =
          verdictCaller m (modelObs x.c x.defs ok0 eq0) (modelObs { c1 with ac := a' } x.defs true none) cl := by
        unfold verdictAccepted
        cases hc : cl.call <;> simp_all [isCallerKind]
      rw [this]
      unfold verdictCaller
      rw [callerAuth_none ps { c1 with ac := a' } ok0 eq0 rfl, hperm ok0 eq0]
      show callerEffect _ _ cl _ _ = none
      unfold callerEffect
      rw [if_neg]
      intro hne; apply hne
      exact heffect ok0 eq0
  · intro id; exact ps.ghost _ id
  · intro id; exact ps.known id

theorem grant_sound (m : Mon) (x : MS) (hi : MInv x) (ha : Agree m x) (cl : CallLine) (a r k : Nat)
    (hcall : cl.call = .grant a r k) (c' : CState)
    (hx : applyE x.c (ownToks x cl) (resolveSig x.defs cl.sig) (.grantRole a r k) = .ok c') : CallSound m x cl c' := by
  obtain ⟨c1, a', hph, hperm, hg, hc'⟩ := grantRole_inv hx
  obtain ⟨_, hm, hr⟩ := OZ.Access.grantRoleNoAuth_effect hi.ac hg
  apply caller_kind_sound m x hi ha cl (by rw [hcall]; rfl) _ _ hx c1 a' (by rw [hcall]; exact hph) hc' hr
  · intro ok0 eq0
    rw [hcall]
    exact callerPerm_none_of_admin x.c x.defs ok0 eq0 cl (by intro r' k' h; rw [hcall] at h; cases h) r k hperm
  · intro ok0 eq0
    rw [hcall, hc']
    exact expdRoles_grant x.defs ok0 eq0 a r k hm

theorem revoke_sound (m : Mon) (x : MS) (hi : MInv x) (ha : Agree m x) (cl : CallLine) (a r k : Nat)
    (hcall : cl.call = .revoke a r k) (c' : CState)
    (hx : applyE x.c (ownToks x cl) (resolveSig x.defs cl.sig) (.revokeRole a r k) = .ok c') : CallSound m x cl c' := by
  obtain ⟨c1, a', hph, hperm, hg, hc'⟩ := revokeRole_inv hx
  obtain ⟨_, hm, _, hr⟩ := OZ.Access.revokeRoleNoAuth_effect hi.ac hg
  apply caller_kind_sound m x hi ha cl (by rw [hcall]; rfl) _ _ hx c1 a' (by rw [hcall]; exact hph) hc' hr
  · intro ok0 eq0
    rw [hcall]
    exact callerPerm_none_of_admin x.c x.defs ok0 eq0 cl (by intro r' k' h; rw [hcall] at h; cases h) r k hperm
  · intro ok0 eq0
    rw [hcall, hc']
    exact expdRoles_remove x.defs ok0 eq0 _ (by intro a0 r0 k0 h; cases h) a r hm

theorem renrole_sound (m : Mon) (x : MS) (hi : MInv x) (ha : Agree m x) (cl : CallLine) (r k : Nat)
    (hcall : cl.call = .renrole r k) (c' : CState)
    (hx : applyE x.c (ownToks x cl) (resolveSig x.defs cl.sig) (.renounceRole r k) = .ok c') : CallSound m x cl c' := by
  obtain ⟨c1, a', hph, hg, hc'⟩ := renounceRole_inv hx
  obtain ⟨_, hm, hheld, hr⟩ := OZ.Access.revokeRoleNoAuth_effect hi.ac hg
  apply caller_kind_sound m x hi ha cl (by rw [hcall]; rfl) _ _ hx c1 a' (by rw [hcall]; exact hph) hc' hr
  · intro ok0 eq0
    rw [hcall]
    show callerPerm _ cl r k = none
    unfold callerPerm
    rw [hcall]
    simp only
    rw [if_neg]
    rintro ⟨hu, hrr, hnc⟩
    apply hnc
    rw [members_contains x.c x.defs ok0 eq0 (by simpa [inR] using hrr) (by simpa [inU] using hu)]
    exact hheld
  · intro ok0 eq0
    rw [hcall, hc']
    exact expdRoles_remove x.defs ok0 eq0 _ (by intro a0 r0 k0 h; cases h) k r hm

end OZ.TimelockController.Mon
