import OZ.Lemmas.NftConsecutive
/-
Bit level of the consecutive NFT model: `find_bit_in_item`, `find_bit_in_bucket`, the bucket
scan of `owner_of` and `set_ownership_in_bucket`, exactly as coded (100 items of 32 bits per
bucket, most significant bit first), implement the abstract ownership-bit set `bitOf`.
-/
namespace OZ.NftCons
open OZ.Host OZ.Nft

/-! ### one item -/

theorem and_shift_ne_zero (x i : Nat) : x &&& (1 <<< i) ≠ 0 ↔ x.testBit i = true := by
  rw [Nat.one_shiftLeft]
  constructor
  · intro h
    obtain ⟨k, hk⟩ := Nat.exists_testBit_of_ne_zero h
    rw [Nat.testBit_and, Nat.testBit_two_pow] at hk
    simp at hk
    obtain ⟨h1, h2⟩ := hk
    subst h2; exact h1
  · intro h hz
    have : (x &&& 2 ^ i).testBit i = true := by
      rw [Nat.testBit_and, h, Nat.testBit_two_pow_self]; rfl
    rw [hz] at this; simp at this

theorem scanItem_some (num : Nat) : ∀ (i p : Nat), i ≤ 31 → (scanItem num i = some p ↔
    (31 - i ≤ p ∧ p ≤ 31 ∧ num.testBit (31 - p) = true ∧
      ∀ q, 31 - i ≤ q → q < p → num.testBit (31 - q) = false))
  | 0, p, _ => by
    unfold scanItem
    by_cases h : num.testBit 0 = true
    · rw [if_pos ((and_shift_ne_zero _ _).mpr h)]
      constructor
      · intro e; injection e with e; subst e
        exact ⟨by omega, by omega, by simpa using h, by intro q h1 h2; omega⟩
      · rintro ⟨h1, h2, _, _⟩
        have : p = 31 := by omega
        subst this; rfl
    · rw [if_neg (fun hh => h ((and_shift_ne_zero _ _).mp hh))]
      constructor
      · intro e; cases e
      · rintro ⟨h1, h2, h3, _⟩
        have : p = 31 := by omega
        subst this; exact absurd h3 h
  | i + 1, p, hi => by
    unfold scanItem
    by_cases h : num.testBit (i + 1) = true
    · rw [if_pos ((and_shift_ne_zero _ _).mpr h)]
      constructor
      · intro e; injection e with e; subst e
        refine ⟨by omega, by omega, ?_, by intro q h1 h2; omega⟩
        rw [show 31 - (31 - (i + 1)) = i + 1 by omega]; exact h
      · rintro ⟨h1, h2, h3, h4⟩
        by_cases e : p = 31 - (i + 1)
        · subst e; rfl
        · have := h4 (31 - (i + 1)) (by omega) (by omega)
          rw [show 31 - (31 - (i + 1)) = i + 1 by omega, h] at this; cases this
    · rw [if_neg (fun hh => h ((and_shift_ne_zero _ _).mp hh)), scanItem_some num i p (by omega)]
      have hf : num.testBit (i + 1) = false := by simpa using h
      constructor
      · rintro ⟨h1, h2, h3, h4⟩
        refine ⟨by omega, h2, h3, ?_⟩
        intro q hq1 hq2
        by_cases e : q = 31 - (i + 1)
        · subst e; rw [show 31 - (31 - (i + 1)) = i + 1 by omega]; exact hf
        · exact h4 q (by omega) hq2
      · rintro ⟨h1, h2, h3, h4⟩
        have : p ≠ 31 - (i + 1) := by
          intro e; subst e
          rw [show 31 - (31 - (i + 1)) = i + 1 by omega, hf] at h3; cases h3
        exact ⟨by omega, h2, h3, fun q hq1 hq2 => h4 q (by omega) hq2⟩

theorem scanItem_none (num : Nat) : ∀ (i : Nat), i ≤ 31 → (scanItem num i = none ↔
    (∀ q, 31 - i ≤ q → q ≤ 31 → num.testBit (31 - q) = false))
  | 0, _ => by
    unfold scanItem
    by_cases h : num.testBit 0 = true
    · rw [if_pos ((and_shift_ne_zero _ _).mpr h)]
      constructor
      · intro e; cases e
      · intro hh
        have := hh 31 (by omega) (by omega)
        rw [show 31 - 31 = 0 by omega, h] at this; cases this
    · rw [if_neg (fun hh => h ((and_shift_ne_zero _ _).mp hh))]
      constructor
      · intro _ q h1 h2
        have : q = 31 := by omega
        subst this; simpa using h
      · intro _; rfl
  | i + 1, hi => by
    unfold scanItem
    by_cases h : num.testBit (i + 1) = true
    · rw [if_pos ((and_shift_ne_zero _ _).mpr h)]
      constructor
      · intro e; cases e
      · intro hh
        have := hh (31 - (i + 1)) (by omega) (by omega)
        rw [show 31 - (31 - (i + 1)) = i + 1 by omega, h] at this; cases this
    · rw [if_neg (fun hh => h ((and_shift_ne_zero _ _).mp hh)), scanItem_none num i (by omega)]
      have hf : num.testBit (i + 1) = false := by simpa using h
      constructor
      · intro hh q hq1 hq2
        by_cases e : q = 31 - (i + 1)
        · subst e; rw [show 31 - (31 - (i + 1)) = i + 1 by omega]; exact hf
        · exact hh q (by omega) hq2
      · intro hh q hq1 hq2; exact hh q (by omega) hq2

/-- `find_bit_in_item` returns the least set position `≥ start`, counted from the most
significant bit -/
theorem findBitInItem_some {inp : Option Nat} {start p : Nat} : findBitInItem inp start = some p ↔
    (start ≤ p ∧ p ≤ 31 ∧ (inp.getD 0).testBit (31 - p) = true ∧
      ∀ q, start ≤ q → q < p → (inp.getD 0).testBit (31 - q) = false) := by
  unfold findBitInItem
  cases inp with
  | none =>
    simp only [Option.getD_none]
    constructor
    · intro e; cases e
    · rintro ⟨_, _, h, _⟩; simp at h
  | some num =>
    simp only [Option.getD_some]
    by_cases h0 : num = 0
    · rw [if_pos h0]; subst h0
      constructor
      · intro e; cases e
      · rintro ⟨_, _, h, _⟩; simp at h
    · rw [if_neg h0]
      by_cases hs : start ≥ IDS_IN_ITEM
      · rw [if_pos hs]
        constructor
        · intro e; cases e
        · rintro ⟨h1, h2, _, _⟩; unfold IDS_IN_ITEM at hs; omega
      · rw [if_neg hs]
        unfold IDS_IN_ITEM at hs ⊢
        rw [show 32 - 1 - start = 31 - start by omega, scanItem_some num (31 - start) p (by omega),
          show 31 - (31 - start) = start by omega]

theorem findBitInItem_none {inp : Option Nat} {start : Nat} : findBitInItem inp start = none ↔
    (∀ q, start ≤ q → q ≤ 31 → (inp.getD 0).testBit (31 - q) = false) := by
  unfold findBitInItem
  cases inp with
  | none =>
    simp only [Option.getD_none]
    constructor
    · intro _ q _ _; exact Nat.zero_testBit _
    · intro _; trivial
  | some num =>
    simp only [Option.getD_some]
    by_cases h0 : num = 0
    · rw [if_pos h0]; subst h0
      constructor
      · intro _ q _ _; exact Nat.zero_testBit _
      · intro _; rfl
    · rw [if_neg h0]
      by_cases hs : start ≥ IDS_IN_ITEM
      · rw [if_pos hs]
        constructor
        · intro _ q h1 h2; unfold IDS_IN_ITEM at hs; omega
        · intro _; rfl
      · rw [if_neg hs]
        unfold IDS_IN_ITEM at hs ⊢
        rw [show 32 - 1 - start = 31 - start by omega, scanItem_none num (31 - start) (by omega),
          show 31 - (31 - start) = start by omega]

/-! ### one bucket -/

/-- bit `p` of a bucket: item `p / 32`, position `p % 32` from the most significant bit -/
def bitB (b : List Nat) (p : Nat) : Bool := (b.getD (p / 32) 0).testBit (31 - p % 32)

theorem bitB_item (b : List Nat) (i x : Nat) (hx : x ≤ 31) :
    bitB b (i * 32 + x) = (b[i]?.getD 0).testBit (31 - x) := by
  unfold bitB
  rw [show (i * 32 + x) / 32 = i by omega, show (i * 32 + x) % 32 = x by omega,
    List.getD_eq_getElem?_getD]

theorem scanBucket_some (b : List Nat) (itemIndex rel : Nat) (hrel : rel < 32) :
    ∀ (fuel i p : Nat), itemIndex ≤ i → (scanBucket b itemIndex rel fuel i = some p ↔
      (i * 32 + fromId i itemIndex rel ≤ p ∧ p < (i + fuel) * 32 ∧ bitB b p = true ∧
        ∀ q, i * 32 + fromId i itemIndex rel ≤ q → q < p → bitB b q = false))
  | 0, i, p, _ => by
    unfold scanBucket
    constructor
    · intro e; cases e
    · rintro ⟨h1, h2, _, _⟩; omega
  | fuel + 1, i, p, hi => by
    unfold scanBucket
    have hfr : fromId i itemIndex rel < 32 := by unfold fromId; split <;> omega
    have hf1 : fromId (i + 1) itemIndex rel = 0 := by unfold fromId; rw [if_neg (by omega)]
    cases hfi : findBitInItem b[i]? (fromId i itemIndex rel) with
    | some pi =>
      obtain ⟨a1, a2, a3, a4⟩ := findBitInItem_some.mp hfi
      show some (i * IDS_IN_ITEM + pi) = some p ↔ _
      unfold IDS_IN_ITEM
      constructor
      · intro e; injection e with e; subst e
        refine ⟨by omega, by omega, by rw [bitB_item b i pi a2]; exact a3, ?_⟩
        intro q hq1 hq2
        have : q = i * 32 + (q - i * 32) := by omega
        rw [this, bitB_item b i _ (by omega)]
        exact a4 _ (by omega) (by omega)
      · rintro ⟨h1, h2, h3, h4⟩
        by_cases hlt : p < i * 32 + pi
        · have : p = i * 32 + (p - i * 32) := by omega
          rw [this, bitB_item b i _ (by omega), a4 _ (by omega) (by omega)] at h3; cases h3
        · by_cases hgt : i * 32 + pi < p
          · have := h4 (i * 32 + pi) (by omega) hgt
            rw [bitB_item b i pi a2, a3] at this; cases this
          · have : p = i * 32 + pi := by omega
            rw [this]
    | none =>
      have hn := findBitInItem_none.mp hfi
      show scanBucket b itemIndex rel fuel (i + 1) = some p ↔ _
      rw [scanBucket_some b itemIndex rel hrel fuel (i + 1) p (by omega), hf1]
      have hitem : ∀ q, i * 32 + fromId i itemIndex rel ≤ q → q < (i + 1) * 32 → bitB b q = false := by
        intro q hq1 hq2
        have : q = i * 32 + (q - i * 32) := by omega
        rw [this, bitB_item b i _ (by omega)]
        exact hn _ (by omega) (by omega)
      constructor
      · rintro ⟨h1, h2, h3, h4⟩
        refine ⟨by omega, by omega, h3, ?_⟩
        intro q hq1 hq2
        by_cases hq : q < (i + 1) * 32
        · exact hitem q hq1 hq
        · exact h4 q (by omega) hq2
      · rintro ⟨h1, h2, h3, h4⟩
        have : (i + 1) * 32 ≤ p := by
          apply Classical.byContradiction; intro hc
          rw [hitem p h1 (by omega)] at h3; cases h3
        exact ⟨by omega, by omega, h3, fun q hq1 hq2 => h4 q (by omega) hq2⟩

theorem scanBucket_none (b : List Nat) (itemIndex rel : Nat) (hrel : rel < 32) :
    ∀ (fuel i : Nat), itemIndex ≤ i → (scanBucket b itemIndex rel fuel i = none ↔
      (∀ q, i * 32 + fromId i itemIndex rel ≤ q → q < (i + fuel) * 32 → bitB b q = false))
  | 0, i, _ => by
    unfold scanBucket
    have hfr : fromId i itemIndex rel < 32 := by unfold fromId; split <;> omega
    constructor
    · intro _ q h1 h2; omega
    · intro _; rfl
  | fuel + 1, i, hi => by
    unfold scanBucket
    have hfr : fromId i itemIndex rel < 32 := by unfold fromId; split <;> omega
    have hf1 : fromId (i + 1) itemIndex rel = 0 := by unfold fromId; rw [if_neg (by omega)]
    cases hfi : findBitInItem b[i]? (fromId i itemIndex rel) with
    | some pi =>
      obtain ⟨a1, a2, a3, a4⟩ := findBitInItem_some.mp hfi
      show some (i * IDS_IN_ITEM + pi) = none ↔ _
      constructor
      · intro e; cases e
      · intro hh
        have := hh (i * 32 + pi) (by omega) (by omega)
        rw [bitB_item b i pi a2, a3] at this; cases this
    | none =>
      have hn := findBitInItem_none.mp hfi
      show scanBucket b itemIndex rel fuel (i + 1) = none ↔ _
      rw [scanBucket_none b itemIndex rel hrel fuel (i + 1) (by omega), hf1]
      constructor
      · intro hh q hq1 hq2
        by_cases hq : q < (i + 1) * 32
        · have : q = i * 32 + (q - i * 32) := by omega
          rw [this, bitB_item b i _ (by omega)]
          exact hn _ (by omega) (by omega)
        · exact hh q (by omega) (by omega)
      · intro hh q hq1 hq2; exact hh q (by omega) (by omega)

/-- `find_bit_in_bucket` returns the least set position `≥ start` of the bucket -/
theorem findBitInBucket_some {b : List Nat} {start p : Nat} : findBitInBucket b start = some p ↔
    (start ≤ p ∧ p < b.length * 32 ∧ bitB b p = true ∧ ∀ q, start ≤ q → q < p → bitB b q = false) := by
  unfold findBitInBucket IDS_IN_ITEM
  by_cases hs : start ≥ b.length * 32
  · rw [if_pos hs]
    constructor
    · intro e; cases e
    · rintro ⟨h1, h2, _, _⟩; omega
  · rw [if_neg hs, scanBucket_some b _ _ (by omega) _ _ p (Nat.le_refl _)]
    have hf : fromId (start / 32) (start / 32) (start % 32) = start % 32 := by unfold fromId; rw [if_pos rfl]
    rw [hf, show start / 32 * 32 + start % 32 = start by omega,
      show start / 32 + (b.length - start / 32) = b.length by omega]

theorem findBitInBucket_none {b : List Nat} {start : Nat} : findBitInBucket b start = none ↔
    (∀ q, start ≤ q → q < b.length * 32 → bitB b q = false) := by
  unfold findBitInBucket IDS_IN_ITEM
  by_cases hs : start ≥ b.length * 32
  · rw [if_pos hs]
    constructor
    · intro _ q h1 h2; omega
    · intro _; rfl
  · rw [if_neg hs, scanBucket_none b _ _ (by omega) _ _ (Nat.le_refl _)]
    have hf : fromId (start / 32) (start / 32) (start % 32) = start % 32 := by unfold fromId; rw [if_pos rfl]
    rw [hf, show start / 32 * 32 + start % 32 = start by omega,
      show start / 32 + (b.length - start / 32) = b.length by omega]

/-! ### all buckets -/

/-- every stored bucket has `ITEMS_IN_BUCKET` items -/
def WFB (bk : Buckets) : Prop := ∀ k b, bk k = some b → b.length = ITEMS_IN_BUCKET

def bucketBit (ob : Option (List Nat)) (x : Nat) : Bool :=
  match ob with
  | none => false
  | some b => bitB b x

theorem bitOf_bucket (bk : Buckets) (i x : Nat) (hx : x < 3200) :
    bitOf bk (i * 3200 + x) = bucketBit (bk i) x := by
  unfold bitOf bucketBit IDS_IN_BUCKET IDS_IN_ITEM
  rw [show (i * 3200 + x) / 3200 = i by omega, show (i * 3200 + x) % 3200 = x by omega]
  cases bk i with
  | none => rfl
  | some b =>
    show _ = bitB b x
    unfold bitB
    rw [show 32 - 1 - x % 32 = 31 - x % 32 by omega]

theorem skip_some {bit : Nat → Bool} {lo mid hi p : Nat} (hlo : lo ≤ mid)
    (hz : ∀ q, lo ≤ q → q < mid → bit q = false) :
    ((mid ≤ p ∧ p < hi ∧ bit p = true ∧ ∀ q, mid ≤ q → q < p → bit q = false) ↔
     (lo ≤ p ∧ p < hi ∧ bit p = true ∧ ∀ q, lo ≤ q → q < p → bit q = false)) := by
  constructor
  · rintro ⟨h1, h2, h3, h4⟩
    refine ⟨by omega, h2, h3, ?_⟩
    intro q hq1 hq2
    by_cases hq : q < mid
    · exact hz q hq1 hq
    · exact h4 q (by omega) hq2
  · rintro ⟨h1, h2, h3, h4⟩
    have : mid ≤ p := by
      apply Classical.byContradiction; intro hc
      rw [hz p h1 (by omega)] at h3; cases h3
    exact ⟨this, h2, h3, fun q hq1 hq2 => h4 q (by omega) hq2⟩

theorem skip_none {bit : Nat → Bool} {lo mid hi : Nat} (hlo : lo ≤ mid)
    (hz : ∀ q, lo ≤ q → q < mid → bit q = false) :
    ((∀ q, mid ≤ q → q < hi → bit q = false) ↔ (∀ q, lo ≤ q → q < hi → bit q = false)) := by
  constructor
  · intro hh q hq1 hq2
    by_cases hq : q < mid
    · exact hz q hq1 hq
    · exact hh q (by omega) hq2
  · intro hh q hq1 hq2; exact hh q (by omega) hq2

theorem hit_some {bit : Nat → Bool} {lo j hi p : Nat} (h1 : lo ≤ j) (h2 : j < hi) (hb : bit j = true)
    (hz : ∀ q, lo ≤ q → q < j → bit q = false) :
    (some j = some p ↔ (lo ≤ p ∧ p < hi ∧ bit p = true ∧ ∀ q, lo ≤ q → q < p → bit q = false)) := by
  constructor
  · intro e; injection e with e; subst e; exact ⟨h1, h2, hb, hz⟩
  · rintro ⟨a1, a2, a3, a4⟩
    by_cases hlt : p < j
    · rw [hz p a1 hlt] at a3; cases a3
    · by_cases hgt : j < p
      · have := a4 j h1 hgt; rw [hb] at this; cases this
      · have : j = p := by omega
        rw [this]

theorem scanBuckets_some (bk : Buckets) (hw : WFB bk) (bucketIndex rel : Nat) (hrel : rel < 3200) :
    ∀ (fuel i p : Nat), bucketIndex ≤ i → (scanBuckets bk bucketIndex rel fuel i = some p ↔
      (i * 3200 + fromId i bucketIndex rel ≤ p ∧ p < (i + fuel) * 3200 ∧ bitOf bk p = true ∧
        ∀ q, i * 3200 + fromId i bucketIndex rel ≤ q → q < p → bitOf bk q = false))
  | 0, i, p, _ => by
    unfold scanBuckets
    constructor
    · intro e; cases e
    · rintro ⟨h1, h2, _, _⟩; omega
  | fuel + 1, i, p, hi => by
    unfold scanBuckets
    have hfr : fromId i bucketIndex rel < 3200 := by unfold fromId; split <;> omega
    have hf1 : fromId (i + 1) bucketIndex rel = 0 := by unfold fromId; rw [if_neg (by omega)]
    have ih := scanBuckets_some bk hw bucketIndex rel hrel fuel (i + 1) p (by omega)
    rw [hf1, show i + 1 + fuel = i + (fuel + 1) by omega] at ih
    cases hb : bk i with
    | none =>
      show scanBuckets bk bucketIndex rel fuel (i + 1) = some p ↔ _
      rw [ih]
      refine skip_some (by omega) ?_
      intro q hq1 hq2
      have : q = i * 3200 + (q - i * 3200) := by omega
      rw [this, bitOf_bucket bk i _ (by omega), hb]; rfl
    | some b =>
      have hlen : b.length * 32 = 3200 := by rw [hw i b hb]; rfl
      dsimp only
      cases hfb : findBitInBucket b (fromId i bucketIndex rel) with
      | none =>
        have hn := findBitInBucket_none.mp hfb
        show scanBuckets bk bucketIndex rel fuel (i + 1) = some p ↔ _
        rw [ih]
        refine skip_some (by omega) ?_
        intro q hq1 hq2
        have : q = i * 3200 + (q - i * 3200) := by omega
        rw [this, bitOf_bucket bk i _ (by omega), hb]
        exact hn _ (by omega) (by omega)
      | some pb =>
        obtain ⟨a1, a2, a3, a4⟩ := findBitInBucket_some.mp hfb
        show some (i * IDS_IN_BUCKET + pb) = some p ↔ _
        unfold IDS_IN_BUCKET
        refine hit_some (by omega) (by omega) ?_ ?_
        · rw [bitOf_bucket bk i pb (by omega), hb]; exact a3
        · intro q hq1 hq2
          have : q = i * 3200 + (q - i * 3200) := by omega
          rw [this, bitOf_bucket bk i _ (by omega), hb]
          exact a4 _ (by omega) (by omega)

theorem scanBuckets_none (bk : Buckets) (hw : WFB bk) (bucketIndex rel : Nat) (hrel : rel < 3200) :
    ∀ (fuel i : Nat), bucketIndex ≤ i → (scanBuckets bk bucketIndex rel fuel i = none ↔
      (∀ q, i * 3200 + fromId i bucketIndex rel ≤ q → q < (i + fuel) * 3200 → bitOf bk q = false))
  | 0, i, _ => by
    unfold scanBuckets
    constructor
    · intro _ q h1 h2; omega
    · intro _; rfl
  | fuel + 1, i, hi => by
    unfold scanBuckets
    have hfr : fromId i bucketIndex rel < 3200 := by unfold fromId; split <;> omega
    have hf1 : fromId (i + 1) bucketIndex rel = 0 := by unfold fromId; rw [if_neg (by omega)]
    have ih := scanBuckets_none bk hw bucketIndex rel hrel fuel (i + 1) (by omega)
    rw [hf1, show i + 1 + fuel = i + (fuel + 1) by omega] at ih
    cases hb : bk i with
    | none =>
      show scanBuckets bk bucketIndex rel fuel (i + 1) = none ↔ _
      rw [ih]
      refine skip_none (by omega) ?_
      intro q hq1 hq2
      have : q = i * 3200 + (q - i * 3200) := by omega
      rw [this, bitOf_bucket bk i _ (by omega), hb]; rfl
    | some b =>
      have hlen : b.length * 32 = 3200 := by rw [hw i b hb]; rfl
      dsimp only
      cases hfb : findBitInBucket b (fromId i bucketIndex rel) with
      | none =>
        have hn := findBitInBucket_none.mp hfb
        show scanBuckets bk bucketIndex rel fuel (i + 1) = none ↔ _
        rw [ih]
        refine skip_none (by omega) ?_
        intro q hq1 hq2
        have : q = i * 3200 + (q - i * 3200) := by omega
        rw [this, bitOf_bucket bk i _ (by omega), hb]
        exact hn _ (by omega) (by omega)
      | some pb =>
        obtain ⟨a1, a2, a3, a4⟩ := findBitInBucket_some.mp hfb
        show some (i * IDS_IN_BUCKET + pb) = none ↔ _
        unfold IDS_IN_BUCKET
        constructor
        · intro e; cases e
        · intro hh
          have := hh (i * 3200 + pb) (by omega) (by omega)
          rw [bitOf_bucket bk i pb (by omega), hb] at this
          have a3' : bitB b pb = true := a3
          rw [show bucketBit (some b) pb = bitB b pb from rfl, a3'] at this; cases this

/-- the bucket scan of `owner_of` returns the least set ownership bit in
`[token_id, end of the last bucket)` -/
theorem findInBuckets_some {bk : Buckets} (hw : WFB bk) {id last p : Nat} (hle : id ≤ last) :
    findInBuckets bk id last = some p ↔
      (id ≤ p ∧ p < (last / 3200 + 1) * 3200 ∧ bitOf bk p = true ∧
        ∀ q, id ≤ q → q < p → bitOf bk q = false) := by
  unfold findInBuckets IDS_IN_BUCKET
  rw [scanBuckets_some bk hw _ _ (by omega) _ _ p (Nat.le_refl _)]
  have hf : fromId (id / 3200) (id / 3200) (id % 3200) = id % 3200 := by unfold fromId; rw [if_pos rfl]
  rw [hf, show id / 3200 * 3200 + id % 3200 = id by omega,
    show id / 3200 + (last / 3200 + 1 - id / 3200) = last / 3200 + 1 by omega]

theorem findInBuckets_none {bk : Buckets} (hw : WFB bk) {id last : Nat} (hle : id ≤ last) :
    findInBuckets bk id last = none ↔
      (∀ q, id ≤ q → q < (last / 3200 + 1) * 3200 → bitOf bk q = false) := by
  unfold findInBuckets IDS_IN_BUCKET
  rw [scanBuckets_none bk hw _ _ (by omega) _ _ (Nat.le_refl _)]
  have hf : fromId (id / 3200) (id / 3200) (id % 3200) = id % 3200 := by unfold fromId; rw [if_pos rfl]
  rw [hf, show id / 3200 * 3200 + id % 3200 = id by omega,
    show id / 3200 + (last / 3200 + 1 - id / 3200) = last / 3200 + 1 by omega]

/-! ### setting a bit -/

theorem bitB_set (b : List Nat) (a v x : Nat) (ha : a < b.length) :
    bitB (b.set a v) x = if x / 32 = a then v.testBit (31 - x % 32) else bitB b x := by
  unfold bitB
  rw [List.getD_eq_getElem?_getD, List.getElem?_set, List.getD_eq_getElem?_getD]
  by_cases h : x / 32 = a
  · rw [if_pos h, if_pos h.symm, if_pos ha]; rfl
  · rw [if_neg h, if_neg (fun e => h e.symm)]

theorem bitB_empty (x : Nat) : bitB emptyBucket x = false := by
  unfold bitB emptyBucket
  rw [List.getD_eq_getElem?_getD, List.getElem?_replicate]
  split <;> simp

theorem bitOf_eq (bk : Buckets) (i : Nat) :
    bitOf bk i = bitB (bucketOrEmpty bk (i / 3200)) (i % 3200) := by
  have h := bitOf_bucket bk (i / 3200) (i % 3200) (by omega)
  rw [show i / 3200 * 3200 + i % 3200 = i by omega] at h
  rw [h]
  unfold bucketBit bucketOrEmpty
  cases bk (i / 3200) with
  | none => exact (bitB_empty _).symm
  | some b => rfl

theorem bucketOrEmpty_length {bk : Buckets} (hw : WFB bk) (k : Nat) :
    (bucketOrEmpty bk k).length = 100 := by
  unfold bucketOrEmpty
  cases h : bk k with
  | none => simp [emptyBucket, ITEMS_IN_BUCKET]
  | some b => exact hw k b h

theorem bucketOrEmpty_upd (bk : Buckets) (k : Nat) (b : List Nat) (k' : Nat) :
    bucketOrEmpty (upd bk k (some b)) k' = if k' = k then b else bucketOrEmpty bk k' := by
  unfold bucketOrEmpty
  by_cases h : k' = k
  · subst h; rw [upd_same, if_pos rfl]
  · rw [upd_other _ _ _ _ h, if_neg h]

/-- `set_ownership_in_bucket` (bucket part) never hits its `expect`, keeps buckets at 100
items and adds exactly the bit of `token_id` -/
theorem setBit_spec {bk : Buckets} (hw : WFB bk) (id : Nat) :
    ∃ bk', setBit bk id = some bk' ∧ WFB bk' ∧ ∀ i, bitOf bk' i = upd (bitOf bk) id true i := by
  unfold setBit setInBucket IDS_IN_BUCKET IDS_IN_ITEM
  have hlen := bucketOrEmpty_length hw (id / 3200)
  have hidx : id % 3200 / 32 < (bucketOrEmpty bk (id / 3200)).length := by rw [hlen]; omega
  rw [List.getElem?_eq_getElem hidx]
  simp only
  have hmask : maskOf (id % 3200 % 32) = 1 <<< (31 - id % 3200 % 32) := by
    unfold maskOf IDS_IN_ITEM; rw [show 32 - id % 3200 % 32 - 1 = 31 - id % 3200 % 32 by omega]
  rw [hmask]
  -- the bit of `id` in terms of the item read
  have hbit : bitOf bk id
      = ((bucketOrEmpty bk (id / 3200))[id % 3200 / 32]'hidx).testBit (31 - id % 3200 % 32) := by
    rw [bitOf_eq]; unfold bitB
    rw [List.getD_eq_getElem?_getD, List.getElem?_eq_getElem hidx]; rfl
  by_cases hset : (bucketOrEmpty bk (id / 3200))[id % 3200 / 32]'hidx &&& 1 <<< (31 - id % 3200 % 32) ≠ 0
  · rw [if_pos hset]
    refine ⟨bk, rfl, hw, ?_⟩
    intro i
    by_cases e : i = id
    · subst e; rw [upd_same, hbit]; exact (and_shift_ne_zero _ _).mp hset
    · rw [upd_other _ _ _ _ e]
  · rw [if_neg hset]
    have hclear : bitOf bk id = false := by
      rw [hbit]
      cases hb : ((bucketOrEmpty bk (id / 3200))[id % 3200 / 32]'hidx).testBit (31 - id % 3200 % 32)
      · rfl
      · exact absurd ((and_shift_ne_zero _ _).mpr hb) hset
    refine ⟨_, rfl, ?_, ?_⟩
    · intro k b hb
      by_cases e : k = id / 3200
      · subst e; rw [upd_same] at hb; injection hb with hb; subst hb
        rw [List.length_set, hlen]; rfl
      · rw [upd_other _ _ _ _ e] at hb; exact hw k b hb
    · intro i
      rw [bitOf_eq, bucketOrEmpty_upd]
      by_cases hk : i / 3200 = id / 3200
      · rw [if_pos hk, bitB_set _ _ _ _ hidx]
        by_cases hit : i % 3200 / 32 = id % 3200 / 32
        · rw [if_pos hit, Nat.testBit_or, Nat.one_shiftLeft, Nat.testBit_two_pow]
          by_cases e : i = id
          · subst e; rw [upd_same]; simp
          · rw [upd_other _ _ _ _ e]
            have hne : ¬ (31 - id % 3200 % 32 = 31 - i % 3200 % 32) := by omega
            rw [decide_eq_false hne, Bool.or_false, bitOf_eq, hk]
            unfold bitB
            rw [List.getD_eq_getElem?_getD, hit, List.getElem?_eq_getElem hidx]; rfl
        · rw [if_neg hit]
          have e : i ≠ id := by intro e; subst e; exact hit rfl
          rw [upd_other _ _ _ _ e, bitOf_eq, hk]
      · rw [if_neg hk]
        have e : i ≠ id := by intro e; subst e; exact hk rfl
        rw [upd_other _ _ _ _ e, bitOf_eq]

/-! ### the bit layer implements the set layer -/

theorem bitOps_impl : Impl bitOps bitOf WFB := by
  refine ⟨?_, ?_⟩
  · intro bk id n hw hlt hbl
    show findInBuckets bk id (n - 1) = findFrom (bitOf bk) id n
    cases hff : findFrom (bitOf bk) id n with
    | none =>
      have hz := findFrom_none.mp hff
      refine (findInBuckets_none hw (by omega)).mpr ?_
      intro q hq1 hq2
      by_cases hq : q < n
      · exact hz q hq1 hq
      · cases hb : bitOf bk q
        · rfl
        · have := hbl q hb; omega
    | some j =>
      obtain ⟨h1, h2, h3, h4⟩ := findFrom_some.mp hff
      exact (findInBuckets_some hw (by omega)).mpr ⟨h1, by omega, h3, h4⟩
  · intro bk id hw
    exact setBit_spec hw id

theorem WFB_empty : WFB noBuckets := by
  intro k b h; cases h

theorem bitOf_empty (i : Nat) : bitOf noBuckets i = false := rfl

end OZ.NftCons
