import OZ.Lemmas.Nft
import OZ.Model.NftEnumerable
/-
Helper lemmas for the enumerable NFT model. `LOK tok idx n P` says that the storage maps
`tok : index ↦ token` and `idx : token ↦ index` are a list of length `n` enumerating exactly
the tokens satisfying `P`, each once, with `idx` the inverse of `tok`. Appending and
swap-and-pop (exactly as coded, including the unconditional swap) preserve it.
-/
namespace OZ.NftEnum
open OZ.Host OZ.Nft

def LOK (tok idx : Nat → Option Nat) (n : Nat) (P : Nat → Prop) : Prop :=
  (∀ i, i < n → ∃ t, tok i = some t ∧ idx t = some i ∧ P t) ∧
  (∀ t, P t → ∃ i, i < n ∧ idx t = some i ∧ tok i = some t) ∧
  (∀ i, n ≤ i → tok i = none)

theorem LOK_congr {tok idx tok' idx' : Nat → Option Nat} {n n' : Nat} {P Q : Nat → Prop}
    (h : LOK tok idx n P) (ht : ∀ i, tok' i = tok i) (hi : ∀ t, idx' t = idx t) (hn : n' = n)
    (hQ : ∀ t, Q t ↔ P t) : LOK tok' idx' n' Q := by
  subst hn
  obtain ⟨h1, h2, h3⟩ := h
  refine ⟨?_, ?_, ?_⟩
  · intro i hi'
    obtain ⟨t, a, b, c⟩ := h1 i hi'
    exact ⟨t, by rw [ht, a], by rw [hi, b], (hQ t).mpr c⟩
  · intro t hq
    obtain ⟨i, a, b, c⟩ := h2 t ((hQ t).mp hq)
    exact ⟨i, a, by rw [hi, b], by rw [ht, c]⟩
  · intro i hi'; rw [ht]; exact h3 i hi'

/-- `idx` may change on tokens outside `P` -/
theorem LOK_frame {tok idx idx' : Nat → Option Nat} {n : Nat} {P : Nat → Prop}
    (h : LOK tok idx n P) (hi : ∀ t, P t → idx' t = idx t) : LOK tok idx' n P := by
  obtain ⟨h1, h2, h3⟩ := h
  refine ⟨?_, ?_, h3⟩
  · intro i hi'
    obtain ⟨t, a, b, c⟩ := h1 i hi'
    exact ⟨t, a, by rw [hi t c, b], c⟩
  · intro t hp
    obtain ⟨i, a, b, c⟩ := h2 t hp
    exact ⟨i, a, by rw [hi t hp, b], c⟩

/-- append at index `n` -/
theorem LOK_add {tok idx : Nat → Option Nat} {n : Nat} {P Q : Nat → Prop} (h : LOK tok idx n P)
    {id : Nat} (hid : ¬ P id) (hQ : ∀ t, Q t ↔ P t ∨ t = id) :
    LOK (upd tok n (some id)) (upd idx id (some n)) (n + 1) Q := by
  obtain ⟨h1, h2, h3⟩ := h
  refine ⟨?_, ?_, ?_⟩
  · intro i hi
    by_cases hin : i = n
    · subst hin
      exact ⟨id, upd_same _ _ _, upd_same _ _ _, (hQ id).mpr (Or.inr rfl)⟩
    · obtain ⟨t, a, b, c⟩ := h1 i (by omega)
      have htid : t ≠ id := fun e => hid (e ▸ c)
      exact ⟨t, by rw [upd_other _ _ _ _ hin, a], by rw [upd_other _ _ _ _ htid, b], (hQ t).mpr (Or.inl c)⟩
  · intro t hq
    rcases (hQ t).mp hq with hp | rfl
    · obtain ⟨i, a, b, c⟩ := h2 t hp
      have htid : t ≠ id := fun e => hid (e ▸ hp)
      exact ⟨i, by omega, by rw [upd_other _ _ _ _ htid, b], by rw [upd_other _ _ _ _ (by omega), c]⟩
    · exact ⟨n, by omega, upd_same _ _ _, upd_same _ _ _⟩
  · intro i hi
    rw [upd_other _ _ _ _ (by omega)]; exact h3 i (by omega)

/-- swap-and-pop with an unconditional swap: the last token moves to the removed token's slot
(also when they coincide), then the last slot and the removed token's index are deleted -/
theorem LOK_remove {tok idx : Nat → Option Nat} {n : Nat} {P Q : Nat → Prop}
    (h : LOK tok idx (n + 1) P) {id k lastId : Nat} (hid : P id) (hk : idx id = some k)
    (hl : tok n = some lastId) (hQ : ∀ t, Q t ↔ P t ∧ t ≠ id) :
    LOK (upd (upd tok k (some lastId)) n none) (upd (upd idx lastId (some k)) id none) n Q := by
  obtain ⟨h1, h2, h3⟩ := h
  -- where `id` sits
  obtain ⟨k', hk'lt, hk'idx, hk'tok⟩ := h2 id hid
  have hkk : k' = k := by rw [hk] at hk'idx; injection hk'idx with e; exact e.symm
  subst hkk
  -- the last token
  obtain ⟨l, hltok, hlidx, hlP⟩ := h1 n (by omega)
  have hll : l = lastId := by rw [hl] at hltok; injection hltok with e; exact e.symm
  subst hll
  refine ⟨?_, ?_, ?_⟩
  · intro i hi
    by_cases hik : i = k'
    · subst hik
      have hlid : l ≠ id := by
        intro e; subst e; rw [hk] at hlidx; injection hlidx with e; omega
      refine ⟨l, ?_, ?_, (hQ l).mpr ⟨hlP, hlid⟩⟩
      · rw [upd_other _ _ _ _ (by omega), upd_same]
      · rw [upd_other _ _ _ _ hlid, upd_same]
    · obtain ⟨t, a, b, c⟩ := h1 i (by omega)
      have htid : t ≠ id := by
        intro e; subst e; rw [hk] at b; injection b with e; exact hik e.symm
      have htl : t ≠ l := by
        intro e; subst e; rw [hlidx] at b; injection b with e; omega
      refine ⟨t, ?_, ?_, (hQ t).mpr ⟨c, htid⟩⟩
      · rw [upd_other _ _ _ _ (by omega), upd_other _ _ _ _ hik, a]
      · rw [upd_other _ _ _ _ htid, upd_other _ _ _ _ htl, b]
  · intro t hq
    obtain ⟨hp, htid⟩ := (hQ t).mp hq
    by_cases htl : t = l
    · subst htl
      have hkn : k' ≠ n := by
        intro e; subst e
        rw [hl] at hk'tok; injection hk'tok with e; exact htid e
      refine ⟨k', by omega, ?_, ?_⟩
      · rw [upd_other _ _ _ _ htid, upd_same]
      · rw [upd_other _ _ _ _ hkn, upd_same]
    · obtain ⟨i, a, b, c⟩ := h2 t hp
      have hin : i ≠ n := by
        intro e; subst e; rw [hl] at c; injection c with e; exact htl e.symm
      have hik : i ≠ k' := by
        intro e; subst e; rw [hk'tok] at c; injection c with e; exact htid e.symm
      refine ⟨i, by omega, ?_, ?_⟩
      · rw [upd_other _ _ _ _ htid, upd_other _ _ _ _ htl, b]
      · rw [upd_other _ _ _ _ hin, upd_other _ _ _ _ hik, c]
  · intro i hi
    by_cases hin : i = n
    · subst hin; exact upd_same _ _ _
    · rw [upd_other _ _ _ _ hin, upd_other _ _ _ _ (by omega)]; exact h3 i (by omega)

theorem upd_upd_same {β} (f : Nat → β) (a : Nat) (v w : β) (x : Nat) :
    upd (upd f a v) a w x = upd f a w x := by
  by_cases h : x = a
  · subst h; rw [upd_same, upd_same]
  · rw [upd_other _ _ _ _ h, upd_other _ _ _ _ h, upd_other _ _ _ _ h]

/-- swap-and-pop when the removed token IS the last one and the swap is skipped -/
theorem LOK_pop {tok idx : Nat → Option Nat} {n : Nat} {P Q : Nat → Prop}
    (h : LOK tok idx (n + 1) P) {id : Nat} (hid : P id) (hk : idx id = some n)
    (hQ : ∀ t, Q t ↔ P t ∧ t ≠ id) :
    LOK (upd tok n none) (upd idx id none) n Q := by
  obtain ⟨i, hi, hidx, htok⟩ := h.2.1 id hid
  have : i = n := by rw [hk] at hidx; injection hidx with e; exact e.symm
  subst this
  exact LOK_congr (LOK_remove h hid hk htok hQ) (fun x => (upd_upd_same _ _ _ _ x).symm)
    (fun x => (upd_upd_same _ _ _ _ x).symm) rfl (fun _ => Iff.rfl)

theorem upd2_same {β} (f : Nat → Nat → β) (a b : Nat) (v : β) (y : Nat) :
    upd2 f a b v a y = upd (f a) b v y := by
  simp [upd2, upd]

theorem upd2_other {β} (f : Nat → Nat → β) (a b x : Nat) (v : β) (y : Nat) (h : x ≠ a) :
    upd2 f a b v x y = f x y := by
  simp [upd2, h]

/-- the list that `get_token_id(0..n)` / `get_owner_token_id(a, 0..n)` read out -/
def listOf (tok : Nat → Option Nat) (n : Nat) : List Nat := (List.range n).filterMap tok

theorem mem_listOf {tok : Nat → Option Nat} {n t : Nat} :
    t ∈ listOf tok n ↔ ∃ i, i < n ∧ tok i = some t := by
  simp [listOf, List.mem_filterMap, List.mem_range]

theorem listOf_succ {tok : Nat → Option Nat} {n t : Nat} (h : tok n = some t) :
    listOf tok (n + 1) = listOf tok n ++ [t] := by
  simp [listOf, List.range_succ, List.filterMap_append, h]

/-- a well-formed pair of maps reads out as a duplicate-free list of length `n` whose members
are exactly the tokens satisfying `P` -/
theorem LOK_list {tok idx : Nat → Option Nat} {n : Nat} {P : Nat → Prop} (h : LOK tok idx n P) :
    (listOf tok n).length = n ∧ (listOf tok n).Nodup ∧ ∀ t, t ∈ listOf tok n ↔ P t := by
  obtain ⟨h1, h2, h3⟩ := h
  have key : ∀ m, m ≤ n → (listOf tok m).length = m ∧ (listOf tok m).Nodup := by
    intro m
    induction m with
    | zero => intro _; exact ⟨rfl, List.nodup_nil⟩
    | succ m ih =>
      intro hm
      obtain ⟨hl, hn⟩ := ih (by omega)
      obtain ⟨t, ht, hidx, _⟩ := h1 m (by omega)
      rw [listOf_succ ht]
      refine ⟨by simp [hl], ?_⟩
      rw [List.nodup_append]
      refine ⟨hn, by simp, ?_⟩
      intro a ha b hb
      simp at hb; subst hb
      obtain ⟨i, hi, hti⟩ := mem_listOf.mp ha
      obtain ⟨t', ht', hidx', _⟩ := h1 i (by omega)
      rw [hti] at ht'; injection ht' with e; subst e
      intro e; subst e
      rw [hidx] at hidx'; injection hidx' with e; omega
  refine ⟨(key n (Nat.le_refl n)).1, (key n (Nat.le_refl n)).2, ?_⟩
  intro t
  rw [mem_listOf]
  constructor
  · rintro ⟨i, hi, hti⟩
    obtain ⟨t', ht', _, hp⟩ := h1 i hi
    rw [hti] at ht'; injection ht' with e; subst e; exact hp
  · intro hp
    obtain ⟨i, hi, _, hti⟩ := h2 t hp
    exact ⟨i, hi, hti⟩

/-! ### what the list primitives do -/

theorem addToOwner_ok {s s' : State} {o id : Nat} (h : addToOwnerEnumeration s o id = .ok s') :
    1 ≤ s.bal o ∧
    s' = { s with oTok := upd2 s.oTok o (s.bal o - 1) (some id),
                  oIdx := upd s.oIdx id (some (s.bal o - 1)) } := by
  unfold addToOwnerEnumeration at h
  split at h
  · cases h
  · injection h with h; exact ⟨by omega, h.symm⟩

/-- both branches of `remove_from_owner_enumeration` -/
theorem removeFromOwner_ok {s s' : State} {o id : Nat} (h : removeFromOwnerEnumeration s o id = .ok s') :
    ∃ k, s.oIdx id = some k ∧
      ((k ≠ s.bal o ∧ ∃ lastId, s.oTok o (s.bal o) = some lastId ∧
          s' = ownerPop (ownerSwap s o k lastId) o (s.bal o) id) ∨
       (k = s.bal o ∧ s' = ownerPop s o (s.bal o) id)) := by
  unfold removeFromOwnerEnumeration at h
  split at h
  · cases h
  · rename_i k hk
    refine ⟨k, hk, ?_⟩
    split at h
    · rename_i hne
      split at h
      · cases h
      · rename_i lastId hl
        injection h with h
        exact Or.inl ⟨hne, lastId, hl, h.symm⟩
    · rename_i heq
      injection h with h
      exact Or.inr ⟨Classical.not_not.mp heq, h.symm⟩

theorem removeFromGlobal_ok {s s' : State} {id last : Nat} (h : removeFromGlobalEnumeration s id last = .ok s') :
    ∃ k lastId, s.gIdx id = some k ∧ s.gTok last = some lastId ∧
      s' = { s with gTok := upd (upd s.gTok k (some lastId)) last none,
                    gIdx := upd (upd s.gIdx lastId (some k)) id none } := by
  unfold removeFromGlobalEnumeration at h
  split at h
  · cases h
  · rename_i k hk
    split at h
    · cases h
    · rename_i lastId hl
      injection h with h
      exact ⟨k, lastId, hk, hl, h.symm⟩

theorem incrementTotal_ok {s s' : State} {ts : Nat} (h : incrementTotalSupply s = .ok (s', ts)) :
    s' = { s with total := s.total + 1 } ∧ ts = s.total := by
  unfold incrementTotalSupply at h
  split at h
  · cases h
  · injection h with h; injection h with h1 h2; exact ⟨h1.symm, h2.symm⟩

theorem decrementTotal_ok {s s' : State} {ts : Nat} (h : decrementTotalSupply s = .ok (s', ts)) :
    1 ≤ s.total ∧ s' = { s with total := s.total - 1 } ∧ ts = s.total - 1 := by
  unfold decrementTotalSupply at h
  split at h
  · cases h
  · injection h with h; injection h with h1 h2; exact ⟨by omega, h1.symm, h2.symm⟩

/-! ### the invariant -/

/-- the global list enumerates the existing tokens, each owner's list the tokens of that owner -/
structure EInv (s : State) : Prop where
  glob : LOK s.gTok s.gIdx s.total (fun t => (s.owner t).isSome = true)
  own : ∀ a, LOK (s.oTok a) s.oIdx (s.bal a) (fun t => s.owner t = some a)

theorem init_einv (now : Nat) : EInv (init now) := by
  refine ⟨⟨?_, ?_, ?_⟩, fun a => ⟨?_, ?_, ?_⟩⟩
  · intro i hi; exact absurd hi (by simp [init, Nft.init, Core.init])
  · intro t ht; simp [init, Nft.init] at ht
  · intro i _; rfl
  · intro i hi; exact absurd hi (by simp [init, Nft.init, Core.init])
  · intro t ht; simp [init, Nft.init] at ht
  · intro i _; rfl

/-- the enumeration part of a mint: `owner`/`bal` are already those after `Base::update` -/
theorem addToEnumerations_inv {s s' : State} {to id : Nat} {own0 : Nat → Option Nat} {bal0 : Nat → Nat}
    (hg : LOK s.gTok s.gIdx s.total (fun t => (own0 t).isSome = true))
    (ho : ∀ a, LOK (s.oTok a) s.oIdx (bal0 a) (fun t => own0 t = some a))
    (hfresh : own0 id = none)
    (hown : s.owner = upd own0 id (some to)) (hbal : s.bal = upd bal0 to (bal0 to + 1))
    (h : addToEnumerations s to id = .ok s') :
    EInv s' ∧ s'.toState = s.toState := by
  obtain ⟨s1, h1, h⟩ := bind_eq_ok h
  obtain ⟨⟨s2, ts⟩, h2, h⟩ := bind_eq_ok h
  have h := pure_eq_ok h
  obtain ⟨_, hs1⟩ := addToOwner_ok h1
  obtain ⟨hs2, hts⟩ := incrementTotal_ok h2
  subst hs1; subst hs2; subst hts; subst h
  have hbt : s.bal to - 1 = bal0 to := by rw [hbal, upd_same]; omega
  refine ⟨⟨?_, ?_⟩, rfl⟩
  · show LOK (upd s.gTok s.total (some id)) (upd s.gIdx id (some s.total)) (s.total + 1)
        (fun t => (s.owner t).isSome = true)
    refine LOK_add hg (by simp [hfresh]) ?_
    intro t; rw [hown]
    by_cases ht : t = id
    · subst ht; simp [upd_same]
    · rw [upd_other _ _ _ _ ht]; simp [ht]
  · intro a
    show LOK (upd2 s.oTok to (s.bal to - 1) (some id) a) (upd s.oIdx id (some (s.bal to - 1))) (s.bal a)
        (fun t => s.owner t = some a)
    rw [hbt]
    by_cases ha : a = to
    · subst ha
      have := LOK_add (Q := fun t => s.owner t = some a) (ho a) (id := id) (by simp [hfresh]) (by
        intro t; rw [hown]
        by_cases ht : t = id
        · subst ht; simp [upd_same]
        · rw [upd_other _ _ _ _ ht]; simp [ht])
      exact LOK_congr this (fun i => upd2_same _ _ _ _ _) (fun _ => rfl) (by rw [hbal, upd_same])
        (fun _ => Iff.rfl)
    · have hf : LOK (s.oTok a) (upd s.oIdx id (some (bal0 to))) (bal0 a) (fun t => own0 t = some a) := by
        refine LOK_frame (ho a) ?_
        intro t ht
        have : t ≠ id := by intro e; subst e; rw [hfresh] at ht; cases ht
        rw [upd_other _ _ _ _ this]
      refine LOK_congr hf (fun i => upd2_other _ _ _ _ _ _ ha) (fun _ => rfl)
        (by rw [hbal, upd_other _ _ _ _ ha]) ?_
      intro t; rw [hown]
      by_cases ht : t = id
      · subst ht; rw [upd_same, hfresh]
        constructor
        · intro e; injection e with e; exact absurd e.symm ha
        · intro e; cases e
      · rw [upd_other _ _ _ _ ht]

/-- the owner-list part of a transfer or burn: `own0`/`bal0` are the maps BEFORE `Base::update`,
the state already carries the decremented balance of `f` -/
theorem removeFromOwner_inv {s s' : State} {f id : Nat} {own0 : Nat → Option Nat} {bal0 : Nat → Nat}
    (ho : ∀ a, LOK (s.oTok a) s.oIdx (bal0 a) (fun t => own0 t = some a))
    (hown : own0 id = some f) (hge : 1 ≤ bal0 f) (hbal : s.bal f = bal0 f - 1)
    (h : removeFromOwnerEnumeration s f id = .ok s') :
    (∀ a, LOK (s'.oTok a) s'.oIdx (upd bal0 f (bal0 f - 1) a) (fun t => own0 t = some a ∧ t ≠ id)) ∧
    s'.toState = s.toState ∧ s'.total = s.total ∧ s'.gTok = s.gTok ∧ s'.gIdx = s.gIdx := by
  obtain ⟨k, hk, hcase⟩ := removeFromOwner_ok h
  have hf : LOK (s.oTok f) s.oIdx (s.bal f + 1) (fun t => own0 t = some f) :=
    LOK_congr (ho f) (fun _ => rfl) (fun _ => rfl) (by omega) (fun _ => Iff.rfl)
  -- the last token of f's list belongs to f
  obtain ⟨l, hltok, hlidx, hlP⟩ := hf.1 (s.bal f) (by omega)
  rcases hcase with ⟨hne, lastId, hl, hs'⟩ | ⟨heq, hs'⟩
  · have : l = lastId := by rw [hl] at hltok; injection hltok with e; exact e.symm
    subst this
    subst hs'
    refine ⟨?_, rfl, rfl, rfl, rfl⟩
    intro a
    show LOK (upd2 (upd2 s.oTok f k (some l)) f (s.bal f) none a)
        (upd (upd s.oIdx l (some k)) id none) (upd bal0 f (bal0 f - 1) a) (fun t => own0 t = some a ∧ t ≠ id)
    by_cases ha : a = f
    · subst ha
      refine LOK_congr (LOK_remove hf hown hk hl (fun _ => Iff.rfl)) ?_ (fun _ => rfl)
        (by rw [upd_same, hbal]) (fun _ => Iff.rfl)
      intro i
      rw [upd2_same]
      by_cases hi : i = s.bal a
      · subst hi; rw [upd_same, upd_same]
      · rw [upd_other _ _ _ _ hi, upd_other _ _ _ _ hi, upd2_same]
    · have hfr : LOK (s.oTok a) (upd (upd s.oIdx l (some k)) id none) (bal0 a) (fun t => own0 t = some a) := by
        refine LOK_frame (ho a) ?_
        intro t ht
        have h1 : t ≠ id := by intro e; subst e; rw [hown] at ht; injection ht with e; exact ha e.symm
        have h2 : t ≠ l := by intro e; subst e; rw [hlP] at ht; injection ht with e; exact ha e.symm
        rw [upd_other _ _ _ _ h1, upd_other _ _ _ _ h2]
      refine LOK_congr hfr ?_ (fun _ => rfl) (by rw [upd_other _ _ _ _ ha]) ?_
      · intro i; rw [upd2_other _ _ _ _ _ _ ha, upd2_other _ _ _ _ _ _ ha]
      · intro t
        constructor
        · intro hq; exact hq.1
        · intro hq; refine ⟨hq, ?_⟩
          intro e; subst e; rw [hown] at hq; injection hq with e; exact ha e.symm
  · subst heq
    subst hs'
    refine ⟨?_, rfl, rfl, rfl, rfl⟩
    intro a
    show LOK (upd2 s.oTok f (s.bal f) none a) (upd s.oIdx id none) (upd bal0 f (bal0 f - 1) a)
        (fun t => own0 t = some a ∧ t ≠ id)
    by_cases ha : a = f
    · subst ha
      exact LOK_congr (LOK_pop hf hown hk (fun _ => Iff.rfl)) (fun i => upd2_same _ _ _ _ _) (fun _ => rfl)
        (by rw [upd_same, hbal]) (fun _ => Iff.rfl)
    · have hfr : LOK (s.oTok a) (upd s.oIdx id none) (bal0 a) (fun t => own0 t = some a) := by
        refine LOK_frame (ho a) ?_
        intro t ht
        have h1 : t ≠ id := by intro e; subst e; rw [hown] at ht; injection ht with e; exact ha e.symm
        rw [upd_other _ _ _ _ h1]
      refine LOK_congr hfr (fun i => upd2_other _ _ _ _ _ _ ha) (fun _ => rfl)
        (by rw [upd_other _ _ _ _ ha]) ?_
      intro t
      constructor
      · intro hq; exact hq.1
      · intro hq; refine ⟨hq, ?_⟩
        intro e; subst e; rw [hown] at hq; injection hq with e; exact ha e.symm

/-- the owner lists after `transfer` / `transfer_from` (the base update already happened) -/
theorem moveInOwner_inv {s s' : State} {f to id : Nat} {own0 : Nat → Option Nat} {bal0 : Nat → Nat}
    (hg : LOK s.gTok s.gIdx s.total (fun t => (own0 t).isSome = true))
    (ho : ∀ a, LOK (s.oTok a) s.oIdx (bal0 a) (fun t => own0 t = some a))
    (hown0 : own0 id = some f) (hge : 1 ≤ bal0 f)
    (hown : s.owner = upd own0 id (some to))
    (hbal : s.bal = upd (upd bal0 f (bal0 f - 1)) to (upd bal0 f (bal0 f - 1) to + 1))
    (h : moveInOwnerEnumerations s f to id = .ok s') :
    EInv s' ∧ s'.toState = s.toState := by
  unfold moveInOwnerEnumerations at h
  split at h
  · rename_i hft
    obtain ⟨s1, h1, h2⟩ := bind_eq_ok h
    have hbf : s.bal f = bal0 f - 1 := by
      rw [hbal, upd_other _ _ _ _ hft, upd_same]
    obtain ⟨hl, hst, htot, hgt, hgi⟩ := removeFromOwner_inv ho hown0 hge hbf h1
    obtain ⟨_, hs'⟩ := addToOwner_ok h2
    have hb1 : s1.bal = s.bal := by rw [show s1.bal = s1.toState.bal from rfl, hst]
    have ho1 : s1.owner = s.owner := by rw [show s1.owner = s1.toState.owner from rfl, hst]
    have hbt : s1.bal to - 1 = bal0 to := by
      rw [hb1, hbal, upd_same, upd_other _ _ _ _ (Ne.symm hft)]; omega
    subst hs'
    refine ⟨⟨?_, ?_⟩, hst⟩
    · show LOK s1.gTok s1.gIdx s1.total (fun t => (s1.owner t).isSome = true)
      rw [hgt, hgi, htot, ho1, hown]
      refine LOK_congr hg (fun _ => rfl) (fun _ => rfl) rfl ?_
      intro t
      by_cases ht : t = id
      · subst ht; rw [upd_same, hown0]; simp
      · rw [upd_other _ _ _ _ ht]
    · intro a
      show LOK (upd2 s1.oTok to (s1.bal to - 1) (some id) a) (upd s1.oIdx id (some (s1.bal to - 1)))
          (s1.bal a) (fun t => s1.owner t = some a)
      rw [hbt, hb1, ho1, hown]
      by_cases ha : a = to
      · subst ha
        have h3 := hl a
        rw [upd_other _ _ _ _ (Ne.symm hft)] at h3
        have := LOK_add (Q := fun t => upd own0 id (some a) t = some a) h3 (id := id) (by simp) (by
          intro t
          by_cases ht : t = id
          · subst ht; simp [upd_same]
          · rw [upd_other _ _ _ _ ht]; simp [ht])
        exact LOK_congr this (fun i => upd2_same _ _ _ _ _) (fun _ => rfl)
          (by rw [hbal, upd_same, upd_other _ _ _ _ (Ne.symm hft)]) (fun _ => Iff.rfl)
      · have hfr : LOK (s1.oTok a) (upd s1.oIdx id (some (bal0 to))) (upd bal0 f (bal0 f - 1) a)
            (fun t => own0 t = some a ∧ t ≠ id) := by
          refine LOK_frame (hl a) ?_
          intro t ht
          rw [upd_other _ _ _ _ ht.2]
        refine LOK_congr hfr (fun i => upd2_other _ _ _ _ _ _ ha) (fun _ => rfl)
          (by rw [hbal, upd_other _ _ _ _ ha]) ?_
        intro t
        by_cases ht : t = id
        · subst ht; rw [upd_same]
          constructor
          · intro e; injection e with e; exact absurd e.symm ha
          · intro e; exact absurd rfl e.2
        · rw [upd_other _ _ _ _ ht]; simp [ht]
  · rename_i hft
    have hft : f = to := Classical.not_not.mp hft
    subst hft
    injection h with h
    subst h
    refine ⟨⟨?_, ?_⟩, rfl⟩
    · rw [hown]
      refine LOK_congr hg (fun _ => rfl) (fun _ => rfl) rfl ?_
      intro t
      by_cases ht : t = id
      · subst ht; rw [upd_same, hown0]
      · rw [upd_other _ _ _ _ ht]
    · intro a
      rw [hown, hbal]
      refine LOK_congr (ho a) (fun _ => rfl) (fun _ => rfl) ?_ ?_
      · by_cases ha : a = f
        · subst ha; rw [upd_same, upd_same]; omega
        · rw [upd_other _ _ _ _ ha, upd_other _ _ _ _ ha]
      · intro t
        by_cases ht : t = id
        · subst ht; rw [upd_same, hown0]
        · rw [upd_other _ _ _ _ ht]

/-- both lists after `burn` / `burn_from` (the base update already happened) -/
theorem removeFromEnumerations_inv {s s' : State} {f id : Nat} {own0 : Nat → Option Nat} {bal0 : Nat → Nat}
    (hg : LOK s.gTok s.gIdx s.total (fun t => (own0 t).isSome = true))
    (ho : ∀ a, LOK (s.oTok a) s.oIdx (bal0 a) (fun t => own0 t = some a))
    (hown0 : own0 id = some f) (hge : 1 ≤ bal0 f)
    (hown : s.owner = upd own0 id none) (hbal : s.bal = upd bal0 f (bal0 f - 1))
    (h : removeFromEnumerations s f id = .ok s') :
    EInv s' ∧ s'.toState = s.toState := by
  obtain ⟨s1, h1, h⟩ := bind_eq_ok h
  obtain ⟨⟨s2, ts⟩, h2, h3⟩ := bind_eq_ok h
  have hbf : s.bal f = bal0 f - 1 := by rw [hbal, upd_same]
  obtain ⟨hl, hst, htot, hgt, hgi⟩ := removeFromOwner_inv ho hown0 hge hbf h1
  obtain ⟨hge1, hs2, hts⟩ := decrementTotal_ok h2
  subst hs2; subst hts
  obtain ⟨k, lastId, hk, hlast, hs'⟩ := removeFromGlobal_ok h3
  have hb1 : s1.bal = s.bal := by rw [show s1.bal = s1.toState.bal from rfl, hst]
  have ho1 : s1.owner = s.owner := by rw [show s1.owner = s1.toState.owner from rfl, hst]
  subst hs'
  refine ⟨⟨?_, ?_⟩, hst⟩
  · show LOK (upd (upd s1.gTok k (some lastId)) (s1.total - 1) none) (upd (upd s1.gIdx lastId (some k)) id none)
        (s1.total - 1) (fun t => (s1.owner t).isSome = true)
    have hk' : s1.gIdx id = some k := hk
    have hlast' : s1.gTok (s1.total - 1) = some lastId := hlast
    rw [hgi] at hk'
    rw [hgt, htot] at hlast'
    rw [hgt, hgi, htot, ho1, hown]
    have hg' : LOK s.gTok s.gIdx (s.total - 1 + 1) (fun t => (own0 t).isSome = true) :=
      LOK_congr hg (fun _ => rfl) (fun _ => rfl) (by rw [← htot]; omega) (fun _ => Iff.rfl)
    refine LOK_remove hg' (by rw [hown0]; rfl) hk' hlast' ?_
    intro t
    by_cases ht : t = id
    · subst ht; rw [upd_same]; simp
    · rw [upd_other _ _ _ _ ht]; simp [ht]
  · intro a
    show LOK (s1.oTok a) s1.oIdx (s1.bal a) (fun t => s1.owner t = some a)
    rw [hb1, ho1, hown, hbal]
    refine LOK_congr (hl a) (fun _ => rfl) (fun _ => rfl) rfl ?_
    intro t
    by_cases ht : t = id
    · subst ht; rw [upd_same]
      constructor
      · intro e; cases e
      · intro e; exact absurd rfl e.2
    · rw [upd_other _ _ _ _ ht]; simp [ht]

/-- one successful invocation on the enumerable flavour preserves the list invariant and acts
on the base state exactly as the same invocation on the base flavour -/
theorem apply_step (cfg : Cfg) {s s' : State} {auth : List Nat} {op : Op} {r : Option Nat}
    (hi : EInv s) (hf : FreshOp s.toState op) (h : apply cfg s auth op = .ok (s', r)) :
    EInv s' ∧ Nft.apply cfg s.toState auth op = .ok (s'.toState, r) := by
  cases op with
  | mintSeq to =>
    obtain ⟨⟨s2, id⟩, h1, h⟩ := bind_eq_ok h
    have h := pure_eq_ok h
    injection h with ha hb; subst ha; subst hb
    unfold sequentialMint at h1
    obtain ⟨⟨b, id'⟩, h2, h1⟩ := bind_eq_ok h1
    obtain ⟨s3, h3, h1⟩ := bind_eq_ok h1
    have h1 := pure_eq_ok h1
    injection h1 with ha hb; subst ha; subst hb
    obtain ⟨hid, _, hu⟩ := sequentialMint_ok h2
    obtain ⟨hown, hbal, _⟩ := update_mint_ok hu
    have hfr : s.owner id' = none := by rw [hid]; exact hf
    obtain ⟨hinv, hst⟩ := addToEnumerations_inv (s := { s with toState := b }) (own0 := s.owner)
      (bal0 := s.bal) hi.glob hi.own hfr hown hbal h3
    refine ⟨hinv, ?_⟩
    show (Nft.sequentialMint s.toState to >>= fun x => pure (x.1, some x.2)) = _
    rw [h2, hst]; rfl
  | mint to id =>
    obtain ⟨s2, h1, h⟩ := bind_eq_ok h
    have h := pure_eq_ok h
    injection h with ha hb; subst ha; subst hb
    unfold nonSequentialMint at h1
    obtain ⟨b, h2, h3⟩ := bind_eq_ok h1
    obtain ⟨hown, hbal, _⟩ := update_mint_ok h2
    obtain ⟨hinv, hst⟩ := addToEnumerations_inv (s := { s with toState := b }) (own0 := s.owner)
      (bal0 := s.bal) hi.glob hi.own hf hown hbal h3
    refine ⟨hinv, ?_⟩
    show (Nft.mint s.toState to id >>= fun x => pure (x, none)) = _
    unfold Nft.mint
    rw [h2, hst]; rfl
  | batchMint to n => cases h
  | transfer f t id =>
    obtain ⟨s2, h1, h⟩ := bind_eq_ok h
    have h := pure_eq_ok h
    injection h with ha hb; subst ha; subst hb
    unfold transfer at h1
    obtain ⟨b, h2, h3⟩ := bind_eq_ok h1
    have h2' := h2
    unfold Nft.transfer at h2'
    obtain ⟨_, _, hu⟩ := bind_eq_ok h2'
    obtain ⟨hown0, hge, hown, hbal, _⟩ := update_transfer_ok hu
    obtain ⟨hinv, hst⟩ := moveInOwner_inv (s := { s with toState := b }) (own0 := s.owner)
      (bal0 := s.bal) hi.glob hi.own hown0 hge hown hbal h3
    refine ⟨hinv, ?_⟩
    show (Nft.transfer s.toState auth f t id >>= fun x => pure (x, none)) = _
    rw [h2, hst]; rfl
  | transferFrom sp f t id =>
    obtain ⟨s2, h1, h⟩ := bind_eq_ok h
    have h := pure_eq_ok h
    injection h with ha hb; subst ha; subst hb
    unfold transferFrom at h1
    obtain ⟨b, h2, h3⟩ := bind_eq_ok h1
    have h2' := h2
    unfold Nft.transferFrom at h2'
    obtain ⟨_, _, h2'⟩ := bind_eq_ok h2'
    obtain ⟨_, _, hu⟩ := bind_eq_ok h2'
    obtain ⟨hown0, hge, hown, hbal, _⟩ := update_transfer_ok hu
    obtain ⟨hinv, hst⟩ := moveInOwner_inv (s := { s with toState := b }) (own0 := s.owner)
      (bal0 := s.bal) hi.glob hi.own hown0 hge hown hbal h3
    refine ⟨hinv, ?_⟩
    show (Nft.transferFrom s.toState auth sp f t id >>= fun x => pure (x, none)) = _
    rw [h2, hst]; rfl
  | approve ap a id lu =>
    obtain ⟨b, h1, h⟩ := bind_eq_ok h
    have h := pure_eq_ok h
    injection h with ha hb; subst ha; subst hb
    have h1' := h1
    unfold Nft.approve at h1'
    obtain ⟨_, _, h1'⟩ := bind_eq_ok h1'
    obtain ⟨o, _, h1'⟩ := bind_eq_ok h1'
    obtain ⟨c, hc, h1'⟩ := bind_eq_ok h1'
    have h1' := pure_eq_ok h1'
    have hcb : c.bal = s.bal := by
      unfold approveForOwner at hc
      split at hc
      · cases hc
      · split at hc
        · injection hc with hc; subst hc; rfl
        · split at hc
          · cases hc
          · unfold storeApproval at hc
            split at hc
            · cases hc
            · injection hc with hc; subst hc; rfl
    subst h1'
    refine ⟨⟨?_, ?_⟩, ?_⟩
    · exact hi.glob
    · intro a'
      show LOK (s.oTok a') s.oIdx (c.bal a') (fun t => s.owner t = some a')
      rw [hcb]; exact hi.own a'
    · show (Nft.approve cfg s.toState auth ap a id lu >>= fun x => pure (x, none)) = _
      rw [h1]; rfl
  | approveForAll o p lu =>
    obtain ⟨c, h1, h⟩ := bind_eq_ok h
    have h := pure_eq_ok h
    injection h with ha hb; subst ha; subst hb
    have hcb : c.bal = s.bal := by
      unfold approveForAll at h1
      obtain ⟨_, _, h1⟩ := bind_eq_ok h1
      split at h1
      · have h1 := pure_eq_ok h1; subst h1; rfl
      · split at h1
        · cases h1
        · unfold storeOperator at h1
          split at h1
          · cases h1
          · injection h1 with h1; subst h1; rfl
    refine ⟨⟨hi.glob, ?_⟩, ?_⟩
    · intro a'
      show LOK (s.oTok a') s.oIdx (c.bal a') (fun t => s.owner t = some a')
      rw [hcb]; exact hi.own a'
    · show (Nft.approveForAll cfg s.toCore auth o p lu >>= fun c => pure ({ s.toState with toCore := c }, none)) = _
      rw [h1]; rfl
  | burn f id =>
    obtain ⟨s2, h1, h⟩ := bind_eq_ok h
    have h := pure_eq_ok h
    injection h with ha hb; subst ha; subst hb
    unfold burn at h1
    obtain ⟨b, h2, h3⟩ := bind_eq_ok h1
    have h2' := h2
    unfold Nft.burn at h2'
    obtain ⟨_, _, hu⟩ := bind_eq_ok h2'
    obtain ⟨hown0, hge, hown, hbal, _⟩ := update_burn_ok hu
    obtain ⟨hinv, hst⟩ := removeFromEnumerations_inv (s := { s with toState := b }) (own0 := s.owner)
      (bal0 := s.bal) hi.glob hi.own hown0 hge hown hbal h3
    refine ⟨hinv, ?_⟩
    show (Nft.burn s.toState auth f id >>= fun x => pure (x, none)) = _
    rw [h2, hst]; rfl
  | burnFrom sp f id =>
    obtain ⟨s2, h1, h⟩ := bind_eq_ok h
    have h := pure_eq_ok h
    injection h with ha hb; subst ha; subst hb
    unfold burnFrom at h1
    obtain ⟨b, h2, h3⟩ := bind_eq_ok h1
    have h2' := h2
    unfold Nft.burnFrom at h2'
    obtain ⟨_, _, h2'⟩ := bind_eq_ok h2'
    obtain ⟨_, _, hu⟩ := bind_eq_ok h2'
    obtain ⟨hown0, hge, hown, hbal, _⟩ := update_burn_ok hu
    obtain ⟨hinv, hst⟩ := removeFromEnumerations_inv (s := { s with toState := b }) (own0 := s.owner)
      (bal0 := s.bal) hi.glob hi.own hown0 hge hown hbal h3
    refine ⟨hinv, ?_⟩
    show (Nft.burnFrom s.toState auth sp f id >>= fun x => pure (x, none)) = _
    rw [h2, hst]; rfl
  | advance n =>
    injection h with h
    injection h with ha hb; subst ha; subst hb
    exact ⟨⟨hi.glob, hi.own⟩, rfl⟩

end OZ.NftEnum
