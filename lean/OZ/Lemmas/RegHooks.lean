import OZ.Model.RegHooks
import OZ.Lemmas.RegList
/-
Invariant and characterisation lemmas for the compliance hook module lists (C20).
-/
namespace OZ.RegHooks
open OZ.Reg

structure Inv (s : State) : Prop where
  nodup : ∀ h, (s.modules h).Nodup
  le : ∀ h, (s.modules h).length ≤ MAX_MODULES

theorem inv_init : Inv init := by constructor <;> intro h <;> simp [init]

theorem any_eq_mem (l : List Nat) (m : Nat) : l.any (· == m) = true ↔ m ∈ l := by
  rw [List.any_eq_true]
  constructor
  · rintro ⟨x, hx, he⟩; simp at he; subst he; exact hx
  · intro h; exact ⟨m, h, by simp⟩

theorem addModuleTo_ok_iff (s s' : State) (h m : Nat) :
    addModuleTo s h m = .ok s' ↔
      (m ∉ s.modules h ∧ (s.modules h).length < MAX_MODULES) ∧
        s' = { modules := updD s.modules h (s.modules h ++ [m]) } := by
  unfold addModuleTo
  by_cases h1 : m ∈ s.modules h
  · rw [if_pos ((any_eq_mem _ _).2 h1)]
    constructor
    · intro h'; cases h'
    · rintro ⟨⟨h', _⟩, _⟩; exact absurd h1 h'
  · rw [if_neg (fun h' => h1 ((any_eq_mem _ _).1 h'))]
    by_cases h2 : (s.modules h).length ≥ MAX_MODULES
    · rw [if_pos h2]; constructor
      · intro h'; cases h'
      · rintro ⟨⟨_, h'⟩, _⟩; omega
    · rw [if_neg h2]; constructor
      · intro h'; injection h' with h'; exact ⟨⟨h1, by omega⟩, h'.symm⟩
      · rintro ⟨_, rfl⟩; rfl

theorem removeModuleFrom_ok_iff (s s' : State) (h m : Nat) :
    removeModuleFrom s h m = .ok s' ↔
      m ∈ s.modules h ∧ s' = { modules := updD s.modules h ((s.modules h).erase m) } := by
  unfold removeModuleFrom
  by_cases h1 : m ∈ s.modules h
  · have : (s.modules h).any (· == m) = true := (any_eq_mem _ _).2 h1
    rw [if_neg (by rw [this]; decide)]
    constructor
    · intro h'; injection h' with h'; exact ⟨h1, h'.symm⟩
    · rintro ⟨_, rfl⟩; rfl
  · have : ¬ (s.modules h).any (· == m) = true := fun h' => h1 ((any_eq_mem _ _).1 h')
    have hb : (!(s.modules h).any (· == m)) = true := by
      cases hx : (s.modules h).any (· == m) with
      | true => exact absurd hx this
      | false => rfl
    rw [if_pos hb]
    constructor
    · intro h'; cases h'
    · rintro ⟨h', _⟩; exact absurd h' h1

theorem inv_next {s : State} (hI : Inv s) (o : Op) : Inv (next s o) := by
  unfold next
  cases hs : step s o with
  | error e => exact hI
  | ok s' =>
    cases o with
    | add h m =>
      obtain ⟨⟨hn, hl⟩, rfl⟩ := (addModuleTo_ok_iff s s' h m).1 hs
      constructor
      · intro h'
        show (updD s.modules h _ h').Nodup
        by_cases hh : h' = h
        · subst hh; rw [updD_same]; exact nodup_append_singleton (hI.nodup h') hn
        · rw [updD_other _ _ _ _ hh]; exact hI.nodup h'
      · intro h'
        show (updD s.modules h _ h').length ≤ _
        by_cases hh : h' = h
        · subst hh; rw [updD_same]; simp; omega
        · rw [updD_other _ _ _ _ hh]; exact hI.le h'
    | remove h m =>
      obtain ⟨_, rfl⟩ := (removeModuleFrom_ok_iff s s' h m).1 hs
      constructor
      · intro h'
        show (updD s.modules h _ h').Nodup
        by_cases hh : h' = h
        · subst hh; rw [updD_same]; exact (hI.nodup h').erase m
        · rw [updD_other _ _ _ _ hh]; exact hI.nodup h'
      · intro h'
        show (updD s.modules h _ h').length ≤ _
        by_cases hh : h' = h
        · subst hh; rw [updD_same]; exact Nat.le_trans List.erase_sublist.length_le (hI.le h')
        · rw [updD_other _ _ _ _ hh]; exact hI.le h'

theorem inv_run {s : State} (hI : Inv s) (ops : List Op) : Inv (run s ops) := by
  induction ops generalizing s with
  | nil => exact hI
  | cons o os ih => exact ih (inv_next hI o)

def Reachable (s : State) : Prop := ∃ ops, s = run init ops

theorem reachable_inv {s : State} (h : Reachable s) : Inv s := by
  obtain ⟨ops, rfl⟩ := h
  exact inv_run inv_init ops

end OZ.RegHooks
