import OZ.Model.RegUtil
/-
Bucketed vectors (C20: token binder, buckets of 100; document manager, buckets of 50).
A registry that stores the flat list `l` as buckets `b ↦ chunk B l b`; the three edits the code
performs on buckets (push to the last bucket, overwrite one slot, pop the last bucket) are the
corresponding edits of the flat list, and swap-and-pop removes exactly one element.
-/
namespace OZ.Reg

/-- bucket `b` of the flat list `l` -/
def chunk {α : Type} (B : Nat) (l : List α) (b : Nat) : List α := (l.drop (B * b)).take B

/-- the two bucket sizes in the code base -/
def BSize (B : Nat) : Prop := B = 100 ∨ B = 50

variable {α : Type}

theorem getElem?_chunk (B : Nat) (l : List α) (b j : Nat) :
    (chunk B l b)[j]? = if j < B then l[B * b + j]? else none := by
  simp [chunk, List.getElem?_take, List.getElem?_drop]

theorem length_chunk (B : Nat) (l : List α) (b : Nat) : (chunk B l b).length = min B (l.length - B * b) := by
  simp [chunk, List.length_take, List.length_drop]

theorem chunk_sublist (B : Nat) (l : List α) (b : Nat) : (chunk B l b).Sublist l :=
  (List.take_sublist _ _).trans (List.drop_sublist _ _)

theorem getElem?_none_iff (l : List α) (i : Nat) : l[i]? = none ↔ l.length ≤ i := by simp

/-- `get_*_by_index`: slot `i % B` of bucket `i / B` is element `i` of the flat list -/
theorem getElem?_chunk_div (B : Nat) (hB : BSize B) (l : List α) (i : Nat) :
    (chunk B l (i / B))[i % B]? = l[i]? := by
  rw [getElem?_chunk]
  rcases hB with rfl | rfl
  · rw [if_pos (by omega)]; congr 1; omega
  · rw [if_pos (by omega)]; congr 1; omega

/-- push to bucket `len / B` -/
theorem chunk_append (B : Nat) (hB : BSize B) (l : List α) (x : α) (b : Nat) :
    chunk B (l ++ [x]) b = if b = l.length / B then chunk B l b ++ [x] else chunk B l b := by
  by_cases hb : b = l.length / B
  · rw [if_pos hb]
    apply List.ext_getElem?
    intro j
    rw [getElem?_chunk, List.getElem?_append (l₁ := l), List.getElem?_append (l₁ := chunk B l b),
      length_chunk, getElem?_chunk]
    by_cases hj : j < B
    · simp only [if_pos hj]
      rcases hB with rfl | rfl
      · by_cases h1 : 100 * b + j < l.length
        · rw [if_pos h1, if_pos (by omega)]
        · rw [if_neg h1, if_neg (by omega)]; congr 1; omega
      · by_cases h1 : 50 * b + j < l.length
        · rw [if_pos h1, if_pos (by omega)]
        · rw [if_neg h1, if_neg (by omega)]; congr 1; omega
    · simp only [if_neg hj]
      rcases hB with rfl | rfl
      · rw [if_neg (by omega)]; symm; simp; omega
      · rw [if_neg (by omega)]; symm; simp; omega
  · rw [if_neg hb]
    apply List.ext_getElem?
    intro j
    rw [getElem?_chunk, getElem?_chunk]
    by_cases hj : j < B
    · rw [if_pos hj, if_pos hj, List.getElem?_append]
      rcases hB with rfl | rfl
      · by_cases h1 : 100 * b + j < l.length
        · rw [if_pos h1]
        · rw [if_neg h1, (getElem?_none_iff l _).2 (by omega)]; simp; omega
      · by_cases h1 : 50 * b + j < l.length
        · rw [if_pos h1]
        · rw [if_neg h1, (getElem?_none_iff l _).2 (by omega)]; simp; omega
    · rw [if_neg hj, if_neg hj]

/-- overwrite slot `i % B` of bucket `i / B` -/
theorem chunk_set (B : Nat) (hB : BSize B) (l : List α) (i : Nat) (x : α) (b : Nat) :
    chunk B (l.set i x) b = if b = i / B then (chunk B l b).set (i % B) x else chunk B l b := by
  by_cases hb : b = i / B
  · rw [if_pos hb]
    apply List.ext_getElem?
    intro j
    rw [getElem?_chunk, List.getElem?_set (l := l), List.getElem?_set (l := chunk B l b), length_chunk,
      getElem?_chunk]
    rcases hB with rfl | rfl
    · by_cases hj : j < 100
      · simp only [if_pos hj]
        by_cases h1 : i = 100 * b + j
        · rw [if_pos h1, if_pos (show i % 100 = j by omega)]
          by_cases h2 : i < l.length
          · rw [if_pos h2,
              if_pos (show i % 100 < min 100 (l.length - 100 * b) by omega)]
          · rw [if_neg h2,
              if_neg (show ¬ i % 100 < min 100 (l.length - 100 * b) by omega)]
        · rw [if_neg h1, if_neg (show ¬ i % 100 = j by omega)]
      · simp only [if_neg hj]; rw [if_neg (by omega)]
    · by_cases hj : j < 50
      · simp only [if_pos hj]
        by_cases h1 : i = 50 * b + j
        · rw [if_pos h1, if_pos (show i % 50 = j by omega)]
          by_cases h2 : i < l.length
          · rw [if_pos h2,
              if_pos (show i % 50 < min 50 (l.length - 50 * b) by omega)]
          · rw [if_neg h2,
              if_neg (show ¬ i % 50 < min 50 (l.length - 50 * b) by omega)]
        · rw [if_neg h1, if_neg (show ¬ i % 50 = j by omega)]
      · simp only [if_neg hj]; rw [if_neg (by omega)]
  · rw [if_neg hb]
    apply List.ext_getElem?
    intro j
    rw [getElem?_chunk, getElem?_chunk, List.getElem?_set]
    by_cases hj : j < B
    · simp only [if_pos hj]
      rcases hB with rfl | rfl
      · rw [if_neg (by omega)]
      · rw [if_neg (by omega)]
    · simp only [if_neg hj]

/-- pop the last slot of bucket `(len - 1) / B` -/
theorem chunk_dropLast (B : Nat) (hB : BSize B) (l : List α) (hl : l ≠ []) (b : Nat) :
    chunk B l.dropLast b = if b = (l.length - 1) / B then (chunk B l b).dropLast else chunk B l b := by
  have hpos : 0 < l.length := List.length_pos_iff.2 hl
  by_cases hb : b = (l.length - 1) / B
  · rw [if_pos hb]
    apply List.ext_getElem?
    intro j
    rw [getElem?_chunk, List.getElem?_dropLast, List.getElem?_dropLast, length_chunk, getElem?_chunk]
    rcases hB with rfl | rfl
    · by_cases hj : j < 100
      · rw [if_pos hj, if_pos hj]
        by_cases h1 : 100 * b + j < l.length - 1
        · rw [if_pos h1, if_pos (by omega)]
        · rw [if_neg h1, if_neg (by omega)]
      · rw [if_neg hj, if_neg hj]; split <;> rfl
    · by_cases hj : j < 50
      · rw [if_pos hj, if_pos hj]
        by_cases h1 : 50 * b + j < l.length - 1
        · rw [if_pos h1, if_pos (by omega)]
        · rw [if_neg h1, if_neg (by omega)]
      · rw [if_neg hj, if_neg hj]; split <;> rfl
  · rw [if_neg hb]
    apply List.ext_getElem?
    intro j
    rw [getElem?_chunk, List.getElem?_dropLast, getElem?_chunk]
    by_cases hj : j < B
    · rw [if_pos hj, if_pos hj]
      rcases hB with rfl | rfl
      · by_cases h1 : 100 * b + j < l.length - 1
        · rw [if_pos h1]
        · rw [if_neg h1, (getElem?_none_iff l _).2 (by omega)]
      · by_cases h1 : 50 * b + j < l.length - 1
        · rw [if_pos h1]
        · rw [if_neg h1, (getElem?_none_iff l _).2 (by omega)]
    · rw [if_neg hj, if_neg hj]

/-- the first `k` buckets, concatenated, are the first `B * k` elements -/
theorem flatMap_chunk_take (B : Nat) (l : List α) (k : Nat) :
    (List.range k).flatMap (chunk B l) = l.take (B * k) := by
  induction k with
  | zero => simp
  | succ k ih =>
    rw [List.range_succ, List.flatMap_append, ih, List.flatMap_singleton, Nat.mul_succ, List.take_add]
    rfl

/-- the buckets `0 ..= (len-1)/B`, concatenated, are the flat list -/
theorem flatMap_chunk (B : Nat) (hB : BSize B) (l : List α) :
    (List.range ((l.length - 1) / B + 1)).flatMap (chunk B l) = l := by
  rw [flatMap_chunk_take]
  apply List.take_of_length_le
  rcases hB with rfl | rfl <;> omega

theorem mem_chunk_iff (B : Nat) (hB : BSize B) (l : List α) (x : α) :
    (∃ b, b ∈ List.range ((l.length - 1) / B + 1) ∧ x ∈ chunk B l b) ↔ x ∈ l := by
  rw [← List.mem_flatMap, flatMap_chunk B hB]

/-! ### swap-and-pop on the flat list -/

/-- the flat list after `swap-and-pop` of slot `idx` -/
def swapPop (l : List α) (idx : Nat) : List α :=
  if idx ≠ l.length - 1 then
    match l[l.length - 1]? with
    | some last => (l.set idx last).dropLast
    | none => l.dropLast
  else l.dropLast

theorem getElem?_swapPop (l : List α) (idx : Nat) (hidx : idx < l.length) (j : Nat) :
    (swapPop l idx)[j]? = if j < l.length - 1 then (if j = idx then l[l.length - 1]? else l[j]?) else none := by
  unfold swapPop
  have hlast : l[l.length - 1]? = some (l[l.length - 1]'(by omega)) := List.getElem?_eq_getElem (by omega)
  split
  · rename_i hne
    rw [hlast]
    simp only [List.getElem?_dropLast, List.length_set, List.getElem?_set]
    by_cases hj : j < l.length - 1
    · rw [if_pos hj, if_pos hj]
      by_cases h1 : j = idx
      · rw [if_pos h1.symm, if_pos hidx, if_pos h1]
      · rw [if_neg (fun h => h1 h.symm), if_neg h1]
    · rw [if_neg hj, if_neg hj]
  · rename_i heq
    simp only [List.getElem?_dropLast]
    by_cases hj : j < l.length - 1
    · rw [if_pos hj, if_pos hj, if_neg (by omega)]
    · rw [if_neg hj, if_neg hj]

theorem length_swapPop (l : List α) (idx : Nat) : (swapPop l idx).length = l.length - 1 := by
  unfold swapPop
  split
  · split <;> simp
  · simp

/-- swap-and-pop of the slot holding `t` in a duplicate-free list removes exactly `t` -/
theorem mem_swapPop (l : List α) (hnd : l.Nodup) (idx : Nat) (t : α) (ht : l[idx]? = some t) (x : α) :
    x ∈ swapPop l idx ↔ x ∈ l ∧ x ≠ t := by
  have hidx : idx < l.length := by
    rw [List.getElem?_eq_some_iff] at ht; exact ht.1
  have huniq : ∀ j, l[j]? = some t → j = idx := by
    intro j hj
    rw [List.getElem?_eq_some_iff] at hj ht
    obtain ⟨hj', hj⟩ := hj
    obtain ⟨_, ht⟩ := ht
    rw [List.Nodup, List.pairwise_iff_getElem] at hnd
    rcases Nat.lt_trichotomy j idx with h | h | h
    · exact absurd (hj.trans ht.symm) (hnd j idx hj' hidx h)
    · exact h
    · exact absurd (ht.trans hj.symm) (hnd idx j hidx hj' h)
  rw [List.mem_iff_getElem?, List.mem_iff_getElem?]
  constructor
  · rintro ⟨j, hj⟩
    rw [getElem?_swapPop l idx hidx] at hj
    by_cases h1 : j < l.length - 1
    · rw [if_pos h1] at hj
      by_cases h2 : j = idx
      · rw [if_pos h2] at hj
        refine ⟨⟨_, hj⟩, ?_⟩
        intro hx; subst hx
        have := huniq _ hj; omega
      · rw [if_neg h2] at hj
        refine ⟨⟨_, hj⟩, ?_⟩
        intro hx; subst hx
        exact h2 (huniq _ hj)
    · rw [if_neg h1] at hj; cases hj
  · rintro ⟨⟨j, hj⟩, hne⟩
    have hjl : j < l.length := by rw [List.getElem?_eq_some_iff] at hj; exact hj.1
    have hjne : j ≠ idx := by
      intro h; subst h; rw [ht] at hj; injection hj with hj; exact hne hj.symm
    by_cases h1 : j < l.length - 1
    · exact ⟨j, by rw [getElem?_swapPop l idx hidx, if_pos h1, if_neg hjne]; exact hj⟩
    · -- `x` is the last element: it moved to slot `idx`
      have hj' : j = l.length - 1 := by omega
      subst hj'
      exact ⟨idx, by rw [getElem?_swapPop l idx hidx, if_pos (by omega), if_pos rfl]; exact hj⟩

theorem nodup_swapPop (l : List α) (hnd : l.Nodup) (idx : Nat) (hidx : idx < l.length) :
    (swapPop l idx).Nodup := by
  rw [List.Nodup, List.pairwise_iff_getElem]
  intro i j hi hj hij
  rw [length_swapPop] at hi hj
  have hnd' := hnd
  rw [List.Nodup, List.pairwise_iff_getElem] at hnd'
  have gi := getElem?_swapPop l idx hidx i
  have gj := getElem?_swapPop l idx hidx j
  rw [if_pos hi] at gi
  rw [if_pos hj] at gj
  have ei : (swapPop l idx)[i]? = some ((swapPop l idx)[i]'(by rw [length_swapPop]; exact hi)) :=
    List.getElem?_eq_getElem _
  have ej : (swapPop l idx)[j]? = some ((swapPop l idx)[j]'(by rw [length_swapPop]; exact hj)) :=
    List.getElem?_eq_getElem _
  intro heq
  rw [ei] at gi; rw [ej, ← heq] at gj
  -- both slots read the same element of `l` at two different positions
  have key : ∀ a b : Nat, a < l.length → b < l.length → a ≠ b → l[a]? = l[b]? → False := by
    intro a b ha hb hab h
    rw [List.getElem?_eq_getElem ha, List.getElem?_eq_getElem hb] at h
    injection h with h
    rcases Nat.lt_or_gt_of_ne hab with h' | h'
    · exact hnd' a b ha hb h' h
    · exact hnd' b a hb ha h' h.symm
  by_cases h1 : i = idx
  · rw [if_pos h1] at gi
    rw [if_neg (by omega)] at gj
    exact key (l.length - 1) j (by omega) (by omega) (by omega) (gi.symm.trans gj)
  · rw [if_neg h1] at gi
    by_cases h2 : j = idx
    · rw [if_pos h2] at gj
      exact key i (l.length - 1) (by omega) (by omega) (by omega) (gi.symm.trans gj)
    · rw [if_neg h2] at gj
      exact key i j (by omega) (by omega) (by omega) (gi.symm.trans gj)

theorem map_swapPop {β : Type} (f : α → β) (l : List α) (idx : Nat) (hidx : idx < l.length) :
    (swapPop l idx).map f = swapPop (l.map f) idx := by
  apply List.ext_getElem?
  intro j
  rw [List.getElem?_map, getElem?_swapPop l idx hidx, getElem?_swapPop (l.map f) idx (by simpa using hidx)]
  simp only [List.length_map, List.getElem?_map]
  split
  · split <;> rfl
  · rfl

end OZ.Reg
