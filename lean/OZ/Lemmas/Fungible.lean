import OZ.Model.Fungible
/-
Helper lemmas for the fungible model: sums over a duplicate-free universe under point
updates, and an exact description of a successful `update`.
-/
namespace OZ.Fungible
open OZ.Host

theorem upd_same {β} (f : Nat → β) (a : Nat) (v : β) : upd f a v a = v := by simp [upd]
theorem upd_other {β} (f : Nat → β) (a x : Nat) (v : β) (h : x ≠ a) : upd f a v x = f x := by
  simp [upd, h]

theorem total_upd_notin (U : List Nat) (b : Nat → Int) (a : Nat) (v : Int) (h : a ∉ U) :
    total U (upd b a v) = total U b := by
  induction U with
  | nil => rfl
  | cons x xs ih =>
    have hx : x ≠ a := fun e => h (by simp [e])
    have hxs : a ∉ xs := fun e => h (by simp [e])
    simp only [total, List.map_cons, List.sum_cons] at *
    rw [upd_other _ _ _ _ hx, ih hxs]

theorem total_upd_in (U : List Nat) (b : Nat → Int) (a : Nat) (v : Int) (hn : U.Nodup) (h : a ∈ U) :
    total U (upd b a v) = total U b + (v - b a) := by
  induction U with
  | nil => cases h
  | cons x xs ih =>
    have hnx : x ∉ xs := (List.nodup_cons.mp hn).1
    have hnxs : xs.Nodup := (List.nodup_cons.mp hn).2
    simp only [total, List.map_cons, List.sum_cons] at *
    by_cases hx : x = a
    · subst hx
      have := total_upd_notin xs b x v hnx
      simp only [total] at this
      rw [upd_same, this]; omega
    · have hxs : a ∈ xs := by
        cases h with
        | head => exact absurd rfl hx
        | tail _ h' => exact h'
      rw [upd_other _ _ _ _ hx, ih hnxs hxs]; omega

/-- balances outside `U` are zero, all are non-negative, they sum to the supply, and the
supply is a valid non-negative i128 -/
structure Inv (U : List Nat) (s : State) : Prop where
  sum : total U s.bal = s.supply
  nonneg : ∀ a, 0 ≤ s.bal a
  outside : ∀ a, a ∉ U → s.bal a = 0
  supLo : 0 ≤ s.supply
  supHi : s.supply ≤ I128_MAX

theorem total_nonneg (U : List Nat) (b : Nat → Int) (h : ∀ a, 0 ≤ b a) : 0 ≤ total U b := by
  induction U with
  | nil => simp [total]
  | cons x xs ih =>
    simp only [total, List.map_cons, List.sum_cons] at *
    have := h x; omega

/-- a single balance never exceeds the supply -/
theorem bal_le_supply {U : List Nat} {s : State} (hn : U.Nodup) (hi : Inv U s) (a : Nat) :
    s.bal a ≤ s.supply := by
  by_cases ha : a ∈ U
  · have h := total_upd_in U s.bal a 0 hn ha
    have h0 : 0 ≤ total U (upd s.bal a 0) := by
      apply total_nonneg
      intro x
      by_cases hx : x = a
      · subst hx; rw [upd_same]; omega
      · rw [upd_other _ _ _ _ hx]; exact hi.nonneg x
    have := hi.sum
    omega
  · rw [hi.outside a ha]; exact hi.supLo

/-- two distinct balances together never exceed the supply -/
theorem bal_add_le_supply {U : List Nat} {s : State} (hn : U.Nodup) (hi : Inv U s) (a b : Nat)
    (hab : a ≠ b) : s.bal a + s.bal b ≤ s.supply := by
  by_cases ha : a ∈ U
  · by_cases hb : b ∈ U
    · have h1 := total_upd_in U s.bal a 0 hn ha
      have h2 := total_upd_in U (upd s.bal a 0) b 0 hn hb
      rw [upd_other _ _ _ _ (Ne.symm hab)] at h2
      have h0 : 0 ≤ total U (upd (upd s.bal a 0) b 0) := by
        apply total_nonneg
        intro x
        by_cases hxb : x = b
        · subst hxb; rw [upd_same]; omega
        · rw [upd_other _ _ _ _ hxb]
          by_cases hxa : x = a
          · subst hxa; rw [upd_same]; omega
          · rw [upd_other _ _ _ _ hxa]; exact hi.nonneg x
      have := hi.sum
      omega
    · rw [hi.outside b hb]; have := bal_le_supply hn hi a; omega
  · rw [hi.outside a ha]; have := bal_le_supply hn hi b; omega

theorem debit_ok {s s' : State} {f : Option Nat} {amt : Int} (h : debit s f amt = .ok s') :
    s'.allow = s.allow ∧ s'.now = s.now ∧ s'.events = s.events ∧
    (match f with
     | some a => s.bal a ≥ amt ∧ s'.supply = s.supply ∧ s'.bal = upd s.bal a (s.bal a - amt)
     | none => s'.supply = s.supply + amt ∧ in128 (s.supply + amt) ∧ s'.bal = s.bal) := by
  unfold debit at h
  cases f with
  | some a =>
    simp only at h
    split at h
    · cases h
    · injection h with h; subst h; exact ⟨rfl, rfl, rfl, by omega, rfl, rfl⟩
  | none =>
    simp only at h
    split at h
    · injection h with h; subst h; exact ⟨rfl, rfl, rfl, rfl, by assumption, rfl⟩
    · cases h

theorem credit_ok {s s' : State} {t : Option Nat} {amt : Int} (h : credit s t amt = .ok s') :
    s'.allow = s.allow ∧ s'.now = s.now ∧ s'.events = s.events ∧
    (match t with
     | some b => s'.supply = s.supply ∧ s'.bal = upd s.bal b (s.bal b + amt) ∧ in128 (s.bal b + amt)
     | none => s'.supply = s.supply - amt ∧ s'.bal = s.bal ∧ in128 (s.supply - amt)) := by
  unfold credit at h
  cases t with
  | some b =>
    simp only at h
    split at h
    · injection h with h; subst h; exact ⟨rfl, rfl, rfl, rfl, rfl, by assumption⟩
    · cases h
  | none =>
    simp only at h
    split at h
    · injection h with h; subst h; exact ⟨rfl, rfl, rfl, rfl, rfl, by assumption⟩
    · cases h

theorem update_ok {s s' : State} {f t : Option Nat} {amt : Int} (h : update s f t amt = .ok s') :
    0 ≤ amt ∧ ∃ s1, debit s f amt = .ok s1 ∧ credit s1 t amt = .ok s' := by
  unfold update at h
  split at h
  · cases h
  · split at h
    · cases h
    · rename_i s1 hd
      exact ⟨by omega, s1, hd, h⟩


/-- `update` preserves the invariant and changes the supply by exactly the mint / burn amount -/
theorem update_inv {U : List Nat} (hn : U.Nodup) {s s' : State} (hi : Inv U s)
    {f t : Option Nat} {amt : Int}
    (hf : ∀ a, f = some a → a ∈ U) (ht : ∀ b, t = some b → b ∈ U)
    (h : update s f t amt = .ok s') :
    Inv U s' ∧
    s'.supply = s.supply + (if f = none then amt else 0) - (if t = none then amt else 0) := by
  obtain ⟨h0, s1, hd, hc⟩ := update_ok h
  obtain ⟨-, -, -, hd4⟩ := debit_ok hd
  obtain ⟨-, -, -, hc4⟩ := credit_ok hc
  cases f with
  | some a =>
    obtain ⟨hge, hs1, hb1⟩ := hd4
    have haU := hf a rfl
    cases t with
    | some b =>
      obtain ⟨hs2, hb2, -⟩ := hc4
      have hbU := ht b rfl
      refine ⟨⟨?_, ?_, ?_, ?_, ?_⟩, ?_⟩
      · rw [hb2, hb1, total_upd_in _ _ _ _ hn hbU, total_upd_in _ _ _ _ hn haU, hs2, hs1, ← hi.sum]; omega
      · intro x; rw [hb2, hb1]
        by_cases hxb : x = b
        · subst hxb; rw [upd_same]
          by_cases hxa : x = a
          · subst hxa; rw [upd_same]; have := hi.nonneg x; omega
          · rw [upd_other _ _ _ _ hxa]; have := hi.nonneg x; omega
        · rw [upd_other _ _ _ _ hxb]
          by_cases hxa : x = a
          · subst hxa; rw [upd_same]; omega
          · rw [upd_other _ _ _ _ hxa]; exact hi.nonneg x
      · intro x hx; rw [hb2, hb1]
        have hxb : x ≠ b := fun e => hx (e ▸ hbU)
        have hxa : x ≠ a := fun e => hx (e ▸ haU)
        rw [upd_other _ _ _ _ hxb, upd_other _ _ _ _ hxa]; exact hi.outside x hx
      · rw [hs2, hs1]; exact hi.supLo
      · rw [hs2, hs1]; exact hi.supHi
      · simp; rw [hs2, hs1]
    | none =>
      obtain ⟨hs2, hb2, -⟩ := hc4
      have hle := bal_le_supply hn hi a
      refine ⟨⟨?_, ?_, ?_, ?_, ?_⟩, ?_⟩
      · rw [hb2, hb1, total_upd_in _ _ _ _ hn haU, hs2, hs1, ← hi.sum]; omega
      · intro x; rw [hb2, hb1]
        by_cases hxa : x = a
        · subst hxa; rw [upd_same]; omega
        · rw [upd_other _ _ _ _ hxa]; exact hi.nonneg x
      · intro x hx; rw [hb2, hb1]
        have hxa : x ≠ a := fun e => hx (e ▸ haU)
        rw [upd_other _ _ _ _ hxa]; exact hi.outside x hx
      · rw [hs2, hs1]; omega
      · rw [hs2, hs1]; have := hi.supHi; omega
      · simp; rw [hs2, hs1]
  | none =>
    obtain ⟨hs1, hin, hb1⟩ := hd4
    cases t with
    | some b =>
      obtain ⟨hs2, hb2, -⟩ := hc4
      have hbU := ht b rfl
      refine ⟨⟨?_, ?_, ?_, ?_, ?_⟩, ?_⟩
      · rw [hb2, hb1, total_upd_in _ _ _ _ hn hbU, hs2, hs1, ← hi.sum]; omega
      · intro x; rw [hb2, hb1]
        by_cases hxb : x = b
        · subst hxb; rw [upd_same]; have := hi.nonneg x; omega
        · rw [upd_other _ _ _ _ hxb]; exact hi.nonneg x
      · intro x hx; rw [hb2, hb1]
        have hxb : x ≠ b := fun e => hx (e ▸ hbU)
        rw [upd_other _ _ _ _ hxb]; exact hi.outside x hx
      · rw [hs2, hs1]; have := hi.supLo; omega
      · rw [hs2, hs1]; exact hin.2
      · simp; rw [hs2, hs1]
    | none =>
      obtain ⟨hs2, hb2, -⟩ := hc4
      refine ⟨⟨?_, ?_, ?_, ?_, ?_⟩, ?_⟩
      · rw [hb2, hb1, hs2, hs1, ← hi.sum]; omega
      · intro x; rw [hb2, hb1]; exact hi.nonneg x
      · intro x hx; rw [hb2, hb1]; exact hi.outside x hx
      · rw [hs2, hs1]; have := hi.supLo; omega
      · rw [hs2, hs1]; have := hi.supHi; omega
      · simp; rw [hs2, hs1]; omega


theorem bind_eq_ok {ε α β} {x : Except ε α} {f : α → Except ε β} {v : β}
    (h : (x >>= f) = .ok v) : ∃ a, x = .ok a ∧ f a = .ok v := by
  cases x with
  | error e => cases h
  | ok a => exact ⟨a, rfl, h⟩

theorem requireAuth_ok {auth : List Nat} {a : Nat} {u : Unit} (h : requireAuth auth a = .ok u) :
    a ∈ auth := by
  unfold requireAuth at h
  split at h
  · assumption
  · cases h

/-- a successful `set_allowance` touches nothing but the one allowance entry -/
theorem setAllowance_ok {c : Cfg} {s s' : State} {o sp : Nat} {amt : Int} {lu : Nat}
    (h : setAllowance c s o sp amt lu = .ok s') :
    s'.supply = s.supply ∧ s'.bal = s.bal ∧ s'.now = s.now ∧ s'.events = s.events ∧
    (∀ x y, ¬ (x = o ∧ y = sp) → s'.allow x y = s.allow x y) := by
  unfold setAllowance at h
  split at h
  · cases h
  · split at h
    · cases h
    · split at h
      · dsimp only at h
        split at h
        · cases h
        · injection h with h; subst h
          exact ⟨rfl, rfl, rfl, rfl, fun x y hxy => by simp [upd2, hxy]⟩
      · injection h with h; subst h
        exact ⟨rfl, rfl, rfl, rfl, fun x y hxy => by simp [upd2, hxy]⟩

theorem spendAllowance_ok {c : Cfg} {s s' : State} {o sp : Nat} {amt : Int}
    (h : spendAllowance c s o sp amt = .ok s') :
    s'.supply = s.supply ∧ s'.bal = s.bal ∧ s'.now = s.now ∧ s'.events = s.events ∧
    (∀ x y, ¬ (x = o ∧ y = sp) → s'.allow x y = s.allow x y) := by
  unfold spendAllowance at h
  split at h
  · cases h
  · dsimp only at h
    split at h
    · cases h
    · split at h
      · exact setAllowance_ok h
      · injection h with h; subst h
        exact ⟨rfl, rfl, rfl, rfl, fun _ _ _ => rfl⟩

/-- the invariant only looks at supply and balances -/
theorem Inv.congr {U : List Nat} {s s' : State} (hi : Inv U s) (h1 : s'.supply = s.supply)
    (h2 : s'.bal = s.bal) : Inv U s' :=
  ⟨by rw [h2, h1]; exact hi.sum, by rw [h2]; exact hi.nonneg, by rw [h2]; exact hi.outside,
   by rw [h1]; exact hi.supLo, by rw [h1]; exact hi.supHi⟩

end OZ.Fungible
