import OZ.Lemmas.RegRulesMon2
/-
Helper facts for the soundness proof of the `rules` monitor of C20 (OZ/Props/C20dMon.lean), part 3:
the accept / refuse decision of the monitor's plain list (`plain`) against the model's (`step`
with the harness's oracle `installOk`), operation by operation (`Outcome`).
-/
namespace OZ.RegRules.Mon
open OZ.Reg OZ.RegMon OZ.RegRules

/-- the plain list and the model decide an operation alike; if they accept, the new plain list
describes the new model state -/
def Outcome (g : Mon) (s : State) (op : Op) : Prop :=
  (∃ s' g', step installOk s op = .ok s' ∧ plain g op = .ok g' ∧ Agree g' s') ∨
  ((∃ e, step installOk s op = .error e) ∧ ∃ w, plain g op = .error w)

theorem refused {s : State} {op : Op} (h : ∀ s', step installOk s op = .ok s' → False) :
    ∃ e, step installOk s op = .error e :=
  err_of_not_ok (fun s' hok => h s' hok)

theorem outcome_add {g : Mon} {s : State} (ha : Agree g s) (hI : Inv s) (c n : Nat) (vu : Option Nat)
    (sg ps : List Nat) : Outcome g s (.add c n vu sg ps) := by
  have hlen : g.rules.length = s.count := by rw [ha.rules]; exact ghost_length hI
  have iff := fun s' => addContextRule_ok_iff installOk s s' c n vu sg ps
  unfold Outcome
  simp only [plain]
  show (∃ s' g', addContextRule installOk s c n vu sg ps = .ok s' ∧ _) ∨
    ((∃ e, addContextRule installOk s c n vu sg ps = .error e) ∧ _)
  by_cases h1 : g.rules.length ≥ 15
  · rw [if_pos h1]
    refine Or.inr ⟨err_of_not_ok (fun s' hok => ?_), _, rfl⟩
    have := ((iff s').1 hok).1.1
    simp only [MAX_CONTEXT_RULES] at this; omega
  rw [if_neg h1]
  by_cases h2 : sg.Nodup
  swap
  · rw [if_pos (by rw [Bool.not_eq_true', ← Bool.not_eq_true, nodupB_iff]; exact h2)]
    exact Or.inr ⟨err_of_not_ok (fun s' hok => h2 ((iff s').1 hok).1.2.1), _, rfl⟩
  rw [if_neg (by rw [Bool.not_eq_true', ← Bool.not_eq_true, nodupB_iff]; exact fun h => h h2)]
  rw [past_eq ha]
  cases h3 : pastValidUntil s vu with
  | true =>
    rw [if_pos rfl]
    refine Or.inr ⟨err_of_not_ok (fun s' hok => ?_), _, rfl⟩
    have := ((iff s').1 hok).1.2.2.1
    rw [h3] at this; cases this
  | false =>
  rw [if_neg (by simp)]
  by_cases h4 : sg.length > 15
  · rw [if_pos h4]
    refine Or.inr ⟨err_of_not_ok (fun s' hok => ?_), _, rfl⟩
    have := ((iff s').1 hok).1.2.2.2.1.1
    simp only [MAX_SIGNERS] at this; omega
  rw [if_neg h4]
  by_cases h5 : ps.length > 5
  · rw [if_pos h5]
    refine Or.inr ⟨err_of_not_ok (fun s' hok => ?_), _, rfl⟩
    have := ((iff s').1 hok).1.2.2.2.1.2.1
    simp only [MAX_POLICIES] at this; omega
  rw [if_neg h5]
  by_cases h6 : sg = [] ∧ ps = []
  · rw [if_pos h6]
    exact Or.inr ⟨err_of_not_ok (fun s' hok => ((iff s').1 hok).1.2.2.2.1.2.2 h6), _, rfl⟩
  rw [if_neg h6]
  by_cases hps : ps.Nodup
  swap
  · rw [if_pos (by rw [Bool.not_eq_true', ← Bool.not_eq_true, nodupB_iff]; exact hps)]
    exact Or.inr ⟨err_of_not_ok (fun s' hok => hps ((iff s').1 hok).1.2.2.2.2.1), _, rfl⟩
  rw [if_neg (by rw [Bool.not_eq_true', ← Bool.not_eq_true, nodupB_iff]; exact fun h => h hps)]
  by_cases h7 : g.rules.any (sameFp c sg ps) = true
  · rw [if_pos h7]
    exact Or.inr ⟨err_of_not_ok (fun s' hok => ((iff s').1 hok).1.2.2.2.2.2.1 ((anyFp_iff ha hI c h2 hps).1 h7)), _, rfl⟩
  rw [if_neg h7]
  cases h8 : ps.all installOk with
  | false =>
    rw [if_pos (show (!false) = true from rfl)]
    refine Or.inr ⟨err_of_not_ok (fun s' hok => ?_), _, rfl⟩
    have := ((iff s').1 hok).1.2.2.2.2.2.2
    rw [h8] at this; cases this
  | true =>
  rw [if_neg (show ¬ (!true) = true by decide)]
  refine Or.inl ⟨_, _, (iff _).2 ⟨⟨?_, h2, h3, ⟨?_, ?_, h6⟩, hps, fun h => h7 ((anyFp_iff ha hI c h2 hps).2 h), h8⟩, rfl⟩, rfl, ?_⟩
  · simp only [MAX_CONTEXT_RULES]; omega
  · simp only [MAX_SIGNERS]; omega
  · simp only [MAX_POLICIES]; omega
  · refine ⟨?_, ?_, ha.now⟩
    · show g.rules ++ [_] = _
      rw [ghost_add hI ⟨s.nextId, c, n, vu, sg, ps⟩ rfl (gAt_added s c n vu sg ps), ha.rules, ha.maxId]
    · show g.maxId + 1 + 1 = s.nextId + 1
      rw [ha.maxId]

theorem outcome_rename {g : Mon} {s : State} (ha : Agree g s) (hI : Inv s) (id n : Nat) :
    Outcome g s (.rename id n) := by
  unfold Outcome
  simp only [plain]
  show (∃ s' g', updateName s id n = .ok s' ∧ _) ∨ ((∃ e, updateName s id n = .error e) ∧ _)
  rw [find_ghost ha hI]
  cases hm : s.info id with
  | none =>
    rw [gAt_of_info_none hm]
    refine Or.inr ⟨err_of_not_ok (fun s' hok => ?_), _, rfl⟩
    obtain ⟨m, h, _⟩ := (updateName_ok_iff s s' id n).1 hok
    rw [hm] at h; cases h
  | some m =>
    rw [gAt_of_info hm]
    refine Or.inl ⟨_, _, (updateName_ok_iff s _ id n).2 ⟨m, hm, rfl⟩, rfl, ?_⟩
    exact agree_put ha id _ _ rfl rfl rfl (gAt_of_info hm) (gAt_setMeta s id _)

theorem outcome_revalid {g : Mon} {s : State} (ha : Agree g s) (hI : Inv s) (id : Nat) (vu : Option Nat) :
    Outcome g s (.revalid id vu) := by
  unfold Outcome
  simp only [plain]
  show (∃ s' g', updateValidUntil s id vu = .ok s' ∧ _) ∨ ((∃ e, updateValidUntil s id vu = .error e) ∧ _)
  rw [find_ghost ha hI, past_eq ha]
  cases hm : s.info id with
  | none =>
    rw [gAt_of_info_none hm]
    refine Or.inr ⟨err_of_not_ok (fun s' hok => ?_), _, rfl⟩
    obtain ⟨m, h, _⟩ := (updateValidUntil_ok_iff s s' id vu).1 hok
    rw [hm] at h; cases h
  | some m =>
    rw [gAt_of_info hm]
    dsimp only
    cases h3 : pastValidUntil s vu with
    | true =>
      rw [if_pos rfl]
      refine Or.inr ⟨err_of_not_ok (fun s' hok => ?_), _, rfl⟩
      obtain ⟨m', _, h, _⟩ := (updateValidUntil_ok_iff s s' id vu).1 hok
      rw [h3] at h; cases h
    | false =>
      rw [if_neg (by simp)]
      refine Or.inl ⟨_, _, (updateValidUntil_ok_iff s _ id vu).2 ⟨m, hm, h3, rfl⟩, rfl, ?_⟩
      exact agree_put ha id _ _ rfl rfl rfl (gAt_of_info hm) (gAt_setMeta s id _)

theorem count_ne_zero {s : State} (hI : Inv s) {id : Nat} {m : Meta} (hm : s.info id = some m) : s.count ≠ 0 := by
  obtain ⟨lv, _, h2, h3⟩ := hI.r.live
  have : id ∈ lv := (h2 id).2 (by rw [hm]; rfl)
  rw [h3]
  intro h0
  rw [List.length_eq_zero_iff] at h0
  rw [h0] at this; cases this

theorem outcome_remove {g : Mon} {s : State} (ha : Agree g s) (hI : Inv s) (id : Nat) :
    Outcome g s (.remove id) := by
  unfold Outcome
  simp only [plain]
  show (∃ s' g', removeContextRule s id = .ok s' ∧ _) ∨ ((∃ e, removeContextRule s id = .error e) ∧ _)
  rw [find_ghost ha hI]
  cases hm : s.info id with
  | none =>
    rw [gAt_of_info_none hm, if_neg (by simp)]
    refine Or.inr ⟨err_of_not_ok (fun s' hok => ?_), _, rfl⟩
    obtain ⟨m, h, _⟩ := (removeContextRule_ok_iff s s' id).1 hok
    rw [hm] at h; cases h
  | some m =>
    rw [gAt_of_info hm, if_pos (Option.isSome_some)]
    refine Or.inl ⟨_, _, (removeContextRule_ok_iff s _ id).2
      ⟨m, hm, ⟨hI.r.sgNodup id, hI.r.psNodup id, count_ne_zero hI hm⟩, rfl⟩, rfl, ?_⟩
    refine ⟨?_, ha.maxId, ha.now⟩
    show g.rules.filter _ = _
    rw [ghost_remove (s := s) (s' := removed s id m) id rfl (gAt_removed s id m), ha.rules]

theorem outcome_advance {g : Mon} {s : State} (ha : Agree g s) (n : Nat) : Outcome g s (.advance n) := by
  refine Or.inl ⟨{ s with now := s.now + n }, { g with now := g.now + n }, rfl, rfl, ?_⟩
  refine ⟨ha.rules, ha.maxId, ?_⟩
  show g.now + n = s.now + n
  rw [ha.now]

theorem outcome_addSigner {g : Mon} {s : State} (ha : Agree g s) (hI : Inv s) (id x : Nat) :
    Outcome g s (.addSigner id x) := by
  unfold Outcome
  simp only [plain]
  show (∃ s' g', addSigner s id x = .ok s' ∧ _) ∨ ((∃ e, addSigner s id x = .error e) ∧ _)
  have iff := fun s' => addSigner_ok_iff s s' id x
  rw [find_ghost ha hI]
  cases hm : s.info id with
  | none =>
    rw [gAt_of_info_none hm]
    refine Or.inr ⟨err_of_not_ok (fun s' hok => ?_), _, rfl⟩
    obtain ⟨m, h, _⟩ := (iff s').1 hok
    rw [hm] at h; cases h
  | some m =>
    rw [gAt_of_info hm]
    dsimp only
    by_cases h1 : x ∈ s.signers id
    · rw [if_pos (by simpa using h1)]
      refine Or.inr ⟨err_of_not_ok (fun s' hok => ?_), _, rfl⟩
      obtain ⟨m', _, h, _⟩ := (iff s').1 hok
      exact h h1
    rw [if_neg (by simpa using h1)]
    have hnd := nodup_append_singleton (hI.r.sgNodup id) h1
    by_cases h2 : (s.signers id).length + 1 > 15
    · rw [if_pos h2]
      refine Or.inr ⟨err_of_not_ok (fun s' hok => ?_), _, rfl⟩
      obtain ⟨m', _, _, ⟨⟨h, _⟩, _⟩, _⟩ := (iff s').1 hok
      simp only [MAX_SIGNERS, List.length_append, List.length_singleton] at h; omega
    rw [if_neg h2]
    by_cases h3 : g.rules.any (sameFp m.ctx (s.signers id ++ [x]) (s.policies id)) = true
    · rw [if_pos h3]
      refine Or.inr ⟨err_of_not_ok (fun s' hok => ?_), _, rfl⟩
      obtain ⟨m', hm', _, ⟨_, ⟨_, _, h⟩, _⟩, _⟩ := (iff s').1 hok
      rw [hm] at hm'; injection hm' with hm'; subst hm'
      exact h ((anyFp_iff ha hI m.ctx hnd (hI.r.psNodup id)).1 h3)
    rw [if_neg h3]
    refine Or.inl ⟨_, _, (iff _).2 ⟨m, hm, h1, ⟨⟨?_, hI.r.psLe id, by simp⟩,
      ⟨hnd, hI.r.psNodup id, fun h => h3 ((anyFp_iff ha hI m.ctx hnd (hI.r.psNodup id)).2 h)⟩,
      hI.r.sgNodup id, hI.r.psNodup id⟩, rfl⟩, rfl, ?_⟩
    · simp only [MAX_SIGNERS, List.length_append, List.length_singleton]; omega
    · exact agree_put ha id _ _ rfl rfl rfl (gAt_of_info hm) (gAt_sgSet hm _)

theorem outcome_removeSigner {g : Mon} {s : State} (ha : Agree g s) (hI : Inv s) (id x : Nat) :
    Outcome g s (.removeSigner id x) := by
  unfold Outcome
  simp only [plain]
  show (∃ s' g', removeSigner s id x = .ok s' ∧ _) ∨ ((∃ e, removeSigner s id x = .error e) ∧ _)
  have iff := fun s' => removeSigner_ok_iff s s' id x
  rw [find_ghost ha hI]
  cases hm : s.info id with
  | none =>
    rw [gAt_of_info_none hm]
    refine Or.inr ⟨err_of_not_ok (fun s' hok => ?_), _, rfl⟩
    obtain ⟨m, h, _⟩ := (iff s').1 hok
    rw [hm] at h; cases h
  | some m =>
    rw [gAt_of_info hm]
    dsimp only
    rw [← eraseLast_eq_erase (hI.r.sgNodup id) x]
    by_cases h1 : x ∈ s.signers id
    swap
    · rw [if_pos (by simpa using h1)]
      refine Or.inr ⟨err_of_not_ok (fun s' hok => ?_), _, rfl⟩
      obtain ⟨m', _, h, _⟩ := (iff s').1 hok
      exact h1 h
    rw [if_neg (by simpa using h1)]
    have hnd := nodup_eraseLast (hI.r.sgNodup id) x
    by_cases h2 : eraseLast (s.signers id) x = [] ∧ s.policies id = []
    · rw [if_pos h2]
      refine Or.inr ⟨err_of_not_ok (fun s' hok => ?_), _, rfl⟩
      obtain ⟨m', _, _, ⟨⟨_, _, h⟩, _⟩, _⟩ := (iff s').1 hok
      exact h h2
    rw [if_neg h2]
    by_cases h3 : g.rules.any (sameFp m.ctx (eraseLast (s.signers id) x) (s.policies id)) = true
    · rw [if_pos h3]
      refine Or.inr ⟨err_of_not_ok (fun s' hok => ?_), _, rfl⟩
      obtain ⟨m', hm', _, ⟨_, ⟨_, _, h⟩, _⟩, _⟩ := (iff s').1 hok
      rw [hm] at hm'; injection hm' with hm'; subst hm'
      exact h ((anyFp_iff ha hI m.ctx hnd (hI.r.psNodup id)).1 h3)
    rw [if_neg h3]
    refine Or.inl ⟨_, _, (iff _).2 ⟨m, hm, h1, ⟨⟨Nat.le_trans (length_eraseLast_le _ _) (hI.r.sgLe id), hI.r.psLe id, h2⟩,
      ⟨hnd, hI.r.psNodup id, fun h => h3 ((anyFp_iff ha hI m.ctx hnd (hI.r.psNodup id)).2 h)⟩,
      hI.r.sgNodup id, hI.r.psNodup id⟩, rfl⟩, rfl, ?_⟩
    exact agree_put ha id _ _ rfl rfl rfl (gAt_of_info hm) (gAt_sgSet hm _)

theorem outcome_addPolicy {g : Mon} {s : State} (ha : Agree g s) (hI : Inv s) (id p : Nat) :
    Outcome g s (.addPolicy id p) := by
  unfold Outcome
  simp only [plain]
  show (∃ s' g', addPolicy installOk s id p = .ok s' ∧ _) ∨ ((∃ e, addPolicy installOk s id p = .error e) ∧ _)
  have iff := fun s' => addPolicy_ok_iff installOk s s' id p
  rw [find_ghost ha hI]
  cases hm : s.info id with
  | none =>
    rw [gAt_of_info_none hm]
    refine Or.inr ⟨err_of_not_ok (fun s' hok => ?_), _, rfl⟩
    obtain ⟨m, h, _⟩ := (iff s').1 hok
    rw [hm] at h; cases h
  | some m =>
    rw [gAt_of_info hm]
    dsimp only
    by_cases h1 : p ∈ s.policies id
    · rw [if_pos (by simpa using h1)]
      refine Or.inr ⟨err_of_not_ok (fun s' hok => ?_), _, rfl⟩
      obtain ⟨m', _, h, _⟩ := (iff s').1 hok
      exact h h1
    rw [if_neg (by simpa using h1)]
    have hnd := nodup_append_singleton (hI.r.psNodup id) h1
    cases hi : installOk p with
    | false =>
      rw [if_pos (show (!false) = true from rfl)]
      refine Or.inr ⟨err_of_not_ok (fun s' hok => ?_), _, rfl⟩
      obtain ⟨m', _, _, h, _⟩ := (iff s').1 hok
      rw [hi] at h; cases h
    | true =>
    rw [if_neg (show ¬ (!true) = true by decide)]
    by_cases h2 : (s.policies id).length + 1 > 5
    · rw [if_pos h2]
      refine Or.inr ⟨err_of_not_ok (fun s' hok => ?_), _, rfl⟩
      obtain ⟨m', _, _, _, ⟨⟨_, h, _⟩, _⟩, _⟩ := (iff s').1 hok
      simp only [MAX_POLICIES, List.length_append, List.length_singleton] at h; omega
    rw [if_neg h2]
    by_cases h3 : g.rules.any (sameFp m.ctx (s.signers id) (s.policies id ++ [p])) = true
    · rw [if_pos h3]
      refine Or.inr ⟨err_of_not_ok (fun s' hok => ?_), _, rfl⟩
      obtain ⟨m', hm', _, _, ⟨_, ⟨_, _, h⟩, _⟩, _⟩ := (iff s').1 hok
      rw [hm] at hm'; injection hm' with hm'; subst hm'
      exact h ((anyFp_iff ha hI m.ctx (hI.r.sgNodup id) hnd).1 h3)
    rw [if_neg h3]
    refine Or.inl ⟨_, _, (iff _).2 ⟨m, hm, h1, hi, ⟨⟨hI.r.sgLe id, ?_, by simp⟩,
      ⟨hI.r.sgNodup id, hnd, fun h => h3 ((anyFp_iff ha hI m.ctx (hI.r.sgNodup id) hnd).2 h)⟩,
      hI.r.sgNodup id, hI.r.psNodup id⟩, rfl⟩, rfl, ?_⟩
    · simp only [MAX_POLICIES, List.length_append, List.length_singleton]; omega
    · exact agree_put ha id _ _ rfl rfl rfl (gAt_of_info hm) (gAt_psSet hm _)

theorem outcome_removePolicy {g : Mon} {s : State} (ha : Agree g s) (hI : Inv s) (id p : Nat) :
    Outcome g s (.removePolicy id p) := by
  unfold Outcome
  simp only [plain]
  show (∃ s' g', removePolicy s id p = .ok s' ∧ _) ∨ ((∃ e, removePolicy s id p = .error e) ∧ _)
  have iff := fun s' => removePolicy_ok_iff s s' id p
  rw [find_ghost ha hI]
  cases hm : s.info id with
  | none =>
    rw [gAt_of_info_none hm]
    refine Or.inr ⟨err_of_not_ok (fun s' hok => ?_), _, rfl⟩
    obtain ⟨m, h, _⟩ := (iff s').1 hok
    rw [hm] at h; cases h
  | some m =>
    rw [gAt_of_info hm]
    dsimp only
    rw [← eraseLast_eq_erase (hI.r.psNodup id) p]
    by_cases h1 : p ∈ s.policies id
    swap
    · rw [if_pos (by simpa using h1)]
      refine Or.inr ⟨err_of_not_ok (fun s' hok => ?_), _, rfl⟩
      obtain ⟨m', _, h, _⟩ := (iff s').1 hok
      exact h1 h
    rw [if_neg (by simpa using h1)]
    have hnd := nodup_eraseLast (hI.r.psNodup id) p
    by_cases h2 : s.signers id = [] ∧ eraseLast (s.policies id) p = []
    · rw [if_pos h2]
      refine Or.inr ⟨err_of_not_ok (fun s' hok => ?_), _, rfl⟩
      obtain ⟨m', _, _, ⟨⟨_, _, h⟩, _⟩, _⟩ := (iff s').1 hok
      exact h h2
    rw [if_neg h2]
    by_cases h3 : g.rules.any (sameFp m.ctx (s.signers id) (eraseLast (s.policies id) p)) = true
    · rw [if_pos h3]
      refine Or.inr ⟨err_of_not_ok (fun s' hok => ?_), _, rfl⟩
      obtain ⟨m', hm', _, ⟨_, ⟨_, _, h⟩, _⟩, _⟩ := (iff s').1 hok
      rw [hm] at hm'; injection hm' with hm'; subst hm'
      exact h ((anyFp_iff ha hI m.ctx (hI.r.sgNodup id) hnd).1 h3)
    rw [if_neg h3]
    refine Or.inl ⟨_, _, (iff _).2 ⟨m, hm, h1, ⟨⟨hI.r.sgLe id, Nat.le_trans (length_eraseLast_le _ _) (hI.r.psLe id), h2⟩,
      ⟨hI.r.sgNodup id, hnd, fun h => h3 ((anyFp_iff ha hI m.ctx (hI.r.sgNodup id) hnd).2 h)⟩,
      hI.r.sgNodup id, hI.r.psNodup id⟩, rfl⟩, rfl, ?_⟩
    exact agree_put ha id _ _ rfl rfl rfl (gAt_of_info hm) (gAt_psSet hm _)

/-- every operation is decided alike -/
theorem outcome {g : Mon} {s : State} (ha : Agree g s) (hI : Inv s) (op : Op) : Outcome g s op := by
  cases op with
  | add c n vu sg ps => exact outcome_add ha hI c n vu sg ps
  | rename id n => exact outcome_rename ha hI id n
  | revalid id vu => exact outcome_revalid ha hI id vu
  | remove id => exact outcome_remove ha hI id
  | addSigner id x => exact outcome_addSigner ha hI id x
  | removeSigner id x => exact outcome_removeSigner ha hI id x
  | addPolicy id p => exact outcome_addPolicy ha hI id p
  | removePolicy id p => exact outcome_removePolicy ha hI id p
  | advance n => exact outcome_advance ha n

end OZ.RegRules.Mon
