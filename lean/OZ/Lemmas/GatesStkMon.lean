import OZ.Lemmas.GatesStk
import OZ.Model.GatesStkMon
/-
Helper lemmas for the monitor-soundness theorem of C16, machine `stk` (OZ/Props/C16StkMon.lean): the op line
of a model operation, plumbing of the monitor's if-chains, inversion of the driver's dispatch.
-/
namespace OZ.Gates.Stk.Mon
open OZ.Host OZ.Fungible OZ.Gates OZ.Gates.Stk

/-! ### the op line of a model operation

What `OZ.Drv.C16.StkIO.parseLine` reads from the harness's rendering of an operation
(`gate <fn> a=<caller|-> d=- auth=<signers>`, `gate pause|unpause a=<caller> ..`, `fungible advance n=<k>`)
— the same words `StkIO.parseOp` builds the model's `SOp` from: only the role-guarded entry points carry
a caller. -/

def callerArg (f : Fn) (c : Nat) : List Nat := if f.spec.who = .role then [c] else []

def lineOf (auth : List Nat) : SOp → Line
  | .op (.call f c) => ⟨.fn f, callerArg f c, auth, 0⟩
  | .op (.pause c) => ⟨.pause, [c], auth, 0⟩
  | .op (.unpause c) => ⟨.unpause, [c], auth, 0⟩
  | .advance n => ⟨.advance, [], auth, n⟩

/-! ### plumbing -/

theorem orElse_none {a : Option String} {b : Unit → Option String} (h : a = none) : orElse a b = b () := by
  subst h; rfl

theorem verdict_none {m : Mon} {l : Line} {o : Obs} (h0 : vRollback m o = none) (h1 : vCall m l o = none)
    (h2 : vEffect m l o = none) : verdict m l o = none := by
  unfold verdict
  rw [orElse_none h0, orElse_none h1, h2]

theorem vRollback_none {m : Mon} {o : Obs} (h : o.ok = false → m.prev = none ∨ m.prev = some o.st) :
    vRollback m o = none := by
  unfold vRollback
  rw [if_neg]
  rintro ⟨h1, h2, h3⟩
  rcases h (by simpa using h1) with hp | hp
  · rw [hp] at h2; cases h2
  · exact h3 hp

theorem vFn_none {m : Mon} {l : Line} {f : Fn} {o : Obs}
    (h1 : ¬ (o.ok ∧ m.paused ≠ f.spec.needPaused))
    (h2 : ¬ (o.ok ∧ ¬ authorized m l f.spec.who))
    (h3 : ¬ (¬ o.ok ∧ guardsHold m l f)) : vFn m l f o = none := by
  unfold vFn
  rw [if_neg h1, if_neg h2, if_neg h3]

theorem vToggle_none {m : Mon} {l : Line} {o : Obs}
    (h1 : ¬ (o.ok ∧ l.call = .pause ∧ m.paused))
    (h2 : ¬ (o.ok ∧ l.call = .unpause ∧ ¬ m.paused))
    (h3 : ¬ (o.ok ∧ (l.call = .pause ∨ l.call = .unpause) ∧ ¬ byOwner m l))
    (h4 : ¬ (¬ o.ok ∧ l.call = .pause ∧ ¬ m.paused ∧ byOwner m l))
    (h5 : ¬ (¬ o.ok ∧ l.call = .unpause ∧ m.paused ∧ byOwner m l)) : vToggle m l o = none := by
  unfold vToggle
  rw [if_neg h1, if_neg h2, if_neg h3, if_neg h4, if_neg h5]

/-- a line that is neither pause nor unpause: nothing to check -/
theorem vToggle_other {m : Mon} {l : Line} {o : Obs} (h1 : l.call ≠ .pause) (h2 : l.call ≠ .unpause) :
    vToggle m l o = none :=
  vToggle_none (fun h => h1 h.2.1) (fun h => h2 h.2.1) (fun h => h.2.1.elim h1 h2) (fun h => h1 h.2.1)
    (fun h => h2 h.2.1)

theorem vEffect_none {m : Mon} {l : Line} {o : Obs}
    (h1 : o.st.counter = counterStep m l o.ok) (h2 : o.st.paused = pausedStep m l o.ok)
    (h3 : o.ok = true → l.call.isInc = true → o.ret = some o.st.counter) : vEffect m l o = none := by
  unfold vEffect
  rw [if_neg (fun h => h h1), if_neg (fun h => h h2), if_neg (fun h => h.2.2 (h3 h.1 h.2.1))]

/-! ### the driver's dispatch -/

theorem stepM_some {x : MSt} {auth : List Nat} {op : SOp} {s' : Stk}
    (h : applyModel x.s auth op = some s') : stepM x auth op = (⟨s', nowStep x.now op⟩, true) := by
  unfold stepM; rw [h]

theorem stepM_none {x : MSt} {auth : List Nat} {op : SOp}
    (h : applyModel x.s auth op = none) : stepM x auth op = (x, false) := by
  unfold stepM; rw [h]

theorem applyModel_op_some {s s' : Stk} {auth : List Nat} {o : Op}
    (h : applyModel s auth (.op o) = some s') : s.apply auth o = .ok s' := by
  simp only [applyModel] at h
  cases hx : s.apply auth o with
  | error e => rw [hx] at h; cases h
  | ok s1 => rw [hx] at h; injection h with h; rw [h]

theorem applyModel_op_none {s : Stk} {auth : List Nat} {o : Op}
    (h : applyModel s auth (.op o) = none) : ∀ s', s.apply auth o ≠ .ok s' := by
  intro s' hx
  simp only [applyModel] at h
  rw [hx] at h
  cases h

end OZ.Gates.Stk.Mon
