import OZ.Lemmas.Fungible
import OZ.Model.Rwa
/-
Helper lemmas for the RWA model: what a successful call of each library function implies
(its guards, in pre-state terms) and an exact field-by-field description of its post-state.
-/
namespace OZ.Rwa
open OZ.Host OZ.Fungible

theorem upd_apply {β} (f : Nat → β) (a x : Nat) (v : β) : upd f a v x = if x = a then v else f x := rfl

theorem check_ok {c : Prop} [Decidable c] {e : Err} {u : Unit} (h : check c e = .ok u) : c := by
  unfold check at h
  split at h
  · assumption
  · cases h

theorem chk_ok {x v : Int} (h : chk x = .ok v) : v = x ∧ in128 x := by
  unfold chk at h
  split at h
  · injection h with h; exact ⟨h.symm, by assumption⟩
  · cases h

/-! ### replay of events -/

theorem replay_snoc (evs : List Ev) (ev : Ev) : replay (evs ++ [ev]) = replayEv (replay evs) ev := by
  simp [replay, List.foldl_append]

theorem update_replay_transfer {b b' : Fungible.State} {f t : Nat} {amt : Int}
    (h : Fungible.update b (some f) (some t) amt = .ok b') :
    Fungible.replayEvent b.bal (.transfer f t amt) = b'.bal := by
  obtain ⟨-, s1, hd, hc⟩ := update_ok h
  obtain ⟨-, -, -, hd4⟩ := debit_ok hd
  obtain ⟨-, -, -, hc4⟩ := credit_ok hc
  simp only [replayEvent]; rw [hc4.2.1, hd4.2.2]

theorem update_replay_mint {b b' : Fungible.State} {t : Nat} {amt : Int}
    (h : Fungible.update b none (some t) amt = .ok b') :
    Fungible.replayEvent b.bal (.mint t amt) = b'.bal := by
  obtain ⟨-, s1, hd, hc⟩ := update_ok h
  obtain ⟨-, -, -, hd4⟩ := debit_ok hd
  obtain ⟨-, -, -, hc4⟩ := credit_ok hc
  simp only [replayEvent]; rw [hc4.2.1, hd4.2.2]

theorem update_replay_burn {b b' : Fungible.State} {f : Nat} {amt : Int}
    (h : Fungible.update b (some f) none amt = .ok b') :
    Fungible.replayEvent b.bal (.burn f amt) = b'.bal := by
  obtain ⟨-, s1, hd, hc⟩ := update_ok h
  obtain ⟨-, -, -, hd4⟩ := debit_ok hd
  obtain ⟨-, -, -, hc4⟩ := credit_ok hc
  simp only [replayEvent]; rw [hc4.2.1, hd4.2.2]

/-! ### the fungible `update`, by shape -/

theorem update_move {b b' : Fungible.State} {f t : Nat} {amt : Int}
    (h : Fungible.update b (some f) (some t) amt = .ok b') :
    0 ≤ amt ∧ amt ≤ b.bal f ∧ b'.supply = b.supply ∧ b'.allow = b.allow ∧ b'.now = b.now ∧
    (∀ x, b'.bal x = (if x = t then (if t = f then b.bal f - amt else b.bal t) + amt
                      else if x = f then b.bal f - amt else b.bal x)) := by
  obtain ⟨h0, s1, hd, hc⟩ := update_ok h
  obtain ⟨da, dn, -, hge, hs1, hb1⟩ := debit_ok hd
  obtain ⟨ca, cn, -, hs2, hb2, -⟩ := credit_ok hc
  refine ⟨h0, by omega, by rw [hs2, hs1], by rw [ca, da], by rw [cn, dn], ?_⟩
  intro x
  rw [hb2, hb1]
  simp only [upd_apply]

theorem update_mint {b b' : Fungible.State} {t : Nat} {amt : Int}
    (h : Fungible.update b none (some t) amt = .ok b') :
    0 ≤ amt ∧ b'.supply = b.supply + amt ∧ b'.allow = b.allow ∧ b'.now = b.now ∧
    (∀ x, b'.bal x = if x = t then b.bal t + amt else b.bal x) := by
  obtain ⟨h0, s1, hd, hc⟩ := update_ok h
  obtain ⟨da, dn, -, hs1, -, hb1⟩ := debit_ok hd
  obtain ⟨ca, cn, -, hs2, hb2, -⟩ := credit_ok hc
  refine ⟨h0, by rw [hs2, hs1], by rw [ca, da], by rw [cn, dn], ?_⟩
  intro x
  rw [hb2, hb1]
  simp only [upd_apply]

theorem update_burn {b b' : Fungible.State} {f : Nat} {amt : Int}
    (h : Fungible.update b (some f) none amt = .ok b') :
    0 ≤ amt ∧ amt ≤ b.bal f ∧ b'.supply = b.supply - amt ∧ b'.allow = b.allow ∧ b'.now = b.now ∧
    (∀ x, b'.bal x = if x = f then b.bal f - amt else b.bal x) := by
  obtain ⟨h0, s1, hd, hc⟩ := update_ok h
  obtain ⟨da, dn, -, hge, hs1, hb1⟩ := debit_ok hd
  obtain ⟨ca, cn, -, hs2, hb2, -⟩ := credit_ok hc
  refine ⟨h0, by omega, by rw [hs2, hs1], by rw [ca, da], by rw [cn, dn], ?_⟩
  intro x
  rw [hb2, hb1]
  simp only [upd_apply]

theorem baseUpdate_ok {s s' : State} {f t : Option Nat} {amt : Int}
    (h : baseUpdate s f t amt = .ok s') :
    ∃ b, Fungible.update s.base f t amt = .ok b ∧ s' = { s with base := b } := by
  unfold baseUpdate at h
  split at h
  · rename_i b hb; injection h with h; exact ⟨b, hb, h.symm⟩
  · cases h

theorem baseSpend_ok {c : Cfg} {s s' : State} {o sp : Nat} {amt : Int}
    (h : baseSpend c s o sp amt = .ok s') :
    ∃ b, Fungible.spendAllowance c s.base o sp amt = .ok b ∧ s' = { s with base := b } := by
  unfold baseSpend at h
  split at h
  · rename_i b hb; injection h with h; exact ⟨b, hb, h.symm⟩
  · cases h

theorem baseSetAllowance_ok {c : Cfg} {s s' : State} {o sp : Nat} {amt : Int} {lu : Nat}
    (h : baseSetAllowance c s o sp amt lu = .ok s') :
    ∃ b, Fungible.setAllowance c s.base o sp amt lu = .ok b ∧ s' = { s with base := b } := by
  unfold baseSetAllowance at h
  split at h
  · rename_i b hb; injection h with h; exact ⟨b, hb, h.symm⟩
  · cases h

/-! ### oracles -/

theorem verifyIdentity_ok {s s' : State} {a : Nat} (h : verifyIdentity s a = .ok s') :
    s.idOk a = true ∧ s' = logId s (.verify a) := by
  unfold verifyIdentity at h
  split at h
  · injection h with h; exact ⟨by assumption, h.symm⟩
  · cases h

theorem queryCanTransfer_ok {s s' : State} {f t : Nat} {amt : Int}
    (h : queryCanTransfer s f t amt = .ok s') :
    (compCanTransfer s f t amt).2 = true ∧
    s' = logMods (logQuery s (.canTransfer f t amt)) (compCanTransfer s f t amt).1 (.canTransfer f t amt) := by
  unfold queryCanTransfer at h
  split at h
  · injection h with h; exact ⟨by assumption, h.symm⟩
  · cases h

theorem queryCanCreate_ok {s s' : State} {t : Nat} {amt : Int}
    (h : queryCanCreate s t amt = .ok s') :
    (compCanCreate s t amt).2 = true ∧
    s' = logMods (logQuery s (.canCreate t amt)) (compCanCreate s t amt).1 (.canCreate t amt) := by
  unfold queryCanCreate at h
  split at h
  · injection h with h; exact ⟨by assumption, h.symm⟩
  · cases h

theorem hook_ok {s s' : State} {h : Hook} {c : ModCall} (hh : hook s h c = .ok s') :
    s.bound = true ∧ s' = logMods s (s.mods h) c := by
  unfold hook at hh
  split at hh
  · injection hh with hh; exact ⟨by assumption, hh.symm⟩
  · cases hh

theorem checkTarget_ok {s s' : State} {old new : Nat} (h : checkTarget s old new = .ok s') :
    s.recTarget old = some new ∧ s' = logId s (.target old) := by
  unfold checkTarget at h
  split at h
  · injection h with h; exact ⟨by assumption, h.symm⟩
  · cases h

theorem opAuth_ok {s : State} {auth : List Nat} {op : Nat} {u : Unit} (h : opAuth s auth op = .ok u) :
    op ∈ auth ∧ op = s.admin := by
  unfold opAuth at h
  obtain ⟨_, h1, h2⟩ := bind_eq_ok h
  exact ⟨requireAuth_ok h1, check_ok h2⟩

/-- the gates of `validate_transfer`, in pre-state terms -/
structure Gates (s : State) (f t : Nat) (amt : Int) : Prop where
  notPaused : s.paused = false
  fromNotFrozen : s.addrFrozen f = false
  toNotFrozen : s.addrFrozen t = false
  free : amt ≤ s.base.bal f - s.frozen f
  fromVerified : s.idOk f = true
  toVerified : s.idOk t = true
  compliant : (compCanTransfer s f t amt).2 = true

theorem validateTransfer_ok {s s' : State} {f t : Nat} {amt : Int}
    (h : validateTransfer s f t amt = .ok s') :
    Gates s f t amt ∧
    s' = logMods (logQuery (logId (logId s (.verify f)) (.verify t)) (.canTransfer f t amt))
      (compCanTransfer s f t amt).1 (.canTransfer f t amt) := by
  unfold validateTransfer at h
  obtain ⟨_, h1, h⟩ := bind_eq_ok h
  obtain ⟨_, h2, h⟩ := bind_eq_ok h
  obtain ⟨free, h3, h⟩ := bind_eq_ok h
  obtain ⟨_, h4, h⟩ := bind_eq_ok h
  obtain ⟨s1, h5, h⟩ := bind_eq_ok h
  obtain ⟨s2, h6, h⟩ := bind_eq_ok h
  have g1 := check_ok h1
  have g2 := check_ok h2
  obtain ⟨e3, -⟩ := chk_ok h3
  have g4 := check_ok h4
  obtain ⟨g5, e5⟩ := verifyIdentity_ok h5
  subst e5
  obtain ⟨g6, e6⟩ := verifyIdentity_ok h6
  subst e6
  obtain ⟨g7, e7⟩ := queryCanTransfer_ok h
  subst e7
  subst e3
  exact ⟨⟨g1, g2.1, g2.2, by omega, g5, g6, g7⟩, rfl⟩

/-! ### post-states, field by field -/

/-- everything a supervisory / holder operation never touches: the oracles and the admin -/
structure SameEnv (s s' : State) : Prop where
  admin : s'.admin = s.admin
  idOk : s'.idOk = s.idOk
  recTarget : s'.recTarget = s.recTarget
  bound : s'.bound = s.bound
  mods : s'.mods = s.mods
  modCanTransfer : s'.modCanTransfer = s.modCanTransfer
  modCanCreate : s'.modCanCreate = s.modCanCreate

theorem SameEnv.refl (s : State) : SameEnv s s := ⟨rfl, rfl, rfl, rfl, rfl, rfl, rfl⟩
theorem SameEnv.trans {a b c : State} (h1 : SameEnv a b) (h2 : SameEnv b c) : SameEnv a c :=
  ⟨h2.admin.trans h1.admin, h2.idOk.trans h1.idOk, h2.recTarget.trans h1.recTarget,
   h2.bound.trans h1.bound, h2.mods.trans h1.mods,
   h2.modCanTransfer.trans h1.modCanTransfer, h2.modCanCreate.trans h1.modCanCreate⟩

/-- the frozen amount `unfreezeFor` / `forced_transfer` / `burn` leave on the account -/
def frozenAfter (s : State) (a : Nat) (amt : Int) : Int :=
  if s.base.bal a - s.frozen a < amt then s.base.bal a - amt else s.frozen a

theorem unfreezeFor_ok {s s' : State} {a : Nat} {amt : Int} (h : unfreezeFor s a amt = .ok s') :
    s'.base = s.base ∧ s'.addrFrozen = s.addrFrozen ∧ s'.paused = s.paused ∧ s'.notes = s.notes ∧
    SameEnv s s' ∧ (∀ x, s'.frozen x = if x = a then frozenAfter s a amt else s.frozen x) ∧
    replay s'.events = replay s.events ∧ s'.modCalls = s.modCalls := by
  unfold unfreezeFor at h
  obtain ⟨free, h1, h⟩ := bind_eq_ok h
  obtain ⟨e1, -⟩ := chk_ok h1
  subst e1
  split at h
  · rename_i hlt
    obtain ⟨tu, h2, h⟩ := bind_eq_ok h
    obtain ⟨nf, h3, h⟩ := bind_eq_ok h
    obtain ⟨e2, -⟩ := chk_ok h2
    obtain ⟨e3, -⟩ := chk_ok h3
    injection h with h; subst h
    refine ⟨rfl, rfl, rfl, rfl, ⟨rfl, rfl, rfl, rfl, rfl, rfl, rfl⟩, ?_, ?_, rfl⟩
    · intro x
      simp only [emit, upd_apply, frozenAfter]
      rw [if_pos hlt]
      split
      · omega
      · rfl
    · simp only [emit]; rw [replay_snoc]; rfl
  · rename_i hge
    injection h with h; subst h
    refine ⟨rfl, rfl, rfl, rfl, ⟨rfl, rfl, rfl, rfl, rfl, rfl, rfl⟩, ?_, rfl, rfl⟩
    intro x
    simp only [frozenAfter]
    rw [if_neg hge]
    split
    · rename_i hx; rw [hx]
    · rfl

/-- field-by-field description of a successful `forced_transfer` -/
structure ForcedPost (s s' : State) (f t : Nat) (amt : Int) : Prop where
  enough : amt ≤ s.base.bal f
  nonneg : 0 ≤ amt
  update : Fungible.update s.base (some f) (some t) amt = .ok s'.base
  frozen : ∀ x, s'.frozen x = if x = f then frozenAfter s f amt else s.frozen x
  addrFrozen : s'.addrFrozen = s.addrFrozen
  paused : s'.paused = s.paused
  notes : s'.notes = s.notes ++ [.transferred f t amt]
  env : SameEnv s s'
  replay : replay s'.events = Fungible.replayEvent (replay s.events) (.transfer f t amt)
  bound : s.bound = true
  modCalls : s'.modCalls = s.modCalls ++ callsTo (s.mods .transferred) (.onTransfer f t amt)

theorem forcedTransfer_ok {s s' : State} {f t : Nat} {amt : Int}
    (h : forcedTransfer s f t amt = .ok s') : ForcedPost s s' f t amt := by
  unfold forcedTransfer at h
  obtain ⟨_, h1, h⟩ := bind_eq_ok h
  obtain ⟨s1, h2, h⟩ := bind_eq_ok h
  obtain ⟨s2, h3, h⟩ := bind_eq_ok h
  obtain ⟨s3, h4, h⟩ := bind_eq_ok h
  have g1 := check_ok h1
  obtain ⟨eb, ea, ep, en, ee, ef, er, em⟩ := unfreezeFor_ok h2
  obtain ⟨b, hb, e3⟩ := baseUpdate_ok h3
  subst e3
  obtain ⟨g4, e4⟩ := hook_ok h4
  subst e4
  injection h with h; subst h
  rw [eb] at hb
  exact ⟨by omega, (update_move hb).1, hb, ef, ea, ep, by simp [emit, notify, logMods, en],
    ⟨ee.admin, ee.idOk, ee.recTarget, ee.bound, ee.mods, ee.modCanTransfer, ee.modCanCreate⟩,
    by simp only [emit, notify, logMods]; rw [replay_snoc, er]; rfl,
    by rw [← ee.bound]; exact g4,
    by simp only [emit, notify, logMods]; rw [em, ← ee.mods]⟩

structure BurnPost (s s' : State) (a : Nat) (amt : Int) : Prop where
  enough : amt ≤ s.base.bal a
  nonneg : 0 ≤ amt
  update : Fungible.update s.base (some a) none amt = .ok s'.base
  frozen : ∀ x, s'.frozen x = if x = a then frozenAfter s a amt else s.frozen x
  addrFrozen : s'.addrFrozen = s.addrFrozen
  paused : s'.paused = s.paused
  notes : s'.notes = s.notes ++ [.destroyed a amt]
  env : SameEnv s s'
  replay : replay s'.events = Fungible.replayEvent (replay s.events) (.burn a amt)
  bound : s.bound = true
  modCalls : s'.modCalls = s.modCalls ++ callsTo (s.mods .destroyed) (.onDestroyed a amt)

theorem burn_ok {s s' : State} {a : Nat} {amt : Int} (h : burn s a amt = .ok s') :
    BurnPost s s' a amt := by
  unfold burn at h
  obtain ⟨_, h1, h⟩ := bind_eq_ok h
  obtain ⟨s1, h2, h⟩ := bind_eq_ok h
  obtain ⟨s2, h3, h⟩ := bind_eq_ok h
  obtain ⟨s3, h4, h⟩ := bind_eq_ok h
  have g1 := check_ok h1
  obtain ⟨eb, ea, ep, en, ee, ef, er, em⟩ := unfreezeFor_ok h2
  obtain ⟨b, hb, e3⟩ := baseUpdate_ok h3
  subst e3
  obtain ⟨g4, e4⟩ := hook_ok h4
  subst e4
  injection h with h; subst h
  rw [eb] at hb
  exact ⟨by omega, (update_burn hb).1, hb, ef, ea, ep, by simp [emit, notify, logMods, en],
    ⟨ee.admin, ee.idOk, ee.recTarget, ee.bound, ee.mods, ee.modCanTransfer, ee.modCanCreate⟩,
    by simp only [emit, notify, logMods]; rw [replay_snoc, er]; rfl,
    by rw [← ee.bound]; exact g4,
    by simp only [emit, notify, logMods]; rw [em, ← ee.mods]⟩

structure MintPost (s s' : State) (t : Nat) (amt : Int) : Prop where
  verified : s.idOk t = true
  compliant : (compCanCreate s t amt).2 = true
  update : Fungible.update s.base none (some t) amt = .ok s'.base
  frozen : s'.frozen = s.frozen
  addrFrozen : s'.addrFrozen = s.addrFrozen
  paused : s'.paused = s.paused
  notes : s'.notes = s.notes ++ [.created t amt]
  env : SameEnv s s'
  replay : replay s'.events = Fungible.replayEvent (replay s.events) (.mint t amt)
  bound : s.bound = true
  modCalls : s'.modCalls = s.modCalls ++ (callsTo (compCanCreate s t amt).1 (.canCreate t amt) ++
    callsTo (s.mods .created) (.onCreated t amt))

theorem mint_ok {s s' : State} {t : Nat} {amt : Int} (h : mint s t amt = .ok s') :
    MintPost s s' t amt := by
  unfold mint at h
  obtain ⟨s1, h1, h⟩ := bind_eq_ok h
  obtain ⟨s2, h2, h⟩ := bind_eq_ok h
  obtain ⟨s3, h3, h⟩ := bind_eq_ok h
  obtain ⟨g1, e1⟩ := verifyIdentity_ok h1
  subst e1
  obtain ⟨g2, e2⟩ := queryCanCreate_ok h2
  subst e2
  obtain ⟨b, hb, e3⟩ := baseUpdate_ok h3
  subst e3
  obtain ⟨s4, h4, h⟩ := bind_eq_ok h
  obtain ⟨g4, e4⟩ := hook_ok h4
  subst e4
  injection h with h; subst h
  exact ⟨g1, g2, hb, rfl, rfl, rfl, by simp [emit, notify, logQuery, logId, logMods], ⟨rfl, rfl, rfl, rfl, rfl, rfl, rfl⟩,
    by simp only [emit, notify, logMods]; rw [replay_snoc]; rfl, g4,
    by simp only [emit, notify, logMods, logQuery, logId, List.append_assoc, compCanCreate]⟩

/-- field-by-field description of a successful holder move (`transfer`, `transfer_from`) -/
structure MovePost (s s' : State) (f t : Nat) (amt : Int) : Prop where
  gates : Gates s f t amt
  update : ∃ b1, b1.supply = s.base.supply ∧ b1.bal = s.base.bal ∧
    Fungible.update b1 (some f) (some t) amt = .ok s'.base
  bal : ∀ x, s'.base.bal x = (if x = t then (if t = f then s.base.bal f - amt else s.base.bal t) + amt
                              else if x = f then s.base.bal f - amt else s.base.bal x)
  nonneg : 0 ≤ amt
  supply : s'.base.supply = s.base.supply
  now : s'.base.now = s.base.now
  frozen : s'.frozen = s.frozen
  addrFrozen : s'.addrFrozen = s.addrFrozen
  paused : s'.paused = s.paused
  notes : s'.notes = s.notes ++ [.transferred f t amt]
  env : SameEnv s s'
  replay : replay s'.events = Fungible.replayEvent (replay s.events) (.transfer f t amt)
  bound : s.bound = true
  modCalls : s'.modCalls = s.modCalls ++ (callsTo (compCanTransfer s f t amt).1 (.canTransfer f t amt) ++
    callsTo (s.mods .transferred) (.onTransfer f t amt))

theorem transfer_ok {s s' : State} {auth : List Nat} {f t : Nat} {amt : Int}
    (h : transfer s auth f t amt = .ok s') : f ∈ auth ∧ MovePost s s' f t amt := by
  unfold transfer at h
  obtain ⟨_, h0, h⟩ := bind_eq_ok h
  obtain ⟨s1, h1, h⟩ := bind_eq_ok h
  obtain ⟨s2, h2, h⟩ := bind_eq_ok h
  obtain ⟨g, e1⟩ := validateTransfer_ok h1
  subst e1
  obtain ⟨b, hb, e2⟩ := baseUpdate_ok h2
  subst e2
  obtain ⟨s3, h3, h⟩ := bind_eq_ok h
  obtain ⟨g3, e3⟩ := hook_ok h3
  subst e3
  injection h with h; subst h
  obtain ⟨u0, -, u2, -, u4, u5⟩ := update_move hb
  exact ⟨requireAuth_ok h0, g, ⟨_, rfl, rfl, hb⟩, u5, u0, u2, u4, rfl, rfl, rfl,
    by simp [emit, notify, logQuery, logId, logMods], ⟨rfl, rfl, rfl, rfl, rfl, rfl, rfl⟩,
    by simp only [emit, notify, logMods]; rw [replay_snoc]; rfl, g3,
    by simp only [emit, notify, logMods, logQuery, logId, List.append_assoc]⟩

theorem transferFrom_ok {c : Cfg} {s s' : State} {auth : List Nat} {sp f t : Nat} {amt : Int}
    (h : transferFrom c s auth sp f t amt = .ok s') :
    sp ∈ auth ∧ amt ≤ Fungible.allowance s.base f sp ∧ MovePost s s' f t amt := by
  unfold transferFrom at h
  obtain ⟨_, h0, h⟩ := bind_eq_ok h
  obtain ⟨s1, h1, h⟩ := bind_eq_ok h
  obtain ⟨s2, h2, h⟩ := bind_eq_ok h
  obtain ⟨s3, h3, h⟩ := bind_eq_ok h
  obtain ⟨g, e1⟩ := validateTransfer_ok h1
  subst e1
  obtain ⟨b1, hb1, e2⟩ := baseSpend_ok h2
  subst e2
  obtain ⟨b2, hb2, e3⟩ := baseUpdate_ok h3
  subst e3
  obtain ⟨s4, h4, h⟩ := bind_eq_ok h
  obtain ⟨g4, e4⟩ := hook_ok h4
  subst e4
  injection h with h; subst h
  obtain ⟨a1, a2, a3, -, -⟩ := spendAllowance_ok hb1
  obtain ⟨u0, -, u2, -, u4, u5⟩ := update_move hb2
  have hal : amt ≤ Fungible.allowance s.base f sp := by
    have hb := hb1
    unfold Fungible.spendAllowance at hb
    split at hb
    · cases hb
    · dsimp only at hb
      split at hb
      · cases hb
      · rename_i hn; unfold Fungible.allowance; simp only [logQuery, logId, logMods] at hn; omega
  refine ⟨requireAuth_ok h0, hal, g, ⟨b1, a1, a2, hb2⟩, ?_, u0, ?_, ?_, rfl, rfl, rfl,
    by simp [emit, notify, logQuery, logId, logMods], ⟨rfl, rfl, rfl, rfl, rfl, rfl, rfl⟩,
    by simp only [emit, notify, logMods]; rw [replay_snoc]; rfl, g4,
    by simp only [emit, notify, logMods, logQuery, logId, List.append_assoc]⟩
  · intro x; show b2.bal x = _; rw [u5 x, a2]; rfl
  · show b2.supply = _; rw [u2, a1]; rfl
  · show b2.now = _; rw [u4, a3]; rfl

theorem freezePartial_ok {s s' : State} {a : Nat} {amt : Int} (h : freezePartial s a amt = .ok s') :
    0 ≤ amt ∧ s.frozen a + amt ≤ s.base.bal a ∧ s'.base = s.base ∧ s'.addrFrozen = s.addrFrozen ∧
    s'.paused = s.paused ∧ s'.notes = s.notes ∧ SameEnv s s' ∧
    (∀ x, s'.frozen x = if x = a then s.frozen a + amt else s.frozen x) ∧
    replay s'.events = replay s.events ∧ s'.modCalls = s.modCalls := by
  unfold freezePartial at h
  obtain ⟨_, h1, h⟩ := bind_eq_ok h
  obtain ⟨nf, h2, h⟩ := bind_eq_ok h
  obtain ⟨_, h3, h⟩ := bind_eq_ok h
  have g1 := check_ok h1
  obtain ⟨e2, -⟩ := chk_ok h2
  subst e2
  have g3 := check_ok h3
  injection h with h; subst h
  refine ⟨by omega, by omega, rfl, rfl, rfl, rfl, ⟨rfl, rfl, rfl, rfl, rfl, rfl, rfl⟩, ?_, ?_, rfl⟩
  · intro x; simp only [emit, upd_apply]
  · simp only [emit]; rw [replay_snoc]; rfl

theorem unfreezePartial_ok {s s' : State} {a : Nat} {amt : Int} (h : unfreezePartial s a amt = .ok s') :
    0 ≤ amt ∧ amt ≤ s.frozen a ∧ s'.base = s.base ∧ s'.addrFrozen = s.addrFrozen ∧
    s'.paused = s.paused ∧ s'.notes = s.notes ∧ SameEnv s s' ∧
    (∀ x, s'.frozen x = if x = a then s.frozen a - amt else s.frozen x) ∧
    replay s'.events = replay s.events ∧ s'.modCalls = s.modCalls := by
  unfold unfreezePartial at h
  obtain ⟨_, h1, h⟩ := bind_eq_ok h
  obtain ⟨_, h2, h⟩ := bind_eq_ok h
  obtain ⟨nf, h3, h⟩ := bind_eq_ok h
  have g1 := check_ok h1
  have g2 := check_ok h2
  obtain ⟨e3, -⟩ := chk_ok h3
  subst e3
  injection h with h; subst h
  refine ⟨by omega, by omega, rfl, rfl, rfl, rfl, ⟨rfl, rfl, rfl, rfl, rfl, rfl, rfl⟩, ?_, ?_, rfl⟩
  · intro x; simp only [emit, upd_apply]
  · simp only [emit]; rw [replay_snoc]; rfl

theorem approve_ok {c : Cfg} {s s' : State} {auth : List Nat} {o sp : Nat} {amt : Int} {lu : Nat}
    (h : approve c s auth o sp amt lu = .ok s') :
    o ∈ auth ∧ s'.base.bal = s.base.bal ∧ s'.base.supply = s.base.supply ∧ s'.frozen = s.frozen ∧
    s'.addrFrozen = s.addrFrozen ∧ s'.paused = s.paused ∧ s'.notes = s.notes ∧ SameEnv s s' ∧
    replay s'.events = replay s.events ∧ s'.modCalls = s.modCalls := by
  unfold approve at h
  obtain ⟨_, h0, h⟩ := bind_eq_ok h
  obtain ⟨s1, h1, h⟩ := bind_eq_ok h
  obtain ⟨b, hb, e1⟩ := baseSetAllowance_ok h1
  subst e1
  injection h with h; subst h
  obtain ⟨a1, a2, -, -, -⟩ := setAllowance_ok hb
  exact ⟨requireAuth_ok h0, a2, a1, rfl, rfl, rfl, rfl, ⟨rfl, rfl, rfl, rfl, rfl, rfl, rfl⟩,
    by simp only [emit]; rw [replay_snoc]; rfl, rfl⟩

theorem pause_ok {s s' : State} (h : pause s = .ok s') :
    s.paused = false ∧ s' = emit { s with paused := true } .paused := by
  unfold pause at h
  obtain ⟨_, h1, h⟩ := bind_eq_ok h
  injection h with h
  exact ⟨check_ok h1, h.symm⟩

theorem unpause_ok {s s' : State} (h : unpause s = .ok s') :
    s.paused = true ∧ s' = emit { s with paused := false } .unpaused := by
  unfold unpause at h
  obtain ⟨_, h1, h⟩ := bind_eq_ok h
  injection h with h
  exact ⟨check_ok h1, h.symm⟩

/-! ### administration of the compliance contract -/

theorem addModule_ok {s s' : State} {h : Hook} {m : Nat} (hh : addModule s h m = .ok s') :
    m ∉ s.mods h ∧ (s.mods h).length < MAX_MODULES ∧
    s' = emit { s with mods := fun k => if k = h then s.mods h ++ [m] else s.mods k } (.moduleAdded h m) := by
  unfold addModule at hh
  obtain ⟨_, h1, hh⟩ := bind_eq_ok hh
  obtain ⟨_, h2, hh⟩ := bind_eq_ok hh
  injection hh with hh
  have g2 := check_ok h2
  exact ⟨check_ok h1, by omega, hh.symm⟩

theorem removeModule_ok {s s' : State} {h : Hook} {m : Nat} (hh : removeModule s h m = .ok s') :
    m ∈ s.mods h ∧
    s' = emit { s with mods := fun k => if k = h then (s.mods h).erase m else s.mods k } (.moduleRemoved h m) := by
  unfold removeModule at hh
  obtain ⟨_, h1, hh⟩ := bind_eq_ok hh
  injection hh with hh
  exact ⟨check_ok h1, hh.symm⟩

theorem bindToken_ok {s s' : State} (h : bindToken s = .ok s') :
    s.bound = false ∧ s' = { s with bound := true } := by
  unfold bindToken at h
  obtain ⟨_, h1, h⟩ := bind_eq_ok h
  injection h with h
  exact ⟨check_ok h1, h.symm⟩

theorem unbindToken_ok {s s' : State} (h : unbindToken s = .ok s') :
    s.bound = true ∧ s' = { s with bound := false } := by
  unfold unbindToken at h
  obtain ⟨_, h1, h⟩ := bind_eq_ok h
  injection h with h
  exact ⟨check_ok h1, h.symm⟩

/-! ### recovery -/

theorem refreeze_ok {s s' : State} {new : Nat} {ft : Int} (h : refreeze s new ft = .ok s') :
    s'.base = s.base ∧ s'.addrFrozen = s.addrFrozen ∧ s'.paused = s.paused ∧ s'.notes = s.notes ∧
    SameEnv s s' ∧
    (∀ x, s'.frozen x = if ft > 0 then (if x = new then s.frozen new + ft else s.frozen x) else s.frozen x) ∧
    replay s'.events = replay s.events ∧ s'.modCalls = s.modCalls := by
  unfold refreeze at h
  split at h
  · rename_i hpos
    obtain ⟨-, -, e1, e2, e3, e4, e5, e6, e7, e8⟩ := freezePartial_ok h
    refine ⟨e1, e2, e3, e4, e5, ?_, e7, e8⟩
    intro x; rw [if_pos hpos]; exact e6 x
  · rename_i hneg
    injection h with h; subst h
    refine ⟨rfl, rfl, rfl, rfl, SameEnv.refl _, ?_, rfl, rfl⟩
    intro x; rw [if_neg hneg]

/-- field-by-field description of a successful `recover_balance` that returned `true` -/
structure RecoverPost (s s' : State) (old new : Nat) : Prop where
  update : Fungible.update s.base (some old) (some new) (s.base.bal old) = .ok s'.base
  frozen : ∀ x, s'.frozen x =
    if s.frozen old > 0 then
      (if x = new then (if new = old then frozenAfter s old (s.base.bal old) else s.frozen new) + s.frozen old
       else if x = old then frozenAfter s old (s.base.bal old) else s.frozen x)
    else (if x = old then frozenAfter s old (s.base.bal old) else s.frozen x)
  addrFrozen : ∀ x, s'.addrFrozen x = if x = new then (s.addrFrozen new || s.addrFrozen old) else s.addrFrozen x
  paused : s'.paused = s.paused
  notes : s'.notes = s.notes ++ [.transferred old new (s.base.bal old)]
  env : SameEnv s s'
  replay : replay s'.events = Fungible.replayEvent (replay s.events) (.transfer old new (s.base.bal old))
  bound : s.bound = true
  modCalls : s'.modCalls = s.modCalls ++ callsTo (s.mods .transferred) (.onTransfer old new (s.base.bal old))

theorem recoverMove_ok {s s' : State} {old new : Nat} (h : recoverMove s old new = .ok s') :
    RecoverPost s s' old new := by
  unfold recoverMove at h
  obtain ⟨s1, h1, h⟩ := bind_eq_ok h
  obtain ⟨s2, h2, h⟩ := bind_eq_ok h
  injection h with h; subst h
  have fp := forcedTransfer_ok h1
  obtain ⟨e1, e2, e3, e4, e5, e6, e7, e8⟩ := refreeze_ok h2
  refine ⟨?_, ?_, ?_, ?_, ?_, ?_, ?_, fp.bound, ?_⟩
  · show Fungible.update s.base (some old) (some new) (s.base.bal old) = .ok (refreezeAddr s2 new (s.addrFrozen old)).base
    have : (refreezeAddr s2 new (s.addrFrozen old)).base = s1.base := by
      unfold refreezeAddr; split <;> simp [setAddressFrozen, emit, e1]
    rw [this]; exact fp.update
  · intro x
    show (refreezeAddr s2 new (s.addrFrozen old)).frozen x = _
    have : (refreezeAddr s2 new (s.addrFrozen old)).frozen = s2.frozen := by
      unfold refreezeAddr; split <;> simp [setAddressFrozen, emit]
    rw [this, e6 x]
    by_cases hpos : s.frozen old > 0
    · rw [if_pos hpos, if_pos hpos, fp.frozen new, fp.frozen x]
    · rw [if_neg hpos, if_neg hpos, fp.frozen x]
  · intro x
    show (refreezeAddr s2 new (s.addrFrozen old)).addrFrozen x = _
    unfold refreezeAddr
    cases hb : s.addrFrozen old
    · simp only [Bool.false_eq_true, if_false, Bool.or_false]
      rw [e2, fp.addrFrozen]
      split
      · rename_i hx; rw [hx]
      · rfl
    · simp only [if_true, Bool.or_true, setAddressFrozen, emit, upd_apply]
      split
      · rfl
      · rw [e2, fp.addrFrozen]
  · show (refreezeAddr s2 new (s.addrFrozen old)).paused = _
    have : (refreezeAddr s2 new (s.addrFrozen old)).paused = s2.paused := by
      unfold refreezeAddr; split <;> simp [setAddressFrozen, emit]
    rw [this, e3, fp.paused]
  · show (refreezeAddr s2 new (s.addrFrozen old)).notes = _
    have : (refreezeAddr s2 new (s.addrFrozen old)).notes = s2.notes := by
      unfold refreezeAddr; split <;> simp [setAddressFrozen, emit]
    rw [this, e4, fp.notes]
  · have he : SameEnv s2 (emit (refreezeAddr s2 new (s.addrFrozen old)) (.recoverySuccess old new)) := by
      unfold refreezeAddr; split <;> exact ⟨rfl, rfl, rfl, rfl, rfl, rfl, rfl⟩
    exact (fp.env.trans e5).trans he
  · have : replay (emit (refreezeAddr s2 new (s.addrFrozen old)) (.recoverySuccess old new)).events
        = replay s2.events := by
      unfold refreezeAddr
      split
      · simp only [emit, setAddressFrozen]; rw [replay_snoc, replay_snoc]; rfl
      · simp only [emit]; rw [replay_snoc]; rfl
    rw [this, e7, fp.replay]
  · have : (emit (refreezeAddr s2 new (s.addrFrozen old)) (.recoverySuccess old new)).modCalls
        = s2.modCalls := by
      unfold refreezeAddr; split <;> rfl
    rw [this, e8, fp.modCalls]

/-- a successful `recover_balance`: the new account is verified and is the registered target;
either nothing to recover (`false`, only the mocks' call logs grow) or everything moved -/
theorem recoverBalance_ok {s s' : State} {old new : Nat} {r : Bool}
    (h : recoverBalance s old new = .ok (s', r)) :
    s.idOk new = true ∧ s.recTarget old = some new ∧
    ((r = false ∧ s.base.bal old = 0 ∧ s' = logId (logId s (.verify new)) (.target old)) ∨
     (r = true ∧ s.base.bal old ≠ 0 ∧ RecoverPost s s' old new)) := by
  unfold recoverBalance at h
  obtain ⟨s1, h1, h⟩ := bind_eq_ok h
  obtain ⟨s2, h2, h⟩ := bind_eq_ok h
  obtain ⟨g1, e1⟩ := verifyIdentity_ok h1
  subst e1
  obtain ⟨g2, e2⟩ := checkTarget_ok h2
  subst e2
  refine ⟨g1, g2, ?_⟩
  unfold recoverRest at h
  split at h
  · rename_i hz
    injection h with h
    injection h with ha hb
    exact Or.inl ⟨hb.symm, hz, ha.symm⟩
  · rename_i hnz
    split at h
    · rename_i s3 h3
      injection h with h
      injection h with ha hb
      subst ha
      have p := recoverMove_ok h3
      exact Or.inr ⟨hb.symm, hnz, ⟨p.update, p.frozen, p.addrFrozen, p.paused, p.notes,
        ⟨p.env.admin, p.env.idOk, p.env.recTarget, p.env.bound, p.env.mods, p.env.modCanTransfer, p.env.modCanCreate⟩, p.replay,
        p.bound, p.modCalls⟩⟩
    · cases h

/-! ### the state machine, by operation -/

theorem apply_eq_ok {c : Cfg} {s s' : State} {auth : List Nat} {op : Op} (h : apply c s auth op = .ok s') :
    ∃ r, applyRet c s auth op = .ok (s', r) := by
  unfold apply at h
  split at h
  · rename_i r hr; injection h with h; subst h; exact ⟨r.2, hr⟩
  · cases h

/-- `do opAuth ..; let s ← body; pure (s, true)` -/
theorem guarded_ok {s s' : State} {auth : List Nat} {op : Nat} {body : Except Err State} {r : Bool}
    (h : (do opAuth s auth op; let s ← body; pure (s, true) : Except Err (State × Bool)) = .ok (s', r)) :
    (op ∈ auth ∧ op = s.admin) ∧ body = .ok s' := by
  obtain ⟨_, h0, h⟩ := bind_eq_ok h
  obtain ⟨s1, h1, h⟩ := bind_eq_ok h
  injection h with h
  injection h with ha hb
  subst ha
  exact ⟨opAuth_ok h0, h1⟩

theorem plain_ok {s' : State} {body : Except Err State} {r : Bool}
    (h : (do let s ← body; pure (s, true) : Except Err (State × Bool)) = .ok (s', r)) : body = .ok s' := by
  obtain ⟨s1, h1, h⟩ := bind_eq_ok h
  injection h with h
  injection h with ha hb
  subst ha
  exact h1

theorem apply_transfer {c : Cfg} {s s' : State} {auth : List Nat} {f t : Nat} {a : Int}
    (h : apply c s auth (.transfer f t a) = .ok s') : transfer s auth f t a = .ok s' := by
  obtain ⟨r, h⟩ := apply_eq_ok h; exact plain_ok h

theorem apply_transferFrom {c : Cfg} {s s' : State} {auth : List Nat} {sp f t : Nat} {a : Int}
    (h : apply c s auth (.transferFrom sp f t a) = .ok s') : transferFrom c s auth sp f t a = .ok s' := by
  obtain ⟨r, h⟩ := apply_eq_ok h; exact plain_ok h

theorem apply_approve {c : Cfg} {s s' : State} {auth : List Nat} {o sp : Nat} {a : Int} {lu : Nat}
    (h : apply c s auth (.approve o sp a lu) = .ok s') : approve c s auth o sp a lu = .ok s' := by
  obtain ⟨r, h⟩ := apply_eq_ok h; exact plain_ok h

theorem apply_mint {c : Cfg} {s s' : State} {auth : List Nat} {t op : Nat} {a : Int}
    (h : apply c s auth (.mint t a op) = .ok s') : (op ∈ auth ∧ op = s.admin) ∧ mint s t a = .ok s' := by
  obtain ⟨r, h⟩ := apply_eq_ok h; exact guarded_ok h

theorem apply_burn {c : Cfg} {s s' : State} {auth : List Nat} {x op : Nat} {a : Int}
    (h : apply c s auth (.burn x a op) = .ok s') : (op ∈ auth ∧ op = s.admin) ∧ burn s x a = .ok s' := by
  obtain ⟨r, h⟩ := apply_eq_ok h; exact guarded_ok h

theorem apply_forcedTransfer {c : Cfg} {s s' : State} {auth : List Nat} {f t op : Nat} {a : Int}
    (h : apply c s auth (.forcedTransfer f t a op) = .ok s') :
    (op ∈ auth ∧ op = s.admin) ∧ forcedTransfer s f t a = .ok s' := by
  obtain ⟨r, h⟩ := apply_eq_ok h; exact guarded_ok h

theorem apply_freezePartial {c : Cfg} {s s' : State} {auth : List Nat} {x op : Nat} {a : Int}
    (h : apply c s auth (.freezePartial x a op) = .ok s') :
    (op ∈ auth ∧ op = s.admin) ∧ freezePartial s x a = .ok s' := by
  obtain ⟨r, h⟩ := apply_eq_ok h; exact guarded_ok h

theorem apply_unfreezePartial {c : Cfg} {s s' : State} {auth : List Nat} {x op : Nat} {a : Int}
    (h : apply c s auth (.unfreezePartial x a op) = .ok s') :
    (op ∈ auth ∧ op = s.admin) ∧ unfreezePartial s x a = .ok s' := by
  obtain ⟨r, h⟩ := apply_eq_ok h; exact guarded_ok h

theorem apply_pause {c : Cfg} {s s' : State} {auth : List Nat} {op : Nat}
    (h : apply c s auth (.pause op) = .ok s') : (op ∈ auth ∧ op = s.admin) ∧ pause s = .ok s' := by
  obtain ⟨r, h⟩ := apply_eq_ok h; exact guarded_ok h

theorem apply_unpause {c : Cfg} {s s' : State} {auth : List Nat} {op : Nat}
    (h : apply c s auth (.unpause op) = .ok s') : (op ∈ auth ∧ op = s.admin) ∧ unpause s = .ok s' := by
  obtain ⟨r, h⟩ := apply_eq_ok h; exact guarded_ok h

theorem apply_setAddressFrozen {c : Cfg} {s s' : State} {auth : List Nat} {x op : Nat} {b : Bool}
    (h : apply c s auth (.setAddressFrozen x b op) = .ok s') :
    (op ∈ auth ∧ op = s.admin) ∧ s' = setAddressFrozen s x b := by
  obtain ⟨r, h⟩ := apply_eq_ok h
  obtain ⟨_, h0, h⟩ := bind_eq_ok h
  injection h with h
  injection h with ha hb
  exact ⟨opAuth_ok h0, ha.symm⟩

theorem apply_recover {c : Cfg} {s s' : State} {auth : List Nat} {old new op : Nat}
    (h : apply c s auth (.recover old new op) = .ok s') :
    (op ∈ auth ∧ op = s.admin) ∧ ∃ r, recoverBalance s old new = .ok (s', r) := by
  obtain ⟨r, h⟩ := apply_eq_ok h
  obtain ⟨_, h0, h⟩ := bind_eq_ok h
  exact ⟨opAuth_ok h0, r, h⟩

theorem apply_advance {c : Cfg} {s s' : State} {auth : List Nat} {n : Nat}
    (h : apply c s auth (.advance n) = .ok s') :
    s' = { s with base := { s.base with now := s.base.now + n } } := by
  obtain ⟨r, h⟩ := apply_eq_ok h
  injection h with h; injection h with ha hb; exact ha.symm

theorem apply_envIdOk {c : Cfg} {s s' : State} {auth : List Nat} {a : Nat} {ok : Bool}
    (h : apply c s auth (.envIdOk a ok) = .ok s') : s' = { s with idOk := upd s.idOk a ok } := by
  obtain ⟨r, h⟩ := apply_eq_ok h
  injection h with h; injection h with ha hb; exact ha.symm

theorem apply_envRecTarget {c : Cfg} {s s' : State} {auth : List Nat} {a : Nat} {t : Option Nat}
    (h : apply c s auth (.envRecTarget a t) = .ok s') : s' = { s with recTarget := upd s.recTarget a t } := by
  obtain ⟨r, h⟩ := apply_eq_ok h
  injection h with h; injection h with ha hb; exact ha.symm

theorem apply_envModule {c : Cfg} {s s' : State} {auth : List Nat} {m : Nat}
    {ct : Nat → Nat → Int → Bool} {cc : Nat → Int → Bool}
    (h : apply c s auth (.envModule m ct cc) = .ok s') :
    s' = { s with modCanTransfer := upd s.modCanTransfer m ct, modCanCreate := upd s.modCanCreate m cc } := by
  obtain ⟨r, h⟩ := apply_eq_ok h
  injection h with h; injection h with ha hb; exact ha.symm

theorem apply_addModule {c : Cfg} {s s' : State} {auth : List Nat} {hk : Hook} {m op : Nat}
    (h : apply c s auth (.addModule hk m op) = .ok s') :
    (op ∈ auth ∧ op = s.admin) ∧ addModule s hk m = .ok s' := by
  obtain ⟨r, h⟩ := apply_eq_ok h; exact guarded_ok h

theorem apply_removeModule {c : Cfg} {s s' : State} {auth : List Nat} {hk : Hook} {m op : Nat}
    (h : apply c s auth (.removeModule hk m op) = .ok s') :
    (op ∈ auth ∧ op = s.admin) ∧ removeModule s hk m = .ok s' := by
  obtain ⟨r, h⟩ := apply_eq_ok h; exact guarded_ok h

theorem apply_bindToken {c : Cfg} {s s' : State} {auth : List Nat} {op : Nat}
    (h : apply c s auth (.bindToken op) = .ok s') : (op ∈ auth ∧ op = s.admin) ∧ bindToken s = .ok s' := by
  obtain ⟨r, h⟩ := apply_eq_ok h; exact guarded_ok h

theorem apply_unbindToken {c : Cfg} {s s' : State} {auth : List Nat} {op : Nat}
    (h : apply c s auth (.unbindToken op) = .ok s') : (op ∈ auth ∧ op = s.admin) ∧ unbindToken s = .ok s' := by
  obtain ⟨r, h⟩ := apply_eq_ok h; exact guarded_ok h

end OZ.Rwa
