import OZ.Model.Base64Url
/-
Helper lemmas for C18 (base64url): the shift/or/and arithmetic of the coded encoder is
ordinary division arithmetic on bytes, the coded loop consumes the source three bytes at a
time, and the alphabet table is Table 2 of RFC 4648. Property theorems are in OZ/Props/C18.
-/
set_option linter.unusedSimpArgs false
namespace OZ.B64

theorem or2 (a b : Nat) (hb : b < 256) : a <<< 16 ||| b <<< 8 = a * 65536 + b * 256 := by
  have hb' : b <<< 8 < 2 ^ 16 := by rw [Nat.shiftLeft_eq]; omega
  rw [← Nat.shiftLeft_add_eq_or_of_lt hb', Nat.shiftLeft_eq, Nat.shiftLeft_eq]

theorem or3 (a b c : Nat) (hb : b < 256) (hc : c < 256) :
    a <<< 16 ||| b <<< 8 ||| c = a * 65536 + b * 256 + c := by
  rw [or2 a b hb]
  have h : a * 65536 + b * 256 = (a * 256 + b) <<< 8 := by rw [Nat.shiftLeft_eq]; omega
  have hc' : c < 2 ^ 8 := by omega
  rw [h, ← Nat.shiftLeft_add_eq_or_of_lt hc', Nat.shiftLeft_eq]

theorem sel (v sh : Nat) : (v >>> sh) &&& 0x3F = v / 2 ^ sh % 64 := by
  rw [Nat.shiftRight_eq_div_pow]
  exact Nat.and_two_pow_sub_one_eq_mod _ 6

theorem alpha_eq_urlChar_fin : ∀ v : Fin 64, alpha v.val = urlChar v.val := by decide
theorem alpha_eq_urlChar (v : Nat) (h : v < 64) : alpha v = urlChar v := alpha_eq_urlChar_fin ⟨v, h⟩
theorem unChar_urlChar_fin : ∀ v : Fin 64, unChar (urlChar v.val) = v.val := by decide
theorem unChar_urlChar (v : Nat) (h : v < 64) : unChar (urlChar v) = v := unChar_urlChar_fin ⟨v, h⟩

theorem blt (b : Byte) : b.toNat < 256 := UInt8.toNat_lt b

/-- shifting the source by one element shifts every index -/
theorem rd_cons (x : Byte) (src : Bytes) (i : Nat) : rd (x :: src) (i + 1) = rd src i := by
  simp [rd]

theorem val3_cons (x : Byte) (src : Bytes) (i : Nat) : val3 (x :: src) (i + 1) = val3 src i := by
  simp only [val3, show i + 1 + 1 = (i + 1) + 1 from rfl, show i + 1 + 2 = (i + 2) + 1 from rfl, rd_cons]

theorem loop_cons (x : Byte) (src : Bytes) (k i : Nat) : loop (x :: src) k (i + 1) = loop src k i := by
  induction k generalizing i with
  | zero => rfl
  | succ k ih =>
    simp only [loop, val3_cons]
    rw [show i + 1 + 3 = (i + 3) + 1 from rfl, ih]

theorem tailOut_cons (x : Byte) (src : Bytes) (i : Nat) : tailOut (x :: src) (i + 1) = tailOut src i := by
  simp only [tailOut, List.length_cons, Nat.add_sub_add_right, rd_cons]

/-- the four characters of a full group, arithmetically -/
def grp (a b c : Byte) : Bytes :=
  [urlChar (a.toNat / 4), urlChar (a.toNat % 4 * 16 + b.toNat / 16),
   urlChar (b.toNat % 16 * 4 + c.toNat / 64), urlChar (c.toNat % 64)]

theorem pick_eq (v sh : Nat) : pick v sh = urlChar (v / 2 ^ sh % 64) := by
  unfold pick
  rw [sel, alpha_eq_urlChar _ (Nat.mod_lt _ (by decide))]

theorem encode_cons3 (a b c : Byte) (rest : Bytes) :
    encode (a :: b :: c :: rest) = grp a b c ++ encode rest := by
  have hl : (a :: b :: c :: rest).length / 3 * 3 = rest.length / 3 * 3 + 3 := by
    simp only [List.length_cons]; omega
  have hk : (rest.length / 3 * 3 + 3) / 3 = rest.length / 3 * 3 / 3 + 1 := by omega
  unfold encode
  rw [hl, hk]
  simp only [loop]
  rw [show (0:Nat) + 3 = 2 + 1 from rfl, loop_cons, show (2:Nat) = 1 + 1 from rfl, loop_cons, show (1:Nat) = 0 + 1 from rfl, loop_cons]
  rw [show rest.length / 3 * 3 + 3 = (rest.length / 3 * 3 + 2) + 1 from rfl, tailOut_cons,
      show rest.length / 3 * 3 + 2 = (rest.length / 3 * 3 + 1) + 1 from rfl, tailOut_cons, tailOut_cons]
  have hv : val3 (a :: b :: c :: rest) 0 = a.toNat * 65536 + b.toNat * 256 + c.toNat := by
    simp only [val3, rd, List.getD_cons_zero, List.getD_cons_succ, Nat.zero_add]
    exact or3 _ _ _ (blt b) (blt c)
  rw [hv]
  simp only [pick_eq, grp, List.cons_append, List.nil_append]
  have ha := blt a; have hb := blt b; have hc := blt c
  generalize a.toNat = x at *; generalize b.toNat = y at *; generalize c.toNat = z at *
  have e1 : (x * 65536 + y * 256 + z) / 2 ^ 18 % 64 = x / 4 := by omega
  have e2 : (x * 65536 + y * 256 + z) / 2 ^ 12 % 64 = x % 4 * 16 + y / 16 := by omega
  have e3 : (x * 65536 + y * 256 + z) / 2 ^ 6 % 64 = y % 16 * 4 + z / 64 := by omega
  have e4 : (x * 65536 + y * 256 + z) / 2 ^ 0 % 64 = z % 64 := by omega
  rw [e1, e2, e3, e4]

theorem bit_le (n k : Nat) : n / k % 2 ≤ 1 := by omega

theorem rfc_cons3 (a b c : Byte) (rest : Bytes) :
    rfc4648 (a :: b :: c :: rest) = grp a b c ++ rfc4648 rest := by
  simp only [rfc4648, bitsOf, byteBits, List.cons_append, List.nil_append, sextets, List.map_cons, grp, val6]
  have ha := blt a; have hb := blt b; have hc := blt c
  generalize a.toNat = x at *; generalize b.toNat = y at *; generalize c.toNat = z at *
  have e1 : 32 * (x / 128 % 2) + 16 * (x / 64 % 2) + 8 * (x / 32 % 2) + 4 * (x / 16 % 2) + 2 * (x / 8 % 2) + x / 4 % 2 = x / 4 := by omega
  have e2 : 32 * (x / 2 % 2) + 16 * (x % 2) + 8 * (y / 128 % 2) + 4 * (y / 64 % 2) + 2 * (y / 32 % 2) + y / 16 % 2 = x % 4 * 16 + y / 16 := by omega
  have e3 : 32 * (y / 8 % 2) + 16 * (y / 4 % 2) + 8 * (y / 2 % 2) + 4 * (y % 2) + 2 * (z / 128 % 2) + z / 64 % 2 = y % 16 * 4 + z / 64 := by omega
  have e4 : 32 * (z / 32 % 2) + 16 * (z / 16 % 2) + 8 * (z / 8 % 2) + 4 * (z / 4 % 2) + 2 * (z / 2 % 2) + z % 2 = z % 64 := by omega
  rw [e1, e2, e3, e4]

theorem encode_nil : encode [] = [] := rfl

theorem encode_one (a : Byte) : encode [a] = [urlChar (a.toNat / 4), urlChar (a.toNat % 4 * 16)] := by
  have hv : rd [a] 0 <<< 16 = a.toNat * 65536 := by simp [rd, Nat.shiftLeft_eq]
  simp only [encode, List.length_cons, List.length_nil, loop, tailOut, List.nil_append]
  simp only [show (0 + 1) / 3 * 3 = 0 from rfl, Nat.zero_div, show 0 + 1 - 0 = 1 from rfl, show (1 : Nat) = 0 ↔ False from by decide,
    show (1 : Nat) = 2 ↔ False from by decide, if_false, loop, List.nil_append, hv, pick_eq]
  have ha := blt a
  generalize a.toNat = x at *
  have e1 : x * 65536 / 2 ^ 18 % 64 = x / 4 := by omega
  have e2 : x * 65536 / 2 ^ 12 % 64 = x % 4 * 16 := by omega
  rw [e1, e2]

theorem encode_two (a b : Byte) : encode [a, b] =
    [urlChar (a.toNat / 4), urlChar (a.toNat % 4 * 16 + b.toNat / 16), urlChar (b.toNat % 16 * 4)] := by
  have hv : rd [a, b] 0 <<< 16 ||| rd [a, b] (0 + 1) <<< 8 = a.toNat * 65536 + b.toNat * 256 := by
    simp only [rd, List.getD_cons_zero, List.getD_cons_succ]
    exact or2 _ _ (blt b)
  simp only [encode, List.length_cons, List.length_nil, tailOut]
  simp only [show (0 + 1 + 1) / 3 * 3 = 0 from rfl, Nat.zero_div, show 0 + 1 + 1 - 0 = 2 from rfl, show (2 : Nat) = 0 ↔ False from by decide,
    if_false, if_true, loop, List.nil_append, hv, pick_eq]
  have ha := blt a; have hb := blt b
  generalize a.toNat = x at *; generalize b.toNat = y at *
  have e1 : (x * 65536 + y * 256) / 2 ^ 18 % 64 = x / 4 := by omega
  have e2 : (x * 65536 + y * 256) / 2 ^ 12 % 64 = x % 4 * 16 + y / 16 := by omega
  have e3 : (x * 65536 + y * 256) / 2 ^ 6 % 64 = y % 16 * 4 := by omega
  rw [e1, e2, e3]

theorem rfc_one (a : Byte) : rfc4648 [a] = [urlChar (a.toNat / 4), urlChar (a.toNat % 4 * 16)] := by
  simp only [rfc4648, bitsOf, byteBits, List.cons_append, List.nil_append, List.append_nil, sextets, List.map_cons, List.map_nil, val6]
  have ha := blt a
  generalize a.toNat = x at *
  have e1 : 32 * (x / 128 % 2) + 16 * (x / 64 % 2) + 8 * (x / 32 % 2) + 4 * (x / 16 % 2) + 2 * (x / 8 % 2) + x / 4 % 2 = x / 4 := by omega
  have e2 : 32 * (x / 2 % 2) + 16 * (x % 2) + 8 * 0 + 4 * 0 + 2 * 0 + 0 = x % 4 * 16 := by omega
  rw [e1, e2]

theorem rfc_two (a b : Byte) : rfc4648 [a, b] =
    [urlChar (a.toNat / 4), urlChar (a.toNat % 4 * 16 + b.toNat / 16), urlChar (b.toNat % 16 * 4)] := by
  simp only [rfc4648, bitsOf, byteBits, List.cons_append, List.nil_append, List.append_nil, sextets, List.map_cons, List.map_nil, val6]
  have ha := blt a; have hb := blt b
  generalize a.toNat = x at *; generalize b.toNat = y at *
  have e1 : 32 * (x / 128 % 2) + 16 * (x / 64 % 2) + 8 * (x / 32 % 2) + 4 * (x / 16 % 2) + 2 * (x / 8 % 2) + x / 4 % 2 = x / 4 := by omega
  have e2 : 32 * (x / 2 % 2) + 16 * (x % 2) + 8 * (y / 128 % 2) + 4 * (y / 64 % 2) + 2 * (y / 32 % 2) + y / 16 % 2 = x % 4 * 16 + y / 16 := by omega
  have e3 : 32 * (y / 8 % 2) + 16 * (y / 4 % 2) + 8 * (y / 2 % 2) + 4 * (y % 2) + 2 * 0 + 0 = y % 16 * 4 := by omega
  rw [e1, e2, e3]

/-- induction over 3-byte groups -/
theorem ind3 {α : Type} (P : List α → Prop) (h0 : P []) (h1 : ∀ a, P [a]) (h2 : ∀ a b, P [a, b])
    (h3 : ∀ a b c rest, P rest → P (a :: b :: c :: rest)) : ∀ l, P l
  | [] => h0
  | [a] => h1 a
  | [a, b] => h2 a b
  | a :: b :: c :: rest => h3 a b c rest (ind3 P h0 h1 h2 h3 rest)

theorem encode_eq_rfc (src : Bytes) : encode src = rfc4648 src := by
  induction src using ind3 with
  | h0 => rfl
  | h1 a => rw [encode_one, rfc_one]
  | h2 a b => rw [encode_two, rfc_two]
  | h3 a b c rest ih => rw [encode_cons3, rfc_cons3, ih]

theorem ofNat_toNat_mod (a : Byte) (n : Nat) (h : n = a.toNat) : UInt8.ofNat (n % 256) = a := by
  subst h
  rw [Nat.mod_eq_of_lt (blt a)]
  exact UInt8.ofNat_toNat

theorem decode_grp (a b c : Byte) (rest : Bytes) : decode (grp a b c ++ rest) = a :: b :: c :: decode rest := by
  have ha := blt a; have hb := blt b; have hc := blt c
  simp only [grp, List.cons_append, List.nil_append, decode]
  rw [unChar_urlChar _ (by omega), unChar_urlChar _ (by omega), unChar_urlChar _ (by omega), unChar_urlChar _ (by omega)]
  rw [ofNat_toNat_mod a _ (by omega), ofNat_toNat_mod b _ (by omega), ofNat_toNat_mod c _ (by omega)]

theorem decode_encode (src : Bytes) : decode (encode src) = src := by
  induction src using ind3 with
  | h0 => rfl
  | h1 a =>
    have ha := blt a
    rw [encode_one]; simp only [decode]
    rw [unChar_urlChar _ (by omega), unChar_urlChar _ (by omega), ofNat_toNat_mod a _ (by omega)]
  | h2 a b =>
    have ha := blt a; have hb := blt b
    rw [encode_two]; simp only [decode]
    rw [unChar_urlChar _ (by omega), unChar_urlChar _ (by omega), unChar_urlChar _ (by omega),
      ofNat_toNat_mod a _ (by omega), ofNat_toNat_mod b _ (by omega)]
  | h3 a b c rest ih => rw [encode_cons3, decode_grp, ih]

theorem encode_length (src : Bytes) : (encode src).length = (4 * src.length + 2) / 3 := by
  induction src using ind3 with
  | h0 => rfl
  | h1 a => rw [encode_one]; simp only [List.length_cons, List.length_nil]
  | h2 a b => rw [encode_two]; simp only [List.length_cons, List.length_nil]
  | h3 a b c rest ih =>
    rw [encode_cons3, List.length_append, ih]
    simp only [grp, List.length_cons, List.length_nil]; omega
end OZ.B64
