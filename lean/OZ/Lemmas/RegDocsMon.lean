import OZ.Lemmas.RegDocs
import OZ.Lemmas.RegMon2
import OZ.Model.RegDocsMon
/-
Helper facts for the soundness proof of the `docs` monitor of C20 (OZ/Props/C20eMon.lean): the
link between the monitor's plain map and the flat entry list the buckets represent, the plain map's
accept / refuse decision against the model's (one op, and the fold over a command's ops), and each
getter check on the model's answers.
-/
namespace OZ.RegDocs.Mon
open OZ.Reg OZ.RegMon OZ.RegDocs

/-- the monitor's plain map has the entries of the flat list `l` the buckets represent -/
structure AgreeL (g : Mon) (s : State) (l : List Entry) : Prop where
  rep : Rep s l
  gnames : (names g).Nodup
  mem : ∀ e, e ∈ g.map ↔ e ∈ l

/-- the monitor's plain map describes the model state -/
structure Agree (g : Mon) (s : State) (u : Nat) : Prop where
  u : g.u = u
  list : ∃ l, AgreeL g s l

/-- entries with the same name are equal -/
theorem same_name_eq {l : List Entry} (hn : (l.map (·.1)).Nodup) {n : Nat} {d1 d2 : Doc}
    (h1 : (n, d1) ∈ l) (h2 : (n, d2) ∈ l) : d1 = d2 := by
  obtain ⟨i, hi⟩ := List.mem_iff_getElem?.1 h1
  obtain ⟨j, hj⟩ := List.mem_iff_getElem?.1 h2
  have := name_index_unique hn hi hj
  subst this
  rw [hi] at hj
  injection hj with hj; injection hj

theorem AgreeL.perm {g : Mon} {s : State} {l : List Entry} (h : AgreeL g s l) : g.map.Perm l :=
  perm_of_nodup_mem (entries_nodup h.gnames) (entries_nodup h.rep.names) h.mem

theorem AgreeL.len {g : Mon} {s : State} {l : List Entry} (h : AgreeL g s l) : g.map.length = l.length :=
  h.perm.length_eq

theorem AgreeL.mem_names {g : Mon} {s : State} {l : List Entry} (h : AgreeL g s l) (n : Nat) :
    n ∈ names g ↔ n ∈ l.map (·.1) := (h.perm.map (·.1)).mem_iff

/-- the plain map answers `get_document` -/
theorem AgreeL.lookup_eq {g : Mon} {s : State} {l : List Entry} (h : AgreeL g s l) (n : Nat) :
    lookup g n = getDocument s n := by
  unfold lookup
  cases hf : g.map.find? (fun e => e.1 == n) with
  | some e =>
    have h1 := List.mem_of_find?_eq_some hf
    have h2 : e.1 = n := by simpa using List.find?_some hf
    have : (n, e.2) ∈ l := by rw [← h2]; exact (h.mem e).1 h1
    exact ((rep_getDocument h.rep n e.2).2 this).symm
  | none =>
    symm
    rw [Option.map_none, rep_getDocument_none h.rep]
    intro hm
    obtain ⟨e, he, hn⟩ := List.mem_map.1 hm
    have := List.find?_eq_none.1 hf e ((h.mem e).2 he)
    simp [hn] at this

theorem AgreeL.lookup_isSome {g : Mon} {s : State} {l : List Entry} (h : AgreeL g s l) (n : Nat) :
    (lookup g n).isSome = true ↔ n ∈ l.map (·.1) := by
  rw [h.lookup_eq]
  cases hg : getDocument s n with
  | none => simp [(rep_getDocument_none h.rep n).1 hg]
  | some d =>
    simp only [Option.isSome_some, true_iff]
    exact List.mem_map.2 ⟨(n, d), (rep_getDocument h.rep n d).1 hg, rfl⟩

/-- an op the model accepts is accepted by the plain map, which then describes the new state -/
theorem plainOne_ok {g : Mon} {s s' : State} {l : List Entry} (ha : AgreeL g s l) {op : Op}
    (hs : step s op = .ok s') : ∃ g' l', plainOne g op = .ok g' ∧ g'.u = g.u ∧ AgreeL g' s' l' := by
  have h := ha.rep
  cases op with
  | set n u hsh ts =>
    have hs1 : setDocument s n u hsh ts = .ok s' := hs
    by_cases hgood : u ≤ MAX_URI_LEN ∧ (n ∈ l.map (·.1) ∨ l.length < MAX_DOCUMENTS)
    · obtain ⟨s'', l', hs'', hr, hmem, hlen⟩ := (setDocument_spec h n u hsh ts).1 hgood.1 hgood.2
      rw [hs1] at hs''; injection hs'' with hs''; subst hs''
      have hu : ¬ u > 200 := by have := hgood.1; unfold MAX_URI_LEN at this; omega
      by_cases hin : n ∈ l.map (·.1)
      · -- update in place
        have hsome : (lookup g n).isSome = true := (ha.lookup_isSome n).2 hin
        have hfst : ∀ e : Nat × Doc, (if (e.1 == n) = true then (n, (⟨u, hsh, ts⟩ : Doc)) else e).1 = e.1 := by
          intro e; by_cases he : e.1 = n <;> simp [he]
        refine ⟨{ g with map := g.map.map (fun e => if e.1 == n then (n, ⟨u, hsh, ts⟩) else e) }, l', ?_, rfl, hr, ?_, ?_⟩
        · simp only [plainOne]; rw [if_neg hu, if_pos hsome]
        · show ((g.map.map (fun e => if e.1 == n then (n, (⟨u, hsh, ts⟩ : Doc)) else e)).map (·.1)).Nodup
          rw [List.map_map]
          have : ((fun x : Nat × Doc => x.1) ∘ fun e => if (e.1 == n) = true then (n, (⟨u, hsh, ts⟩ : Doc)) else e) = (·.1) := by
            funext e; exact hfst e
          rw [this]; exact ha.gnames
        · rintro ⟨x, d⟩
          rw [hmem]
          show (x, d) ∈ g.map.map _ ↔ _
          rw [List.mem_map]
          obtain ⟨⟨n0, d0⟩, he0, hn0⟩ := List.mem_map.1 ((ha.mem_names n).2 hin)
          simp only at hn0; subst hn0
          constructor
          · rintro ⟨e, he, hfe⟩
            by_cases hen : e.1 = n0
            · rw [if_pos (by simpa using hen)] at hfe
              injection hfe with h1 h2
              exact Or.inr ⟨h1.symm, h2.symm⟩
            · rw [if_neg (by simpa using hen)] at hfe
              subst hfe
              exact Or.inl ⟨hen, (ha.mem _).1 he⟩
          · rintro (⟨hx, hm⟩ | ⟨rfl, rfl⟩)
            · exact ⟨(x, d), (ha.mem _).2 hm, if_neg (by simpa using hx)⟩
            · exact ⟨(x, d0), he0, if_pos (by simp)⟩
      · -- a new name
        have hnone : ¬ (lookup g n).isSome = true := fun hc => hin ((ha.lookup_isSome n).1 hc)
        have hl : l.length < MAX_DOCUMENTS := hgood.2.elim (fun h' => absurd h' hin) id
        have hl' : ¬ g.map.length ≥ 5000 := by rw [ha.len]; unfold MAX_DOCUMENTS at hl; omega
        refine ⟨{ g with map := g.map ++ [(n, ⟨u, hsh, ts⟩)] }, l', ?_, rfl, hr, ?_, ?_⟩
        · simp only [plainOne]; rw [if_neg hu, if_neg hnone, if_neg hl']
        · show ((g.map ++ [(n, (⟨u, hsh, ts⟩ : Doc))]).map (·.1)).Nodup
          rw [List.map_append]
          exact nodup_append_singleton ha.gnames (fun hc => hin ((ha.mem_names n).1 hc))
        · rintro ⟨x, d⟩
          rw [hmem]
          show (x, d) ∈ g.map ++ [(n, (⟨u, hsh, ts⟩ : Doc))] ↔ _
          rw [List.mem_append, List.mem_singleton, ha.mem]
          constructor
          · rintro (hm | he)
            · refine Or.inl ⟨?_, hm⟩
              intro hx; subst hx; exact hin (List.mem_map.2 ⟨_, hm, rfl⟩)
            · injection he with h1 h2; exact Or.inr ⟨h1, h2⟩
          · rintro (⟨_, hm⟩ | ⟨rfl, rfl⟩)
            · exact Or.inl hm
            · exact Or.inr rfl
    · exfalso
      have hbad : u > MAX_URI_LEN ∨ (n ∉ l.map (·.1) ∧ l.length ≥ MAX_DOCUMENTS) := by
        by_cases hu : u ≤ MAX_URI_LEN
        · right
          exact ⟨fun hm => hgood ⟨hu, Or.inl hm⟩, Nat.le_of_not_lt (fun hl => hgood ⟨hu, Or.inr hl⟩)⟩
        · left; omega
      obtain ⟨e, he⟩ := (setDocument_spec h n u hsh ts).2 hbad
      rw [hs1] at he; cases he
  | remove n =>
    have hs1 : removeDocument s n = .ok s' := hs
    by_cases hm : n ∈ l.map (·.1)
    · obtain ⟨s'', idx, d, hs'', hget, hr⟩ := (removeDocument_spec h n).1 hm
      rw [hs1] at hs''; injection hs'' with hs''; subst hs''
      have hsome : (lookup g n).isSome = true := (ha.lookup_isSome n).2 hm
      refine ⟨{ g with map := g.map.filter (fun e => e.1 ≠ n) }, swapPop l idx, ?_, rfl, hr, ?_, ?_⟩
      · simp only [plainOne]; rw [if_pos hsome]
      · exact (List.filter_sublist.map _).nodup ha.gnames
      · intro x
        show x ∈ g.map.filter (fun e => e.1 ≠ n) ↔ _
        rw [List.mem_filter, mem_swapPop l (entries_nodup h.names) idx (n, d) hget x, ha.mem]
        simp only [ne_eq, decide_eq_true_eq]
        constructor
        · rintro ⟨h1, h2⟩; exact ⟨h1, fun hx => h2 (by rw [hx])⟩
        · rintro ⟨h1, h2⟩
          refine ⟨h1, fun hx => h2 ?_⟩
          obtain ⟨x1, x2⟩ := x
          simp only at hx; subst hx
          rw [same_name_eq h.names h1 (List.mem_of_getElem? hget)]
    · obtain ⟨e, he⟩ := (removeDocument_spec h n).2 hm
      rw [hs1] at he; cases he

/-- an op the model refuses is refused by the plain map -/
theorem plainOne_err {g : Mon} {s : State} {l : List Entry} (ha : AgreeL g s l) {op : Op} {e : RErr}
    (hs : step s op = .error e) : ∃ w, plainOne g op = .error w := by
  have h := ha.rep
  cases op with
  | set n u hsh ts =>
    have hs1 : setDocument s n u hsh ts = .error e := hs
    simp only [plainOne]
    by_cases hu : u > 200
    · rw [if_pos hu]; exact ⟨_, rfl⟩
    rw [if_neg hu]
    by_cases hin : n ∈ l.map (·.1)
    · exfalso
      obtain ⟨s'', l', hs'', -⟩ := (setDocument_spec h n u hsh ts).1 (by unfold MAX_URI_LEN; omega) (Or.inl hin)
      rw [hs1] at hs''; cases hs''
    · rw [if_neg (fun hc => hin ((ha.lookup_isSome n).1 hc))]
      by_cases hl : g.map.length ≥ 5000
      · rw [if_pos hl]; exact ⟨_, rfl⟩
      · exfalso
        obtain ⟨s'', l', hs'', -⟩ := (setDocument_spec h n u hsh ts).1 (by unfold MAX_URI_LEN; omega)
          (Or.inr (by rw [ha.len] at hl; unfold MAX_DOCUMENTS; omega))
        rw [hs1] at hs''; cases hs''
  | remove n =>
    have hs1 : removeDocument s n = .error e := hs
    simp only [plainOne]
    by_cases hm : n ∈ l.map (·.1)
    · exfalso
      obtain ⟨s'', idx, d, hs'', -⟩ := (removeDocument_spec h n).1 hm
      rw [hs1] at hs''; cases hs''
    · rw [if_neg (fun hc => hm ((ha.lookup_isSome n).1 hc))]; exact ⟨_, rfl⟩

/-- the model side of a command: the accepted ops are committed one by one -/
def mstep (acc : State × Bool) (op : Op) : State × Bool :=
  match step acc.1 op with
  | .ok s2 => (s2, acc.2)
  | .error _ => (acc.1, false)

/-- folding a command's ops: the plain map keeps describing the model state and both sides agree on
"all accepted" -/
theorem fold_agree (ops : List Op) : ∀ (g : Mon) (s : State) (u : Nat) (b : Bool) (w : String) (nl : Bool),
    Agree g s u →
    Agree (ops.foldl foldStep (g, b, w, nl)).1 (ops.foldl mstep (s, b)).1 u ∧
    (ops.foldl foldStep (g, b, w, nl)).2.1 = (ops.foldl mstep (s, b)).2 := by
  induction ops with
  | nil => intro g s u b w nl ha; exact ⟨ha, rfl⟩
  | cons op ops ih =>
    intro g s u b w nl ha
    obtain ⟨l, hl⟩ := ha.list
    simp only [List.foldl_cons]
    cases hs : step s op with
    | ok s' =>
      obtain ⟨g', l', hp, hu, ha'⟩ := plainOne_ok hl hs
      have e1 : foldStep (g, b, w, nl) op = (g', b, w, nl || (g.map.length = 4999 ∧ g'.map.length = 5000)) := by
        simp only [foldStep, hp]
      have e2 : mstep (s, b) op = (s', b) := by simp only [mstep, hs]
      rw [e1, e2]
      exact ih g' s' u b w _ ⟨by rw [hu]; exact ha.u, l', ha'⟩
    | error e =>
      obtain ⟨w', hp⟩ := plainOne_err hl hs
      have e1 : foldStep (g, b, w, nl) op = (g, false, (if b then w' else w), nl) := by
        simp only [foldStep, hp]
      have e2 : mstep (s, b) op = (s, false) := by simp only [mstep, hs]
      rw [e1, e2]
      exact ih g s u false _ nl ha

/-! the getter checks on the model's answers -/

/-- the buckets the driver concatenates are the flat list -/
theorem rep_flat {s : State} {l : List Entry} (h : Rep s l) :
    (List.range (nBuckets (getDocumentCount s))).flatMap (getDocuments s) = l := by
  unfold nBuckets getDocumentCount
  rw [h.count]
  have hb : getDocuments s = chunk BUCKET_SIZE l := by funext b; unfold getDocuments; rw [h.buckets]
  rw [hb]
  split
  · rename_i h0; rw [List.length_eq_zero_iff.1 h0]; rfl
  · exact flatMap_chunk BUCKET_SIZE bsize l

theorem gpOk_model {g : Mon} {s : State} {l : List Entry} (ha : AgreeL g s l) (n : Nat) :
    gpOk g (n, getDocument s n) = true := by
  unfold gpOk
  simp only [ha.lookup_eq n]
  exact beq_self_eq_true _

theorem atOk_model {g : Mon} {s : State} {l : List Entry} (ha : AgreeL g s l) (i : Nat) :
    atOk g l.length (i, (getDocumentByIndex s i).map (·.1)) = true := by
  unfold atOk
  simp only
  rw [rep_byIndex ha.rep]
  cases hi : l[i]? with
  | none =>
    have : l.length ≤ i := by simpa using hi
    simp; omega
  | some e =>
    have hlt : i < l.length := by rw [List.getElem?_eq_some_iff] at hi; exact hi.1
    have hc : (lookup g e.1).isSome = true :=
      (ha.lookup_isSome e.1).2 (List.mem_map.2 ⟨e, List.mem_of_getElem? hi, rfl⟩)
    simp [hlt, hc]

theorem fullOk_model {g : Mon} {s : State} {l : List Entry} (ha : AgreeL g s l) :
    fullOk g (l.map (fun e => (e.1, some e.2))) = true := by
  unfold fullOk
  have hm : (l.map (fun e => (e.1, some e.2))).map (·.1) = l.map (·.1) := by
    rw [List.map_map]; rfl
  rw [hm]
  simp only [decide_eq_true_eq]
  refine ⟨(nodupB_iff _).2 ha.rep.names, (sameSet_iff _ _).2 (fun x => (ha.mem_names x).symm), ?_⟩
  rw [List.all_eq_true]
  intro x hx
  obtain ⟨e, he, rfl⟩ := List.mem_map.1 hx
  simp only
  rw [ha.lookup_eq, (rep_getDocument ha.rep e.1 e.2).2 he]
  exact beq_self_eq_true _

theorem bk_model {s : State} {l : List Entry} (h : Rep s l) :
    (List.range (nBuckets l.length + 1)).map (fun b => (getDocuments s b).length) = bkWant l.length := by
  unfold bkWant
  refine List.map_congr_left (fun b _ => ?_)
  unfold getDocuments
  rw [h.buckets, length_chunk]
  rfl

end OZ.RegDocs.Mon
