import OZ.Lemmas.RegMon
/-
More facts about the shared vocabulary of the C20 monitor cores (kept apart from RegMon.lean so that
files depending on that one need not be rebuilt).
-/
namespace OZ.RegMon
open OZ.Reg

theorem firstFail_all_none {l : List (Option String)} (h : ∀ x, x ∈ l → x = none) : firstFail l = none := by
  induction l with
  | nil => rfl
  | cons a as ih =>
    have ha : a = none := h a (List.mem_cons_self ..)
    subst ha
    rw [firstFail_none_cons]
    exact ih (fun x hx => h x (List.mem_cons_of_mem _ hx))

/-- `all` over the printed graph of a getter -/
theorem all_graph {β : Type} (l : List Nat) (f : Nat → β) (p : Nat × β → Bool) (h : ∀ k, k ∈ l → p (k, f k) = true) :
    (l.map (fun k => (k, f k))).all p = true := by
  rw [List.all_eq_true]
  intro x hx
  obtain ⟨k, hk, rfl⟩ := List.mem_map.1 hx
  exact h k hk

/-- a hit when looking a key up in the printed graph of a getter is the getter's answer -/
theorem find_graph_some {β : Type} (l : List Nat) (f : Nat → β) (i : Nat) (x : Nat × β)
    (h : (l.map (fun k => (k, f k))).find? (fun x => x.1 == i) = some x) : x = (i, f i) := by
  have h1 := List.mem_of_find?_eq_some h
  have h2 : x.1 = i := by simpa using List.find?_some h
  obtain ⟨k, _, rfl⟩ := List.mem_map.1 h1
  simp only at h2
  rw [h2]

end OZ.RegMon
