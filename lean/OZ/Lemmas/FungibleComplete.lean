import OZ.Props.C01
import OZ.Lemmas.FungibleAuth
/-
Helper definitions and lemmas for the completeness theorems of the fungible Base model
(OZ/Props/C01Complete.lean): explicit result states of `Base::update`, the exact success
condition of `update` under the supply invariant (using `update_no_overflow` of Props/C01),
success of `spend_allowance`, and the reachable-state fact that every stored
`live_until_ledger` is within the host's maximum (so the re-write of the remaining
allowance can never be refused).
-/
namespace OZ.Fungible
open OZ.Host

/-! ### explicit result of `update` -/

/-- state after the debit half of `update` -/
def debitSt (s : State) (f : Option Nat) (a : Int) : State :=
  match f with
  | some x => { s with bal := upd s.bal x (s.bal x - a) }
  | none => { s with supply := s.supply + a }

/-- state after the credit half of `update` -/
def creditSt (s : State) (t : Option Nat) (a : Int) : State :=
  match t with
  | some y => { s with bal := upd s.bal y (s.bal y + a) }
  | none => { s with supply := s.supply - a }

/-- state after a successful `update` -/
def updateSt (s : State) (f t : Option Nat) (a : Int) : State := creditSt (debitSt s f a) t a

/-- what the debit half demands: enough balance, or (mint) a supply that stays an i128 -/
def debitCond (s : State) (f : Option Nat) (a : Int) : Prop :=
  match f with
  | some x => a ≤ s.bal x
  | none => in128 (s.supply + a)

def mintResult (s : State) (t : Nat) (a : Int) : State :=
  emit (updateSt s none (some t) a) (.mint t a)
def transferResult (s : State) (f t : Nat) (a : Int) : State :=
  emit (updateSt s (some f) (some t) a) (.transfer f t a)
def burnResult (s : State) (f : Nat) (a : Int) : State :=
  emit (updateSt s (some f) none a) (.burn f a)

theorem debit_eq {s s1 : State} {f : Option Nat} {a : Int} (h : debit s f a = .ok s1) :
    s1 = debitSt s f a ∧ debitCond s f a := by
  unfold debit at h
  cases f with
  | some x =>
    simp only at h
    split at h
    · cases h
    · injection h with h; subst h; exact ⟨rfl, by simp only [debitCond]; omega⟩
  | none =>
    simp only at h
    split at h
    · rename_i hin
      injection h with h; subst h; exact ⟨rfl, hin⟩
    · cases h

theorem debit_succeeds {s : State} {f : Option Nat} {a : Int} (h : debitCond s f a) :
    debit s f a = .ok (debitSt s f a) := by
  unfold debit
  cases f with
  | some x =>
    simp only [debitCond] at h
    simp only
    rw [if_neg (by omega)]
    rfl
  | none =>
    simp only [debitCond] at h
    simp only
    rw [if_pos h]
    rfl

theorem credit_eq {s s' : State} {t : Option Nat} {a : Int} (h : credit s t a = .ok s') :
    s' = creditSt s t a := by
  unfold credit at h
  cases t with
  | some y =>
    simp only at h
    split at h
    · injection h with h; subst h; rfl
    · cases h
  | none =>
    simp only at h
    split at h
    · injection h with h; subst h; rfl
    · cases h

/-- the credit half either succeeds or hits the (unchecked) overflow panic, nothing else -/
theorem credit_ok_or_panic (s : State) (t : Option Nat) (a : Int) :
    credit s t a = .ok (creditSt s t a) ∨ credit s t a = .error .overflowPanic := by
  unfold credit
  cases t with
  | some y =>
    simp only
    split
    · exact .inl rfl
    · exact .inr rfl
  | none =>
    simp only
    split
    · exact .inl rfl
    · exact .inr rfl

theorem update_of_debit {s s1 : State} {f t : Option Nat} {a : Int} (h0 : ¬ a < 0)
    (hd : debit s f a = .ok s1) : update s f t a = credit s1 t a := by
  unfold update
  rw [if_neg h0, hd]

/-- a successful `update` produces exactly `updateSt` -/
theorem update_eq {s s' : State} {f t : Option Nat} {a : Int} (h : update s f t a = .ok s') :
    0 ≤ a ∧ debitCond s f a ∧ s' = updateSt s f t a := by
  obtain ⟨h0, s1, hd, hc⟩ := update_ok h
  obtain ⟨e1, hcond⟩ := debit_eq hd
  have e2 := credit_eq hc
  subst e1
  exact ⟨h0, hcond, e2⟩

/-- **exact success condition of `Base::update`** in a state satisfying the supply
invariant: the amount is non-negative and the debit half is covered. The unchecked
additions never get in the way (`update_no_overflow`). -/
theorem update_succeeds_iff {U : List Nat} (hn : U.Nodup) {s : State} (hi : Inv U s)
    (f t : Option Nat) (a : Int) (s' : State) :
    update s f t a = .ok s' ↔ (0 ≤ a ∧ debitCond s f a) ∧ s' = updateSt s f t a := by
  constructor
  · intro h
    obtain ⟨h0, hc, he⟩ := update_eq h
    exact ⟨⟨h0, hc⟩, he⟩
  · intro ⟨⟨h0, hc⟩, he⟩
    subst he
    have hd := debit_succeeds hc
    have hu := update_of_debit (t := t) (by omega : ¬ a < 0) hd
    rcases credit_ok_or_panic (debitSt s f a) t a with hk | hp
    · rw [hu, hk]; rfl
    · rw [hp] at hu
      exact absurd hu (update_no_overflow hn hi f t a)

theorem updateSt_allow (s : State) (f t : Option Nat) (a : Int) : (updateSt s f t a).allow = s.allow := by
  cases f <;> cases t <;> rfl
theorem updateSt_now (s : State) (f t : Option Nat) (a : Int) : (updateSt s f t a).now = s.now := by
  cases f <;> cases t <;> rfl
theorem updateSt_events (s : State) (f t : Option Nat) (a : Int) :
    (updateSt s f t a).events = s.events := by
  cases f <;> cases t <;> rfl

theorem updateSt_bal_congr {s s0 : State} (h : s0.bal = s.bal) (f t : Option Nat) (a : Int) :
    (updateSt s0 f t a).bal = (updateSt s f t a).bal := by
  cases f <;> cases t <;> simp [updateSt, debitSt, creditSt, h]

theorem updateSt_supply_congr {s s0 : State} (h : s0.supply = s.supply) (f t : Option Nat) (a : Int) :
    (updateSt s0 f t a).supply = (updateSt s f t a).supply := by
  cases f <;> cases t <;> simp [updateSt, debitSt, creditSt, h]

/-! ### the stored `live_until_ledger` never exceeds the host's maximum -/

/-- every stored allowance record carries a `live_until_ledger` that `set_allowance` accepts
at the current ledger (it was checked when written and the ledger only moves forward) -/
def AllowLuOk (c : Cfg) (s : State) : Prop :=
  ∀ o sp e, s.allow o sp = some e → e.val.liveUntilLedger ≤ c.maxLiveUntil s.now

theorem allowLuOk_init (c : Cfg) (now : Nat) : AllowLuOk c (init now) := by
  intro o sp e he
  simp [init] at he

theorem AllowLuOk.congr {c : Cfg} {s s' : State} (h : AllowLuOk c s) (ha : s'.allow = s.allow)
    (hn : s.now ≤ s'.now) : AllowLuOk c s' := by
  intro o sp e he
  rw [ha] at he
  have := h o sp e he
  unfold Cfg.maxLiveUntil at *
  omega

theorem allowLuOk_setAllowance {c : Cfg} {s s0 : State} {o sp : Nat} {amt : Int} {lu : Nat}
    (h : AllowLuOk c s) (hs : setAllowance c s o sp amt lu = .ok s0) : AllowLuOk c s0 := by
  obtain ⟨_, hmax, _, e', he', hv', _, _⟩ := setAllowance_entry hs
  obtain ⟨_, _, en, _, hother⟩ := setAllowance_ok hs
  intro x y e he
  by_cases hxy : x = o ∧ y = sp
  · obtain ⟨rfl, rfl⟩ := hxy
    rw [he'] at he; injection he with he; subst he
    rw [hv', en]; exact hmax
  · rw [hother x y hxy] at he
    rw [en]; exact h x y e he

theorem allowLuOk_spend {c : Cfg} {s s0 : State} {o sp : Nat} {amt : Int}
    (h : AllowLuOk c s) (hs : spendAllowance c s o sp amt = .ok s0) : AllowLuOk c s0 := by
  obtain ⟨_, _, hc⟩ := spendAllowance_cases hs
  rcases hc with ⟨_, hset⟩ | ⟨_, rfl⟩
  · exact allowLuOk_setAllowance h hset
  · exact h

/-- one accepted invocation preserves `AllowLuOk` -/
theorem allowLuOk_apply {c : Cfg} {s s' : State} {auth : List Nat} {op : Op}
    (h : AllowLuOk c s) (hok : apply c s auth op = .ok s') : AllowLuOk c s' := by
  rcases op_trichotomy op with ⟨o, sp, amt, lu, rfl⟩ | ⟨f, sp, amt, hs⟩ | ⟨hs, hap⟩
  · obtain ⟨_, s0, h0, ha, hnow, _⟩ := apply_approve hok
    obtain ⟨_, _, en, _, _⟩ := setAllowance_ok h0
    exact (allowLuOk_setAllowance h h0).congr ha (by rw [hnow, en]; exact Nat.le_refl _)
  · obtain ⟨_, s0, h0, ha, hnow, _⟩ := apply_spend hok hs
    obtain ⟨_, _, en, _, _⟩ := spendAllowance_ok h0
    exact (allowLuOk_spend h h0).congr ha (by rw [hnow, en]; exact Nat.le_refl _)
  · obtain ⟨ha, hle, _, _⟩ := apply_other hok hs hap
    exact h.congr ha hle

theorem allowLuOk_run (c : Cfg) (s : State) (ops : List (List Nat × Op)) (h : AllowLuOk c s) :
    AllowLuOk c (run c s ops) := by
  induction ops generalizing s with
  | nil => exact h
  | cons x xs ih =>
    simp only [run, List.foldl_cons]
    apply ih
    unfold step
    cases hx : apply c s x.1 x.2 with
    | error e => exact h
    | ok s' => exact allowLuOk_apply h hx

/-! ### success of `spend_allowance` -/

/-- `spend_allowance` succeeds whenever `0 ≤ amt ≤ allowance` and the stored expiry is
acceptable to `set_allowance` (`AllowLuOk`): re-writing the remainder cannot be refused -/
theorem spendAllowance_succeeds {c : Cfg} {s : State} (hlu : AllowLuOk c s) (o sp : Nat) (amt : Int)
    (h0 : 0 ≤ amt) (hle : amt ≤ allowance s o sp) : ∃ s0, spendAllowance c s o sp amt = .ok s0 := by
  unfold spendAllowance
  rw [if_neg (by omega : ¬ amt < 0)]
  dsimp only
  have hle' : ¬ (allowanceData s o sp).amount < amt := by unfold allowance at hle; omega
  rw [if_neg hle']
  by_cases hp : amt > 0
  · rw [if_pos hp]
    have hne : allowance s o sp ≠ 0 := by omega
    obtain ⟨e, he, hl, hx, hd⟩ := allowance_ne_zero_unexpired hne
    have hmax := hlu o sp e he
    rw [hd]
    apply setAllowance_succeeds
    · unfold allowance at hle; rw [hd] at hle; omega
    · intro hbad
      rcases hbad with hb | ⟨_, hb⟩ <;> omega
  · rw [if_neg hp]
    exact ⟨_, rfl⟩

/-- an `Except` value is `ok` or `error` -/
theorem except_ok_or_error {ε α} (x : Except ε α) : (∃ a, x = .ok a) ∨ (∃ e, x = .error e) := by
  cases x with
  | ok a => exact .inl ⟨a, rfl⟩
  | error e => exact .inr ⟨e, rfl⟩

theorem requireAuth_of_mem {auth : List Nat} {a : Nat} (h : a ∈ auth) : requireAuth auth a = .ok () := by
  unfold requireAuth; rw [if_pos h]

end OZ.Fungible
