import OZ.Model.RegRules
import OZ.Lemmas.RegList
/-
Invariant and characterisation lemmas for the smart-account context-rule registry (C20).
-/
namespace OZ.RegRules
open OZ.Reg

/-- the fingerprint stored for a live rule -/
def fpOf (s : State) (id : Nat) : Option FP :=
  (s.info id).map (fun m => (m.ctx, sortNat (s.signers id), sortNat (s.policies id)))

/-- the rule part of the invariant -/
structure InvR (s : State) : Prop where
  idLt : ∀ id, (s.info id).isSome = true → id < s.nextId
  idsNodup : ∀ c, (s.ids c).Nodup
  idsMem : ∀ c id, id ∈ s.ids c ↔ ∃ m, s.info id = some m ∧ m.ctx = c
  live : ∃ lv : List Nat, lv.Nodup ∧ (∀ id, id ∈ lv ↔ (s.info id).isSome = true) ∧ s.count = lv.length
  sgNodup : ∀ id, (s.signers id).Nodup
  psNodup : ∀ id, (s.policies id).Nodup
  cntLe : s.count ≤ MAX_CONTEXT_RULES
  sgLe : ∀ id, (s.signers id).length ≤ MAX_SIGNERS
  psLe : ∀ id, (s.policies id).length ≤ MAX_POLICIES

/-- the fingerprint part: the stored set is the injective image of the live rules -/
structure InvF (s : State) : Prop where
  fpsNodup : s.fps.Nodup
  fpsMem : ∀ fp, fp ∈ s.fps ↔ ∃ id, fpOf s id = some fp
  fpInj : ∀ id1 id2 fp, fpOf s id1 = some fp → fpOf s id2 = some fp → id1 = id2

structure Inv (s : State) : Prop where
  r : InvR s
  f : InvF s

theorem inv_init (now : Nat) : Inv (init now) := by
  constructor
  · constructor <;> intros <;> simp_all [init, MAX_CONTEXT_RULES]
    exact ⟨[], by simp⟩
  · constructor <;> intros <;> simp_all [init, fpOf]

/-! ### small characterisations -/

theorem computeFp_ok_iff (c : Nat) (sg ps : List Nat) (fp : FP) :
    computeFp c sg ps = .ok fp ↔ sg.Nodup ∧ ps.Nodup ∧ fp = (c, sortNat sg, sortNat ps) := by
  unfold computeFp
  by_cases h1 : sg.Nodup
  · rw [if_neg (by simpa using h1)]
    by_cases h2 : ps.Nodup
    · rw [if_neg (by simpa using h2)]
      constructor
      · intro h; injection h with h; exact ⟨h1, h2, h.symm⟩
      · rintro ⟨_, _, rfl⟩; rfl
    · rw [if_pos (by simpa using h2)]
      constructor
      · intro h; cases h
      · rintro ⟨_, h, _⟩; exact absurd h h2
  · rw [if_pos (by simpa using h1)]
    constructor
    · intro h; cases h
    · rintro ⟨h, _⟩; exact absurd h h1

theorem validate_ok_iff (sg ps : List Nat) :
    validate sg ps = .ok () ↔ sg.length ≤ MAX_SIGNERS ∧ ps.length ≤ MAX_POLICIES ∧ ¬ (sg = [] ∧ ps = []) := by
  unfold validate
  by_cases h1 : sg.length > MAX_SIGNERS
  · rw [if_pos h1]; constructor
    · intro h; cases h
    · rintro ⟨h, _⟩; omega
  rw [if_neg h1]
  by_cases h2 : ps.length > MAX_POLICIES
  · rw [if_pos h2]; constructor
    · intro h; cases h
    · rintro ⟨_, h, _⟩; omega
  rw [if_neg h2]
  by_cases h3 : sg = [] ∧ ps = []
  · rw [if_pos h3]; constructor
    · intro h; cases h
    · rintro ⟨_, _, h⟩; exact absurd h3 h
  · rw [if_neg h3]
    exact ⟨fun _ => ⟨by omega, by omega, h3⟩, fun _ => rfl⟩

theorem validate_cases (sg ps : List Nat) : validate sg ps = .ok () ∨ ∃ e, validate sg ps = .error e := by
  cases h : validate sg ps with
  | ok u => left; cases u; rfl
  | error e => right; exact ⟨e, rfl⟩

theorem setFp_ok_iff (s s1 : State) (c : Nat) (sg ps : List Nat) :
    setFp s c sg ps = .ok s1 ↔
      (sg.Nodup ∧ ps.Nodup ∧ (c, sortNat sg, sortNat ps) ∉ s.fps) ∧
        s1 = { s with fps := s.fps ++ [(c, sortNat sg, sortNat ps)] } := by
  unfold setFp
  cases hc : computeFp c sg ps with
  | error e =>
    constructor
    · intro h; cases h
    · rintro ⟨⟨h1, h2, _⟩, _⟩
      have := (computeFp_ok_iff c sg ps _).2 ⟨h1, h2, rfl⟩
      rw [hc] at this; cases this
  | ok fp =>
    obtain ⟨h1, h2, rfl⟩ := (computeFp_ok_iff c sg ps fp).1 hc
    show (if _ then _ else _) = _ ↔ _
    by_cases hm : (c, sortNat sg, sortNat ps) ∈ s.fps
    · rw [if_pos (by simpa using hm)]
      constructor
      · intro h; cases h
      · rintro ⟨⟨_, _, h⟩, _⟩; exact absurd hm h
    · rw [if_neg (by simpa using hm)]
      constructor
      · intro h; injection h with h; exact ⟨⟨h1, h2, hm⟩, h.symm⟩
      · rintro ⟨_, rfl⟩; rfl

theorem removeFp_ok_iff (s s1 : State) (c : Nat) (sg ps : List Nat) :
    removeFp s c sg ps = .ok s1 ↔
      (sg.Nodup ∧ ps.Nodup) ∧ s1 = { s with fps := s.fps.filter (· ≠ (c, sortNat sg, sortNat ps)) } := by
  unfold removeFp
  cases hc : computeFp c sg ps with
  | error e =>
    constructor
    · intro h; cases h
    · rintro ⟨⟨h1, h2⟩, _⟩
      have := (computeFp_ok_iff c sg ps _).2 ⟨h1, h2, rfl⟩
      rw [hc] at this; cases this
  | ok fp =>
    obtain ⟨h1, h2, rfl⟩ := (computeFp_ok_iff c sg ps fp).1 hc
    show Except.ok _ = _ ↔ _
    constructor
    · intro h; injection h with h; exact ⟨⟨h1, h2⟩, h.symm⟩
    · rintro ⟨_, rfl⟩; rfl

/-- the state after re-fingerprinting rule data `(c, oldS, oldP)` to `(c, newS, newP)` -/
def refp (s : State) (c : Nat) (oldS oldP newS newP : List Nat) : State :=
  { s with fps := (s.fps ++ [(c, sortNat newS, sortNat newP)]).filter (· ≠ (c, sortNat oldS, sortNat oldP)) }

theorem refingerprint_ok_iff (s s1 : State) (c : Nat) (oldS oldP newS newP : List Nat) :
    refingerprint s c oldS oldP newS newP = .ok s1 ↔
      ((newS.length ≤ MAX_SIGNERS ∧ newP.length ≤ MAX_POLICIES ∧ ¬ (newS = [] ∧ newP = [])) ∧
        (newS.Nodup ∧ newP.Nodup ∧ (c, sortNat newS, sortNat newP) ∉ s.fps) ∧ oldS.Nodup ∧ oldP.Nodup) ∧
        s1 = refp s c oldS oldP newS newP := by
  unfold refingerprint
  rcases validate_cases newS newP with hv | ⟨e, hv⟩
  · rw [hv]
    have hval := (validate_ok_iff newS newP).1 hv
    show (setFp s c newS newP).bind _ = _ ↔ _
    cases hs : setFp s c newS newP with
    | error e =>
      constructor
      · intro h; cases h
      · rintro ⟨⟨_, h, _⟩, _⟩
        have := (setFp_ok_iff s _ c newS newP).2 ⟨h, rfl⟩
        rw [hs] at this; cases this
    | ok s2 =>
      obtain ⟨hn, rfl⟩ := (setFp_ok_iff s s2 c newS newP).1 hs
      show removeFp _ c oldS oldP = _ ↔ _
      rw [removeFp_ok_iff]
      constructor
      · rintro ⟨ho, rfl⟩; exact ⟨⟨hval, hn, ho.1, ho.2⟩, rfl⟩
      · rintro ⟨⟨_, _, ho1, ho2⟩, rfl⟩; exact ⟨⟨ho1, ho2⟩, rfl⟩
  · rw [hv]
    constructor
    · intro h; cases h
    · rintro ⟨⟨h, _⟩, _⟩
      have := (validate_ok_iff newS newP).2 h; rw [hv] at this; cases this

/-! ### the fingerprint invariant under an update of one rule -/

theorem invF_update {s s' : State} (hF : InvF s) (id0 : Nat) (newO : Option FP)
    (hfp' : ∀ id, fpOf s' id = if id = id0 then newO else fpOf s id)
    (hnew : ∀ fp, newO = some fp → fp ∉ s.fps)
    (hnd : s'.fps.Nodup)
    (hmem : ∀ x, x ∈ s'.fps ↔ ((x ∈ s.fps ∨ newO = some x) ∧ some x ≠ fpOf s id0)) : InvF s' := by
  constructor
  · exact hnd
  · intro fp
    rw [hmem]
    constructor
    · rintro ⟨h1, h2⟩
      cases h1 with
      | inr h1 => exact ⟨id0, by rw [hfp', if_pos rfl]; exact h1⟩
      | inl h1 =>
        obtain ⟨id, hid⟩ := (hF.fpsMem fp).1 h1
        have : id ≠ id0 := by intro h; subst h; exact h2 hid.symm
        exact ⟨id, by rw [hfp', if_neg this]; exact hid⟩
    · rintro ⟨id, hid⟩
      rw [hfp'] at hid
      by_cases h : id = id0
      · rw [if_pos h] at hid
        refine ⟨Or.inr hid, ?_⟩
        intro h2
        exact hnew fp hid ((hF.fpsMem fp).2 ⟨id0, h2.symm⟩)
      · rw [if_neg h] at hid
        refine ⟨Or.inl ((hF.fpsMem fp).2 ⟨id, hid⟩), ?_⟩
        intro h2
        exact h (hF.fpInj id id0 fp hid h2.symm)
  · intro id1 id2 fp h1 h2
    rw [hfp'] at h1 h2
    by_cases e1 : id1 = id0
    · by_cases e2 : id2 = id0
      · rw [e1, e2]
      · rw [if_pos e1] at h1; rw [if_neg e2] at h2
        exact absurd ((hF.fpsMem fp).2 ⟨id2, h2⟩) (hnew fp h1)
    · by_cases e2 : id2 = id0
      · rw [if_neg e1] at h1; rw [if_pos e2] at h2
        exact absurd ((hF.fpsMem fp).2 ⟨id1, h1⟩) (hnew fp h2)
      · rw [if_neg e1] at h1; rw [if_neg e2] at h2
        exact hF.fpInj id1 id2 fp h1 h2

/-- membership in a re-fingerprinted store -/
theorem mem_refp_fps (s : State) (c : Nat) (oldS oldP newS newP : List Nat) (x : FP) :
    x ∈ (refp s c oldS oldP newS newP).fps ↔
      ((x ∈ s.fps ∨ some (c, sortNat newS, sortNat newP) = some x) ∧
        some x ≠ some (c, sortNat oldS, sortNat oldP)) := by
  simp only [refp, List.mem_filter, List.mem_append, List.mem_singleton, decide_eq_true_eq]
  constructor
  · rintro ⟨h1, h2⟩
    exact ⟨h1.elim Or.inl (fun h => Or.inr (by rw [h])), fun h => h2 (by injection h)⟩
  · rintro ⟨h1, h2⟩
    exact ⟨h1.elim Or.inl (fun h => Or.inr (by injection h with h; exact h.symm)), fun h => h2 (by rw [h])⟩

theorem nodup_refp_fps {s : State} (hnd : s.fps.Nodup) (c : Nat) (oldS oldP newS newP : List Nat)
    (hn : (c, sortNat newS, sortNat newP) ∉ s.fps) : (refp s c oldS oldP newS newP).fps.Nodup :=
  nodup_filter _ (nodup_append_singleton hnd hn)

/-! ### add_context_rule -/

/-- the state an accepted `add_context_rule` produces -/
def added (s : State) (c name : Nat) (vu : Option Nat) (sg ps : List Nat) : State :=
  storeRule { s with fps := s.fps ++ [(c, sortNat sg, sortNat ps)] } c name vu sg ps

theorem addContextRule_ok_iff (installOk : Nat → Bool) (s s' : State) (c name : Nat) (vu : Option Nat)
    (sg ps : List Nat) :
    addContextRule installOk s c name vu sg ps = .ok s' ↔
      (s.count < MAX_CONTEXT_RULES ∧ sg.Nodup ∧ pastValidUntil s vu = false ∧
        (sg.length ≤ MAX_SIGNERS ∧ ps.length ≤ MAX_POLICIES ∧ ¬ (sg = [] ∧ ps = [])) ∧
        ps.Nodup ∧ (c, sortNat sg, sortNat ps) ∉ s.fps ∧ ps.all installOk = true) ∧
        s' = added s c name vu sg ps := by
  unfold addContextRule
  by_cases h1 : s.count ≥ MAX_CONTEXT_RULES
  · rw [if_pos h1]; constructor
    · intro h; cases h
    · rintro ⟨⟨h, _⟩, _⟩; omega
  rw [if_neg h1]
  by_cases h2' : ¬ sg.Nodup
  · rw [if_pos h2']; constructor
    · intro h; cases h
    · rintro ⟨⟨_, h, _⟩, _⟩; exact absurd h h2'
  rw [if_neg h2']
  have h2 : sg.Nodup := Classical.not_not.1 h2'
  cases h3 : pastValidUntil s vu with
  | true =>
    rw [if_pos rfl]; constructor
    · intro h; cases h
    · rintro ⟨⟨_, _, h, _⟩, _⟩; cases h
  | false =>
    rw [if_neg (by simp)]
    rcases validate_cases sg ps with hv | ⟨e, hv⟩
    · rw [hv]
      have hval := (validate_ok_iff sg ps).1 hv
      show (setFp s c sg ps).bind _ = _ ↔ _
      cases hs : setFp s c sg ps with
      | error e =>
        constructor
        · intro h; cases h
        · rintro ⟨⟨_, _, _, _, hp, hn, _⟩, _⟩
          have := (setFp_ok_iff s _ c sg ps).2 ⟨⟨h2, hp, hn⟩, rfl⟩
          rw [hs] at this; cases this
      | ok s1 =>
        obtain ⟨⟨_, hp, hn⟩, rfl⟩ := (setFp_ok_iff s s1 c sg ps).1 hs
        show (if _ then _ else _) = _ ↔ _
        cases hi : ps.all installOk with
        | false =>
          rw [if_pos (by simp)]; constructor
          · intro h; cases h
          · rintro ⟨⟨_, _, _, _, _, _, h⟩, _⟩; cases h
        | true =>
          rw [if_neg (by simp)]
          constructor
          · intro h; injection h with h
            exact ⟨⟨by omega, h2, rfl, hval, hp, hn, rfl⟩, h.symm⟩
          · rintro ⟨_, rfl⟩; rfl
    · rw [hv]
      constructor
      · intro h; cases h
      · rintro ⟨⟨_, _, _, h, _⟩, _⟩
        have := (validate_ok_iff sg ps).2 h; rw [hv] at this; cases this

theorem inv_added {s : State} (hI : Inv s) {c name : Nat} {vu : Option Nat} {sg ps : List Nat}
    (hcnt : s.count < MAX_CONTEXT_RULES) (hsg : sg.Nodup) (hps : ps.Nodup)
    (hval : sg.length ≤ MAX_SIGNERS ∧ ps.length ≤ MAX_POLICIES ∧ ¬ (sg = [] ∧ ps = []))
    (hn : (c, sortNat sg, sortNat ps) ∉ s.fps) : Inv (added s c name vu sg ps) := by
  have hdead : s.info s.nextId = none := by
    cases h : s.info s.nextId with
    | none => rfl
    | some m => exact absurd (hI.r.idLt s.nextId (by rw [h]; rfl)) (Nat.lt_irrefl _)
  have hinfo : ∀ id, (added s c name vu sg ps).info id =
      if id = s.nextId then some ⟨name, c, vu⟩ else s.info id := by
    intro id; simp [added, storeRule, updD]
  have hsgs : ∀ id, (added s c name vu sg ps).signers id = if id = s.nextId then sg else s.signers id := by
    intro id; simp [added, storeRule, updD]
  have hpss : ∀ id, (added s c name vu sg ps).policies id = if id = s.nextId then ps else s.policies id := by
    intro id; simp [added, storeRule, updD]
  have hfp' : ∀ id, fpOf (added s c name vu sg ps) id =
      if id = s.nextId then some (c, sortNat sg, sortNat ps) else fpOf s id := by
    intro id
    unfold fpOf
    rw [hinfo, hsgs, hpss]
    by_cases h : id = s.nextId
    · simp [h]
    · simp [h]
  have hfpdead : fpOf s s.nextId = none := by unfold fpOf; rw [hdead]; rfl
  constructor
  · obtain ⟨lv, hlvn, hlvm, hlvc⟩ := hI.r.live
    constructor
    · intro id h
      rw [hinfo] at h
      show id < s.nextId + 1
      by_cases hid : id = s.nextId
      · omega
      · rw [if_neg hid] at h; have := hI.r.idLt id h; omega
    · intro c'
      show (updD s.ids c (s.ids c ++ [s.nextId]) c').Nodup
      by_cases hc : c' = c
      · subst hc; rw [updD_same]
        apply nodup_append_singleton (hI.r.idsNodup c')
        intro hm
        obtain ⟨m, hm, _⟩ := (hI.r.idsMem c' s.nextId).1 hm
        rw [hdead] at hm; cases hm
      · rw [updD_other _ _ _ _ hc]; exact hI.r.idsNodup c'
    · intro c' id
      show id ∈ updD s.ids c (s.ids c ++ [s.nextId]) c' ↔ _
      rw [hinfo]
      by_cases hid : id = s.nextId
      · subst hid
        rw [if_pos rfl]
        by_cases hc : c' = c
        · subst hc; rw [updD_same]
          exact ⟨fun _ => ⟨_, rfl, rfl⟩, fun _ => by simp⟩
        · rw [updD_other _ _ _ _ hc]
          constructor
          · intro hm
            obtain ⟨m, hm, _⟩ := (hI.r.idsMem c' s.nextId).1 hm
            rw [hdead] at hm; cases hm
          · rintro ⟨m, hm, hmc⟩
            injection hm with hm; subst hm; exact absurd hmc.symm hc
      · rw [if_neg hid]
        by_cases hc : c' = c
        · subst hc; rw [updD_same, List.mem_append, hI.r.idsMem]
          simp [hid]
        · rw [updD_other _ _ _ _ hc]; exact hI.r.idsMem c' id
    · refine ⟨lv ++ [s.nextId], ?_, ?_, ?_⟩
      · apply nodup_append_singleton hlvn
        intro hm; have := (hlvm s.nextId).1 hm; rw [hdead] at this; cases this
      · intro id
        rw [hinfo, List.mem_append]
        by_cases hid : id = s.nextId
        · subst hid; simp
        · rw [if_neg hid, hlvm]; simp [hid]
      · show s.count + 1 = _
        simp [hlvc]
    · intro id; rw [hsgs]; split
      · exact hsg
      · exact hI.r.sgNodup id
    · intro id; rw [hpss]; split
      · exact hps
      · exact hI.r.psNodup id
    · show s.count + 1 ≤ _
      omega
    · intro id; rw [hsgs]; split
      · exact hval.1
      · exact hI.r.sgLe id
    · intro id; rw [hpss]; split
      · exact hval.2.1
      · exact hI.r.psLe id
  · apply invF_update hI.f s.nextId (some (c, sortNat sg, sortNat ps)) hfp'
    · intro fp h; injection h with h; subst h; exact hn
    · show (s.fps ++ [(c, sortNat sg, sortNat ps)]).Nodup
      exact nodup_append_singleton hI.f.fpsNodup hn
    · intro x
      show x ∈ s.fps ++ [(c, sortNat sg, sortNat ps)] ↔ _
      rw [hfpdead, List.mem_append, List.mem_singleton]
      constructor
      · intro h; exact ⟨h.elim Or.inl (fun h => Or.inr (by rw [h])), by simp⟩
      · rintro ⟨h, _⟩; exact h.elim Or.inl (fun h => Or.inr (by injection h with h; exact h.symm))

/-! ### metadata updates -/

theorem updateName_ok_iff (s s' : State) (id name : Nat) :
    updateName s id name = .ok s' ↔
      ∃ m, s.info id = some m ∧ s' = { s with info := updD s.info id (some { m with name := name }) } := by
  unfold updateName
  cases h : s.info id with
  | none => simp
  | some m =>
    constructor
    · intro h'; injection h' with h'; exact ⟨m, rfl, h'.symm⟩
    · rintro ⟨m', hm, rfl⟩; injection hm with hm; subst hm; rfl

theorem updateValidUntil_ok_iff (s s' : State) (id : Nat) (vu : Option Nat) :
    updateValidUntil s id vu = .ok s' ↔
      ∃ m, s.info id = some m ∧ pastValidUntil s vu = false ∧
        s' = { s with info := updD s.info id (some { m with validUntil := vu }) } := by
  unfold updateValidUntil
  cases h : s.info id with
  | none => simp
  | some m =>
    cases hp : pastValidUntil s vu with
    | true => simp
    | false =>
      show (if false = true then _ else _) = _ ↔ _
      rw [if_neg (by simp)]
      constructor
      · intro h'; injection h' with h'; exact ⟨m, rfl, rfl, h'.symm⟩
      · rintro ⟨m', hm, _, rfl⟩; injection hm with hm; subst hm; rfl

/-- an update of name / expiry of a live rule keeps the invariant -/
theorem inv_setMeta {s : State} (hI : Inv s) {id : Nat} {m m' : Meta} (hm : s.info id = some m)
    (hctx : m'.ctx = m.ctx) : Inv { s with info := updD s.info id (some m') } := by
  have hsome : ∀ id', (updD s.info id (some m') id').isSome = (s.info id').isSome := by
    intro id'
    by_cases h : id' = id
    · subst h; rw [updD_same, hm]; rfl
    · rw [updD_other _ _ _ _ h]
  have hfp' : ∀ id', fpOf { s with info := updD s.info id (some m') } id' = fpOf s id' := by
    intro id'
    unfold fpOf
    show Option.map _ (updD s.info id (some m') id') = _
    by_cases h : id' = id
    · subst h; rw [updD_same, hm]; simp [hctx]
    · rw [updD_other _ _ _ _ h]
  constructor
  · constructor
    · intro id' h; exact hI.r.idLt id' (by rw [← hsome]; exact h)
    · exact hI.r.idsNodup
    · intro c id'
      rw [hI.r.idsMem]
      show _ ↔ ∃ m'', updD s.info id (some m') id' = some m'' ∧ m''.ctx = c
      by_cases h : id' = id
      · subst h; rw [updD_same, hm]
        constructor
        · rintro ⟨m1, h1, h2⟩; injection h1 with h1; subst h1; exact ⟨m', rfl, by rw [hctx]; exact h2⟩
        · rintro ⟨m1, h1, h2⟩; injection h1 with h1; subst h1; exact ⟨m, rfl, by rw [← hctx]; exact h2⟩
      · rw [updD_other _ _ _ _ h]
    · obtain ⟨lv, h1, h2, h3⟩ := hI.r.live
      exact ⟨lv, h1, fun id' => by rw [h2]; exact (congrArg (· = true) (hsome id')).symm ▸ Iff.rfl, h3⟩
    · exact hI.r.sgNodup
    · exact hI.r.psNodup
    · exact hI.r.cntLe
    · exact hI.r.sgLe
    · exact hI.r.psLe
  · constructor
    · exact hI.f.fpsNodup
    · intro fp; rw [hI.f.fpsMem]; simp only [hfp']
    · intro id1 id2 fp; rw [hfp', hfp']; exact hI.f.fpInj id1 id2 fp

/-! ### remove_context_rule -/

/-- the state an accepted `remove_context_rule` produces -/
def removed (s : State) (id : Nat) (m : Meta) : State :=
  { s with fps := s.fps.filter (· ≠ (m.ctx, sortNat (s.signers id), sortNat (s.policies id))),
           info := updD s.info id none,
           signers := updD s.signers id [],
           policies := updD s.policies id [],
           ids := updD s.ids m.ctx (eraseLast (s.ids m.ctx) id),
           count := s.count - 1 }

theorem removeContextRule_ok_iff (s s' : State) (id : Nat) :
    removeContextRule s id = .ok s' ↔
      ∃ m, s.info id = some m ∧ ((s.signers id).Nodup ∧ (s.policies id).Nodup ∧ s.count ≠ 0) ∧
        s' = removed s id m := by
  unfold removeContextRule
  cases hm : s.info id with
  | none => simp
  | some m =>
    show (removeFp s m.ctx (s.signers id) (s.policies id)).bind _ = _ ↔ _
    cases hr : removeFp s m.ctx (s.signers id) (s.policies id) with
    | error e =>
      constructor
      · intro h; cases h
      · rintro ⟨m', hm', ⟨h1, h2, _⟩, _⟩
        injection hm' with hm'; subst hm'
        have := (removeFp_ok_iff s _ m.ctx (s.signers id) (s.policies id)).2 ⟨⟨h1, h2⟩, rfl⟩
        rw [hr] at this; cases this
    | ok s1 =>
      obtain ⟨⟨h1, h2⟩, rfl⟩ := (removeFp_ok_iff s s1 m.ctx (s.signers id) (s.policies id)).1 hr
      show dropRule _ id m.ctx = _ ↔ _
      unfold dropRule
      by_cases hc : s.count = 0
      · rw [if_pos hc]; constructor
        · intro h; cases h
        · rintro ⟨_, _, ⟨_, _, h⟩, _⟩; exact absurd hc h
      · rw [if_neg hc]
        constructor
        · intro h; injection h with h; exact ⟨m, rfl, ⟨h1, h2, hc⟩, h.symm⟩
        · rintro ⟨m', hm', _, rfl⟩; injection hm' with hm'; subst hm'; rfl

theorem inv_removed {s : State} (hI : Inv s) {id : Nat} {m : Meta} (hm : s.info id = some m) :
    Inv (removed s id m) := by
  have hinfo : ∀ id', (removed s id m).info id' = if id' = id then none else s.info id' := by
    intro id'; simp [removed, updD]
  have hsgs : ∀ id', (removed s id m).signers id' = if id' = id then [] else s.signers id' := by
    intro id'; simp [removed, updD]
  have hpss : ∀ id', (removed s id m).policies id' = if id' = id then [] else s.policies id' := by
    intro id'; simp [removed, updD]
  have hfp' : ∀ id', fpOf (removed s id m) id' = if id' = id then none else fpOf s id' := by
    intro id'
    unfold fpOf
    rw [hinfo, hsgs, hpss]
    by_cases h : id' = id
    · simp [h]
    · simp [h]
  have hfpold : fpOf s id = some (m.ctx, sortNat (s.signers id), sortNat (s.policies id)) := by
    unfold fpOf; rw [hm]; rfl
  obtain ⟨lv, hlvn, hlvm, hlvc⟩ := hI.r.live
  have hidlv : id ∈ lv := (hlvm id).2 (by rw [hm]; rfl)
  constructor
  · constructor
    · intro id' h
      rw [hinfo] at h
      by_cases hid : id' = id
      · rw [if_pos hid] at h; cases h
      · rw [if_neg hid] at h; exact hI.r.idLt id' h
    · intro c
      show (updD s.ids m.ctx (eraseLast (s.ids m.ctx) id) c).Nodup
      by_cases hc : c = m.ctx
      · subst hc; rw [updD_same]; exact nodup_eraseLast (hI.r.idsNodup _) id
      · rw [updD_other _ _ _ _ hc]; exact hI.r.idsNodup c
    · intro c id'
      show id' ∈ updD s.ids m.ctx (eraseLast (s.ids m.ctx) id) c ↔ _
      rw [hinfo]
      by_cases hc : c = m.ctx
      · subst hc
        rw [updD_same, mem_eraseLast (hI.r.idsNodup _), hI.r.idsMem]
        by_cases hid : id' = id
        · subst hid; simp
        · simp [hid]
      · rw [updD_other _ _ _ _ hc, hI.r.idsMem]
        by_cases hid : id' = id
        · subst hid; rw [if_pos rfl, hm]
          constructor
          · rintro ⟨m', h1, h2⟩; injection h1 with h1; subst h1; exact absurd h2.symm hc
          · rintro ⟨m', h1, _⟩; cases h1
        · rw [if_neg hid]
    · refine ⟨lv.erase id, hlvn.erase id, ?_, ?_⟩
      · intro id'
        rw [hlvn.mem_erase_iff, hinfo, hlvm]
        by_cases hid : id' = id
        · simp [hid]
        · simp [hid]
      · show s.count - 1 = _
        rw [List.length_erase_of_mem hidlv, hlvc]
    · intro id'; rw [hsgs]; split
      · simp
      · exact hI.r.sgNodup id'
    · intro id'; rw [hpss]; split
      · simp
      · exact hI.r.psNodup id'
    · show s.count - 1 ≤ _
      exact Nat.le_trans (Nat.sub_le _ _) hI.r.cntLe
    · intro id'; rw [hsgs]; split
      · simp
      · exact hI.r.sgLe id'
    · intro id'; rw [hpss]; split
      · simp
      · exact hI.r.psLe id'
  · apply invF_update hI.f id none hfp'
    · intro fp h; cases h
    · exact nodup_filter _ hI.f.fpsNodup
    · intro x
      show x ∈ s.fps.filter _ ↔ _
      rw [hfpold, List.mem_filter]
      simp only [decide_eq_true_eq]
      constructor
      · rintro ⟨h1, h2⟩; exact ⟨Or.inl h1, fun h => h2 (by injection h)⟩
      · rintro ⟨h1, h2⟩
        exact ⟨h1.elim (fun h => h) (fun h => by cases h), fun h => h2 (by rw [h])⟩

/-! ### signers and policies of a rule -/

/-- the invariant under a change of the signer / policy vectors of a live rule -/
theorem inv_mod {s s' : State} (hI : Inv s) {id : Nat} {m : Meta} (hm : s.info id = some m)
    {newS newP : List Nat} (hinfo : s'.info = s.info) (hids : s'.ids = s.ids) (hnext : s'.nextId = s.nextId)
    (hcount : s'.count = s.count)
    (hsg : ∀ id', s'.signers id' = if id' = id then newS else s.signers id')
    (hps : ∀ id', s'.policies id' = if id' = id then newP else s.policies id')
    (hfps : s'.fps = (refp s m.ctx (s.signers id) (s.policies id) newS newP).fps)
    (hS : newS.Nodup) (hP : newP.Nodup) (hSl : newS.length ≤ MAX_SIGNERS) (hPl : newP.length ≤ MAX_POLICIES)
    (hn : (m.ctx, sortNat newS, sortNat newP) ∉ s.fps) : Inv s' := by
  have hfp' : ∀ id', fpOf s' id' = if id' = id then some (m.ctx, sortNat newS, sortNat newP) else fpOf s id' := by
    intro id'
    unfold fpOf
    rw [hinfo, hsg, hps]
    by_cases h : id' = id
    · subst h; rw [hm]; simp
    · simp [h]
  have hfpold : fpOf s id = some (m.ctx, sortNat (s.signers id), sortNat (s.policies id)) := by
    unfold fpOf; rw [hm]; rfl
  constructor
  · constructor
    · intro id' h; rw [hinfo] at h; rw [hnext]; exact hI.r.idLt id' h
    · intro c; rw [hids]; exact hI.r.idsNodup c
    · intro c id'; rw [hids, hinfo]; exact hI.r.idsMem c id'
    · obtain ⟨lv, h1, h2, h3⟩ := hI.r.live
      exact ⟨lv, h1, fun id' => by rw [hinfo]; exact h2 id', by rw [hcount]; exact h3⟩
    · intro id'; rw [hsg]; split
      · exact hS
      · exact hI.r.sgNodup id'
    · intro id'; rw [hps]; split
      · exact hP
      · exact hI.r.psNodup id'
    · rw [hcount]; exact hI.r.cntLe
    · intro id'; rw [hsg]; split
      · exact hSl
      · exact hI.r.sgLe id'
    · intro id'; rw [hps]; split
      · exact hPl
      · exact hI.r.psLe id'
  · apply invF_update hI.f id (some (m.ctx, sortNat newS, sortNat newP)) hfp'
    · intro fp h; injection h with h; subst h; exact hn
    · rw [hfps]; exact nodup_refp_fps hI.f.fpsNodup _ _ _ _ _ hn
    · intro x; rw [hfps, hfpold]; exact mem_refp_fps s _ _ _ _ _ x

/-- the state an accepted signer edit produces -/
def sgSet (s : State) (id : Nat) (m : Meta) (newS : List Nat) : State :=
  { refp s m.ctx (s.signers id) (s.policies id) newS (s.policies id) with signers := updD s.signers id newS }

/-- the state an accepted policy edit produces -/
def psSet (s : State) (id : Nat) (m : Meta) (newP : List Nat) : State :=
  { refp s m.ctx (s.signers id) (s.policies id) (s.signers id) newP with policies := updD s.policies id newP }

theorem inv_sgSet {s : State} (hI : Inv s) {id : Nat} {m : Meta} (hm : s.info id = some m) {newS : List Nat}
    (hS : newS.Nodup) (hSl : newS.length ≤ MAX_SIGNERS)
    (hn : (m.ctx, sortNat newS, sortNat (s.policies id)) ∉ s.fps) : Inv (sgSet s id m newS) := by
  apply inv_mod (s' := sgSet s id m newS) hI hm rfl rfl rfl rfl (newS := newS) (newP := s.policies id)
  · intro id'; simp [sgSet, refp, updD]
  · intro id'; show s.policies id' = _; split
    · rename_i h; rw [h]
    · rfl
  · rfl
  · exact hS
  · exact hI.r.psNodup id
  · exact hSl
  · exact hI.r.psLe id
  · exact hn

theorem inv_psSet {s : State} (hI : Inv s) {id : Nat} {m : Meta} (hm : s.info id = some m) {newP : List Nat}
    (hP : newP.Nodup) (hPl : newP.length ≤ MAX_POLICIES)
    (hn : (m.ctx, sortNat (s.signers id), sortNat newP) ∉ s.fps) : Inv (psSet s id m newP) := by
  apply inv_mod (s' := psSet s id m newP) hI hm rfl rfl rfl rfl (newS := s.signers id) (newP := newP)
  · intro id'; show s.signers id' = _; split
    · rename_i h; rw [h]
    · rfl
  · intro id'; simp [psSet, refp, updD]
  · rfl
  · exact hI.r.sgNodup id
  · exact hP
  · exact hI.r.sgLe id
  · exact hPl
  · exact hn

theorem addSigner_ok_iff (s s' : State) (id sg : Nat) :
    addSigner s id sg = .ok s' ↔
      ∃ m, s.info id = some m ∧ sg ∉ s.signers id ∧
        (((s.signers id ++ [sg]).length ≤ MAX_SIGNERS ∧ (s.policies id).length ≤ MAX_POLICIES ∧
            ¬ (s.signers id ++ [sg] = [] ∧ s.policies id = [])) ∧
          ((s.signers id ++ [sg]).Nodup ∧ (s.policies id).Nodup ∧
            (m.ctx, sortNat (s.signers id ++ [sg]), sortNat (s.policies id)) ∉ s.fps) ∧
          (s.signers id).Nodup ∧ (s.policies id).Nodup) ∧
        s' = sgSet s id m (s.signers id ++ [sg]) := by
  unfold addSigner
  cases hm : s.info id with
  | none => simp
  | some m =>
    show (if _ then _ else _) = _ ↔ _
    by_cases hc : sg ∈ s.signers id
    · rw [if_pos (by simpa using hc)]; constructor
      · intro h; cases h
      · rintro ⟨_, _, h, _⟩; exact absurd hc h
    · rw [if_neg (by simpa using hc)]
      cases hr : refingerprint s m.ctx (s.signers id) (s.policies id) (s.signers id ++ [sg]) (s.policies id) with
      | error e =>
        constructor
        · intro h; cases h
        · rintro ⟨m', hm', _, h, _⟩
          injection hm' with hm'; subst hm'
          have := (refingerprint_ok_iff s _ m.ctx _ _ _ _).2 ⟨h, rfl⟩
          rw [hr] at this; cases this
      | ok s1 =>
        obtain ⟨h, rfl⟩ := (refingerprint_ok_iff s s1 m.ctx _ _ _ _).1 hr
        constructor
        · intro h'; injection h' with h'; exact ⟨m, rfl, hc, h, h'.symm⟩
        · rintro ⟨m', hm', _, _, rfl⟩; injection hm' with hm'; subst hm'; rfl

theorem removeSigner_ok_iff (s s' : State) (id sg : Nat) :
    removeSigner s id sg = .ok s' ↔
      ∃ m, s.info id = some m ∧ sg ∈ s.signers id ∧
        (((eraseLast (s.signers id) sg).length ≤ MAX_SIGNERS ∧ (s.policies id).length ≤ MAX_POLICIES ∧
            ¬ (eraseLast (s.signers id) sg = [] ∧ s.policies id = [])) ∧
          ((eraseLast (s.signers id) sg).Nodup ∧ (s.policies id).Nodup ∧
            (m.ctx, sortNat (eraseLast (s.signers id) sg), sortNat (s.policies id)) ∉ s.fps) ∧
          (s.signers id).Nodup ∧ (s.policies id).Nodup) ∧
        s' = sgSet s id m (eraseLast (s.signers id) sg) := by
  unfold removeSigner
  cases hm : s.info id with
  | none => simp
  | some m =>
    show (if _ then _ else _) = _ ↔ _
    by_cases hc : sg ∈ s.signers id
    · rw [if_neg (by simpa using hc)]
      cases hr : refingerprint s m.ctx (s.signers id) (s.policies id) (eraseLast (s.signers id) sg) (s.policies id) with
      | error e =>
        constructor
        · intro h; cases h
        · rintro ⟨m', hm', _, h, _⟩
          injection hm' with hm'; subst hm'
          have := (refingerprint_ok_iff s _ m.ctx _ _ _ _).2 ⟨h, rfl⟩
          rw [hr] at this; cases this
      | ok s1 =>
        obtain ⟨h, rfl⟩ := (refingerprint_ok_iff s s1 m.ctx _ _ _ _).1 hr
        constructor
        · intro h'; injection h' with h'; exact ⟨m, rfl, hc, h, h'.symm⟩
        · rintro ⟨m', hm', _, _, rfl⟩; injection hm' with hm'; subst hm'; rfl
    · rw [if_pos (by simpa using hc)]; constructor
      · intro h; cases h
      · rintro ⟨_, _, h, _⟩; exact absurd h hc

theorem addPolicy_ok_iff (installOk : Nat → Bool) (s s' : State) (id p : Nat) :
    addPolicy installOk s id p = .ok s' ↔
      ∃ m, s.info id = some m ∧ p ∉ s.policies id ∧ installOk p = true ∧
        (((s.signers id).length ≤ MAX_SIGNERS ∧ (s.policies id ++ [p]).length ≤ MAX_POLICIES ∧
            ¬ (s.signers id = [] ∧ s.policies id ++ [p] = [])) ∧
          ((s.signers id).Nodup ∧ (s.policies id ++ [p]).Nodup ∧
            (m.ctx, sortNat (s.signers id), sortNat (s.policies id ++ [p])) ∉ s.fps) ∧
          (s.signers id).Nodup ∧ (s.policies id).Nodup) ∧
        s' = psSet s id m (s.policies id ++ [p]) := by
  unfold addPolicy
  cases hm : s.info id with
  | none => simp
  | some m =>
    show (if _ then _ else _) = _ ↔ _
    by_cases hc : p ∈ s.policies id
    · rw [if_pos (by simpa using hc)]; constructor
      · intro h; cases h
      · rintro ⟨_, _, h, _⟩; exact absurd hc h
    · rw [if_neg (by simpa using hc)]
      cases hi : installOk p with
      | false =>
        rw [if_pos (by simp)]; constructor
        · intro h; cases h
        · rintro ⟨_, _, _, h, _⟩; cases h
      | true =>
        rw [if_neg (by simp)]
        cases hr : refingerprint s m.ctx (s.signers id) (s.policies id) (s.signers id) (s.policies id ++ [p]) with
        | error e =>
          constructor
          · intro h; cases h
          · rintro ⟨m', hm', _, _, h, _⟩
            injection hm' with hm'; subst hm'
            have := (refingerprint_ok_iff s _ m.ctx _ _ _ _).2 ⟨h, rfl⟩
            rw [hr] at this; cases this
        | ok s1 =>
          obtain ⟨h, rfl⟩ := (refingerprint_ok_iff s s1 m.ctx _ _ _ _).1 hr
          constructor
          · intro h'; injection h' with h'; exact ⟨m, rfl, hc, rfl, h, h'.symm⟩
          · rintro ⟨m', hm', _, _, _, rfl⟩; injection hm' with hm'; subst hm'; rfl

theorem removePolicy_ok_iff (s s' : State) (id p : Nat) :
    removePolicy s id p = .ok s' ↔
      ∃ m, s.info id = some m ∧ p ∈ s.policies id ∧
        (((s.signers id).length ≤ MAX_SIGNERS ∧ (eraseLast (s.policies id) p).length ≤ MAX_POLICIES ∧
            ¬ (s.signers id = [] ∧ eraseLast (s.policies id) p = [])) ∧
          ((s.signers id).Nodup ∧ (eraseLast (s.policies id) p).Nodup ∧
            (m.ctx, sortNat (s.signers id), sortNat (eraseLast (s.policies id) p)) ∉ s.fps) ∧
          (s.signers id).Nodup ∧ (s.policies id).Nodup) ∧
        s' = psSet s id m (eraseLast (s.policies id) p) := by
  unfold removePolicy
  cases hm : s.info id with
  | none => simp
  | some m =>
    show (if _ then _ else _) = _ ↔ _
    by_cases hc : p ∈ s.policies id
    · rw [if_neg (by simpa using hc)]
      cases hr : refingerprint s m.ctx (s.signers id) (s.policies id) (s.signers id) (eraseLast (s.policies id) p) with
      | error e =>
        constructor
        · intro h; cases h
        · rintro ⟨m', hm', _, h, _⟩
          injection hm' with hm'; subst hm'
          have := (refingerprint_ok_iff s _ m.ctx _ _ _ _).2 ⟨h, rfl⟩
          rw [hr] at this; cases this
      | ok s1 =>
        obtain ⟨h, rfl⟩ := (refingerprint_ok_iff s s1 m.ctx _ _ _ _).1 hr
        constructor
        · intro h'; injection h' with h'; exact ⟨m, rfl, hc, h, h'.symm⟩
        · rintro ⟨m', hm', _, _, rfl⟩; injection hm' with hm'; subst hm'; rfl
    · rw [if_pos (by simpa using hc)]; constructor
      · intro h; cases h
      · rintro ⟨_, _, h, _⟩; exact absurd h hc

/-- the ledger sequence is no part of the invariant -/
theorem inv_setNow {s : State} (hI : Inv s) (n : Nat) : Inv { s with now := n } := by
  have hfp : ∀ id, fpOf { s with now := n } id = fpOf s id := fun _ => rfl
  exact ⟨⟨hI.r.idLt, hI.r.idsNodup, hI.r.idsMem, hI.r.live, hI.r.sgNodup, hI.r.psNodup, hI.r.cntLe,
    hI.r.sgLe, hI.r.psLe⟩, ⟨hI.f.fpsNodup, hI.f.fpsMem, hI.f.fpInj⟩⟩

/-! ### histories -/

theorem inv_next (installOk : Nat → Bool) {s : State} (hI : Inv s) (o : Op) : Inv (next installOk s o) := by
  unfold next
  cases h : step installOk s o with
  | error e => exact hI
  | ok s' =>
    cases o with
    | add c n vu sg ps =>
      obtain ⟨⟨hc, hsg, _, hval, hps, hn, _⟩, rfl⟩ := (addContextRule_ok_iff installOk s s' c n vu sg ps).1 h
      exact inv_added hI hc hsg hps hval hn
    | rename id n =>
      obtain ⟨m, hm, rfl⟩ := (updateName_ok_iff s s' id n).1 h
      exact inv_setMeta hI hm rfl
    | revalid id vu =>
      obtain ⟨m, hm, _, rfl⟩ := (updateValidUntil_ok_iff s s' id vu).1 h
      exact inv_setMeta hI hm rfl
    | remove id =>
      obtain ⟨m, hm, _, rfl⟩ := (removeContextRule_ok_iff s s' id).1 h
      exact inv_removed hI hm
    | addSigner id sg =>
      obtain ⟨m, hm, _, ⟨⟨hl, _, _⟩, ⟨hnd, _, hn⟩, _⟩, rfl⟩ := (addSigner_ok_iff s s' id sg).1 h
      exact inv_sgSet hI hm hnd hl hn
    | removeSigner id sg =>
      obtain ⟨m, hm, _, ⟨⟨hl, _, _⟩, ⟨hnd, _, hn⟩, _⟩, rfl⟩ := (removeSigner_ok_iff s s' id sg).1 h
      exact inv_sgSet hI hm hnd hl hn
    | addPolicy id p =>
      obtain ⟨m, hm, _, _, ⟨⟨_, hl, _⟩, ⟨_, hnd, hn⟩, _⟩, rfl⟩ := (addPolicy_ok_iff installOk s s' id p).1 h
      exact inv_psSet hI hm hnd hl hn
    | removePolicy id p =>
      obtain ⟨m, hm, _, ⟨⟨_, hl, _⟩, ⟨_, hnd, hn⟩, _⟩, rfl⟩ := (removePolicy_ok_iff s s' id p).1 h
      exact inv_psSet hI hm hnd hl hn
    | advance n =>
      have h' : Except.ok { s with now := s.now + n } = Except.ok s' := h
      injection h' with h'; subst h'
      exact inv_setNow hI _

theorem inv_run (installOk : Nat → Bool) {s : State} (hI : Inv s) (ops : List Op) :
    Inv (run installOk s ops) := by
  induction ops generalizing s with
  | nil => exact hI
  | cons o os ih => exact ih (inv_next installOk hI o)

/-- ids are handed out in increasing order and never come back -/
theorem nextId_mono (installOk : Nat → Bool) (s : State) (o : Op) : s.nextId ≤ (next installOk s o).nextId := by
  unfold next
  cases h : step installOk s o with
  | error e => exact Nat.le_refl _
  | ok s' =>
    cases o with
    | add c n vu sg ps =>
      obtain ⟨_, rfl⟩ := (addContextRule_ok_iff installOk s s' c n vu sg ps).1 h
      show s.nextId ≤ s.nextId + 1; omega
    | rename id n => obtain ⟨m, _, rfl⟩ := (updateName_ok_iff s s' id n).1 h; exact Nat.le_refl _
    | revalid id vu => obtain ⟨m, _, _, rfl⟩ := (updateValidUntil_ok_iff s s' id vu).1 h; exact Nat.le_refl _
    | remove id => obtain ⟨m, _, _, rfl⟩ := (removeContextRule_ok_iff s s' id).1 h; exact Nat.le_refl _
    | addSigner id sg => obtain ⟨m, _, _, _, rfl⟩ := (addSigner_ok_iff s s' id sg).1 h; exact Nat.le_refl _
    | removeSigner id sg => obtain ⟨m, _, _, _, rfl⟩ := (removeSigner_ok_iff s s' id sg).1 h; exact Nat.le_refl _
    | addPolicy id p => obtain ⟨m, _, _, _, _, rfl⟩ := (addPolicy_ok_iff installOk s s' id p).1 h; exact Nat.le_refl _
    | removePolicy id p => obtain ⟨m, _, _, _, rfl⟩ := (removePolicy_ok_iff s s' id p).1 h; exact Nat.le_refl _
    | advance n =>
      have h' : Except.ok { s with now := s.now + n } = Except.ok s' := h
      injection h' with h'; subst h'; exact Nat.le_refl _

theorem nextId_run_mono (installOk : Nat → Bool) (s : State) (ops : List Op) :
    s.nextId ≤ (run installOk s ops).nextId := by
  induction ops generalizing s with
  | nil => exact Nat.le_refl _
  | cons o os ih => exact Nat.le_trans (nextId_mono installOk s o) (ih (next installOk s o))

def Reachable (installOk : Nat → Bool) (s : State) : Prop := ∃ now ops, s = run installOk (init now) ops

theorem reachable_inv {installOk : Nat → Bool} {s : State} (h : Reachable installOk s) : Inv s := by
  obtain ⟨now, ops, rfl⟩ := h
  exact inv_run installOk (inv_init now) ops

/-- the fingerprint of a rule as the model stores it -/
def fingerprint (r : Rule) : FP := (r.ctx, sortNat r.signers, sortNat r.policies)

theorem getContextRule_some (s : State) (id : Nat) (r : Rule) :
    getContextRule s id = some r ↔
      ∃ m, s.info id = some m ∧ r = ⟨id, m.ctx, m.name, s.signers id, s.policies id, m.validUntil⟩ := by
  unfold getContextRule
  cases s.info id with
  | none => simp
  | some m => simp [eq_comm]

theorem fpOf_eq (s : State) (id : Nat) : fpOf s id = (getContextRule s id).map fingerprint := by
  unfold fpOf getContextRule fingerprint
  cases s.info id <;> rfl

/-- `get_context_rules(type)` succeeds and returns the rules of the listed ids -/
theorem getContextRules_spec {s : State} (hI : Inv s) (c : Nat) :
    ∃ l, getContextRules s c = some l ∧ l.map (·.id) = s.ids c ∧
      ∀ r, r ∈ l → getContextRule s r.id = some r := by
  unfold getContextRules
  have key : ∀ (ids : List Nat), (∀ id, id ∈ ids → (s.info id).isSome = true) →
      ∃ l, ids.mapM (getContextRule s) = some l ∧ l.map (·.id) = ids ∧
        ∀ r, r ∈ l → getContextRule s r.id = some r := by
    intro ids
    induction ids with
    | nil => intro _; exact ⟨[], rfl, rfl, by intro r h; cases h⟩
    | cons a as ih =>
      intro hlive
      obtain ⟨l, hl, hmap, hall⟩ := ih (fun id h => hlive id (List.mem_cons_of_mem _ h))
      obtain ⟨m, hm⟩ := Option.isSome_iff_exists.1 (hlive a (List.mem_cons_self ..))
      have hr : getContextRule s a = some ⟨a, m.ctx, m.name, s.signers a, s.policies a, m.validUntil⟩ :=
        (getContextRule_some s a _).2 ⟨m, hm, rfl⟩
      refine ⟨⟨a, m.ctx, m.name, s.signers a, s.policies a, m.validUntil⟩ :: l, ?_, by simp [hmap], ?_⟩
      · simp [List.mapM_cons, hr, hl]
      · intro r h
        cases h with
        | head => exact hr
        | tail _ h => exact hall r h
  apply key
  intro id hid
  obtain ⟨m, hm, _⟩ := (hI.r.idsMem c id).1 hid
  rw [hm]; rfl

end OZ.RegRules
