import OZ.Model.RegDocs
import OZ.Lemmas.RegChunk
import OZ.Lemmas.RegList
/-
The document manager's buckets + index map represent a flat list of (name, document) entries
with pairwise different names, i.e. a finite map name -> document with an enumeration (C20).
-/
namespace OZ.RegDocs
open OZ.Reg

theorem bsize : BSize BUCKET_SIZE := Or.inr rfl

/-- the storage represents the flat entry list `l` -/
structure Rep (s : State) (l : List Entry) : Prop where
  names : (l.map (·.1)).Nodup
  count : s.count = l.length
  buckets : s.buckets = chunk BUCKET_SIZE l
  index : ∀ n i, s.index n = some i ↔ ∃ d, l[i]? = some (n, d)
  le : l.length ≤ MAX_DOCUMENTS

def Inv (s : State) : Prop := ∃ l, Rep s l

theorem rep_init : Rep init [] := by
  refine ⟨by simp, rfl, ?_, ?_, by simp⟩
  · funext b; simp [init, chunk]
  · intro n i; simp [init]

theorem inv_init : Inv init := ⟨[], rep_init⟩

/-- two entries with the same name sit at the same index -/
theorem name_index_unique {l : List Entry} (hn : (l.map (·.1)).Nodup) {i j : Nat} {n : Nat} {d1 d2 : Doc}
    (hi : l[i]? = some (n, d1)) (hj : l[j]? = some (n, d2)) : i = j := by
  apply nodup_index_inj (l.map (·.1)) hn i j n
  · rw [List.getElem?_map, hi]; rfl
  · rw [List.getElem?_map, hj]; rfl

theorem entries_nodup {l : List Entry} (hn : (l.map (·.1)).Nodup) : l.Nodup := by
  rw [List.Nodup, List.pairwise_iff_getElem]
  intro i j hi hj hij heq
  have h1 : l[i]? = some (l[i].1, l[i].2) := by rw [List.getElem?_eq_getElem hi]
  have h2 : l[j]? = some (l[i].1, l[j].2) := by rw [List.getElem?_eq_getElem hj, heq]
  have := name_index_unique hn h1 h2
  omega

/-! ### getters -/

theorem rep_byIndex {s : State} {l : List Entry} (h : Rep s l) (i : Nat) :
    getDocumentByIndex s i = l[i]? := by
  unfold getDocumentByIndex
  rw [h.count, h.buckets]
  split
  · rename_i hi; exact ((getElem?_none_iff l i).2 hi).symm
  · exact getElem?_chunk_div BUCKET_SIZE bsize l i

theorem rep_getDocument {s : State} {l : List Entry} (h : Rep s l) (n : Nat) (d : Doc) :
    getDocument s n = some d ↔ (n, d) ∈ l := by
  unfold getDocument
  constructor
  · intro hg
    cases hi : s.index n with
    | none => rw [hi] at hg; cases hg
    | some i =>
      rw [hi] at hg
      simp only [Option.bind_some, rep_byIndex h] at hg
      obtain ⟨d', hd'⟩ := (h.index n i).1 hi
      rw [hd'] at hg; simp at hg; subst hg
      exact List.mem_iff_getElem?.2 ⟨i, hd'⟩
  · intro hm
    obtain ⟨i, hi⟩ := List.mem_iff_getElem?.1 hm
    have := (h.index n i).2 ⟨d, hi⟩
    rw [this]
    simp only [Option.bind_some, rep_byIndex h, hi]; rfl

theorem rep_getDocument_none {s : State} {l : List Entry} (h : Rep s l) (n : Nat) :
    getDocument s n = none ↔ n ∉ l.map (·.1) := by
  constructor
  · intro hg hm
    obtain ⟨⟨n', d⟩, hmem, hnn⟩ := List.mem_map.1 hm
    simp only at hnn; subst hnn
    have := (rep_getDocument h n' d).2 hmem
    rw [hg] at this; cases this
  · intro hn
    cases hg : getDocument s n with
    | none => rfl
    | some d => exact absurd (List.mem_map.2 ⟨(n, d), (rep_getDocument h n d).1 hg, rfl⟩) hn

theorem index_none_iff {s : State} {l : List Entry} (h : Rep s l) (n : Nat) :
    s.index n = none ↔ n ∉ l.map (·.1) := by
  constructor
  · intro hi hm
    obtain ⟨⟨n', d⟩, hmem, hnn⟩ := List.mem_map.1 hm
    simp only at hnn; subst hnn
    obtain ⟨i, hget⟩ := List.mem_iff_getElem?.1 hmem
    have := (h.index n' i).2 ⟨d, hget⟩
    rw [hi] at this; cases this
  · intro hn
    cases hi : s.index n with
    | none => rfl
    | some i =>
      obtain ⟨d, hd⟩ := (h.index n i).1 hi
      exact absurd (List.mem_map.2 ⟨(n, d), List.mem_iff_getElem?.2 ⟨i, hd⟩, rfl⟩) hn

/-! ### set_document -/

theorem map_fst_set {l : List Entry} {i : Nat} {n : Nat} {d d' : Doc} (hi : l[i]? = some (n, d)) :
    (l.set i (n, d')).map (·.1) = l.map (·.1) := by
  apply List.ext_getElem?
  intro j
  rw [List.getElem?_map, List.getElem?_set, List.getElem?_map]
  by_cases h : i = j
  · subst h
    have hlt : i < l.length := by rw [List.getElem?_eq_some_iff] at hi; exact hi.1
    rw [if_pos rfl, if_pos hlt, hi]; rfl
  · rw [if_neg h]

/-- update of an existing document: slot `i` is overwritten, nothing else moves -/
theorem rep_overwrite {s : State} {l : List Entry} (h : Rep s l) {n i : Nat} (hi : s.index n = some i) (d' : Doc) :
    ∃ s', overwriteAt s i (n, d') = .ok s' ∧ Rep s' (l.set i (n, d')) := by
  obtain ⟨d, hd⟩ := (h.index n i).1 hi
  have hlt : i < l.length := by rw [List.getElem?_eq_some_iff] at hd; exact hd.1
  have hlen : i % BUCKET_SIZE < (s.buckets (i / BUCKET_SIZE)).length := by
    rw [h.buckets, length_chunk]; simp only [BUCKET_SIZE]; omega
  unfold overwriteAt
  have hne : s.buckets (i / BUCKET_SIZE) ≠ [] := by
    intro h0; rw [h0] at hlen; simp at hlen
  rw [if_neg hne, if_neg (by omega)]
  refine ⟨_, rfl, ?_⟩
  refine ⟨by rw [map_fst_set hd]; exact h.names, by simp [h.count], ?_, ?_, by simp; exact h.le⟩
  · funext b
    show updD s.buckets (i / BUCKET_SIZE) _ b = _
    rw [chunk_set BUCKET_SIZE bsize, h.buckets]
    unfold updD; split <;> simp_all
  · intro n' j
    show s.index n' = some j ↔ _
    rw [h.index, List.getElem?_set]
    by_cases hij : i = j
    · subst hij
      rw [if_pos rfl, if_pos hlt, hd]
      constructor
      · rintro ⟨d1, h1⟩; injection h1 with h1; injection h1 with h1 _; subst h1; exact ⟨d', rfl⟩
      · rintro ⟨d1, h1⟩; injection h1 with h1; injection h1 with h1 _; subst h1; exact ⟨d, rfl⟩
    · rw [if_neg hij]

/-- a new document is appended and indexed at the old count -/
theorem rep_append {s : State} {l : List Entry} (h : Rep s l) {n : Nat} (hn : s.index n = none) (d : Doc)
    (hl : l.length < MAX_DOCUMENTS) :
    appendNew s (n, d) = .ok { index := updD s.index n (some s.count),
                               buckets := updD s.buckets (s.count / BUCKET_SIZE) (s.buckets (s.count / BUCKET_SIZE) ++ [(n, d)]),
                               count := s.count + 1 } ∧
    Rep { index := updD s.index n (some s.count),
          buckets := updD s.buckets (s.count / BUCKET_SIZE) (s.buckets (s.count / BUCKET_SIZE) ++ [(n, d)]),
          count := s.count + 1 } (l ++ [(n, d)]) := by
  have hnm : n ∉ l.map (·.1) := (index_none_iff h n).1 hn
  constructor
  · unfold appendNew; rw [h.count, if_neg (by omega)]
  · refine ⟨?_, by simp [h.count], ?_, ?_, by simp; omega⟩
    · rw [List.map_append]; exact nodup_append_singleton h.names hnm
    · funext b
      show updD s.buckets (s.count / BUCKET_SIZE) _ b = _
      rw [chunk_append BUCKET_SIZE bsize, h.count, h.buckets]
      unfold updD; split <;> simp_all
    · intro n' j
      show updD s.index n (some s.count) n' = some j ↔ _
      rw [List.getElem?_append, h.count]
      by_cases hn' : n' = n
      · subst hn'
        rw [updD_same]
        constructor
        · intro hj; injection hj with hj; subst hj
          exact ⟨d, by rw [if_neg (Nat.lt_irrefl _)]; simp⟩
        · rintro ⟨d1, h1⟩
          by_cases hj : j < l.length
          · rw [if_pos hj] at h1
            exact absurd (List.mem_map.2 ⟨(n', d1), List.mem_iff_getElem?.2 ⟨j, h1⟩, rfl⟩) hnm
          · rw [if_neg hj] at h1
            have : j - l.length = 0 := by
              cases hk : j - l.length with
              | zero => rfl
              | succ k => rw [hk] at h1; simp at h1
            congr 1; omega
      · rw [updD_other _ _ _ _ hn', h.index]
        constructor
        · rintro ⟨d1, h1⟩
          have hj : j < l.length := by rw [List.getElem?_eq_some_iff] at h1; exact h1.1
          exact ⟨d1, by rw [if_pos hj]; exact h1⟩
        · rintro ⟨d1, h1⟩
          by_cases hj : j < l.length
          · rw [if_pos hj] at h1; exact ⟨d1, h1⟩
          · rw [if_neg hj] at h1
            cases hk : j - l.length with
            | zero => rw [hk] at h1; simp at h1; exact absurd h1.1.symm hn'
            | succ k => rw [hk] at h1; simp at h1

/-- `set_document`: refused only for an over-long URI or a new name at full capacity -/
theorem setDocument_spec {s : State} {l : List Entry} (h : Rep s l) (n uri hash ts : Nat) :
    (uri ≤ MAX_URI_LEN → (n ∈ l.map (·.1) ∨ l.length < MAX_DOCUMENTS) →
      ∃ s' l', setDocument s n uri hash ts = .ok s' ∧ Rep s' l' ∧
        (∀ x d, (x, d) ∈ l' ↔ ((x ≠ n ∧ (x, d) ∈ l) ∨ (x = n ∧ d = ⟨uri, hash, ts⟩))) ∧
        l'.length = if n ∈ l.map (·.1) then l.length else l.length + 1) ∧
    ((uri > MAX_URI_LEN ∨ (n ∉ l.map (·.1) ∧ l.length ≥ MAX_DOCUMENTS)) →
      ∃ e, setDocument s n uri hash ts = .error e) := by
  constructor
  · intro hu hroom
    unfold setDocument
    rw [if_neg (by omega)]
    cases hi : s.index n with
    | some i =>
      obtain ⟨s', hs', hr⟩ := rep_overwrite h hi ⟨uri, hash, ts⟩
      obtain ⟨d0, hd0⟩ := (h.index n i).1 hi
      have hlt : i < l.length := by rw [List.getElem?_eq_some_iff] at hd0; exact hd0.1
      have hmemn : n ∈ l.map (·.1) := List.mem_map.2 ⟨(n, d0), List.mem_iff_getElem?.2 ⟨i, hd0⟩, rfl⟩
      refine ⟨s', _, hs', hr, ?_, by simp [hmemn]⟩
      intro x d
      rw [List.mem_iff_getElem?, List.mem_iff_getElem?]
      constructor
      · rintro ⟨j, hj⟩
        rw [List.getElem?_set] at hj
        by_cases hij : i = j
        · subst hij; rw [if_pos rfl, if_pos hlt] at hj
          injection hj with hj; injection hj with h1 h2
          exact Or.inr ⟨h1.symm, h2.symm⟩
        · rw [if_neg hij] at hj
          refine Or.inl ⟨?_, j, hj⟩
          intro hx; subst hx
          exact hij (name_index_unique h.names hd0 hj)
      · rintro (⟨hx, j, hj⟩ | ⟨rfl, rfl⟩)
        · refine ⟨j, ?_⟩
          rw [List.getElem?_set]
          have : i ≠ j := by
            intro hij; subst hij; rw [hd0] at hj; injection hj with hj; injection hj with h1 _
            exact hx h1.symm
          rw [if_neg this]; exact hj
        · exact ⟨i, by rw [List.getElem?_set, if_pos rfl, if_pos hlt]⟩
    | none =>
      have hnm : n ∉ l.map (·.1) := (index_none_iff h n).1 hi
      have hl : l.length < MAX_DOCUMENTS := hroom.elim (fun h' => absurd h' hnm) id
      obtain ⟨hs', hr⟩ := rep_append h hi ⟨uri, hash, ts⟩ hl
      refine ⟨_, _, hs', hr, ?_, by simp [hnm]⟩
      intro x d
      rw [List.mem_append, List.mem_singleton]
      constructor
      · rintro (hm | he)
        · refine Or.inl ⟨?_, hm⟩
          intro hx; subst hx; exact hnm (List.mem_map.2 ⟨_, hm, rfl⟩)
        · injection he with h1 h2; exact Or.inr ⟨h1, h2⟩
      · rintro (⟨_, hm⟩ | ⟨rfl, rfl⟩)
        · exact Or.inl hm
        · exact Or.inr rfl
  · intro hbad
    unfold setDocument
    by_cases hu : uri > MAX_URI_LEN
    · exact ⟨_, by rw [if_pos hu]⟩
    · rw [if_neg hu]
      obtain ⟨hnm, hfull⟩ := hbad.elim (fun h' => absurd h' hu) id
      rw [(index_none_iff h n).2 hnm]
      exact ⟨_, by show appendNew s _ = _; unfold appendNew; rw [h.count, if_pos hfull]⟩

/-! ### remove_document (swap-and-pop with the index map) -/

/-- the state after `moveLast` -/
def movedSt (s : State) (idx : Nat) (e : Entry) : State :=
  { s with index := updD s.index e.1 (some idx),
           buckets := updD s.buckets (idx / BUCKET_SIZE)
                        ((s.buckets (idx / BUCKET_SIZE)).set (idx % BUCKET_SIZE) e) }

theorem popLast_ok (s : State) (name last : Nat) (hne : s.buckets (last / BUCKET_SIZE) ≠ []) :
    popLast s name last = .ok { index := updD s.index name none,
                                buckets := updD s.buckets (last / BUCKET_SIZE) ((s.buckets (last / BUCKET_SIZE)).dropLast),
                                count := last } := by
  unfold popLast; rw [if_neg hne]

theorem rep_remove {s : State} {l : List Entry} (h : Rep s l) {n idx : Nat} (hi : s.index n = some idx) :
    ∃ s', removeAt s n idx = .ok s' ∧ Rep s' (swapPop l idx) := by
  obtain ⟨d0, hd0⟩ := (h.index n idx).1 hi
  have hidx : idx < l.length := by rw [List.getElem?_eq_some_iff] at hd0; exact hd0.1
  have hne : l ≠ [] := by intro h0; rw [h0] at hidx; simp at hidx
  have hcnt : s.count ≠ 0 := by rw [h.count]; omega
  obtain ⟨e, he⟩ : ∃ e, l[l.length - 1]? = some e := ⟨_, List.getElem?_eq_getElem (by omega)⟩
  have hnames' : ((swapPop l idx).map (·.1)).Nodup := by
    rw [map_swapPop _ l idx hidx]
    exact nodup_swapPop _ h.names idx (by simpa using hidx)
  have hle' : (swapPop l idx).length ≤ MAX_DOCUMENTS := by
    rw [length_swapPop]; exact Nat.le_trans (Nat.sub_le _ _) h.le
  have hget' := getElem?_swapPop l idx hidx
  rw [he] at hget'
  unfold removeAt
  rw [if_neg hcnt, h.count]
  by_cases hlast : idx ≠ l.length - 1
  · -- the last entry `e` moves into slot `idx`
    rw [if_pos hlast, h.buckets, getElem?_chunk_div BUCKET_SIZE bsize, he]
    have hen : e.1 ≠ n := by
      intro hen
      have : l[l.length - 1]? = some (n, e.2) := by rw [he, ← hen]
      exact hlast (name_index_unique h.names hd0 this)
    have hsw : swapPop l idx = (l.set idx e).dropLast := by unfold swapPop; rw [if_pos hlast, he]
    -- moveLast succeeds
    have hlen1 : idx % BUCKET_SIZE < (s.buckets (idx / BUCKET_SIZE)).length := by
      rw [h.buckets, length_chunk]; simp only [BUCKET_SIZE]; omega
    have hne1 : s.buckets (idx / BUCKET_SIZE) ≠ [] := by
      intro h0; rw [h0] at hlen1; simp at hlen1
    have hmove : moveLast s idx e = .ok (movedSt s idx e) := by
      unfold moveLast movedSt; rw [if_neg hne1, if_neg (by omega)]
    have hb1 : (movedSt s idx e).buckets = chunk BUCKET_SIZE (l.set idx e) := by
      funext b
      show updD s.buckets (idx / BUCKET_SIZE) _ b = _
      rw [chunk_set BUCKET_SIZE bsize, h.buckets]
      unfold updD; split <;> simp_all
    show ∃ s', (moveLast s idx e).bind _ = .ok s' ∧ _
    rw [hmove]
    have hne2 : (movedSt s idx e).buckets ((l.length - 1) / BUCKET_SIZE) ≠ [] := by
      rw [hb1]
      intro h0
      have := congrArg List.length h0
      rw [length_chunk, List.length_set] at this
      simp only [BUCKET_SIZE, List.length_nil] at this; omega
    refine ⟨_, popLast_ok _ n _ hne2, hnames', by rw [length_swapPop], ?_, ?_, hle'⟩
    · show updD (movedSt s idx e).buckets _ _ = _
      rw [hb1, hsw]
      funext b
      have hne3 : l.set idx e ≠ [] := by
        intro h0; have := congrArg List.length h0
        rw [List.length_set, List.length_nil] at this; omega
      rw [chunk_dropLast BUCKET_SIZE bsize _ hne3, List.length_set]
      unfold updD; split <;> simp_all
    · intro x i
      show updD (updD s.index e.1 (some idx)) n none x = some i ↔ _
      rw [hget']
      by_cases hx : x = n
      · subst hx
        rw [updD_same]
        constructor
        · intro h'; cases h'
        · rintro ⟨d, hd⟩
          by_cases h1 : i < l.length - 1
          · rw [if_pos h1] at hd
            by_cases h2 : i = idx
            · rw [if_pos h2] at hd; injection hd with hd; exact absurd (by rw [hd]) hen
            · rw [if_neg h2] at hd; exact absurd (name_index_unique h.names hd hd0) h2
          · rw [if_neg h1] at hd; cases hd
      · rw [updD_other _ _ _ _ hx]
        by_cases hxe : x = e.1
        · subst hxe
          rw [updD_same]
          constructor
          · intro h'; injection h' with h'; subst h'
            exact ⟨e.2, by rw [if_pos (by omega), if_pos rfl]⟩
          · rintro ⟨d, hd⟩
            by_cases h1 : i < l.length - 1
            · rw [if_pos h1] at hd
              by_cases h2 : i = idx
              · rw [h2]
              · rw [if_neg h2] at hd
                have : l[l.length - 1]? = some (e.1, e.2) := he
                have := name_index_unique h.names hd this
                omega
            · rw [if_neg h1] at hd; cases hd
        · rw [updD_other _ _ _ _ hxe, h.index]
          constructor
          · rintro ⟨d, hd⟩
            have hil : i < l.length := by rw [List.getElem?_eq_some_iff] at hd; exact hd.1
            have h1 : i ≠ l.length - 1 := by
              intro h1; rw [h1, he] at hd; injection hd with hd; exact hxe (by rw [hd])
            have h2 : i ≠ idx := by
              intro h2; rw [h2, hd0] at hd; injection hd with hd; injection hd with hd _; exact hx hd.symm
            exact ⟨d, by rw [if_pos (by omega), if_neg h2]; exact hd⟩
          · rintro ⟨d, hd⟩
            by_cases h1 : i < l.length - 1
            · rw [if_pos h1] at hd
              by_cases h2 : i = idx
              · rw [if_pos h2] at hd; injection hd with hd; exact absurd (by rw [hd]) hxe
              · rw [if_neg h2] at hd; exact ⟨d, hd⟩
            · rw [if_neg h1] at hd; cases hd
  · -- the document is the last entry
    have hlast' : idx = l.length - 1 := Classical.not_not.1 hlast
    rw [if_neg hlast]
    have hsw : swapPop l idx = l.dropLast := by unfold swapPop; rw [if_neg hlast]
    have hne2 : s.buckets ((l.length - 1) / BUCKET_SIZE) ≠ [] := by
      intro h0
      have := congrArg List.length h0
      rw [h.buckets, length_chunk] at this
      simp only [BUCKET_SIZE, List.length_nil] at this; omega
    refine ⟨_, popLast_ok _ n _ hne2, hnames', by rw [length_swapPop], ?_, ?_, hle'⟩
    · rw [hsw]
      funext b
      show updD s.buckets ((l.length - 1) / BUCKET_SIZE) _ b = _
      rw [chunk_dropLast BUCKET_SIZE bsize l hne, h.buckets]
      unfold updD; split <;> simp_all
    · intro x i
      show updD s.index n none x = some i ↔ _
      rw [hget']
      by_cases hx : x = n
      · subst hx
        rw [updD_same]
        constructor
        · intro h'; cases h'
        · rintro ⟨d, hd⟩
          by_cases h1 : i < l.length - 1
          · rw [if_pos h1, if_neg (by omega)] at hd
            have := name_index_unique h.names hd hd0; omega
          · rw [if_neg h1] at hd; cases hd
      · rw [updD_other _ _ _ _ hx, h.index]
        constructor
        · rintro ⟨d, hd⟩
          have hil : i < l.length := by rw [List.getElem?_eq_some_iff] at hd; exact hd.1
          have h2 : i ≠ idx := by
            intro h2; rw [h2, hd0] at hd; injection hd with hd; injection hd with hd _; exact hx hd.symm
          exact ⟨d, by rw [if_pos (by omega), if_neg h2]; exact hd⟩
        · rintro ⟨d, hd⟩
          by_cases h1 : i < l.length - 1
          · rw [if_pos h1, if_neg (by omega)] at hd; exact ⟨d, hd⟩
          · rw [if_neg h1] at hd; cases hd

theorem removeDocument_spec {s : State} {l : List Entry} (h : Rep s l) (n : Nat) :
    (n ∈ l.map (·.1) → ∃ s' idx d, removeDocument s n = .ok s' ∧ l[idx]? = some (n, d) ∧ Rep s' (swapPop l idx)) ∧
    (n ∉ l.map (·.1) → ∃ e, removeDocument s n = .error e) := by
  unfold removeDocument
  constructor
  · intro hm
    cases hi : s.index n with
    | none => exact absurd hm ((index_none_iff h n).1 hi)
    | some idx =>
      obtain ⟨d, hd⟩ := (h.index n idx).1 hi
      obtain ⟨s', hs', hr⟩ := rep_remove h hi
      exact ⟨s', idx, d, hs', hd, hr⟩
  · intro hn
    rw [(index_none_iff h n).2 hn]
    exact ⟨_, rfl⟩

/-! ### histories -/

theorem inv_next {s : State} (hI : Inv s) (o : Op) : Inv (next s o) := by
  obtain ⟨l, h⟩ := hI
  unfold next
  cases hs : step s o with
  | error e => exact ⟨l, h⟩
  | ok s' =>
    cases o with
    | set n u hsh ts =>
      by_cases hgood : u ≤ MAX_URI_LEN ∧ (n ∈ l.map (·.1) ∨ l.length < MAX_DOCUMENTS)
      · obtain ⟨s'', l', hs'', hr, _⟩ := (setDocument_spec h n u hsh ts).1 hgood.1 hgood.2
        have h1 : setDocument s n u hsh ts = .ok s' := hs
        rw [h1] at hs''; injection hs'' with hs''; subst hs''
        exact ⟨l', hr⟩
      · have hbad : u > MAX_URI_LEN ∨ (n ∉ l.map (·.1) ∧ l.length ≥ MAX_DOCUMENTS) := by
          by_cases hu : u ≤ MAX_URI_LEN
          · right
            constructor
            · intro hm; exact hgood ⟨hu, Or.inl hm⟩
            · exact Nat.le_of_not_lt (fun hl => hgood ⟨hu, Or.inr hl⟩)
          · left; omega
        obtain ⟨e, he⟩ := (setDocument_spec h n u hsh ts).2 hbad
        have h1 : setDocument s n u hsh ts = .ok s' := hs
        rw [h1] at he; cases he
    | remove n =>
      by_cases hm : n ∈ l.map (·.1)
      · obtain ⟨s'', idx, d, hs'', _, hr⟩ := (removeDocument_spec h n).1 hm
        have h1 : removeDocument s n = .ok s' := hs
        rw [h1] at hs''; injection hs'' with hs''; subst hs''
        exact ⟨_, hr⟩
      · obtain ⟨e, he⟩ := (removeDocument_spec h n).2 hm
        have h1 : removeDocument s n = .ok s' := hs
        rw [h1] at he; cases he

theorem inv_run {s : State} (hI : Inv s) (ops : List Op) : Inv (run s ops) := by
  induction ops generalizing s with
  | nil => exact hI
  | cons o os ih => exact ih (inv_next hI o)

def Reachable (s : State) : Prop := ∃ ops, s = run init ops

theorem reachable_inv {s : State} (h : Reachable s) : Inv s := by
  obtain ⟨ops, rfl⟩ := h
  exact inv_run inv_init ops

end OZ.RegDocs
