import OZ.Lemmas.TimelockControllerMonAuth
/-
Soundness of the C09 monitor, monitor part 5: an accepted `__check_auth` driven directly (`tc check`):
as many descriptors as contexts, every context a call on the controller whose operation the loop
consumed, the executor's signature for exactly that context, and the ghost log afterwards.
-/
namespace OZ.TimelockController.Mon
open OZ.Host OZ.Timelock OZ.TimelockController

/-! ### the contexts the model driver reads are the ones the monitor keeps -/

theorem filterMap_get_filter {α β : Type} (f : α → Option β) (l : List α) (j : Nat) :
    (l.filterMap f)[j]? = ((l.filter (fun a => (f a).isSome))[j]?).bind f := by
  induction l generalizing j with
  | nil => simp
  | cons a t ih =>
    cases h : f a with
    | none =>
      rw [List.filterMap_cons_none h, List.filter_cons_of_neg (by simp [h])]
      exact ih j
    | some b =>
      rw [List.filterMap_cons_some h, List.filter_cons_of_pos (by simp [h])]
      cases j with
      | zero => simp [h]
      | succ j => simp only [List.getElem?_cons_succ]; exact ih j

theorem filterMap_length_filter {α β : Type} (f : α → Option β) (l : List α) :
    (l.filterMap f).length = (l.filter (fun a => (f a).isSome)).length := by
  induction l with
  | nil => rfl
  | cons a t ih =>
    cases h : f a with
    | none => rw [List.filterMap_cons_none h, List.filter_cons_of_neg (by simp [h])]; exact ih
    | some b => rw [List.filterMap_cons_some h, List.filter_cons_of_pos (by simp [h])]; simp [ih]

theorem liveCtx_eq (defs : List Operation) (c : CtxM) : liveCtx defs c = (resolveCtx defs c).isSome := by
  cases c with
  | create => rfl
  | defk k =>
    unfold liveCtx resolveCtx
    by_cases h : k < defs.length
    · simp [h]
    · simp [h]
  | call t f a => rfl
  | bad => rfl

theorem liveCtxs_eq (defs : List Operation) (ctxs : List CtxM) :
    liveCtxs defs ctxs = ctxs.filter (fun c => (resolveCtx defs c).isSome) := by
  unfold liveCtxs
  apply List.filter_congr
  intro c _
  exact liveCtx_eq defs c

theorem live_get (defs : List Operation) (ctxs : List CtxM) (j : Nat) :
    (resolveCtxs defs ctxs)[j]? = ((liveCtxs defs ctxs)[j]?).bind (resolveCtx defs) := by
  rw [liveCtxs_eq]; exact filterMap_get_filter _ _ j

theorem live_length (defs : List Operation) (ctxs : List CtxM) :
    (liveCtxs defs ctxs).length = (resolveCtxs defs ctxs).length := by
  rw [liveCtxs_eq]; exact (filterMap_length_filter _ _).symm

theorem ctxCall_of_resolve {defs : List Operation} {cm : CtxM} {t f : Nat} {a : List Nat}
    (h : resolveCtx defs cm = some (.contract t f a)) : ctxCall defs cm = some (t, f, a) := by
  cases cm with
  | create => simp [resolveCtx] at h
  | defk k =>
    simp only [resolveCtx] at h
    simp only [ctxCall]
    cases hk : defs[k]? with
    | none => rw [hk] at h; cases h
    | some d =>
      rw [hk] at h
      simp only [Option.map_some, Option.some.injEq, Context.contract.injEq] at h ⊢
      obtain ⟨rfl, rfl, rfl⟩ := h
      rfl
  | call t' f' a' =>
    simp only [resolveCtx, Option.some.injEq, Context.contract.injEq] at h
    obtain ⟨rfl, rfl, rfl⟩ := h
    rfl
  | bad => simp [resolveCtx] at h

theorem keyOf_mem {defs : List Operation} {f : Nat} {args : List Nat} {md : MetaM} {id : Id}
    (h : keyOf defs f args md = some id) : id ∈ defs.map Operation.id := by
  unfold keyOf at h
  cases hf : findDef defs (opKey f args (refKey defs md.p) md.s) with
  | none => rw [hf] at h; cases h
  | some k =>
    rw [hf] at h
    simp only [Option.bind_some] at h
    cases hx : defs[k]? with
    | none => rw [hx] at h; cases h
    | some dd =>
      rw [hx] at h
      injection h with h
      rw [← h]
      exact List.mem_map.mpr ⟨dd, List.mem_of_getElem? hx, rfl⟩

/-- the descriptors the model driver passes to `__check_auth` -/
theorem getD_resolveMetas_get {defs : List Operation} {metas : List MetaM} {j : Nat} {mt : Meta}
    (h : ((resolveMetas defs metas).getD [])[j]? = some mt) :
    ∃ ms, resolveMetas defs metas = some ms ∧ ms[j]? = some mt := by
  cases hr : resolveMetas defs metas with
  | none => rw [hr] at h; simp at h
  | some ms => rw [hr] at h; exact ⟨ms, rfl, h⟩

theorem getD_resolveMetas_length (defs : List Operation) (metas : List MetaM) :
    ((resolveMetas defs metas).getD []).length ≤ metas.length := by
  cases hr : resolveMetas defs metas with
  | none => simp
  | some ms => simp [resolveMetas_length hr]

/-- the first pair of an accepted loop: its operation's predecessor is none or Done in the state the loop started in -/
theorem checkPairs_head_pred {c c' : CState} {auth : List AuthTok} {pairs : List (Context × Meta)} {ctx : Context} {mt : Meta}
    (h : checkPairs c auth pairs = .ok c') (h0 : pairs[0]? = some (ctx, mt)) :
    mt.pred = Id.zero ∨ c.tl.ledger mt.pred = 1 := by
  cases pairs with
  | nil => simp at h0
  | cons hd rest =>
    simp only [List.getElem?_cons_zero, Option.some.injEq] at h0
    subst h0
    unfold checkPairs at h
    cases h1 : checkOne c auth ctx mt with
    | error e => rw [h1] at h; cases h
    | ok c1 =>
      obtain ⟨fn, args, tl', _, _, hse, _⟩ := checkOne_ok h1
      exact (setExecute_ok hse).2.2.1

/-! ### the accepted `__check_auth` -/

theorem check_sound (m : Mon) (x : MS) (hi : MInv x) (ha : Agree m x) (cl : CallLine)
    (metas : List MetaM) (ctxs : List CtxM) (hcall : cl.call = .check metas ctxs) (c' : CState)
    (hx : applyE x.c (resolveToks ((resolveMetas x.defs metas).getD []) (resolveCtxs x.defs ctxs) cl.auth)
        (resolveSig x.defs cl.sig)
        (.checkAuth ((resolveMetas x.defs metas).getD []) (resolveCtxs x.defs ctxs)) = .ok c') :
    CallSound m x cl c' := by
  have hx' : checkAuth x.c (resolveToks ((resolveMetas x.defs metas).getD []) (resolveCtxs x.defs ctxs) cl.auth)
      ((resolveMetas x.defs metas).getD []) (resolveCtxs x.defs ctxs) = .ok c' := hx
  obtain ⟨hlen, hp⟩ := checkAuth_ok hx'
  have fr : Frame x.c c' := (checkPairs_ok hp).1
  obtain ⟨ops, hmap, hall, hlog, hready, hled, hnd⟩ := checkPairs_exact hp
  have hlivelen := live_length x.defs ctxs
  have hopslen : ops.length = (resolveCtxs x.defs ctxs).length := by
    have := congrArg List.length hmap
    simp only [List.length_map, List.length_zip] at this
    omega
  -- the data of index j
  have idx : ∀ j, j < (resolveCtxs x.defs ctxs).length →
      ∃ cm md fn args pred, (liveCtxs x.defs ctxs)[j]? = some cm ∧ ctxCall x.defs cm = some (0, fn, args) ∧
        metas[j]? = some md ∧ refKey x.defs md.p = some pred ∧
        (resolveCtxs x.defs ctxs)[j]? = some (.contract 0 fn args) ∧
        ((resolveMetas x.defs metas).getD [])[j]? = some ⟨pred, md.s, md.e⟩ ∧
        ops[j]? = some ⟨0, fn, args, pred, md.s⟩ ∧
        execGate x.c (resolveToks ((resolveMetas x.defs metas).getD []) (resolveCtxs x.defs ctxs) cl.auth)
          fn args ⟨pred, md.s, md.e⟩ = .ok () := by
    intro j hj
    obtain ⟨ctx, hctx⟩ : ∃ ctx, (resolveCtxs x.defs ctxs)[j]? = some ctx := ⟨_, List.getElem?_eq_getElem hj⟩
    obtain ⟨mt, hmt⟩ : ∃ mt, ((resolveMetas x.defs metas).getD [])[j]? = some mt :=
      ⟨_, List.getElem?_eq_getElem (by omega)⟩
    have hpair : ((resolveCtxs x.defs ctxs).zip ((resolveMetas x.defs metas).getD []))[j]? = some (ctx, mt) :=
      List.getElem?_zip_eq_some.mpr ⟨hctx, hmt⟩
    obtain ⟨fn, args, hc, hgate⟩ := hall (ctx, mt) (List.mem_of_getElem? hpair)
    simp only at hc hgate
    rw [hi.self] at hc
    subst hc
    -- the monitor's context
    have hl := live_get x.defs ctxs j
    rw [hctx] at hl
    cases hcm : (liveCtxs x.defs ctxs)[j]? with
    | none => rw [hcm] at hl; cases hl
    | some cm =>
      rw [hcm] at hl
      simp only [Option.bind_some] at hl
      -- the descriptor
      obtain ⟨ms, hms, hmsj⟩ := getD_resolveMetas_get hmt
      have hmsl := resolveMetas_length hms
      obtain ⟨md, hmd⟩ : ∃ md, metas[j]? = some md := by
        have : j < ms.length := by
          rcases List.getElem?_eq_some_iff.mp hmsj with ⟨h, _⟩; exact h
        exact ⟨_, List.getElem?_eq_getElem (by omega)⟩
      obtain ⟨pred, hpred, hmsj'⟩ := resolveMetas_get hms j md hmd
      rw [hmsj] at hmsj'
      injection hmsj' with hmsj'
      subst hmsj'
      -- the operation
      have hopj := congrArg (·[j]?) hmap
      simp only [List.getElem?_map, hpair, Option.map_some] at hopj
      have hop : ops[j]? = some ⟨0, fn, args, pred, md.s⟩ := by
        cases ho : ops[j]? with
        | none => rw [ho] at hopj; cases hopj
        | some o =>
          rw [ho] at hopj
          simp only [Option.map_some, Option.some.injEq] at hopj
          rw [← hopj]
          simp only [pairOp, opOf, hi.self]
      exact ⟨cm, md, fn, args, pred, rfl, ctxCall_of_resolve hl.symm, hmd, hpred, hctx, hmt, hop, hgate⟩
  -- the monitor's per-context facts
  have per : ∀ j, j < (resolveCtxs x.defs ctxs).length →
      ∃ cm md fn args pred, (liveCtxs x.defs ctxs)[j]? = some cm ∧ ctxCall x.defs cm = some (0, fn, args) ∧
        metas[j]? = some md ∧ ops[j]? = some ⟨0, fn, args, pred, md.s⟩ ∧
        keyOf x.defs fn args md = some (Id.op 0 fn args pred md.s) ∧
        ∀ ok0 eq0, consumed m (modelObs x.c x.defs ok0 eq0) (modelObs c' x.defs true none) fn args md j cl.auth
          (decide ((liveCtxs x.defs ctxs).length = 1)) = none := by
    intro j hj
    obtain ⟨cm, md, fn, args, pred, hcm, hcall', hmd, hpred, hctx, hmt, hop, hgate⟩ := idx j hj
    have hmem : (⟨0, fn, args, pred, md.s⟩ : Operation) ∈ ops := List.mem_of_getElem? hop
    have hr : getOperationState x.c.tl (Id.op 0 fn args pred md.s) = .ready := hready _ hmem
    have hd : c'.tl.ledger (Id.op 0 fn args pred md.s) = 1 := by
      rw [hled, if_pos]
      exact List.mem_map.mpr ⟨_, hmem, rfl⟩
    have hexec : x.c.executorCount ≠ 0 →
        ∃ ex, md.e = some ex ∧ x.c.hasRole EXECUTOR ex = true ∧ AuthM.exec ex j ∈ cl.auth := by
      intro hne
      obtain ⟨ex, he, hrole, hin⟩ := execGate_ok hgate hne
      refine ⟨ex, he, hrole, ?_⟩
      simp only at hin
      rw [hi.self] at hin
      obtain ⟨j', mt', hj', hc', hm', hp', hs'⟩ := mem_resolveToks_exec hin
      have hj'lt : j' < (resolveCtxs x.defs ctxs).length := by
        rcases List.getElem?_eq_some_iff.mp hc' with ⟨h, _⟩; exact h
      obtain ⟨cm2, md2, fn2, args2, pred2, _, _, _, _, hctx2, hmt2, hop2, _⟩ := idx j' hj'lt
      rw [hc'] at hctx2
      simp only [Option.some.injEq, Context.contract.injEq, true_and] at hctx2
      obtain ⟨rfl, rfl⟩ := hctx2
      rw [hm'] at hmt2
      injection hmt2 with hmt2
      subst hmt2
      simp only at hp' hs'
      subst hp'
      rw [hs'] at hop2
      -- both indices denote the same operation: they coincide
      have : (ops.map Operation.id)[j']? = (ops.map Operation.id)[j]? := by
        rw [List.getElem?_map, List.getElem?_map, hop, hop2]
      have hjj : j' = j := (List.getElem?_inj (by rw [List.length_map]; omega) hnd).mp this
      rw [hjj] at hj'; exact hj'
    have hpd : decide ((liveCtxs x.defs ctxs).length = 1) = true → pred = Id.zero ∨ x.c.tl.ledger pred = 1 := by
      intro hc
      have h1 : (liveCtxs x.defs ctxs).length = 1 := of_decide_eq_true hc
      have hj0 : j = 0 := by omega
      subst hj0
      exact checkPairs_head_pred hp (List.getElem?_zip_eq_some.mpr ⟨hctx, hmt⟩)
    have hcons := fun ok0 eq0 =>
      consumed_none m x hi ha c' ok0 eq0 fn args md pred hpred j cl.auth hr hd hexec _ hpd
    exact ⟨cm, md, fn, args, pred, hcm, hcall', hmd, hop, (hcons true none).2, fun ok0 eq0 => (hcons ok0 eq0).1⟩
  -- membership in the monitor's list of consumed keys
  have hkeys : ∀ id, id ∈ checkKeys x.defs metas (liveCtxs x.defs ctxs) ↔ id ∈ ops.map Operation.id := by
    intro id
    unfold checkKeys
    rw [List.mem_filterMap]
    constructor
    · rintro ⟨j, hj, hk⟩
      rw [List.mem_range, hlivelen] at hj
      obtain ⟨cm, md, fn, args, pred, hcm, hcall', hmd, hop, hkey, _⟩ := per j hj
      unfold checkKey at hk
      rw [hcm, hmd] at hk
      simp only [Option.bind_some, hcall'] at hk
      rw [hkey] at hk
      injection hk with hk
      rw [← hk]
      exact List.mem_map.mpr ⟨_, List.mem_of_getElem? hop, rfl⟩
    · intro hin
      obtain ⟨o, ho, rfl⟩ := List.mem_map.mp hin
      obtain ⟨j, hj⟩ := List.mem_iff_getElem?.mp ho
      have hjlt : j < (resolveCtxs x.defs ctxs).length := by
        rcases List.getElem?_eq_some_iff.mp hj with ⟨h, _⟩; omega
      obtain ⟨cm, md, fn, args, pred, hcm, hcall', hmd, hop, hkey, _⟩ := per j hjlt
      refine ⟨j, by rw [List.mem_range, hlivelen]; exact hjlt, ?_⟩
      unfold checkKey
      rw [hcm, hmd]
      simp only [Option.bind_some, hcall']
      rw [hkey]
      rw [hop] at hj
      injection hj with hj
      rw [← hj]
      rfl
  have hlog' : c'.tl.log = ((ops.map Operation.id).map (fun i => Ev.exec i x.c.tl.now)).reverse ++ x.c.tl.log := by
    rw [hlog, List.map_map]; rfl
  refine ⟨?_, ?_, ?_⟩
  · intro ok0 eq0
    apply verdictCall_none
    · rw [hcall]; rfl
    · exact undone_none x.defs ok0 true eq0 none (fun id h1 => applyE_ledger_one hx h1)
    · rfl
    · apply effect_none
      · intro _; exact fr.minDelay
      · intro _; exact modelRoles_of_ac (by rw [fr.ac])
      · intro _; exact modelRadm_of_ac (by rw [fr.ac])
      · intro _ _; show c'.admin = x.c.admin; unfold CState.admin; rw [fr.ac]
      · intro _ _ h; rw [hcall] at h; cases h
    · unfold verdictAccepted
      rw [hcall]
      simp only
      rw [ha.defs]
      unfold verdictCheck
      rw [if_neg (by
        have := getD_resolveMetas_length x.defs metas
        omega)]
      have : (List.range (liveCtxs x.defs ctxs).length).filterMap
          (checkCtx m (modelObs x.c x.defs ok0 eq0) (modelObs c' x.defs true none) metas (liveCtxs x.defs ctxs) cl.auth) = [] := by
        rw [List.filterMap_eq_nil_iff]
        intro j hj
        rw [List.mem_range, hlivelen] at hj
        obtain ⟨cm, md, fn, args, pred, hcm, hcall', hmd, _, _, hcons⟩ := per j hj
        unfold checkCtx
        rw [hcm, hmd, ha.defs]
        simp only [Option.bind_some, hcall']
        rw [if_neg (by simp), hcons ok0 eq0]
        rfl
      rw [this]
  · intro id
    unfold ghostStep
    rw [hcall]
    simp only
    have hc1 : consumes (.check metas ctxs) x.c.admin = true := rfl
    rw [hc1, if_pos rfl]
    unfold consumedKeys
    rw [hcall]
    simp only
    rw [get_markDone, ha.defs, hlog', ghost_exec_prefix]
    by_cases hin : id ∈ ops.map Operation.id
    · rw [if_pos ((hkeys id).mpr hin), if_pos hin]; rfl
    · rw [if_neg (fun h => hin ((hkeys id).mp h)), if_neg hin]
      exact ha.ghost id
  · intro id hne
    rw [hlog', ghost_exec_prefix] at hne
    by_cases hin : id ∈ ops.map Operation.id
    · obtain ⟨o, ho, rfl⟩ := List.mem_map.mp hin
      obtain ⟨j, hj⟩ := List.mem_iff_getElem?.mp ho
      have hjlt : j < (resolveCtxs x.defs ctxs).length := by
        rcases List.getElem?_eq_some_iff.mp hj with ⟨h, _⟩; omega
      obtain ⟨cm, md, fn, args, pred, _, _, _, hop, hkey, _⟩ := per j hjlt
      rw [hop] at hj
      injection hj with hj
      rw [← hj]
      exact keyOf_mem hkey
    · rw [if_neg hin] at hne
      exact hi.known id hne

end OZ.TimelockController.Mon
