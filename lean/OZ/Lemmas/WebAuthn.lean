import OZ.Model.WebAuthn
import OZ.Lemmas.Base64Url
/-
Helper lemmas for C18 (WebAuthn verifier): each check of `verify` succeeds exactly under
its condition; `verify` is the conjunction. Property theorems are in OZ/Props/C18.
-/
namespace OZ.WebAuthn
open OZ.B64

theorem bind_ok_iff {ε α β} {x : Except ε α} {f : α → Except ε β} {v : β} :
    (x >>= f) = .ok v ↔ ∃ a, x = .ok a ∧ f a = .ok v := by
  cases x with
  | error e => constructor
               · intro h; cases h
               · rintro ⟨a, h, _⟩; cases h
  | ok a => constructor
            · intro h; exact ⟨a, rfl, h⟩
            · rintro ⟨b, h, h2⟩; cases h; exact h2

theorem checkClientDataLen_ok (cd : Bytes) (u : Unit) :
    checkClientDataLen cd = .ok u ↔ cd.length ≤ 1024 := by
  unfold checkClientDataLen CLIENT_DATA_MAX_LEN
  split
  · constructor
    · intro h; cases h
    · intro h; omega
  · constructor
    · intro _; omega
    · intro _; rfl

theorem parseClientData_ok (O : Oracles) (cd : Bytes) (j : ClientDataJson) :
    parseClientData O cd = .ok j ↔ O.parse cd = some j := by
  unfold parseClientData
  split
  · next h => rw [h]; constructor <;> intro h' <;> cases h'
  · next j' h => rw [h]; constructor
                 · intro h'; cases h'; rfl
                 · intro h'; cases h'; rfl

theorem validateExpectedType_ok (j : ClientDataJson) (u : Unit) :
    validateExpectedType j = .ok u ↔ j.typeField = WEBAUTHN_GET := by
  unfold validateExpectedType
  split
  · next h => constructor
              · intro h'; cases h'
              · intro h'; exact absurd h' h
  · next h => constructor
              · intro _; exact Classical.not_not.mp h
              · intro _; rfl

theorem extract_whole (payload p : Bytes) :
    extractFromBytes 32 payload 0 none = some p ↔ payload.length = 32 ∧ p = payload := by
  unfold extractFromBytes rangeEnd
  simp only [Nat.sub_zero, List.drop_zero, List.take_length]
  split
  · next h => constructor
              · intro h'; cases h'
              · rintro ⟨h1, _⟩; omega
  · next h => constructor
              · intro h'; cases h'; constructor
                · omega
                · rfl
              · rintro ⟨_, h2⟩; rw [h2]

theorem encodeInto_43 (p : Bytes) (h : p.length = 32) :
    encodeInto (List.replicate 43 0) p = some (encode p) := by
  unfold encodeInto
  have hl : (encode p).length = 43 := by rw [encode_length, h]
  rw [hl]
  simp

theorem compareChallenge_ok (j : ClientDataJson) (p : Bytes) (h : p.length = 32) (u : Unit) :
    compareChallenge j p = .ok u ↔ j.challenge = encode p := by
  unfold compareChallenge
  rw [encodeInto_43 p h]
  simp only
  split
  · next h => constructor
              · intro h'; cases h'
              · intro h'; exact absurd h' h
  · next h => constructor
              · intro _; exact Classical.not_not.mp h
              · intro _; rfl

theorem validateChallenge_ok (j : ClientDataJson) (payload : Bytes) (u : Unit) :
    validateChallenge j payload = .ok u ↔ payload.length = 32 ∧ j.challenge = encode payload := by
  unfold validateChallenge
  split
  · next h =>
    constructor
    · intro h'; cases h'
    · rintro ⟨h1, _⟩
      have := (extract_whole payload payload).mpr ⟨h1, rfl⟩
      rw [h] at this; cases this
  · next p h =>
    obtain ⟨h1, h2⟩ := (extract_whole payload p).mp h
    subst h2
    rw [compareChallenge_ok j p h1]
    constructor
    · intro h; exact ⟨h1, h⟩
    · intro h; exact h.2

theorem flagSet_iff (f : Byte) (m : Nat) : flagSet f m = true ↔ (f.toNat &&& m) ≠ 0 := by
  simp [flagSet]

theorem checkAuthDataLen_ok (ad : Bytes) (u : Unit) : checkAuthDataLen ad = .ok u ↔ 37 ≤ ad.length := by
  unfold checkAuthDataLen AUTHENTICATOR_DATA_MIN_LEN
  split
  · constructor
    · intro h; cases h
    · intro h; omega
  · constructor
    · intro _; omega
    · intro _; rfl

theorem flagsByte_ok (ad : Bytes) (f : Byte) : flagsByte ad = .ok f ↔ ad[32]? = some f := by
  unfold flagsByte
  split
  · next h => rw [h]; constructor <;> intro h' <;> cases h'
  · next f' h => rw [h]; constructor
                 · intro h'; cases h'; rfl
                 · intro h'; cases h'; rfl

theorem validateUP_ok (f : Byte) (u : Unit) :
    validateUserPresentBitSet f = .ok u ↔ flagSet f AUTH_DATA_FLAGS_UP = true := by
  rw [flagSet_iff]; unfold validateUserPresentBitSet
  split
  · next h => constructor
              · intro h'; cases h'
              · intro h'; exact absurd h h'
  · next h => constructor
              · intro _; exact h
              · intro _; rfl

theorem validateUV_ok (f : Byte) (u : Unit) :
    validateUserVerifiedBitSet f = .ok u ↔ flagSet f AUTH_DATA_FLAGS_UV = true := by
  rw [flagSet_iff]; unfold validateUserVerifiedBitSet
  split
  · next h => constructor
              · intro h'; cases h'
              · intro h'; exact absurd h h'
  · next h => constructor
              · intro _; exact h
              · intro _; rfl

theorem validateBackup_ok (f : Byte) (u : Unit) :
    validateBackupEligibilityAndState f = .ok u ↔
      ¬ (flagSet f AUTH_DATA_FLAGS_BE = false ∧ flagSet f AUTH_DATA_FLAGS_BS = true) := by
  have hbe : flagSet f AUTH_DATA_FLAGS_BE = false ↔ (f.toNat &&& AUTH_DATA_FLAGS_BE) = 0 := by simp [flagSet]
  rw [flagSet_iff, hbe]; unfold validateBackupEligibilityAndState
  split
  · next h => constructor
              · intro h'; cases h'
              · intro h'; exact absurd h h'
  · next h => constructor
              · intro _; exact h
              · intro _; rfl

theorem checkSignature_ok (O : Oracles) (key sig ad cd : Bytes) :
    checkSignature O key sig ad cd = .ok true ↔ O.p256Verify key (O.sha256 (ad ++ O.sha256 cd)) sig = true := by
  unfold checkSignature
  split
  · next h => exact ⟨fun _ => h, fun _ => rfl⟩
  · next h => constructor
              · intro h'; cases h'
              · intro h'; exact absurd h' h

theorem checkSignature_ne_false (O : Oracles) (key sig ad cd : Bytes) :
    checkSignature O key sig ad cd ≠ .ok false := by
  unfold checkSignature
  split <;> intro h <;> cases h

theorem verifyRest_ok (O : Oracles) (key sig ad cd : Bytes) :
    verifyRest O key sig ad cd = .ok true ↔
      37 ≤ ad.length ∧
      (∃ f, ad[32]? = some f ∧ flagSet f AUTH_DATA_FLAGS_UP = true ∧ flagSet f AUTH_DATA_FLAGS_UV = true ∧
        ¬ (flagSet f AUTH_DATA_FLAGS_BE = false ∧ flagSet f AUTH_DATA_FLAGS_BS = true)) ∧
      O.p256Verify key (O.sha256 (ad ++ O.sha256 cd)) sig = true := by
  unfold verifyRest
  simp only [bind_ok_iff, checkAuthDataLen_ok, flagsByte_ok, validateUP_ok, validateUV_ok, validateBackup_ok,
    checkSignature_ok]
  constructor
  · rintro ⟨_, h1, f, h2, _, h3, _, h4, _, h5, h6⟩
    exact ⟨h1, ⟨f, h2, h3, h4, h5⟩, h6⟩
  · rintro ⟨h1, ⟨f, h2, h3, h4, h5⟩, h6⟩
    exact ⟨(), h1, f, h2, (), h3, (), h4, (), h5, h6⟩

theorem verify_ok (O : Oracles) (payload key : Bytes) (sd : SigData) :
    verify O payload key sd = .ok true ↔
      sd.clientData.length ≤ 1024 ∧
      (∃ j, O.parse sd.clientData = some j ∧ j.typeField = WEBAUTHN_GET ∧ j.challenge = encode payload) ∧
      payload.length = 32 ∧
      verifyRest O key sd.signature sd.authenticatorData sd.clientData = .ok true := by
  unfold verify
  simp only [bind_ok_iff, checkClientDataLen_ok, parseClientData_ok, validateExpectedType_ok, validateChallenge_ok]
  constructor
  · rintro ⟨_, h1, j, h2, _, h3, _, ⟨h4, h5⟩, h6⟩
    exact ⟨h1, ⟨j, h2, h3, h5⟩, h4, h6⟩
  · rintro ⟨h1, ⟨j, h2, h3, h5⟩, h4, h6⟩
    exact ⟨(), h1, j, h2, (), h3, (), ⟨h4, h5⟩, h6⟩

theorem verifyRest_ne_false (O : Oracles) (key sig ad cd : Bytes) : verifyRest O key sig ad cd ≠ .ok false := by
  unfold verifyRest
  intro h
  simp only [bind_ok_iff] at h
  obtain ⟨_, _, _, _, _, _, _, _, _, _, h⟩ := h
  exact checkSignature_ne_false _ _ _ _ _ h

theorem verify_ne_false (O : Oracles) (payload key : Bytes) (sd : SigData) : verify O payload key sd ≠ .ok false := by
  unfold verify
  intro h
  simp only [bind_ok_iff] at h
  obtain ⟨_, _, _, _, _, _, _, _, h⟩ := h
  exact verifyRest_ne_false _ _ _ _ _ h

theorem extract_prefix (N : Nat) (data p : Bytes) :
    extractFromBytes N data 0 (some N) = some p ↔ N ≤ data.length ∧ p = data.take N := by
  unfold extractFromBytes rangeEnd
  simp only [Nat.sub_zero, List.drop_zero]
  split
  · next h => constructor
              · intro h'; cases h'
              · rintro ⟨h1, _⟩; omega
  · next h => constructor
              · intro h'; cases h'; exact ⟨by omega, rfl⟩
              · rintro ⟨_, h2⟩; rw [h2]

theorem validateChallengeLegacy_ok (j : ClientDataJson) (payload : Bytes) (u : Unit) :
    validateChallengeLegacy j payload = .ok u ↔ 32 ≤ payload.length ∧ j.challenge = encode (payload.take 32) := by
  unfold validateChallengeLegacy
  split
  · next h =>
    constructor
    · intro h'; cases h'
    · rintro ⟨h1, _⟩
      have := (extract_prefix 32 payload (payload.take 32)).mpr ⟨h1, rfl⟩
      rw [h] at this; cases this
  · next p h =>
    obtain ⟨h1, h2⟩ := (extract_prefix 32 payload p).mp h
    subst h2
    have hl : (payload.take 32).length = 32 := by rw [List.length_take]; omega
    rw [compareChallenge_ok j _ hl]
    constructor
    · intro h; exact ⟨h1, h⟩
    · intro h; exact h.2

/-- what the code before the fix accepted: the challenge only had to encode the first 32
bytes of a payload of ANY length ≥ 32 -/
theorem verifyLegacy_ok (O : Oracles) (payload key : Bytes) (sd : SigData) :
    verifyLegacy O payload key sd = .ok true ↔
      sd.clientData.length ≤ 1024 ∧
      (∃ j, O.parse sd.clientData = some j ∧ j.typeField = WEBAUTHN_GET ∧ j.challenge = encode (payload.take 32)) ∧
      32 ≤ payload.length ∧
      verifyRest O key sd.signature sd.authenticatorData sd.clientData = .ok true := by
  unfold verifyLegacy
  simp only [bind_ok_iff, checkClientDataLen_ok, parseClientData_ok, validateExpectedType_ok, validateChallengeLegacy_ok]
  constructor
  · rintro ⟨_, h1, j, h2, _, h3, _, ⟨h4, h5⟩, h6⟩
    exact ⟨h1, ⟨j, h2, h3, h5⟩, h4, h6⟩
  · rintro ⟨h1, ⟨j, h2, h3, h5⟩, h4, h6⟩
    exact ⟨(), h1, j, h2, (), h3, (), ⟨h4, h5⟩, h6⟩

theorem decodeSigData_ok (O : Oracles) (x : Bytes) (sd : SigData) : decodeSigData O x = .ok sd ↔ O.fromXdr x = some sd := by
  unfold decodeSigData
  split
  · next h => rw [h]; constructor <;> intro h' <;> cases h'
  · next sd' h => rw [h]; constructor
                  · intro h'; cases h'; rfl
                  · intro h'; cases h'; rfl

theorem extractPubKey_ok (kd k : Bytes) : extractPubKey kd = .ok k ↔ 65 ≤ kd.length ∧ k = kd.take 65 := by
  unfold extractPubKey
  split
  · next h =>
    constructor
    · intro h'; cases h'
    · rintro ⟨h1, _⟩
      have := (extract_prefix 65 kd (kd.take 65)).mpr ⟨h1, rfl⟩
      rw [h] at this; cases this
  · next p h =>
    obtain ⟨h1, h2⟩ := (extract_prefix 65 kd p).mp h
    subst h2
    constructor
    · intro h'; cases h'; exact ⟨h1, rfl⟩
    · rintro ⟨_, h2⟩; rw [h2]
end OZ.WebAuthn
