import OZ.Lemmas.Access
/-
Per-call lemmas for the access-control model: what each accepted call does to the
membership relation, to the invariant, to the admin / owner sub-machines; the link between
the stored index map and the plain set of granted-not-revoked pairs.
-/
namespace OZ.Access
open OZ.Host

/-- membership as the getter `has_role` reports it -/
def memb (s : State) : PSet := fun a r => (hasRoleQ s a r).isSome

theorem memb_def (s : State) (a r : Nat) : memb s a r = (s.hasRole a r).isSome := rfl

theorem upd2_idem {β} (f : Nat → Nat → β) (a b : Nat) (v : β) :
    upd2 (upd2 f a b v) a b v = upd2 f a b v := by
  funext x y; simp only [upd2]; split <;> rfl

/-! ### grant -/

theorem grantRoleNoAuth_ok {s s' : State} {a r k : Nat} (h : grantRoleNoAuth s a r k = .ok s') :
    ((s.hasRole a r).isSome ∧ s' = s) ∨
    (s.hasRole a r = none ∧ ∃ s1, addToRoleEnumeration s a r = .ok s1 ∧
      s' = emit s1 (.roleGranted r a k)) := by
  unfold grantRoleNoAuth at h
  split at h
  · rename_i hs
    injection h with h
    exact Or.inl ⟨hs, h.symm⟩
  · rename_i hs
    obtain ⟨s1, h1, h2⟩ := bind_eq_ok h
    injection h2 with h2
    refine Or.inr ⟨?_, s1, h1, h2.symm⟩
    simp only [hasRoleQ] at hs
    cases hx : s.hasRole a r with
    | none => rfl
    | some i => rw [hx] at hs; simp at hs

theorem grantRoleNoAuth_effect {s s' : State} {a r k : Nat} (hi : Inv s)
    (h : grantRoleNoAuth s a r k = .ok s') :
    Inv s' ∧ memb s' = upd2 (memb s) a r true ∧ SameRest s s' := by
  rcases grantRoleNoAuth_ok h with ⟨hs, he⟩ | ⟨hn, s1, h1, he⟩
  · subst he
    refine ⟨hi, ?_, ⟨rfl, rfl, rfl⟩⟩
    funext b q
    simp only [upd2]
    split
    · rename_i hbq; rw [hbq.1, hbq.2, memb_def]; exact hs
    · rfl
  · subst he
    have hi1 := add_inv hi hn h1
    obtain ⟨-, h2, -, -, -, hsr, -⟩ := addToRoleEnumeration_ok h1
    refine ⟨hi1.congr rfl rfl (fun _ => rfl) rfl, ?_, hsr⟩
    funext b q
    simp only [memb, hasRoleQ, emit, h2, upd2]
    split <;> rfl

theorem grantRole_ok {s s' : State} {auth : List Nat} {a r k : Nat}
    (h : grantRole s auth a r k = .ok s') :
    k ∈ auth ∧ (isAdmin s k || isAdminRole s r k) = true ∧ grantRoleNoAuth s a r k = .ok s' := by
  unfold grantRole at h
  obtain ⟨_, h1, h⟩ := bind_eq_ok h
  obtain ⟨_, h2, h⟩ := bind_eq_ok h
  exact ⟨requireAuth_ok h1, require_ok h2, h⟩

/-! ### revoke / renounce -/

theorem revokeRoleNoAuth_ok {s s' : State} {a r k : Nat} (h : revokeRoleNoAuth s a r k = .ok s') :
    (s.hasRole a r).isSome ∧ ∃ s1, removeFromRoleEnumeration s a r = .ok s1 ∧
      s' = emit (clearHasRole s1 a r) (.roleRevoked r a k) := by
  unfold revokeRoleNoAuth at h
  split at h
  · cases h
  · rename_i hs
    obtain ⟨s1, h1, h2⟩ := bind_eq_ok h
    injection h2 with h2
    refine ⟨?_, s1, h1, h2.symm⟩
    simp only [hasRoleQ] at hs
    cases hx : s.hasRole a r with
    | none => rw [hx] at hs; simp at hs
    | some i => rfl

/-- the stored index map after a removal: only the removed pair changes its membership -/
theorem removed_memb {s : State} {a r idx la : Nat} (hi : RoleInv s r)
    (hidx : s.hasRole a r = some idx)
    (hla : idx ≠ cnt s r - 1 → s.accounts r (cnt s r - 1) = some la) (b q : Nat) :
    (removedHasRole s a r idx (cnt s r - 1) la b q).isSome
      = upd2 (memb s) a r false b q := by
  unfold removedHasRole
  split
  · simp only [upd2, memb, hasRoleQ]; split <;> rfl
  · rename_i hne
    have hlt := (hi.back a idx hidx).1
    obtain ⟨la2, hl1, hl2⟩ := hi.fwd (cnt s r - 1) (by omega)
    rw [hla hne] at hl1; injection hl1 with hl1; subst hl1
    simp only [upd2, memb, hasRoleQ]
    split
    · rfl
    · split
      · rename_i hbq; rw [hbq.1, hbq.2, hl2]; rfl
      · rfl

theorem revokeRoleNoAuth_effect {s s' : State} {a r k : Nat} (hi : Inv s)
    (h : revokeRoleNoAuth s a r k = .ok s') :
    Inv s' ∧ memb s' = upd2 (memb s) a r false ∧ memb s a r = true ∧ SameRest s s' := by
  obtain ⟨hs, s1, h1, he⟩ := revokeRoleNoAuth_ok h
  subst he
  have hi1 := remove_inv hi h1
  obtain ⟨-, idx, hidx, la, hla, -, h2, -, -, hsr, -⟩ := removeFromRoleEnumeration_ok h1
  have hclear : (clearHasRole s1 a r).hasRole = s1.hasRole := by
    simp only [clearHasRole, h2, removedHasRole]
    split <;> rw [upd2_idem]
  refine ⟨hi1.congr rfl hclear (fun _ => rfl) rfl, ?_, hs, hsr⟩
  funext b q
  have := removed_memb (hi.role r) hidx hla b q
  simp only [memb, hasRoleQ, emit, hclear, h2] at *
  exact this

theorem revokeRole_ok {s s' : State} {auth : List Nat} {a r k : Nat}
    (h : revokeRole s auth a r k = .ok s') :
    k ∈ auth ∧ (isAdmin s k || isAdminRole s r k) = true ∧ revokeRoleNoAuth s a r k = .ok s' := by
  unfold revokeRole at h
  obtain ⟨_, h1, h⟩ := bind_eq_ok h
  obtain ⟨_, h2, h⟩ := bind_eq_ok h
  exact ⟨requireAuth_ok h1, require_ok h2, h⟩

theorem renounceRole_ok {s s' : State} {auth : List Nat} {r k : Nat}
    (h : renounceRole s auth r k = .ok s') : k ∈ auth ∧ revokeRoleNoAuth s k r k = .ok s' := by
  unfold renounceRole at h
  obtain ⟨_, h1, h⟩ := bind_eq_ok h
  exact ⟨requireAuth_ok h1, h⟩

/-! ### the remaining calls leave membership alone -/

theorem setRoleAdmin_ok {s s' : State} {auth : List Nat} {r ar : Nat}
    (h : setRoleAdmin s auth r ar = .ok s') :
    (∃ a, getAdmin s = some a ∧ a ∈ auth) ∧ s' = setRoleAdminNoAuth s r ar := by
  unfold setRoleAdmin at h
  obtain ⟨a, h1, h2⟩ := bind_eq_ok h
  injection h2 with h2
  refine ⟨⟨a, ?_⟩, h2.symm⟩
  unfold enforceAdminAuth at h1
  split at h1
  · rename_i a' ha
    injection h1 with h1; subst h1
    exact OZ.RoleTransfer.enforceHolderAuth_ok ha
  · cases h1

theorem removeRoleAdminNoAuth_ok {s s' : State} {r : Nat} (h : removeRoleAdminNoAuth s r = .ok s') :
    s' = { s with roleAdmin := upd s.roleAdmin r none } := by
  unfold removeRoleAdminNoAuth at h
  split at h
  · injection h with h; exact h.symm
  · cases h

theorem removeCount_ok {s s' : State} {r : Nat} (h : removeRoleAccountsCountNoAuth s r = .ok s') :
    s.count r = some 0 ∧ s' = { s with count := upd s.count r none } := by
  unfold removeRoleAccountsCountNoAuth at h
  split at h
  · rename_i c hc
    split at h
    · rename_i h0; subst h0
      injection h with h; exact ⟨hc, h.symm⟩
    · cases h
  · cases h

theorem liftRT_ok {r : Except OZ.RoleTransfer.Err RT} {k : RT → State} {s' : State}
    (h : liftRT r k = .ok s') : ∃ t, r = .ok t ∧ s' = k t := by
  unfold liftRT at h
  split at h
  · rename_i t; injection h with h; exact ⟨t, rfl, h.symm⟩
  · cases h

theorem keep_ok {s s' : State} {r : Except Err Unit} (h : keep s r = .ok s') : s' = s ∧ r = .ok () := by
  cases r with
  | error e => cases h
  | ok u =>
    simp only [keep] at h
    injection h with h
    exact ⟨h.symm, rfl⟩

/-- what one accepted call does: the invariant survives and the membership relation changes
exactly as the plain set does -/
theorem apply_effect {c : Cfg} {s s' : State} {auth : List Nat} {op : Op} (hi : Inv s)
    (h : apply c s auth op = .ok s') : Inv s' ∧ memb s' = setStep (memb s) op true := by
  cases op with
  | grant a r k =>
    obtain ⟨-, -, h⟩ := grantRole_ok h
    obtain ⟨h1, h2, -⟩ := grantRoleNoAuth_effect hi h
    exact ⟨h1, h2⟩
  | grantNoAuth a r k =>
    obtain ⟨h1, h2, -⟩ := grantRoleNoAuth_effect hi h
    exact ⟨h1, h2⟩
  | revoke a r k =>
    obtain ⟨-, -, h⟩ := revokeRole_ok h
    obtain ⟨h1, h2, -⟩ := revokeRoleNoAuth_effect hi h
    exact ⟨h1, h2⟩
  | revokeNoAuth a r k =>
    obtain ⟨h1, h2, -⟩ := revokeRoleNoAuth_effect hi h
    exact ⟨h1, h2⟩
  | renounce r k =>
    obtain ⟨-, h⟩ := renounceRole_ok h
    obtain ⟨h1, h2, -⟩ := revokeRoleNoAuth_effect hi h
    exact ⟨h1, h2⟩
  | setRoleAdmin r ar =>
    obtain ⟨-, he⟩ := setRoleAdmin_ok h; subst he
    exact ⟨hi.congr rfl rfl (fun _ => rfl) rfl, rfl⟩
  | setRoleAdminNoAuth r ar =>
    simp only [apply] at h; injection h with h; subst h
    exact ⟨hi.congr rfl rfl (fun _ => rfl) rfl, rfl⟩
  | removeRoleAdminNoAuth r =>
    have he := removeRoleAdminNoAuth_ok h; subst he
    exact ⟨hi.congr rfl rfl (fun _ => rfl) rfl, rfl⟩
  | removeCountNoAuth r =>
    obtain ⟨hc, he⟩ := removeCount_ok h; subst he
    refine ⟨hi.congr rfl rfl ?_ rfl, rfl⟩
    intro q
    unfold cnt
    by_cases hq : q = r
    · subst hq; simp only [upd_same', hc]; rfl
    · simp only [upd_ne' _ _ _ _ hq]
  | adm o =>
    obtain ⟨t, -, he⟩ := liftRT_ok h; subst he
    exact ⟨hi.congr rfl rfl (fun _ => rfl) rfl, rfl⟩
  | own o =>
    obtain ⟨t, -, he⟩ := liftRT_ok h; subst he
    exact ⟨hi.congr rfl rfl (fun _ => rfl) rfl, rfl⟩
  | onlyRole k r b => obtain ⟨he, -⟩ := keep_ok h; subst he; exact ⟨hi, rfl⟩
  | hasRole k r ba b => obtain ⟨he, -⟩ := keep_ok h; subst he; exact ⟨hi, rfl⟩
  | hasAnyRole k rs ba => obtain ⟨he, -⟩ := keep_ok h; subst he; exact ⟨hi, rfl⟩
  | onlyAnyRole k rs => obtain ⟨he, -⟩ := keep_ok h; subst he; exact ⟨hi, rfl⟩
  | ensureAdminOrRole r k => obtain ⟨he, -⟩ := keep_ok h; subst he; exact ⟨hi, rfl⟩
  | advance n =>
    simp only [apply] at h; injection h with h; subst h
    exact ⟨hi.congr rfl rfl (fun _ => rfl) rfl, rfl⟩

/-! ### invariant of the ghosted run -/

structure GInv (x : GS) : Prop where
  inv : Inv x.s
  set : memb x.s = x.g

theorem initG_ginv (admin owner : Option Nat) (now : Nat) : GInv (initG admin owner now) :=
  ⟨init_inv admin owner now, rfl⟩

theorem stepG_ginv (c : Cfg) {x : GS} (hx : GInv x) (a : List Nat × Op) : GInv (stepG c x a) := by
  unfold stepG
  cases h : apply c x.s a.1 a.2 with
  | error e => exact ⟨hx.inv, by simpa [setStep] using hx.set⟩
  | ok s' =>
    obtain ⟨h1, h2⟩ := apply_effect hx.inv h
    exact ⟨h1, by simp only; rw [h2, hx.set]⟩

theorem runG_ginv (c : Cfg) {x : GS} (hx : GInv x) (ops : List (List Nat × Op)) :
    GInv (runG c x ops) := by
  induction ops generalizing x with
  | nil => exact hx
  | cons a as ih => exact ih (stepG_ginv c hx a)

theorem reachable_ginv (c : Cfg) (admin owner : Option Nat) (now : Nat)
    (ops : List (List Nat × Op)) : GInv (runG c (initG admin owner now) ops) :=
  runG_ginv c (initG_ginv admin owner now) ops

theorem runG_s (c : Cfg) (x : GS) (ops : List (List Nat × Op)) :
    (runG c x ops).s = run c x.s ops := by
  induction ops generalizing x with
  | nil => rfl
  | cons a as ih =>
    simp only [runG, run, List.foldl_cons] at *
    rw [ih]
    congr 1
    unfold stepG step
    cases apply c x.s a.1 a.2 <;> rfl

/-! ### the admin / owner sub-machines evolve on their own -/

theorem grantRoleNoAuth_rest {s s' : State} {a r k : Nat} (h : grantRoleNoAuth s a r k = .ok s') :
    SameRest s s' := by
  rcases grantRoleNoAuth_ok h with ⟨-, he⟩ | ⟨-, s1, h1, he⟩
  · subst he; exact ⟨rfl, rfl, rfl⟩
  · subst he
    obtain ⟨-, -, -, -, -, hsr, -⟩ := addToRoleEnumeration_ok h1
    exact hsr

theorem revokeRoleNoAuth_rest {s s' : State} {a r k : Nat} (h : revokeRoleNoAuth s a r k = .ok s') :
    SameRest s s' := by
  obtain ⟨-, s1, h1, he⟩ := revokeRoleNoAuth_ok h
  subst he
  obtain ⟨-, idx, -, la, -, -, -, -, -, hsr, -⟩ := removeFromRoleEnumeration_ok h1
  exact hsr

def Op.touchesAdm : Op → Bool
  | .adm _ => true
  | .advance _ => true
  | _ => false

def Op.touchesOwn : Op → Bool
  | .own _ => true
  | .advance _ => true
  | _ => false

/-- calls that are not addressed to the admin (owner) machine leave it alone -/
theorem apply_frame {c : Cfg} {s s' : State} {auth : List Nat} {op : Op}
    (h : apply c s auth op = .ok s') :
    (op.touchesAdm = false → s'.adm = s.adm) ∧ (op.touchesOwn = false → s'.own = s.own) := by
  cases op with
  | grant a r k =>
    obtain ⟨-, -, h⟩ := grantRole_ok h
    obtain ⟨-, h1, h2⟩ := grantRoleNoAuth_rest h
    exact ⟨fun _ => h1, fun _ => h2⟩
  | grantNoAuth a r k =>
    obtain ⟨-, h1, h2⟩ := grantRoleNoAuth_rest h
    exact ⟨fun _ => h1, fun _ => h2⟩
  | revoke a r k =>
    obtain ⟨-, -, h⟩ := revokeRole_ok h
    obtain ⟨-, h1, h2⟩ := revokeRoleNoAuth_rest h
    exact ⟨fun _ => h1, fun _ => h2⟩
  | revokeNoAuth a r k =>
    obtain ⟨-, h1, h2⟩ := revokeRoleNoAuth_rest h
    exact ⟨fun _ => h1, fun _ => h2⟩
  | renounce r k =>
    obtain ⟨-, h⟩ := renounceRole_ok h
    obtain ⟨-, h1, h2⟩ := revokeRoleNoAuth_rest h
    exact ⟨fun _ => h1, fun _ => h2⟩
  | setRoleAdmin r ar => obtain ⟨-, he⟩ := setRoleAdmin_ok h; subst he; exact ⟨fun _ => rfl, fun _ => rfl⟩
  | setRoleAdminNoAuth r ar =>
    simp only [apply] at h; injection h with h; subst h; exact ⟨fun _ => rfl, fun _ => rfl⟩
  | removeRoleAdminNoAuth r =>
    have he := removeRoleAdminNoAuth_ok h; subst he; exact ⟨fun _ => rfl, fun _ => rfl⟩
  | removeCountNoAuth r =>
    obtain ⟨-, he⟩ := removeCount_ok h; subst he; exact ⟨fun _ => rfl, fun _ => rfl⟩
  | adm o =>
    obtain ⟨t, -, he⟩ := liftRT_ok h; subst he
    exact ⟨fun hh => by simp [Op.touchesAdm] at hh, fun _ => rfl⟩
  | own o =>
    obtain ⟨t, -, he⟩ := liftRT_ok h; subst he
    exact ⟨fun _ => rfl, fun hh => by simp [Op.touchesOwn] at hh⟩
  | onlyRole k r b => obtain ⟨he, -⟩ := keep_ok h; subst he; exact ⟨fun _ => rfl, fun _ => rfl⟩
  | hasRole k r ba b => obtain ⟨he, -⟩ := keep_ok h; subst he; exact ⟨fun _ => rfl, fun _ => rfl⟩
  | hasAnyRole k rs ba => obtain ⟨he, -⟩ := keep_ok h; subst he; exact ⟨fun _ => rfl, fun _ => rfl⟩
  | onlyAnyRole k rs => obtain ⟨he, -⟩ := keep_ok h; subst he; exact ⟨fun _ => rfl, fun _ => rfl⟩
  | ensureAdminOrRole r k => obtain ⟨he, -⟩ := keep_ok h; subst he; exact ⟨fun _ => rfl, fun _ => rfl⟩
  | advance n => exact ⟨fun hh => by simp [Op.touchesAdm] at hh, fun hh => by simp [Op.touchesOwn] at hh⟩

/-- the call as seen by the admin machine -/
def projAdm : List Nat × Op → List (List Nat × OZ.RoleTransfer.Op)
  | (auth, .adm (.advance _)) => [(auth, .guarded)]     -- always rejected: a call that changes nothing
  | (auth, .adm o) => [(auth, o)]
  | (_, .advance n) => [([], .advance n)]
  | _ => []

/-- the call as seen by the owner machine -/
def projOwn : List Nat × Op → List (List Nat × OZ.RoleTransfer.Op)
  | (auth, .own (.advance _)) => [(auth, .guarded)]
  | (auth, .own o) => [(auth, o)]
  | (_, .advance n) => [([], .advance n)]
  | _ => []

theorem guarded_step (c : Cfg) (f : OZ.RoleTransfer.Flavor) (t : RT) (auth : List Nat) :
    (OZ.RoleTransfer.step c f t (auth, .guarded)) = t := by
  unfold OZ.RoleTransfer.step
  cases h : OZ.RoleTransfer.apply c f t auth .guarded with
  | error e => rfl
  | ok t' => exact (OZ.RoleTransfer.guarded_ok h).1

theorem sub_step (c : Cfg) (f : OZ.RoleTransfer.Flavor) (t : RT) (auth : List Nat)
    (o : OZ.RoleTransfer.Op) (hno : ∀ n, o ≠ .advance n) :
    (match subOp c f t auth o with | .ok t' => t' | .error _ => t)
      = OZ.RoleTransfer.step c f t (auth, o) := by
  unfold OZ.RoleTransfer.step
  cases o with
  | advance n => exact absurd rfl (hno n)
  | offer new lu => simp only [subOp]; cases OZ.RoleTransfer.apply c f t auth (.offer new lu) <;> rfl
  | accept => simp only [subOp]; cases OZ.RoleTransfer.apply c f t auth (.accept) <;> rfl
  | renounce => simp only [subOp]; cases OZ.RoleTransfer.apply c f t auth (.renounce) <;> rfl
  | guarded => simp only [subOp]; cases OZ.RoleTransfer.apply c f t auth (.guarded) <;> rfl

theorem step_adm (c : Cfg) (s : State) (a : List Nat × Op) :
    (step c s a).adm = OZ.RoleTransfer.run c .admin s.adm (projAdm a) := by
  obtain ⟨auth, op⟩ := a
  cases ht : op.touchesAdm with
  | false =>
    have hp : projAdm (auth, op) = [] := by cases op <;> simp_all [projAdm, Op.touchesAdm]
    rw [hp]
    unfold step
    cases h : apply c s auth op with
    | error e => rfl
    | ok s' => exact (apply_frame h).1 ht
  | true =>
    cases op <;> simp [Op.touchesAdm] at ht
    · rename_i o
      unfold step
      cases o with
      | advance n =>
        simp only [apply, subOp, liftRT, projAdm, OZ.RoleTransfer.run, List.foldl_cons, List.foldl_nil]
        rw [guarded_step]
      | offer new lu =>
        simp only [projAdm, OZ.RoleTransfer.run, List.foldl_cons, List.foldl_nil,
          ← sub_step c .admin s.adm auth (.offer new lu) (fun n => by simp), apply]
        cases subOp c .admin s.adm auth (.offer new lu) <;> rfl
      | accept =>
        simp only [projAdm, OZ.RoleTransfer.run, List.foldl_cons, List.foldl_nil,
          ← sub_step c .admin s.adm auth .accept (fun n => by simp), apply]
        cases subOp c .admin s.adm auth .accept <;> rfl
      | renounce =>
        simp only [projAdm, OZ.RoleTransfer.run, List.foldl_cons, List.foldl_nil,
          ← sub_step c .admin s.adm auth .renounce (fun n => by simp), apply]
        cases subOp c .admin s.adm auth .renounce <;> rfl
      | guarded =>
        simp only [projAdm, OZ.RoleTransfer.run, List.foldl_cons, List.foldl_nil,
          ← sub_step c .admin s.adm auth .guarded (fun n => by simp), apply]
        cases subOp c .admin s.adm auth .guarded <;> rfl
    · rfl

theorem step_own (c : Cfg) (s : State) (a : List Nat × Op) :
    (step c s a).own = OZ.RoleTransfer.run c .owner s.own (projOwn a) := by
  obtain ⟨auth, op⟩ := a
  cases ht : op.touchesOwn with
  | false =>
    have hp : projOwn (auth, op) = [] := by cases op <;> simp_all [projOwn, Op.touchesOwn]
    rw [hp]
    unfold step
    cases h : apply c s auth op with
    | error e => rfl
    | ok s' => exact (apply_frame h).2 ht
  | true =>
    cases op <;> simp [Op.touchesOwn] at ht
    · rename_i o
      unfold step
      cases o with
      | advance n =>
        simp only [apply, subOp, liftRT, projOwn, OZ.RoleTransfer.run, List.foldl_cons, List.foldl_nil]
        rw [guarded_step]
      | offer new lu =>
        simp only [projOwn, OZ.RoleTransfer.run, List.foldl_cons, List.foldl_nil,
          ← sub_step c .owner s.own auth (.offer new lu) (fun n => by simp), apply]
        cases subOp c .owner s.own auth (.offer new lu) <;> rfl
      | accept =>
        simp only [projOwn, OZ.RoleTransfer.run, List.foldl_cons, List.foldl_nil,
          ← sub_step c .owner s.own auth .accept (fun n => by simp), apply]
        cases subOp c .owner s.own auth .accept <;> rfl
      | renounce =>
        simp only [projOwn, OZ.RoleTransfer.run, List.foldl_cons, List.foldl_nil,
          ← sub_step c .owner s.own auth .renounce (fun n => by simp), apply]
        cases subOp c .owner s.own auth .renounce <;> rfl
      | guarded =>
        simp only [projOwn, OZ.RoleTransfer.run, List.foldl_cons, List.foldl_nil,
          ← sub_step c .owner s.own auth .guarded (fun n => by simp), apply]
        cases subOp c .owner s.own auth .guarded <;> rfl
    · rfl

theorem run_adm (c : Cfg) (s : State) (ops : List (List Nat × Op)) :
    (run c s ops).adm = OZ.RoleTransfer.run c .admin s.adm (ops.flatMap projAdm) := by
  induction ops generalizing s with
  | nil => rfl
  | cons a as ih =>
    simp only [run, List.foldl_cons, List.flatMap_cons] at *
    rw [ih, step_adm]
    simp only [OZ.RoleTransfer.run, List.foldl_append]

theorem run_own (c : Cfg) (s : State) (ops : List (List Nat × Op)) :
    (run c s ops).own = OZ.RoleTransfer.run c .owner s.own (ops.flatMap projOwn) := by
  induction ops generalizing s with
  | nil => rfl
  | cons a as ih =>
    simp only [run, List.foldl_cons, List.flatMap_cons] at *
    rw [ih, step_own]
    simp only [OZ.RoleTransfer.run, List.foldl_append]

/-! ### small facts used by the guard theorems -/

/-- every state reached from an initial one satisfies the storage invariant -/
theorem reachable_inv (c : Cfg) (admin owner : Option Nat) (now : Nat) (ops : List (List Nat × Op)) :
    Inv (run c (init admin owner now) ops) := by
  have := (reachable_ginv c admin owner now ops).inv
  rwa [runG_s] at this

theorem enforceAdminAuth_iff (s : State) (auth : List Nat) :
    (∃ a, enforceAdminAuth s auth = .ok a) ↔ ∃ a, getAdmin s = some a ∧ a ∈ auth := by
  rw [show getAdmin s = s.adm.holder from rfl, ← OZ.RoleTransfer.enforceHolderAuth_iff s.adm auth]
  unfold enforceAdminAuth
  constructor
  · rintro ⟨a, h⟩
    split at h
    · rename_i a' ha; exact ⟨a', ha⟩
    · cases h
  · rintro ⟨a, h⟩
    exact ⟨a, by rw [h]⟩


theorem keep_iff (s : State) (r : Except Err Unit) : (∃ s', keep s r = .ok s') ↔ r = .ok () := by
  constructor
  · rintro ⟨s', h⟩; exact (keep_ok h).2
  · intro h; rw [h]; exact ⟨s, rfl⟩

theorem require_iff (b : Bool) (e : Err) : require b e = .ok () ↔ b = true := by
  cases b <;> simp [require]

theorem bind_unit_iff {x : Except Err Unit} {y : Except Err Unit} :
    (x >>= fun _ => y) = .ok () ↔ x = .ok () ∧ y = .ok () := by
  cases x with
  | error e =>
    constructor
    · intro h; cases h
    · intro h; cases h.1
  | ok u => cases u; exact ⟨fun h => ⟨rfl, h⟩, fun h => h.2⟩

theorem anyRole_iff (s : State) (k : Nat) (rs : List Nat) :
    anyRole s k rs = true ↔ ∃ r, r ∈ rs ∧ memb s k r = true := by
  unfold anyRole
  rw [List.any_eq_true]
  rfl

end OZ.Access
