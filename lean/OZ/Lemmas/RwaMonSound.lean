import OZ.Lemmas.RwaMonChecks
/-
Helper lemmas for the monitor-soundness theorem of C04, part 4: the checks on the model's
observation of a REJECTED call, the assembly of the 23 checks into `verdict = none`
(`verdict_ok`, `verdict_err`), and the preservation of the reachable-state facts (`good_ok`,
`good_envMod`).
-/
namespace OZ.Rwa.Mon
open OZ.Host OZ.Fungible OZ.Rwa

theorem verdict_none {admin : Nat} {reg : List (List Nat)} {p : Obs} {l : Line} {rep : List Int} {o : Obs}
    (h1 : vGateTransfer reg p l o = none) (h2 : vGateTransferFrom reg p l o = none)
    (h3 : vGateMint reg p l o = none) (h4 : vFrozenLeBalance o = none)
    (h5 : vForcedUnfreeze p l o = none) (h6 : vBurnUnfreeze p l o = none)
    (h7 : vRecover p l o = none) (h8 : vMove p l o = none)
    (h9 : vFrameFrozen p l o = none) (h10 : vFrameAddrFrozen p l o = none)
    (h11 : vFreezeEffect p l o = none) (h12 : vUnfreezeEffect p l o = none)
    (h13 : vNotify p l o = none) (h14 : vBound p l o = none)
    (h15 : vFanout reg p l o = none) (h16 : vConsulted reg l o = none)
    (h17 : vRegistry reg l o = none) (h18 : vAddModule reg l o = none)
    (h19 : vRemoveModule reg l o = none) (h20 : vOperator admin l o = none)
    (h21 : vSum o = none) (h22 : vRollback p o = none) (h23 : vReplay rep o = none) :
    verdict admin reg p l rep o = none := by
  unfold verdict
  rw [h1, h2, h3, h4, h5, h6, h7, h8, h9, h10, h11, h12, h13, h14, h15, h16, h17, h18, h19, h20, h21, h22, h23]
  rfl

/-! ### the accepted call -/

theorem obsOk_replay {s s' : State} {r : Bool} {op : Op} {cs' : List Comp} {rep : List Int}
    (hrep : rep = (List.range N).map s.base.bal) (hr : ReplayOK s) (hr' : ReplayOK s') (he : EvExt s s') :
    (obsOk s s' r op cs').evs.foldl replayBase rep = (List.range N).map s'.base.bal := by
  rw [hrep]
  exact replay_step_list N hr hr' he

/-- the reachable-state facts survive an accepted call that does not re-script a module -/
theorem good_ok {c : Cfg} {s s' : State} {cs : List Comp} {auth : List Nat} {op : Op} {r : Bool}
    (hg : Good s cs) (hU : ∀ a ∈ op.addrs, a < N) (hE : isEnvModule op = false)
    (h : applyRet c s auth op = .ok (s', r)) : Good s' cs := by
  have ha := applyRet_apply h
  have q := apply_post c hg.frozen auth _ h
  obtain ⟨e1, e2⟩ := q.scripts hE
  refine ⟨(apply_inv_aux List.nodup_range c hg.inv auth op (fun a ha => List.mem_range.mpr (hU a ha)) ha).1,
    apply_frozenInv_aux c hg.frozen auth op ha, apply_modsNodup_aux c hg.nodup auth op ha,
    apply_replay_aux c hg.replay auth op ha, ?_, hg.len⟩
  unfold CompInv
  rw [e1, e2]
  exact hg.comp

theorem setAt_length {α} (l : List α) (i : Nat) (v : α) : (setAt l i v).length = l.length := by
  simp [setAt]

theorem getD_beyond {α} (l : List α) (m : Nat) (d : α) (h : l.length ≤ m) : l.getD m d = d := by
  simp [List.getD_eq_getElem?_getD, List.getElem?_eq_none h]

theorem getD_setAt {α} (l : List α) (i m : Nat) (v d : α) :
    (setAt l i v).getD m d = if m = i ∧ i < l.length then v else l.getD m d := by
  unfold setAt
  rw [List.getD_eq_getElem?_getD, List.getD_eq_getElem?_getD, List.getElem?_mapIdx]
  by_cases hm : m < l.length
  · rw [List.getElem?_eq_getElem hm]
    simp only [Option.map_some, Option.getD_some]
    by_cases hmi : m = i
    · subst hmi; rw [if_pos rfl, if_pos ⟨rfl, hm⟩]
    · rw [if_neg hmi, if_neg (fun e => hmi e.1)]
  · rw [List.getElem?_eq_none (by omega)]
    simp only [Option.map_none, Option.getD_none]
    rw [if_neg (fun (e : m = i ∧ i < l.length) => hm (e.1 ▸ e.2))]

/-- re-scripting module `i` with the script `k` (an `env_mod` line) keeps the reachable-state facts -/
theorem good_envMod {c : Cfg} {s s' : State} {cs : List Comp} {auth : List Nat} {i : Nat} {k : Comp} {r : Bool}
    (hg : Good s cs) (h : applyRet c s auth (.envModule i k.canTransfer k.canCreate) = .ok (s', r)) :
    Good s' (setAt cs i k) := by
  have ha := applyRet_apply h
  have e := apply_envModule ha
  subst e
  refine ⟨hg.inv, hg.frozen, hg.nodup, hg.replay, ⟨?_, ?_⟩, by rw [setAt_length]; exact hg.len⟩
  · intro m f t a hmax hv
    rw [getD_setAt]
    by_cases hmi : m = i
    · subst hmi
      have hv' : k.canTransfer f t a = true := by simpa [upd] using hv
      by_cases hl : m < cs.length
      · rw [if_pos ⟨rfl, hl⟩]; exact hv'
      · rw [if_neg (fun e => hl e.2), getD_beyond _ _ _ (by omega)]
        exact default_canTransfer f t a hmax
    · rw [if_neg (fun e => hmi e.1)]
      have hv' : s.modCanTransfer m f t a = true := by simpa [upd, hmi] using hv
      exact hg.comp.1 m f t a hmax hv'
  · intro m t a hmax hv
    rw [getD_setAt]
    by_cases hmi : m = i
    · subst hmi
      have hv' : k.canCreate t a = true := by simpa [upd] using hv
      by_cases hl : m < cs.length
      · rw [if_pos ⟨rfl, hl⟩]; exact hv'
      · rw [if_neg (fun e => hl e.2), getD_beyond _ _ _ (by omega)]
        exact default_canCreate t a hmax
    · rw [if_neg (fun e => hmi e.1)]
      have hv' : s.modCanCreate m t a = true := by simpa [upd, hmi] using hv
      exact hg.comp.2 m t a hmax hv'

/-- **accepted call**: none of the 23 checks fires on the model's own observation -/
theorem verdict_ok {c : Cfg} {s s' : State} {cs cs' : List Comp} {p : Obs} {auth : List Nat} {op : Op} {r : Bool}
    {admin : Nat} {rep : List Int} (x : Int) (y : Nat)
    (hg : Good s cs) (hp : Shows p s cs) (hadm : admin = s.admin) (hrep : rep = (List.range N).map s.base.bal)
    (hU : ∀ a ∈ op.addrs, a < N) (h : applyRet c s auth op = .ok (s', r)) :
    verdict admin (regOf s) p (lineOf op x y) ((obsOk s s' r op cs').evs.foldl replayBase rep)
      (obsOk s s' r op cs') = none := by
  have ha := applyRet_apply h
  have hi' := (apply_inv_aux List.nodup_range c hg.inv auth op (fun a ha => List.mem_range.mpr (hU a ha)) ha).1
  have hf' := apply_frozenInv_aux c hg.frozen auth op ha
  have hr' := apply_replay_aux c hg.replay auth op ha
  exact verdict_none (vGateTransfer_ok hg hp hU h) (vGateTransferFrom_ok hg hp hU h) (vGateMint_ok hg hp hU h)
    (vFrozenLeBalance_of hf' rfl rfl) (vForcedUnfreeze_ok hg hp hU h) (vBurnUnfreeze_ok hg hp hU h)
    (vRecover_ok hg hp hU h) (vMove_ok hg hp hU h) (vFrameFrozen_ok hg hp h) (vFrameAddrFrozen_ok hg hp h)
    (vFreezeEffect_ok hg hp h) (vUnfreezeEffect_ok hg hp h) (vNotify_ok hg hp hU h) (vBound_ok hg hp hU h)
    (vFanout_ok hg hp hU h) (vConsulted_ok hg h) (vRegistry_ok hg h) (vAddModule_ok h) (vRemoveModule_ok h)
    (vOperator_ok hadm h) (vSum_of hi' rfl rfl) (vRollback_ok p)
    (vReplay_of (obsOk_replay hrep hg.replay hr' (apply_events c auth op ha)))

/-! ### the rejected call: the observation `obsErr s cs` shows the unchanged state -/

/-- **rejected call**: none of the 23 checks fires on the model's own observation -/
theorem verdict_err {s : State} {cs : List Comp} {p : Obs} {admin : Nat} {rep : List Int} (l : Line)
    (hg : Good s cs) (hp : Shows p s cs) (hrep : rep = (List.range N).map s.base.bal) :
    verdict admin (regOf s) p l ((obsErr s cs).evs.foldl replayBase rep) (obsErr s cs) = none := by
  have nok : ∀ {q : Prop}, ¬ ((obsErr s cs).ok = true ∧ q) := fun e => Bool.false_ne_true e.1
  have nok' : ¬ ((obsErr s cs).ok = true) := Bool.false_ne_true
  apply verdict_none
  · unfold vGateTransfer; rw [if_neg nok]
  · unfold vGateTransferFrom; rw [if_neg nok]
  · unfold vGateMint; rw [if_neg nok]
  · exact vFrozenLeBalance_of hg.frozen rfl rfl
  · unfold vForcedUnfreeze; rw [if_neg nok]
  · unfold vBurnUnfreeze; rw [if_neg nok]
  · unfold vRecover; rw [if_neg nok]
  · unfold vMove; rw [if_neg nok']
  · unfold vFrameFrozen; rw [if_neg nok]
  · unfold vFrameAddrFrozen; rw [if_neg nok]
  · unfold vFreezeEffect; rw [if_neg nok]
  · unfold vUnfreezeEffect; rw [if_neg nok]
  · unfold vNotify owed
    rw [if_pos nok']
    exact orFail_true _ rfl
  · unfold vBound; rw [if_neg nok]
  · unfold vFanout owedHooks
    rw [if_pos nok']
    exact orFail_true _ rfl
  · unfold vConsulted; rw [if_neg nok']
  · unfold vRegistry ghostReg
    rw [if_neg nok, if_neg nok]
    exact orFail_true _ (beq_self_eq_true (regOf s))
  · unfold vAddModule; rw [if_neg nok]
  · unfold vRemoveModule; rw [if_neg nok]
  · unfold vOperator; rw [if_neg nok]
  · exact vSum_of hg.inv rfl rfl
  · unfold vRollback
    rw [if_pos nok']
    apply orFail_true
    show ((s.base.supply == p.sup && (List.range N).map s.base.bal == p.bal && allowList s == p.allow
      && (List.range N).map s.frozen == p.ft && (List.range N).map s.addrFrozen == p.af && s.paused == p.paused
      && s.bound == p.bound && regOf s == p.mods && ([] : List (Nat × ModCall)).isEmpty) = true)
    rw [hp.sup, hp.bal, hp.allow, hp.ft, hp.af, hp.paused, hp.bound, hp.mods]
    simp
  · exact vReplay_of hrep

end OZ.Rwa.Mon
