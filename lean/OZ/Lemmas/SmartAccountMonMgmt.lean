import OZ.Lemmas.SmartAccountMon
/-
Helper lemmas for the soundness proof of the C03 monitor (OZ/Props/C03Mon.lean), part 3:
the getters of a model store agree with its ghost list (`getterCheck_quiet`), and every accepted
rule-management operation changes the ghost list `allRules` exactly as the monitor's `ghostApply`
does (`ghost_add`, `ghost_rm`, `ghost_vu`, `ghost_name`, `ghost_adds`, `ghost_rms`, `ghost_addp`,
`ghost_rmp`); the `_shape` lemmas give the store (incl. the fingerprint set) after each operation.
-/
namespace OZ.SmartAccount.Mon
open OZ.SmartAccount

/-! ### the getters of a model store against its ghost list -/

theorem rulesOfType_eq {s : Store} (hI : Inv s) (t : RuleType) :
    rulesOfType s t = byIdAsc ((allRules s).filter (fun g => g.ty == t)) ∧ typeFails s t = false := by
  obtain ⟨rs, hrs, hmap⟩ := getContextRules_toG s (s.ids t) (inv_ids_get hI t)
  unfold rulesOfType typeFails
  rw [hrs]
  refine ⟨?_, rfl⟩
  dsimp only
  rw [byIdAsc_of_sorted _ ((allRules_sorted s).sublist List.filter_sublist), allRules_filter_ty hI, hmap]

theorem storeRules_eq {s : Store} (hI : Inv s) :
    typeUniverse.flatMap (rulesOfType s) = expectRules (allRules s) := by
  unfold expectRules
  congr 1
  funext t
  exact (rulesOfType_eq hI t).1

theorem storeFlag_eq {s : Store} (hI : Inv s) : typeUniverse.any (typeFails s) = false := by
  rw [List.any_eq_false]
  intro t _
  rw [(rulesOfType_eq hI t).2]; simp

theorem idTyOf_eq (s : Store) (id : Nat) : idTyOf s id = (gAt s id).map (fun g => (g.id, g.ty)) := by
  unfold idTyOf gAt
  cases h : getContextRule s id with
  | error e => rfl
  | ok r => simp [toG, getContextRule_id h]

theorem storeIds_eq {s : Store} (hI : Inv s) :
    (List.range (s.nextId + 2)).filterMap (idTyOf s) = expectIds (allRules s) := by
  unfold expectIds
  rw [byIdAsc_of_sorted _ (allRules_sorted s)]
  unfold allRules
  rw [List.map_filterMap]
  have hr : List.range (s.nextId + 2) = List.range s.nextId ++ [s.nextId, s.nextId + 1] := by
    rw [List.range_succ, List.range_succ]; simp
  rw [hr, List.filterMap_append]
  have h1 : idTyOf s s.nextId = none := by rw [idTyOf_eq, gAt_none_of_ge hI (Nat.le_refl _)]; rfl
  have h2 : idTyOf s (s.nextId + 1) = none := by rw [idTyOf_eq, gAt_none_of_ge hI (Nat.le_succ _)]; rfl
  rw [List.filterMap_cons_none h1, List.filterMap_cons_none h2, List.filterMap_nil, List.append_nil]
  apply filterMap_congr'
  intro id _
  exact idTyOf_eq s id

theorem overLimit_false {s : Store} (hI : Inv s) {g : GRule} (hg : g ∈ allRules s) : overLimit g = false := by
  obtain ⟨r, hr, hgr⟩ := (mem_allRules hI).mp hg
  obtain ⟨m, hm, _, _, _, hsg, hpl⟩ := getContextRule_fields hr
  have hne := hI.nonempty g.id m hm
  rw [← hsg, ← hpl] at hne
  have hs : r.signers.length ≤ 15 := by
    rw [hsg]
    cases hq : s.signers g.id with
    | none => simp
    | some l => exact (hI.signers_ok _ l hq).2
  have hp : r.policies.length ≤ 5 := by
    rw [hpl]
    cases hq : s.policies g.id with
    | none => simp
    | some l => exact (hI.policies_ok _ l hq).2
  unfold overLimit
  rw [← hgr]
  show decide (r.signers.length > 15 ∨ r.policies.length > 5 ∨ (r.signers.isEmpty && r.policies.isEmpty) = true) = false
  rw [decide_eq_false_iff_not]
  rintro (h | h | h)
  · omega
  · omega
  · apply hne
    simp only [Bool.and_eq_true, List.isEmpty_iff] at h
    exact h

/-- the getter part of the monitor is silent on a model store and its ghost list -/
theorem getterCheck_quiet {st : St} (hI : Inv st.s) (r : MRes) :
    getterCheck (allRules st.s) (modelObs st r) = none := by
  unfold getterCheck
  rw [if_neg (by simp [modelObs, storeFlag_eq hI])]
  rw [if_neg (by simp [modelObs, storeRules_eq hI])]
  rw [if_neg (by simp [modelObs, storeIds_eq hI])]
  rw [if_neg (by simp [modelObs, allRules_length hI])]
  rw [if_neg]
  rintro (h | h)
  · rw [allRules_length hI] at h
    have := hI.count_le
    unfold MAX_CONTEXT_RULES at this
    omega
  · rw [List.any_eq_true] at h
    obtain ⟨g, hg, ho⟩ := h
    rw [overLimit_false hI hg] at ho; cases ho

/-! ### the ghost list through the management operations -/

/-- `gAt` in terms of the storage maps -/
def gOf (s : Store) (j : Nat) : Option GRule :=
  (s.metas j).map (fun m => ⟨j, m.ctype, m.validUntil, (s.signers j).getD [], (s.policies j).getD []⟩)

theorem gAt_eq (s : Store) (j : Nat) : gAt s j = gOf s j := by
  unfold gAt gOf getContextRule
  cases s.metas j <;> rfl

theorem allRules_congr {s s' : Store} (hn : s'.nextId = s.nextId) (h : ∀ j, gAt s' j = gAt s j) :
    allRules s' = allRules s := by
  unfold allRules; rw [hn]; exact filterMap_congr' _ _ _ (fun j _ => h j)

theorem allRules_modify {s s' : Store} (hn : s'.nextId = s.nextId) (id : Nat) (f : GRule → GRule)
    (h : ∀ j, gAt s' j = (gAt s j).map (fun g => if g.id == id then f g else g)) :
    allRules s' = modify (allRules s) id f := by
  unfold allRules modify
  rw [hn, List.map_filterMap]
  exact filterMap_congr' _ _ _ (fun j _ => h j)

theorem allRules_remove {s s' : Store} (hn : s'.nextId = s.nextId) (id : Nat)
    (h : ∀ j, gAt s' j = if j = id then none else gAt s j) :
    allRules s' = (allRules s).filter (fun r => r.id != id) := by
  unfold allRules
  rw [hn, List.filter_filterMap]
  apply filterMap_congr'
  intro j _
  rw [h j]
  by_cases e : j = id
  · rw [if_pos e]
    cases hg : gAt s j with
    | none => rfl
    | some g => have := gAt_id hg; simp [Option.filter, this, e]
  · rw [if_neg e]
    cases hg : gAt s j with
    | none => rfl
    | some g => have := gAt_id hg; simp [Option.filter, this, e]

/-! #### shapes of the accepted operations -/

/-- the fingerprint of a stored rule -/
def fpOf (r : Rule) : Fp := ⟨r.ctype, r.signers, r.policies⟩

theorem computeFingerprint_val {t : RuleType} {sg : List Signer} {ps : List Nat} {fp : Fp}
    (h : computeFingerprint t sg ps = .ok fp) : fp = ⟨t, sg, ps⟩ := by
  unfold computeFingerprint at h
  by_cases h1 : hasDup sg = true
  · rw [if_pos h1] at h; cases h
  · rw [if_neg h1] at h
    by_cases h2 : hasDup ps = true
    · rw [if_pos h2] at h; cases h
    · rw [if_neg h2] at h; injection h with h; exact h.symm

theorem validateAndSetFingerprint_fps {s s1 : Store} {t : RuleType} {sg : List Signer} {ps : List Nat}
    (h : validateAndSetFingerprint s t sg ps = .ok s1) :
    s1 = { s with fps := ⟨t, sg, ps⟩ :: s.fps } ∧ s.fps.any (fpEq ⟨t, sg, ps⟩) = false := by
  unfold validateAndSetFingerprint at h
  cases hc : computeFingerprint t sg ps with
  | error e => rw [hc] at h; cases h
  | ok fp =>
    rw [hc] at h
    dsimp only at h
    have := computeFingerprint_val hc
    subst this
    by_cases ha : s.fps.any (fpEq ⟨t, sg, ps⟩) = true
    · rw [if_pos ha] at h; cases h
    · rw [if_neg ha] at h
      injection h with h
      exact ⟨h.symm, by simpa using ha⟩

theorem removeFingerprint_fps {s s1 : Store} {t : RuleType} {sg : List Signer} {ps : List Nat}
    (h : removeFingerprint s t sg ps = .ok s1) :
    s1 = { s with fps := s.fps.filter (fun x => !(fpEq ⟨t, sg, ps⟩ x)) } := by
  unfold removeFingerprint at h
  cases hc : computeFingerprint t sg ps with
  | error e => rw [hc] at h; cases h
  | ok fp =>
    rw [hc] at h
    dsimp only at h
    have := computeFingerprint_val hc
    subst this
    injection h with h
    exact h.symm

/-- the fingerprint set after replacing the fingerprint of rule `r` by that of its new signers / policies -/
def fpsAfter (s : Store) (r : Rule) (sg : List Signer) (ps : List Nat) : List Fp :=
  ((⟨r.ctype, sg, ps⟩ : Fp) :: s.fps).filter (fun x => !(fpEq (fpOf r) x))

theorem refingerprint_fps {s s2 : Store} {r : Rule} {sg : List Signer} {ps : List Nat}
    (h : refingerprint s r sg ps = .ok s2) :
    s2 = { s with fps := fpsAfter s r sg ps } ∧ s.fps.any (fpEq ⟨r.ctype, sg, ps⟩) = false := by
  unfold refingerprint at h
  cases hv : validateSignersAndPolicies sg ps with
  | error e => rw [hv] at h; cases h
  | ok u =>
    rw [hv] at h
    dsimp only at h
    cases h1 : validateAndSetFingerprint s r.ctype sg ps with
    | error e => rw [h1] at h; cases h
    | ok s1 =>
      rw [h1] at h
      dsimp only at h
      obtain ⟨e1, hn⟩ := validateAndSetFingerprint_fps h1
      subst e1
      exact ⟨removeFingerprint_fps h, hn⟩

theorem addContextRule_shape {s s' : Store} {now : Nat} {t : RuleType} {name : Nat} {vu : Option Nat}
    {sg : List Signer} {pm : List Nat} {io : Nat → Bool} {r : Rule}
    (h : addContextRule s now t name vu sg pm io = .ok (s', r)) :
    (∃ f, s' = { storeRule { s with fps := f } s.nextId t name vu sg (mapKeys pm) with
                 nextId := s.nextId + 1, count := s.count + 1 } ∧
          f = ⟨t, sg, mapKeys pm⟩ :: s.fps ∧ s.fps.any (fpEq ⟨t, sg, mapKeys pm⟩) = false) ∧
    r = { id := s.nextId, ctype := t, name := name, signers := sg, policies := mapKeys pm, validUntil := vu } := by
  unfold addContextRule at h
  by_cases hc : s.count ≥ MAX_CONTEXT_RULES
  · rw [if_pos hc] at h; cases h
  · rw [if_neg hc] at h
    by_cases hd : hasDup sg = true
    · rw [if_pos hd] at h; cases h
    · rw [if_neg hd] at h
      cases h1 : checkValidUntil now vu with
      | error e => rw [h1] at h; cases h
      | ok u =>
        rw [h1] at h; dsimp only at h
        cases h2 : validateSignersAndPolicies sg (mapKeys pm) with
        | error e => rw [h2] at h; cases h
        | ok u2 =>
          rw [h2] at h; dsimp only at h
          cases h3 : validateAndSetFingerprint s t sg (mapKeys pm) with
          | error e => rw [h3] at h; cases h
          | ok s1 =>
            rw [h3] at h; dsimp only at h
            cases h4 : installAll io (mapKeys pm) with
            | error e => rw [h4] at h; cases h
            | ok u4 =>
              rw [h4] at h; dsimp only at h
              unfold bumpCounters at h
              by_cases h5 : s.nextId + 1 > U32_MAX
              · rw [if_pos h5] at h; cases h
              · rw [if_neg h5] at h
                dsimp only at h
                injection h with h
                injection h with hs' hr
                obtain ⟨e1, hn⟩ := validateAndSetFingerprint_fps h3
                subst e1
                exact ⟨⟨_, hs'.symm, rfl, hn⟩, hr.symm⟩

theorem removeContextRule_shape {s s' : Store} {id : Nat} (h : removeContextRule s id = .ok s') :
    ∃ r f, getContextRule s id = .ok r ∧
      s' = { dropRule { s with fps := f } id r.ctype with count := s.count - 1 } ∧
      f = s.fps.filter (fun x => !(fpEq (fpOf r) x)) := by
  unfold removeContextRule at h
  cases hg : getContextRule s id with
  | error e => rw [hg] at h; cases h
  | ok r =>
    rw [hg] at h; dsimp only at h
    cases h1 : removeFingerprint s r.ctype r.signers r.policies with
    | error e => rw [h1] at h; cases h
    | ok s1 =>
      rw [h1] at h; dsimp only at h
      have e1 := removeFingerprint_fps h1
      subst e1
      unfold decCount at h
      split at h
      · cases h
      · injection h with h
        exact ⟨r, _, rfl, h.symm, rfl⟩

theorem updateValidUntil_shape {s s' : Store} {now id : Nat} {vu : Option Nat}
    (h : updateValidUntil s now id vu = .ok s') :
    ∃ r, getContextRule s id = .ok r ∧
      s' = { s with metas := updN s.metas id (some { name := r.name, ctype := r.ctype, validUntil := vu }) } := by
  unfold updateValidUntil at h
  cases hg : getContextRule s id with
  | error e => rw [hg] at h; cases h
  | ok r =>
    rw [hg] at h; dsimp only at h
    cases hv : checkValidUntil now vu with
    | error e => rw [hv] at h; cases h
    | ok u =>
      rw [hv] at h; dsimp only at h
      injection h with h
      exact ⟨r, rfl, h.symm⟩

theorem updateName_shape {s s' : Store} {id name : Nat} (h : updateName s id name = .ok s') :
    ∃ r, getContextRule s id = .ok r ∧
      s' = { s with metas := updN s.metas id (some { name := name, ctype := r.ctype, validUntil := r.validUntil }) } := by
  unfold updateName at h
  cases hg : getContextRule s id with
  | error e => rw [hg] at h; cases h
  | ok r =>
    rw [hg] at h; dsimp only at h
    injection h with h
    exact ⟨r, rfl, h.symm⟩

theorem addSigner_shape {s s' : Store} {id : Nat} {x : Signer} (h : addSigner s id x = .ok s') :
    ∃ r f, getContextRule s id = .ok r ∧ s' = setSigners { s with fps := f } id (r.signers ++ [x]) ∧
      f = fpsAfter s r (r.signers ++ [x]) r.policies ∧ s.fps.any (fpEq ⟨r.ctype, r.signers ++ [x], r.policies⟩) = false := by
  unfold addSigner at h
  cases hg : getContextRule s id with
  | error e => rw [hg] at h; cases h
  | ok r =>
    rw [hg] at h; dsimp only at h
    unfold addSignerTo at h
    by_cases hx : x ∈ r.signers
    · rw [if_pos hx] at h; cases h
    · rw [if_neg hx] at h
      cases hr : refingerprint s r (r.signers ++ [x]) r.policies with
      | error e => rw [hr] at h; cases h
      | ok s2 =>
        rw [hr] at h; dsimp only at h
        injection h with h
        obtain ⟨e, hn⟩ := refingerprint_fps hr
        subst e
        exact ⟨r, _, rfl, h.symm, rfl, hn⟩

theorem removeSigner_shape {s s' : Store} {id : Nat} {x : Signer} (h : removeSigner s id x = .ok s') :
    ∃ r f, getContextRule s id = .ok r ∧ s' = setSigners { s with fps := f } id (eraseLast x r.signers) ∧
      f = fpsAfter s r (eraseLast x r.signers) r.policies ∧ s.fps.any (fpEq ⟨r.ctype, eraseLast x r.signers, r.policies⟩) = false := by
  unfold removeSigner at h
  cases hg : getContextRule s id with
  | error e => rw [hg] at h; cases h
  | ok r =>
    rw [hg] at h; dsimp only at h
    unfold removeSignerFrom at h
    by_cases hx : x ∈ r.signers
    · rw [if_pos hx] at h
      cases hr : refingerprint s r (eraseLast x r.signers) r.policies with
      | error e => rw [hr] at h; cases h
      | ok s2 =>
        rw [hr] at h; dsimp only at h
        injection h with h
        obtain ⟨e, hn⟩ := refingerprint_fps hr
        subst e
        exact ⟨r, _, rfl, h.symm, rfl, hn⟩
    · rw [if_neg hx] at h; cases h

theorem addPolicy_shape {s s' : Store} {id p : Nat} {io : Bool} (h : addPolicy s id p io = .ok s') :
    ∃ r f, getContextRule s id = .ok r ∧ s' = setPolicies { s with fps := f } id (r.policies ++ [p]) ∧
      f = fpsAfter s r r.signers (r.policies ++ [p]) ∧ s.fps.any (fpEq ⟨r.ctype, r.signers, r.policies ++ [p]⟩) = false := by
  unfold addPolicy at h
  cases hg : getContextRule s id with
  | error e => rw [hg] at h; cases h
  | ok r =>
    rw [hg] at h; dsimp only at h
    unfold addPolicyTo at h
    by_cases hx : p ∈ r.policies
    · rw [if_pos hx] at h; cases h
    · rw [if_neg hx] at h
      by_cases hio : (!io) = true
      · rw [if_pos hio] at h; cases h
      · rw [if_neg hio] at h
        cases hr : refingerprint s r r.signers (r.policies ++ [p]) with
        | error e => rw [hr] at h; cases h
        | ok s2 =>
          rw [hr] at h; dsimp only at h
          injection h with h
          obtain ⟨e, hn⟩ := refingerprint_fps hr
          subst e
          exact ⟨r, _, rfl, h.symm, rfl, hn⟩

theorem removePolicy_shape {s s' : Store} {id p : Nat} (h : removePolicy s id p = .ok s') :
    ∃ r f, getContextRule s id = .ok r ∧ s' = setPolicies { s with fps := f } id (eraseLast p r.policies) ∧
      f = fpsAfter s r r.signers (eraseLast p r.policies) ∧ s.fps.any (fpEq ⟨r.ctype, r.signers, eraseLast p r.policies⟩) = false := by
  unfold removePolicy at h
  cases hg : getContextRule s id with
  | error e => rw [hg] at h; cases h
  | ok r =>
    rw [hg] at h; dsimp only at h
    unfold removePolicyFrom at h
    by_cases hx : p ∈ r.policies
    · rw [if_pos hx] at h
      cases hr : refingerprint s r r.signers (eraseLast p r.policies) with
      | error e => rw [hr] at h; cases h
      | ok s2 =>
        rw [hr] at h; dsimp only at h
        injection h with h
        obtain ⟨e, hn⟩ := refingerprint_fps hr
        subst e
        exact ⟨r, _, rfl, h.symm, rfl, hn⟩
    · rw [if_neg hx] at h; cases h

/-! #### the ghost list after each accepted operation -/

theorem gAt_fps (s : Store) (f : List Fp) (j : Nat) : gAt { s with fps := f } j = gAt s j := rfl

theorem gAt_setSigners (s : Store) (id : Nat) (L : List Signer) (j : Nat) :
    gAt (setSigners s id L) j = (gAt s j).map (fun g => if g.id == id then { g with signers := L } else g) := by
  rw [gAt_eq, gAt_eq]
  unfold gOf setSigners
  cases hm : s.metas j with
  | none => rfl
  | some m =>
    by_cases e : j = id
    · subst e; simp [updN]
    · simp [updN, e]

theorem gAt_setPolicies (s : Store) (id : Nat) (L : List Nat) (j : Nat) :
    gAt (setPolicies s id L) j = (gAt s j).map (fun g => if g.id == id then { g with policies := L } else g) := by
  rw [gAt_eq, gAt_eq]
  unfold gOf setPolicies
  cases hm : s.metas j with
  | none => rfl
  | some m =>
    by_cases e : j = id
    · subst e; simp [updN]
    · simp [updN, e]

theorem gAt_of_get {s : Store} {id : Nat} {r : Rule} (h : getContextRule s id = .ok r) : gAt s id = some (toG r) :=
  gAt_some.mpr ⟨r, h, rfl⟩

/-- rewriting the function applied at the one rule with the given id -/
theorem map_at_id {s : Store} {id : Nat} {r : Rule} (h : getContextRule s id = .ok r) (f f' : GRule → GRule)
    (hf : f (toG r) = f' (toG r)) (j : Nat) :
    (gAt s j).map (fun g => if g.id == id then f g else g) = (gAt s j).map (fun g => if g.id == id then f' g else g) := by
  cases hg : gAt s j with
  | none => rfl
  | some g =>
    simp only [Option.map_some]
    by_cases e : g.id = id
    · have hj : j = id := by rw [← gAt_id hg]; exact e
      subst hj
      rw [gAt_of_get h] at hg
      injection hg with hg; subst hg
      simp [hf]
    · simp [e]

theorem ghost_adds {s s' : Store} {id : Nat} {x : Signer} (h : addSigner s id x = .ok s') :
    allRules s' = modify (allRules s) id (fun r => { r with signers := r.signers ++ [x] }) := by
  obtain ⟨r, f, hg, hs', -, -⟩ := addSigner_shape h
  subst hs'
  apply allRules_modify (s := s) (by rfl)
  intro j
  rw [gAt_setSigners]
  exact map_at_id hg _ _ (by rfl) j

theorem signers_nodup {s : Store} (hI : Inv s) {id : Nat} {r : Rule} (h : getContextRule s id = .ok r) :
    r.signers.Nodup ∧ r.policies.Nodup := by
  obtain ⟨m, _, _, _, _, hsg, hpl⟩ := getContextRule_fields h
  constructor
  · rw [hsg]
    cases hq : s.signers id with
    | none => simp
    | some l => exact (hI.signers_ok id l hq).1
  · rw [hpl]
    cases hq : s.policies id with
    | none => simp
    | some l => exact (hI.policies_ok id l hq).1

theorem ghost_rms {s s' : Store} (hI : Inv s) {id : Nat} {x : Signer} (h : removeSigner s id x = .ok s') :
    allRules s' = modify (allRules s) id (fun r => { r with signers := r.signers.filter (· != x) }) := by
  obtain ⟨r, f, hg, hs', -, -⟩ := removeSigner_shape h
  subst hs'
  apply allRules_modify (s := s) (by rfl)
  intro j
  rw [gAt_setSigners]
  refine map_at_id hg _ _ ?_ j
  show ({ toG r with signers := eraseLast x r.signers } : GRule) = { toG r with signers := r.signers.filter (· != x) }
  rw [filter_ne_eq_eraseLast x r.signers (signers_nodup hI hg).1]

theorem ghost_addp {s s' : Store} {id p : Nat} {io : Bool} (h : addPolicy s id p io = .ok s') :
    allRules s' = modify (allRules s) id (fun r => { r with policies := r.policies ++ [p] }) := by
  obtain ⟨r, f, hg, hs', -, -⟩ := addPolicy_shape h
  subst hs'
  apply allRules_modify (s := s) (by rfl)
  intro j
  rw [gAt_setPolicies]
  exact map_at_id hg _ _ (by rfl) j

theorem ghost_rmp {s s' : Store} (hI : Inv s) {id p : Nat} (h : removePolicy s id p = .ok s') :
    allRules s' = modify (allRules s) id (fun r => { r with policies := r.policies.filter (· != p) }) := by
  obtain ⟨r, f, hg, hs', -, -⟩ := removePolicy_shape h
  subst hs'
  apply allRules_modify (s := s) (by rfl)
  intro j
  rw [gAt_setPolicies]
  refine map_at_id hg _ _ ?_ j
  show ({ toG r with policies := eraseLast p r.policies } : GRule) = { toG r with policies := r.policies.filter (· != p) }
  rw [filter_ne_eq_eraseLast p r.policies (signers_nodup hI hg).2]

theorem gAt_setMeta (s : Store) (id : Nat) (m' : Meta) (j : Nat) :
    gAt { s with metas := updN s.metas id (some m') } j
      = if j = id then some ⟨id, m'.ctype, m'.validUntil, (s.signers id).getD [], (s.policies id).getD []⟩ else gAt s j := by
  rw [gAt_eq, gAt_eq]
  unfold gOf
  by_cases e : j = id
  · subst e; simp [updN]
  · simp [updN, e]

theorem ghost_vu {s s' : Store} {now id : Nat} {vu : Option Nat} (h : updateValidUntil s now id vu = .ok s') :
    allRules s' = modify (allRules s) id (fun r => { r with vu := vu }) := by
  obtain ⟨r, hg, hs'⟩ := updateValidUntil_shape h
  subst hs'
  apply allRules_modify (s := s) (by rfl)
  intro j
  rw [gAt_setMeta]
  obtain ⟨m, hm, hc, _, _, hsg, hpl⟩ := getContextRule_fields hg
  by_cases e : j = id
  · subst e
    rw [if_pos rfl, gAt_of_get hg]
    simp [toG, hsg, hpl, getContextRule_id hg]
  · rw [if_neg e]
    cases hq : gAt s j with
    | none => rfl
    | some g => have := gAt_id hq; simp [this, e]

theorem ghost_name {s s' : Store} {id name : Nat} (h : updateName s id name = .ok s') :
    allRules s' = allRules s := by
  obtain ⟨r, hg, hs'⟩ := updateName_shape h
  subst hs'
  apply allRules_congr (s := s) (by rfl)
  intro j
  rw [gAt_setMeta]
  obtain ⟨m, hm, hc, _, hv, hsg, hpl⟩ := getContextRule_fields hg
  by_cases e : j = id
  · subst e
    rw [if_pos rfl, gAt_of_get hg]
    simp [toG, hsg, hpl, getContextRule_id hg]
  · rw [if_neg e]

theorem ghost_rm {s s' : Store} {id : Nat} (h : removeContextRule s id = .ok s') :
    allRules s' = (allRules s).filter (fun r => r.id != id) := by
  obtain ⟨r, f, hg, hs', -⟩ := removeContextRule_shape h
  subst hs'
  apply allRules_remove (s := s) (by rfl)
  intro j
  rw [gAt_eq, gAt_eq]
  unfold gOf dropRule
  by_cases e : j = id
  · subst e; simp [updN]
  · simp [updN, e]

theorem ghost_add {s s' : Store} {now : Nat} {t : RuleType} {name : Nat} {vu : Option Nat}
    {sg : List Signer} {pm : List Nat} {io : Nat → Bool} {r : Rule}
    (h : addContextRule s now t name vu sg pm io = .ok (s', r)) :
    allRules s' = ghostAdd (allRules s) (some r.id) t vu sg pm := by
  obtain ⟨⟨f, hs', -, -⟩, hr⟩ := addContextRule_shape h
  subst hs'; subst hr
  unfold ghostAdd allRules
  show List.filterMap _ (List.range (s.nextId + 1)) = _
  rw [List.range_succ, List.filterMap_append, sortDedup_eq]
  congr 1
  · apply filterMap_congr'
    intro j hj
    have hne : j ≠ s.nextId := Nat.ne_of_lt (List.mem_range.mp hj)
    rw [gAt_eq, gAt_eq]
    unfold gOf storeRule
    simp [updN, hne]
  · rw [List.filterMap_cons, List.filterMap_nil]
    rw [gAt_eq]
    unfold gOf storeRule
    simp [updN]

/-! ### the constructor -/

/-- the constructor succeeds exactly when the monitor's own limit test `ctorOk` says so -/
theorem ctor_result (start : Nat) (s0 : List Signer) (p0 : List Nat) :
    (ctorOk s0 p0 = true →
      ∃ s' r, addContextRule Store.empty start .default 0 none s0 p0 (fun _ => true) = .ok (s', r) ∧ r.id = 0) ∧
    (ctorOk s0 p0 = false →
      ∃ e, addContextRule Store.empty start .default 0 none s0 p0 (fun _ => true) = .error e) := by
  have hfp : hasDup (mapKeys p0) = false := (hasDup_false_iff _).mpr (mapKeys_nodup p0)
  unfold ctorOk
  rw [sortDedup_eq]
  unfold addContextRule
  rw [if_neg (by simp [Store.empty, MAX_CONTEXT_RULES])]
  by_cases hd : hasDup s0 = true
  · rw [if_pos hd]
    exact ⟨fun h => by simp [hd] at h, fun _ => ⟨_, rfl⟩⟩
  · rw [if_neg hd]
    have hd' : hasDup s0 = false := by simpa using hd
    have hcv : checkValidUntil start none = .ok () := rfl
    rw [hcv]
    dsimp only
    unfold validateSignersAndPolicies
    by_cases h1 : s0.length > MAX_SIGNERS
    · rw [if_pos h1]
      refine ⟨fun h => ?_, fun _ => ⟨_, rfl⟩⟩
      unfold MAX_SIGNERS at h1
      simp only [Bool.and_eq_true, decide_eq_true_eq] at h
      omega
    · rw [if_neg h1]
      by_cases h2 : (mapKeys p0).length > MAX_POLICIES
      · rw [if_pos h2]
        refine ⟨fun h => ?_, fun _ => ⟨_, rfl⟩⟩
        unfold MAX_POLICIES at h2
        simp only [Bool.and_eq_true, decide_eq_true_eq] at h
        omega
      · rw [if_neg h2]
        by_cases h3 : (s0.isEmpty && (mapKeys p0).isEmpty) = true
        · rw [if_pos h3]
          refine ⟨fun h => ?_, fun _ => ⟨_, rfl⟩⟩
          simp [h3] at h
        · rw [if_neg h3]
          dsimp only
          have hv : validateAndSetFingerprint Store.empty .default s0 (mapKeys p0)
              = .ok { Store.empty with fps := [⟨.default, s0, mapKeys p0⟩] } := by
            unfold validateAndSetFingerprint computeFingerprint
            rw [if_neg hd, if_neg (by rw [hfp]; simp)]
            rfl
          rw [hv]
          dsimp only
          have hi : installAll (fun _ => true) (mapKeys p0) = .ok () := by
            unfold installAll; rw [if_pos (by simp)]
          rw [hi]
          dsimp only
          have hb : ∀ st : Store, bumpCounters st (Store.empty.nextId) (Store.empty.count)
              = .ok { st with nextId := 1, count := 1 } := by
            intro st; unfold bumpCounters; rw [if_neg (by simp [Store.empty, U32_MAX])]; rfl
          rw [hb]
          refine ⟨fun _ => ⟨_, _, rfl, rfl⟩, fun h => ?_⟩
          exfalso
          unfold MAX_SIGNERS at h1
          unfold MAX_POLICIES at h2
          have h3' : (s0.isEmpty && (mapKeys p0).isEmpty) = false := by simpa using h3
          rw [hd', h3'] at h
          simp at h
          omega

theorem allRules_empty : allRules Store.empty = [] := rfl

end OZ.SmartAccount.Mon
