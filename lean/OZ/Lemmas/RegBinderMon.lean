import OZ.Lemmas.RegBinder
import OZ.Lemmas.RegMon2
import OZ.Model.RegBinderMon
/-
Helper facts for the soundness proof of the `binder` monitor of C20 (OZ/Props/C20cMon.lean): the
link between the monitor's plain set and the flat list the buckets represent, the plain set's
accept / refuse decision against the model's, and each getter check on the model's answers.
-/
namespace OZ.RegBinder.Mon
open OZ.Reg OZ.RegMon OZ.RegBinder

/-- the monitor's plain set has the members of the flat list `l` the buckets represent -/
structure AgreeL (g : Mon) (s : State) (l : List Nat) : Prop where
  rep : Rep s l
  nodup : g.set.Nodup
  mem : ∀ x, x ∈ g.set ↔ x ∈ l

/-- the monitor's plain set describes the model state -/
structure Agree (g : Mon) (s : State) (u : Nat) : Prop where
  u : g.u = u
  list : ∃ l, AgreeL g s l

theorem AgreeL.perm {g : Mon} {s : State} {l : List Nat} (h : AgreeL g s l) : g.set.Perm l :=
  perm_of_nodup_mem h.nodup h.rep.nodup h.mem

theorem AgreeL.len {g : Mon} {s : State} {l : List Nat} (h : AgreeL g s l) : g.set.length = l.length :=
  h.perm.length_eq

theorem AgreeL.contains {g : Mon} {s : State} {l : List Nat} (h : AgreeL g s l) (t : Nat) :
    g.set.contains t = isTokenBound s t := by
  rw [Bool.eq_iff_iff, List.contains_iff_mem, rep_isTokenBound h.rep, h.mem]

/-- an operation the model accepts is accepted by the plain set, which then describes the new
model state -/
theorem plain_ok {g : Mon} {s s' : State} {l : List Nat} (ha : AgreeL g s l) {op : Op}
    (hs : step s op = .ok s') : ∃ g' l', plain g op = .ok g' ∧ g'.u = g.u ∧ AgreeL g' s' l' := by
  have h := ha.rep
  cases op with
  | bind t =>
    obtain ⟨⟨hn, hl⟩, rfl⟩ := (bindToken_ok_iff h s' t).1 hs
    have h1 : g.set.contains t = false := by
      rw [Bool.eq_false_iff]; intro hc; exact hn ((ha.mem t).1 (List.contains_iff_mem.1 hc))
    have h2 : ¬ g.set.length ≥ 10000 := by rw [ha.len]; unfold MAX_TOKENS at hl; omega
    refine ⟨{ g with set := g.set ++ [t] }, l ++ [t], ?_, rfl, rep_push h hn hl, ?_, ?_⟩
    · simp only [plain]; rw [h1]; simp only [Bool.false_eq_true, if_false]; rw [if_neg h2]
    · exact nodup_append_singleton ha.nodup (fun hc => hn ((ha.mem t).1 hc))
    · intro x; simp [ha.mem]
  | bindMany ts =>
    obtain ⟨⟨h1, h2, h3, h4⟩, rfl⟩ := (bindTokens_ok_iff h s' ts).1 hs
    unfold BUCKET_SIZE at h1
    unfold MAX_TOKENS at h2
    refine ⟨{ g with set := g.set ++ ts }, l ++ ts, ?_, rfl, rep_foldl_push h ts h3 h4 h2, ?_, ?_⟩
    · simp only [plain]
      rw [if_neg (by omega), if_neg (by rw [ha.len]; omega), (nodupB_iff ts).2 h3]
      simp only [Bool.not_true, Bool.false_eq_true, if_false]
      rw [if_neg]
      rw [List.any_eq_true]
      rintro ⟨x, hx, hc⟩
      exact h4 x hx ((ha.mem x).1 (List.contains_iff_mem.1 hc))
    · rw [List.nodup_append]
      exact ⟨ha.nodup, h3, fun a ha' b hb hab => h4 b hb ((ha.mem b).1 (hab ▸ ha'))⟩
    · intro x; simp [ha.mem]
  | unbind t =>
    by_cases ht : t ∈ l
    · obtain ⟨s'', idx, hs'', hget, hr⟩ := (unbindToken_ok_iff h t).1 ht
      have e : s' = s'' := by
        have h1 : unbindToken s t = .ok s' := hs
        rw [h1] at hs''; injection hs''
      subst e
      have h1 : g.set.contains t = true := List.contains_iff_mem.2 ((ha.mem t).2 ht)
      refine ⟨{ g with set := g.set.erase t }, swapPop l idx, ?_, rfl, hr, ha.nodup.erase t, ?_⟩
      · simp only [plain]; rw [h1]; rfl
      · intro x
        show x ∈ g.set.erase t ↔ _
        rw [ha.nodup.mem_erase_iff, mem_swapPop l h.nodup idx t hget x, ha.mem]
        exact And.comm
    · obtain ⟨e, he⟩ := (unbindToken_ok_iff h t).2 ht
      have h1 : unbindToken s t = .ok s' := hs
      rw [h1] at he; cases he

/-- an operation the model refuses is refused by the plain set -/
theorem plain_err {g : Mon} {s : State} {l : List Nat} (ha : AgreeL g s l) {op : Op} {e : RErr}
    (hs : step s op = .error e) : ∃ w, plain g op = .error w := by
  have h := ha.rep
  cases op with
  | bind t =>
    simp only [plain]
    by_cases h1 : g.set.contains t = true
    · rw [if_pos h1]; exact ⟨_, rfl⟩
    · rw [if_neg h1]
      by_cases h2 : g.set.length ≥ 10000
      · rw [if_pos h2]; exact ⟨_, rfl⟩
      · exfalso
        have hn : t ∉ l := fun hm => h1 (List.contains_iff_mem.2 ((ha.mem t).2 hm))
        have : bindToken s t = .ok _ :=
          (bindToken_ok_iff h _ t).2 ⟨⟨hn, by rw [ha.len] at h2; unfold MAX_TOKENS; omega⟩, rfl⟩
        rw [show step s (.bind t) = bindToken s t from rfl, this] at hs; cases hs
  | bindMany ts =>
    simp only [plain]
    by_cases h1 : ts.length > 200
    · rw [if_pos h1]; exact ⟨_, rfl⟩
    rw [if_neg h1]
    by_cases h2 : g.set.length + ts.length > 10000
    · rw [if_pos h2]; exact ⟨_, rfl⟩
    rw [if_neg h2]
    by_cases h3 : ts.Nodup
    · rw [(nodupB_iff ts).2 h3]
      simp only [Bool.not_true, Bool.false_eq_true, if_false]
      by_cases h4 : ts.any g.set.contains = true
      · rw [if_pos h4]; exact ⟨_, rfl⟩
      · exfalso
        have hdis : ∀ t, t ∈ ts → t ∉ l := by
          intro t ht hm
          exact h4 (List.any_eq_true.2 ⟨t, ht, List.contains_iff_mem.2 ((ha.mem t).2 hm)⟩)
        have : bindTokens s ts = .ok _ :=
          (bindTokens_ok_iff h _ ts).2 ⟨⟨by unfold BUCKET_SIZE; omega,
            by rw [ha.len] at h2; unfold MAX_TOKENS; omega, h3, hdis⟩, rfl⟩
        rw [show step s (.bindMany ts) = bindTokens s ts from rfl, this] at hs; cases hs
    · have : nodupB ts = false := by
        rw [Bool.eq_false_iff]; exact fun hc => h3 ((nodupB_iff ts).1 hc)
      rw [this]; exact ⟨_, rfl⟩
  | unbind t =>
    simp only [plain]
    by_cases h1 : g.set.contains t = true
    · exfalso
      obtain ⟨s'', idx, hs'', -, -⟩ := (unbindToken_ok_iff h t).1 ((ha.mem t).1 (List.contains_iff_mem.1 h1))
      rw [show step s (.unbind t) = unbindToken s t from rfl, hs''] at hs; cases hs
    · rw [if_neg h1]; exact ⟨_, rfl⟩

/-! the getter checks on the model's answers -/

theorem bOk_model {g : Mon} {s : State} {l : List Nat} (ha : AgreeL g s l) (t : Nat) :
    bOk g (t, some (if isTokenBound s t then 1 else 0)) = true := by
  unfold bOk
  simp only [ha.contains t]
  exact beq_self_eq_true _

theorem ixOk_model {g : Mon} {s : State} {l : List Nat} (ha : AgreeL g s l) (t : Nat) :
    ixOk g l.length (t, getTokenIndex s t) = true := by
  unfold ixOk
  simp only
  cases hi : getTokenIndex s t with
  | none =>
    have : t ∉ l := (rep_getTokenIndex_none ha.rep t).1 hi
    have hc : g.set.contains t = false := by
      rw [Bool.eq_false_iff]; exact fun hc => this ((ha.mem t).1 (List.contains_iff_mem.1 hc))
    rw [hc]; rfl
  | some i =>
    have hget := rep_getTokenIndex_some ha.rep t i hi
    have hlt : i < l.length := by rw [List.getElem?_eq_some_iff] at hget; exact hget.1
    have hc : g.set.contains t = true :=
      List.contains_iff_mem.2 ((ha.mem t).2 (List.mem_of_getElem? hget))
    rw [hc]
    simp [hlt]

theorem atOk_model {g : Mon} {s : State} {l : List Nat} (ha : AgreeL g s l) (i : Nat) :
    atOk g l.length (i, getTokenByIndex s i) = true := by
  unfold atOk
  simp only
  rw [rep_getTokenByIndex ha.rep]
  cases hi : l[i]? with
  | none =>
    have : l.length ≤ i := by simpa using hi
    simp; omega
  | some t =>
    have hlt : i < l.length := by rw [List.getElem?_eq_some_iff] at hi; exact hi.1
    have hc : t ∈ g.set := (ha.mem t).2 (List.mem_of_getElem? hi)
    simp [hlt, hc]

theorem roundOk_model {s : State} {l : List Nat} (h : Rep s l) (pi : List Nat) (full : Option (List Nat))
    (hf : ∀ l', full = some l' → l' = l) (t : Nat) :
    roundOk (pi.map (fun i => (i, getTokenByIndex s i))) full (t, getTokenIndex s t) = true := by
  unfold roundOk
  simp only
  cases hi : getTokenIndex s t with
  | none => rfl
  | some i =>
    have hget := rep_getTokenIndex_some h t i hi
    simp only [Bool.and_eq_true]
    constructor
    · cases hf' : (pi.map (fun i => (i, getTokenByIndex s i))).find? (fun x => x.1 == i) with
      | none => rfl
      | some x =>
        have := find_graph_some pi (getTokenByIndex s) i x hf'
        subst this
        rw [rep_getTokenByIndex h, hget]
        simp
    · cases hfu : full with
      | none => rfl
      | some l' =>
        rw [hf l' hfu]
        show (l[i]? == some t) = true
        rw [hget]
        simp

end OZ.RegBinder.Mon
